import QipVerif.Util.GateIO
import QipVerif.Util.RatProto
import QipVerif.Model.SpinChain
import QipVerif.Model.Sched
import QipVerif.Model.SpinChainSched
import QipVerif.Gen.DeviceTables
/-! Driver for the model of the spin-chain compiler stage (C06), `Rat` instance: angles are fixed
multiples of π/8 (kept in units of π), hardware parameters exact rationals.

* `load setup=linear|circular n=N mode=ASAP|ALAP|none pre=0|1 phase0=r sx=r,.. sz=r,.. sxsy=r,..|- gates=<list>`
    the whole `load_circuit`: transpile (model of C13 with the given `pre`), compile, label check,
    schedule (model of C05/C11) →
    `ok phase=<r> native=<gate list> instrs=<k>:<NAME>/<targets>:<label>:<coeff>:<dur>:<start>;…`   (k = position in the
    instruction list, compile order; label `-` for an IDLE instruction; `phase` in units of π) |
    `err transpile:<kind>` | `err unsupported|index|key|shape|noPulse|symbolic|param`
* `compile …same fields, no pre…`   compile + schedule of the given (already native) gate list, no label check
* `label setup= n=N a=A b=B`  →  `ok idx=<i> exists=0|1 q=<q0>,<q1> connects=0|1 adjacent=0|1`
* `tables` → `rules=NAME:<rule>,… resets=0|1 hands=0|1 defaults=sx,sz,sxsy ctl=<prefix>:<coef at pi=1>:<op>,…
    linear=<native>:<topo> circular=<native>:<topo> swap=<param key>:<label prefix>`
-/
open QipVerif QipVerif.Proto QipVerif.GateIO QipVerif.RatProto QipVerif.SpinChain QipVerif.Gen.SC

def showErr : SpinChain.Err → String
  | .unsupported => "err unsupported" | .index => "err index" | .key => "err key"
  | .shape => "err shape" | .noPulse => "err noPulse"

/-- angles in units of π; the driver only accepts fixed angles, for which the valuation of the symbols is irrelevant
(`Model/SpinChainSched.evQr`, the function the theorems of C06 are about) -/
def evQ (a : Ang) : Rat := evQr (fun _ => 0) a

/-- start time of every instruction: cumulative sums (no scheduling) or the scheduler model
(`Model/SpinChainSched.lean`, the function the theorems of C06 are about) -/
def starts (mode : String) (is : List (Instr Rat)) : Option (List Rat) :=
  modelStarts (if mode == "none" then none else some (mode == "ALAP")) is

def showLabel (c : Option (String × Int)) : String :=
  match c with
  | none => "-"
  | some (p, n) => p ++ toString n

def posOf (g : Gate) (l : List Gate) (k : Nat) : Nat :=
  match l with
  | [] => k
  | x :: xs => if x == g then k else posOf g xs (k + 1)

def showInstrs (is : List (Instr Rat)) (st : List Rat) : String :=
  let rec go (is : List (Instr Rat)) (st : List Rat) (k : Nat) : List String :=
    match is, st with
    | i :: is', s :: st' =>
      s!"{k}:{i.gate.name.toString}/{showNatsDot i.gate.targets}:{showLabel i.chan}:{showRat i.coeff}:{showRat i.dur}:{showRat s}"
        :: go is' st' (k + 1)
    | _, _ => []
  let l := go is st 0
  if l.isEmpty then "-" else ";".intercalate l

def paramsOf (fs : List String) : Option (Params Rat) :=
  let get (k : String) : Option (List Rat) :=
    match field? fs k with
    | none => none
    | some "-" => some []
    | some s => ratList? s
  match get "sx", get "sz", get "sxsy" with
  | some a, some b, some c => some ⟨a, b, c⟩
  | _, _, _ => none

def tErr : Transpile.Err → String
  | .route .shape => "err transpile:route:shape" | .route .notImplemented => "err transpile:route:notimpl"
  | .route .value => "err transpile:route:value"
  | .decomp .notSufficient1q => "err transpile:decomp:notSufficient1q" | .decomp .invalid2q => "err transpile:decomp:invalid2q"
  | .decomp .cannotResolve => "err transpile:decomp:cannotResolve" | .decomp .index => "err transpile:decomp:index"

def showRule : Rule → String
  | .rotation o p => s!"rotation/{o}/{p}"
  | .exchange n d => s!"exchange/{n}/{d}"
  | .phase => "phase" | .noop => "noop" | .idle => "idle"

def showPauli : Pauli → String | .x => "x" | .y => "y" | .z => "z"

def runCompile (fs : List String) (circular : Bool) (n : Nat) (mode : String) (P : Params Rat) (ph0 : Rat)
    (native : List Gate) (check : Bool) : String :=
  if !(native.all fun g => g.arg.isFixed) then "err symbolic" else
  if !((P.sx ++ P.sz ++ P.sxsy).all fun x => x != 0) then "err param" else
  let r := if check then SpinChain.load (1 : Rat) evQ circular n P ph0 native
           else SpinChain.compile (1 : Rat) evQ n P ph0 native
  let _ := fs
  match r with
  | .error e => showErr e
  | .ok (is, ph) =>
    match starts mode is with
    | none => "err noqubits"
    | some st => s!"ok phase={showRat ph} native={showGates native} instrs={showInstrs is st}"

def step (line : String) : String :=
  let fs := fields line
  match fs.head? with
  | some "load" =>
    match fStr? fs "setup", fNat? fs "n", fStr? fs "mode", fNat? fs "pre", fRat? fs "phase0", paramsOf fs,
        (fStr? fs "gates").bind gates? with
    | some st, some n, some mode, some pre, some ph0, some P, some gs =>
      if st != "linear" && st != "circular" then "bad-op" else
      if mode != "ASAP" && mode != "ALAP" && mode != "none" then "bad-op" else
      let circular := st == "circular"
      let dev : Transpile.Device := if circular then .circularSpinChain else .linearSpinChain
      match Transpile.transpileV Gen.tables (pre != 0) (Gen.deviceSpec dev) n gs with
      | .error e => tErr e
      | .ok native => runCompile fs circular n mode P ph0 native true
    | _, _, _, _, _, _, _ => "bad-op"
  | some "compile" =>
    match fStr? fs "setup", fNat? fs "n", fStr? fs "mode", fRat? fs "phase0", paramsOf fs,
        (fStr? fs "gates").bind gates? with
    | some st, some n, some mode, some ph0, some P, some gs =>
      if st != "linear" && st != "circular" then "bad-op" else
      if mode != "ASAP" && mode != "ALAP" && mode != "none" then "bad-op" else
      runCompile fs (st == "circular") n mode P ph0 gs false
    | _, _, _, _, _, _ => "bad-op"
  | some "label" =>
    match fStr? fs "setup", fNat? fs "n", fNat? fs "a", fNat? fs "b" with
    | some st, some n, some a, some b =>
      let circular := st == "circular"
      let q1 := swapQ1 (a : Int) (b : Int)
      let q2 := swapQ2 (a : Int) (b : Int)
      let idx := swapLabelIdx (n : Int) q1 q2
      let c := control? circular n swapPrefix idx
      let qs := match c with
        | some h => showInts h.qubits
        | none => "-"
      let b2 := fun (x : Bool) => if x then "1" else "0"
      s!"ok idx={idx} exists={b2 c.isSome} q={qs} connects={b2 (connects circular n idx a b)} adjacent={b2 (adjacent circular n a b)}"
    | _, _, _, _ => "bad-op"
  | some "tables" =>
    let rules := ",".intercalate (gateCompiler.map fun (g, r) => s!"{g}:{showRule r}")
    let b2 := fun (x : Bool) => if x then "1" else "0"
    let fr := fun (p : Int × Nat) => showRat ((p.1 : Rat) / (p.2 : Rat))
    let ctl := s!"{ctlA_prefix}:{showRat (ctlA_coef (1 : Rat))}:{showPauli ctlA_op},{ctlB_prefix}:{showRat (ctlB_coef (1 : Rat))}:{showPauli ctlB_op},{ctlG_prefix}:{showRat (ctlG_coef (1 : Rat))}:" ++
      "+".intercalate (ctlG_terms.map fun (s, a, b) => s!"{s}{showPauli a}{showPauli b}")
    let spec := fun (d : Transpile.Device) =>
      let sp := Gen.deviceSpec d
      (match sp.native with | none => "None" | some l => ",".intercalate (l.map GName.toString)) ++ ":" ++
        (match sp.topo with | none => "none" | some .linear => "linear" | some .circular => "circular" | some .other => "other")
    s!"ok rules={rules} resets={b2 compileResetsPhase} hands={b2 handsBackPhase} defaults={fr default_sx},{fr default_sz},{fr default_sxsy} ctl={ctl} linear={spec .linearSpinChain} circular={spec .circularSpinChain} swap={swapParamKey}:{swapPrefix}"
  | _ => "bad-op"

def main : IO Unit := serve step
