import QipVerif.Util.Proto
/-! Driver stub (to be filled in by the owner of this model). -/
open QipVerif.Proto
def step (_line : String) : String := "bad-op"
def main : IO Unit := serve step
