import QipVerif.Util.Proto
import QipVerif.Util.RatProto
import QipVerif.Model.Concat
import QipVerif.Gen.ConcatSrc
import QipVerif.Model.PulseStore
/-! Driver for the concatenation model (C12), run on the description of the source that `py/props/c12.py` regenerates
(`Gen/ConcatSrc.lean`).  Rationals are `p/q` or `p`.  `scale=r` multiplies the tolerance constants of the source (default 1).

* `proc w=<wave>`                                     → `ok <mode> <step> <gate_tlist> <coeffs>` | `err <kind>`
* `idle mode=d|c start=r last=r step=r`               → `ok <tlist>` | `err <kind>`
* `concat [scale=r] [chans=<chan>!<chan>…]`           → `ok <tlist>:<coeffs>!…` (`~` for a channel left empty) | `err <kind>`
     `<chan>` = `<start>@<wave>;<start>@<wave>;…` (`-` for a channel without instruction),
     `<wave>` = `s:<t>:<c>` | `a:<t,t,…>:<c,c,…>` | `m:<t,t,…>:<c>`
* `compile [scale=r] mode=none|sched starts=r,r,… perm=i,j,… instrs=<instr>;<instr>;…`
     `<instr>` = `<tl>@<label>=<coef>&<label>=<coef>…`, `<tl>` = `s:<t>` | `a:<t,…>`, `<coef>` = `s:<c>` | `a:<c,…>`
     → `ok <label>:<tlist>:<coeffs>!…` | `ok none` | `err <kind>` | `unmodelled`
* `store coeffs=l,l,… tlists=l,l,…` (labels of the items of the two dicts `load_circuit` stores, in dict order; array `k` of a
     dict is its `k`-th item) → `ok <label>:<tlist no. or ~>:<coeff no.>!…` (the processor's pulses in order) | `err key`
-/
open QipVerif QipVerif.Proto QipVerif.RatProto QipVerif.Concat

def errName : Err → String
  | .shape => "shape" | .index => "index" | .zerodiv => "zerodiv" | .empty => "empty" | .type => "type" | .badperm => "badperm" | .t0 => "t0"

def wave? (s : String) : Option Wave :=
  match s.splitOn ":" with
  | ["s", t, c] => match rat? t, rat? c with
    | some t, some c => some (.scalar t c)
    | _, _ => none
  | ["a", tl, cs] => match ratList? tl, ratList? cs with
    | some tl, some cs => some (.arr tl cs)
    | _, _ => none
  | ["m", tl, c] => match ratList? tl, rat? c with
    | some tl, some c => some (.mixed tl c)
    | _, _ => none
  | _ => none

def chan? (s : String) : Option (List (Rat × Wave)) :=
  if s = "-" then some [] else
  (s.splitOn ";").mapM fun e =>
    match e.splitOn "@" with
    | [st, w] => match rat? st, wave? w with
      | some st, some w => some (st, w)
      | _, _ => none
    | _ => none

def tl? (s : String) : Option TList :=
  match s.splitOn ":" with
  | ["s", t] => (rat? t).map .scalar
  | ["a", tl] => (ratList? tl).map .arr
  | _ => none

def coef? (s : String) : Option Coef :=
  match s.splitOn ":" with
  | ["s", t] => (rat? t).map .scalar
  | ["a", tl] => (ratList? tl).map .arr
  | _ => none

def instr? (s : String) : Option Instr :=
  match s.splitOn "@" with
  | [t, ps] =>
    match tl? t, (splitNE ps "&").mapM (fun p => match p.splitOn "=" with
        | [l, c] => match l.toNat?, coef? c with
          | some l, some c => some (l, c)
          | _, _ => none
        | _ => none) with
    | some t, some ps => some ⟨t, ps⟩
    | _, _ => none
  | _ => none

def showChan (r : List Rat × List Rat) : String := showRats r.1 ++ ":" ++ showRats r.2
def showChanO : Option (List Rat × List Rat) → String
  | some r => showChan r
  | none => "~"

/-- the source description of the working tree, tolerances scaled by `scale=` (default 1) -/
def srcOf (fs : List String) : Src := Gen.concatSrc.scale ((fRat? fs "scale").getD 1)

def step (line : String) : String :=
  let fs := fields line
  match fs.head? with
  | some "proc" =>
    match (fStr? fs "w").bind wave? with
    | some w =>
      match procPulseS Gen.concatSrc.proc w with
      | .error e => "err " ++ errName e
      | .ok p => s!"ok {if p.mode = .discrete then "d" else "c"} {showRat p.step} {showRats p.gt} {showRats p.cs}"
    | none => "bad-op"
  | some "idle" =>
    match fStr? fs "mode", fRat? fs "start", fRat? fs "last", fRat? fs "step" with
    | some m, some st, some la, some sp =>
      if m ≠ "d" ∧ m ≠ "c" then "bad-op" else
      match idleS Gen.concatSrc.idle (if m = "d" then .discrete else .continuous) st la sp with
      | .error e => "err " ++ errName e
      | .ok l => "ok " ++ showRats l
    | _, _, _, _ => "bad-op"
  | some "concat" =>
    let chans? : Option (List (List (Rat × Wave))) :=
      match fStr? fs "chans" with
      | none => some []
      | some s => (s.splitOn "!").mapM chan?
    match chans? with
    | some chans =>
      match concatenateS (srcOf fs) chans with
      | .error e => "err " ++ errName e
      | .ok outs => "ok " ++ "!".intercalate (outs.map showChanO)
    | none => "bad-op"
  | some "compile" =>
    match fStr? fs "mode", (fStr? fs "instrs").bind (fun s => (s.splitOn ";").mapM instr?) with
    | some mode, some instrs =>
      let sch : Option (Option (List Rat × List Nat)) :=
        if mode = "none" then some none
        else if mode = "sched" then
          match fRats? fs "starts", fNats? fs "perm" with
          | some st, some pm => some (some (st, pm))
          | _, _ => none
        else none
      match sch with
      | none => "bad-op"
      | some sch =>
        match compileS (srcOf fs) instrs sch with
        | none => "unmodelled"
        | some (.error e) => "err " ++ errName e
        | some (.ok none) => "ok none"
        | some (.ok (some outs)) =>
          "ok " ++ "!".intercalate (outs.map fun o => toString o.1 ++ ":" ++ showChanO o.2)
    | _, _ => "bad-op"
  | some "store" =>
    let enum (l : List Nat) : List (Nat × Nat) := l.zip (List.range l.length)
    match fStr? fs "coeffs", fStr? fs "tlists" with
    | some c, some t =>
      match (if c = "-" then some [] else natList? c), (if t = "-" then some [] else natList? t) with
      | some cl, some tl =>
        match Store.storePulses (enum cl) (enum tl) with
        | none => "err key"
        | some ps => "ok " ++ "!".intercalate (ps.map fun p =>
            s!"{p.label}:{match p.tl with | some t => toString t | none => "~"}:{p.co}")
      | _, _ => "bad-op"
    | _, _ => "bad-op"
  | _ => "bad-op"

def main : IO Unit := serve step
