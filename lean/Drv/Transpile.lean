import QipVerif.Util.GateIO
import QipVerif.Gen.DeviceTables
import QipVerif.Gen.DecompAlias
/-! Driver for the model of `ModelProcessor.transpile` (C13).

* `transpile dev=<device> n=N [m=M] [pre=0|1] [rz=0|1] gates=<list>` → `ok <list>` | `err route:<kind>` | `err decomp:<kind>`
  | `err size`  (`n` = `qc.N`, `m` = `processor.num_qubits`, default `n`; `pre` overrides the regenerated
  `Gen.preDecompose`; gate syntax of `Util/GateIO.lean`)
  Alias names with a rule (`Gen.ruleAlias`: `H`, C03's regenerated table) are read as their canonical name when the
  device has native gates: such a gate has one qubit (the router leaves it alone, pre-decomposition looks at gates on more
  than two qubits) and is always rewritten by the native stage, so its own name occurs nowhere in the result.
* `route setup=linear|circular n=N gates=<list>` → the routing stage alone
* `tables` → the regenerated device tables:
  `pre=<0|1> guard=<0|1> rzx=<0|1> <device>=<native names,…|None>:<setup>:<setup when qc.N < num_qubits> …`
* `coupled dev=<device> n=N gates=<list>` → `1`/`0` per gate (the model's coupling predicate)
-/
open QipVerif QipVerif.Proto QipVerif.GateIO QipVerif.Transpile

def devices : List (String × Device) :=
  [("LinearSpinChain", .linearSpinChain), ("CircularSpinChain", .circularSpinChain),
   ("SCQubits", .scQubits), ("DispersiveCavityQED", .cavityQED)]

def dev? (s : String) : Option Device := (devices.find? (·.1 == s)).map (·.2)

def rErr : Route.Err → String
  | .shape => "shape" | .notImplemented => "notimpl" | .value => "value"

def dErr : Decomp.Err → String
  | .notSufficient1q => "notSufficient1q" | .invalid2q => "invalid2q"
  | .cannotResolve => "cannotResolve" | .index => "index"

def showErr : Transpile.Err → String
  | .route e => "err route:" ++ rErr e
  | .decomp e => "err decomp:" ++ dErr e

def showSetup : Option Route.Setup → String
  | none => "none" | some .linear => "linear" | some .circular => "circular" | some .other => "other"

def showSpec (s : DeviceSpec) : String :=
  (match s.native with
   | none => "None"
   | some l => ",".intercalate (l.map GName.toString)) ++ ":" ++ showSetup s.topo

def step (line : String) : String :=
  let fs := fields line
  match fs.head? with
  | some "transpile" =>
    match (fStr? fs "dev").bind dev?, fNat? fs "n", (fStr? fs "gates").bind gates? with
    | some d, some n, some gs =>
      let pre := match fNat? fs "pre" with | some k => k != 0 | none => Gen.preDecompose
      let m := (fNat? fs "m").getD n
      let gs := if (Gen.deviceSpec d).native.isSome then
          gs.map fun g => if g.qubits.length = 1 then
            ⟨Decomp.canonName Gen.ruleAlias g.name, g.targets, g.controls, g.arg⟩ else g
        else gs
      let rz := match fNat? fs "rz" with | some k => k != 0 | none => Gen.routeRzx
      match transpileDR Gen.tables pre Gen.sizeGuard rz (Gen.deviceSpec d) (Gen.deviceSpecSmall d) m n gs with
      | .ok out => "ok " ++ showGates out
      | .error .size => "err size"
      | .error (.inner e) => showErr e
    | _, _, _ => "bad-op"
  | some "route" =>
    match fStr? fs "setup", fNat? fs "n", (fStr? fs "gates").bind gates? with
    | some st, some n, some gs =>
      let setup : Route.Setup := if st = "linear" then .linear else if st = "circular" then .circular else .other
      match routeStage n setup gs with
      | .ok out => "ok " ++ showGates out
      | .error e => "err route:" ++ rErr e
    | _, _, _ => "bad-op"
  | some "coupled" =>
    match (fStr? fs "dev").bind dev?, fNat? fs "n", (fStr? fs "gates").bind gates? with
    | some d, some n, some gs =>
      "ok " ++ ",".intercalate (gs.map fun g => if gateCoupledB (Gen.deviceSpec d).topo n g then "1" else "0")
    | _, _, _ => "bad-op"
  | some "tables" =>
    s!"pre={if Gen.preDecompose then 1 else 0} guard={if Gen.sizeGuard then 1 else 0} rzx={if Gen.routeRzx then 1 else 0} " ++
      " ".intercalate (devices.map fun (nm, d) =>
        nm ++ "=" ++ showSpec (Gen.deviceSpec d) ++ ":" ++ showSetup (Gen.deviceSpecSmall d).topo)
  | _ => "bad-op"

def main : IO Unit := serve step
