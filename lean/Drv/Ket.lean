import QipVerif.Util.GateIO
import QipVerif.Model.SimKet
/-! Driver for the model of gate-level evolution (C01), exact arithmetic over ℤ[ζ₁₆][1/2].

scalar  = `e:c0_c1_.._c7`          value (Σ c_j ζ^j)/2^e, ζ = e^{iπ/8}
vector  = scalar,scalar,…          matrix = row;row;…
op      = `NAME/targets/controls/angle/cn/arg[/objname|-[/control_value]]`  (GateIO gate encoding + `cn` = 1 iff `gate.controls is None`
                                                  + integer `arg` = `arg_value` handed to a 1-argument user function, `-` if none
                                                  + optionally the object's `.name` attribute — the key of the user-table
                                                  lookup — when the gate object was built through a gate class)
ops     = op@op@…  (`-` for none)
ug      = name~kind~m~matrix^…     kind ∈ oper fn0 fn1 fn2 other; `fn1` denotes `lambda a: a * matrix`

* `lists n=K targets=..`                         → `ok anc|tgt|idx|new`
* `lookup ug=.. name=NAME cn=0|1`                → `ok library|userOper|userCall0|userCall1` | `err ..`
* `ket N= ug= ops= state=<vector> trace=0|1`     → `ok vector(#vector…)`      state-vector mode, ket input
* `histket N= ug= ops= state=<vector> script=e;t1:2;c0:2;t0:0;e` → `ok <answer>#<answer>…` one `ok vector` / `err ..` per `e`:
                                                   the gate objects are re-targeted between the runs (tI:qubits, cI:qubits|N)
* `oper N= ug= ops= state=<matrix> trace=0|1`    → `ok matrix(#…)`            state-vector mode, operator input
* `dm N= ug= ops= state=<matrix> trace=0|1`      → `ok matrix(#…)`            density-matrix mode
* `dmket N= ug= ops= state=<vector>`             → `ok matrix`                density-matrix mode, ket input (ket2dm)
* `unitary N= ug= ops=`                          → `ok matrix`                compute_unitary
* `props N= expand=0|1 ug= ops=`                 → `ok matrix#matrix…` | `ok -`
* `propsm N= expand=0|1 ignore=0|1 ug= ops= meas=i,j,…|-` → as `props`, for the circuit with a measurement inserted
                                                   in front of gate number i (i = number of gates: at the end) | `err measurement`
* `prod N= ltr=0|1 ug= ops=`                     → `ok matrix` | `ok int1`    product of the expanded propagators
* `compact N= ug= ops= ord=sorted|rev|tab:A>B>ans^… [entries=X.Y,X.Y…]`
                                                 → `ok inds|matrix` or `ok inds|vector` (the sampled entries)
-/
open QipVerif QipVerif.Proto QipVerif.GateIO QipVerif.SimKet

abbrev S := CycD
def O : Ops S := CycD.ops

def showS (a : S) : String := s!"{a.e}:{showCyc a.v}"
def showVec (l : List S) : String := ",".intercalate (l.map showS)
def showMat (m : List (List S)) : String := ";".intercalate (m.map showVec)

def cyc? (s : String) : Option Cyc :=
  match (s.splitOn "_").mapM String.toInt? with
  | some [a, b, c, d, e, f, g, h] => some ⟨a, b, c, d, e, f, g, h⟩
  | _ => none

def scalar? (s : String) : Option S :=
  match s.splitOn ":" with
  | [e, c] => match e.toNat?, cyc? c with
    | some e, some c => some ⟨e, c⟩
    | _, _ => none
  | _ => none

def vec? (s : String) : Option (List S) := (splitNE s ",").mapM scalar?
def mat? (s : String) : Option (List (List S)) := (splitNE s ";").mapM vec?

def errName : Err → String
  | .embed .count => "embed-count" | .embed .range => "embed-range" | .embed .dims => "embed-dims"
  | .embed .index => "embed-index" | .embed .permute => "embed-permute"
  | .index => "index" | .einsum => "einsum" | .empty => "empty"
  | .userControls => "userControls" | .userParams => "userParams" | .userNeither => "userNeither"
  | .unknownGate => "unknownGate" | .fuel => "fuel" | .measurement => "measurement" | .controlValue => "controlValue"

structure UDef where
  name : String
  kind : UserKind
  m : Nat
  mat : List (List S)

def kind? : String → Option UserKind
  | "oper" => some .oper | "fn0" => some (.fn 0) | "fn1" => some (.fn 1) | "fn2" => some (.fn 2)
  | "other" => some .other | _ => none

def udef? (s : String) : Option UDef :=
  match s.splitOn "~" with
  | [n, k, m, mt] =>
    match kind? k, m.toNat?, (if mt == "-" then some [] else mat? mt) with
    | some k, some m, some mt => some ⟨n, k, m, mt⟩
    | _, _, _ => none
  | _ => none

def udefs? (s : String) : Option (List UDef) :=
  if s == "-" then some [] else (splitNE s "^").mapM udef?

structure OpReq where
  g : Gate
  cn : Bool
  arg : Option Int
  /-- the `.name` attribute of the gate object when it differs from the library name of its matrix
  (objects built through the gate classes: `H(0).name = "H"`, `CY(0, 1).name = "_OneControlledGate"` …) -/
  objname : Option String := none
  /-- `gate.control_value` when given explicitly -/
  cv : Option Nat := none

def opReq6? (n t c a cn arg : String) (objname : Option String) : Option OpReq :=
  match gate? ("/".intercalate [n, t, c, a]), cn.toNat? with
  | some g, some cnv =>
    if arg == "-" then some ⟨g, cnv == 1, none, objname, none⟩ else
      match arg.toInt? with
      | some v => some ⟨g, cnv == 1, some v, objname, none⟩
      | none => none
  | _, _ => none

def opReq? (s : String) : Option OpReq :=
  match s.splitOn "/" with
  | [n, t, c, a, cn, arg] => opReq6? n t c a cn arg none
  | [n, t, c, a, cn, arg, on] => opReq6? n t c a cn arg (if on == "-" then none else some on)
  | [n, t, c, a, cn, arg, on, cv] =>
    match cv.toNat?, opReq6? n t c a cn arg (if on == "-" then none else some on) with
    | some v, some r => some { r with cv := some v }
    | _, _ => none
  | _ => none

def opReqs? (s : String) : Option (List OpReq) :=
  if s == "-" then some [] else (splitNE s "@").mapM opReq?

def dmatRows (d : DMat) : List (List S) := d.m.map (·.map fun c => CycD.norm d.e c)

/-- the library as the driver knows it: exact matrices `gateE` at fixed angles (multiples of π/8) -/
def libE : Library OpReq S where
  compact := fun _ q =>
    if !q.g.arg.isFixed then none else
    match gateE q.g.name q.g.arg.p8 with
    | some (m, d) => some (m, dmatRows d)
    | none => none
  phase := fun q => ⟨0, Cyc.zpow q.g.arg.p8⟩

/-- the user table: `oper` / `fn0` yield the matrix, `fn1` denotes `lambda a: a * matrix` (integer `a`) -/
def userGateOf (u : UDef) : UserGate OpReq S where
  name := u.name
  kind := u.kind
  m := u.m
  yield := fun
    | none => u.mat
    | some q => u.mat.map (·.map (CycD.mul ⟨0, Cyc.ofInt (q.arg.getD 0)⟩))

def reqOf (r : OpReq) : GateReq OpReq :=
  ⟨r.objname.getD r.g.name.toString, r.g.targets, r.g.controls, r.cn, r, r.cv⟩

/-- resolution of the gate objects to matrix steps: the model's `resolveAll` (Model/SimKet.lean (f));
a GLOBALPHASE with a symbolic angle cannot be represented exactly and is refused here -/
def resolveAllD (ug : List UDef) (rs : List OpReq) : Except Err (List (Op S)) :=
  if rs.any (fun r => r.g.name = .GLOBALPHASE && !r.g.arg.isFixed) then .error .unknownGate
  else resolveAll libE (ug.map userGateOf) (rs.map reqOf)

/-- `e` | `tI:a.b` | `cI:a.b` | `cI:N` (None) | `tI:-` (empty list) -/
def histOp? (s : String) : Option HistOp :=
  if s == "e" then some .eval else
  match s.splitOn ":" with
  | [hd, v] =>
    let kind := hd.take 1
    match (hd.drop 1).toNat? with
    | none => none
    | some i =>
      let l : Option (List Nat) := if v == "-" then some [] else natsDot? v
      if kind == "t" then l.map (HistOp.setTargets i)
      else if kind == "c" then (if v == "N" then some (.setControls i none) else l.map fun x => .setControls i (some x))
      else none
  | _ => none

def chunks (n : Nat) (l : List S) : List (List S) :=
  (List.range (l.length / n)).map fun i => (l.drop (i * n)).take n

def natsDotList? (s : String) : Option (List Nat) := natsDot? s

def ordOf (s : String) : Option (List Nat → List Nat → List Nat) :=
  if s == "sorted" then some ordSorted
  else if s == "rev" then some ordRev
  else if s.startsWith "tab:" then
    let body := (s.drop 4).toString
    let ents := (splitNE body "^").mapM fun e =>
      match e.splitOn ">" with
      | [a, b, c] => match natsDot? a, natsDot? b, natsDot? c with
        | some a, some b, some c => some ((a, b), c)
        | _, _, _ => none
      | _ => none
    match ents with
    | some tab => some fun a b => match tab.lookup (a, b) with
      | some c => c
      | none => ordSorted a b
    | none => none
  else none

def withOps (fs : List String) (k : Nat → List (Op S) → String) : String :=
  match fNat? fs "N", (fStr? fs "ug").bind udefs?, (fStr? fs "ops").bind opReqs? with
  | some N, some ug, some rs =>
    match resolveAllD ug rs with
    | .ok ops => k N ops
    | .error e => "err " ++ errName e
  | _, _, _ => "bad-op"

def answer {β : Type} (r : Except Err β) (f : β → String) : String :=
  match r with
  | .ok v => "ok " ++ f v
  | .error e => "err " ++ errName e

def step (line : String) : String :=
  let fs := fields line
  let trace := fNat? fs "trace" == some 1
  match fs.head? with
  | some "lists" =>
    match fNat? fs "n", (fStr? fs "targets").bind natList? with
    | some n, some ts =>
      let L := einLists n ts
      "ok " ++ "|".intercalate [showNats L.anc, showNats L.tgt, showNats L.idx, showNats L.new]
    | _, _ => "bad-op"
  | some "lookup" =>
    match (fStr? fs "ug").bind udefs?, fStr? fs "name", fNat? fs "cn" with
    | some ug, some n, some cn =>
      answer (getGateUnitary (ug.map fun u => (u.name, u.kind)) n (cn == 1)) fun
        | .library => "library" | .userOper _ => "userOper" | .userCall0 _ => "userCall0" | .userCall1 _ => "userCall1"
    | _, _, _ => "bad-op"
  | some "ket" =>
    withOps fs fun N ops =>
      match (fStr? fs "state").bind vec? with
      | some amps =>
        if trace then answer (traceKet O ops (ketTensor N amps)) fun l => "#".intercalate (l.map fun t => showVec t.data)
        else answer (runKet O ops (ketTensor N amps)) fun t => showVec t.data
      | none => "bad-op"
  | some "histket" =>
    -- a history on the live gate objects (Model/SimKet.lean (h)); every `e` is a state-vector run on `state`
    match fNat? fs "N", (fStr? fs "ug").bind udefs?, (fStr? fs "ops").bind opReqs?, (fStr? fs "state").bind vec?,
        (fStr? fs "script").bind (fun s => (splitNE s ";").mapM histOp?) with
    | some N, some ug, some rs, some amps, some script =>
      let ev := fun (gs : List (GateReq OpReq)) =>
        if rs.any (fun r => r.g.name = .GLOBALPHASE && !r.g.arg.isFixed) then Except.error Err.unknownGate else
        match resolveAll libE (ug.map userGateOf) gs with
        | .ok ops => runKet O ops (ketTensor N amps)
        | .error e => .error e
      "ok " ++ "#".intercalate ((runHist ev (rs.map reqOf) script).map fun r => answer r fun t => showVec t.data)
    | _, _, _, _, _ => "bad-op"
  | some "oper" =>
    withOps fs fun N ops =>
      match (fStr? fs "state").bind mat? with
      | some rows =>
        if trace then answer (traceKet O ops (operTensor N rows)) fun l =>
          "#".intercalate (l.map fun t => showMat (chunks (2 ^ N) t.data))
        else answer (runKet O ops (operTensor N rows)) fun t => showMat (chunks (2 ^ N) t.data)
      | none => "bad-op"
  | some "dm" =>
    withOps fs fun N ops =>
      match (fStr? fs "state").bind mat? with
      | some rows =>
        let ρ := FMat.ofRows O (2 ^ N) rows
        if trace then answer (traceDm O N ops ρ) fun l => "#".intercalate (l.map fun m => showMat m.rows)
        else answer (runDm O N ops ρ) fun m => showMat m.rows
      | none => "bad-op"
  | some "dmket" =>
    withOps fs fun N ops =>
      match (fStr? fs "state").bind vec? with
      | some amps => answer (runDm O N ops (ket2dm O (2 ^ N) amps)) fun m => showMat m.rows
      | none => "bad-op"
  | some "unitary" =>
    withOps fs fun N ops => answer (computeUnitary O N ops) fun t => showMat (chunks (2 ^ N) t.data)
  | some "props" =>
    withOps fs fun N ops =>
      answer (propagators O N (fNat? fs "expand" == some 1) ops) fun l =>
        if l.isEmpty then "-" else "#".intercalate (l.map fun m => showMat m.rows)
  | some "propsm" =>
    -- measurements inserted before the gates at the positions `meas` (position = number of gates in front)
    withOps fs fun N ops =>
      match (fStr? fs "meas").bind (fun s => if s == "-" then some [] else natList? s) with
      | some ms =>
        let items : List (Item S) :=
          ((List.range (ops.length + 1)).map fun i =>
            List.replicate (ms.count i) Item.meas ++ (match ops[i]? with | some o => [Item.op o] | none => [])).flatten
        answer (propagatorsM O N (fNat? fs "expand" == some 1) (fNat? fs "ignore" == some 1) items) fun l =>
          if l.isEmpty then "-" else "#".intercalate (l.map fun m => showMat m.rows)
      | none => "bad-op"
  | some "prod" =>
    withOps fs fun N ops =>
      answer (propagators O N true ops) fun l =>
        match seqProduct O (fNat? fs "ltr" != some 0) none l with
        | some m => showMat m.rows
        | none => "int1"
  | some "compact" =>
    withOps fs fun N ops =>
      match (fStr? fs "ord").bind ordOf with
      | some ord =>
        let blocks : List (Block S) := ops.map fun
          | .phase c => (FMat.smul O c (FMat.ident O (2 ^ N)), List.range N)
          | .gate qs m U => (FMat.ofRows O (2 ^ m) U, qs)
        answer (compactProduct O ord blocks) fun (U, inds) =>
          showNatsDot inds ++ "|" ++
          match fStr? fs "entries" with
          | some es =>
            showVec ((splitNE es ",").map fun e =>
              match natsDot? e with
              | some [x, y] => U.get x y
              | _ => CycD.zero)
          | none => showMat U.rows
      | none => "bad-op"
  | _ => "bad-op"

def main : IO Unit := serve step
