import QipVerif.Util.Proto
import QipVerif.Model.Render
/-! Driver for the text-renderer model (C20).

Request (one line):

`render n=N c=C padn=.. padd=.. ext=.. align=0|1 [var=sin] [labels=<lab>;<lab>;…;] ops=<op>/<op>/…`

* `padn/padd` = `gate_pad` as an exact fraction (`padn` may be negative, `gate_pad ≤ -1` is refused: `bad-op`)
* `var=` five digits: spanFix, insideNode, globalBox, measBox, resetLayout of `Render.Variant` (missing digits = 0; absent = the shipped tree)
* `render2 … ops0=<ops> ops=<ops>`: the second `layout()` of one renderer object (first call on `ops0`, second on `ops`)

* a string is the list of its code points in decimal joined by `.` (empty string = nothing)
* `labels=` : every label is *terminated* by `;` (`labels=` is the empty list, key absent = `None`)
* `<op>` is `g:<name>:<arg_label>:<targets>:<controls>` with `<arg_label>` = `-` (None) or
  `L<string>`, `<targets>` comma separated, `<controls>` = `-` (None) or `c<comma separated>`;
  or `m:<targets>:<classical_store>`; or `M:<targets>` (measurement with classical_store = None);
  or `G:<name>:<arg_label>` (gate with targets = controls = None).

Answer: `ok <row>|<row>|…` (rows in print order, each row a `.`-joined code point list)
or `err index` / `err value`.  `widths …` answers `ok w1,w2,…` (row lengths only).
-/
open QipVerif QipVerif.Proto QipVerif.Render

def parseStr (s : String) : Option Str :=
  ((s.splitOn ".").filter (· ≠ "")).mapM fun t => t.toNat?.map Char.ofNat

def parseNats (s : String) : Option (List Nat) :=
  ((s.splitOn ",").filter (· ≠ "")).mapM String.toNat?

def dropFirst (s : String) : String := String.ofList (s.toList.drop 1)

def parseOp (s : String) : Option Op :=
  match s.splitOn ":" with
  | ["g", name, lab, ts, cs] => do
    let name ← parseStr name
    let lab ← if lab = "-" then pure none
              else if lab.startsWith "L" then (parseStr (dropFirst lab)).map some else none
    let ts ← parseNats ts
    let cs ← if cs = "-" then pure none
             else if cs.startsWith "c" then (parseNats (dropFirst cs)).map some else none
    pure (.gate name lab ts cs)
  | ["G", name, lab] => do
    let name ← parseStr name
    let lab ← if lab = "-" then pure none
              else if lab.startsWith "L" then (parseStr (dropFirst lab)).map some else none
    pure (.glob name lab)
  | ["M", ts] => do
    let ts ← parseNats ts
    pure (.measNS ts)
  | ["m", ts, store] => do
    let ts ← parseNats ts
    let st ← store.toNat?
    pure (.meas ts st)
  | _ => none

def parseOps (s : String) : Option (List Op) :=
  ((s.splitOn "/").filter (· ≠ "")).mapM parseOp

def parseLabels (s : String) : Option (List Str) :=
  ((s.splitOn ";").dropLast).mapM parseStr

def showStr (r : Str) : String := ".".intercalate (r.map fun c => toString c.toNat)

def parseVariant (s : String) : Option Variant :=
  match s.toList with
  | [a, b, c] =>
    if [a, b, c].all (fun x => x = '0' || x = '1') then
      some { spanFix := a = '1', insideNode := b = '1', globalBox := c = '1' }
    else none
  | [a, b, c, d] =>
    if [a, b, c, d].all (fun x => x = '0' || x = '1') then
      some { spanFix := a = '1', insideNode := b = '1', globalBox := c = '1', measBox := d = '1' }
    else none
  | [a, b, c, d, e] =>
    if [a, b, c, d, e].all (fun x => x = '0' || x = '1') then
      some { spanFix := a = '1', insideNode := b = '1', globalBox := c = '1', measBox := d = '1', resetLayout := e = '1' }
    else none
  | _ => none

def parseReq (fs : List String) : Option (Variant × Style × Circ) := do
  let n ← fNat? fs "n"
  let c ← fNat? fs "c"
  let padn ← fInt? fs "padn"
  let padd ← fNat? fs "padd"
  if padd = 0 then none
  if padn ≤ -(padd : Int) then none
  let v ← parseVariant ((field? fs "var").getD "000")
  let ext ← fInt? fs "ext"
  let align ← fNat? fs "align"
  let labels ← match field? fs "labels" with
    | none => pure none
    | some l => (parseLabels l).map some
  let ops ← parseOps ((field? fs "ops").getD "")
  pure (v, { padNum := padn, padDen := padd, ext := ext, align := align != 0, labels := labels },
        { N := n, C := c, ops := ops })

def errName : Err → String
  | .index => "index" | .value => "value" | .type => "type"

def step (line : String) : String :=
  let fs := fields line
  match fs.head? with
  | some "render" =>
    match parseReq fs with
    | none => "bad-op"
    | some (v, sty, c) =>
      match render v sty c with
      | .ok rows => "ok " ++ "|".intercalate (rows.map showStr)
      | .error e => "err " ++ errName e
  | some "render2" =>
    -- the second `layout()` of one renderer object; `ops0=` is the circuit at the first call
    match parseReq fs, parseOps ((field? fs "ops0").getD "") with
    | some (v, sty, c), some ops0 =>
      match render2 v sty { c with ops := ops0 } c with
      | .ok rows => "ok " ++ "|".intercalate (rows.map showStr)
      | .error e => "err " ++ errName e
    | _, _ => "bad-op"
  | some "widths" =>
    match parseReq fs with
    | none => "bad-op"
    | some (v, sty, c) =>
      match render v sty c with
      | .ok rows => "ok " ++ showNats (rows.map List.length)
      | .error e => "err " ++ errName e
  | _ => "bad-op"

def main : IO Unit := serve step
