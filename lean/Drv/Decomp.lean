import QipVerif.Util.GateIO
import QipVerif.Gen.DecompTables
import QipVerif.Gen.DecompLabels
import QipVerif.Gen.DecompAlias
/-! Driver for the `resolve_gates` model (C03).

* `resolve keep=0|1 basis=str:NAME | list:N1,N2,.. gates=<list>` → `ok <list>` | `err <kind>`
* `resolvef v=<keepMarkers><keepCond><exactStr> basis=… items=<item;item;…>` → `ok <fgate;…>` | `err <kind>`
  (every field of the emitted gate objects; `Model/DecomposeF.lean`)
  item  = `M` (a measurement) | NAME/targets/controls/angle/label/cond
  label = `n` | `f<k>_<m>` (the text kπ/m) | `u<id>` (a user's text)
  cond  = `n` | `<bits>:<value>`            fgate = item fields + `/src` (`n` | index of the input gate passed through)
  alias names of `Gen.ruleAlias` (`H`) are read as their canonical name (`resolveCA`)
* `history v=<3 bits> items=<items> ops=<op|op|…>` → the answers of the `resolve_gates` calls of a history on ONE circuit
  object, joined by `#` (`Decomp.runHistory`); op = `R~<basis>` | `T~i~<targets>` | `C~i~<controls>` | `A~i~<angle>` |
  `K~i~<cond>` | `P~<item>` (append) | `D~i` (remove)
* `buildable gates=<list>` → `1,0,…`: do the constructors of the gate classes accept name + controls (`Decomp.buildable`)
-/
open QipVerif QipVerif.Proto QipVerif.GateIO QipVerif.Decomp

def errName : Err → String
  | .notSufficient1q => "notSufficient1q" | .invalid2q => "invalid2q"
  | .cannotResolve => "cannotResolve" | .index => "index"

def basis? (s : String) : Option BasisSpec :=
  if s.startsWith "str:" then some (.str (GName.ofString (s.drop 4).toString))
  else if s.startsWith "list:" then some (.list ((splitNE (s.drop 5).toString ",").map GName.ofString))
  else none

def lab? (s : String) : Option Lab :=
  if s == "n" then some .none
  else if s.startsWith "u" then ((s.drop 1).toString.toNat?).map Lab.user
  else if s.startsWith "f" then
    match (s.drop 1).toString.splitOn "_" with
    | [k, m] => match k.toInt?, m.toNat? with
      | some k, some m => some (.frac k m)
      | _, _ => none
    | _ => none
  else none

def showLab : Lab → String
  | .none => "n" | .frac k m => s!"f{k}_{m}" | .user i => s!"u{i}"

def cond? (s : String) : Option (Option Cond) :=
  if s == "n" then some none
  else match s.splitOn ":" with
    | [b, v] => match natsDot? b, v.toNat? with
      | some bs, some v => some (some ⟨bs, v⟩)
      | _, _ => none
    | _ => none

def showCond : Option Cond → String
  | none => "n" | some c => s!"{showNatsDot c.bits}:{c.value}"

def item? (s : String) : Option CircItem :=
  if s == "M" then some .meas else
  match s.splitOn "/" with
  | [n, t, c, a, l, k] =>
    match natsDot? t, natsDot? c, ang? a, lab? l, cond? k with
    | some ts, some cs, some an, some lb, some cd => some (.gate ⟨GName.ofString n, ts, cs, an⟩ lb cd)
    | _, _, _, _, _ => none
  | _ => none

def items? (s : String) : Option (List CircItem) :=
  if s == "-" then some [] else (splitNE s ";").mapM item?

def showF (f : FGate) : String :=
  let src := match f.src with | some i => toString i | none => "n"
  s!"{showGate f.g}/{showLab f.lab}/{showCond f.cond}/{src}"

def variant? (s : String) : Option FVariant :=
  match s.toList with
  | [a, b, c] =>
    if [a, b, c].all (fun x => x == '0' || x == '1') then some ⟨a == '1', b == '1', c == '1'⟩ else none
  | _ => none

def hop? (s : String) : Option HOp :=
  match s.splitOn "~" with
  | ["R", b] => (basis? b).map HOp.resolve
  | ["T", i, t] => match i.toNat?, natsDot? t with
    | some i, some ts => some (.setTargets i ts) | _, _ => none
  | ["C", i, c] => match i.toNat?, natsDot? c with
    | some i, some cs => some (.setControls i cs) | _, _ => none
  | ["A", i, a] => match i.toNat?, ang? a with
    | some i, some a => some (.setArg i a) | _, _ => none
  | ["K", i, k] => match i.toNat?, cond? k with
    | some i, some c => some (.setCond i c) | _, _ => none
  | ["P", it] => (item? it).map HOp.append
  | ["D", i] => i.toNat?.map HOp.remove
  | _ => none

def showAnswer : Except ErrC (List FGate) → String
  | .ok out => "ok " ++ (if out.isEmpty then "-" else ";".intercalate (out.map showF))
  | .error .measurement => "err measurement"
  | .error (.res e) => "err " ++ errName e

def step (line : String) : String :=
  let fs := fields line
  match fs.head? with
  | some "resolve" =>
    match fNat? fs "keep", (fStr? fs "basis").bind basis?, (fStr? fs "gates").bind gates? with
    | some keep, some b, some gs =>
      match resolve Gen.tables (keep != 0) b gs with
      | .ok out => "ok " ++ showGates out
      | .error e => "err " ++ errName e
    | _, _, _ => "bad-op"
  | some "buildable" =>
    match (fStr? fs "gates").bind gates? with
    | some gs => ",".intercalate (gs.map fun g => if buildable g then "1" else "0")
    | none => "bad-op"
  | some "history" =>
    match (fStr? fs "v").bind variant?, (fStr? fs "items").bind items?,
        (fStr? fs "ops").bind (fun s => (splitNE s "|").mapM hop?) with
    | some v, some its, some ops =>
      "#".intercalate ((runHistory Gen.tables Gen.labels Gen.ruleAlias v its ops).map showAnswer)
    | _, _, _ => "bad-op"
  | some "resolvef" =>
    match (fStr? fs "v").bind variant?, (fStr? fs "basis").bind basis?, (fStr? fs "items").bind items? with
    | some v, some b, some its =>
      match resolveCA Gen.tables Gen.labels Gen.ruleAlias v b its with
      | .ok out => "ok " ++ (if out.isEmpty then "-" else ";".intercalate (out.map showF))
      | .error .measurement => "err measurement"
      | .error (.res e) => "err " ++ errName e
    | _, _, _ => "bad-op"
  | _ => "bad-op"

def main : IO Unit := serve step
