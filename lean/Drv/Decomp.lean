import QipVerif.Util.GateIO
import QipVerif.Gen.DecompTables
/-! Driver for the `resolve_gates` model (C03).

* `resolve keep=0|1 basis=str:NAME | list:N1,N2,.. gates=<list>` → `ok <list>` | `err <kind>`
-/
open QipVerif QipVerif.Proto QipVerif.GateIO QipVerif.Decomp

def errName : Err → String
  | .notSufficient1q => "notSufficient1q" | .invalid2q => "invalid2q"
  | .cannotResolve => "cannotResolve" | .index => "index"

def basis? (s : String) : Option BasisSpec :=
  if s.startsWith "str:" then some (.str (GName.ofString (s.drop 4).toString))
  else if s.startsWith "list:" then some (.list ((splitNE (s.drop 5).toString ",").map GName.ofString))
  else none

def step (line : String) : String :=
  let fs := fields line
  match fs.head? with
  | some "resolve" =>
    match fNat? fs "keep", (fStr? fs "basis").bind basis?, (fStr? fs "gates").bind gates? with
    | some keep, some b, some gs =>
      match resolve Gen.tables (keep != 0) b gs with
      | .ok out => "ok " ++ showGates out
      | .error e => "err " ++ errName e
    | _, _, _ => "bad-op"
  | _ => "bad-op"

def main : IO Unit := serve step
