import QipVerif.Util.Proto
import QipVerif.Model.Qft
/-! Driver for the QFT gate-list model (C17).

* `qft n=N swapping=0|1 cnot=0|1`  →  `ok G;G;…` with `G = KIND:targets:controls:num/exp`
  (`-` for an empty list / no angle)  |  `err value` (N < 1)
* `steps n=N swapping=0|1`         →  `ok S;S;…` with `S = snot:i` | `cphase:i:j:k` | `swap:a:b`  |  `err value`
-/
open QipVerif QipVerif.Proto QipVerif.Qft

def kindName : Kind → String
  | .SNOT => "SNOT" | .CPHASE => "CPHASE" | .SWAP => "SWAP" | .CNOT => "CNOT" | .RZ => "RZ"
  | .GLOBALPHASE => "GLOBALPHASE"

def showL (l : List Nat) : String := if l.isEmpty then "-" else showNats l

def showGate (g : Gate) : String :=
  let a := match g.ang with
    | none => "-"
    | some a => s!"{a.num}/{a.exp}"
  s!"{kindName g.kind}:{showL g.targets}:{showL g.controls}:{a}"

def showStep : Step → String
  | .snot i => s!"snot:{i}"
  | .cphase i j k => s!"cphase:{i}:{j}:{k}"
  | .swap a b => s!"swap:{a}:{b}"

def flag? (fs : List String) (key : String) : Option Bool :=
  match fStr? fs key with
  | some "0" => some false
  | some "1" => some true
  | _ => none

def step (line : String) : String :=
  let fs := fields line
  match fs.head? with
  | some "qft" =>
    match fInt? fs "n", flag? fs "swapping", flag? fs "cnot" with
    | some n, some sw, some cn =>
      if n < 1 then "err value" else
      match gateSequence n.toNat sw cn with
      | none => "err value"
      | some gs => "ok " ++ ";".intercalate (gs.map showGate)
    | _, _, _ => "bad-op"
  | some "steps" =>
    match fInt? fs "n", flag? fs "swapping" with
    | some n, some sw =>
      if n < 1 then "err value" else
      match qftSteps n.toNat sw with
      | none => "err value"
      | some ss => "ok " ++ ";".intercalate (ss.map showStep)
    | _, _ => "bad-op"
  | _ => "bad-op"

def main : IO Unit := serve step
