import QipVerif.Util.Proto
import QipVerif.Model.Noise
/-! Driver for the relaxation-noise model (C15).

Times: `none` | `s:n/d` (scalar) | `l:n/d;none;n/d` (list, `l:` = empty list); `d > 0`.
Targets: `none` (default) | `-` (empty) | `0,1`.

* `relax fixed=0|1 [strict=0|1] dims=2,3 t1=.. t2=.. targets=..`       → `ok <ops>` | `err <kind>`
  (`strict=1`: `_T_to_list` with the entry check of fixes/C15-3.patch; default 0 = entries unchecked, as shipped)
* `process fixed=0|1 dims=.. t1=.. t2=.. device=0|1 noises=<spec>+<spec>..|-`
     spec: `R~<t1>~<t2>~<targets>` | `D~<ids>~<targets>~<allq 0|1>` | `C`  → `ok <ops>` | `err <kind>`
  `<ops>` = `;`-separated `targets:kind:dim:n/d` (targets `.`-separated, kind `destroy|num|user<id>`,
  rate `nan` when the prefactor is not finite)
-/
open QipVerif QipVerif.Proto QipVerif.Noise

def parseFrac (s : String) : Option Frac :=
  match s.splitOn "/" with
  | [a, b] => match a.toInt?, b.toNat? with
    | some n, some d => if d = 0 then none else some ⟨n, d⟩
    | _, _ => none
  | _ => none

def parseOptFrac (s : String) : Option (Option Frac) :=
  if s == "none" then some none else (parseFrac s).map some

def parseT (s : String) : Option TSpec :=
  if s == "none" then some .none
  else if s.startsWith "s:" then (parseFrac (s.drop 2).toString).map .scalar
  else if s.startsWith "l:" then ((splitNE (s.drop 2).toString ";").mapM parseOptFrac).map .list
  else none

def parseTargets (s : String) : Option (Option (List Nat)) :=
  if s == "none" then some none
  else if s == "-" then some (some [])
  else (natList? s).map some

def parseNoise (s : String) : Option NoiseSpec :=
  match s.splitOn "~" with
  | ["C"] => some .coherent
  | ["R", a, b, t] =>
    match parseT a, parseT b, parseTargets t with
    | some a, some b, some t => some (.relax a b t)
    | _, _, _ => none
  | ["D", ids, t, q] =>
    match natList? ids, parseTargets t, q.toNat? with
    | some ids, some (some t), some q => some (.decoherence ids t (q == 1))
    | _, _, _ => none
  | _ => none

def errName : Err → String
  | .invalidT => "invalidT" | .t2gt2t1 => "t2gt2t1" | .zerodiv => "zerodiv" | .index => "index"

def showOp (c : COp) : String :=
  ".".intercalate (c.targets.map toString) ++ ":" ++
    (match c.kind with | .destroy => "destroy" | .num => "num" | .user i => s!"user{i}") ++
    s!":{c.dim}:" ++ (match c.rate with | none => "nan" | some r => s!"{r.n}/{r.d}")

def showRes : Except Err (List COp) → String
  | .ok ops => "ok " ++ ";".intercalate (ops.map showOp)
  | .error e => "err " ++ errName e

def step (line : String) : String :=
  let fs := fields line
  match fs.head? with
  | some "relax" =>
    match fNat? fs "fixed", fNats? fs "dims", (fStr? fs "t1").bind parseT, (fStr? fs "t2").bind parseT,
        (fStr? fs "targets").bind parseTargets with
    | some fx, some dims, some t1, some t2, some tg =>
      showRes (relaxationOpsS ((fNat? fs "strict").getD 0 == 1) (fx == 1) dims t1 t2 tg)
    | _, _, _, _, _ => "bad-op"
  | some "process" =>
    match fNat? fs "fixed", fNats? fs "dims", (fStr? fs "t1").bind parseT, (fStr? fs "t2").bind parseT,
        fNat? fs "device", fStr? fs "noises" with
    | some fx, some dims, some t1, some t2, some dev, some ns =>
      let specs := if ns == "-" then some [] else (splitNE ns "+").mapM parseNoise
      match specs with
      | some specs => showRes (processNoiseS ((fNat? fs "strict").getD 0 == 1) (fx == 1) dims specs t1 t2 (dev == 1))
      | none => "bad-op"
    | _, _, _, _, _, _ => "bad-op"
  | _ => "bad-op"

def main : IO Unit := serve step
