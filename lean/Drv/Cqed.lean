import QipVerif.Model.Cqed
import QipVerif.Util.Proto
/-!
# drv_cqed — the model of the cavity-QED / superconducting-qubit pulse compilers run with `Float` (property C18)

Numbers travel as the decimal value of their IEEE-754 bit pattern (`Float.toBits`), so the comparison with numpy is
bit for bit where the arithmetic is the same.

```
cq n=N w0=F deltamax=F,.. epsmax=F,.. eps=F,.. delta=F,.. g=F,.. gates=NAME/t.t/c.c/F;…
scq n=N drag=0|1 ns=K wq=F,.. wr=F,.. alpha=F,.. g=F,.. os=F,.. ocr=F,.. gates=…
  -> ok phase=F ins=<instr>|<instr>…      instr = NAME/t.t/c.c/F/scalar/F,F,…/label:F,F,…/label:…
  -> err unsupported|index|key|shape
cqparams  (the cq fields)   -> ok wq=.. Delta=.. warn0=b warn1=b sx=.. sz=..
scqparams (the scq fields)  -> ok wqd=.. wrd=.. J=.. zx=..
labels dev=cq|scq n=N       -> ok l1,l2,…
tables                      -> ok …
```
-/
open QipVerif QipVerif.Proto QipVerif.Dev QipVerif.DevModel

def fl? (s : String) : Option Float := s.toNat?.map fun n => Float.ofBits n.toUInt64
def fls? (s : String) : Option (List Float) := if s == "-" then some [] else (splitNE s ",").mapM fl?
def showF (x : Float) : String := toString x.toBits.toNat
def showFs (l : List Float) : String := if l.isEmpty then "-" else ",".intercalate (l.map showF)
def fF? (fs : List String) (k : String) : Option Float := (field? fs k).bind fl?
def fFs? (fs : List String) (k : String) : Option (List Float) := (field? fs k).bind fls?

def piF : Float := Float.ofBits 4614256656552045848   -- np.pi

def nats? (s : String) : Option (List Nat) := if s == "-" then some [] else (splitNE s ".").mapM String.toNat?
def showDots (l : List Nat) : String := if l.isEmpty then "-" else ".".intercalate (l.map toString)

def gate? (s : String) : Option (GateRec Float) :=
  match s.splitOn "/" with
  | [n, t, c, a] =>
    match nats? t, nats? c, fl? a with
    | some ts, some cs, some x => some ⟨n, ts, cs, x⟩
    | _, _, _ => none
  | _ => none

def gates? (s : String) : Option (List (GateRec Float)) := if s == "-" then some [] else (s.splitOn ";").mapM gate?

def showInstr (i : Instr Float) : String :=
  "/".intercalate ([i.gate.name, showDots i.gate.targets, showDots i.gate.controls, showF i.gate.arg,
    (if i.scalar then "1" else "0"), showFs i.tlist] ++ i.pulses.map (fun p => p.label ++ ":" ++ showFs p.coeff))

def showErr : Err → String
  | .unsupported => "err unsupported"
  | .index => "err index"
  | .key => "err key"
  | .shape => "err shape"

def showRes : Except Err (List (Instr Float) × Float) → String
  | .error e => showErr e
  | .ok (is, ph) => "ok phase=" ++ showF ph ++ " ins=" ++ (if is.isEmpty then "-" else "|".intercalate (is.map showInstr))

def cqHW? (fs : List String) : Option (CQ.HW Float) :=
  match fF? fs "w0", fFs? fs "deltamax", fFs? fs "epsmax", fFs? fs "eps", fFs? fs "delta", fFs? fs "g" with
  | some w0, some a, some b, some c, some d, some e => some ⟨a, b, c, d, e, w0⟩
  | _, _, _, _, _, _ => none

def scqRaw? (fs : List String) : Option (Gen.SCQ.Raw Float) :=
  match fFs? fs "wq", fFs? fs "wr", fFs? fs "alpha", fFs? fs "g", fFs? fs "os", fFs? fs "ocr" with
  | some a, some b, some c, some d, some e, some f => some ⟨a, b, c, d, e, f⟩
  | _, _, _, _, _, _ => none

def b01 (b : Bool) : String := if b then "1" else "0"

def showRuleCQ : Gen.CQ.Rule → String
  | .rotation a b => "rotation/" ++ a ++ "/" ++ b
  | .exchange k => "exchange/" ++ toString k
  | .phase => "phase"
  | .noop => "noop"
  | .idle => "idle"

def showRuleSCQ : Gen.SCQ.Rule → String
  | .rotation a b => "rotation/" ++ a ++ "/" ++ b
  | .rzx => "rzx"
  | .cnot => "cnot"
  | .phase => "phase"
  | .noop => "noop"
  | .idle => "idle"

def fracF (p : Int × Nat) : Float := (DArith.ofFrac p.1 p.2 : Float)

def tables : String :=
  let cqr := ",".intercalate (Gen.CQ.gateCompiler.map fun (n, r) => n ++ ":" ++ showRuleCQ r)
  let scr := ",".intercalate (Gen.SCQ.gateCompiler.map fun (n, r) => n ++ ":" ++ showRuleSCQ r)
  let ex := ",".intercalate ((Gen.CQ.exchNames.zip (List.range Gen.CQ.exchNames.length)).map fun (n, k) =>
    n ++ ":" ++ showF (Gen.CQ.exchArea k : Float) ++ ":" ++ showF (Gen.CQ.exchCorr piF k))
  let seq := ",".intercalate ((Gen.SCQ.cnotSeq piF).map fun (n, refs, a, v) =>
    n ++ ":" ++ ".".intercalate (refs.map fun r => match r with | .q1 => "c" | .q2 => "t") ++ ":" ++ showF a ++ ":" ++ b01 v)
  "ok cqrules=" ++ cqr ++ " scqrules=" ++ scr ++ " exch=" ++ ex ++ " cnot=" ++ seq
    ++ " flips=" ++ b01 Gen.CQ.swapFlipsNegJ ++ " signed=" ++ b01 Gen.SCQ.rzxSigned
    ++ " resets=" ++ b01 Gen.CQ.compileResetsPhase ++ " drops=" ++ b01 Gen.CQ.dropsZeroDuration
    ++ " hands=" ++ b01 Gen.CQ.handsBackPhase
    ++ " cqnative=" ++ ",".intercalate Gen.CQ.nativeGates ++ " scqnative=" ++ ",".intercalate Gen.SCQ.nativeGates
    ++ " cqdef=" ++ showFs ([Gen.CQ.default_deltamax, Gen.CQ.default_epsmax, Gen.CQ.default_w0, Gen.CQ.default_eps,
          Gen.CQ.default_delta, Gen.CQ.default_g].map fracF)
    ++ " scqdef=" ++ showFs ((Gen.SCQ.default_wq_cycle ++ [Gen.SCQ.default_wr, Gen.SCQ.default_alpha, Gen.SCQ.default_g,
          Gen.SCQ.default_omega_single, Gen.SCQ.default_omega_cr]).map fracF)
    ++ " scqargs=" ++ Gen.SCQ.defaultShape ++ "," ++ toString Gen.SCQ.defaultNumSamples ++ "," ++ b01 Gen.SCQ.defaultDrag
    ++ " cqctl=" ++ ",".intercalate [Gen.CQ.ctlSX_prefix ++ ":" ++ showF (Gen.CQ.ctlSX_coef piF) ++ ":" ++ Gen.CQ.ctlSX_op ++ ":"
          ++ toString (Gen.CQ.ctlSX_factor 3 1),
        Gen.CQ.ctlSZ_prefix ++ ":" ++ showF (Gen.CQ.ctlSZ_coef piF) ++ ":" ++ Gen.CQ.ctlSZ_op ++ ":" ++ toString (Gen.CQ.ctlSZ_factor 3 1),
        Gen.CQ.ctlG_prefix ++ ":" ++ showF (Gen.CQ.ctlG_coef0 piF) ++ ":" ++ showF (Gen.CQ.ctlG_coef1 piF)]
    ++ " cavity=" ++ toString Gen.CQ.cavityFactor ++ "," ++ toString Gen.CQ.cavityLevel ++ "," ++ b01 Gen.CQ.stepFunc
    ++ " scqctl=" ++ showFs [Gen.SCQ.ctlSX_coef piF, Gen.SCQ.ctlSY_coef piF, Gen.SCQ.ctlSZ_coef piF, Gen.SCQ.ctlZXf_coef piF,
          Gen.SCQ.ctlZXb_coef piF]
    ++ " warn=" ++ Gen.CQ.warn0_msg.replace " " "_" ++ "," ++ Gen.CQ.warn1_msg.replace " " "_"

def step (line : String) : String :=
  let fs := fields line
  match fs with
  | [] => "err empty"
  | cmd :: _ =>
    if cmd == "cq" then
      match cqHW? fs, (field? fs "gates").bind gates? with
      | some P, some gs => showRes (CQ.compile piF P 0.0 gs)
      | _, _ => "err parse"
    else if cmd == "scq" then
      match scqRaw? fs, fNat? fs "n", fNat? fs "drag", fNat? fs "ns", (field? fs "gates").bind gates? with
      | some R, some n, some d, some ns, some gs => showRes (SCQ.compile piF (SCQ.computeParams R n) (d != 0) ns gs)
      | _, _, _, _, _ => "err parse"
    else if cmd == "cqparams" then
      match cqHW? fs with
      | some P =>
        let (wq, D, w0, w1) := CQ.computed P
        "ok wq=" ++ showFs wq ++ " Delta=" ++ showFs D ++ " warn0=" ++ b01 w0 ++ " warn1=" ++ b01 w1
          ++ " sx=" ++ showFs ((P.get? "sx").getD []) ++ " sz=" ++ showFs ((P.get? "sz").getD [])
      | none => "err parse"
    else if cmd == "scqparams" then
      match scqRaw? fs, fNat? fs "n" with
      | some R, some n =>
        let H := SCQ.computeParams R n
        "ok wqd=" ++ showFs H.wq_dressed ++ " wrd=" ++ showFs H.wr_dressed ++ " J=" ++ showFs H.J ++ " zx=" ++ showFs H.zx_coeff
      | _, _ => "err parse"
    else if cmd == "labels" then
      match fStr? fs "dev", fNat? fs "n" with
      | some d, some n => "ok " ++ ",".intercalate (if d == "cq" then CQ.labels n else SCQ.labels n)
      | _, _ => "err parse"
    else if cmd == "tables" then tables
    else "err command"

def main : IO Unit := serve step
