import QipVerif.Util.Proto
import QipVerif.Util.RatProto
import QipVerif.Model.Grid
/-! Driver for the grid/resampling model (C14).  Rationals are `p/q` or `p`; `-` is the empty list.

* `tlist tol=r [kk=1] grids=<g>!<g>…`            → `ok t,t,…` | `none`   (kk=1: a point is dropped when within tol of the last KEPT
          point, fixes/C14-8; likewise `coeffs`)
* `fill tol=r [zl=1] [cu=1] oldt=<g> oldc=<g> full=<g>` (zl=1: repaired padding; cu=1: the index catches up over several
          slots, fixes/C14-7; likewise `coeffs`; `readshape … ndmin=2`)
          → `ok c,c,…` | `err index`
* `coeffs tol=r chans=<chan>!<chan>…`             → `ok <T>|<row>!<row>…` | `err <kind>`
     `<chan>` = `n` | `b:0` | `b:1` | `b:1:<g>` | `a:<g>:<g>`
* `slices t=<g> rows=<g>!<g>…`                    → `ok dt:c,c,…;dt:c,c,…`
* `step tl=<g> cs=<g> t=r`                        → `ok v`
* `header inctime=0|1 [hdr=0] labels=<codes>;<codes>…` → `ok <codes>` | `none` (codes: `.`-separated code points; hdr=0: `np.savetxt(header=…)` as found, no line for an empty header)
* `read inctime=0|1 line=<codes>`                 → `ok <codes>;<codes>…`
* `splinedeg n=N`                                   → `ok d` | `none`
* `readshape inctime=0|1 rows=R n=N`              → `ok len,len,…` (`x` = not an array)
-/
open QipVerif QipVerif.Proto QipVerif.RatProto QipVerif.Grid

def errName : Err → String
  | .index => "index" | .shape => "shape" | .type => "type"

def g? (s : String) : Option (List Rat) := if s = "-" then some [] else ratList? s

def chanP? (s : String) : Option Chan :=
  match s.splitOn ":" with
  | ["n"] => some .absent
  | ["b", "0"] => some (.const false none)
  | ["b", "1"] => some (.const true none)
  | ["b", b, tl] => if b = "0" ∨ b = "1" then (g? tl).map (fun tl => .const (b = "1") (some tl)) else none
  | ["a", tl, cs] => match g? tl, g? cs with
    | some tl, some cs => some (.arr tl cs)
    | _, _ => none
  | _ => none

def codes? (s : String) : Option (List Nat) := if s = "-" then some [] else (s.splitOn ".").mapM String.toNat?
def showCodes (l : List Nat) : String := if l.isEmpty then "-" else ".".intercalate (l.map toString)

def step (line : String) : String :=
  let fs := fields line
  match fs.head? with
  | some "tlist" =>
    match fRat? fs "tol", (fStr? fs "grids") with
    | some tol, gs =>
      match (match gs with | none => some [] | some s => (s.splitOn "!").mapM g?) with
      | some grids => match fullTlistK (fNat? fs "kk" = some 1) tol grids with
        | none => "none"
        | some T => "ok " ++ showRats T
      | none => "bad-op"
    | _, _ => "bad-op"
  | some "fill" =>
    match fRat? fs "tol", (fStr? fs "oldt").bind g?, (fStr? fs "oldc").bind g?, (fStr? fs "full").bind g? with
    | some tol, some ot, some oc, some full =>
      match fillVW (fNat? fs "zl" = some 1) (fNat? fs "cu" = some 1) tol ot oc full with
      | .error e => "err " ++ errName e
      | .ok r => "ok " ++ showRats r
    | _, _, _, _ => "bad-op"
  | some "coeffs" =>
    match fRat? fs "tol", (fStr? fs "chans").bind (fun s => (s.splitOn "!").mapM chanP?) with
    | some tol, some chans =>
      match fullCoeffsVWK (fNat? fs "zl" = some 1) (fNat? fs "cu" = some 1) (fNat? fs "kk" = some 1) tol chans with
      | .error e => "err " ++ errName e
      | .ok (T, rows) => "ok " ++ showRats T ++ "|" ++ "!".intercalate (rows.map showRats)
    | _, _ => "bad-op"
  | some "slices" =>
    match (fStr? fs "t").bind g?, (fStr? fs "rows").bind (fun s => (s.splitOn "!").mapM g?) with
    | some T, some rows =>
      "ok " ++ ";".intercalate ((slices T rows).map fun s => showRat s.1 ++ ":" ++ showRats s.2)
    | _, _ => "bad-op"
  | some "step" =>
    match (fStr? fs "tl").bind g?, (fStr? fs "cs").bind g?, fRat? fs "t" with
    | some tl, some cs, some t => "ok " ++ showRat (stepAt tl cs t)
    | _, _, _ => "bad-op"
  | some "header" =>
    match fNat? fs "inctime", (fStr? fs "labels").bind (fun s => (s.splitOn ";").mapM codes?) with
    | some it, some labels =>
      match headerLineV (fNat? fs "hdr" != some 0) 35 32 10 59 (it = 1) labels with
      | some l => "ok " ++ showCodes l
      | none => "none"
    | _, _ => "bad-op"
  | some "read" =>
    match fNat? fs "inctime", (fStr? fs "line").bind codes? with
    | some it, some line => "ok " ++ ";".intercalate ((readLabels 59 (it = 1) line).map showCodes)
    | _, _ => "bad-op"
  | some "splinedeg" =>
    match fNat? fs "n" with
    | some n => match splineDegree n with
      | some d => "ok " ++ toString d
      | none => "none"
    | none => "bad-op"
  | some "readshape" =>
    match fNat? fs "inctime", fNat? fs "rows", fNat? fs "n" with
    | some it, some rows, some n =>
      "ok " ++ ",".intercalate ((List.range n).map fun i => match readCoeffLenV (fNat? fs "ndmin" = some 2) (it = 1) rows n i with
        | some r => toString r | none => "x")
    | _, _, _ => "bad-op"
  | _ => "bad-op"

def main : IO Unit := serve step
