import QipVerif.Util.Proto
import QipVerif.Model.Vqa
/-! Driver for the VQA bookkeeping model (C19).

Blocks: `blocks=h:0:0,p:2:1,...` — `kind:nterms:initial`, kind ∈ h(am) u(nitary) n(ative) p(ham) f(unc).

* `series layers=L blocks=..`                 → `ok j0,j1,...` (indices into `VQA.blocks`)
* `nfree layers=L blocks=..`                  → `ok n`
* `circuit layers=L blocks=.. nangles=m`      → `ok blk:native:arg;...`, `arg` = `-` (None) or the ids
                                                 `a.b.c` of the angles in the slice (angle id = position)
* `jac layers=L blocks=.. nangles=m idx=default|none|i,j,.. orig=0|1`
                                              → `ok k:blk:start:n:term;...` | `err <kind>`
  optional `obs=0|1` (is `cost_observable` set; default 1) and `cm=o|s|b` (`cost_method`)
* `evalkind cm=o|s|b obs=0|1 func=0|1`        → `ok observable` | `ok costfunc` | `err nocostfunc`
* `prods n=N`                                 → `ok f=w0|w1|.. b=w0|w1|..` words over propagator ids
* `modify n=N k=K`                            → `ok w` word with `X` at the replaced position
-/
open QipVerif QipVerif.Proto QipVerif.Vqa

def parseBlock (s : String) : Option Block :=
  match s.splitOn ":" with
  | [k, t, i] =>
    match (match k with
      | "h" => some Kind.ham | "u" => some Kind.unitary | "n" => some Kind.native
      | "p" => some Kind.pham | "f" => some Kind.func | _ => none), t.toNat?, i.toNat? with
    | some kind, some nt, some ini => if ini ≤ 1 then some ⟨kind, nt, ini == 1⟩ else none
    | _, _, _ => none
  | _ => none

def fBlocks? (fs : List String) : Option (List Block) :=
  match field? fs "blocks" with
  | none => none
  | some s => (splitNE s ",").mapM parseBlock

def errName : Err → String
  | .angles => "angles" | .noangles => "noangles" | .funcderiv => "funcderiv"
  | .noobs => "noobs" | .nocostfunc => "nocostfunc"

def showGate (g : CGate Nat) : String :=
  s!"{g.blk}:{if g.native then 1 else 0}:" ++
    (match g.arg with
     | none => "-"
     | some l => "[" ++ ".".intercalate (l.map toString) ++ "]")

def showEntry (e : JEntry) : String := s!"{e.k}:{e.blk}:{e.start}:{e.n}:{e.term}"

/-- words: `none` stands for the inserted `X` -/
def showWord (w : List (Option Nat)) : String :=
  ".".intercalate (w.map fun | none => "X" | some i => toString i)

def step (line : String) : String :=
  let fs := fields line
  match fs.head? with
  | some "series" =>
    match fNat? fs "layers", fBlocks? fs with
    | some L, some bs => if L = 0 then "err layers" else "ok " ++ showNats ((blockSeries bs L).map (·.1))
    | _, _ => "bad-op"
  | some "nfree" =>
    match fNat? fs "layers", fBlocks? fs with
    | some L, some bs => if L = 0 then "err layers" else s!"ok {freeParams bs L}"
    | _, _ => "bad-op"
  | some "circuit" =>
    match fNat? fs "layers", fBlocks? fs, fNat? fs "nangles" with
    | some L, some bs, some m =>
      if L = 0 then "err layers" else
      "ok " ++ ";".intercalate ((constructCircuit bs L (List.range m)).map showGate)
    | _, _, _ => "bad-op"
  | some "jac" =>
    match fNat? fs "layers", fBlocks? fs, fNat? fs "nangles", fStr? fs "idx", fNat? fs "orig" with
    | some L, some bs, some m, some idxs, some orig =>
      if L = 0 then "err layers" else
      let idx : Option (Option (List Int)) :=
        if idxs == "default" then some none
        else if idxs == "none" then some (some [])
        else (intList? idxs).map some
      match idx with
      | none => "bad-op"
      | some idx =>
        let obs? : Option Nat := match field? fs "obs" with
          | none => some 1
          | some o => if o == "0" then some 0 else if o == "1" then some 1 else none
        match obs? with
        | none => "bad-op"
        | some obs =>
        let cm := match fStr? fs "cm" with
          | some "s" => CostMethod.state | some "b" => CostMethod.bitstring | _ => CostMethod.observable
        match computeJacCfg (obs == 1) cm (orig == 1) bs L m idx with
        | .ok es => "ok " ++ ";".intercalate (es.map showEntry)
        | .error e => "err " ++ errName e
    | _, _, _, _, _ => "bad-op"
  | some "evalkind" =>
    match fStr? fs "cm", fNat? fs "obs", fNat? fs "func" with
    | some c, some obs, some fn =>
      let cm? := match c with
        | "o" => some CostMethod.observable | "s" => some CostMethod.state
        | "b" => some CostMethod.bitstring | _ => none
      match cm? with
      | none => "bad-op"
      | some cm =>
        match evalKind cm (obs == 1) (fn == 1) with
        | .ok true => "ok observable"
        | .ok false => "ok costfunc"
        | .error e => "err " ++ errName e
    | _, _, _ => "bad-op"
  | some "prods" =>
    match fNat? fs "n" with
    | some n =>
      let ps : List (List (Option Nat)) := (List.range n).map (fun i => [some i])
      let up := unitaryProducts (· ++ ·) [] ps
      "ok f=" ++ "|".intercalate (up.1.map showWord) ++ " b=" ++ "|".intercalate (up.2.map showWord)
    | none => "bad-op"
  | some "modify" =>
    match fNat? fs "n", fNat? fs "k" with
    | some n, some k =>
      if k < n then
        let ps : List (List (Option Nat)) := (List.range n).map (fun i => [some i])
        "ok " ++ showWord (modifyUnitary (· ++ ·) [] ps k [none]) ++ " full=" ++ showWord (fullProd (· ++ ·) [] ps)
      else "err index"
    | _, _ => "bad-op"
  | _ => "bad-op"

def main : IO Unit := serve step
