import QipVerif.Util.Proto
import QipVerif.Model.Sched
import QipVerif.Gen.SchedRule
import QipVerif.Model.SchedCons
/-! Driver for the scheduler model (C05, C11).

Instruction syntax: `NAME:t,t:c,c:dur[:sc]`, several joined by `|` (targets / controls already
sorted as `Instruction.__init__` leaves them; empty controls = `None`; `dur` an integer
numerator).  The flag `sc` ("the tree's rule can declare the instruction commuting with a gate of its own name": the name is
in `_SELF_COMMUTING_GATES` and, on a tree with the guard, it has at most `lenBound` targets) is computed from the regenerated
`Gen.SchedRule.flagged`; an explicit fifth field `0|1` overrides it (manual use only).

* `comm g=A|B`                                              →  `ok 0|1`    (`commRules`, the rule of the model)
* `commgen g=A|B`                                           →  `ok 0|1`    (`Gen.SchedRule.commutationRules`, regenerated from the source)
* `scnames`                                                  →  `ok X,Y,…` (the regenerated set; `none` when the module has none)
* `share g=A|B`                                             →  `ok 0|1`    (`not qubit_constraint`)
* `sched method=ASAP|ALAP perm=0|1 gates=… [shuf=π;π;…] [fix=0|1]` (`fix`: repaired conflict-edge recording; default
  `Gen.SchedRule.conflictFix`, read from the tree) →
  `ok used=<#shuffles> cycles=a,b;c;… idx=… starts=… edges=i>j,…`
  (`cycles` as returned with `return_cycles_list=True`, `idx` = `gate_cycles_indices`,
  `starts` = `instruction_start_time` numerators, `edges` = sorted dependency edges)
* constructor arguments: `mcp=<code points of the method string, comma-separated>` | `mcp=e` (empty string) | `mcp=-`
  (`None` / not a string) instead of `method=`; `cons=<k>,<k>,…` | `cons=-` (empty list) with `k` = `q` (`qubit_constraint`),
  `a` (allow all), `f<i>.<j>` (forbid the ordered pair), `n` (forbid equal names); absent = the default `[qubit_constraint]`
* `methodtests` → `ok ALAP,ALAP,ALAP` (the regenerated literals); `applycons v=1,0,1` → `ok 0|1` (regenerated `apply_constraint`)
* errors: `err noqubits` (`max()` of an empty set: no instruction uses a qubit), `err empty` never
  (the code returns `[]` for an empty list: answer `ok used=0 cycles= idx= starts= edges=`).
-/
open QipVerif QipVerif.Proto QipVerif.Sched

def parseIns (s : String) : Option Ins :=
  match s.splitOn ":" with
  | [nm, ts, cs, d] =>
    match natList? ts, natList? cs, d.toInt? with
    | some t, some c, some dd => some ⟨nm, t, c, dd, Gen.SchedRule.flagged ⟨nm, t, c, dd, true⟩⟩
    | _, _, _ => none
  | [nm, ts, cs, d, f] =>
    match natList? ts, natList? cs, d.toInt? with
    | some t, some c, some dd => if f == "0" then some ⟨nm, t, c, dd, false⟩ else if f == "1" then some ⟨nm, t, c, dd, true⟩ else none
    | _, _, _ => none
  | _ => none

def parseGates (s : String) : Option (List Ins) := (splitNE s "|").mapM parseIns

def parseCFun (s : String) : Option CFun :=
  if s == "q" then some .qubit else if s == "a" then some .allowAll else if s == "n" then some .sameName else
  if s.startsWith "f" then
    match ((s.drop 1).toString.splitOn ".").mapM String.toNat? with
    | some [a, b] => some (.forbid a b)
    | _ => none
  else none

def parseCons (fs : List String) : Option (List CFun) :=
  match field? fs "cons" with
  | none => some [.qubit]
  | some "-" => some []
  | some s => (splitNE s ",").mapM parseCFun

/-- the constructor argument `method`: `some (some s)` a string, `some none` not a string, `none` malformed -/
def parseMethod (fs : List String) : Option (Option String) :=
  match field? fs "mcp", field? fs "method" with
  | some "-", _ => some none
  | some "e", _ => some (some "")
  | some s, _ => (natList? s).map fun l => some (String.ofList (l.map Char.ofNat))
  | none, some m => some (some m)
  | none, none => none

def showCycles (c : List (List Nat)) : String := ";".intercalate (c.map showNats)

def b2s (b : Bool) : String := if b then "ok 1" else "ok 0"

def dedupSorted (n : Nat) (e : Edges) : List (Nat × Nat) :=
  (List.range n).flatMap fun i => ((List.range n).filter fun j => e.has i j).map fun j => (i, j)

def step (line : String) : String :=
  let fs := fields line
  match fs.head? with
  | some "comm" =>
    match (field? fs "g").bind parseGates with
    | some [a, b] => b2s (commRules a b)
    | _ => "bad-op"
  | some "commgen" =>
    match (field? fs "g").bind parseGates with
    | some [a, b] => b2s (Gen.SchedRule.commutationRules a b)
    | _ => "bad-op"
  | some "scnames" =>
    match Gen.SchedRule.selfCommuting with
    | some l => "ok " ++ ",".intercalate l
    | none => "none"
  | some "share" =>
    match (field? fs "g").bind parseGates with
    | some [a, b] => b2s (share a b)
    | _ => "bad-op"
  | some "methodtests" => "ok " ++ ",".intercalate Gen.SchedRule.methodTests
  | some "applycons" =>
    match fNats? fs "v" with
    | some l => b2s (Gen.SchedRule.applyConstraint (l.map (· != 0)))
    | none => "bad-op"
  | some "sched" =>
    match parseMethod fs, fNat? fs "perm", (field? fs "gates").map parseGates, parseCons fs with
    | some m, some p, gs, some cons =>
      let gs : Option (List Ins) := match gs with | none => some [] | some g => g
      let shuf : Option (List (List Nat)) := match field? fs "shuf" with
        | none => some []
        | some s => natListList? s
      match gs, shuf with
      | some ns, some sh =>
        if ns.isEmpty then "ok used=0 cycles= idx= starts= edges=" else
        if ns.all (fun i => i.used.isEmpty) then "err noqubits" else
        let cfg : Cfg := ⟨alapOf m, p != 0, sh, match fNat? fs "fix" with | some f => f != 0 | none => Gen.SchedRule.conflictFix⟩
        let rel := shOf cons ns
        let cyc := gateCyclesW rel cfg ns
        let e := dedupSorted ns.length (depEdges cfg.allowPerm ns)
        s!"ok used={shufflesUsedW rel cfg ns} cycles={showCycles cyc} idx={showNats (cycleIndices ns.length cyc)} starts={showInts (pulseStartsW rel cfg ns)} edges={",".intercalate (e.map fun p => s!"{p.1}>{p.2}")}"
      | _, _ => "bad-op"
    | _, _, _, _ => "bad-op"
  | _ => "bad-op"

def main : IO Unit := serve step
