import QipVerif.Util.Proto
import QipVerif.Model.Embed
/-! Driver for the embedding model (C08).

* `validate dims=.. targets=.. opdims=..`  →  `ok` | `err <kind>`
* `order n=N targets=..`                   →  `ok <new_order>`
* `row dims=.. targets=.. x=X`             →  `ok Y:a:b,...` for every column `Y` whose
  element is not forced to 0; `a`,`b` are flat indices into the operator's matrix.
-/
open QipVerif QipVerif.Proto QipVerif.Embed

def errName : Err → String
  | .count => "count" | .range => "range" | .dims => "dims" | .index => "index" | .permute => "permute"

def step (line : String) : String :=
  let fs := fields line
  match fs.head? with
  | some "validate" =>
    match fNats? fs "dims", fInts? fs "targets", fNats? fs "opdims" with
    | some dims, some ts, some od =>
      match validate dims ts od with
      | .ok _ => "ok"
      | .error e => "err " ++ errName e
    | _, _, _ => "bad-op"
  | some "order" =>
    match fNat? fs "n", fNats? fs "targets" with
    | some n, some ts => "ok " ++ showNats (newOrder n ts)
    | _, _ => "bad-op"
  | some "row" =>
    match fNats? fs "dims", fNats? fs "targets", fNat? fs "x" with
    | some dims, some ts, some X =>
      let N := dims.length
      let od := ts.map (fun t => dims.getD t 0)
      let x := digits dims X
      let cells := (List.range (total dims)).filterMap fun Y =>
        match expandEntry N ts x (digits dims Y) with
        | none => none
        | some (a, b) => some s!"{Y}:{undigits od a}:{undigits od b}"
      "ok " ++ ",".intercalate cells
    | _, _, _ => "bad-op"
  | _ => "bad-op"

def main : IO Unit := serve step
