import QipVerif.Util.Proto
import QipVerif.Model.Embed
import QipVerif.Model.EmbedFlat
import QipVerif.Model.EmbedArgs
import QipVerif.Model.EmbedObj
import QipVerif.Model.EmbedNum
/-! Driver for the embedding model (C08).

* `validate dims=.. targets=.. opdims=..`  →  `ok` | `err <kind>`
* `order n=N targets=..`                   →  `ok <new_order>`
* `row dims=.. targets=.. x=X`             →  `ok Y:a:b,...` for every column `Y` whose
  element is not forced to 0; `a`,`b` are flat indices into the operator's matrix (digit-tuple model).
* `flat dims=.. targets=..`                →  `ok <dims of the result>|X:Y:a:b,...` every stored entry of the
  flat-index model (`EmbedFlat.flatEntryP`) that is not 0, or `err order-<kind>`
* `frow dims=.. targets=.. x=X`            →  `ok Y:a:b,...` one row of the flat-index model
* `index dims=<structure> order=..`        →  `ok <new_dimensions>|<index.all()>` (`_Indexer`) | `err order-<kind>`
* `kron d=D rest=r1,r2,..`                 →  `ok i:j:a:b,...` the non-zero entries of
  `kron(..kron(P, 1_r1).., 1_rm)` for a `D × D` matrix `P`
* `args n=<N|none> dims=<..|none> t=<none|iT|lT1,T2,..> opl=.. opr=.. cyclic=0|1`
                                           →  `ok d1,d2;t1,t2|...` (one group per returned operator) | `err <kind>`
* `argst n=<none|T:v> dims=<none|lT:v,T:v,..|pT:v|qT:v> t=<none|sT:v|lT:v,..> opl=.. opr=.. cyclic=0|1` with the type
  letters `i` int, `b` bool, `n` numpy integer, `a` 0-d array, `f` integral float; `p` = integer dims of a pulse,
  `q` = `num_qubits` of `Gate.get_qobj` without dims  →  as `args`, or `err numtype`
* `hist elems=<od|none>:<targ>:<oid>;.. ops=<op>;..` with `<targ>` = `none|iT|lT1,T2`, `<op>` = `g:<n3|d1,d2,..>` (ask),
  `t:<i>:<targ>` (element i: new targets), `q:<i>:<od|none>:<oid>` (element i: new operator object)
                                           →  `ok` + one group per `g` (`|`), one item per element (`/`):
                                              `d1,d2;t1,t2;oid` or `!<kind>`
-/
open QipVerif QipVerif.Proto QipVerif.Embed QipVerif.EmbedFlat QipVerif.EmbedArgs QipVerif.EmbedObj QipVerif.EmbedNum

def errName : Err → String
  | .count => "count" | .range => "range" | .dims => "dims" | .index => "index" | .permute => "permute"

def pErrName : PErr → String
  | .length => "order-length" | .element => "order-element" | .duplicate => "order-duplicate"
  | .dimension => "order-dimension"

def aErrName : AErr → String
  | .val e => errName e | .nosize => "nosize" | .square => "square"

def showCells (cs : List String) : String := ",".intercalate cs

def optNats? (fs : List String) (key : String) : Option (Option (List Nat)) :=
  match fStr? fs key with
  | none => none
  | some "none" => some none
  | some s => (natList? s).map some

def optNat? (fs : List String) (key : String) : Option (Option Nat) :=
  match fStr? fs key with
  | none => none
  | some "none" => some none
  | some s => s.toNat?.map some

def tArg? (fs : List String) : Option TArg :=
  match fStr? fs "t" with
  | none => none
  | some "none" => some .none
  | some s =>
    if s.startsWith "i" then ((s.drop 1).toString.toInt?).map .int
    else if s.startsWith "l" then (intList? (s.drop 1).toString).map .list
    else none

def parseNum (s : String) : Option Num :=
  match s.splitOn ":" with
  | [t, v] =>
    let ty : Option NumT := match t with
      | "i" => some .int | "b" => some .bool | "n" => some .npint | "a" => some .arr0 | "f" => some .float
      | _ => none
    match ty, v.toInt? with
    | some ty, some v => some ⟨ty, v⟩
    | _, _ => none
  | _ => none

def parseNums (s : String) : Option (List Num) := (splitNE s ",").mapM parseNum

def parseArgsT (fs : List String) : Option ArgsT :=
  let n : Option (Option Num) := match fStr? fs "n" with
    | some "none" => some none
    | some s => (parseNum s).map some
    | none => none
  let d : Option DimsT := match fStr? fs "dims" with
    | some "none" => some .none
    | some s =>
      if s.startsWith "l" then (parseNums (s.drop 1).toString).map .list
      else if s.startsWith "p" then (parseNum (s.drop 1).toString).map .pulse
      else if s.startsWith "q" then (parseNum (s.drop 1).toString).map .qubits
      else none
    | none => none
  let t : Option TArgT := match fStr? fs "t" with
    | some "none" => some .none
    | some s =>
      if s.startsWith "s" then (parseNum (s.drop 1).toString).map .scalar
      else if s.startsWith "l" then (parseNums (s.drop 1).toString).map .list
      else none
    | none => none
  match n, d, t, fNats? fs "opl", fNats? fs "opr", fNat? fs "cyclic" with
  | some n, some d, some t, some opl, some opr, some c => some ⟨n, d, t, opl, opr, c != 0⟩
  | _, _, _, _, _, _ => none

def parseTarg (s : String) : Option TArg :=
  if s == "none" then some .none
  else if s.startsWith "i" then ((s.drop 1).toString.toInt?).map .int
  else if s.startsWith "l" then (intList? (s.drop 1).toString).map .list
  else none

def parseOd (s : String) : Option (Option (List Nat)) :=
  if s == "none" then some none else (natList? s).map some

def parseElem (s : String) : Option Elem :=
  match s.splitOn ":" with
  | [od, t, oid] => match parseOd od, parseTarg t, oid.toNat? with
    | some od, some t, some oid => some ⟨od, t, oid⟩
    | _, _, _ => none
  | _ => none

def parseOp (s : String) : Option Op :=
  match s.splitOn ":" with
  | ["g", d] =>
    if d.startsWith "n" then ((d.drop 1).toString.toNat?).map (fun n => Op.get (.int n))
    else (natList? d).map (fun l => Op.get (.list l))
  | ["t", i, t] => match i.toNat?, parseTarg t with
    | some i, some t => some (.setTargets i t)
    | _, _ => none
  | ["q", i, od, oid] => match i.toNat?, parseOd od, oid.toNat? with
    | some i, some od, some oid => some (.setOper i od oid)
    | _, _, _ => none
  | _ => none

def showGet (r : Except AErr (List Nat × List Nat) × Nat) : String :=
  match r with
  | (.ok (d, t), oid) => showNats d ++ ";" ++ showNats t ++ ";" ++ toString oid
  | (.error e, _) => "!" ++ aErrName e

def step (line : String) : String :=
  let fs := fields line
  match fs.head? with
  | some "validate" =>
    match fNats? fs "dims", fInts? fs "targets", fNats? fs "opdims" with
    | some dims, some ts, some od =>
      match validate dims ts od with
      | .ok _ => "ok"
      | .error e => "err " ++ errName e
    | _, _, _ => "bad-op"
  | some "order" =>
    match fNat? fs "n", fNats? fs "targets" with
    | some n, some ts => "ok " ++ showNats (newOrder n ts)
    | _, _ => "bad-op"
  | some "row" =>
    match fNats? fs "dims", fNats? fs "targets", fNat? fs "x" with
    | some dims, some ts, some X =>
      let N := dims.length
      let od := ts.map (fun t => dims.getD t 0)
      let x := digits dims X
      let cells := (List.range (total dims)).filterMap fun Y =>
        match expandEntry N ts x (digits dims Y) with
        | none => none
        | some (a, b) => some s!"{Y}:{undigits od a}:{undigits od b}"
      "ok " ++ showCells cells
    | _, _, _ => "bad-op"
  | some "flat" =>
    match fNats? fs "dims", fNats? fs "targets" with
    | some dims, some ts =>
      match flatDims dims ts with
      | .error e => "err " ++ pErrName e
      | .ok nd =>
        let perm := flatPerm dims ts
        let rest := restDims dims ts
        let n := perm.length
        let cells := (List.range n).flatMap fun X => (List.range n).filterMap fun Y =>
          match flatEntryP perm rest X Y with
          | none => none
          | some (a, b) => some s!"{X}:{Y}:{a}:{b}"
        "ok " ++ showNats nd ++ "|" ++ showCells cells
    | _, _ => "bad-op"
  | some "frow" =>
    match fNats? fs "dims", fNats? fs "targets", fNat? fs "x" with
    | some dims, some ts, some X =>
      match flatDims dims ts with
      | .error e => "err " ++ pErrName e
      | .ok _ =>
        let perm := flatPerm dims ts
        let rest := restDims dims ts
        let cells := (List.range perm.length).filterMap fun Y =>
          match flatEntryP perm rest X Y with
          | none => none
          | some (a, b) => some s!"{Y}:{a}:{b}"
        "ok " ++ showCells cells
    | _, _, _ => "bad-op"
  | some "index" =>
    match fNats? fs "dims", fNats? fs "order" with
    | some dimsA, some order =>
      match newDims dimsA order with
      | .error e => "err " ++ pErrName e
      | .ok nd => "ok " ++ showNats nd ++ "|" ++ showNats (indexAll dimsA order nd)
    | _, _ => "bad-op"
  | some "kron" =>
    match fNat? fs "d", fNats? fs "rest" with
    | some d, some rest =>
      let n := d * prodL rest
      let cells := (List.range n).flatMap fun i => (List.range n).filterMap fun j =>
        match tensorIds operEntry rest i j with
        | none => none
        | some (a, b) => some s!"{i}:{j}:{a}:{b}"
      "ok " ++ showCells cells
    | _, _ => "bad-op"
  | some "args" =>
    match optNat? fs "n", optNats? fs "dims", tArg? fs, fNats? fs "opl", fNats? fs "opr", fNat? fs "cyclic" with
    | some n, some dims, some t, some opl, some opr, some c =>
      match expandArgs ⟨n, dims, t, opl, opr, c != 0⟩ with
      | .error e => "err " ++ aErrName e
      | .ok rs => "ok " ++ "|".intercalate (rs.map fun r => showNats r.1 ++ ";" ++ showNats r.2)
    | _, _, _, _, _, _ => "bad-op"
  | some "argst" =>
    match parseArgsT fs with
    | some a =>
      match expandArgsT a with
      | .error .numtype => "err numtype"
      | .error (.args e) => "err " ++ aErrName e
      | .ok rs => "ok " ++ "|".intercalate (rs.map fun r => showNats r.1 ++ ";" ++ showNats r.2)
    | none => "bad-op"
  | some "hist" =>
    match fStr? fs "elems", fStr? fs "ops" with
    | some es, some ops =>
      match (splitNE es ";").mapM parseElem, (splitNE ops ";").mapM parseOp with
      | some es, some ops =>
        "ok " ++ "|".intercalate ((run es ops).map fun g => "/".intercalate (g.map showGet))
      | _, _ => "bad-op"
    | _, _ => "bad-op"
  | _ => "bad-op"

def main : IO Unit := serve step
