import QipVerif.Util.GateIO
import QipVerif.Gen.GateDefsF
/-! Driver for the exact gate library and exact denotation (C09, C01, C03 share it).

* `gate name=NAME n8=K`          → `ok m e|rows` exact compact matrix of the gate with angle K·π/8
                                    (entries as 8 integer coordinates in the basis 1,ζ,…,ζ⁷, ζ = e^{iπ/8}; value / 2^e)
* `gatef fn=FUNC args=b1,b2,..`  → `ok rows` the generated float rendering of gate function FUNC at the
                                    given arguments (IEEE bit patterns as decimal integers, in and out)
* `den k=K gates=<list>`         → `ok e|rows` exact unitary of a fixed-angle circuit on K qubits | `none`
-/
open QipVerif QipVerif.Proto QipVerif.GateIO

def step (line : String) : String :=
  let fs := fields line
  match fs.head? with
  | some "gate" =>
    match fStr? fs "name", fInt? fs "n8" with
    | some n, some k =>
      match gateE (GName.ofString n) k with
      | some (m, d) => s!"ok {m} " ++ showDMat d
      | none => "none"
    | _, _ => "bad-op"
  | some "gatef" =>
    match fStr? fs "fn", (fNats? fs "args") with
    | some fn, some bits =>
      match Gen.GF.eval fn (bits.map fun b => Float.ofBits (UInt64.ofNat b)) with
      | some m => "ok " ++ ";".intercalate (m.map fun r => ",".intercalate (r.map fun c => s!"{c.re.toBits.toNat}:{c.im.toBits.toNat}"))
      | none => "none"
    | _, _ => "bad-op"
  | some "den" =>
    match fNat? fs "k", (fStr? fs "gates").bind gates? with
    | some k, some gs =>
      match denE k gs with
      | some d => "ok " ++ showDMat d
      | none => "none"
    | _, _ => "bad-op"
  | _ => "bad-op"

def main : IO Unit := serve step
