import QipVerif.Util.GateIO
import QipVerif.Gen.GateDefsF
import QipVerif.Model.Ctrl
import QipVerif.Gen.GateCtor
import QipVerif.Model.CircHeap
/-! Driver for the exact gate library and exact denotation (C09, C01, C03 share it).

* `gate name=NAME n8=K`          → `ok m e|rows` exact compact matrix of the gate with angle K·π/8
                                    (entries as 8 integer coordinates in the basis 1,ζ,…,ζ⁷, ζ = e^{iπ/8}; value / 2^e)
* `gatef fn=FUNC args=b1,b2,..`  → `ok rows` the generated float rendering of gate function FUNC at the
                                    given arguments (IEEE bit patterns as decimal integers, in and out)
* `den k=K gates=<list>`         → `ok e|rows` exact unitary of a fixed-angle circuit on K qubits | `none`
* `ctrl cs=A ts=A n=N|- v=V`     → `ok K rows` | `err <kind>`: the model of `controlled_gate` (Model/Ctrl.lean) for a
                                    single-qubit U; an argument `A` is `s:3` (a bare integer) or `l:0,2` (a list);
                                    rows of the 2^K × 2^K result, one letter per element: z = 0, o = 1,
                                    a b c d = U[0][0] U[0][1] U[1][0] U[1][1]
* `ctor key=K path=class|circuit ts=Q cs=Q arg=A cv=V`
                                  → `err <refusal>` | `ok ts=<l|N> cs=<l|N> cv=<v|N> <compact>`: the model of the constructor
                                    chain of the gate class `K` of `Gen.G.ctorTable` (Model/GateCtor.lean) and of its
                                    `get_compact_qobj`; `Q` is `-` (absent), `N` (None), `s:3`, `l:0,2`; `A` is `-`, `N`, `s`
                                    (a number), `l3` (a list of 3 numbers); `V` is `-`, `N` or an integer;
                                    `<compact>` is `plain` (the class's matrix function at arg_value), `block K rows`
                                    (as for `ctrl`, U = the target gate's matrix) or `cerr <kind>`; with an extra field
                                    `n=N` a `block` answer is `get_qobj(dims=[2]*N)` of the object (`xerr <kind>` if
                                    expand_operator refuses the placement)
-/
open QipVerif QipVerif.Proto QipVerif.GateIO

def ctrlArg? (s : String) : Option Ctrl.Arg :=
  if s.startsWith "s:" then ((s.drop 2).toString.toInt?).map Ctrl.Arg.scalar
  else if s.startsWith "l:" then (intList? (s.drop 2).toString).map Ctrl.Arg.list
  else none

def entChar : Ctrl.Ent → Char
  | .zero => 'z' | .one => 'o'
  | .u 0 0 => 'a' | .u 0 1 => 'b' | .u 1 0 => 'c' | .u 1 1 => 'd'
  | .u _ _ => '?'

def ctrlErr : Ctrl.CErr → String
  | .lenOfInt => "lenOfInt" | .nested => "nested" | .blockIndex => "blockIndex"
  | .embed .count => "count" | .embed .range => "range" | .embed .dims => "dims" | .embed .index => "index"
  | .embed .permute => "permute"

def qArg? (s : String) : Option GateCtor.QArg :=
  if s == "-" then some .absent else if s == "N" then some .none
  else if s.startsWith "s:" then ((s.drop 2).toString.toInt?).map GateCtor.QArg.scalar
  else if s.startsWith "l:" then (intList? (s.drop 2).toString).map GateCtor.QArg.list
  else none

def aArg? (s : String) : Option GateCtor.AArg :=
  if s == "-" then some .absent else if s == "N" then some .none else if s == "s" then some .scalar
  else if s.startsWith "l" then ((s.drop 1).toString.toNat?).map GateCtor.AArg.list
  else none

def vArg? (s : String) : Option GateCtor.VArg :=
  if s == "-" then some .absent else if s == "N" then some .none else s.toInt?.map GateCtor.VArg.int

def refusalStr : GateCtor.Refusal → String
  | .missingArg => "missingArg" | .cvRefused => "cvRefused" | .oneTarget => "oneTarget" | .noControl => "noControl"
  | .twoQubits => "twoQubits" | .concatNone => "concatNone" | .tgOneTarget => "tgOneTarget" | .controlsNone => "controlsNone"

def optList : Option (List Int) → String
  | none => "N"
  | some l => "l:" ++ showInts l

def ctorStep (fs : List String) : String :=
  match fStr? fs "key", fStr? fs "path", (fStr? fs "ts").bind qArg?, (fStr? fs "cs").bind qArg?, (fStr? fs "arg").bind aArg?,
      (fStr? fs "cv").bind vArg? with
  | some key, some path, some ts, some cs, some arg, some cv =>
    match Gen.G.ctorTable.find? (fun e => e.key == key) with
    | none => "err unknownKey"
    | some e =>
      let r0 : GateCtor.Req := ⟨ts, cs, arg, cv⟩
      let r := if path == "circuit" then r0.viaCircuit else r0
      match GateCtor.construct Gen.G.ctorPolicy e r with
      | .error x => "err " ++ refusalStr x
      | .ok o =>
        let head := s!"ok ts={optList o.targets} cs={optList o.controls} cv={match o.cv with | none => "N" | some v => toString v} "
        match GateCtor.compact (if Gen.GF.ctrlCompatTest == "controls" then .controls else .targets) e r o with
        | .error .argType => head ++ "cerr argType"
        | .error .argCount => head ++ "cerr argCount"
        | .error .cvNone => head ++ "cerr cvNone"
        | .error .fixedCV => head ++ "cerr fixedCV"
        | .error (.ctrl x) => head ++ "cerr " ++ ctrlErr x
        | .ok .plain => head ++ "plain"
        | .ok (.block res0) =>
          -- with `n=N`: `get_qobj(dims=[2]*N)` of the object (GateCtor.expanded) instead of the compact matrix
          let res? : Except String Ctrl.Res :=
            match fNat? fs "n" with
            | none => .ok res0
            | some N =>
              match GateCtor.expanded N o res0 with
              | .ok R => .ok R
              | .error x => .error (ctrlErr (.embed x))
          match res? with
          | .error x => head ++ "xerr " ++ x
          | .ok res =>
            let dims := List.replicate res.K 2
            let n := 2 ^ res.K
            let rows := (List.range n).map fun X =>
              String.ofList ((List.range n).map fun Y => entChar (res.entry (Embed.digits dims X) (Embed.digits dims Y)))
            head ++ s!"block {res.K} " ++ ";".intercalate rows
  | _, _, _, _, _, _ => "bad-op"

/-- `heap ops=<op>;<op>;… probes=T,X` — the model of circuit objects and their user_gates dictionaries (Model/CircHeap.lean).
ops: `D` QubitCircuit(N) | `L<name>:<tag>,…` (or `L`) a dict literal | `W<d>` QubitCircuit(N, user_gates=dict d) |
`S<c>:<name>:<tag>` circuit c .user_gates[name] = custom | `A<dst>:<src>:<0|1>` add_circuit(overwrite).
Answer: `ok c0=T:7,X:-|c1=…`: for every circuit and probe name the tag of the custom matrix it resolves to, `-` = library -/
def heapOp? (t : String) : Option CircHeap.Op :=
  let body := (t.drop 1).toString
  if t == "D" then some .newDefault
  else if t.startsWith "L" then
    ((splitNE body ",").mapM fun (kv : String) =>
      match kv.splitOn ":" with
      | [k, v] => (String.toNat? v).map fun n => (k, n)
      | _ => none).map CircHeap.Op.newDict
  else if t.startsWith "W" then body.toNat?.map CircHeap.Op.newWith
  else if t.startsWith "S" then
    match body.splitOn ":" with
    | [c, k, v] => match c.toNat?, v.toNat? with
      | some c, some v => some (.setUser c k v)
      | _, _ => none
    | _ => none
  else if t.startsWith "A" then
    match body.splitOn ":" with
    | [a, b, o] => match a.toNat?, b.toNat? with
      | some a, some b => some (.addCircuit a b (o == "1"))
      | _, _ => none
    | _ => none
  else none

def heapStep (fs : List String) : String :=
  match (fStr? fs "ops").bind (fun s => (splitNE s ";").mapM heapOp?), fStr? fs "probes" with
  | some ops, some ps =>
    let h := CircHeap.run ⟨[], []⟩ ops
    let names := splitNE ps ","
    "ok " ++ "|".intercalate ((List.range h.circ.length).map fun c =>
      s!"c{c}=" ++ ",".intercalate (names.map fun nm =>
        nm ++ ":" ++ (match CircHeap.resolve h c nm with | some t => toString t | none => "-")))
  | _, _ => "bad-op"

def step (line : String) : String :=
  let fs := fields line
  match fs.head? with
  | some "gate" =>
    match fStr? fs "name", fInt? fs "n8" with
    | some n, some k =>
      match gateE (GName.ofString n) k with
      | some (m, d) => s!"ok {m} " ++ showDMat d
      | none => "none"
    | _, _ => "bad-op"
  | some "gatef" =>
    match fStr? fs "fn", (fNats? fs "args") with
    | some fn, some bits =>
      match Gen.GF.eval fn (bits.map fun b => Float.ofBits (UInt64.ofNat b)) with
      | some m => "ok " ++ ";".intercalate (m.map fun r => ",".intercalate (r.map fun c => s!"{c.re.toBits.toNat}:{c.im.toBits.toNat}"))
      | none => "none"
    | _, _ => "bad-op"
  | some "den" =>
    match fNat? fs "k", (fStr? fs "gates").bind gates? with
    | some k, some gs =>
      match denE k gs with
      | some d => "ok " ++ showDMat d
      | none => "none"
    | _, _ => "bad-op"
  | some "ctrl" =>
    match (fStr? fs "cs").bind ctrlArg?, (fStr? fs "ts").bind ctrlArg?, fStr? fs "n", fInt? fs "v" with
    | some cs, some ts, some ns, some v =>
      let N? : Option (Option Nat) := if ns == "-" then some none else ns.toNat?.map some
      match N? with
      | none => "bad-op"
      | some N? =>
        match Ctrl.controlledGate (if Gen.GF.ctrlCompatTest == "controls" then .controls else .targets) cs ts N? v with
        | .error e => "err " ++ ctrlErr e
        | .ok r =>
          let dims := List.replicate r.K 2
          let n := 2 ^ r.K
          let rows := (List.range n).map fun X =>
            String.ofList ((List.range n).map fun Y => entChar (r.entry (Embed.digits dims X) (Embed.digits dims Y)))
          s!"ok {r.K} " ++ ";".intercalate rows
    | _, _, _, _ => "bad-op"
  | some "ctor" => ctorStep fs
  | some "heap" => heapStep fs
  | _ => "bad-op"

def main : IO Unit := serve step
