import QipVerif.Util.GateIO
import QipVerif.Gen.GateDefsF
import QipVerif.Model.Ctrl
/-! Driver for the exact gate library and exact denotation (C09, C01, C03 share it).

* `gate name=NAME n8=K`          → `ok m e|rows` exact compact matrix of the gate with angle K·π/8
                                    (entries as 8 integer coordinates in the basis 1,ζ,…,ζ⁷, ζ = e^{iπ/8}; value / 2^e)
* `gatef fn=FUNC args=b1,b2,..`  → `ok rows` the generated float rendering of gate function FUNC at the
                                    given arguments (IEEE bit patterns as decimal integers, in and out)
* `den k=K gates=<list>`         → `ok e|rows` exact unitary of a fixed-angle circuit on K qubits | `none`
* `ctrl cs=A ts=A n=N|- v=V`     → `ok K rows` | `err <kind>`: the model of `controlled_gate` (Model/Ctrl.lean) for a
                                    single-qubit U; an argument `A` is `s:3` (a bare integer) or `l:0,2` (a list);
                                    rows of the 2^K × 2^K result, one letter per element: z = 0, o = 1,
                                    a b c d = U[0][0] U[0][1] U[1][0] U[1][1]
-/
open QipVerif QipVerif.Proto QipVerif.GateIO

def ctrlArg? (s : String) : Option Ctrl.Arg :=
  if s.startsWith "s:" then ((s.drop 2).toString.toInt?).map Ctrl.Arg.scalar
  else if s.startsWith "l:" then (intList? (s.drop 2).toString).map Ctrl.Arg.list
  else none

def entChar : Ctrl.Ent → Char
  | .zero => 'z' | .one => 'o'
  | .u 0 0 => 'a' | .u 0 1 => 'b' | .u 1 0 => 'c' | .u 1 1 => 'd'
  | .u _ _ => '?'

def ctrlErr : Ctrl.CErr → String
  | .lenOfInt => "lenOfInt" | .nested => "nested" | .blockIndex => "blockIndex"
  | .embed .count => "count" | .embed .range => "range" | .embed .dims => "dims" | .embed .index => "index"
  | .embed .permute => "permute"

def step (line : String) : String :=
  let fs := fields line
  match fs.head? with
  | some "gate" =>
    match fStr? fs "name", fInt? fs "n8" with
    | some n, some k =>
      match gateE (GName.ofString n) k with
      | some (m, d) => s!"ok {m} " ++ showDMat d
      | none => "none"
    | _, _ => "bad-op"
  | some "gatef" =>
    match fStr? fs "fn", (fNats? fs "args") with
    | some fn, some bits =>
      match Gen.GF.eval fn (bits.map fun b => Float.ofBits (UInt64.ofNat b)) with
      | some m => "ok " ++ ";".intercalate (m.map fun r => ",".intercalate (r.map fun c => s!"{c.re.toBits.toNat}:{c.im.toBits.toNat}"))
      | none => "none"
    | _, _ => "bad-op"
  | some "den" =>
    match fNat? fs "k", (fStr? fs "gates").bind gates? with
    | some k, some gs =>
      match denE k gs with
      | some d => "ok " ++ showDMat d
      | none => "none"
    | _, _ => "bad-op"
  | some "ctrl" =>
    match (fStr? fs "cs").bind ctrlArg?, (fStr? fs "ts").bind ctrlArg?, fStr? fs "n", fInt? fs "v" with
    | some cs, some ts, some ns, some v =>
      let N? : Option (Option Nat) := if ns == "-" then some none else ns.toNat?.map some
      match N? with
      | none => "bad-op"
      | some N? =>
        match Ctrl.controlledGate (if Gen.GF.ctrlCompatTest == "controls" then .controls else .targets) cs ts N? v with
        | .error e => "err " ++ ctrlErr e
        | .ok r =>
          let dims := List.replicate r.K 2
          let n := 2 ^ r.K
          let rows := (List.range n).map fun X =>
            String.ofList ((List.range n).map fun Y => entChar (r.entry (Embed.digits dims X) (Embed.digits dims Y)))
          s!"ok {r.K} " ++ ";".intercalate rows
    | _, _, _, _ => "bad-op"
  | _ => "bad-op"

def main : IO Unit := serve step
