import QipVerif.Util.Proto
import QipVerif.Model.Route
/-! Driver for the routing model (C07).

* `route n=N setup=linear|circular|<anything else> [variant=fixed|old|xyz] gates=G;G;…`
* `adjacent [variant=…] gates=G;G;…`

A gate is `NAME/controls/targets/arg/extra` (comma-separated naturals, may be empty);
`NAME` is one of the names the router distinguishes, `o<k>` for any other gate, `m<k>` for a
`Measurement`.  `variant=wxyz[c[r]]` with bits for (modFix, roleFix, argFix, measFix[, ccFix[, rzFix]]); default `fixed` (= `111100`).
Answer: `ok G;G;…` | `err shape` | `err notimpl` | `err value` | `bad-op`.
-/
open QipVerif QipVerif.Proto QipVerif.Route

def parseName (s : String) : Option GName :=
  match s with
  | "CNOT" => some .CNOT | "CSIGN" => some .CSIGN | "SWAP" => some .SWAP | "ISWAP" => some .ISWAP
  | "SQRTISWAP" => some .SQRTISWAP | "SQRTSWAP" => some .SQRTSWAP | "BERKELEY" => some .BERKELEY
  | "SWAPalpha" => some .SWAPalpha
  | "RZX" => some .RZX
  | _ =>
    if s.startsWith "o" then ((s.drop 1).toString.toNat?).map GName.other
    else if s.startsWith "m" then ((s.drop 1).toString.toNat?).map GName.meas
    else none

def showName : GName → String
  | .CNOT => "CNOT" | .CSIGN => "CSIGN" | .SWAP => "SWAP" | .ISWAP => "ISWAP"
  | .SQRTISWAP => "SQRTISWAP" | .SQRTSWAP => "SQRTSWAP" | .BERKELEY => "BERKELEY"
  | .SWAPalpha => "SWAPalpha" | .RZX => "RZX" | .other k => s!"o{k}" | .meas k => s!"m{k}"

def parseGate (s : String) : Option Gate :=
  match s.splitOn "/" with
  | [nm, cs, ts, a, x] => do
    let nm ← parseName nm
    let cs ← natList? cs
    let ts ← natList? ts
    let a ← a.toNat?
    let x ← x.toNat?
    pure ⟨nm, cs, ts, a, x⟩
  | _ => none

def showGate (g : Gate) : String :=
  s!"{showName g.name}/{showNats g.controls}/{showNats g.targets}/{g.arg}/{g.extra}"

def parseGates (fs : List String) : Option (List Gate) :=
  match field? fs "gates" with
  | none => none
  | some s => (splitNE s ";").mapM parseGate

def parseVariant (fs : List String) : Option Variant :=
  match field? fs "variant" with
  | none => some Variant.fixed
  | some "fixed" => some Variant.fixed
  | some "old" => some Variant.old
  | some s =>
    match s.toList with
    | [a, b, c, d] =>
      if [a, b, c, d].all (fun ch => ch = '0' || ch = '1') then some ⟨a = '1', b = '1', c = '1', d = '1', false, false⟩
      else none
    | [a, b, c, d, x] =>
      if [a, b, c, d, x].all (fun ch => ch = '0' || ch = '1') then
        some ⟨a = '1', b = '1', c = '1', d = '1', x = '1', false⟩
      else none
    | [a, b, c, d, x, y] =>
      if [a, b, c, d, x, y].all (fun ch => ch = '0' || ch = '1') then
        some ⟨a = '1', b = '1', c = '1', d = '1', x = '1', y = '1'⟩
      else none
    | _ => none

def parseSetup (s : String) : Setup :=
  if s = "linear" then .linear else if s = "circular" then .circular else .other

def answer : Except Err (List Gate) → String
  | .ok gs => "ok " ++ ";".intercalate (gs.map showGate)
  | .error .shape => "err shape"
  | .error .notImplemented => "err notimpl"
  | .error .value => "err value"

def step (line : String) : String :=
  let fs := fields line
  match fs.head? with
  | some "route" =>
    match fNat? fs "n", fStr? fs "setup", parseVariant fs, parseGates fs with
    | some n, some st, some v, some gs => answer (toChainV v n (parseSetup st) gs)
    | _, _, _, _ => "bad-op"
  | some "adjacent" =>
    match parseVariant fs, parseGates fs with
    | some v, some gs => answer (adjacentGatesV v gs)
    | _, _ => "bad-op"
  | _ => "bad-op"

def main : IO Unit := serve step
