import QipVerif.Util.Proto
import QipVerif.Model.QasmTok
/-! Driver for the model of the importer's line tokenizer (`Model/QasmTok.lean`, property C04).

Text is hex-encoded: two lower-case hex digits per character below U+0100, `u` + six hex digits
for any other character.  A list of lines is `,`-separated; `-` is the empty list (an empty value
is ONE empty line).  In answers every string is prefixed by `t` (so that empty strings stay
visible): a command is `t<hex>,t<hex>,…`, commands are `;`-separated.

* `tok lines=<hex>,<hex>,…`  → `ok <cmd>;<cmd>;…` | `err <kind>`      (`_tokenize`)
* `line cmd=<hex>`           → `ok t<hex>,t<hex>,…` | `err <kind>`    (`_tokenize_line`)
* `pre lines=…`              → `ok t<hex>,t<hex>,…` | `err <kind>`    (`read_qasm` before `_tokenize`)
* `read lines=…`             → as `tok`, after `pre`
* `render prog=…` is NOT here (see `drv_qasm import`, which returns the rendered text).
-/
open QipVerif QipVerif.Proto QipVerif.Qasm

def hexVal (c : Char) : Option Nat :=
  if '0' ≤ c && c ≤ '9' then some (c.toNat - '0'.toNat)
  else if 'a' ≤ c && c ≤ 'f' then some (c.toNat - 'a'.toNat + 10)
  else none

def hexNum (ds : List Char) : Option Nat :=
  ds.foldl (fun acc d => match acc, hexVal d with
    | some a, some x => some (16 * a + x)
    | _, _ => none) (some 0)

def unhexL : Nat → List Char → Option (List Char)
  | 0, _ => none
  | _ + 1, [] => some []
  | f + 1, 'u' :: a :: b :: c :: d :: e :: g :: r =>
    match hexNum [a, b, c, d, e, g], unhexL f r with
    | some n, some t => some (Char.ofNat n :: t)
    | _, _ => none
  | f + 1, a :: b :: r =>
    match hexVal a, hexVal b, unhexL f r with
    | some x, some y, some t => some (Char.ofNat (16 * x + y) :: t)
    | _, _, _ => none
  | _ + 1, _ => none

def unhex (s : String) : Option Str := unhexL (s.length + 1) s.toList

def hexDigit (n : Nat) : Char :=
  if n < 10 then Char.ofNat ('0'.toNat + n) else Char.ofNat ('a'.toNat + n - 10)

def hexChar (c : Char) : List Char :=
  let n := c.toNat
  if n < 256 then [hexDigit (n / 16), hexDigit (n % 16)]
  else 'u' :: (List.range 6).map fun i => hexDigit (n / 16 ^ (5 - i) % 16)

def hex (s : Str) : String := String.ofList (s.flatMap hexChar)

def decLines (s : String) : Option (List Str) :=
  if s == "-" then some [] else (s.splitOn ",").mapM unhex

def errName : Tok.Err → String
  | .noLines => "noLines" | .header => "header" | .brackets => "brackets" | .attr => "attr"
  | .fuel => "fuel"

def encStrs (l : List Str) : String := ",".intercalate (l.map fun t => "t" ++ hex t)

def encCmds (l : List (List Str)) : String := ";".intercalate (l.map encStrs)

def answer (r : Except Tok.Err String) : String :=
  match r with
  | .ok s => if s.isEmpty then "ok" else "ok " ++ s
  | .error e => "err " ++ errName e

def step (line : String) : String :=
  let fs := fields line
  match fs.head? with
  | some "tok" =>
    match (fStr? fs "lines").bind decLines with
    | some ls => answer ((Tok.tokenize ls).map encCmds)
    | none => "bad-op"
  | some "read" =>
    match (fStr? fs "lines").bind decLines with
    | some ls => answer ((Tok.readTokens ls).map encCmds)
    | none => "bad-op"
  | some "pre" =>
    match (fStr? fs "lines").bind decLines with
    | some ls => answer ((Tok.preLines ls).map encStrs)
    | none => "bad-op"
  | some "line" =>
    match (fStr? fs "cmd").bind unhex with
    | some c => answer ((Tok.tokenizeLine c).map encStrs)
    | none => "bad-op"
  | _ => "bad-op"

def main : IO Unit := serve step
