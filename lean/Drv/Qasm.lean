import QipVerif.Util.Proto
import QipVerif.Model.QasmExport
import QipVerif.Model.QasmImport
/-! Driver for the QASM models (C10 exporter, C04 importer, the strict recogniser).

Text that may contain spaces is hex-encoded (two lower-case hex digits per byte, ASCII only).

* `export n=N c=M ops=<op>;<op>;…` → `ok <hex line>,<hex line>,…` | `err <kind>`
    op = `g:NAME:<idx>:<idx>:<arg>:<idx>` (targets, controls, arg_value, classical controls)
       | `m:<idx>:<store>`
    idx = `N` (None) | `L` + dot-separated naturals (`L` = empty list);  store = `N` | natural
    arg = `N` | `S<hex str(x)>` | `Q<kind>/<hex str(container)>/<hex str(x0)>,<hex str(x1)>,…`
* `accept lines=<hex>,<hex>,…` → `true` | `false`      (strict recogniser on a whole text)
* `parse line=<hex>` → `reject` | `blank` | `stmt`
* `import prog=<program>` → `ok nq=.. nc=.. text=<hex lines> ops=<ops>` | `err <kind> text=<hex lines>`
    (model of `read_qasm` on the program; `text` = the program rendered one statement per line)
* `spec prog=<program>` → `ok nq=.. nc=.. ops=<built-ins>` | `err <kind>`   (the standard's denotation)
-/
open QipVerif QipVerif.Proto QipVerif.Qasm

def hexVal (c : Char) : Option Nat :=
  if '0' ≤ c && c ≤ '9' then some (c.toNat - '0'.toNat)
  else if 'a' ≤ c && c ≤ 'f' then some (c.toNat - 'a'.toNat + 10)
  else none

def unhexL : List Char → Option (List Char)
  | [] => some []
  | a :: b :: r =>
    match hexVal a, hexVal b, unhexL r with
    | some x, some y, some t => some (Char.ofNat (16 * x + y) :: t)
    | _, _, _ => none
  | _ => none

def unhex (s : String) : Option Str := unhexL s.toList

def hexDigit (n : Nat) : Char :=
  if n < 10 then Char.ofNat ('0'.toNat + n) else Char.ofNat ('a'.toNat + n - 10)

def hex (s : Str) : String :=
  String.ofList (s.flatMap fun c => [hexDigit (c.toNat / 16), hexDigit (c.toNat % 16)])

def parseIdx (s : String) : Option (Option (List Nat)) :=
  if s == "N" then some none
  else if s.startsWith "L" then
    let body := (s.drop 1).toString
    if body.isEmpty then some (some [])
    else ((body.splitOn ".").mapM String.toNat?).map some
  else none

def parseNum (h : String) : Option Export.Num :=
  match unhex h with
  | some ('-' :: t) => some ⟨true, t⟩
  | some t => some ⟨false, t⟩
  | none => none

def parseArg (s : String) : Option Export.ArgVal :=
  if s == "N" then some .none
  else if s.startsWith "S" then (parseNum (s.drop 1).toString).map .num
  else if s.startsWith "Q" then
    match (s.drop 1).toString.splitOn "/" with
    | [kind, whole, items] =>
      match unhex whole, (if items.isEmpty then some [] else (items.splitOn ",").mapM parseNum) with
      | some w, some xs => some (.seq kind.toList w xs)
      | _, _ => none
    | _ => none
  else none

def parseOp (s : String) : Option Export.Op :=
  match s.splitOn ":" with
  | ["g", name, t, c, a, k] =>
    match parseIdx t, parseIdx c, parseArg a, parseIdx k with
    | some t, some c, some a, some k => some (.gate ⟨name.toList, t, c, a, k, none⟩)
    | _, _, _, _ => none
  | ["g", name, t, c, a, k, v] =>      -- with `control_value` (`N` = None)
    match parseIdx t, parseIdx c, parseArg a, parseIdx k, (if v == "N" then some none else v.toNat?.map some) with
    | some t, some c, some a, some k, some v => some (.gate ⟨name.toList, t, c, a, k, v⟩)
    | _, _, _, _, _ => none
  | ["m", t, st] =>
    match parseIdx t with
    | some (some ts) =>
      if st == "N" then some (.meas ts none) else (st.toNat?).map (fun n => .meas ts (some n))
    | _ => none
  | _ => none

/-! ### programs (C04): prefix encoding of the AST

statements `;`-separated, fields `|`-separated, lists `,`-separated, expression tokens
`.`-separated (prefix notation: `P` pi, `L<hex>` literal, `I<hex>` identifier, `N` minus,
`A S M D W` binary + - * / ^, `F<hex>` function); body operations of a gate definition are
`/`-separated with `~`-separated fields. -/

def pExprToks : Nat → List String → Option (Expr × List String)
  | 0, _ => none
  | _ + 1, [] => none
  | f + 1, t :: r =>
    if t == "P" then some (.pi, r)
    else if t.startsWith "L" then (unhex (t.drop 1).toString).map (fun s => (.lit s, r))
    else if t.startsWith "I" then (unhex (t.drop 1).toString).map (fun s => (.id s, r))
    else if t == "N" then (pExprToks f r).map (fun (e, r') => (.neg e, r'))
    else if t.startsWith "F" then
      match unhex (t.drop 1).toString, pExprToks f r with
      | some n, some (e, r') => some (.fn n e, r')
      | _, _ => none
    else
      match pExprToks f r with
      | some (a, r1) =>
        match pExprToks f r1 with
        | some (b, r2) =>
          if t == "A" then some (.add a b, r2) else if t == "S" then some (.sub a b, r2)
          else if t == "M" then some (.mul a b, r2) else if t == "D" then some (.div a b, r2)
          else if t == "W" then some (.pow a b, r2) else none
        | none => none
      | none => none

def decExpr (s : String) : Option Expr :=
  let ts := s.splitOn "."
  match pExprToks (ts.length + 1) ts with
  | some (e, []) => some e
  | _ => none

def decList {α} (f : String → Option α) (s : String) : Option (List α) :=
  if s.isEmpty then some [] else (s.splitOn ",").mapM f

def decArg (s : String) : Option Arg :=
  if s.startsWith "w" then (unhex (s.drop 1).toString).map .whole
  else if s.startsWith "i" then
    match (s.drop 1).toString.splitOn ":" with
    | [h, n] => match unhex h, n.toNat? with
      | some r, some i => some (.idx r i)
      | _, _ => none
    | _ => none
  else none

def decQOp (fs : List String) : Option QOp :=
  match fs with
  | ["U", a, b, c, q] =>
    match decExpr a, decExpr b, decExpr c, decArg q with
    | some a, some b, some c, some q => some (.U a b c q)
    | _, _, _, _ => none
  | ["X", a, b] => match decArg a, decArg b with
    | some a, some b => some (.CX a b)
    | _, _ => none
  | ["A", n, ps, qs] =>
    match unhex n, decList decExpr ps, decList decArg qs with
    | some n, some ps, some qs => some (.call n ps qs)
    | _, _, _ => none
  | ["M", q, c] => match decArg q, decArg c with
    | some q, some c => some (.measure q c)
    | _, _ => none
  | ["R", q] => (decArg q).map .reset
  | _ => none

def decGOp (s : String) : Option GOp :=
  match s.splitOn "~" with
  | ["u", a, b, c, q] =>
    match decExpr a, decExpr b, decExpr c, unhex q with
    | some a, some b, some c, some q => some (.U a b c q)
    | _, _, _, _ => none
  | ["c", a, b] => match unhex a, unhex b with
    | some a, some b => some (.CX a b)
    | _, _ => none
  | ["g", n, ps, qs] =>
    match unhex n, decList decExpr ps, decList unhex qs with
    | some n, some ps, some qs => some (.call n ps qs)
    | _, _, _ => none
  | ["b", qs] => (decList unhex qs).map .barrier
  | _ => none

def decStmt (s : String) : Option Stmt :=
  match s.splitOn "|" with
  | ["V"] => some .version
  | ["C", f] => (unhex f).map .incl
  | ["Q", n, k] => match unhex n, k.toNat? with
    | some n, some k => some (.qreg n k)
    | _, _ => none
  | ["K", n, k] => match unhex n, k.toNat? with
    | some n, some k => some (.creg n k)
    | _, _ => none
  | ["G", n, ps, qs, body] =>
    match unhex n, decList unhex ps, decList unhex qs,
        (if body.isEmpty then some [] else (body.splitOn "/").mapM decGOp) with
    | some n, some ps, some qs, some b => some (.gate ⟨n, ps, qs, b⟩)
    | _, _, _, _ => none
  | ["O", n, ps, qs] =>
    match unhex n, decList unhex ps, decList unhex qs with
    | some n, some ps, some qs => some (.opaque n ps qs)
    | _, _, _ => none
  | "I" :: c :: k :: rest =>
    match unhex c, k.toNat?, decQOp rest with
    | some c, some k, some op => some (.ifc c k op)
    | _, _, _ => none
  | ["B", qs] => (decList decArg qs).map .barrier
  | fs => (decQOp fs).map .qop

def decProgram (s : String) : Option Program :=
  if s.isEmpty then some [] else (s.splitOn ";").mapM decStmt

def encIdx : Option (List Nat) → String
  | none => "N"
  | some l => "L" ++ ".".intercalate (l.map toString)

def encONat : Option Nat → String
  | none => "N"
  | some n => toString n

def encIArg : Import.IArg → String
  | .none => "N"
  | .one e => "O" ++ hex e.render
  | .many es => "M" ++ ",".intercalate (es.map (fun e => hex e.render))

def encIGate (sep : String) (g : Import.IGate) : String :=
  sep.intercalate ["g", hex g.name, encIdx (some g.targets), encIdx g.controls, encIArg g.arg,
    encIdx g.cctrl, encONat g.cval]

def encIOp : Import.IOp → String
  | .gate g => encIGate ":" g
  | .custom n ts cc cv inner =>
    ":".intercalate ["c", hex n, encIdx (some ts), encIdx cc, encONat cv,
      "+".intercalate (inner.map (encIGate "~"))]
  | .meas q c => s!"m:{q}:{c}"

def importErr : Import.Err → String
  | .key => "key" | .value => "value" | .syntax => "syntax" | .notImpl => "notImpl" | .name => "name"
  | .zeroDiv => "zeroDiv" | .index => "index" | .recursion => "recursion" | .type => "type"

def specErr : SpecErr → String
  | .undeclaredReg => "undeclaredReg" | .undeclaredGate => "undeclaredGate" | .indexRange => "indexRange"
  | .repeatedQubit => "repeatedQubit" | .arity => "arity" | .broadcast => "broadcast" | .freeId => "freeId"
  | .unsupported => "unsupported" | .redeclared => "redeclared"

def encCond : Option Cond → String
  | none => "N"
  | some c => ".".intercalate (c.bits.map toString) ++ "/" ++ toString c.k

def encOp : Op → String
  | .prim c (.U a b l q) => ":".intercalate ["U", encCond c, hex a.render, hex b.render, hex l.render, toString q]
  | .prim c (.CX a b) => ":".intercalate ["X", encCond c, toString a, toString b]
  | .measure c q b => ":".intercalate ["M", encCond c, toString q, toString b]
  | .barrier qs => "B:" ++ ".".intercalate (qs.map toString)

def exportErr : Export.Err → String
  | .notImpl => "notImpl" | .attr => "attr" | .type => "type" | .index => "index" | .value => "value"

def step (line : String) : String :=
  let fs := fields line
  match fs.head? with
  | some "export" =>
    match fNat? fs "n", fNat? fs "c", fStr? fs "ops" with
    | some n, some c, some ops =>
      match (if ops.isEmpty then some [] else (ops.splitOn ";").mapM parseOp) with
      | some l =>
        match Export.exportCircuit ⟨n, c, l⟩ with
        | .ok ls => "ok " ++ ",".intercalate (ls.map hex)
        | .error e => "err " ++ exportErr e
      | none => "bad-op"
    | _, _, _ => "bad-op"
  | some "accept" =>
    match fStr? fs "lines" with
    | some ls =>
      match (ls.splitOn ",").mapM unhex with
      | some l => if acceptProgram l then "true" else "false"
      | none => "bad-op"
    | none => "bad-op"
  | some "import" =>
    match (fStr? fs "prog").bind decProgram with
    | some p =>
      let text := ",".intercalate ((renderProgram p).map hex)
      match Import.importProgram p with
      | .ok (nq, nc, ops) => s!"ok nq={nq} nc={nc} text={text} ops=" ++ ";".intercalate (ops.map encIOp)
      | .error e => "err " ++ importErr e ++ " text=" ++ text
    | none => "bad-op"
  | some "spec" =>
    match (fStr? fs "prog").bind decProgram with
    | some p =>
      match denote p with
      | .ok (nq, nc, ops) => s!"ok nq={nq} nc={nc} ops=" ++ ";".intercalate (ops.map encOp)
      | .error e => "err " ++ specErr e
    | none => "bad-op"
  | some "parse" =>
    match (fStr? fs "line").bind unhex with
    | some l =>
      match parseLine l with
      | none => "reject"
      | some none => "blank"
      | some (some _) => "stmt"
    | none => "bad-op"
  | _ => "bad-op"

def main : IO Unit := serve step
