import QipVerif.Util.Proto
import QipVerif.Model.QasmExport
/-! Driver for the QASM models (C10 exporter, C04 importer, the strict recogniser).

Text that may contain spaces is hex-encoded (two lower-case hex digits per byte, ASCII only).

* `export n=N c=M ops=<op>;<op>;…` → `ok <hex line>,<hex line>,…` | `err <kind>`
    op = `g:NAME:<idx>:<idx>:<arg>:<idx>` (targets, controls, arg_value, classical controls)
       | `m:<idx>:<store>`
    idx = `N` (None) | `L` + dot-separated naturals (`L` = empty list);  store = `N` | natural
    arg = `N` | `S<hex str(x)>` | `Q<kind>/<hex str(container)>/<hex str(x0)>,<hex str(x1)>,…`
* `accept lines=<hex>,<hex>,…` → `true` | `false`      (strict recogniser on a whole text)
* `parse line=<hex>` → `reject` | `blank` | `stmt`
-/
open QipVerif QipVerif.Proto QipVerif.Qasm

def hexVal (c : Char) : Option Nat :=
  if '0' ≤ c && c ≤ '9' then some (c.toNat - '0'.toNat)
  else if 'a' ≤ c && c ≤ 'f' then some (c.toNat - 'a'.toNat + 10)
  else none

def unhexL : List Char → Option (List Char)
  | [] => some []
  | a :: b :: r =>
    match hexVal a, hexVal b, unhexL r with
    | some x, some y, some t => some (Char.ofNat (16 * x + y) :: t)
    | _, _, _ => none
  | _ => none

def unhex (s : String) : Option Str := unhexL s.toList

def hexDigit (n : Nat) : Char :=
  if n < 10 then Char.ofNat ('0'.toNat + n) else Char.ofNat ('a'.toNat + n - 10)

def hex (s : Str) : String :=
  String.ofList (s.flatMap fun c => [hexDigit (c.toNat / 16), hexDigit (c.toNat % 16)])

def parseIdx (s : String) : Option (Option (List Nat)) :=
  if s == "N" then some none
  else if s.startsWith "L" then
    let body := (s.drop 1).toString
    if body.isEmpty then some (some [])
    else ((body.splitOn ".").mapM String.toNat?).map some
  else none

def parseNum (h : String) : Option Export.Num :=
  match unhex h with
  | some ('-' :: t) => some ⟨true, t⟩
  | some t => some ⟨false, t⟩
  | none => none

def parseArg (s : String) : Option Export.ArgVal :=
  if s == "N" then some .none
  else if s.startsWith "S" then (parseNum (s.drop 1).toString).map .num
  else if s.startsWith "Q" then
    match (s.drop 1).toString.splitOn "/" with
    | [kind, whole, items] =>
      match unhex whole, (if items.isEmpty then some [] else (items.splitOn ",").mapM parseNum) with
      | some w, some xs => some (.seq kind.toList w xs)
      | _, _ => none
    | _ => none
  else none

def parseOp (s : String) : Option Export.Op :=
  match s.splitOn ":" with
  | ["g", name, t, c, a, k] =>
    match parseIdx t, parseIdx c, parseArg a, parseIdx k with
    | some t, some c, some a, some k => some (.gate ⟨name.toList, t, c, a, k⟩)
    | _, _, _, _ => none
  | ["m", t, st] =>
    match parseIdx t with
    | some (some ts) =>
      if st == "N" then some (.meas ts none) else (st.toNat?).map (fun n => .meas ts (some n))
    | _ => none
  | _ => none

def exportErr : Export.Err → String
  | .notImpl => "notImpl" | .attr => "attr" | .type => "type" | .index => "index" | .value => "value"

def step (line : String) : String :=
  let fs := fields line
  match fs.head? with
  | some "export" =>
    match fNat? fs "n", fNat? fs "c", fStr? fs "ops" with
    | some n, some c, some ops =>
      match (if ops.isEmpty then some [] else (ops.splitOn ";").mapM parseOp) with
      | some l =>
        match Export.exportCircuit ⟨n, c, l⟩ with
        | .ok ls => "ok " ++ ",".intercalate (ls.map hex)
        | .error e => "err " ++ exportErr e
      | none => "bad-op"
    | _, _, _ => "bad-op"
  | some "accept" =>
    match fStr? fs "lines" with
    | some ls =>
      match (ls.splitOn ",").mapM unhex with
      | some l => if acceptProgram l then "true" else "false"
      | none => "bad-op"
    | none => "bad-op"
  | some "parse" =>
    match (fStr? fs "line").bind unhex with
    | some l =>
      match parseLine l with
      | none => "reject"
      | some none => "blank"
      | some (some _) => "stmt"
    | none => "bad-op"
  | _ => "bad-op"

def main : IO Unit := serve step
