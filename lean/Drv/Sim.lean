import QipVerif.Util.Proto
import QipVerif.Model.Sim
import QipVerif.Model.SimObj
import QipVerif.Model.SimPulse
import QipVerif.Model.SimEdit
import QipVerif.Model.SimLoad
import QipVerif.Model.SimDefault
/-! Driver for the simulator / world model (C02, C16), exact backend.

Request (one line):
`hist cfg=<copy><ccv><reset><getter><dmrefuse><copyrev><copychain><noiselocal> mode=sv|dm n=<qubits> ncb=<cbits> ops=<op;op;…> lists=<l;l;…|N>
      rng=<i,i,…|N> inits=<state/state/…> phases=<p,p,…|N> calls=<call/call/…>`

* op: `g.<code>.<q,q>.<cc|N|e>.<ccv|D>` (`D` = default value) or `m.<target>.<store|N>`; `N` = None, `e` = empty list
* list: `0,1,1` or `e`;   state: `<k>:<v>_<v>…` with `v = a,b,c,…`
* call: `run.<state>.<cb|N>.<mr|N|e>` · `stat.<state>.<cb|N>` · `init.<state>.<cb|N>.<mr|N|e>` ·
  `step` · `state` · `query` · `compile.<circ>.<k:v,k:v|N>` · `load.<circ>.<0|1>`

Answer: one chunk per call, then the final world, joined by ` ; `:
`R!<states&…>!<probs&…>!<ref:values+…|A>!<events>` · `E<kind>!<events>` · `I` · `S!<events>` · `Q` · `C<circ>:<args>` ·
`W!heap=…!sim=…!comp=…!proc=…`; every call chunk ends with `!H<caller lists after the call>` (and `!GARBAGE`
when `_state` has become an array of a wrong shape); `err value` when the circuit cannot be constructed. -/
open QipVerif QipVerif.Proto QipVerif.Sim QipVerif.Heap

abbrev W := World Exact.QS Exact.Prob

def optInt? (s : String) : Option (Option Int) :=
  if s = "N" then some none else (String.toInt? s).map some
def optNat? (s : String) : Option (Option Nat) :=
  if s = "N" then some none else (String.toNat? s).map some
def optInts? (s : String) : Option (Option (List Int)) :=
  if s = "N" then some none else if s = "e" then some (some []) else (intList? s).map some

def parseOp (s : String) : Option Op :=
  match s.splitOn "." with
  | ["g", code, qs, cc, ccv] => do
    let code ← String.toNat? code
    let qs ← natList? qs
    let cc ← optInts? cc
    -- `D`: `classical_control_value` left at its default (Model/SimDefault.lean)
    let ccv ← if ccv = "D" then some (match cc with | some l => defaultCcv l.length | none => 0) else String.toInt? ccv
    pure (.gate { code := code, qubits := qs, cc := cc, ccv := ccv })
  | ["m", t, st] => do
    let t ← String.toNat? t
    let st ← optInt? st
    pure (.meas t st)
  | _ => none

def parseState (n : Nat) (s : String) : Option Exact.QS :=
  match s.splitOn ":" with
  | [k, vs] => do
    let k ← String.toNat? k
    let vecs ← (vs.splitOn "_").mapM intList?
    pure { n := n, k := k, vecs := vecs }
  | _ => none

def parseKV (s : String) : Option (Nat × Int) :=
  match s.splitOn ":" with
  | [k, v] => do pure ((← String.toNat? k), (← String.toInt? v))
  | _ => none

abbrev DCall := Call Nat     -- states are passed by index into `inits`

def parseCall (s : String) : Option DCall :=
  match s.splitOn "." with
  | ["run", st, cb, mr] => do pure (.run (← String.toNat? st) (← optNat? cb) (← optInts? mr))
  | ["stat", st, cb] => do pure (.stat (← String.toNat? st) (← optNat? cb))
  | ["init", st, cb, mr] => do pure (.init (← String.toNat? st) (← optNat? cb) (← optInts? mr))
  | ["step"] => some .step
  | ["state"] => some .getState
  | ["query"] => some .query
  | ["compile", c, a] => do
    let c ← String.toNat? c
    if a = "N" then pure (.compile c none) else
      let kv ← (splitNE a ",").mapM parseKV
      pure (.compile c (some kv))
  | ["load", c, u] => do pure (.load (← String.toNat? c) ((← String.toNat? u) != 0))
  | _ => none

def errName : Err → String
  | .index => "index" | .type => "type" | .value => "value" | .attr => "attr" | .notimpl => "notimpl"

def showList (l : List Int) : String := if l.isEmpty then "e" else showInts l
def showState : Option Exact.QS → String
  | none => "None"
  | some s => s!"{s.k}:" ++ "_".intercalate (s.vecs.map showInts)
def showProb (p : Exact.Prob) : String := s!"{p.num}/{p.den}"
def showRef : Option Nat → String
  | none => "N"
  | some r => toString r
def showEv : Ev → String
  | .fired i => s!"f{i}" | .skipped i => s!"s{i}" | .measured i o => s!"m{i}={o}" | .dephased i => s!"d{i}"
def showEvs (l : List Ev) : String := ",".intercalate (l.map showEv)
def showArgs (a : List (Nat × Int)) : String := ",".intercalate (a.map fun (k, v) => s!"{k}:{v}")
def showTok (t : Nat × List (Nat × Int)) : String := s!"{t.1}:{showArgs t.2}"

def showResult (h : Heap) (r : Result Exact.QS Exact.Prob) : String :=
  "&".intercalate (r.states.map showState) ++ "!" ++ "&".intercalate (r.probs.map showProb) ++ "!" ++
    (match r.cbits with
     | none => "A"
     | some l => "+".intercalate (l.map fun
        | none => "N"
        | some ref => s!"{ref}:{showList (h.get ref)}"))

def showWorld (w : W) : String :=
  let sim := match w.sim with
    | none => "N"
    | some s => s!"{showRef s.cbits}|{showState s.f.st}|{showProb s.f.prob}|{s.f.opIndex}|" ++
        (match s.f.mres with | none => "N" | some l => showList l) ++ s!"|{s.f.mind}|" ++
        (match s.f.form with | .qobj => "q" | .tensor => "t" | .matrix => "m" | .garbage => "g") ++
        "|" ++ showList s.f.mixed
  "W!heap=" ++ ";".intercalate (w.heap.cells.map showList) ++ "!sim=" ++ sim ++
    "!comp=" ++ showArgs w.comp.args ++ s!"/{w.comp.phase}" ++
    "!proc=" ++ (match w.proc.pulses with | none => "N" | some t => showTok t) ++ s!"/{w.proc.phase}"

def execCall (cfg : Cfg) (mode : Mode) (c : Circuit) (inits : List Exact.QS) (phases : List Int)
    (w : W) (call : DCall) : W × String :=
  let n0 := w.log.length
  let evs (w' : W) : String := showEvs (w'.log.drop n0)
  let dummy : Exact.QS := { n := c.nq, k := 0, vecs := [] }
  let stOf (i : Nat) : Exact.QS := inits.getD i dummy
  let call' : Call Exact.QS := match call with
    | .run st cb mr => .run (stOf st) cb mr
    | .stat st cb => .stat (stOf st) cb
    | .init st cb mr => .init (stOf st) cb mr
    | .step => .step
    | .getState => .getState
    | .query => .query
    | .compile ci a => .compile ci a
    | .load ci u => .load ci u
  let (w', ret) := exec Exact.backend cfg mode c phases w call'
  match call, ret with
  | .init .., _ => (w', "I")
  | .step, .unit none => (w', "S!" ++ evs w')
  | _, .unit (some e) => (w', "E" ++ errName e ++ "!" ++ evs w')
  | _, .unit none => (w', "S!" ++ evs w')
  | _, .result (.ok r) => (w', "R!" ++ showResult w'.heap r ++ "!" ++ evs w')
  | _, .result (.error e) => (w', "E" ++ errName e ++ "!" ++ evs w')
  | _, .state (.ok st) => (w', "G!" ++ showState st)
  | _, .state (.error e) => (w', "E" ++ errName e ++ "!")
  | _, .nothing => (w', "Q")
  | _, .program tok => (w', "C" ++ showTok tok)

def parseCfg (s : String) : Option Cfg :=
  match s.toList with
  | [a, b, c, d, e, f, g, h] =>
    some { copyCbits := a == '1', checkCcv := b == '1', resetPhase := c == '1', pureGetter := d == '1',
           dmRefuse := e == '1', copyRev := f == '1', copyChain := g == '1', noiseLocal := h == '1' }
  | _ => none

/-- `N` | `s<v>` | `l<a,b,N,…>` (`le` = empty list) -/
def parseTVal (s : String) : Option TVal :=
  match s.toList with
  | ['N'] => some .none
  | 's' :: rest => (String.toInt? (String.ofList rest)).map TVal.scalar
  | ['l', 'e'] => some (.list [])
  | 'l' :: rest =>
    ((splitNE (String.ofList rest) ",").mapM fun x =>
      if x = "N" then some (none : Option Int) else (String.toInt? x).map some).map TVal.list
  | _ => none

def showOptList (l : List (Option Int)) : String :=
  if l.isEmpty then "e" else ",".intercalate (l.map fun | none => "N" | some v => toString v)

def showTVal : TVal → String
  | .none => "N"
  | .scalar v => s!"s{v}"
  | .list l => "l" ++ showOptList l

/-- `noise cfg=… t1=<tv> t2=<tv> uses=<N,N,…>`: per use `ok <l1>|<l2>` or `err value`, then the object `@<t1>;<t2>` -/
def noiseCmd (fs : List String) : Option String := do
  let cfg ← (fStr? fs "cfg").bind parseCfg
  let t1 ← (fStr? fs "t1").bind parseTVal
  let t2 ← (fStr? fs "t2").bind parseTVal
  let uses ← fNats? fs "uses"
  let (_, outs) := uses.foldl (fun (acc : RelaxObj × List String) n =>
      let r := relaxUse cfg acc.1 n
      let o := match r.2 with
        | .ok (l1, l2) => s!"ok {showOptList l1}|{showOptList l2}"
        | .error e => "err " ++ errName e
      (r.1, acc.2 ++ [o ++ s!" @{showTVal r.1.t1};{showTVal r.1.t2}"])) (⟨t1, t2⟩, [])
  pure (" ; ".intercalate outs)

/-- `deco cfg=… coeff=<N|v> tln=<0|1> uses=<k>`: per use `<coeff used> @<coeff attribute>` -/
def decoCmd (fs : List String) : Option String := do
  let cfg ← (fStr? fs "cfg").bind parseCfg
  let c ← (fStr? fs "coeff").bind optInt?
  let tln ← fNat? fs "tln"
  let k ← fNat? fs "uses"
  let sh : Option Int → String := fun | none => "N" | some v => toString v
  let (_, outs) := (List.range k).foldl (fun (acc : DecoObj × List String) _ =>
      let r := decoUse cfg acc.1
      (r.1, acc.2 ++ [s!"{sh r.2} @{sh r.1.coeff}"])) (⟨c, tln != 0⟩, [])
  pure (" ; ".intercalate outs)

/-- `share cfg=… kind=rev|chain|copy ctrl=<0|1,…> [meas=<positions>] plan=<k0,l2,f,…|N>`: the argument has one gate object per entry of
`ctrl` (1 = it has a controls list), each with lists of its own; answer per gate of the result: `o<i>` the argument's
gate object `i` itself, `t<i>` a new object holding the targets list of gate `i`, `n` nothing shared -/
def shareCmd (fs : List String) : Option String := do
  let cfg ← (fStr? fs "cfg").bind parseCfg
  let kind ← fStr? fs "kind"
  let ctrl ← fNats? fs "ctrl"
  let planS ← fStr? fs "plan"
  let k := ctrl.length
  let w : OWorld :=
    { lists := ⟨(List.range k).flatMap fun i => [[Int.ofNat i], [Int.ofNat (i + 100)]]⟩,
      gates := (List.range k).map fun i => ⟨i, 2 * i, if ctrl.getD i 0 != 0 then some (2 * i + 1) else none⟩ }
  let arg : Circ := List.range k
  let plan ← if planS = "N" then some [] else (planS.splitOn ",").mapM fun x =>
    match x.toList with
    | ['f'] => some (Item.fresh 0 [0] none)
    | 'k' :: rest => (String.toNat? (String.ofList rest)).map Item.keep
    | 'l' :: rest => (String.toNat? (String.ofList rest)).map (fun i => Item.relist i 0)
    | _ => none
  let r ← match kind with
    | "rev" => some (reverseCircuit cfg w arg ((fNats? fs "meas").getD []))
    | "chain" => some (toChain cfg w arg plan)
    | "copy" => some (resolveLike w arg plan)
    | _ => none
  let sig := r.2.map fun ref =>
    if ref < k then s!"o{ref}" else
      match r.1.gate? ref with
      | some g => if g.targets < 2 * k then s!"t{g.targets / 2}" else "n"
      | none => "?"
  pure ("ok " ++ ",".intercalate sig)

/-! ### pulses held by a processor under noisy evaluation (Model/SimPulse.lean) -/

def usList? (s : String) : Option (List Int) :=
  if s = "e" then some [] else (splitNE s "_").mapM String.toInt?
def usNats? (s : String) : Option (List Nat) :=
  if s = "e" then some [] else (splitNE s "_").mapM String.toNat?
def optUsNats? (s : String) : Option (Option (List Nat)) :=
  if s = "N" then some none else (usNats? s).map some

/-- `a<i>:<c>` · `r<i>` · `c<i>:<t>` · `l<i>:<t>` · `sc:<t>` · `sl:<t>` -/
def parseAct (s : String) : Option Act :=
  match s.splitOn ":" with
  | ["sc", t] => (String.toInt? t).map Act.sysCoh
  | ["sl", t] => (String.toInt? t).map Act.sysLind
  | [h] =>
    match h.toList with
    | 'r' :: rest => (String.toNat? (String.ofList rest)).map Act.rand
    | _ => none
  | [h, t] =>
    match h.toList, String.toInt? t with
    | 'a' :: rest, some t => (String.toNat? (String.ofList rest)).map fun i => Act.amp i t
    | 'c' :: rest, some t => (String.toNat? (String.ofList rest)).map fun i => Act.coh i t
    | 'l' :: rest, some t => (String.toNat? (String.ofList rest)).map fun i => Act.lind i t
    | _, _ => none
  | _ => none

/-- `A.<idx|N|e>.<c>` · `R.<idx|N|e>` · `X.<toks>` (relaxation) · `D.<toks>` (decoherence) · `Z.<toks>` (ZZ) ·
`U.<act>+<act>…|e` (user) -/
def parseNoise (s : String) : Option Noise :=
  match s.splitOn "." with
  | ["A", idx, c] => do pure (.amp (← optUsNats? idx) (← String.toInt? c))
  | ["R", idx] => do pure (.random (← optUsNats? idx))
  | ["X", t] => (usList? t).map Noise.relax
  | ["D", t] => (usList? t).map Noise.deco
  | ["Z", t] => (usList? t).map Noise.zz
  | ["U", a] => if a = "e" then some (.user []) else ((splitNE a "+").mapM parseAct).map Noise.user
  | _ => none

def showUs (l : List Int) : String := if l.isEmpty then "e" else "_".intercalate (l.map toString)
def showPVal : Option PVal → String
  | none => "?"
  | some v => s!"{v.ideal}:{showUs v.coh}:{showUs v.lind}"
def showPVals (l : List (Option PVal)) : String := if l.isEmpty then "e" else "|".intercalate (l.map showPVal)

/-- `pulses pcfg=<0|1><d|s|a> held=<ideal,…|N> noise=<n;n;…|N> rng=<i,…|N> calls=<0|1,…>`: a processor holding one
pulse per entry of `held` (no noise element yet), its noise objects, a history of `get_noisy_pulses(device_noise=c)`;
per call `ok <returned pulses>` or `err <kind>`, then ` @<the pulses the processor holds>`, then ` #<length of the
owner's list of noise objects>`; optional `lcopy=<0|1>` (a copy of that list is made before `RelaxationNoise(t1, t2)` is
appended) and `t12=<its collapse operators|N>` -/
def pulsesCmd (fs : List String) : Option String := do
  let pc ← fStr? fs "pcfg"
  let cfg : PCfg ← match pc.toList with
    | [a, b] => do
      let k ← match b with | 'd' => some CopyKind.deep | 's' => some CopyKind.shallow | 'a' => some CopyKind.alias | _ => none
      pure { procCopy := a == '1', noiseCopy := k }
    | _ => none
  let heldS ← fStr? fs "held"
  let ideals ← if heldS = "N" then some [] else intList? heldS
  let noiseS ← fStr? fs "noise"
  let noise ← if noiseS = "N" then some [] else (noiseS.splitOn ";").mapM parseNoise
  let rngS ← fStr? fs "rng"
  let rng ← if rngS = "N" then some [] else intList? rngS
  let calls ← fNats? fs "calls"
  let k := ideals.length
  let w : PWorld :=
    { lists := ⟨List.replicate (2 * k) []⟩,
      pulses := (List.range k).map fun i => ⟨ideals.getD i 0, 2 * i, 2 * i + 1⟩ }
  let st0 : PState := { w := w, held := List.range k, noise := noise, rng := rng }
  let lcopy := (fStr? fs "lcopy").getD "1" != "0"
  let relax : Option (List Int) := match fStr? fs "t12" with
    | none => none
    | some "N" => none
    | some t => usList? t
  let (_, outs) := calls.foldl (fun (acc : PState × List String) c =>
      let r := getNoisyT cfg lcopy relax acc.1 (c != 0)
      let o := match retVal r.1.w r.2 with
        | .ok vs => "ok " ++ showPVals vs
        | .error e => "err " ++ errName e
      (r.1, acc.2 ++ [o ++ " @" ++ showPVals (pulsesVal r.1.w r.1.held) ++ s!" #{r.1.noise.length}"])) (st0, [])
  pure (" ; ".intercalate outs)

def parseLists (s : String) : Option (List (List Int)) :=
  if s = "N" then some [] else
    (s.splitOn ";").mapM fun l => if l = "e" then some [] else intList? l

def hist (fs : List String) : Option String := do
  let cfgs ← fStr? fs "cfg"
  let cfg ← parseCfg cfgs
  let mode ← match fStr? fs "mode" with
    | some "sv" => some Mode.sv | some "dm" => some Mode.dm | _ => none
  let n ← fNat? fs "n"
  let ncb ← fNat? fs "ncb"
  let opsS ← fStr? fs "ops"
  let ops ← if opsS = "N" then some [] else (opsS.splitOn ";").mapM parseOp
  let lists ← (fStr? fs "lists").bind parseLists
  let rngS ← fStr? fs "rng"
  let rng ← if rngS = "N" then some [] else intList? rngS
  let initsS ← fStr? fs "inits"
  let inits ← if initsS = "N" then some [] else (initsS.splitOn "/").mapM (parseState n)
  let phS ← fStr? fs "phases"
  let phases ← if phS = "N" then some [] else intList? phS
  let callsS ← fStr? fs "calls"
  let calls : List (Sum Nat DCall) ← if callsS = "N" then some [] else (callsS.splitOn "/").mapM (fun x =>
    match x.splitOn "." with
    | ["edit", v] => (String.toNat? v).map Sum.inl
    | _ => (parseCall x).map Sum.inr)
  let c : Circuit := { nq := n, ncb := ncb, ops := ops }
  -- in-place edits of the circuit object: `alts=<ops>|<ops>…` are the later versions, the call `edit.<v>` makes the
  -- circuit read version `v` (0 = `ops`) from then on (Model/SimEdit.lean)
  let alts : List (List Op) ← match fStr? fs "alts" with
    | none => some []
    | some a => (a.splitOn "|").mapM fun o => if o = "N" then some [] else (o.splitOn ";").mapM parseOp
  let versions : List Circuit := c :: alts.map fun o => { nq := n, ncb := ncb, ops := o }
  if !versions.all (·.constructible cfg) then pure "err value" else
  let w0 : W := { heap := ⟨lists⟩, sim := none, rng := rng, log := [],
                  comp := defaultCompiler, proc := { pulses := none, phase := 0 } }
  -- which circuits take the early-return path of `load_circuit` (`empties=<0|1,…>`), and whether `global_phase` is
  -- overwritten on that path (`poe=<0|1>`, default 1)
  let pulseFree : List Bool := ((fNats? fs "empties").getD []).map (· != 0)
  let poe : Bool := (fStr? fs "poe").getD "1" != "0"
  let isGarbage (w : W) : Bool := match w.sim with | some s => s.f.form == .garbage | none => false
  let (w, _, outs) := calls.foldl (fun (acc : W × Circuit × List String) call =>
      let cur := acc.2.1
      match call with
      | .inl v =>
        let c' := versions.getD v cur
        (acc.1, c', acc.2.2 ++ ["X!H" ++ ";".intercalate ((acc.1.heap.cells.take lists.length).map showList)])
      | .inr (.load ci u) =>
        -- `load_circuit` with its early-return path (Model/SimLoad.lean)
        let r := loadCircuitE cfg poe phases pulseFree acc.1 ci u
        let o := "C" ++ showTok r.2 ++ "!H" ++ ";".intercalate ((r.1.heap.cells.take lists.length).map showList)
        (r.1, cur, acc.2.2 ++ [o])
      | .inr call =>
        let (w', o) := execCall cfg mode cur inits phases acc.1 call
        let o := o ++ "!H" ++ ";".intercalate ((w'.heap.cells.take lists.length).map showList)
        (w', cur, acc.2.2 ++ [if isGarbage w' then o ++ "!GARBAGE" else o])) (w0, c, [])
  pure (" ; ".intercalate (outs ++ [showWorld w]))

/-- `ccv cs=<controls|e> v=<value> bits=<cbits|N|e>` → `ok 0|1` / `err <kind>`;
`d2b v=<value> len=<length>` → digits -/
def step (line : String) : String :=
  let fs := fields line
  match fs.head? with
  | some "hist" => (hist fs).getD "bad-op"
  | some "noise" => (noiseCmd fs).getD "bad-op"
  | some "deco" => (decoCmd fs).getD "bad-op"
  | some "share" => (shareCmd fs).getD "bad-op"
  | some "pulses" => (pulsesCmd fs).getD "bad-op"
  | some "ccv" =>
    match (fStr? fs "cs").bind optInts?, fInt? fs "v", (fStr? fs "bits").bind optInts? with
    | some (some cs), some v, some bits =>
      match checkCCV cs v bits with
      | .ok b => if b then "ok 1" else "ok 0"
      | .error e => "err " ++ errName e
    | _, _, _ => "bad-op"
  | some "d2b" =>
    match fInt? fs "v", fNat? fs "len" with
    | some v, some len =>
      match decimalToBinary v len with
      | .ok l => "ok " ++ showNats l
      | .error e => "err " ++ errName e
    | _, _ => "bad-op"
  | _ => "bad-op"

def main : IO Unit := serve step
