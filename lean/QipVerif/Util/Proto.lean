/-!
# Line protocol helpers for the model drivers (import-free)

A request is one line: a command word followed by space-separated `key=value` fields;
list values are comma-separated, nested lists use `;` between inner lists.
The answer is one line.
-/
namespace QipVerif.Proto

def splitNE (s : String) (sep : String) : List String :=
  (s.splitOn sep).filter (· ≠ "")

def fields (line : String) : List String := splitNE line.trimAscii.toString " "

/-- value of `key=` among the fields -/
def field? (fs : List String) (key : String) : Option String :=
  fs.findSome? fun f =>
    if f.startsWith (key ++ "=") then some ((f.drop (key.length + 1)).toString) else none

def natList? (s : String) : Option (List Nat) := (splitNE s ",").mapM String.toNat?
def intList? (s : String) : Option (List Int) := (splitNE s ",").mapM String.toInt?
def natListList? (s : String) : Option (List (List Nat)) := (s.splitOn ";").mapM natList?

def fNat? (fs : List String) (key : String) : Option Nat := (field? fs key).bind String.toNat?
def fInt? (fs : List String) (key : String) : Option Int := (field? fs key).bind String.toInt?
def fNats? (fs : List String) (key : String) : Option (List Nat) := (field? fs key).bind natList?
def fInts? (fs : List String) (key : String) : Option (List Int) := (field? fs key).bind intList?
def fStr? (fs : List String) (key : String) : Option String := field? fs key

def showNats (l : List Nat) : String := ",".intercalate (l.map toString)
def showInts (l : List Int) : String := ",".intercalate (l.map toString)

/-- Read lines from stdin, answer each with `step`. -/
partial def serve (step : String → String) : IO Unit := do
  let stdin ← IO.getStdin
  let stdout ← IO.getStdout
  let rec loop : IO Unit := do
    let line ← stdin.getLine
    if line.isEmpty then return ()
    stdout.putStrLn (step line)
    loop
  loop
  stdout.flush

end QipVerif.Proto
