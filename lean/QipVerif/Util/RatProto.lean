import QipVerif.Util.Proto
/-! Exact rationals on the driver line protocol (import-free): `p/q` or `p`, lists comma-separated. -/
namespace QipVerif.RatProto
open QipVerif.Proto

def rat? (s : String) : Option Rat :=
  match s.splitOn "/" with
  | [a] => a.toInt?.map (fun n => (n : Rat))
  | [a, b] =>
    match a.toInt?, b.toNat? with
    | some n, some d => if d = 0 then none else some (mkRat n d)
    | _, _ => none
  | _ => none

def ratList? (s : String) : Option (List Rat) := (splitNE s ",").mapM rat?

def showRat (r : Rat) : String :=
  if r.den = 1 then toString r.num else toString r.num ++ "/" ++ toString r.den

def showRats (l : List Rat) : String := ",".intercalate (l.map showRat)

def fRat? (fs : List String) (key : String) : Option Rat := (field? fs key).bind rat?
def fRats? (fs : List String) (key : String) : Option (List Rat) := (field? fs key).bind ratList?

end QipVerif.RatProto
