import QipVerif.Util.Proto
import QipVerif.Model.Circuit
/-!
# Text encoding of gates for the line protocol

gate  = NAME/targets/controls/angle     targets, controls = `1.2.3` or `-` (empty)
angle = sym,cn,cd,p8                     sym = -1 for "no symbolic part"
list  = gate;gate;...                    (`-` for the empty list)
-/
namespace QipVerif.GateIO
open QipVerif QipVerif.Proto

def natsDot? (s : String) : Option (List Nat) :=
  if s == "-" then some [] else (splitNE s ".").mapM String.toNat?

def showNatsDot (l : List Nat) : String :=
  if l.isEmpty then "-" else ".".intercalate (l.map toString)

def ang? (s : String) : Option Ang :=
  match s.splitOn "," with
  | [a, b, c, d] =>
    match a.toInt?, b.toInt?, c.toNat?, d.toInt? with
    | some sy, some cn, some cd, some p8 =>
      some { sym := if sy < 0 then none else some sy.toNat, cn := cn, cd := cd, p8 := p8 }
    | _, _, _, _ => none
  | _ => none

def showAng (a : Ang) : String :=
  let sy : Int := match a.sym with | some j => j | none => -1
  s!"{sy},{a.cn},{a.cd},{a.p8}"

def gate? (s : String) : Option Gate :=
  match s.splitOn "/" with
  | [n, t, c, a] =>
    match natsDot? t, natsDot? c, ang? a with
    | some ts, some cs, some an => some ⟨GName.ofString n, ts, cs, an⟩
    | _, _, _ => none
  | _ => none

def showGate (g : Gate) : String :=
  s!"{g.name.toString}/{showNatsDot g.targets}/{showNatsDot g.controls}/{showAng g.arg}"

def gates? (s : String) : Option (List Gate) :=
  if s == "-" then some [] else (splitNE s ";").mapM gate?

def showGates (l : List Gate) : String :=
  if l.isEmpty then "-" else ";".intercalate (l.map showGate)

def showCyc (c : Cyc) : String :=
  s!"{c.c0}_{c.c1}_{c.c2}_{c.c3}_{c.c4}_{c.c5}_{c.c6}_{c.c7}"

/-- `e|row;row;...` with entries separated by `,` -/
def showDMat (d : DMat) : String :=
  s!"{d.e}|" ++ ";".intercalate (d.m.map fun r => ",".intercalate (r.map showCyc))

end QipVerif.GateIO
