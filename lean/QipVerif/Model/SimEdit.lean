import QipVerif.Model.Sim
/-!
# A simulator whose circuit is edited in place between calls (property C16)

Import-free.  `CircuitSimulator` keeps a REFERENCE to its circuit (`self._qc`) and reads `self.qc.gates` at every
`initialize` (number of measurements, classical bits) and at every `step` (the operation at `_op_index`): it holds no
copy and no data derived from the gates.  So a simulator history in which the user edits the circuit object between
calls — replacing gate `i` (`remove_gate_or_measurement(index=i)` + `add_gate(…, index=[i])`), re-assigning
`gate.targets` / `gate.controls` / `gate.arg_value` — is a sequence of events in which every call is executed by `exec`
with the circuit AS IT IS AT THAT TIME.  That is the contract stated here; a simulator that keeps per-operation data
across runs (e.g. cached gate tensors) breaks it.
-/
namespace QipVerif.Sim

/-- a public call, or an in-place edit after which the circuit object reads `c` -/
inductive HEv (Q : Type)
  | call (c : Call Q)
  | edit (c : Circuit)

/-- the world and the current value of the circuit object -/
def execHEv {Q P : Type} [One P] [Mul P] (B : Backend Q P) (cfg : Cfg) (mode : Mode) (phases : List Int)
    (s : World Q P × Circuit) : HEv Q → World Q P × Circuit
  | .call c => ((exec B cfg mode s.2 phases s.1 c).1, s.2)
  | .edit c' => (s.1, c')

def execHEvs {Q P : Type} [One P] [Mul P] (B : Backend Q P) (cfg : Cfg) (mode : Mode) (phases : List Int)
    (s : World Q P × Circuit) (evs : List (HEv Q)) : World Q P × Circuit :=
  evs.foldl (execHEv B cfg mode phases) s

end QipVerif.Sim
