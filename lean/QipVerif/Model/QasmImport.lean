import QipVerif.Gen.QasmTables
/-!
# Model of the OpenQASM importer (property C04), at the level of the expanded gate list

Input: the program as the list of its statements (`QasmSpec.Program`, i.e. the text rendered
one statement per line by `renderProgram`).  Output: what `read_qasm` builds — number of
qubits and classical bits and, for every statement, the `QubitCircuit` gates that are added
(name, targets, controls, symbolic argument expression(s), classical controls and value), or
the class of the exception raised.

Modelled: `QasmProcessor._initialize_pass` (registers, gate definitions, `reset`),
`_final_pass`, `_gate_add`, `_regs_processor` (index bounds, whole-register broadcast with
`zip`), `_custom_gate` (recursive expansion of user gates into the temporary circuit),
`_add_predefined_gates`, `_add_qiskit_gates` (table `Gen.shortcutRows`), the arity table
`Gen.gateSignatures`, `_eval_param`.  The line tokenizer (`_tokenize`) is not modelled: it is
tied to this model by the correspondence on rendered programs.

Parameter expressions stay symbolic (`Expr`); `_eval_param` (Python `eval` over `pi`, numbers,
`+ - * /`, parentheses) is the trusted real-arithmetic evaluation.  Substitution of actual
parameters into a gate body is whole-identifier substitution of parenthesised values, i.e.
substitution of expression trees.
-/
namespace QipVerif.Qasm.Import
open QipVerif.Qasm

/-- exception classes of the importer -/
inductive Err where
  | key        -- KeyError: undeclared register / gate
  | value      -- ValueError: index out of bounds, register sizes, repeated qubit, arity
  | syntax     -- SyntaxError: not a valid command, header, brackets
  | notImpl    -- NotImplementedError: reset, power operator, gate without body
  | name       -- NameError: identifier or function in an expression
  | zeroDiv    -- ZeroDivisionError
  | index      -- IndexError
  | recursion  -- RecursionError
  | type       -- TypeError: `int(list)` for an empty register used as an operand
deriving DecidableEq, Repr

/-- `arg_value` of an imported gate -/
inductive IArg where
  | none
  | one (e : Expr)
  | many (es : List Expr)
deriving DecidableEq, Repr

/-- a gate object in `QubitCircuit.gates` -/
structure IGate where
  name : Str
  targets : List Nat
  controls : Option (List Nat)
  arg : IArg
  cctrl : Option (List Nat)      -- classical_controls
  cval : Option Nat              -- classical_control_value
deriving DecidableEq, Repr

inductive IOp where
  | gate (g : IGate)
  /-- a user-defined gate: a `Gate` named `name` on `targets`, whose unitary is that of the
  temporary circuit `inner` on `targets.length` qubits -/
  | custom (name : Str) (targets : List Nat) (cctrl : Option (List Nat)) (cval : Option Nat)
      (inner : List IGate)
  | meas (q c : Nat)
deriving Repr

/-- registers: name ↦ (first index, size); a later declaration of the same name wins -/
abbrev RegMap := List (Str × Nat × Nat)

def regFind (m : RegMap) (n : Str) : Option (Nat × Nat) := (m.find? (fun e => e.1 == n)).map (·.2)

/-- state after `_initialize_pass` -/
structure Init where
  qregs : RegMap := []
  nq : Nat := 0
  cregs : RegMap := []
  nc : Nat := 0
  defs : List GateDef := []      -- user gates, newest first (`qasm_gates` without the predefined ones)
  rest : List Stmt := []         -- `self.commands` after the pass (reversed while building)

def predefined (n : Str) : Bool := Gen.predefinedGates.contains n || Gen.qiskitGates.contains n

/-- `command[0] in self.gate_names` -/
def isGateName (defs : List GateDef) (n : Str) : Bool := predefined n || defs.any (·.name == n)

/-- a qubit operand repeated in one statement (`len(set(gate_regs)) != len(gate_regs)`) -/
def strDup : List Str → Bool
  | [] => false
  | x :: xs => xs.contains x || strDup xs

/-- the power operator occurs in the expression -/
def hasPow : Expr → Bool
  | .pow .. => true
  | .neg e => hasPow e
  | .fn _ e => hasPow e
  | .add a b | .sub a b | .mul a b | .div a b => hasPow a || hasPow b
  | _ => false

/-- an identifier other than `pi` and the formal parameters occurs (a function name counts) -/
def foreignId (params : List Str) : Expr → Bool
  | .id s => !params.contains s
  | .fn .. => true
  | .neg e => foreignId params e
  | .add a b | .sub a b | .mul a b | .div a b | .pow a b => foreignId params a || foreignId params b
  | _ => false

def sigOf (n : Str) : Option (Nat × Nat) :=
  match Gen.gateSignatures with
  | some t => (t.find? (fun e => e.1 == n)).map (·.2)
  | none => none

/-- numbers of parameters and qubits `_check_body_call` expects of the called gate: `_GATE_SIGNATURES`, else
the stored definition -/
def expectedSig (defs : List GateDef) (n : Str) : Option (Nat × Nat) :=
  match sigOf n with
  | some sg => some sg
  | none =>
    if predefined n then some (3, 1)     -- the placeholder `QasmGate("U", [alpha, beta, gamma], ["q"])`
    else (defs.find? (fun d => d.name == n)).map fun d => (d.params.length, d.qargs.length)

/-- `_check_body_call` (repaired variant `Gen.bodyChecked`): the exception it raises for one statement
`n(ps) qs` of the body of a gate with formals `params` / `qargs`, if any -/
def bodyCheck (defs : List GateDef) (params qargs : List Str) (n : Str) (ps : List Expr) (qs : List Str) :
    Option Err :=
  if !(qs.all qargs.contains) then some .value
  else if strDup qs then some .value
  else
    match expectedSig defs n with
    | none => some .key
    | some (np, nq) =>
      if ¬ (ps.length = np ∧ qs.length = nq) then some .value
      else ps.findSome? fun e =>
        if hasPow e then some .notImpl else if foreignId params e then some .name else none

/-- body of a gate definition as `_initialize_pass` stores it: known gates kept, `barrier`
skipped, anything else refused -/
def bodyPass (defs : List GateDef) (params qargs : List Str) : List GOp → Except Err (List GOp)
  | [] => .ok []
  | g :: gs =>
    let chk (n : Str) (ps : List Expr) (qs : List Str) : Except Err (List GOp) :=
      match (if Gen.bodyChecked then bodyCheck defs params qargs n ps qs else none) with
      | some e => .error e
      | none => (bodyPass defs params qargs gs).map (g :: ·)
    match g with
    | .barrier qs =>
      -- repaired variant: the operands of a barrier must be formal qubits of the gate
      if Gen.barrierChecked && !(qs.all qargs.contains) then .error .value else bodyPass defs params qargs gs
    | .U a b l x => chk cs!"U" [a, b, l] [x]
    | .CX a b => chk cs!"CX" [] [a, b]
    | .call n ps qs => if isGateName defs n then chk n ps qs else .error .syntax

/-- the name is already a register (repaired variant `Gen.redeclChecked`: a second declaration is refused) -/
def regDeclared (st : Init) (n : Str) : Bool := (regFind st.qregs n).isSome || (regFind st.cregs n).isSome

/-- `gate_name in self.gate_names and gate_name not in self.predefined_gates`: already defined by the program -/
def gateDeclared (st : Init) (n : Str) : Bool := st.defs.any (·.name == n) && !predefined n

/-- `_initialize_pass` -/
def initPass : List Stmt → Init → Except Err Init
  | [], st => .ok { st with rest := st.rest.reverse }
  | s :: ss, st =>
    match s with
    | .qreg n k =>
      if Gen.redeclChecked && regDeclared st n then .error .value
      else initPass ss { st with qregs := (n, st.nq, k) :: st.qregs, nq := st.nq + k }
    | .creg n k =>
      if Gen.redeclChecked && regDeclared st n then .error .value
      else initPass ss { st with cregs := (n, st.nc, k) :: st.cregs, nc := st.nc + k }
    | .gate d =>
      if Gen.redeclChecked && gateDeclared st d.name then .error .value else
      match bodyPass st.defs d.params d.qargs d.body with
      | .error e => .error e
      | .ok b =>
        -- original code: a body without any gate statement is refused as an "opaque" gate
        if b.isEmpty && !Gen.emptyBodyOk then .error .notImpl
        else initPass ss { st with defs := { d with body := b } :: st.defs }
    | .qop (.reset _) => .error .notImpl
    | .barrier qs =>
      -- repaired variant: kept for the second pass, which checks its operands
      if Gen.barrierChecked then initPass ss { st with rest := .barrier qs :: st.rest } else initPass ss st
    | .incl _ => initPass ss st
    | other => initPass ss { st with rest := other :: st.rest }

/-! ## registers of a gate application (`_regs_processor`, "gate") -/

/-- one argument: `inl q` a single qubit, `inr l` a whole register -/
def resolveQ (st : Init) : Arg → Except Err (Nat ⊕ List Nat)
  | .idx r i =>
    match regFind st.qregs r with
    | none => .error .key
    | some (s, n) => if i < n then .ok (.inl (s + i)) else .error .value
  | .whole r =>
    match regFind st.qregs r with
    | none => .error .key
    | some (s, n) => .ok (.inr ((List.range n).map (s + ·)))

/-- `expand` after a whole register of `n` elements.  Original code: `expand = len(qubit)` is later
tested by truthiness, so a register of size 0 counts as "no whole register" (`none`); repaired
variant (`Gen.emptyRegOk`): `expand` starts as `None` and every whole register sets it. -/
def exAfter (n : Nat) : Option Nat := if Gen.emptyRegOk || n != 0 then some n else none

/-- the test on the sizes of whole registers; `barrier` statements of the repaired variant skip it -/
def sizeClash (ex : Option Nat) (n : Nat) : Bool :=
  match ex with
  | some m => m != n
  | none => false

/-- the loop over the arguments: resolved arguments and `expand` (`none`: no whole register so far);
`chk = false` for the operands of a barrier (`reg_type == "barrier"`) -/
def resolveQs (st : Init) (chk : Bool) : List Arg → Option Nat → Except Err (List (Nat ⊕ List Nat) × Option Nat)
  | [], ex => .ok ([], ex)
  | a :: as, ex =>
    match resolveQ st a with
    | .error e => .error e
    | .ok (.inl q) =>
      match resolveQs st chk as ex with
      | .error e => .error e
      | .ok (l, ex') => .ok (.inl q :: l, ex')
    | .ok (.inr l) =>
      if chk && sizeClash ex l.length then .error .value
      else match resolveQs st chk as (exAfter l.length) with
        | .error e => .error e
        | .ok (l', ex') => .ok (.inr l :: l', ex')

/-- `zip(*[x if isinstance(x, list) else [x] * expand])`: the j-th tuple -/
def tupleAt (xs : List (Nat ⊕ List Nat)) (j : Nat) : List Nat :=
  xs.map fun x => match x with | .inl q => q | .inr l => l.getD j 0

/-- length of the zip: the shortest column (`expand` for single qubits) -/
def zipLen (xs : List (Nat ⊕ List Nat)) (ex : Nat) : Nat :=
  xs.foldl (fun m x => match x with | .inl _ => min m ex | .inr l => min m l.length) ex

def isWhole : Nat ⊕ List Nat → Bool
  | .inl _ => false
  | .inr _ => true

/-- `reg_set` -/
def regSet (st : Init) (args : List Arg) : Except Err (List (List Nat)) :=
  match resolveQs st true args none with
  | .error e => .error e
  | .ok (xs, some ex) => .ok ((List.range (zipLen xs ex)).map (tupleAt xs))
  | .ok (xs, none) =>
    -- no whole register — or (original code) only EMPTY ones, which stay lists and make `int(i)` fail
    if xs.any isWhole then .error .type
    else .ok [xs.map fun x => match x with | .inl q => q | .inr _ => 0]

/-! ## parameter expressions (`_eval_param`) -/

def hasName : Expr → Bool
  | .id _ => true
  | .fn .. => true
  | .neg e => hasName e
  | .add a b | .sub a b | .mul a b | .div a b | .pow a b => hasName a || hasName b
  | _ => false

/-- literal zero divisor -/
def divZero : Expr → Bool
  | .div a b => divZero a || divZero b ||
      (match b with | .lit s => pyNumIsZero s | _ => false)
  | .neg e => divZero e
  | .fn _ e => divZero e
  | .add a b | .sub a b | .mul a b | .pow a b => divZero a || divZero b
  | _ => false

/-- `_eval_param(expr)`: the exceptions it raises (the value stays symbolic) -/
def evalParam (e : Expr) : Except Err Expr :=
  if hasPow e then .error .notImpl
  else if hasName e then .error .name
  else if divZero e then .error .zeroDiv
  else .ok e

def evalParams : List Expr → Except Err (List Expr)
  | [] => .ok []
  | e :: es =>
    match evalParam e with
    | .error x => .error x
    | .ok v => match evalParams es with
      | .error x => .error x
      | .ok vs => .ok (v :: vs)

/-! ## predefined gates (`_add_predefined_gates`, `_add_qiskit_gates`) -/

/-- `_check_arity` against `_GATE_SIGNATURES` (no entry: no check) -/
def sigOk (name : Str) (np nq : Nat) : Bool :=
  match sigOf name with
  | some (a, b) => decide (np = a ∧ nq = b)
  | none => true

def selTargets (regs : List Nat) : Sel → Except Err (List Nat)
  | .none => .ok []
  | .all => .ok regs
  | .one i => match regs[i]? with | some q => .ok [q] | none => .error .index
  | .pre k => .ok (regs.take k)
  | .many is => is.foldr (fun i acc =>
      match regs[i]?, acc with
      | some q, .ok l => .ok (q :: l)
      | none, _ => .error .index
      | _, .error e => .error e) (.ok [])

/-- `args` as `_add_qiskit_gates` passes it on -/
def normArgs : List Expr → IArg
  | [] => .none
  | [e] => .one e
  | es => .many es

/-- `Gate.__init__`: a classical control value that does not fit the listed bits is refused
(when the checkout has that test: `Gen.gateChecksControlValue`) -/
def cvBad (cc : Option (List Nat)) (cv : Option Nat) : Bool :=
  Gen.gateChecksControlValue &&
    match cc, cv with
    | some l, some v => decide (2 ^ l.length ≤ v)
    | _, _ => false

/-- gates added to the circuit for one call of a predefined gate on resolved qubits -/
def addPredefined (name : Str) (regs : List Nat) (args : List Expr)
    (cc : Option (List Nat)) (cv : Option Nat) : Except Err (List IGate) :=
  let arity : Except Err Unit :=
    match sigOf name with
    | some (np, nq) => if args.length = np ∧ regs.length = nq then .ok () else .error .value
    | none => .ok ()
  match arity with
  | .error e => .error e
  | .ok _ =>
    if name == cs!"CX" then
      match regs with
      | c :: t :: _ => if cvBad cc cv then .error .value else .ok [⟨cs!"CNOT", [t], some [c], .none, cc, cv⟩]
      | _ => .error .index
    else if name == cs!"U" then
      match regs with
      | q :: _ => if cvBad cc cv then .error .value else .ok [⟨cs!"QASMU", [q], none, .many args, cc, cv⟩]
      | _ => .error .index
    else
      match Gen.shortcutRows.find? (fun r => r.1 == name) with
      | none => .ok []            -- `id`: no branch of `_add_qiskit_gates` applies
      | some (_, lib, tsel, csel, passArgs) =>
        match selTargets regs tsel, selTargets regs csel with
        | .ok ts, .ok cs =>
          if cvBad cc cv then .error .value else
          .ok [⟨lib, ts, (match csel with | .none => none | _ => some cs),
                if passArgs then normArgs args else .none, cc, cv⟩]
        | .error e, _ => .error e
        | _, .error e => .error e

/-! ## user gates (`_custom_gate`) -/

def checkArity (np nq : Nat) (args : List Expr) (regs : List Nat) : Except Err Unit :=
  if args.length = np ∧ regs.length = nq then .ok () else .error .value

/-- a qubit operand inside a gate body after substitution: a resolved index, or the raw identifier when it is
not a formal qubit of the gate (`int()` of it raises ValueError at the first built-in that receives it) -/
abbrev BReg := Nat ⊕ Str

def bregsResolved : List BReg → Option (List Nat)
  | [] => some []
  | .inl q :: r => (bregsResolved r).map (q :: ·)
  | .inr _ :: _ => none

def bregDup : List BReg → Bool
  | [] => false
  | x :: xs => xs.contains x || bregDup xs

/-- expansion of a user gate into the temporary circuit; `fuel` bounds the recursion depth -/
def customGate (defs : List GateDef) : Nat → Str → List Expr → List BReg → Except Err (List IGate)
  | 0, _, _, _ => .error .recursion
  | fuel + 1, name, args, regs =>
    match defs.find? (fun d => d.name == name) with
    | none => .error .key
    | some d =>
      if ¬ (args.length = d.params.length ∧ regs.length = d.qargs.length) then .error .value else
        match evalParams args with
        | .error e => .error e
        | .ok vals =>
          let σ := d.params.zip vals
          let ρ := d.qargs.zip regs
          let q (a : Str) : BReg := ((ρ.find? (fun e => e.1 == a)).map (·.2)).getD (.inr a)
          let leaf (n : Str) (vs : List Expr) (rs : List BReg) : Except Err (List IGate) :=
            if Gen.customChecksRepeat && bregDup rs then .error .value else
            if predefined n then
              match bregsResolved rs with
              | none => .error .value
              | some l => addPredefined n l vs none none
            else customGate defs fuel n vs rs
          d.body.foldlM (fun acc g =>
            let one : Except Err (List IGate) :=
              match g with
              | .barrier _ => .ok []
              | .U a b c x =>
                match evalParams [a.subst σ, b.subst σ, c.subst σ] with
                | .error e => .error e
                | .ok vs => leaf cs!"U" vs [q x]
              | .CX a b => leaf cs!"CX" [] [q a, q b]
              | .call n ps qs =>
                match evalParams (ps.map (Expr.subst σ)) with
                | .error e => .error e
                | .ok vs => leaf n vs (qs.map q)
            match one with
            | .error e => .error e
            | .ok l => .ok (acc ++ l)) []

/-! ## `_gate_add` -/

def stripL : Str → Str
  | ' ' :: cs => stripL cs
  | cs => cs
def strip (s : Str) : Str := (stripL (stripL s).reverse).reverse

/-- `_tokenize`: brackets are surrounded by blanks -/
def padBrackets : Str → Str
  | [] => []
  | c :: cs =>
    if c == '(' || c == ')' || c == '[' || c == ']' then ' ' :: c :: ' ' :: padBrackets cs
    else c :: padBrackets cs

/-- the argument token of a rendered expression -/
def argToken (e : Expr) : Str := strip (padBrackets e.render)

/-- `"{}({})".format(command[0], ",".join(args))` -/
def customName (name : Str) (ps : List Expr) : Str :=
  if ps.isEmpty then name else name ++ '(' :: intercal [','] (ps.map argToken) ++ [')']

def firstDup : List Nat → Bool
  | [] => false
  | x :: xs => xs.contains x || firstDup xs

/-- `_gate_add(qc, command, custom_gates, classical_controls, classical_control_value)` -/
def gateAdd (st : Init) (known : List (Str × List IGate)) (name : Str) (ps : List Expr) (args : List Arg)
    (cc : Option (List Nat)) (cv : Option Nat) : Except Err (List IOp × List (Str × List IGate)) :=
  match regSet st args with
  | .error .type =>
    -- original code, EMPTY whole registers only: `reg_set` is one pseudo-tuple of `len(args)` entries one of
    -- which is a list; everything before the loop runs, then `int(list)` raises TypeError
    if predefined name then
      match evalParams ps with
      | .error e => .error e
      | .ok _ => .error .type
    else
      match st.defs.find? (fun d => d.name == name) with
      | none => .error .key
      | some d =>
        match checkArity d.params.length d.qargs.length ps (List.range args.length) with
        | .error e => .error e
        | .ok _ =>
          if (known.find? (fun e => e.1 == customName name ps)).isSome then .error .type
          else match customGate st.defs 64 name ps ((List.range args.length).map Sum.inl) with
            | .error e => .error e
            | .ok _ => .error .type
  | .error e => .error e
  | .ok rs =>
    let gname := customName name ps
    if predefined name then
      match evalParams ps with
      | .error e => .error e
      | .ok vals =>
        -- repaired variant: the arity is checked once for the statement (it may have no instance)
        if Gen.emptyRegOk && !sigOk name vals.length args.length then .error .value else
        let rec loop : List (List Nat) → Except Err (List IOp)
          | [] => .ok []
          | regs :: more =>
            if firstDup regs then .error .value
            else match addPredefined name regs vals cc cv with
              | .error e => .error e
              | .ok gs => match loop more with
                | .error e => .error e
                | .ok l => .ok (gs.map IOp.gate ++ l)
        (loop rs).map (·, known)
    else
      -- `gate = self.qasm_gates[command[0]]`, `len(reg_set[0])` (repaired variant: the number of
      -- operands), `_check_arity` — on every call
      match st.defs.find? (fun d => d.name == name),
          (if Gen.emptyRegOk then some args.length else rs.head?.map List.length) with
      | none, _ => .error .key
      | some _, none => .error .index
      | some d, some n =>
        match checkArity d.params.length d.qargs.length ps (List.range n) with
        | .error e => .error e
        | .ok _ =>
          let expand : Except Err (List IGate × List (Str × List IGate)) :=
            match known.find? (fun e => e.1 == gname) with
            | some e => .ok (e.2, known)        -- `custom_gates[gate_name]` already computed
            | none => (customGate st.defs 64 name ps ((List.range n).map Sum.inl)).map (fun g => (g, (gname, g) :: known))
          match expand with
          | .error e => .error e
          | .ok (inner, known') =>
            let rec loop2 : List (List Nat) → Except Err (List IOp)
              | [] => .ok []
              | regs :: more =>
                if firstDup regs then .error .value
                else if cvBad cc cv then .error .value
                else match loop2 more with
                  | .error e => .error e
                  | .ok l => .ok (IOp.custom gname regs cc cv inner :: l)
            (loop2 rs).map (·, known')

/-! ## measurements (`_regs_processor`, "measure") -/

def measure (st : Init) (q c : Arg) : Except Err (List IOp) :=
  match q, c with
  | .idx qr qi, .idx cr ci =>
    match regFind st.qregs qr with
    | none => .error .key
    | some (qs, qn) =>
      if ¬ qi < qn then .error .value else
      match regFind st.cregs cr with
      | none => .error .key
      | some (cs', cn) => if ¬ ci < cn then .error .value else .ok [.meas (qs + qi) (cs' + ci)]
  | .whole qr, .whole cr =>
    match regFind st.qregs qr with
    | none => .error .key
    | some (qs, qn) =>
      match regFind st.cregs cr with
      | none => .error .key
      | some (cs', cn) =>
        if qn = cn then .ok ((List.range qn).map fun j => .meas (qs + j) (cs' + j)) else .error .value
  | _, _ => .error .key      -- mixed forms: the token `q[0]` is looked up as a register name

/-! ## `_final_pass` -/

/-- user gates of `_get_qiskit_gates` are in `custom_gates` from the start -/
def initialKnown : List (Str × List IGate) := Gen.userGates.map (·, [])

/-- binary digits of `v`, least significant first (`fuel` ≥ number of digits) -/
def bitsLE : Nat → Nat → List Nat
  | 0, _ => []
  | f + 1, v => if v < 2 then [v] else (v % 2) :: bitsLE f (v / 2)

/-- `int("{:0{}b}".format(k, n)[::-1], 2)`: the binary numeral of `k`, padded with zeros on the left
to at least `n` digits, read backwards -/
def pyRevBits (n k : Nat) : Nat :=
  let d := bitsLE (k + 1) k
  (d ++ List.replicate (n - d.length) 0).foldl (fun a b => 2 * a + b) 0

/-- the `classical_control_value` passed on for `if(c==k)` on a register of `n` bits -/
def condValue (n k : Nat) : Nat := if Gen.ifReversesValue then pyRevBits n k else k

/-- repaired variant: `if(c==k)` with `k ≥ 2^n` never holds — the operation is checked, nothing is added -/
def condSkipped (n k : Nat) : Bool := Gen.ifSkipsUnsat && decide (2 ^ n ≤ k)

/-- a barrier statement in the second pass (repaired variant): `_regs_processor(…, "barrier")` -/
def barrierCheck (st : Init) (qs : List Arg) : Except Err Unit :=
  match resolveQs st false qs none with
  | .error e => .error e
  | .ok _ => .ok ()

def qopAdd (st : Init) (known : List (Str × List IGate)) (cc : Option (List Nat)) (cv : Option Nat)
    (viaIf : Bool) : QOp → Except Err (List IOp × List (Str × List IGate))
  | .U a b c q => gateAdd st known cs!"U" [a, b, c] [q] cc cv
  | .CX a b => gateAdd st known cs!"CX" [] [a, b] cc cv
  | .call n ps qs =>
    if viaIf || isGateName st.defs n then gateAdd st known n ps qs cc cv else .error .syntax
  | .measure q c => if viaIf then .error .key else (measure st q c).map (·, known)
  | .reset _ => .error .key

def finalPass (st : Init) : List Stmt → List (Str × List IGate) → Except Err (List IOp)
  | [], _ => .ok []
  | s :: ss, known =>
    let r : Except Err (List IOp × List (Str × List IGate)) :=
      match s with
      | .qop op => qopAdd st known none none false op
      | .ifc c k op =>
        match regFind st.cregs c with
        | none => .error .key
        | some (s0, n) =>
          if condSkipped n k then (qopAdd st known none none true op).map (fun r => ([], r.2))
          else qopAdd st known (some ((List.range n).map (s0 + ·))) (some (condValue n k)) true op
      | .barrier qs => if Gen.barrierChecked then (barrierCheck st qs).map (fun _ => ([], known)) else .error .syntax
      | _ => .error .syntax
    match r with
    | .error e => .error e
    | .ok (ops, known') =>
      match finalPass st ss known' with
      | .error e => .error e
      | .ok l => .ok (ops ++ l)

/-- **`read_qasm`** on a program given as its statements: number of qubits, number of classical
bits and the operations of the resulting `QubitCircuit` -/
def importProgram (p : Program) : Except Err (Nat × Nat × List IOp) :=
  match p with
  | .version :: rest =>
    match initPass rest {} with
    | .error e => .error e
    | .ok st =>
      match finalPass st st.rest initialKnown with
      | .error e => .error e
      | .ok ops => .ok (st.nq, st.nc, ops)
  | _ => .error .syntax

end QipVerif.Qasm.Import
