/-!
# Model of `GateCompiler._schedule / _process_gate_pulse / _process_idling_tlist /
# _concatenate_pulses` and the grouping loop of `GateCompiler.compile` (property C12)

Import-free, executable, exact: every time and coefficient is a core `Rat`.
The two float tolerances of the code (`step_size * 1.0e-6`) are the parameter `τ`
(`1/10^6` for the code as written).  `np.linspace(a, b, 10)` is `a + i·(b-a)/9`,
`np.arange(a, stop, step)` is `a + i·step` for `i < ⌈(stop-a)/step⌉`.

`byTol` selects how "this is the first pulse of the channel" is decided:
* `true`  — the code as shipped: `abs(last_pulse_time) < step_size * 1.0e-6`
* `false` — the repaired code (fixes/C12-1.patch): `not compiled_tlist[pulse_ind]`
The harness reads which of the two the working tree contains (AST) and drives the model
with that flag; the theorems cover both.
-/
namespace QipVerif.Concat

inductive Mode
  | discrete
  | continuous
deriving DecidableEq, Repr

inductive Err
  | shape    -- ValueError "The shape of the compiled pulse is not correct."
  | index    -- IndexError (`tlist[1]` of a tlist with fewer than two points, `tlist[-1][-1]` of an empty channel)
  | zerodiv  -- ZeroDivisionError of `np.arange(.., .., 0.0)`
  | empty    -- ValueError of `np.max([])`: no control channel at all
  | type     -- TypeError `len()` of a scalar coefficient next to a sampled tlist
  | badperm  -- (protocol) the permutation handed over as `np.argsort` output is not a sorting permutation
  | t0       -- ValueError "Pulse time sequence must start from 0" of `Instruction.__init__`
deriving DecidableEq, Repr

/-- `tlist`/`coeff` of one pulse of an instruction, as `_process_gate_pulse` sees them. -/
inductive Wave
  | scalar (t c : Rat)              -- `np.isscalar(tlist)`: one rectangular pulse
  | arr (tl cs : List Rat)          -- sampled pulse
  | mixed (tl : List Rat) (c : Rat) -- sampled tlist with a scalar coefficient (`len(coeff)` raises TypeError)
deriving Repr

def absR (x : Rat) : Rat := if 0 ≤ x then x else -x

/-- result of `_process_gate_pulse` -/
structure Proc where
  gt : List Rat      -- gate_tlist
  cs : List Rat      -- coeffs
  step : Rat         -- step_size
  mode : Mode        -- pulse_mode
deriving Repr

/-- `_process_gate_pulse(start_time, tlist, coeff)` (start_time is unused by the code). -/
def procPulse : Wave → Except Err Proc
  | .scalar t c => .ok ⟨[t], [c], t, .discrete⟩
  | .mixed _ _ => .error .type
  | .arr tl cs =>
    if (tl.length : Int) - 1 = (cs.length : Int) then
      match tl with
      | a :: b :: rest => .ok ⟨b :: rest, cs, b - a, .discrete⟩
      | _ => .error .index
    else if tl.length = cs.length then
      match tl with
      | a :: b :: rest => .ok ⟨b :: rest, cs.drop 1, b - a, .continuous⟩
      | _ => .error .index
    else .error .shape

/-- `np.linspace(a, b, 10)` -/
def linspace10 (a b : Rat) : List Rat := (List.range 10).map (fun (i : Nat) => a + (i : Rat) * ((b - a) / 9))

/-- `np.arange(a, stop, step)` for `step ≠ 0` -/
def arange (a stop step : Rat) : List Rat :=
  (List.range ((stop - a) / step).ceil.toNat).map (fun (i : Nat) => a + (i : Rat) * step)

/-- `_process_idling_tlist(pulse_mode, start_time, last_pulse_time, step_size)` -/
def idle (m : Mode) (start last step : Rat) : Except Err (List Rat) :=
  match m with
  | .continuous =>
    if start - last > 3 * step then
      .ok (linspace10 (last + step / 5) (last + step) ++ linspace10 (start - step) start)
    else if step = 0 then .error .zerodiv
    else .ok (arange (last + step) start step)
  | .discrete => .ok [start]

/-- the test guarding `compiled_tlist[pulse_ind].append([0.0])` -/
def firstTest (byTol : Bool) (τ : Rat) (isFirst : Bool) (last step : Rat) : Bool :=
  if byTol then decide (absR last < step * τ) else isFirst

/-- what the first-pulse branch appends to (tlist, coeffs) -/
def zeroChunk (b : Bool) (m : Mode) : List Rat × List Rat :=
  if b then ([0], if m = .continuous then [0] else []) else ([], [])

/-- The inner loop of `_concatenate_pulses` for one channel: instructions `(start_time, wave)`.
Returns the concatenated time points, coefficients and `last_pulse_time`. -/
def chanLoop (byTol : Bool) (τ : Rat) : Bool → Rat → List (Rat × Wave) → Except Err (List Rat × List Rat × Rat)
  | _, last, [] => .ok ([], [], last)
  | isFirst, last, (s, w) :: rest =>
    match procPulse w with
    | .error e => .error e
    | .ok p =>
      let z := zeroChunk (firstTest byTol τ isFirst last p.step) p.mode
      match (if absR (s - last) > p.step * τ then idle p.mode s last p.step else .ok []) with
      | .error e => .error e
      | .ok idl =>
        let ex := p.gt.map (· + s)
        match chanLoop byTol τ false (ex.getLast?.getD last) rest with
        | .error e => .error e
        | .ok (ts, cs, l) =>
          .ok (z.1 ++ (idl ++ (ex ++ ts)), z.2 ++ (idl.map (fun _ => 0) ++ (p.cs ++ cs)), l)

/-- final padding of one channel up to `final` with the (stale) `pulse_mode` and `min_step_size` -/
def padChan (τ : Rat) (pm : Mode) (final ms : Rat) (r : List Rat × List Rat × Rat) : Except Err (List Rat × List Rat) :=
  if absR (final - r.2.2) > ms * τ then
    match idle pm final r.2.2 ms with
    | .error e => .error e
    | .ok idl => .ok (r.1 ++ idl, r.2.1 ++ idl.map (fun _ => 0))
  else .ok (r.1, r.2.1)

/-- one channel, loop and padding -/
def compiledChannel (byTol : Bool) (τ : Rat) (pm : Mode) (final ms : Rat) (instrs : List (Rat × Wave)) :
    Except Err (List Rat × List Rat) :=
  match chanLoop byTol τ true 0 instrs with
  | .error e => .error e
  | .ok r => padChan τ pm final ms r

def mapMExcept {α β ε : Type} (f : α → Except ε β) : List α → Except ε (List β)
  | [] => .ok []
  | a :: as =>
    match f a with
    | .error e => .error e
    | .ok b =>
      match mapMExcept f as with
      | .error e => .error e
      | .ok bs => .ok (b :: bs)

def maxList : List Rat → Option Rat
  | [] => none
  | a :: as => match maxList as with
    | none => some a
    | some m => some (if a < m then m else a)

/-- all successfully processed pulses, in processing order -/
def procs (chans : List (List (Rat × Wave))) : List Proc :=
  (chans.flatten).filterMap (fun sw => match procPulse sw.2 with | .ok p => some p | .error _ => none)

/-- `min_step_size` after the loops (`none` = `np.inf`) -/
def minStep : List Proc → Option Rat
  | [] => none
  | p :: ps => match minStep ps with
    | none => some p.step
    | some m => some (if m < p.step then m else p.step)

/-- `_concatenate_pulses(pulse_instructions, _, num_controls)` -/
def concatenate (byTol : Bool) (τ : Rat) (chans : List (List (Rat × Wave))) : Except Err (List (List Rat × List Rat)) :=
  match mapMExcept (chanLoop byTol τ true 0) chans with
  | .error e => .error e
  | .ok rs =>
    if chans.any (·.isEmpty) then .error .index else   -- `tlist[-1][-1]` of a channel without instruction
    match maxList (rs.map (·.2.2)), minStep (procs chans), (procs chans).getLast? with
    | some final, some ms, some lastp => mapMExcept (padChan τ lastp.mode final ms) rs
    | _, _, _ => .error .empty

/-! ## Repaired variant (fixes/C12-2.patch): channels and gate lists without any pulse stay empty
(`None` / empty maps) instead of raising -/

/-- padding of the repaired code: a channel without pulse is skipped (`if not compiled_tlist[pulse_ind]: continue`) -/
def padChanO (τ : Rat) (pm : Mode) (final ms : Rat) (r : List Rat × List Rat × Rat) :
    Except Err (Option (List Rat × List Rat)) :=
  if r.1.isEmpty then .ok none else
  match padChan τ pm final ms r with
  | .error e => .error e
  | .ok o => .ok (some o)

/-- `_concatenate_pulses` of the repaired code; `none` = the channel has no pulse (`compiled_tlist[i] = None`).
`end_times = [tlist[-1][-1] for tlist in compiled_tlist if tlist]; final_time = max(end_times) if end_times else 0` -/
def concatenateZ (byTol : Bool) (τ : Rat) (chans : List (List (Rat × Wave))) :
    Except Err (List (Option (List Rat × List Rat))) :=
  match mapMExcept (chanLoop byTol τ true 0) chans with
  | .error e => .error e
  | .ok rs =>
    let final := (maxList ((rs.filter (fun r => !r.1.isEmpty)).map (·.2.2))).getD 0
    match minStep (procs chans), (procs chans).getLast? with
    | some ms, some lastp =>
      mapMExcept (padChanO τ lastp.mode final ms) rs
    | _, _ => .ok (rs.map fun _ => none)

/-! ## Repaired idle-gap test (fixes/C12-3.patch): `np.abs(start_time - last_pulse_time) > time_tol` with
`time_tol = 1e-12 * max(|start times of all pulses|)` instead of `step_size * 1e-6` (first-pulse test by emptiness) -/

/-- `max([abs(inst[0]) for insts in pulse_instructions for inst in insts], default=0.0)` -/
def maxStart (chans : List (List (Rat × Wave))) : Rat :=
  (chans.flatten.map (fun sw => absR sw.1)).foldl (fun a b => if a < b then b else a) 0

/-- channel loop with the absolute gap threshold `thr` -/
def chanLoopG (thr : Rat) : Bool → Rat → List (Rat × Wave) → Except Err (List Rat × List Rat × Rat)
  | _, last, [] => .ok ([], [], last)
  | isFirst, last, (s, w) :: rest =>
    match procPulse w with
    | .error e => .error e
    | .ok p =>
      let z := zeroChunk isFirst p.mode
      match (if absR (s - last) > thr then idle p.mode s last p.step else .ok []) with
      | .error e => .error e
      | .ok idl =>
        let ex := p.gt.map (· + s)
        match chanLoopG thr false (ex.getLast?.getD last) rest with
        | .error e => .error e
        | .ok (ts, cs, l) =>
          .ok (z.1 ++ (idl ++ (ex ++ ts)), z.2 ++ (idl.map (fun _ => 0) ++ (p.cs ++ cs)), l)

def padChanS (τ : Rat) (pm : Mode) (final ms : Rat) (r : List Rat × List Rat × Rat) :
    Except Err (Option (List Rat × List Rat)) :=
  match padChan τ pm final ms r with
  | .error e => .error e
  | .ok o => .ok (some o)

/-- `_concatenate_pulses` with the repaired gap test; `emptyOk`: fixes/C12-2.patch applied as well -/
def concatenateG (emptyOk : Bool) (ρ τ : Rat) (chans : List (List (Rat × Wave))) :
    Except Err (List (Option (List Rat × List Rat))) :=
  match mapMExcept (chanLoopG (ρ * maxStart chans) true 0) chans with
  | .error e => .error e
  | .ok rs =>
    if emptyOk then
      let final := (maxList ((rs.filter (fun r => !r.1.isEmpty)).map (·.2.2))).getD 0
      match minStep (procs chans), (procs chans).getLast? with
      | some ms, some lastp => mapMExcept (padChanO τ lastp.mode final ms) rs
      | _, _ => .ok (rs.map fun _ => none)
    else
      if chans.any (·.isEmpty) then .error .index else
      match maxList (rs.map (·.2.2)), minStep (procs chans), (procs chans).getLast? with
      | some final, some ms, some lastp => mapMExcept (padChanS τ lastp.mode final ms) rs
      | _, _, _ => .error .empty

/-! ## `_schedule` and the grouping loop of `compile` -/

/-- coefficient of one pulse of an instruction -/
inductive Coef
  | scalar (c : Rat)
  | arr (cs : List Rat)
deriving Repr

/-- `Instruction.tlist` -/
inductive TList
  | scalar (t : Rat)
  | arr (tl : List Rat)
deriving Repr

structure Instr where
  tl : TList
  pulses : List (Nat × Coef)     -- `pulse_info`: (label, coeff)
deriving Repr

/-- `Instruction.duration` -/
def Instr.duration (i : Instr) : Rat :=
  match i.tl with
  | .scalar t => t
  | .arr tl => tl.getLast?.getD 0

/-- start times without scheduling: `[0, d0, d0+d1, …]` (one per instruction) -/
def cumStarts : Rat → List Instr → List Rat
  | _, [] => []
  | acc, i :: rest => acc :: cumStarts (acc + i.duration) rest

def isSortedLE : List Rat → Bool
  | a :: b :: rest => decide (a ≤ b) && isSortedLE (b :: rest)
  | _ => true

/-- `_schedule`: `none` = no scheduling; `some (starts, perm)` = start times returned by the
scheduler and the permutation returned by `np.argsort(starts)` (any sorting permutation: numpy's
sort is not stable). -/
def schedule (instrs : List Instr) : Option (List Rat × List Nat) → Except Err (List Instr × List Rat)
  | none => .ok (instrs, cumStarts 0 instrs)
  | some (starts, perm) =>
    let n := instrs.length
    if starts.length ≠ n ∨ perm.length ≠ n ∨ !(perm.all (· < n)) ∨ !((List.range n).all (fun i => perm.contains i)) then
      .error .badperm
    else
      let st := perm.map (fun i => starts.getD i 0)
      if !(isSortedLE st) then .error .badperm
      else .ok (perm.filterMap (fun i => instrs[i]?), st)

/-- a mismatched scalar/array pair is outside the model -/
def mkWave : TList → Coef → Option Wave
  | .scalar t, .scalar c => some (.scalar t c)
  | .arr tl, .arr cs => some (.arr tl cs)
  | .arr tl, .scalar c => some (.mixed tl c)
  | _, _ => none

/-- add one `(start, wave)` to the channel of `label`, creating it at the end if new
(`pulse_ind_map` / `pulse_instructions`) -/
def addPulse (label : Nat) (sw : Rat × Wave) : List (Nat × List (Rat × Wave)) → List (Nat × List (Rat × Wave))
  | [] => [(label, [sw])]
  | (l, ch) :: rest => if l = label then (l, ch ++ [sw]) :: rest else (l, ch) :: addPulse label sw rest

/-- one pulse of `instruction.pulse_info` -/
def groupOne (tl : TList) (s : Rat) (a : Option (List (Nat × List (Rat × Wave)))) (lc : Nat × Coef) :
    Option (List (Nat × List (Rat × Wave))) :=
  match a, mkWave tl lc.2 with
  | some a, some w => some (addPulse lc.1 (s, w) a)
  | _, _ => none

def groupPulses : List (Instr × Rat) → List (Nat × List (Rat × Wave)) → Option (List (Nat × List (Rat × Wave)))
  | [], acc => some acc
  | (i, s) :: rest, acc =>
    match i.pulses.foldl (groupOne i.tl s) (some acc) with
    | none => none
    | some acc' => groupPulses rest acc'

/-- `GateCompiler.compile` after the gate-by-gate compilation: `none` = outside the model,
`some (.ok none)`: no instruction at all (`return None, None`). -/
def compile (byTol : Bool) (τ : Rat) (instrs : List Instr) (sch : Option (List Rat × List Nat)) :
    Option (Except Err (Option (List (Nat × List Rat × List Rat)))) :=
  if instrs.isEmpty then some (.ok none) else
  match schedule instrs sch with
  | .error e => some (.error e)
  | .ok (is, starts) =>
    match groupPulses (is.zip starts) [] with
    | none => none
    | some groups =>
      match concatenate byTol τ (groups.map (·.2)) with
      | .error e => some (.error e)
      | .ok outs => some (.ok (some ((groups.map (·.1)).zip outs)))

/-- `GateCompiler.compile` with the variants of the working tree: `dropZero` — instructions of zero duration are
dropped before scheduling (`[ins for ins in instruction if ins.duration != 0]`); `emptyOk` — fixes/C12-2.patch; `gap = some ρ` — fixes/C12-3.patch -/
def compileV (dropZero emptyOk byTol : Bool) (gap : Option Rat) (τ : Rat) (instrs0 : List Instr) (sch : Option (List Rat × List Nat)) :
    Option (Except Err (Option (List (Nat × Option (List Rat × List Rat))))) :=
  let instrs := if dropZero then instrs0.filter (fun i => i.duration != 0) else instrs0
  if instrs.isEmpty then some (.ok none) else
  match schedule instrs sch with
  | .error e => some (.error e)
  | .ok (is, starts) =>
    match groupPulses (is.zip starts) [] with
    | none => none
    | some groups =>
      match gap with
      | some ρ =>
        match concatenateG emptyOk ρ τ (groups.map (·.2)) with
        | .error e => some (.error e)
        | .ok outs => some (.ok (some ((groups.map (·.1)).zip outs)))
      | none =>
      if emptyOk then
        match concatenateZ byTol τ (groups.map (·.2)) with
        | .error e => some (.error e)
        | .ok outs => some (.ok (some ((groups.map (·.1)).zip outs)))
      else
        match concatenate byTol τ (groups.map (·.2)) with
        | .error e => some (.error e)
        | .ok outs => some (.ok (some ((groups.map (·.1)).zip (outs.map some))))

end QipVerif.Concat
