import QipVerif.Gen.SchedRule
/-!
# Constructor arguments of `Scheduler`: `method` and `constraint_functions` (C05, C11)

Import-free apart from the regenerated `Gen/SchedRule.lean`.

* `method`: the code compares `self.method` with a string literal at three places (`Gen.SchedRule.methodTests`);
  the model has one flag `Cfg.alap`, taken from the first test (`alapOf`); `Props/C05.lean` proves that the three
  tests are the same test `== "ALAP"`, so every other constructor argument (other casing, other string, `None`, a
  number: `none`) takes the ASAP branch at all three places.
* `constraint_functions`: a list of functions `(ind1, ind2, instructions) → bool`; the harness supplies functions of
  the four kinds `CFun`; `shOf fs ns i2 i1` is `not apply_constraint(i2, i1, nodes)` with `apply_constraint`
  regenerated from the source (`Gen.SchedRule.applyConstraint`).
-/
namespace QipVerif.Sched

/-- the constraint functions the harness passes to `Scheduler(constraint_functions=…)` -/
inductive CFun
  /-- the library's `qubit_constraint` -/
  | qubit
  /-- `lambda i, j, ins: True` -/
  | allowAll
  /-- `lambda i, j, ins: not (i == a and j == b)` (ordered: tests the order of the arguments of the call) -/
  | forbid (a b : Nat)
  /-- `lambda i, j, ins: ins[i].name != ins[j].name` -/
  | sameName
deriving Repr, DecidableEq

/-- the verdict of one constraint function (`true`: the two instructions may run in parallel) -/
def CFun.eval (ns : List Ins) : CFun → Nat → Nat → Bool
  | .qubit, i, j => !(shareIdx ns i j)
  | .allowAll, _, _ => true
  | .forbid a b, i, j => !(i == a && j == b)
  | .sameName, i, j => (getIns ns i).name != (getIns ns j).name

/-- `not apply_constraint(i, j, nodes)` for the constraint list `fs` -/
def shOf (fs : List CFun) (ns : List Ins) (i j : Nat) : Bool :=
  !(Gen.SchedRule.applyConstraint (fs.map fun f => f.eval ns i j))

/-- the model's flag for the constructor argument `method` (`none`: not a string) -/
def alapOf (m : Option String) : Bool := Gen.SchedRule.alapAt 0 m

end QipVerif.Sched
