/-!
# Model of `qutip_qip.algorithms.qft`: `qft_gate_sequence`, `qft_steps`, `_cphase_to_cnot`

Import-free and executable (driver `drv_zyz`).  Gate *lists* only: names, target and control
indices and exact angles `num·π / 2^exp`.  The Python loops

```
for i in range(N):
    for j in range(i):  CPHASE(control i, target j, π/2^(i-j))   |  _cphase_to_cnot([j],[i],π/2^(i-j))
    SNOT(i)
if swapping: for i in range(N // 2): SWAP [N-i-1, i]
```

become structural recursion on the loop counter.  `qft_steps` has the same loops but appends
operators (`expand_operator(cphase(π/2^(i-j)), targets=[i, j])`, …); its model is the list of `Step`s.
-/
namespace QipVerif.Qft

inductive Kind | SNOT | CPHASE | SWAP | CNOT | RZ | GLOBALPHASE
deriving DecidableEq, Repr

/-- the angle `num · π / 2^exp` -/
structure Ang where
  num : Int
  exp : Nat
deriving DecidableEq, Repr

structure Gate where
  kind : Kind
  targets : List Nat
  controls : List Nat
  ang : Option Ang
deriving DecidableEq, Repr

def snot (i : Nat) : Gate := ⟨.SNOT, [i], [], none⟩
def swap (a b : Nat) : Gate := ⟨.SWAP, [a, b], [], none⟩
/-- `CPHASE` with `arg_value = π / 2^k` -/
def cphase (c t k : Nat) : Gate := ⟨.CPHASE, [t], [c], some ⟨1, k⟩⟩

/-- `_cphase_to_cnot([t], [c], π/2^k)` (the angles are those the ZYZ_PauliX
decomposition of `diag(1, e^{iλ})`, `λ = π/2^k ∈ (−π, π]`, yields: `λ/2, −λ/2, λ/2` and the recorded
global phase `λ/2 + λ/4`; `Lemmas/ZyzQft.lean` ties this hand expansion to the regenerated template).
The GLOBALPHASE gate keeps the `targets=[0]` it was created with. -/
def cphaseToCnot (c t k : Nat) : List Gate :=
  [⟨.RZ, [t], [], some ⟨1, k + 1⟩⟩, ⟨.CNOT, [t], [c], none⟩, ⟨.RZ, [t], [], some ⟨-1, k + 1⟩⟩,
   ⟨.CNOT, [t], [c], none⟩, ⟨.RZ, [c], [], some ⟨1, k + 1⟩⟩, ⟨.GLOBALPHASE, [0], [], some ⟨3, k + 2⟩⟩]

/-- body of the inner loop for one `(i, j)`, angle `π/2^k` -/
def cphaseGates (cn : Bool) (i j k : Nat) : List Gate :=
  if cn then cphaseToCnot i j k else [cphase i j k]

/-- `for j in range(m)` of the inner loop (row `i`) -/
def inner (cn : Bool) (i : Nat) : Nat → List Gate
  | 0 => []
  | m + 1 => inner cn i m ++ cphaseGates cn i m (i - m)

/-- `for i in range(m)`: controlled phases of row `i`, then `SNOT i` -/
def outer (cn : Bool) : Nat → List Gate
  | 0 => []
  | m + 1 => outer cn m ++ (inner cn m m ++ [snot m])

/-- `for i in range(m): SWAP [N-i-1, i]` -/
def swaps (N : Nat) : Nat → List Gate
  | 0 => []
  | m + 1 => swaps N m ++ [swap (N - m - 1) m]

/-- `qft_gate_sequence(N, swapping, to_cnot).gates`; `none` = `ValueError` (N < 1) -/
def gateSequence (N : Nat) (swapping cn : Bool) : Option (List Gate) :=
  if N < 1 then none
  else if N = 1 then some [snot 0]
  else some (outer cn N ++ (if swapping then swaps N (N / 2) else []))

/-! ## `qft_steps` -/

inductive Step
  | snot (i : Nat)              -- `expand_operator(snot(), targets=i)`  (`snot()` itself for N = 1)
  | cphase (i j k : Nat)        -- `expand_operator(cphase(π/2^k), targets=[i, j])`
  | swap (a b : Nat)            -- `expand_operator(swap(), targets=[a, b])`
deriving DecidableEq, Repr

def stepsInner (i : Nat) : Nat → List Step
  | 0 => []
  | m + 1 => stepsInner i m ++ [.cphase i m (i - m)]

def stepsOuter : Nat → List Step
  | 0 => []
  | m + 1 => stepsOuter m ++ (stepsInner m m ++ [.snot m])

def stepsSwaps (N : Nat) : Nat → List Step
  | 0 => []
  | m + 1 => stepsSwaps N m ++ [.swap (N - m - 1) m]

/-- `qft_steps(N, swapping)`; `none` = `ValueError` (N < 1) -/
def qftSteps (N : Nat) (swapping : Bool) : Option (List Step) :=
  if N < 1 then none
  else if N = 1 then some [.snot 0]
  else some (stepsOuter N ++ (if swapping then stepsSwaps N (N / 2) else []))

/-- the circuit gates that realise one step (`cn`: controlled phases expanded into CNOTs) -/
def Step.gates (cn : Bool) : Step → List Gate
  | .snot i => [QipVerif.Qft.snot i]
  | .cphase i j k => cphaseGates cn i j k
  | .swap a b => [QipVerif.Qft.swap a b]

/-- every qubit index a gate mentions (GLOBALPHASE acts on no particular qubit) -/
def Gate.qubits (g : Gate) : List Nat :=
  if g.kind = .GLOBALPHASE then [] else g.controls ++ g.targets

end QipVerif.Qft
