import QipVerif.Model.Heap
/-!
# Model of `CircuitSimulator` (control state machine), `CircuitResult`, and of the mutable
# attributes of `GateCompiler` / `ModelProcessor` (properties C02 and C16)

No Mathlib, total, executable.  The quantum state is abstract: a `Backend Q P` supplies
the action of a gate, the projective measurement of one qubit (probability after
tolerance pruning + collapsed state or `None`) and the density-matrix dephasing.  The
model is everything else: classical bits (references into `Heap`, so `self.cbits = cbits`
is an alias as in the code), `_probability`, `_op_index`, `_measure_results`,
`_measure_ind`, the classical-condition test, `run`, `run_statistics`, `CircuitResult`.

`Cfg` names the three places where the code is proposed to be repaired
(fixes/C02-1, C02-2, C16-1); the flags are read off the checked-out source on every run
(py/props/c02.py `probe_cfg`) and every theorem states which flag value it needs.
-/
namespace QipVerif.Sim
open QipVerif.Heap

/-- Python exception classes that the modelled code can raise. -/
inductive Err
  | index   -- IndexError
  | type    -- TypeError
  | value   -- ValueError
  | attr    -- AttributeError
  | notimpl -- NotImplementedError
deriving DecidableEq, Repr

deriving instance DecidableEq for Except

structure Cfg where
  /-- `initialize` stores a copy of the caller's `cbits` (fix C02-1); `false` = `self.cbits = cbits` -/
  copyCbits : Bool
  /-- `Gate.__init__` rejects `classical_control_value ∉ [0, 2^k)` (fix C02-2) -/
  checkCcv : Bool
  /-- `GateCompiler.compile` starts from `global_phase = 0` (fix C16-1); `false` = accumulates -/
  resetPhase : Bool
  /-- the `state` property does not store the reshaped array back into `_state` (fix C16-2) -/
  pureGetter : Bool
  /-- density-matrix mode refuses a gate conditioned on a bit that a measurement has written (fix C02-3);
  `false` = the gate is decided on the stale bit -/
  dmRefuse : Bool
  /-- `reverse_circuit` returns a circuit with gate objects of its own (fix C16-3) -/
  copyRev : Bool
  /-- `to_chain_structure` returns a circuit with gate objects of its own (fix C16-4) -/
  copyChain : Bool
  /-- `RelaxationNoise` / `DecoherenceNoise` do not overwrite their own `t1`, `t2`, `coeff` (fix C16-5) -/
  noiseLocal : Bool
deriving DecidableEq, Repr

/-! ## `_decimal_to_binary` and `_check_classical_control_value`, verbatim -/

/-- binary digits of `n`, least significant first (`fuel ≥` number of digits) -/
def bitsLE : Nat → Nat → List Nat
  | 0, _ => []
  | fuel + 1, n => if n = 0 then [] else (n % 2) :: bitsLE fuel (n / 2)

/-- `[int(s) for s in "{0:#b}".format(n)[2:]]` for `n ≥ 0`: most significant first, `0 ↦ [0]` -/
def binDigits (n : Nat) : List Nat := if n = 0 then [0] else (bitsLE n n).reverse

/-- `_decimal_to_binary(decimal, length)`.  A negative `decimal` formats as `"-0b…"`, whose
`[2:]` starts with `"b"`, and `int("b")` raises `ValueError`.  When `decimal ≥ 2^length`
nothing is padded and the result is LONGER than `length`. -/
def decimalToBinary (decimal : Int) (length : Nat) : Except Err (List Nat) :=
  if decimal < 0 then .error .value
  else
    let binary := binDigits decimal.toNat
    .ok (List.replicate (length - binary.length) 0 ++ binary)

/-- `for i in range(len(controls)): matched[i] = cbits[controls[i]] == conditions[i]`, then `all` -/
def matchLoop (cbits : List Int) : List Int → List Nat → Except Err Bool
  | [], _ => .ok true
  | c :: cs, conds =>
    match pyGet cbits c with
    | none => .error .index
    | some b =>
      match conds with
      | [] => .error .index
      | d :: ds =>
        match matchLoop cbits cs ds with
        | .error e => .error e
        | .ok r => .ok (decide (b = (d : Int)) && r)

/-- `_check_classical_control_value(operation, cbits)`; `cbits = none` is Python `None` -/
def checkCCV (controls : List Int) (value : Int) (cbits : Option (List Int)) : Except Err Bool :=
  match decimalToBinary value controls.length with
  | .error e => .error e
  | .ok conds =>
    match cbits with
    | none => if controls.isEmpty then .ok true else .error .type
    | some bits => matchLoop bits controls conds

/-! ## Circuits -/

structure Gate where
  /-- which unitary (interpreted by the backend) -/
  code : Nat
  /-- `get_all_qubits()`: controls ++ targets -/
  qubits : List Nat
  /-- `classical_controls` (`none` = Python `None`) -/
  cc : Option (List Int)
  /-- `classical_control_value` -/
  ccv : Int
deriving DecidableEq, Repr

inductive Op
  | gate (g : Gate)
  | meas (target : Nat) (store : Option Int)
deriving DecidableEq, Repr

structure Circuit where
  nq : Nat
  ncb : Nat
  ops : List Op
deriving DecidableEq, Repr

def Op.isMeas : Op → Bool
  | .meas _ _ => true
  | _ => false

def Circuit.numMeas (c : Circuit) : Nat := (c.ops.filter Op.isMeas).length

/-- 2^k as used by the range check -/
def pow2 : Nat → Nat
  | 0 => 1
  | k + 1 => 2 * pow2 k

/-- what `Gate.__init__` accepts (only with fix C02-2 is anything refused) -/
def Gate.ccvOk (g : Gate) : Bool :=
  match g.cc with
  | none => true
  | some cs => decide (0 ≤ g.ccv) && decide (g.ccv.toNat < pow2 cs.length)

def Circuit.constructible (cfg : Cfg) (c : Circuit) : Bool :=
  !cfg.checkCcv || c.ops.all (fun o => match o with | .gate g => g.ccvOk | _ => true)

/-! ## The quantum backend (abstract) -/

structure Backend (Q P : Type) where
  /-- gate `code` on `qubits` applied to the state (ket or density matrix, by mode) -/
  gate : Nat → List Nat → Q → Q
  /-- `measurement_comp_basis` of qubit `target`, entry `i ∈ {0,1}`: the probability with
  everything `≤ atol²` replaced by `0`, and the collapsed normalised state (`none` if pruned) -/
  meas : Nat → Q → Nat → P × Option Q
  /-- density-matrix mode: `Σ_i p_i ρ_i` over the outcomes that were not pruned -/
  dephase : Nat → Q → Q

inductive Mode | sv | dm
deriving DecidableEq, Repr

/-! ## Simulator state: exactly the instance attributes written by `initialize` -/

/-- Representation held in `self._state` (state-vector mode): a `Qobj` (after `initialize` or a
measurement), an ndarray of shape `_tensor_dims` (after a gate), an ndarray of shape
`_state_mat_shape` (after the `state` property stored its reshaped array back), or — only reachable
by stepping after that on ≥ 2 qubits — an array of a wrong shape. -/
inductive Form | qobj | tensor | matrix | garbage
deriving DecidableEq, Repr

/-- the per-run attributes other than `cbits` -/
structure Fields (Q P : Type) where
  st : Option Q                 -- `self._state`
  form : Form                   -- its representation (see `Form`)
  prob : P                      -- `self._probability`
  opIndex : Nat                 -- `self._op_index`
  mres : Option (List Int)      -- `self._measure_results`
  mind : Nat                    -- `self._measure_ind`
  mixed : List Int              -- `self._mixed_cbits` (fix C02-3; stays empty without it): bits written by a
                                -- measurement in density-matrix mode

/-- the simulator object: `self.cbits` is a REFERENCE (it may alias a caller's list) -/
structure SimState (Q P : Type) where
  cbits : Option Ref
  f : Fields Q P

/-- the same with the classical bits by VALUE: what one step reads and writes -/
structure Core (Q P : Type) where
  bits : Option (List Int)
  f : Fields Q P

/-- events of one run (ghost: not an attribute of the code; used to compare firing decisions) -/
inductive Ev
  | fired (i : Nat)
  | skipped (i : Nat)
  | measured (i : Nat) (outcome : Int)
  | dephased (i : Nat)
deriving DecidableEq, Repr

/-- `GateCompiler`: the two attributes that `compile` writes -/
structure Compiler where
  args : List (Nat × Int)       -- `self.args` as key ↦ value (tokens)
  phase : Int                   -- `self.global_phase` (in units fixed by the harness)
deriving DecidableEq, Repr

/-- `ModelProcessor`: compiled program held between calls -/
structure Processor where
  pulses : Option (Nat × List (Nat × Int))   -- `self.pulses`: "the pulses of circuit i compiled under args"
  phase : Int                                 -- `self.global_phase`
deriving DecidableEq, Repr

structure World (Q P : Type) where
  heap : Heap
  sim : Option (SimState Q P)   -- `none` before the first `initialize`
  rng : List Int                -- outcomes that `np.random.choice` will return (global RNG)
  log : List Ev                 -- ghost
  comp : Compiler               -- a compiler object owned by the user
  proc : Processor

/-- truthiness of a Python list -/
def truthy (l : List Int) : Bool := !l.isEmpty

/-- is `self._measure_results` truthy -/
def mresTruthy : Option (List Int) → Bool
  | some l => truthy l
  | none => false

/-! ## One step on the attribute values (pure) -/

/-- result of a step: new attribute values, what is left of the random stream, the exception if
any (attribute writes made before it are kept, as in Python), the ghost events -/
structure Out (Q P : Type) where
  core : Core Q P
  rng : List Int
  err : Option Err
  evs : List Ev

/-- the `state` property: `self._state = self._state.reshape(self._state_mat_shape)` unless it is a
`Qobj` or `None` (with fix C16-2 the reshaped array is only returned) -/
def getter {Q P : Type} (cfg : Cfg) (f : Fields Q P) : Fields Q P × Option Err :=
  match f.st with
  | none => (f, none)
  | some _ =>
    match f.form with
    | .qobj => (f, none)
    | .matrix => (f, none)
    | .tensor => if cfg.pureGetter then (f, none) else ({ f with form := .matrix }, none)
    | .garbage => (f, some .value)      -- "cannot reshape array of size … into shape …"

/-- which outcome `_apply_measurement` takes: the next prescribed result, or the next value of the
random stream when `_measure_results` is falsy -/
def pickOutcome {Q P : Type} (f : Fields Q P) (rng : List Int) : Except Err (Int × Fields Q P × List Int) :=
  if mresTruthy f.mres then
    match (f.mres.getD [])[f.mind]? with
    | none => .error .index
    | some i => .ok (i, { f with mind := f.mind + 1 }, rng)
  else
    match rng with
    | [] => .ok (0, f, [])
    | i :: rest => .ok (i, f, rest)

/-- `_apply_measurement` in state-vector mode followed by `self._state = state`.
Attribute writes happen in the code's order, so a failure leaves the same partial update. -/
def measureSv {Q P : Type} [Mul P] (B : Backend Q P) (cfg : Cfg) (c : Circuit) (k0 : Core Q P) (rng : List Int)
    (idx : Nat) (t : Nat) (store : Option Int) : Out Q P :=
  match getter cfg k0.f with
  | (f, some e) => ⟨{ k0 with f := f }, rng, some e, []⟩
  | (f, none) =>
  match f.st with
  | none => ⟨{ k0 with f := f }, rng, some .attr, []⟩           -- `None.shape`
  | some q =>
    if t ≥ c.nq then ⟨{ k0 with f := f }, rng, some .value, []⟩  -- "target is not valid"
    else
      match pickOutcome f rng with
      | .error e => ⟨{ k0 with f := f }, rng, some e, []⟩
      | .ok (i, f1, rng1) =>
        match pyIdx 2 i with
        | none => ⟨{ k0 with f := f1 }, rng1, some .index, []⟩   -- `probabilities[i]`
        | some o =>
          let f2 := { f1 with prob := f1.prob * (B.meas t q o).1 }
          let f3 := { f2 with st := (B.meas t q o).2, form := .qobj }
          match store with
          | none => ⟨{ k0 with f := f3 }, rng1, none, [Ev.measured idx i]⟩
          | some sidx =>
            match k0.bits with
            | none => ⟨{ k0 with f := f2 }, rng1, some .type, []⟩   -- `None[...] = i`
            | some l =>
              match pySet l sidx i with
              | none => ⟨{ k0 with f := f2 }, rng1, some .index, []⟩
              | some l' => ⟨{ bits := some l', f := f3 }, rng1, none, [Ev.measured idx i]⟩

/-- what `_evolve_state_einsum` does to the representation: the new `Form`, or the exception.
On a matrix-shaped array of ≥ 2 qubits the index bookkeeping is for the wrong rank. -/
def einsumForm (nq : Nat) (qubits : List Nat) : Form → Except Err Form
  | .qobj => .ok .tensor
  | .tensor => .ok .tensor
  | .matrix =>
    if nq ≤ 1 then .ok .matrix
    else if qubits.any (fun k => decide (2 ≤ k)) then .error .index   -- `new_index_list[k] = …`
    else if qubits.any (fun k => k == 0) then .error .value          -- einsum: dimensions differ
    else .ok .garbage                                                -- silently broadcast
  | .garbage => .ok .garbage

/-- does the gate act: `_check_classical_control_value` if it has classical controls -/
def fires (g : Gate) (bits : Option (List Int)) : Except Err Bool :=
  match g.cc with
  | none => .ok true
  | some cs => checkCCV cs g.ccv bits

/-- density-matrix mode, fix C02-3: `self._mixed_cbits.add(classical_store)` -/
def noteMixed (cfg : Cfg) (store : Option Int) (mixed : List Int) : List Int :=
  match store with
  | some s => if cfg.dmRefuse then s :: mixed else mixed
  | none => mixed

/-- fix C02-3: `self._mixed_cbits.intersection(op.classical_controls)` is not empty (the set is only ever filled
in density-matrix mode) -/
def refuses (cfg : Cfg) (g : Gate) (mixed : List Int) : Bool :=
  cfg.dmRefuse && (match g.cc with
    | some cs => cs.any (fun x => mixed.contains x)
    | none => false)

/-- `step()` on the attribute values -/
def coreStep {Q P : Type} [Mul P] (B : Backend Q P) (cfg : Cfg) (mode : Mode) (c : Circuit)
    (k : Core Q P) (rng : List Int) : Out Q P :=
  match c.ops[k.f.opIndex]? with
  | none => ⟨k, rng, some .index, []⟩
  | some op =>
    let idx := k.f.opIndex
    let k1 : Core Q P := { k with f := { k.f with opIndex := k.f.opIndex + 1 } }
    match op with
    | .meas t store =>
      match mode with
      | .sv => measureSv B cfg c k1 rng idx t store
      | .dm =>
        match k1.f.st with
        | none => ⟨k1, rng, some .attr, []⟩
        | some q =>
          if t ≥ c.nq then ⟨k1, rng, some .value, []⟩
          else ⟨{ k1 with f := { k1.f with st := some (B.dephase t q), mixed := noteMixed cfg store k1.f.mixed } },
                rng, none, [Ev.dephased idx]⟩
    | .gate g =>
      if refuses cfg g k1.f.mixed then ⟨k1, rng, some .notimpl, []⟩ else
      match fires g k1.bits with
      | .error e => ⟨k1, rng, some e, []⟩
      | .ok false => ⟨k1, rng, none, [Ev.skipped idx]⟩
      | .ok true =>
        match k1.f.st with
        | none => ⟨k1, rng, some .attr, []⟩
        | some q =>
          let nf : Except Err Form :=
            match mode with
            | .dm => .ok k1.f.form
            | .sv => einsumForm c.nq g.qubits k1.f.form
          match nf with
          | .error e => ⟨k1, rng, some e, []⟩
          | .ok fm =>
            ⟨{ k1 with f := { k1.f with st := some (B.gate g.code g.qubits q), form := fm } }, rng, none,
             [Ev.fired idx]⟩

/-! ## The simulator object in the world: one step reads and writes the list `self.cbits` refers to -/

def toCore {Q P : Type} (h : Heap) (s : SimState Q P) : Core Q P := { bits := s.cbits.map h.get, f := s.f }

/-- store the (possibly modified) bits into the list object -/
def writeBack (h : Heap) : Option Ref → Option (List Int) → Heap
  | some r, some l => h.put r l
  | _, _ => h

/-- lift a result on the attribute values to the world -/
def applyOut {Q P : Type} (w : World Q P) (ref : Option Ref) (o : Out Q P) : World Q P :=
  { w with heap := writeBack w.heap ref o.core.bits, sim := some { cbits := ref, f := o.core.f },
           rng := o.rng, log := w.log ++ o.evs }

/-- `initialize(state, cbits, measure_results)` -/
def initRun {Q P : Type} [One P] (cfg : Cfg) (c : Circuit) (w : World Q P) (st : Q) (cb : Option Ref)
    (mr : Option (List Int)) : World Q P :=
  let fresh : Heap × Option Ref :=
    if c.ncb > 0 then ((w.heap.alloc (List.replicate c.ncb 0)).1, some (w.heap.alloc (List.replicate c.ncb 0)).2)
    else (w.heap, none)
  let hr : Heap × Option Ref :=
    match cb with
    | some r =>
      if truthy (w.heap.get r) && (w.heap.get r).length == c.ncb then
        if cfg.copyCbits then ((w.heap.alloc (w.heap.get r)).1, some (w.heap.alloc (w.heap.get r)).2)
        else (w.heap, some r)
      else fresh
    | none => fresh
  { w with heap := hr.1,
           sim := some { cbits := hr.2,
                         f := { st := some st, form := .qobj, prob := 1, opIndex := 0, mres := mr, mind := 0, mixed := [] } } }

/-- `step()` -/
def step {Q P : Type} [Mul P] (B : Backend Q P) (cfg : Cfg) (mode : Mode) (c : Circuit) (w : World Q P) :
    World Q P × Option Err :=
  match w.sim with
  | none => (w, some .attr)      -- no `_op_index` before `initialize`
  | some s =>
    let o := coreStep B cfg mode c (toCore w.heap s) w.rng
    (applyOut w s.cbits o, o.err)

/-- the loop of `run`: `for _ in range(len(gates)): self.step(); if self._state is None: break` -/
def runLoop {Q P : Type} [Mul P] (B : Backend Q P) (cfg : Cfg) (mode : Mode) (c : Circuit) :
    Nat → World Q P → World Q P × Option Err
  | 0, w => (w, none)
  | n + 1, w =>
    match step B cfg mode c w with
    | (w', some e) => (w', some e)
    | (w', none) =>
      match w'.sim with
      | none => (w', none)
      | some s => if s.f.st.isNone then (w', none) else runLoop B cfg mode c n w'

/-- `CircuitResult`: `final_states`, `probabilities`, and `cbits` (absent = `none`) -/
structure Result (Q P : Type) where
  states : List (Option Q)
  probs : List P
  cbits : Option (List (Option Ref))

/-- truthiness of `self.cbits` (None or a list) -/
def cbitsTruthy (h : Heap) : Option Ref → Bool
  | none => false
  | some r => truthy (h.get r)

/-- `run(state, cbits, measure_results)` -/
def run {Q P : Type} [One P] [Mul P] (B : Backend Q P) (cfg : Cfg) (mode : Mode) (c : Circuit)
    (w : World Q P) (st : Q) (cb : Option Ref) (mr : Option (List Int)) :
    World Q P × Except Err (Result Q P) :=
  let w0 := initRun cfg c w st cb mr
  match runLoop B cfg mode c c.ops.length w0 with
  | (w1, some e) => (w1, .error e)
  | (w1, none) =>
    match w1.sim with
    | none => (w1, .error .attr)
    | some s0 =>
      -- `CircuitResult(self.state, self._probability, self.cbits)`: the `state` property is read
      match getter cfg s0.f with
      | (f, some e) => ({ w1 with sim := some { s0 with f := f } }, .error e)
      | (f, none) =>
        ({ w1 with sim := some { s0 with f := f } },
         .ok { states := [f.st], probs := [f.prob],
               cbits := if cbitsTruthy w1.heap s0.cbits then some [s0.cbits] else none })

/-- `itertools.product("01", repeat=m)` in its order (first position varies slowest) -/
def records : Nat → List (List Int)
  | 0 => [[]]
  | m + 1 => (records m).map (fun r => 0 :: r) ++ (records m).map (fun r => 1 :: r)

/-- the loop of `run_statistics`, accumulating `states`, `probabilities`, `cbits_results` -/
def statLoop {Q P : Type} [One P] [Mul P] (B : Backend Q P) (cfg : Cfg) (mode : Mode) (c : Circuit)
    (st : Q) (cb : Option Ref) :
    List (List Int) → World Q P → List (Option Q × P × Option Ref) →
      World Q P × Except Err (List (Option Q × P × Option Ref))
  | [], w, acc => (w, .ok acc)
  | r :: rs, w, acc =>
    match run B cfg mode c w st cb (some r) with
    | (w', .error e) => (w', .error e)
    | (w', .ok res) =>
      match res.states, res.probs, w'.sim with
      | q :: _, p :: _, some s => statLoop B cfg mode c st cb rs w' (acc ++ [(q, p, s.cbits)])
      | _, _, _ => (w', .error .attr)

/-- `run_statistics(state, cbits)` followed by `CircuitResult(states, probabilities, cbits_results)` -/
def runStatistics {Q P : Type} [One P] [Mul P] (B : Backend Q P) (cfg : Cfg) (mode : Mode) (c : Circuit)
    (w : World Q P) (st : Q) (cb : Option Ref) : World Q P × Except Err (Result Q P) :=
  match statLoop B cfg mode c st cb (records c.numMeas) w [] with
  | (w', .error e) => (w', .error e)
  | (w', .ok acc) =>
    let kept := acc.filter (fun x => x.1.isSome)
    -- `if cbits:` — `cbits_results` has one entry per record, so it is never empty
    (w', .ok { states := kept.map (·.1), probs := kept.map (·.2.1),
               cbits := if acc.isEmpty then none else some (kept.map (·.2.2)) })

/-! ## `GateCompiler.compile` and `ModelProcessor.load_circuit` (attribute level) -/

/-- `dict.update` -/
def dictUpdate (d : List (Nat × Int)) : List (Nat × Int) → List (Nat × Int)
  | [] => d
  | (k, v) :: rest =>
    let d' := if d.any (fun e => e.1 == k) then d.map (fun e => if e.1 == k then (k, v) else e) else d ++ [(k, v)]
    dictUpdate d' rest

/-- `compile(circuit, args=…)`: `phases[i]` is the sum of the `GLOBALPHASE` arguments of circuit `i`.
Returns the new compiler and the compiled program token. -/
def compile (cfg : Cfg) (phases : List Int) (cp : Compiler) (circ : Nat) (args : Option (List (Nat × Int))) :
    Compiler × (Nat × List (Nat × Int)) :=
  let a := match args with | none => cp.args | some u => dictUpdate cp.args u
  let p0 := if cfg.resetPhase then 0 else cp.phase
  ({ args := a, phase := p0 + phases.getD circ 0 }, (circ, a))

def defaultCompiler : Compiler := { args := [], phase := 0 }

/-- `load_circuit(qc, compiler=…)`: with `user = false` a new default compiler is built -/
def loadCircuit {Q P : Type} (cfg : Cfg) (phases : List Int) (w : World Q P) (circ : Nat) (user : Bool) :
    World Q P × (Nat × List (Nat × Int)) :=
  let cp := if user then w.comp else defaultCompiler
  let (cp', tok) := compile cfg phases cp circ none
  ({ w with comp := if user then cp' else w.comp,
            proc := { pulses := some tok, phase := cp'.phase } }, tok)

/-! ## Histories: every public operation is a step `World → Call → World × Ret` -/

inductive Call (Q : Type)
  | run (st : Q) (cb : Option Ref) (mr : Option (List Int))     -- `sim.run(state, cbits, measure_results)`
  | stat (st : Q) (cb : Option Ref)                              -- `sim.run_statistics(state, cbits)`
  | init (st : Q) (cb : Option Ref) (mr : Option (List Int))    -- `sim.initialize(…)`
  | step                                                         -- `sim.step()`
  | getState                                                     -- `sim.state`
  | query      -- any circuit-level query or transformation (compute_unitary, propagators, resolve_gates, …,
               -- pulse queries of a processor): writes no attribute of any object
  | compile (circ : Nat) (args : Option (List (Nat × Int)))     -- `compiler.compile(circuit, args=…)`
  | load (circ : Nat) (user : Bool)                              -- `processor.load_circuit(qc, compiler=…)`

inductive Ret (Q P : Type)
  | result (r : Except Err (Result Q P))
  | unit (e : Option Err)
  | state (s : Except Err (Option Q))
  | program (tok : Nat × List (Nat × Int))
  | nothing

def exec {Q P : Type} [One P] [Mul P] (B : Backend Q P) (cfg : Cfg) (mode : Mode) (c : Circuit) (phases : List Int)
    (w : World Q P) : Call Q → World Q P × Ret Q P
  | .run st cb mr => let r := run B cfg mode c w st cb mr; (r.1, .result r.2)
  | .stat st cb => let r := runStatistics B cfg mode c w st cb; (r.1, .result r.2)
  | .init st cb mr => (initRun cfg c w st cb mr, .unit none)
  | .step => let r := step B cfg mode c w; (r.1, .unit r.2)
  | .getState =>
    match w.sim with
    | none => (w, .state (.error .attr))
    | some s =>
      match getter cfg s.f with
      | (f, none) => ({ w with sim := some { s with f := f } }, .state (.ok f.st))
      | (f, some e) => ({ w with sim := some { s with f := f } }, .state (.error e))
  | .query => (w, .nothing)
  | .compile circ args =>
    let r := compile cfg phases w.comp circ args
    ({ w with comp := r.1 }, .program r.2)
  | .load circ user => let r := loadCircuit cfg phases w circ user; (r.1, .program r.2)

/-- the world after a history -/
def execAll {Q P : Type} [One P] [Mul P] (B : Backend Q P) (cfg : Cfg) (mode : Mode) (c : Circuit) (phases : List Int)
    (w : World Q P) (calls : List (Call Q)) : World Q P :=
  calls.foldl (fun w call => (exec B cfg mode c phases w call).1) w

/-! ## Exact backend used by the driver: real integer amplitudes times `(1/√2)^k`

A state is an ensemble of unnormalised real vectors sharing one exponent `k`: a real ket is
a singleton, a ket with complex (Gaussian-integer) amplitudes is `[re, im]` (all gates of
the exact stream are real, so both parts evolve independently and norms add), a density
matrix is `Σ_j |v_j⟩⟨v_j| / 2^k`.  Gates: X, CNOT, SWAP, TOFFOLI, SNOT, Z, CSIGN. -/
namespace Exact

structure QS where
  n : Nat
  k : Nat
  vecs : List (List Int)
deriving DecidableEq, Repr

/-- probabilities are exact fractions `num/den` (not reduced) -/
structure Prob where
  num : Nat
  den : Nat
deriving DecidableEq, Repr

instance : One Prob := ⟨⟨1, 1⟩⟩
instance : Mul Prob := ⟨fun a b => ⟨a.num * b.num, a.den * b.den⟩⟩

/-- bit of qubit `t` in basis index `i` (qubit 0 most significant) -/
def bit (n t i : Nat) : Nat := (i / 2 ^ (n - 1 - t)) % 2
def flip (n t i : Nat) : Nat := if bit n t i = 0 then i + 2 ^ (n - 1 - t) else i - 2 ^ (n - 1 - t)
def clear (n t i : Nat) : Nat := if bit n t i = 0 then i else i - 2 ^ (n - 1 - t)

def mapIdx (v : List Int) (f : Nat → Int) : List Int := (List.range v.length).map f

def applyVec (n : Nat) (code : Nat) (qs : List Nat) (v : List Int) : List Int :=
  let at_ (i : Nat) : Int := v.getD i 0
  match code, qs with
  | 0, [t] => mapIdx v fun i => at_ (flip n t i)                                   -- X
  | 1, [c, t] => mapIdx v fun i => if bit n c i = 1 then at_ (flip n t i) else at_ i  -- CNOT
  | 2, [a, b] => mapIdx v fun i =>                                                 -- SWAP
      if bit n a i = bit n b i then at_ i else at_ (flip n a (flip n b i))
  | 3, [c1, c2, t] => mapIdx v fun i =>                                            -- TOFFOLI
      if bit n c1 i = 1 ∧ bit n c2 i = 1 then at_ (flip n t i) else at_ i
  | 4, [t] => mapIdx v fun i =>                                                    -- SNOT (×√2)
      let i0 := clear n t i
      let i1 := i0 + 2 ^ (n - 1 - t)
      if bit n t i = 0 then at_ i0 + at_ i1 else at_ i0 - at_ i1
  | 5, [t] => mapIdx v fun i => if bit n t i = 1 then - at_ i else at_ i           -- Z
  | 6, [c, t] => mapIdx v fun i => if bit n c i = 1 ∧ bit n t i = 1 then - at_ i else at_ i  -- CSIGN
  | _, _ => v

def applyGate (code : Nat) (qs : List Nat) (s : QS) : QS :=
  { s with k := if code = 4 then s.k + 1 else s.k, vecs := s.vecs.map (applyVec s.n code qs) }

def project (n t o : Nat) (v : List Int) : List Int :=
  mapIdx v fun i => if bit n t i = o then v.getD i 0 else 0

def norm2 (v : List Int) : Nat := (v.map (fun a => (a * a).toNat)).foldl (· + ·) 0
def norm2s (vs : List (List Int)) : Nat := (vs.map norm2).foldl (· + ·) 0

def measure (t : Nat) (s : QS) (o : Nat) : Prob × Option QS :=
  let pv := s.vecs.map (project s.n t o)
  let num := norm2s pv
  if num = 0 then (⟨0, 1⟩, none) else (⟨num, norm2s s.vecs⟩, some { s with vecs := pv })

def dephase (t : Nat) (s : QS) : QS :=
  { s with vecs := (s.vecs.flatMap fun v => [project s.n t 0 v, project s.n t 1 v]).filter (fun v => norm2 v ≠ 0) }

def backend : Backend QS Prob := { gate := applyGate, meas := measure, dephase := dephase }

end Exact

end QipVerif.Sim
