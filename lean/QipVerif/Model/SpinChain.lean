import QipVerif.Gen.SpinChainTables
import QipVerif.Model.Circuit
/-!
# Model of the compiler stage of the spin-chain processors (property C06)

No Mathlib; executable.  What is modelled, from `compiler/spinchaincompiler.py`,
`compiler/gatecompiler.py`, `device/spinchain.py` (tables and formulas REGENERATED into
`Gen/SpinChainTables.lean`, control flow by hand):

* `SpinChainCompiler.gate_compiler[name](gate, args)` for every gate of a list, in order, as
  `GateCompiler.compile` calls them (`Unsupported gate` for a name outside the map, first error
  wins): `_rotation_compiler` (channel `op_label + str(targets[0])`, strength
  `params[param_label][targets[0]]`, area from the angle), `_swap_compiler` (`q1, q2`, strength
  `params["sxsy"][·]`, coupling label with the wrap-around case), `globalphase_compiler`
  (accumulation into `self.global_phase`), `idle_compiler`;
* the rectangular pulse of `generate_pulse_shape`: coefficient and duration from `(maximum, area)`;
* the reset of `self.global_phase` at the start of `compile` and the hand-back in
  `SpinChain.load_circuit`;
* `SpinChainModel`: which control Hamiltonian a channel label denotes (prefactor, Pauli operator(s),
  qubits), the number of couplings, so that `Processor.set_coeffs` finds the label or raises `KeyError`.

Everything is generic in the number type `α` (`Arith α` of the generated file): the driver runs it
with `Rat` (angles in units of π, `pi := 1`), the theorems instantiate it with `ℝ` and `Real.pi`.
Scheduling (`Model/Sched.lean`) and pulse concatenation (`Model/Concat.lean`) are separate models.
-/
namespace QipVerif.SpinChain
open QipVerif QipVerif.Gen.SC

/-- hardware parameters after `SpinChainModel._compute_params`: one entry per qubit / per coupling -/
structure Params (α : Type) where
  sx : List α
  sz : List α
  sxsy : List α
deriving Repr

/-- `self.params[key]` (`none`: `KeyError`) -/
def Params.get? {α : Type} (P : Params α) (key : String) : Option (List α) :=
  if key == "sx" then some P.sx else if key == "sz" then some P.sz else if key == "sxsy" then some P.sxsy else none

inductive Err
  | unsupported   -- ValueError "Unsupported gate …": the name is not in `gate_compiler`
  | index         -- IndexError: no target / strength index outside the parameter array
  | key           -- KeyError: parameter key unknown, or (at `set_coeffs`) no control Hamiltonian has the label
  | shape         -- a gate the model does not describe (exchange gate with more than two targets)
  | noPulse       -- `compile` returned `(None, None)`: `set_coeffs(None)` raises ValueError "Wrong type."
deriving DecidableEq, Repr

/-- one `Instruction(gate, tlist, pulse_info)` with a rectangular pulse: `tlist = dur` (a scalar),
`pulse_info = [(pre ++ str(idx), coeff)]` (`chan = none`: `pulse_info = []`, the IDLE instruction) -/
structure Instr (α : Type) where
  gate : Gate
  chan : Option (String × Int)
  coeff : α
  dur : α
deriving Repr

/-- what compiling one gate yields -/
inductive Step (α : Type)
  | instr (i : Instr α)
  | phase (θ : α)      -- `self.global_phase += θ`, returns `None`
  | nothing            -- returns `None`
deriving Repr

variable {α : Type} [Arith α]

/-- `l[i]` with a Python integer index that is known to be non-negative here (`none`: IndexError) -/
def idx? {β : Type} (l : List β) (i : Int) : Option β := if i < 0 then none else l[i.toNat]?

/-- `self.gate_compiler[gate.name](gate, self.args)` for rectangular pulses.
`pi`, `ev`: the number π and the value of a gate angle in the number type. -/
def compileGate (pi : α) (ev : Ang → α) (N : Nat) (P : Params α) (g : Gate) : Except Err (Step α) :=
  match gateCompiler.lookup g.name.toString with
  | none => .error .unsupported
  | some (.rotation op par) =>
    match g.targets.head? with
    | none => .error .index
    | some t =>
      match P.get? par with
      | none => .error .key
      | some l =>
        match l[t]? with
        | none => .error .index
        | some mx =>
          let area := rotArea pi (ev g.arg)
          .ok (.instr ⟨g, some (op, (t : Int)), pulseCoeff mx area, pulseDur mx area⟩)
  | some (.exchange num den) =>
    let ab : Option (Int × Int) := match g.targets with
      | [a] => some ((a : Int), (a : Int))
      | [a, b] => some ((a : Int), (b : Int))
      | _ => none
    match ab with
    | none => if g.targets.isEmpty then .error .index else .error .shape
    | some (a, b) =>
      let q1 := swapQ1 a b
      let q2 := swapQ2 a b
      match P.get? swapParamKey with
      | none => .error .key
      | some l =>
        match idx? l (swapStrengthIdx (N : Int) q1 q2) with
        | none => .error .index
        | some mx =>
          let area : α := Arith.ofFrac num den
          .ok (.instr ⟨g, some (swapPrefix, swapLabelIdx (N : Int) q1 q2), pulseCoeff mx area, pulseDur mx area⟩)
  | some .phase => .ok (.phase (ev g.arg))
  | some .noop => .ok .nothing
  | some .idle => .ok (.instr ⟨g, none, Arith.ofFrac 0 1, ev g.arg⟩)

/-- the gate loop of `GateCompiler.compile`: instructions in order and the accumulated global phase.
`drop`: instructions with `ins.duration == 0` are not kept (the source after fixes/C06-2.patch). -/
def compileLoop (drop : Bool) (pi : α) (ev : Ang → α) (N : Nat) (P : Params α) :
    List Gate → α → Except Err (List (Instr α) × α)
  | [], ph => .ok ([], ph)
  | g :: gs, ph =>
    match compileGate pi ev N P g with
    | .error e => .error e
    | .ok (.instr i) =>
      match compileLoop drop pi ev N P gs ph with
      | .error e => .error e
      | .ok (is, ph') => if drop && Arith.isZero i.dur then .ok (is, ph') else .ok (i :: is, ph')
    | .ok (.phase θ) => compileLoop drop pi ev N P gs (Arith.add ph θ)
    | .ok .nothing => compileLoop drop pi ev N P gs ph

/-- instructions and `compiler.global_phase` after `compile(gates)`; `phase0` is the value the compiler
object carried before the call (it only matters if `compile` does not reset it) -/
def compile (pi : α) (ev : Ang → α) (N : Nat) (P : Params α) (phase0 : α) (gs : List Gate) :
    Except Err (List (Instr α) × α) :=
  compileLoop dropsZeroDuration pi ev N P gs (if compileResetsPhase then Arith.ofFrac 0 1 else phase0)

/-- `processor.global_phase` after `SpinChain.load_circuit` (`old`: its value before the call) -/
def reportedPhase (old compilerPhase : α) : α := if handsBackPhase then compilerPhase else old

/-! ## which Hamiltonian a channel label denotes (`SpinChainModel._set_up_controls`) -/

/-- the control Hamiltonian behind a label -/
inductive Ham
  /-- `coef · σ_op` on one qubit -/
  | single (op : Pauli) (q : Int)
  /-- `coef · Σ sign·(σ_a ⊗ σ_b)` on the ordered pair `(q0, q1)` -/
  | pair (terms : List (Int × Pauli × Pauli)) (q0 q1 : Int)
deriving DecidableEq, Repr

/-- `model.get_control(label)` for `label = pre ++ str(n)`; `none` = `KeyError`.  The dictionary is
filled in the order sx, sz, g; a later key would overwrite an equal earlier one (the prefixes differ). -/
def control? (circular : Bool) (N : Nat) (pre : String) (n : Int) : Option Ham :=
  if pre == ctlG_prefix then
    (if 0 ≤ n ∧ n < numCoupling circular (N : Int) then
      some (.pair ctlG_terms (ctlG_qubits (N : Int) n).1 (ctlG_qubits (N : Int) n).2) else none)
  else if pre == ctlB_prefix then
    (if 0 ≤ n ∧ n < (N : Int) then some (.single ctlB_op (ctlB_qubit (N : Int) n)) else none)
  else if pre == ctlA_prefix then
    (if 0 ≤ n ∧ n < (N : Int) then some (.single ctlA_op (ctlA_qubit (N : Int) n)) else none)
  else none

/-- the qubits the Hamiltonian of a channel acts on -/
def Ham.qubits : Ham → List Int
  | .single _ q => [q]
  | .pair _ a b => [a, b]

/-- prefactor of the Hamiltonian of a channel prefix -/
def hamCoef (pi : α) (pre : String) : Option α :=
  if pre == ctlG_prefix then some (ctlG_coef pi)
  else if pre == ctlB_prefix then some (ctlB_coef pi)
  else if pre == ctlA_prefix then some (ctlA_coef pi)
  else none

/-- `Processor.set_coeffs` after `compile`: every channel label must name a control Hamiltonian -/
def labelsOk (circular : Bool) (N : Nat) (is : List (Instr α)) : Bool :=
  is.all fun i => match i.chan with
    | none => true
    | some (pre, n) => (control? circular N pre n).isSome

/-- `compile` + what `load_circuit` does with the result: `(None, None)` ⇒ ValueError (or, after
fixes/C06-1.patch, no pulse at all), unknown label ⇒ KeyError -/
def load (pi : α) (ev : Ang → α) (circular : Bool) (N : Nat) (P : Params α) (phase0 : α) (gs : List Gate) :
    Except Err (List (Instr α) × α) :=
  match compile pi ev N P phase0 gs with
  | .error e => .error e
  | .ok (is, ph) =>
    if is.isEmpty then (if loadsEmpty then .ok (is, ph) else .error .noPulse)
    else if labelsOk circular N is then .ok (is, ph) else .error .key

/-- the coupling label connects exactly the two given qubits -/
def connects (circular : Bool) (N : Nat) (n : Int) (a b : Nat) : Bool :=
  match control? circular N swapPrefix n with
  | some (.pair _ q0 q1) => (q0 == (a : Int) && q1 == (b : Int)) || (q0 == (b : Int) && q1 == (a : Int))
  | _ => false

/-- neighbours on the chain, or the wrap-around pair of a ring -/
def adjacent (circular : Bool) (N a b : Nat) : Bool :=
  a + 1 == b || b + 1 == a || (circular && ((a == 0 && b + 1 == N) || (b == 0 && a + 1 == N)))

/-! ## the `Rat` instance (driver): angles in units of π, `pi := 1` -/

def absQ (x : Rat) : Rat := if x < 0 then -x else x
def signQ (x : Rat) : Rat := if x < 0 then -1 else if x = 0 then 0 else 1

instance : Arith Rat where
  add := (· + ·)
  sub := (· - ·)
  mul := (· * ·)
  div := (· / ·)
  neg := fun x => -x
  abs := absQ
  sign := signQ
  ofFrac := fun n d => (n : Rat) / (d : Rat)
  isZero := fun x => x == 0

/-- a fixed angle `p8·π/8` in units of π (`none`: symbolic angle) -/
def angPi (a : Ang) : Option Rat := if a.isFixed then some ((a.p8 : Rat) / 8) else none

end QipVerif.SpinChain
