/-!
# Model of T1/T2 relaxation noise (`qutip_qip.noise.RelaxationNoise`, `process_noise`) — property C15

Import-free, executable.  Times are exact rationals `n/d` (`Frac`, `d > 0`).  Only the *squared*
prefactors of the collapse operators are modelled (`rate`), because only they occur in the
dissipator `D[√γ A] = γ D[A]`:

* `1/√t1 · destroy(d)`            → kind `destroy`, rate `1/t1`
* `1/√(2 T2_eff) · 2 · num(d)`    → kind `num`,     rate `4/(2 T2_eff) = 2/T2_eff = 2 (1/t2 − 1/(2 t1))`

`fixed = true` models the code with `fixes/C15-1.patch` (at `1/t2 = 1/(2 t1)` the dephasing
operator is skipped); `fixed = false` models the code as shipped (`ZeroDivisionError`).
-/
namespace QipVerif.Noise

/-- rational `n/d`; all values built here from inputs with `d > 0` keep `d > 0` -/
structure Frac where
  n : Int
  d : Int
deriving DecidableEq, Repr

namespace Frac
def lt (a b : Frac) : Bool := a.n * b.d < b.n * a.d
def isPos (a : Frac) : Bool := 0 < a.n
/-- `1/a` for `a.n ≠ 0`, denominator kept positive -/
def inv (a : Frac) : Frac := if a.n < 0 then ⟨-a.d, -a.n⟩ else ⟨a.d, a.n⟩
def sub (a b : Frac) : Frac := ⟨a.n * b.d - b.n * a.d, a.d * b.d⟩
def twice (a : Frac) : Frac := ⟨2 * a.n, a.d⟩
def half (a : Frac) : Frac := ⟨a.n, 2 * a.d⟩
end Frac

/-- a relaxation-time argument: `None`, a scalar, or a list whose entries may be `None` -/
inductive TSpec
  | none
  | scalar (q : Frac)
  | list (l : List (Option Frac))
deriving DecidableEq, Repr

inductive Err
  | invalidT   -- ValueError "Invalid relaxation time T=…" (`_T_to_list`)
  | t2gt2t1    -- ValueError "t1=…, t2=… does not fulfill 2*t1>t2"
  | zerodiv    -- ZeroDivisionError (shipped code at t2 = 2 t1; a zero entry inside a list)
  | index      -- IndexError: explicit target ≥ number of subsystems
deriving DecidableEq, Repr

/-- `RelaxationNoise._T_to_list(T, N)` — list entries are *not* checked for positivity -/
def tToList (T : TSpec) (N : Nat) : Except Err (List (Option Frac)) :=
  match T with
  | .none => .ok (List.replicate N none)
  | .scalar q => if q.isPos then .ok (List.replicate N (some q)) else .error .invalidT
  | .list l => if l.length = N then .ok l else .error .invalidT

inductive OpKind
  | destroy
  | num
  | user (id : Nat)
deriving DecidableEq, Repr

/-- one Lindblad operator handed to `systematic_noise.add_lindblad_noise`: target subsystem(s),
operator kind and dimension, squared prefactor (`none`: the prefactor is `nan`/`inf`, which
happens only for non-positive entries of a list) -/
structure COp where
  targets : List Nat
  kind : OpKind
  dim : Nat
  rate : Option Frac
deriving DecidableEq, Repr

/-- `(1/np.sqrt(t))**2`: finite only for `t > 0` -/
def invRate (t : Frac) : Option Frac := if t.isPos then some t.inv else none

/-- the pure-dephasing rate `1/T2_eff = 1/t2 − 1/(2 t1)` (both non-zero) -/
def dephasing (t1 t2 : Frac) : Frac := t2.inv.sub t1.inv.half

/-- body of the loop `for qu_ind in targets` for one subsystem of dimension `dim` -/
def qubitOps (fixed : Bool) (dim q : Nat) (t1 t2 : Option Frac) : Except Err (List COp) :=
  let ops1 : List COp := match t1 with
    | none => []
    | some a => [⟨[q], .destroy, dim, invRate a⟩]
  match t2 with
  | none => .ok ops1
  | some b =>
    match t1 with
    | some a =>
      if a.twice.lt b then .error .t2gt2t1
      else if b.n = 0 ∨ a.n = 0 then .error .zerodiv
      else
        let r := dephasing a b
        if r.n = 0 then (if fixed then .ok ops1 else .error .zerodiv)
        else .ok (ops1 ++ [⟨[q], .num, dim, if r.isPos then some r.twice else none⟩])
    | none => .ok (ops1 ++ [⟨[q], .num, dim, if b.isPos then some b.inv.twice else none⟩])

def loopTargets (fixed : Bool) (dims : List Nat) (l1 l2 : List (Option Frac)) :
    List Nat → Except Err (List COp)
  | [] => .ok []
  | q :: qs =>
    match l1[q]?, l2[q]?, dims[q]? with
    | some a, some b, some d =>
      match qubitOps fixed d q a b with
      | .error e => .error e
      | .ok ops =>
        match loopTargets fixed dims l1 l2 qs with
        | .error e => .error e
        | .ok rest => .ok (ops ++ rest)
    | _, _, _ => .error .index

/-- `RelaxationNoise(t1, t2, targets).get_noisy_pulses(dims)`: the Lindblad operators added -/
def relaxationOps (fixed : Bool) (dims : List Nat) (t1 t2 : TSpec) (targets : Option (List Nat)) :
    Except Err (List COp) :=
  let N := dims.length
  match tToList t1 N with
  | .error e => .error e
  | .ok l1 =>
    match tToList t2 N with
    | .error e => .error e
    | .ok l2 => loopTargets fixed dims l1 l2 (targets.getD (List.range N))

/-! ## `process_noise`: which noise objects contribute Lindblad operators -/

inductive NoiseSpec
  | relax (t1 t2 : TSpec) (targets : Option (List Nat))
  /-- `DecoherenceNoise(c_ops, targets, all_qubits)`: the operators are opaque, numbered `ids` -/
  | decoherence (ids : List Nat) (targets : List Nat) (allQubits : Bool)
  /-- ControlAmpNoise / RandomNoise / ZZCrossTalk: coherent noise only, no Lindblad operator -/
  | coherent
deriving Repr

def noiseOps (fixed : Bool) (dims : List Nat) : NoiseSpec → Except Err (List COp)
  | .relax t1 t2 tg => relaxationOps fixed dims t1 t2 tg
  | .decoherence ids tg allq =>
    .ok (ids.flatMap fun id =>
      if allq then (List.range dims.length).map (fun q => (⟨[q], .user id, 2, some ⟨1, 1⟩⟩ : COp))
      else [⟨tg, .user id, 0, some ⟨1, 1⟩⟩])
  | .coherent => .ok []

def collect (fixed : Bool) (dims : List Nat) : List NoiseSpec → Except Err (List COp)
  | [] => .ok []
  | x :: xs =>
    match noiseOps fixed dims x with
    | .error e => .error e
    | .ok ops =>
      match collect fixed dims xs with
      | .error e => .error e
      | .ok rest => .ok (ops ++ rest)

/-- `process_noise(pulses, noise_list, dims, t1, t2, device_noise)`: the Lindblad operators of
the returned systematic-noise pulse.  Without `device_noise` relaxation / decoherence objects are
skipped altogether (not even validated) and no systematic-noise pulse is returned. -/
def processNoise (fixed : Bool) (dims : List Nat) (noises : List NoiseSpec) (t1 t2 : TSpec)
    (deviceNoise : Bool) : Except Err (List COp) :=
  if !deviceNoise then .ok []
  else
    let extra := if t1 ≠ .none ∨ t2 ≠ .none then [NoiseSpec.relax t1 t2 none] else []
    collect fixed dims (noises ++ extra)

/-! ## Variant with `fixes/C15-3.patch`: `_T_to_list` checks every entry of a list

`strict = true` models `_T_to_list` with the entry check (a list of the right length is accepted only if every entry is `None`
or positive); `strict = false` is the code as shipped (`tToList`, entries unchecked). -/

def entriesPos (l : List (Option Frac)) : Bool :=
  l.all fun
    | none => true
    | some q => q.isPos

def tToListS (strict : Bool) (T : TSpec) (N : Nat) : Except Err (List (Option Frac)) :=
  match T with
  | .list l => if l.length = N then (if strict && !entriesPos l then .error .invalidT else .ok l) else .error .invalidT
  | T => tToList T N

def relaxationOpsS (strict fixed : Bool) (dims : List Nat) (t1 t2 : TSpec) (targets : Option (List Nat)) :
    Except Err (List COp) :=
  let N := dims.length
  match tToListS strict t1 N with
  | .error e => .error e
  | .ok l1 =>
    match tToListS strict t2 N with
    | .error e => .error e
    | .ok l2 => loopTargets fixed dims l1 l2 (targets.getD (List.range N))

def noiseOpsS (strict fixed : Bool) (dims : List Nat) : NoiseSpec → Except Err (List COp)
  | .relax t1 t2 tg => relaxationOpsS strict fixed dims t1 t2 tg
  | x => noiseOps fixed dims x

def collectS (strict fixed : Bool) (dims : List Nat) : List NoiseSpec → Except Err (List COp)
  | [] => .ok []
  | x :: xs =>
    match noiseOpsS strict fixed dims x with
    | .error e => .error e
    | .ok ops =>
      match collectS strict fixed dims xs with
      | .error e => .error e
      | .ok rest => .ok (ops ++ rest)

def processNoiseS (strict fixed : Bool) (dims : List Nat) (noises : List NoiseSpec) (t1 t2 : TSpec)
    (deviceNoise : Bool) : Except Err (List COp) :=
  if !deviceNoise then .ok []
  else
    let extra := if t1 ≠ .none ∨ t2 ≠ .none then [NoiseSpec.relax t1 t2 none] else []
    collectS strict fixed dims (noises ++ extra)

end QipVerif.Noise
