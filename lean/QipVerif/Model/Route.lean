/-!
# Model of `qutip_qip.transpiler.chain.to_chain_structure` and `QubitCircuit.adjacent_gates` (property C07)

Import-free, executable.  A circuit is a list of gates `(name, controls, targets, arg, extra)`.
`arg` is an opaque label of `arg_value` (`0` = `None`), `extra` an opaque label of everything
else a gate object carries (classical controls, control value, …; `0` = nothing); the router
never looks into them.

The code is modelled as written: one `while` loop per path (`loop`, with fuel `end - start`,
which is the number of iterations at most), the temporary circuit of the backward path and its
re-indexing with the three-way split on the running gate counter `j`.

Four defects of the code at the pinned commit are repaired by `fixes/C07-{1,2,3,4}.patch`;
`Variant` selects, per defect, the behaviour before (`false`) or after (`true`) the patch, so
that the same definitions model both the code as found (`Variant.old`) and the repaired code
(`Variant.rep cc`, which is what the property theorems are about).  A fifth flag `ccFix`
(`fixes/C07-5.patch`) says whether the re-emitted gate keeps the classical condition (`extra`) of
the routed gate; the harness reads it from the source, the theorems cover both values
(`Variant.fixed = Variant.rep false`: the condition is dropped; `Variant.rep true`: it is kept).
-/
namespace QipVerif.Route

/-- Gate names the router distinguishes; every other `Gate` is `other k`, a `Measurement`
object is `meas k` (`k` opaque). -/
inductive GName
  | CNOT | CSIGN | SWAP | ISWAP | SQRTISWAP | SQRTSWAP | BERKELEY | SWAPalpha
  /-- routed since `fixes/C13-3.patch` (`ordered_gates`); any other gate before -/
  | RZX
  | other (k : Nat)
  | meas (k : Nat)
deriving DecidableEq, Repr

/-- `gate.name == "CNOT" or gate.name == "CSIGN"` -/
def GName.isCtl : GName → Bool
  | .CNOT | .CSIGN => true
  | _ => false

/-- `gate.name in swap_gates` -/
def GName.isSwp : GName → Bool
  | .SWAP | .ISWAP | .SQRTISWAP | .SQRTSWAP | .BERKELEY | .SWAPalpha => true
  | _ => false

/-- `gate.name in ordered_gates`: two-target gates that distinguish their targets -/
def GName.isOrd : GName → Bool
  | .RZX => true
  | _ => false

structure Gate where
  name : GName
  /-- `[]` also stands for Python's `None` -/
  controls : List Nat
  targets : List Nat
  arg : Nat
  extra : Nat
deriving DecidableEq, Repr

inductive Setup | linear | circular | other
deriving DecidableEq, Repr

inductive Err
  /-- `IndexError` / `TypeError` from `gate.targets[0]`, `gate.controls[0]`, `gate.targets[1]` -/
  | shape
  /-- `NotImplementedError` of `adjacent_gates` -/
  | notImplemented
  /-- `ValueError` of the gate constructor ("requires two targets" / "requires one target") -/
  | value
deriving DecidableEq, Repr

/-- Which of the repairs are in place. -/
structure Variant where
  /-- C07-1: `% N` on every re-indexed qubit of the backward path -/
  modFix : Bool
  /-- C07-2: control/target roles on the odd-length backward path -/
  roleFix : Bool
  /-- C07-3: `arg_value` of the routed exchange-type gate is kept -/
  argFix : Bool
  /-- C07-4: a `Measurement` is appended as it is (before: wrapped into a `Gate` whose *name*
  is the measurement object and which has no targets) -/
  measFix : Bool
  /-- C07-5: the re-emitted gate keeps the classical condition of the routed gate
  (`**_condition(gate)`); before, every routed gate came out unconditional -/
  ccFix : Bool
  /-- C13-3: RZX is routed (like an exchange-type gate, its two targets keeping their order);
  before, the router passed it through like any gate it does not know -/
  rzFix : Bool
deriving DecidableEq, Repr

def Variant.old : Variant := ⟨false, false, false, false, false, false⟩
/-- the code with `fixes/C07-{1,2,3,4}.patch`; `cc` / `rz` = whether `fixes/C07-5.patch` /
`fixes/C13-3.patch` are in place too -/
def Variant.rep (cc rz : Bool) : Variant := ⟨true, true, true, true, cc, rz⟩
def Variant.fixed : Variant := Variant.rep false false

/-- the label of the classical condition handed to the re-emitted gate (`0` = none) -/
def Variant.cond (v : Variant) (g : Gate) : Nat := if v.ccFix then g.extra else 0

/-- `add_gate("SWAP", targets=[i, j])` -/
def swapG (i j : Nat) : Gate := ⟨.SWAP, [], [i, j], 0, 0⟩

/-- `add_gate(name, targets=[..], controls=[..], <condition x>)` on the neighbours `lo < hi`;
`ctlHi` says whether the control is the upper one. -/
def mkCtl (nm : GName) (x : Nat) (ctlHi : Bool) (lo hi : Nat) : Gate :=
  if ctlHi then ⟨nm, [hi], [lo], 0, x⟩ else ⟨nm, [lo], [hi], 0, x⟩

/-- `add_gate(name, [lo, hi], arg_value=.., <condition x>)` -/
def mkSwp (nm : GName) (arg x : Nat) (lo hi : Nat) : Gate := ⟨nm, [], [lo, hi], arg, x⟩

/-- `add_gate(name, [hi, lo] if flip else [lo, hi], arg_value=.., <condition x>)` (C13-3) -/
def mkOrd (nm : GName) (arg x : Nat) (flip : Bool) (lo hi : Nat) : Gate :=
  if flip then ⟨nm, [], [hi, lo], arg, x⟩ else ⟨nm, [], [lo, hi], arg, x⟩

/-- The `while i < end` loop shared by all paths.  `mkA` builds the routed gate in the
"distance odd" case, `mkB` in the "distance even" case (arguments: lower, upper qubit).
`s + e - i - i` is truncated subtraction: Python's value is negative exactly when this is `0`,
and then neither comparison with `1` or `2` holds in either reading. -/
def loop (mkA mkB : Nat → Nat → Gate) (s e : Nat) : Nat → Nat → List Gate
  | 0, _ => []
  | fuel + 1, i =>
    if i < e then
      if s + e - i - i = 1 ∧ (e - s + 1) % 2 = 0 then
        mkA i (i + 1) :: loop mkA mkB s e fuel (i + 1)
      else if s + e - i - i = 2 ∧ (e - s + 1) % 2 = 1 then
        swapG i (i + 1) :: mkB (i + 1) (i + 2) :: swapG i (i + 1) :: loop mkA mkB s e fuel (i + 2)
      else
        swapG i (i + 1) :: swapG (s + e - i - 1) (s + e - i) :: loop mkA mkB s e fuel (i + 1)
    else []

/-- forward path `start → end` -/
def fwd (mkA mkB : Nat → Nat → Gate) (s e : Nat) : List Gate := loop mkA mkB s e (e - s) s

/-- the temporary circuit of the backward path: `L = N - end + start` -/
def tempCirc (mkA mkB : Nat → Nat → Gate) (L : Nat) : List Gate := loop mkA mkB 0 L L 0

/-- `end + q`, with `% N` after C07-1 -/
def lowIdx (v : Variant) (N e q : Nat) : Nat := if v.modFix then (e + q) % N else e + q

/-- Re-indexing of one gate of the temporary circuit in the CNOT/CSIGN branch; `j` is the
running counter (`j < N - end - 2` ⇔ `j + e + 2 < N` over the integers).  After C07-5 the copy
carries the condition of the temporary gate (the helper SWAPs have none). -/
def reidxCtl1 (v : Variant) (N e j : Nat) (g : Gate) : Gate :=
  if g.name.isCtl then
    match g.targets, g.controls with
    | t :: _, c :: _ =>
      if j + e + 2 < N then ⟨g.name, [lowIdx v N e c], [lowIdx v N e t], 0, v.cond g⟩
      else if j + e + 2 = N then ⟨g.name, [(e + c) % N], [lowIdx v N e t], 0, v.cond g⟩
      else ⟨g.name, [(e + c) % N], [(e + t) % N], 0, v.cond g⟩
    | _, _ => g
  else
    match g.targets with
    | t0 :: t1 :: _ =>
      if j + e + 2 < N then ⟨g.name, [], [lowIdx v N e t0, lowIdx v N e t1], 0, v.cond g⟩
      else if j + e + 2 = N then ⟨g.name, [], [lowIdx v N e t0, (e + t1) % N], 0, v.cond g⟩
      else ⟨g.name, [], [(e + t0) % N, (e + t1) % N], 0, v.cond g⟩
    | _ => g

/-- Re-indexing of one gate of the temporary circuit in the exchange-gate branch.  The
temporary gate's `arg` is what `arg_value=gate.arg_value` copies after C07-3 (`0` before). -/
def reidxSwp1 (v : Variant) (N e j : Nat) (g : Gate) : Gate :=
  match g.targets with
  | t0 :: t1 :: _ =>
    if j + e + 2 < N then ⟨g.name, [], [lowIdx v N e t0, lowIdx v N e t1], g.arg, v.cond g⟩
    else if j + e + 2 = N then ⟨g.name, [], [lowIdx v N e t0, (e + t1) % N], g.arg, v.cond g⟩
    else ⟨g.name, [], [(e + t0) % N, (e + t1) % N], g.arg, v.cond g⟩
  | _ => g

/-- `j = 0; for gate in temp.gates: …; j = j + 1` -/
def reidxFrom (f : Nat → Gate → Gate) : Nat → List Gate → List Gate
  | _, [] => []
  | j, g :: gs => f j g :: reidxFrom f (j + 1) gs

/-- CNOT / CSIGN with `controls[0] = c`, `targets[0] = t`; `g` is the gate object itself. -/
def routeCtl (v : Variant) (N : Nat) (setup : Setup) (g : Gate) (c t : Nat) : Except Err (List Gate) :=
  let s := min t c
  let e := max t c
  let ce := e == c
  let x := v.cond g
  if setup = .linear ∨ (setup = .circular ∧ e - s ≤ N / 2) then
    .ok (fwd (mkCtl g.name x ce) (mkCtl g.name x ce) s e)
  else if e - s + 1 < N then
    .ok (reidxFrom (reidxCtl1 v N e) 0
      (tempCirc (mkCtl g.name x (if v.roleFix then !ce else ce)) (mkCtl g.name x (!ce)) (N + s - e)))
  else if e - s + 1 = N then
    -- `add_gate(gate.name, gate.targets, gate.controls)` builds a new CNOT/CSIGN object from the
    -- full lists; its constructor insists on one control and one target
    if g.controls.length + g.targets.length = 2 then .ok [⟨g.name, g.controls, g.targets, 0, v.cond g⟩]
    else .error .value
  else .ok []

/-- exchange-type gate with `targets[0] = t0`, `targets[1] = t1` -/
def routeSwp (v : Variant) (N : Nat) (setup : Setup) (g : Gate) (t0 t1 : Nat) : List Gate :=
  let s := min t0 t1
  let e := max t0 t1
  let a := if v.argFix then g.arg else 0
  let x := v.cond g
  -- `ordered`, `flip_fwd`, `flip_bwd` of C13-3 (all `false` for the exchange-type gates)
  let ord := v.rzFix && g.name.isOrd
  let ff := ord && (t0 == e)
  let fb := ord && (t0 == s)
  if setup = .linear ∨ (setup = .circular ∧ e - s ≤ N / 2) then
    fwd (mkOrd g.name a x ff) (mkOrd g.name a x ff) s e
  else
    reidxFrom (reidxSwp1 v N e) 0 (tempCirc (mkOrd g.name a x fb) (mkOrd g.name a x fb) (N + s - e))

def isMeas (g : Gate) : Bool := match g.name with | .meas _ => true | _ => false

/-- one iteration of `for gate in qc.gates` -/
def routeGateV (v : Variant) (N : Nat) (setup : Setup) (g : Gate) : Except Err (List Gate) :=
  if g.name.isCtl then
    match g.targets, g.controls with
    | t :: _, c :: _ => routeCtl v N setup g c t
    | _, _ => .error .shape
  else if g.name.isSwp || (v.rzFix && g.name.isOrd) then
    match g.targets with
    | t0 :: t1 :: _ => .ok (routeSwp v N setup g t0 t1)
    | _ => .error .shape
  else if isMeas g && !v.measFix then .ok [⟨g.name, [], [], 0, 0⟩]
  else .ok [g]

/-- `to_chain_structure(qc, setup).gates` for `qc.N = N`, `qc.gates = gs` -/
def toChainV (v : Variant) (N : Nat) (setup : Setup) : List Gate → Except Err (List Gate)
  | [] => .ok []
  | g :: gs =>
    match routeGateV v N setup g, toChainV v N setup gs with
    | .ok a, .ok b => .ok (a ++ b)
    | .error e, _ => .error e
    | _, .error e => .error e

/-- one iteration of the loop of `adjacent_gates` -/
def adjGateV (v : Variant) (g : Gate) : Except Err (List Gate) :=
  if g.name.isCtl then
    match g.targets, g.controls with
    | t :: _, c :: _ =>
      let ce := max t c == c
      .ok (fwd (mkCtl g.name (v.cond g) ce) (mkCtl g.name (v.cond g) ce) (min t c) (max t c))
    | _, _ => .error .shape
  else if g.name.isSwp then
    match g.targets with
    | t0 :: t1 :: _ =>
      let a := if v.argFix then g.arg else 0
      .ok (fwd (mkSwp g.name a (v.cond g)) (mkSwp g.name a (v.cond g)) (min t0 t1) (max t0 t1))
    | _ => .error .shape
  else .error .notImplemented

def adjLoopV (v : Variant) : List Gate → Except Err (List Gate)
  | [] => .ok []
  | g :: gs =>
    match adjGateV v g with
    | .error e => .error e          -- the first failing gate raises
    | .ok a =>
      match adjLoopV v gs with
      | .ok b => .ok (a ++ b)
      | .error e => .error e

/-- `QubitCircuit.adjacent_gates().gates` -/
def adjacentGatesV (v : Variant) (gs : List Gate) : Except Err (List Gate) :=
  if gs.any isMeas then .error .notImplemented else adjLoopV v gs

/-! The repaired code (`fixes/C07-1..4`; the classical condition of a routed gate is dropped —
`routeGateV (Variant.rep true)` etc. is the code with `fixes/C07-5.patch` as well). -/
def routeGate := routeGateV Variant.fixed
def toChain := toChainV Variant.fixed
def adjacentGates := adjacentGatesV Variant.fixed

end QipVerif.Route
