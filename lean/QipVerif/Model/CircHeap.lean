/-!
# Circuit objects and their `user_gates` dictionaries across ONE process (property C09, cross-object histories)

Import-free, executable.  `QubitCircuit._get_gate_unitary(gate)` prefers `self.user_gates[gate.name]` over the library
matrix, so which matrix a circuit reports for a library name depends on the dictionary OBJECT the circuit holds.  The
constructor (circuit.py, rule regenerated into `Gen.G.circuitDefaultUserGates`):

    def __init__(self, N, …, user_gates=None, …):     # every default is an immutable literal
        …
        if user_gates is None: self.user_gates = {}   # a NEW dictionary object per circuit
        else:                  self.user_gates = user_gates   # the SAME object the caller holds (a dict), else ValueError

**A fresh circuit** is an object returned by `QubitCircuit(N)` with `user_gates` not given: its dictionary is a new,
empty object that no other object references.  The only writes to a circuit's dictionary are the caller's own
`qc.user_gates[name] = …` and `qc.add_circuit(block)` (which copies the block's entries into `qc.user_gates`, keeping
existing keys unless `overwrite_user_gates`); both go through that circuit (or through a circuit / caller that was GIVEN the
same dictionary object on purpose).

A custom matrix is identified by a tag (`Nat`); `resolve` = `none` means "the library matrix of the name".
-/
namespace QipVerif.CircHeap

abbrev Dict := List (String × Nat)

structure Heap where
  dicts : List Dict        -- dictionary objects, by creation order
  circ : List Nat          -- circuit objects, by creation order ↦ the index of the dictionary object it holds
deriving DecidableEq, Repr

inductive Op
  | newDefault                                      -- `QubitCircuit(N)`
  | newDict (entries : Dict)                        -- the caller creates a dict literal
  | newWith (d : Nat)                               -- `QubitCircuit(N, user_gates=<dictionary object d>)`
  | setUser (c : Nat) (name : String) (tag : Nat)   -- `circuit_c.user_gates[name] = <custom>`
  | addCircuit (dst src : Nat) (overwrite : Bool)   -- `circuit_dst.add_circuit(circuit_src, overwrite_user_gates=…)`
deriving DecidableEq, Repr

/-- `d[k] = v` -/
def setKey (d : Dict) (k : String) (v : Nat) : Dict :=
  if (d.lookup k).isSome then d.map (fun p => if p.1 = k then (k, v) else p) else d ++ [(k, v)]

/-- the inheritance loop of `add_circuit` -/
def merge (dst src : Dict) (overwrite : Bool) : Dict :=
  src.foldl (fun acc p => if (acc.lookup p.1).isSome && !overwrite then acc else setKey acc p.1 p.2) dst

def step (h : Heap) : Op → Heap
  | .newDefault => ⟨h.dicts ++ [[]], h.circ ++ [h.dicts.length]⟩
  | .newDict es => ⟨h.dicts ++ [es], h.circ⟩
  | .newWith d => if d < h.dicts.length then ⟨h.dicts, h.circ ++ [d]⟩ else h
  | .setUser c name tag =>
    match h.circ[c]? with
    | some d =>
      match h.dicts[d]? with
      | some D => ⟨h.dicts.set d (setKey D name tag), h.circ⟩
      | none => h
    | none => h
  | .addCircuit dst src ov =>
    match h.circ[dst]?, h.circ[src]? with
    | some dd, some ds =>
      match h.dicts[dd]?, h.dicts[ds]? with
      | some Dd, some Ds => ⟨h.dicts.set dd (merge Dd Ds ov), h.circ⟩
      | _, _ => h
    | _, _ => h

def run (h : Heap) (ops : List Op) : Heap := ops.foldl step h

/-- what `circuit_c._get_gate_unitary` does for a gate called `name`: `some tag` = the custom matrix, `none` = the library -/
def resolve (h : Heap) (c : Nat) (name : String) : Option Nat :=
  match h.circ[c]? with
  | some d =>
    match h.dicts[d]? with
    | some D => D.lookup name
    | none => none
  | none => none

/-- an operation that writes (or hands out) the dictionary object `dn` other than through the circuit `n` -/
def Op.avoids (n dn : Nat) : Op → Bool
  | .newDefault => true
  | .newDict _ => true
  | .newWith d => d != dn
  | .setUser c _ _ => c != n
  | .addCircuit dst _ _ => dst != n

end QipVerif.CircHeap
