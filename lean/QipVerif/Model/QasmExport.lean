import QipVerif.Gen.QasmTables
/-!
# Model of the OpenQASM exporter (property C10)

`QasmOutput._qasm_output`, `QubitCircuit._to_qasm`, `Gate._to_qasm`, `Measurement._to_qasm`,
`QasmOutput._qasm_str` (its test on the parameters and its `isinstance` branch),
`_qasm_defns` / `_qasm_defn_resolve`.  Tables and format strings come from
`Gen/QasmTables.lean`, regenerated from the source on every check.

Numbers are carried as the text Python gives them (sign + unsigned text): the conversion of a
number to text (`"{}".format(x)`, `str(x)`) is an external function of the model, supplied by the
harness; the model decides truthiness from the digits.
-/
namespace QipVerif.Qasm.Export
open QipVerif.Qasm

/-- a real number as Python prints it -/
structure Num where
  neg : Bool
  txt : Str          -- unsigned text: `3.14`, `1e-20`, `2`, `inf`
deriving DecidableEq, Repr

def Num.str (x : Num) : Str := if x.neg then '-' :: x.txt else x.txt

/-- Python truthiness of a number (`0`, `0.0`, `-0.0` are falsy) -/
def Num.truthy (x : Num) : Bool := !(isPyNum x.txt && pyNumIsZero x.txt)

/-- `arg_value` of a gate -/
inductive ArgVal where
  | none
  | num (x : Num)
  /-- a container: its Python type name (`list`, `tuple`, `ndarray`), `str` of the whole
  container, and its elements -/
  | seq (kind : Str) (whole : Str) (xs : List Num)
deriving DecidableEq, Repr

structure Gate where
  name : Str
  targets : Option (List Nat)
  controls : Option (List Nat)
  arg : ArgVal
  cctrl : Option (List Nat)      -- classical_controls
  /-- `control_value` of the gate object (`None`: not given). These six fields are everything the exporter reads of a
  gate object; `control_value` is read only on a tree with `Gen.exportChecksCv`. The class of the object and its
  `target_gate` are never read: the QASM gate is chosen by `name` alone. -/
  cv : Option Nat
deriving DecidableEq, Repr

inductive Op where
  | gate (g : Gate)
  | meas (targets : List Nat) (store : Option Nat)
deriving DecidableEq, Repr

structure Circuit where
  N : Nat
  numCbits : Nat
  ops : List Op
deriving DecidableEq, Repr

/-- exception classes of the exporter -/
inductive Err where
  | notImpl   -- NotImplementedError: no QASM definition / classically controlled gate
  | attr      -- AttributeError: `_qasm_defn_resolve` calls a method that does not exist
  | type      -- TypeError: `controls + None`
  | index     -- IndexError: `q_targets[0]` / `targets[0]` of an empty list
  | value     -- ValueError: truth value of an array with more than one element
deriving DecidableEq, Repr

/-- `QasmOutput.output(line, n)` -/
def output (lines : List Str) (line : Str) (n : Nat) : List Str :=
  (if line.isEmpty then lines else lines ++ [line]) ++ List.replicate n []

/-- `"q[{}]".format(reg)` joined by commas -/
def qRegs (idx : List Nat) : Str :=
  intercal [','] (idx.map fun i => cs!"q[" ++ natDigits i ++ [']'])

/-- the test `if q_args:` / `if q_args is not None:` of `_qasm_str` -/
def argPresent : ArgVal → Except Err Bool
  | .none => .ok false
  | .num x => .ok (Gen.argTestNotNone || x.truthy)
  | .seq kind _ xs =>
    if Gen.argTestNotNone then .ok true
    else if kind == cs!"ndarray" then
      match xs with
      | [x] => .ok x.truthy
      | _ => .error .value     -- empty arrays, too (NumPy >= 2.2)
    else .ok (!xs.isEmpty)

/-- text put between the parentheses -/
def argText : ArgVal → Str
  | .none => cs!"None"
  | .num x => x.str
  | .seq kind whole xs =>
    if Gen.seqKinds.contains kind then intercal [','] (xs.map Num.str) else whole

/-- `QasmOutput._qasm_str(q_name, q_controls, q_targets, q_args)` for integer registers -/
def qasmStr (name : Str) (controls targets : Option (List Nat)) (arg : ArgVal) : Except Err Str :=
  let cs := match controls with
    | some (c :: l) => c :: l
    | _ => []
  match targets with
  | none => .error .type
  | some [] => .error .index
  | some ts =>
    let regs := qRegs (cs ++ ts)
    match argPresent arg with
    | .error e => .error e
    | .ok true => .ok (name ++ '(' :: argText arg ++ cs!") " ++ regs ++ [';'])
    | .ok false => .ok (name ++ ' ' :: regs ++ [';'])

def lookup (m : List (Str × Str)) (k : Str) : Option Str :=
  (m.find? (fun e => e.1 == k)).map (·.2)

def lowerChar (c : Char) : Char := if isUpper c then Char.ofNat (c.toNat + 32) else c
/-- `str.lower()` on ASCII -/
def lower (s : Str) : Str := s.map lowerChar

/-- `QasmOutput._qasm_defns(gate)`: new name map and the lines it emits -/
def qasmDefns (m : List (Str × Str)) (name : Str) : Except Err (List (Str × Str) × List Str) :=
  match lookup Gen.qasmDefns name with
  | some d => .ok (m ++ [(name, lower name)],
                   [Gen.defnCommentFmt.1 ++ name ++ Gen.defnCommentFmt.2, d])
  | none => if Gen.resolveAttrError.contains name then .error .attr else .error .notImpl

/-- first loop of `QubitCircuit._to_qasm`: definitions for gates without a QASM name -/
def defsLoop : List Op → List (Str × Str) → Except Err (List (Str × Str) × List Str)
  | [], m => .ok (m, [])
  | .meas .. :: ops, m => defsLoop ops m
  | .gate g :: ops, m =>
    if (lookup m g.name).isSome then defsLoop ops m
    else match qasmDefns m g.name with
      | .error e => .error e
      | .ok (m', ls) =>
        match defsLoop ops m' with
        | .error e => .error e
        | .ok (m'', ls') => .ok (m'', ls ++ ls')

/-- `control_value` is None, or there are controls and it is 2 ** len(controls) - 1 ("all control qubits 1") -/
def cvOk (g : Gate) : Bool :=
  match g.cv with
  | none => true
  | some v =>
    match g.controls with
    | some (c :: cs) => v == 2 ^ (c :: cs).length - 1
    | _ => false

/-- `Gate._to_qasm` -/
def gateLine (m : List (Str × Str)) (g : Gate) : Except Err Str :=
  match lookup m g.name with
  | none => .error .notImpl
  | some q =>
    if Gen.exportChecksCv && !cvOk g then .error .notImpl else
    match g.cctrl with
    | some (_ :: _) => .error .notImpl
    | _ => qasmStr q g.controls g.targets g.arg

def optNat : Option Nat → Str
  | some n => natDigits n
  | none => cs!"None"

/-- `Measurement._to_qasm` -/
def measLine (targets : List Nat) (store : Option Nat) : Except Err Str :=
  match targets with
  | [] => .error .index
  | t :: _ => .ok (Gen.measureFmt.1 ++ natDigits t ++ Gen.measureFmt.2.1 ++ optNat store ++ Gen.measureFmt.2.2)

def opLine (m : List (Str × Str)) : Op → Except Err Str
  | .gate g => gateLine m g
  | .meas ts st => measLine ts st

/-- second loop of `QubitCircuit._to_qasm` -/
def opsLoop (m : List (Str × Str)) : List Op → Except Err (List Str)
  | [] => .ok []
  | op :: ops =>
    match opLine m op with
    | .error e => .error e
    | .ok l => match opsLoop m ops with
      | .error e => .error e
      | .ok ls => .ok (l :: ls)

def headerText : List Str := Gen.headerLines.foldl (fun ls (l, n) => output ls l n) []

def declLines (c : Circuit) : List Str :=
  let l1 := output [] (Gen.qregFmt.1 ++ natDigits c.N ++ Gen.qregFmt.2) 0
  let l2 := if c.numCbits ≠ 0 then output l1 (Gen.cregFmt.1 ++ natDigits c.numCbits ++ Gen.cregFmt.2) 0 else l1
  output l2 [] 1

/-- `QasmOutput._qasm_output(qc)` on a circuit whose numbers are already given as the texts
that are printed: the emitted lines or the exception -/
def exportCore (c : Circuit) : Except Err (List Str) :=
  match defsLoop c.ops Gen.gateNameToQasm with
  | .error e => .error e
  | .ok (m, defs) =>
    match opsLoop m c.ops with
    | .error e => .error e
    | .ok ls => .ok (headerText ++ declLines c ++ defs ++ ls)

/-! ## `_qasm_real`: the text of a parameter

```
text = "{}".format(value)
mantissa, exp, exponent = text.partition("e")
if exp and mantissa.lstrip("-").isdigit():
    text = mantissa + ".0e" + exponent
```
-/

/-- `text.partition("e")`: the text before the first `e`, and the text after it
(`none`: there is no `e`) -/
def partE : Str → Str × Option Str
  | [] => ([], none)
  | c :: cs => if c == 'e' then ([], some cs) else (c :: (partE cs).1, (partE cs).2)

/-- `_qasm_real` on a text: if there is an `e` and the text before the first `e`, leading `-` signs
stripped, is a non-empty string of digits, `.0` is inserted before that `e`
(`1e-20` ↦ `1.0e-20`; `1.5e-07`, `0.25`, `3`, `inf`, `(1e-20, 2)` stay as they are).
`str.isdigit` is modelled on ASCII (the harness passes ASCII only). -/
def padExp (s : Str) : Str :=
  match partE s with
  | (m, some rest) =>
    let d := m.dropWhile (· == '-')
    if !d.isEmpty && d.all isDigit then m ++ '.' :: '0' :: 'e' :: rest else s
  | (_, none) => s

/-- the number as the exporter prints it.  The sign is carried apart: `lstrip("-")` removes it
together with any further leading `-` of the text, so the rule on `-` ++ text is the rule on the
unsigned text. -/
def Num.out (x : Num) : Num := if Gen.exportPadsExponent then ⟨x.neg, padExp x.txt⟩ else x

/-- the parameter value as it is printed: `_qasm_real` is applied to every element of a container
of a joined type, and to the text of any other value (a scalar, or a container of another type) -/
def ArgVal.out : ArgVal → ArgVal
  | .none => .none
  | .num x => .num x.out
  | .seq kind whole xs =>
    .seq kind (if Gen.exportPadsExponent then padExp whole else whole) (xs.map Num.out)

def Gate.out (g : Gate) : Gate := { g with arg := g.arg.out }

def Op.out : Op → Op
  | .gate g => .gate g.out
  | .meas ts st => .meas ts st

/-- the circuit with every parameter replaced by its printed text
(the identity unless `_qasm_str` uses `_qasm_real`, flag `Gen.exportPadsExponent`) -/
def Circuit.out (c : Circuit) : Circuit := ⟨c.N, c.numCbits, c.ops.map Op.out⟩

/-- **`QasmOutput._qasm_output(qc)`**: the emitted lines or the exception.

`_qasm_str` applies `_qasm_real` to each parameter it prints and to nothing else: the presence
test `q_args is not None` (or, before the first repair, truthiness of the *value*) and the
`isinstance` branch do not look at the text, the loops over the gates only read names.  Printing
the circuit is therefore `exportCore` on the circuit whose numbers carry their printed texts;
`_qasm_real` keeps the truthiness the model derives from a text
(`Lemmas/QasmExportPad.lean`: `argPresent_out`), so the tests give the same answers on both. -/
def exportCircuit (c : Circuit) : Except Err (List Str) := exportCore c.out

end QipVerif.Qasm.Export
