import QipVerif.Model.Ctrl
/-!
# Model of the CONSTRUCTORS of the gate classes (operations/gateclass.py) — property C09, constructor arguments

Import-free, executable.  A request is a keyword call `Class(targets=…, controls=…, arg_value=…, control_value=…)`
(`QubitCircuit.add_gate(name, …)` makes exactly this call with every absent argument replaced by `None`,
`Req.viaCircuit`).  The model says whether the `__init__` chain along the MRO refuses the request and, if not, what the
object carries and which matrix `get_compact_qobj()` builds:

    Gate.__init__                 a bare integer for targets / controls becomes a one-element list; nothing is refused
                                  (integer indices only in this model); control_value is stored
    SingleQubitGate.__init__      ValueError unless exactly one target; ValueError if `self.controls` is non-empty
    TwoQubitGate.__init__         ValueError unless `len(self.get_all_qubits()) == 2`  (controls + targets)
    _OneControlledGate.__init__   the guard on control_value (`Policy`, regenerated): a given value outside `accepted` is a
                                  ValueError, no value means `dflt`; then ControlledGate.__init__, whose super() is TwoQubitGate
    ControlledGate.__init__       Gate.__init__ (through the MRO), `self.controls = [controls]` unless it is a list, then the
                                  target gate is built from `targets` and the remaining keyword arguments (a single-qubit
                                  class: its own guards and required arguments apply)
    ControlledGate.get_compact_qobj
                                  controlled_gate(U = target gate's matrix, controls = range(m), targets = [m],
                                  control_value = self.control_value)   — `Ctrl.controlledGate`, m = len(self.controls)
    any other get_compact_qobj    the class's own function of `arg_value` (`plain`): it does NOT read control_value

`ClassInfo` (one per key of GATE_CLASS_MAP, per `ControlledGate` × single-qubit target class, per name of the generic
`Gate`) is regenerated from the class bodies into `Gen/GateCtor.lean`.
`arg_value` is modelled by its shape only: absent, None, a number, a list of `k` numbers (non-integral reals: an extra
entry that reaches the deprecated `N` parameter of a gate function is then a TypeError).
-/
namespace QipVerif.GateCtor
open QipVerif.Ctrl

/-- a `targets=` / `controls=` argument -/
inductive QArg
  | absent
  | none
  | scalar (q : Int)
  | list (qs : List Int)
deriving DecidableEq, Repr

/-- `arg_value=` by shape -/
inductive AArg
  | absent
  | none
  | scalar
  | list (k : Nat)
deriving DecidableEq, Repr

/-- `control_value=` -/
inductive VArg
  | absent
  | none
  | int (v : Int)
deriving DecidableEq, Repr

structure Req where
  targets : QArg
  controls : QArg
  arg : AArg
  cv : VArg
deriving DecidableEq, Repr

inductive Arity
  | single   -- SingleQubitGate in the MRO
  | two      -- TwoQubitGate in the MRO
  | any      -- neither (TOFFOLI, FREDKIN, ControlledGate itself, the generic Gate)
deriving DecidableEq, Repr

/-- how the matrix function consumes `arg_value` (from the call specification) -/
inductive ArgSpec
  | noArg                   -- `f()`: arg_value is ignored
  | scalar                  -- `f(arg)`: a number
  | unpack (k : Nat)        -- `f(arg)` with `a, b, c = arg`: an iterable of exactly k numbers
  | star (lo hi : Nat)      -- `f(*arg)`: an iterable of lo..hi numbers (the rest have defaults)
deriving DecidableEq, Repr

/-- the guard of `_OneControlledGate.__init__` on a given control_value -/
structure Policy where
  accepted : List Int
  dflt : Int
deriving DecidableEq, Repr

structure ClassInfo where
  key : String
  arity : Arity
  oneCtrl : Bool          -- `_OneControlledGate.__init__` in the chain
  controlled : Bool       -- `ControlledGate.__init__` in the chain
  generic : Bool          -- the generic `Gate(name, …)`: `targets` is optional
  cvRequired : Bool       -- `control_value` is a required parameter (ControlledGate used directly)
  fwdCV : Bool            -- every `__init__` of the chain hands a given control_value on
  usesCV : Bool           -- `get_compact_qobj` (resolved along the MRO) reads `self.control_value`
  argRequired : Bool      -- `arg_value` is a required parameter of the class
  tgArgRequired : Bool    -- … of its target gate
  fixedGuard : Bool       -- the class calls `self._check_fixed_control_value()` (proposed fix; false in the current source)
  argSpec : ArgSpec
  spec : String           -- call specification of the matrix (the target gate's for `usesCV` classes)
deriving DecidableEq, Repr

inductive Refusal
  | missingArg     -- TypeError: a required parameter is absent
  | cvRefused      -- ValueError: guard on control_value
  | oneTarget      -- ValueError: "requires one target"
  | noControl      -- ValueError: "cannot have a control"
  | twoQubits      -- ValueError: "requires two targets"
  | concatNone     -- TypeError: `self.controls + self.targets` with targets None
  | tgOneTarget    -- ValueError of the target gate's constructor: "requires one target"
  | controlsNone   -- `controls=None` for ControlledGate used directly: `self.controls = [None]` — outside the model
deriving DecidableEq, Repr

/-- what the constructed object carries -/
structure Obj where
  targets : Option (List Int)
  controls : Option (List Int)
  cv : Option Int
deriving DecidableEq, Repr

def QArg.norm : QArg → Option (List Int)
  | .absent | .none => Option.none
  | .scalar q => some [q]
  | .list qs => some qs

def QArg.isAbsent : QArg → Bool
  | .absent => true
  | _ => false

def VArg.toOpt : VArg → Option Int
  | .int v => some v
  | _ => Option.none

/-- `len(self.get_all_qubits()) == 2` -/
def twoQubitsCheck (cs ts : Option (List Int)) : Except Refusal Unit :=
  match cs, ts with
  | some _, Option.none => .error .concatNone
  | some c, some t => if (c ++ t).length = 2 then .ok () else .error .twoQubits
  | Option.none, some t => if t.length = 2 then .ok () else .error .twoQubits
  | Option.none, Option.none => .error .twoQubits

/-- the guards of `SingleQubitGate.__init__` -/
def singleCheck (cs ts : Option (List Int)) : Except Refusal Unit :=
  match ts with
  | some [_] =>
    match cs with
    | some (_ :: _) => .error .noControl
    | _ => .ok ()
  | _ => .error .oneTarget

/-- `self._check_fixed_control_value()` (proposed fix C09-3): a given control_value needs listed controls and must be
"all controls 1" -/
def fixedCheck (cs : Option (List Int)) (cv : Option Int) : Except Refusal Unit :=
  match cv with
  | Option.none => .ok ()
  | some v =>
    if (cs.getD []).isEmpty then .error .cvRefused
    else if v = ((2 ^ (cs.getD []).length : Nat) : Int) - 1 then .ok () else .error .cvRefused

/-- the guards of the arity class in the MRO -/
def arityGuard (e : ClassInfo) (cs ts : Option (List Int)) : Except Refusal Unit :=
  match e.arity with
  | .single => singleCheck cs ts
  | .two => twoQubitsCheck cs ts
  | .any => .ok ()

/-- Python checks the required parameters of the called signature before the body runs -/
def missing (e : ClassInfo) (r : Req) : Bool :=
  (!e.generic && r.targets.isAbsent) || (e.controlled && r.controls.isAbsent)
    || (e.cvRequired && r.cv == .absent) || (e.argRequired && r.arg == .absent)

/-- control_value as it reaches `ControlledGate.__init__`: through the chain (`fwdCV`) and, for the one-control classes,
through the guard of `_OneControlledGate.__init__` -/
def cvGuard (P : Policy) (e : ClassInfo) (r : Req) : Except Refusal (Option Int) :=
  let cvIn : Option Int := if e.fwdCV then r.cv.toOpt else Option.none
  if e.oneCtrl then
    match cvIn with
    | some v => if P.accepted.contains v then .ok (some v) else .error .cvRefused
    | Option.none => .ok (some P.dflt)
  else .ok cvIn

/-- `target_gate(targets=self.targets, **kwargs)`: a single-qubit class; `arg_value` reaches it through kwargs -/
def targetGate (e : ClassInfo) (r : Req) (ts : Option (List Int)) (cs : List Int) (cv : Option Int) : Except Refusal Obj :=
  if e.tgArgRequired && r.arg == .absent then .error .missingArg
  else
    match ts with
    | some [_] => .ok ⟨ts, some cs, cv⟩
    | _ => .error .tgOneTarget

/-- `self.controls = [controls] if not isinstance(controls, list) else controls`, then the target gate is built -/
def wrapTarget (e : ClassInfo) (r : Req) (ts : Option (List Int)) (cv : Option Int) : QArg → Except Refusal Obj
  | .absent => .error .missingArg
  | .none =>                       -- `self.controls = [None]`; the target gate is still built
    match targetGate e r ts [] cv with
    | .error x => .error x
    | .ok _ => .error .controlsNone
  | .scalar q => targetGate e r ts [q] cv
  | .list qs => targetGate e r ts qs cv

/-- a class of the ControlledGate hierarchy: guard on control_value, then (through the MRO) the arity guard on the
controls as normalised by `Gate.__init__`, then `ControlledGate.__init__` proper -/
def constructControlled (P : Policy) (e : ClassInfo) (r : Req) : Except Refusal Obj :=
  match cvGuard P e r with
  | .error x => .error x
  | .ok cv =>
    match arityGuard e r.controls.norm r.targets.norm with
    | .error x => .error x
    | .ok _ => wrapTarget e r r.targets.norm cv r.controls

/-- any other class: `Gate.__init__`, the arity guard, the fixed-control-value guard if the class has one -/
def constructPlain (e : ClassInfo) (r : Req) : Except Refusal Obj :=
  match arityGuard e r.controls.norm r.targets.norm with
  | .error x => .error x
  | .ok _ =>
    match (if e.fixedGuard && !e.generic then fixedCheck r.controls.norm r.cv.toOpt else .ok ()) with
    | .error x => .error x
    | .ok _ => .ok ⟨r.targets.norm, r.controls.norm, r.cv.toOpt⟩

/-- the constructor chain -/
def construct (P : Policy) (e : ClassInfo) (r : Req) : Except Refusal Obj :=
  if missing e r then .error .missingArg
  else if e.controlled then constructControlled P e r
  else constructPlain e r

/-- `QubitCircuit.add_gate(name, targets, controls, arg_value, control_value)`: every absent argument is passed as None -/
def Req.viaCircuit (r : Req) : Req :=
  ⟨(match r.targets with | .absent => .none | t => t), (match r.controls with | .absent => .none | c => c),
   (match r.arg with | .absent => .none | a => a), (match r.cv with | .absent => .none | v => v)⟩

/-! ## `get_compact_qobj()` of the constructed object -/

inductive CompactErr
  | argType           -- TypeError: arg_value of the wrong kind for the gate function
  | argCount          -- ValueError: wrong number of values to unpack
  | cvNone            -- TypeError: `block_matrices[None]`
  | fixedCV           -- ValueError of `self._check_fixed_control_value()` at the head of `Gate.get_compact_qobj`
  | ctrl (e : CErr)   -- refused by `controlled_gate`
deriving DecidableEq, Repr

inductive Compact
  | plain              -- the matrix function `spec` evaluated at arg_value; control_value is not read
  | block (r : Res)    -- `controlled_gate(U, range(m), [m], control_value)`, U = `spec` at arg_value

/-- does the gate function accept this shape of `arg_value`? -/
def argCheck : ArgSpec → AArg → Except CompactErr Unit
  | .noArg, _ => .ok ()
  | .scalar, .scalar => .ok ()
  | .scalar, _ => .error .argType
  | .unpack k, .list n => if n = k then .ok () else .error .argCount
  | .unpack _, _ => .error .argType
  | .star lo hi, .list n => if lo ≤ n ∧ n ≤ hi then .ok () else .error .argType
  | .star _ _, _ => .error .argType

def compact (cTest : Which) (e : ClassInfo) (r : Req) (o : Obj) : Except CompactErr Compact :=
  match (if e.generic && e.fixedGuard then
          (match fixedCheck o.controls o.cv with | .ok () => Except.ok () | .error _ => .error CompactErr.fixedCV)
         else .ok ()) with
  | .error x => .error x
  | .ok () =>
    match argCheck e.argSpec r.arg with
    | .error x => .error x
    | .ok () =>
      if e.usesCV then
        match o.cv with
        | Option.none => .error .cvNone
        | some v =>
          let m := (o.controls.getD []).length
          match controlledGate cTest (.list ((List.range m).map Int.ofNat)) (.list [Int.ofNat m]) Option.none v with
          | .error x => .error (.ctrl x)
          | .ok res => .ok (.block res)
      else .ok .plain

/-! ## Expansion on a register

`Gate.get_qobj(dims=[2]*N)` (regenerated rule `Gen.G.gateGetQobj`; `propagators(expand=True)` does the same with
`gate.get_all_qubits()`):  `expand_operator(self.get_compact_qobj(), dims, targets = self.controls + self.targets)` — the
controls in the order the OBJECT stores them, which is the order they were listed in (`construct`).  Unlike the function
`controlled_gate` there is no shortcut for `controls + targets == range(N)`. -/
def expanded (N : Nat) (o : Obj) (res : Res) : Except QipVerif.Embed.Err Res :=
  match QipVerif.Embed.validate (List.replicate N 2) ((o.controls.getD []) ++ (o.targets.getD []))
      (List.replicate res.K 2) with
  | .error e => .error e
  | .ok qs => .ok ⟨N, fun x y =>
      match QipVerif.Embed.expandEntry N qs x y with
      | Option.none => .zero
      | some (a, c) => res.entry a c⟩

/-! ## The circuit path on a circuit of several gates

`QubitCircuit.propagators(expand=False)` is `[self._get_gate_unitary(g) for g in self.gates]`; for a library gate
`_get_gate_unitary` is the rule regenerated into `Gen.G.circuitGateUnitary` — the gate's OWN `get_compact_qobj()`, with no
state of the circuit read or written (checked by the translator). -/
def propagatorsCompact {α β : Type} (rule : String) (own : α → β) (gates : List α) : Option (List β) :=
  if rule = "gate.get_compact_qobj()" then some (gates.map own) else none

/-! ## The control value a matrix function is built on

A class whose `get_compact_qobj` does not read `control_value` returns the matrix of a gate function; for the controlled
ones among them that matrix is a block matrix on a FIXED number of controls and control value (`Props/C09.lean`,
`hard_values_sound`: `cnot_ = ctrl x`, `csign_ = ctrl z`, `cphase_ θ = ctrl (phasegate θ)`, …, `toffoli_` = X on the last
qubit when the first two are 1 1, `fredkin_` = SWAP of the last two when the first is 1). -/
def hardOf (spec : String) : Option (Nat × Int) :=
  if spec = "cnot()" ∨ spec = "csign()" ∨ spec = "cphase(arg)" ∨ spec = "cy_gate()" ∨ spec = "cz_gate()"
      ∨ spec = "cs_gate()" ∨ spec = "ct_gate()" ∨ spec = "fredkin()" ∨ spec = "controlled_gate(rx(arg))"
      ∨ spec = "controlled_gate(ry(arg))" ∨ spec = "controlled_gate(rz(arg))" then some (1, 1)
  else if spec = "toffoli()" then some (2, 3)
  else Option.none

/-- the decidable condition on a table entry under which `hardcoded_refuses` holds: a class of the ControlledGate
hierarchy whose matrix ignores control_value is guarded by `_OneControlledGate.__init__`, its matrix is built on one
control with value `P.dflt`, and the guard lets no other value through -/
def ClassInfo.hardSound (P : Policy) (e : ClassInfo) : Bool :=
  !e.controlled || e.usesCV || (e.oneCtrl && e.arity == .two && hardOf e.spec == some (1, P.dflt) && P.accepted.all (· == P.dflt))

end QipVerif.GateCtor
