/-!
# A minimal store of mutable Python lists of ints (properties C02, C16)

Import-free, executable.  A *reference* is an index into the list of cells; `x = y` on
Python lists copies the reference, so two fields holding the same `Ref` are aliases, as in
the code (`self.cbits = cbits`).  Cells are never freed; allocation appends.
-/
namespace QipVerif.Heap

abbrev Ref := Nat

/-- The store: cell `r` holds the current contents of the Python list with identity `r`. -/
structure Heap where
  cells : List (List Int)
deriving DecidableEq, Repr

def Heap.size (h : Heap) : Nat := h.cells.length

/-- contents of list `r` (`[]` for a dangling reference; never produced by the model) -/
def Heap.get (h : Heap) (r : Ref) : List Int := h.cells.getD r []

/-- overwrite the contents of list `r` (in-place mutation seen through every alias) -/
def Heap.put (h : Heap) (r : Ref) (v : List Int) : Heap := ⟨h.cells.set r v⟩

/-- a new list object -/
def Heap.alloc (h : Heap) (v : List Int) : Heap × Ref := (⟨h.cells ++ [v]⟩, h.cells.length)

/-- Python index normalisation for a list of length `len`: negative indices wrap once,
anything else out of range is an `IndexError` (`none`). -/
def pyIdx (len : Nat) (i : Int) : Option Nat :=
  if 0 ≤ i then (if i.toNat < len then some i.toNat else none)
  else if 0 ≤ (len : Int) + i then some ((len : Int) + i).toNat else none

/-- `l[i]` -/
def pyGet (l : List Int) (i : Int) : Option Int :=
  match pyIdx l.length i with
  | some j => l[j]?
  | none => none

/-- `l[i] = v` (returns the new contents, `none` = IndexError) -/
def pySet (l : List Int) (i : Int) (v : Int) : Option (List Int) :=
  match pyIdx l.length i with
  | some j => some (l.set j v)
  | none => none

end QipVerif.Heap
