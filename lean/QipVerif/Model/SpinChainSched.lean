import QipVerif.Model.SpinChain
import QipVerif.Model.Sched
import QipVerif.Gen.SchedRule
/-!
# Start times of the spin-chain instructions (property C06): the scheduler stage of the pipeline model

No Mathlib; executable.  `modelStarts` is what `drv_spinchain` runs after `SpinChain.compile`: without scheduling the
cumulative sums of the durations (`GateCompiler._schedule` with `schedule_mode=None`), otherwise the scheduler model of
C05/C11 (`Sched.pulseStarts`) on the instructions with integer durations over the common denominator `durDen`, with the
commuting-family flag and the conflict-edge variant REGENERATED from the source (`Gen/SchedRule.lean`).
-/
namespace QipVerif.SpinChain
open QipVerif

/-- value of an angle in units of π under a rational valuation `r` of the symbols (symbol `j` stands for `r j · π`);
for a fixed angle this is `p8 / 8`, whatever `r` -/
def evQr (r : Nat → Rat) (a : Ang) : Rat :=
  (match a.sym with | some j => ((a.cn : Rat) / (a.cd : Rat)) * r j | none => 0) + (a.p8 : Rat) / 8

def lcmNat (a b : Nat) : Nat := if a = 0 ∨ b = 0 then 0 else a / Nat.gcd a b * b

/-- common denominator of the durations -/
def durDen (is : List (Instr Rat)) : Nat := is.foldl (fun d i => lcmNat d i.dur.den) 1

/-- the instruction as the scheduler sees it (`Instruction.__init__` sorts targets / controls) -/
def schedIns (D : Nat) (i : Instr Rat) : Sched.Ins :=
  ⟨i.gate.name.toString, i.gate.targets.mergeSort, i.gate.controls.mergeSort, (i.dur * (D : Rat)).num,
    Gen.SchedRule.inSet i.gate.name.toString⟩

/-- `Scheduler(mode, allow_permutation=True)`, no shuffle, conflict edges as the source records them -/
def schedCfg (alap : Bool) : Sched.Cfg :=
  { alap := alap, allowPerm := true, shufs := [], fx := Gen.SchedRule.conflictFix }

/-- start times without scheduling: `[0, d0, d0+d1, …]` -/
def cumQ : Rat → List (Instr Rat) → List Rat
  | _, [] => []
  | acc, i :: rest => acc :: cumQ (acc + i.dur) rest

/-- start time of every instruction, in compile order (`mode = none`: no scheduling; `some alap`: ASAP / ALAP);
`none`: no instruction uses a qubit (`Scheduler.schedule` has nothing to place) -/
def modelStarts (mode : Option Bool) (is : List (Instr Rat)) : Option (List Rat) :=
  match mode with
  | none => some (cumQ 0 is)
  | some alap =>
    let D := durDen is
    let ns := is.map (schedIns D)
    if ns.isEmpty then some [] else
    if ns.all (fun i => i.used.isEmpty) then none else
    some ((Sched.pulseStarts (schedCfg alap) ns).map fun (s : Int) => ((s : Rat) / (D : Rat)))

/-- what a processor holds after `load_circuit`: the result of this load if it succeeded; if the load is REFUSED (it raises:
transpile or the compiler refuse the circuit, a label names no control) the processor keeps what it held before the call -
pulses and reported global phase (`prev`).  `load_circuit` stores nothing before the compiler has returned. -/
def afterLoad {σ ε : Type} (prev : σ) (r : Except ε σ) : σ :=
  match r with
  | .ok x => x
  | .error _ => prev

end QipVerif.SpinChain
