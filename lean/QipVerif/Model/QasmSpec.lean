/-!
# OpenQASM 2.0 — the supported subset, written from the language paper (properties C04, C10)

Import-free, executable, kernel-friendly (`List Char`, structural / fuel recursion only).

* `Expr`, `Arg`, `GOp`, `QOp`, `Stmt`: abstract syntax of the subset
  (register declarations, built-in `U` and `CX`, calls of `qelib1.inc` / user gates, gate
  definitions with parameter expressions and nesting, register broadcast, barrier, measure,
  single `if`, plus `reset` / `opaque` / `^` / functions so that their refusal can be stated).
* `render`: one statement per line (gate definitions: `gate … {`, one body line each, `}`).
* `qelib1`: the bodies of `qelib1.inc` **transcribed by hand from the OpenQASM 2.0 paper**
  (arXiv:1707.03429, the file is not in the sandbox).
* `flatten`: the standard's static semantics — registers, index bounds, distinct qubits,
  equal-size broadcast, declared gates with the right arity, `if(c==k)` comparing the
  register as an integer **whose bit 0 is `c[0]`** — giving a flat list of operations.
* `expandOps`: full expansion of every call down to the built-ins `U(θ,φ,λ)` and `CX` by
  *tree* substitution of the actual parameter expressions (the standard's meaning).
* `lexLine` / `parseLine` / `acceptProgram`: a strict recogniser for one-line statements
  (used on the exporter's output, C10).
-/
namespace QipVerif.Qasm

abbrev Str := List Char

open Lean in
/-- `cs!"abc"` is the character list `['a','b','c']` (kernel-friendly string constant). -/
macro:max "cs!" s:str : term => do
  let cs : Array (TSyntax `term) :=
    (s.getString.toList.map fun c => (⟨(Syntax.mkCharLit c).raw⟩ : TSyntax `term)).toArray
  `(([$cs,*] : List Char))

/-! ## Characters, numerals -/

def isDigit (c : Char) : Bool := '0' ≤ c && c ≤ '9'
def isLower (c : Char) : Bool := 'a' ≤ c && c ≤ 'z'
def isUpper (c : Char) : Bool := 'A' ≤ c && c ≤ 'Z'
def isAlpha (c : Char) : Bool := isLower c || isUpper c
/-- characters of an identifier after the first one: `[A-Za-z0-9_]` -/
def isIdChar (c : Char) : Bool := isAlpha c || isDigit c || c == '_'
def isSpace (c : Char) : Bool := c == ' ' || c == '\t'

def digitChar (d : Nat) : Char :=
  match d with
  | 0 => '0' | 1 => '1' | 2 => '2' | 3 => '3' | 4 => '4'
  | 5 => '5' | 6 => '6' | 7 => '7' | 8 => '8' | _ => '9'

def natDigitsAux : Nat → Nat → Str → Str
  | 0, _, acc => acc
  | f + 1, n, acc =>
    let acc' := digitChar (n % 10) :: acc
    if n / 10 = 0 then acc' else natDigitsAux f (n / 10) acc'

/-- decimal numeral of a natural number, as Python's `str(int)` / `"{}".format(int)` -/
def natDigits (n : Nat) : Str := natDigitsAux (n + 1) n []

def digitVal (c : Char) : Nat := c.toNat - '0'.toNat

/-- value of a digit string -/
def digitsVal (s : Str) : Nat := s.foldl (fun a c => a * 10 + digitVal c) 0

/-- `nninteger := [1-9]+[0-9]*|0` -/
def isNNInt (s : Str) : Bool :=
  match s with
  | [] => false
  | ['0'] => true
  | c :: cs => isDigit c && c != '0' && cs.all isDigit

/-- exponent part `[eE][-+]?[0-9]+` (whole string) -/
def isExpPart (s : Str) : Bool :=
  match s with
  | c :: rest =>
    (c == 'e' || c == 'E') &&
      (match rest with
       | '-' :: ds => !ds.isEmpty && ds.all isDigit
       | '+' :: ds => !ds.isEmpty && ds.all isDigit
       | ds => !ds.isEmpty && ds.all isDigit)
  | [] => false

/-- split off a maximal prefix of digits -/
def spanDigits : Str → Str × Str
  | [] => ([], [])
  | c :: cs => if isDigit c then let (a, b) := spanDigits cs; (c :: a, b) else ([], c :: cs)

/-- `real := ([0-9]+\.[0-9]*|[0-9]*\.[0-9]+)([eE][-+]?[0-9]+)?` — the paper's token: a decimal
point is mandatory, `1e-5` is **not** a `real`. -/
def isReal (s : Str) : Bool :=
  let (ip, r) := spanDigits s
  match r with
  | '.' :: r' =>
    let (fp, e) := spanDigits r'
    (!ip.isEmpty || !fp.isEmpty) && (e.isEmpty || isExpPart e)
  | _ => false

/-- unsigned numeric text as Python prints numbers (`str(int)`, `repr(float)`): digits, optional
fraction, optional exponent — a superset of `nninteger ∪ real` (`1e-05` is in it). -/
def isPyNum (s : Str) : Bool :=
  let (ip, r) := spanDigits s
  !ip.isEmpty &&
    match r with
    | [] => true
    | '.' :: r' => let (_, e) := spanDigits r'; e.isEmpty || isExpPart e
    | e => isExpPart e

/-- is the number written by this unsigned numeric text zero (all mantissa digits `0`)? -/
def pyNumIsZero (s : Str) : Bool :=
  let (ip, r) := spanDigits s
  ip.all (· == '0') &&
    match r with
    | '.' :: r' => (spanDigits r').1.all (· == '0')
    | _ => true

/-! ## Abstract syntax -/

/-- parameter expressions: symbolic trees -/
inductive Expr where
  | pi
  | lit (s : Str)            -- `nninteger` or `real`, as written
  | id (s : Str)             -- formal parameter
  | neg (e : Expr)
  | add (a b : Expr)
  | sub (a b : Expr)
  | mul (a b : Expr)
  | div (a b : Expr)
  | pow (a b : Expr)         -- `^` (standard: power) — outside the supported subset
  | fn (f : Str) (e : Expr)  -- sin cos tan exp ln sqrt — outside the supported subset
deriving DecidableEq, Repr, Inhabited

/-- quantum / classical argument: whole register or one element -/
inductive Arg where
  | whole (reg : Str)
  | idx (reg : Str) (i : Nat)
deriving DecidableEq, Repr, Inhabited

/-- statement of a gate body (arguments are formal qubit names) -/
inductive GOp where
  | U (θ φ l : Expr) (q : Str)
  | CX (a b : Str)
  | call (name : Str) (ps : List Expr) (qs : List Str)
  | barrier (qs : List Str)
deriving DecidableEq, Repr, Inhabited

/-- quantum operation of the main program -/
inductive QOp where
  | U (θ φ l : Expr) (q : Arg)
  | CX (a b : Arg)
  | call (name : Str) (ps : List Expr) (qs : List Arg)
  | measure (q c : Arg)
  | reset (q : Arg)
deriving DecidableEq, Repr, Inhabited

structure GateDef where
  name : Str
  params : List Str
  qargs : List Str
  body : List GOp
deriving DecidableEq, Repr, Inhabited

inductive Stmt where
  | version                                  -- `OPENQASM 2.0;`
  | incl (file : Str)                        -- `include "file";`
  | qreg (name : Str) (n : Nat)
  | creg (name : Str) (n : Nat)
  | gate (d : GateDef)
  | opaque (name : Str) (params qargs : List Str)
  | qop (op : QOp)
  | ifc (creg : Str) (k : Nat) (op : QOp)
  | barrier (qs : List Arg)
deriving DecidableEq, Repr, Inhabited

abbrev Program := List Stmt

/-! ## Rendering (one statement per line) -/

def intercal (sep : Str) : List Str → Str
  | [] => []
  | [x] => x
  | x :: xs => x ++ sep ++ intercal sep xs

/-- precedence level of the top constructor: 1 `+ -`, 2 `* /`, 3 unary minus, 4 `^`, 5 atoms -/
def Expr.level : Expr → Nat
  | .add .. | .sub .. => 1
  | .mul .. | .div .. => 2
  | .neg .. => 3
  | .pow .. => 4
  | _ => 5

def paren (s : Str) : Str := '(' :: s ++ [')']

/-- text of an expression with the parentheses the grammar's precedences require
(`+ -` < `* /` < unary minus < `^`, binary operators left-associative, `^` right-associative) -/
def Expr.render : Expr → Str
  | .pi => cs!"pi"
  | .lit s => s
  | .id s => s
  | .neg e => '-' :: (if e.level < 3 then paren e.render else e.render)
  | .add a b => (if a.level < 1 then paren a.render else a.render) ++ '+' ::
                (if b.level < 2 then paren b.render else b.render)
  | .sub a b => (if a.level < 1 then paren a.render else a.render) ++ '-' ::
                (if b.level < 2 then paren b.render else b.render)
  | .mul a b => (if a.level < 2 then paren a.render else a.render) ++ '*' ::
                (if b.level < 3 then paren b.render else b.render)
  | .div a b => (if a.level < 2 then paren a.render else a.render) ++ '/' ::
                (if b.level < 3 then paren b.render else b.render)
  | .pow a b => (if a.level < 5 then paren a.render else a.render) ++ '^' ::
                (if b.level < 4 then paren b.render else b.render)
  | .fn f e => f ++ paren e.render

def Arg.render : Arg → Str
  | .whole r => r
  | .idx r i => r ++ '[' :: natDigits i ++ [']']

def renderParams (ps : List Expr) : Str :=
  if ps.isEmpty then [] else paren (intercal [','] (ps.map Expr.render))

def GOp.render : GOp → Str
  | .U a b c q => cs!"U" ++ paren (intercal [','] [a.render, b.render, c.render]) ++ ' ' :: q ++ [';']
  | .CX a b => cs!"CX " ++ a ++ ',' :: b ++ [';']
  | .call n ps qs => n ++ renderParams ps ++ ' ' :: intercal [','] qs ++ [';']
  | .barrier qs => cs!"barrier " ++ intercal [','] qs ++ [';']

def QOp.render : QOp → Str
  | .U a b c q => cs!"U" ++ paren (intercal [','] [a.render, b.render, c.render]) ++ ' ' :: q.render ++ [';']
  | .CX a b => cs!"CX " ++ a.render ++ ',' :: b.render ++ [';']
  | .call n ps qs => n ++ renderParams ps ++ ' ' :: intercal [','] (qs.map Arg.render) ++ [';']
  | .measure q c => cs!"measure " ++ q.render ++ cs!" -> " ++ c.render ++ [';']
  | .reset q => cs!"reset " ++ q.render ++ [';']

def renderFormals (ps : List Str) : Str :=
  if ps.isEmpty then [] else paren (intercal [','] ps)

/-- lines of one statement -/
def Stmt.render : Stmt → List Str
  | .version => [cs!"OPENQASM 2.0;"]
  | .incl f => [cs!"include \"" ++ f ++ cs!"\";"]
  | .qreg n k => [cs!"qreg " ++ n ++ '[' :: natDigits k ++ cs!"];"]
  | .creg n k => [cs!"creg " ++ n ++ '[' :: natDigits k ++ cs!"];"]
  | .gate d => [cs!"gate " ++ d.name ++ renderFormals d.params ++ ' ' :: intercal [','] d.qargs ++ cs!" {"]
               ++ d.body.map GOp.render ++ [cs!"}"]
  | .opaque n ps qs => [cs!"opaque " ++ n ++ renderFormals ps ++ ' ' :: intercal [','] qs ++ [';']]
  | .qop op => [op.render]
  | .ifc c k op => [cs!"if(" ++ c ++ cs!"==" ++ natDigits k ++ cs!") " ++ op.render]
  | .barrier qs => [cs!"barrier " ++ intercal [','] (qs.map Arg.render) ++ [';']]

def renderProgram (p : Program) : List Str := p.flatMap Stmt.render

/-! ## `qelib1.inc` (OpenQASM 2.0 paper, appendix) — transcribed by hand -/

private def p (s : Str) : Expr := .id s
private def n (s : Str) : Expr := .lit s
private def piOver (k : Str) : Expr := .div .pi (.lit k)

def qelib1 : List GateDef := [
  -- gate u3(theta,phi,lambda) q { U(theta,phi,lambda) q; }
  ⟨cs!"u3", [cs!"theta", cs!"phi", cs!"lambda"], [cs!"q"],
    [.U (p cs!"theta") (p cs!"phi") (p cs!"lambda") cs!"q"]⟩,
  -- gate u2(phi,lambda) q { U(pi/2,phi,lambda) q; }
  ⟨cs!"u2", [cs!"phi", cs!"lambda"], [cs!"q"],
    [.U (piOver cs!"2") (p cs!"phi") (p cs!"lambda") cs!"q"]⟩,
  -- gate u1(lambda) q { U(0,0,lambda) q; }
  ⟨cs!"u1", [cs!"lambda"], [cs!"q"], [.U (n cs!"0") (n cs!"0") (p cs!"lambda") cs!"q"]⟩,
  -- gate cx c,t { CX c,t; }
  ⟨cs!"cx", [], [cs!"c", cs!"t"], [.CX cs!"c" cs!"t"]⟩,
  -- gate id a { U(0,0,0) a; }
  ⟨cs!"id", [], [cs!"a"], [.U (n cs!"0") (n cs!"0") (n cs!"0") cs!"a"]⟩,
  -- gate x a { u3(pi,0,pi) a; }
  ⟨cs!"x", [], [cs!"a"], [.call cs!"u3" [.pi, n cs!"0", .pi] [cs!"a"]]⟩,
  -- gate y a { u3(pi,pi/2,pi/2) a; }
  ⟨cs!"y", [], [cs!"a"], [.call cs!"u3" [.pi, piOver cs!"2", piOver cs!"2"] [cs!"a"]]⟩,
  -- gate z a { u1(pi) a; }
  ⟨cs!"z", [], [cs!"a"], [.call cs!"u1" [.pi] [cs!"a"]]⟩,
  -- gate h a { u2(0,pi) a; }
  ⟨cs!"h", [], [cs!"a"], [.call cs!"u2" [n cs!"0", .pi] [cs!"a"]]⟩,
  -- gate s a { u1(pi/2) a; }
  ⟨cs!"s", [], [cs!"a"], [.call cs!"u1" [piOver cs!"2"] [cs!"a"]]⟩,
  -- gate sdg a { u1(-pi/2) a; }
  ⟨cs!"sdg", [], [cs!"a"], [.call cs!"u1" [.div (.neg .pi) (n cs!"2")] [cs!"a"]]⟩,
  -- gate t a { u1(pi/4) a; }
  ⟨cs!"t", [], [cs!"a"], [.call cs!"u1" [piOver cs!"4"] [cs!"a"]]⟩,
  -- gate tdg a { u1(-pi/4) a; }
  ⟨cs!"tdg", [], [cs!"a"], [.call cs!"u1" [.div (.neg .pi) (n cs!"4")] [cs!"a"]]⟩,
  -- gate rx(theta) a { u3(theta,-pi/2,pi/2) a; }
  ⟨cs!"rx", [cs!"theta"], [cs!"a"],
    [.call cs!"u3" [p cs!"theta", .div (.neg .pi) (n cs!"2"), piOver cs!"2"] [cs!"a"]]⟩,
  -- gate ry(theta) a { u3(theta,0,0) a; }
  ⟨cs!"ry", [cs!"theta"], [cs!"a"], [.call cs!"u3" [p cs!"theta", n cs!"0", n cs!"0"] [cs!"a"]]⟩,
  -- gate rz(phi) a { u1(phi) a; }
  ⟨cs!"rz", [cs!"phi"], [cs!"a"], [.call cs!"u1" [p cs!"phi"] [cs!"a"]]⟩,
  -- gate cz a,b { h b; cx a,b; h b; }
  ⟨cs!"cz", [], [cs!"a", cs!"b"],
    [.call cs!"h" [] [cs!"b"], .call cs!"cx" [] [cs!"a", cs!"b"], .call cs!"h" [] [cs!"b"]]⟩,
  -- gate cy a,b { sdg b; cx a,b; s b; }
  ⟨cs!"cy", [], [cs!"a", cs!"b"],
    [.call cs!"sdg" [] [cs!"b"], .call cs!"cx" [] [cs!"a", cs!"b"], .call cs!"s" [] [cs!"b"]]⟩,
  -- gate ch a,b { h b; sdg b; cx a,b; h b; t b; cx a,b; t b; h b; s b; x b; s a; }
  ⟨cs!"ch", [], [cs!"a", cs!"b"],
    [.call cs!"h" [] [cs!"b"], .call cs!"sdg" [] [cs!"b"], .call cs!"cx" [] [cs!"a", cs!"b"],
     .call cs!"h" [] [cs!"b"], .call cs!"t" [] [cs!"b"], .call cs!"cx" [] [cs!"a", cs!"b"],
     .call cs!"t" [] [cs!"b"], .call cs!"h" [] [cs!"b"], .call cs!"s" [] [cs!"b"],
     .call cs!"x" [] [cs!"b"], .call cs!"s" [] [cs!"a"]]⟩,
  -- gate ccx a,b,c { h c; cx b,c; tdg c; cx a,c; t c; cx b,c; tdg c; cx a,c; t b; t c; h c;
  --                  cx a,b; t a; tdg b; cx a,b; }
  ⟨cs!"ccx", [], [cs!"a", cs!"b", cs!"c"],
    [.call cs!"h" [] [cs!"c"], .call cs!"cx" [] [cs!"b", cs!"c"], .call cs!"tdg" [] [cs!"c"],
     .call cs!"cx" [] [cs!"a", cs!"c"], .call cs!"t" [] [cs!"c"], .call cs!"cx" [] [cs!"b", cs!"c"],
     .call cs!"tdg" [] [cs!"c"], .call cs!"cx" [] [cs!"a", cs!"c"], .call cs!"t" [] [cs!"b"],
     .call cs!"t" [] [cs!"c"], .call cs!"h" [] [cs!"c"], .call cs!"cx" [] [cs!"a", cs!"b"],
     .call cs!"t" [] [cs!"a"], .call cs!"tdg" [] [cs!"b"], .call cs!"cx" [] [cs!"a", cs!"b"]]⟩,
  -- gate crz(lambda) a,b { u1(lambda/2) b; cx a,b; u1(-lambda/2) b; cx a,b; }
  ⟨cs!"crz", [cs!"lambda"], [cs!"a", cs!"b"],
    [.call cs!"u1" [.div (p cs!"lambda") (n cs!"2")] [cs!"b"], .call cs!"cx" [] [cs!"a", cs!"b"],
     .call cs!"u1" [.div (.neg (p cs!"lambda")) (n cs!"2")] [cs!"b"], .call cs!"cx" [] [cs!"a", cs!"b"]]⟩,
  -- gate cu1(lambda) a,b { u1(lambda/2) a; cx a,b; u1(-lambda/2) b; cx a,b; u1(lambda/2) b; }
  ⟨cs!"cu1", [cs!"lambda"], [cs!"a", cs!"b"],
    [.call cs!"u1" [.div (p cs!"lambda") (n cs!"2")] [cs!"a"], .call cs!"cx" [] [cs!"a", cs!"b"],
     .call cs!"u1" [.div (.neg (p cs!"lambda")) (n cs!"2")] [cs!"b"], .call cs!"cx" [] [cs!"a", cs!"b"],
     .call cs!"u1" [.div (p cs!"lambda") (n cs!"2")] [cs!"b"]]⟩,
  -- gate cu3(theta,phi,lambda) c,t { u1((lambda-phi)/2) t; cx c,t;
  --   u3(-theta/2,0,-(phi+lambda)/2) t; cx c,t; u3(theta/2,phi,0) t; }
  ⟨cs!"cu3", [cs!"theta", cs!"phi", cs!"lambda"], [cs!"c", cs!"t"],
    [.call cs!"u1" [.div (.sub (p cs!"lambda") (p cs!"phi")) (n cs!"2")] [cs!"t"],
     .call cs!"cx" [] [cs!"c", cs!"t"],
     .call cs!"u3" [.div (.neg (p cs!"theta")) (n cs!"2"), n cs!"0",
                    .div (.neg (.add (p cs!"phi") (p cs!"lambda"))) (n cs!"2")] [cs!"t"],
     .call cs!"cx" [] [cs!"c", cs!"t"],
     .call cs!"u3" [.div (p cs!"theta") (n cs!"2"), p cs!"phi", n cs!"0"] [cs!"t"]]⟩
]

/-! ## Static semantics and expansion (the standard) -/

inductive SpecErr where
  | undeclaredReg | undeclaredGate | indexRange | repeatedQubit | arity | broadcast
  | freeId        -- identifier that is not a formal parameter
  | unsupported   -- reset, opaque, `^`, functions (valid OpenQASM, outside the supported subset)
  | redeclared
deriving DecidableEq, Repr

/-- the built-ins -/
inductive Prim where
  | U (θ φ l : Expr) (q : Nat)
  | CX (a b : Nat)
deriving DecidableEq, Repr

/-- classical condition: the listed absolute classical-bit indices, **bit 0 of the register
first**, read as a little-endian integer, must equal `k` -/
structure Cond where
  bits : List Nat
  k : Nat
deriving DecidableEq, Repr

/-- little-endian value of a bit list under a classical state -/
def leValue (st : Nat → Bool) : List Nat → Nat
  | [] => 0
  | b :: bs => (if st b then 1 else 0) + 2 * leValue st bs

def Cond.holds (c : Cond) (st : Nat → Bool) : Bool := leValue st c.bits == c.k

/-- flat operation: registers resolved, broadcast unrolled, calls still atomic -/
inductive FlatOp where
  | U (cond : Option Cond) (θ φ l : Expr) (q : Nat)
  | CX (cond : Option Cond) (a b : Nat)
  | call (cond : Option Cond) (name : Str) (ps : List Expr) (qs : List Nat)
  | measure (cond : Option Cond) (q c : Nat)
  | barrier (qs : List Nat)
deriving DecidableEq, Repr

/-- fully expanded operation -/
inductive Op where
  | prim (cond : Option Cond) (g : Prim)
  | measure (cond : Option Cond) (q c : Nat)
  | barrier (qs : List Nat)
deriving DecidableEq, Repr

/-- declared registers: name, first absolute index, size (declaration order) -/
structure Regs where
  regs : List (Str × Nat × Nat) := []
  total : Nat := 0
deriving Repr

def Regs.find? (r : Regs) (name : Str) : Option (Nat × Nat) :=
  (r.regs.find? (fun e => e.1 == name)).map (·.2)

def Regs.add (r : Regs) (name : Str) (n : Nat) : Regs :=
  { regs := r.regs ++ [(name, r.total, n)], total := r.total + n }

/-- gate signature: name, number of parameters, number of qubit arguments -/
structure Sig where
  name : Str
  np : Nat
  nq : Nat
deriving DecidableEq, Repr

def GateDef.sig (d : GateDef) : Sig := ⟨d.name, d.params.length, d.qargs.length⟩

def Expr.supported : Expr → Bool
  | .pow .. | .fn .. => false
  | .neg e => e.supported
  | .add a b | .sub a b | .mul a b | .div a b => a.supported && b.supported
  | _ => true

/-- identifiers occurring in an expression are among `formals` -/
def Expr.closedIn (formals : List Str) : Expr → Bool
  | .id s => formals.contains s
  | .neg e => e.closedIn formals
  | .fn _ e => e.closedIn formals
  | .add a b | .sub a b | .mul a b | .div a b | .pow a b => a.closedIn formals && b.closedIn formals
  | _ => true

/-- substitution of expression trees for formal parameters (the standard's meaning of a call) -/
def Expr.subst (σ : List (Str × Expr)) : Expr → Expr
  | .id s => match σ.find? (fun e => e.1 == s) with
             | some e => e.2
             | none => .id s
  | .neg e => .neg (e.subst σ)
  | .fn f e => .fn f (e.subst σ)
  | .add a b => .add (a.subst σ) (b.subst σ)
  | .sub a b => .sub (a.subst σ) (b.subst σ)
  | .mul a b => .mul (a.subst σ) (b.subst σ)
  | .div a b => .div (a.subst σ) (b.subst σ)
  | .pow a b => .pow (a.subst σ) (b.subst σ)
  | e => e

/-- resolve one argument to absolute indices: `inl i` single element, `inr l` whole register -/
def resolveArg (rs : Regs) : Arg → Except SpecErr (Nat ⊕ List Nat)
  | .whole r => match rs.find? r with
    | some (s, n) => .ok (.inr ((List.range n).map (s + ·)))
    | none => .error .undeclaredReg
  | .idx r i => match rs.find? r with
    | some (s, n) => if i < n then .ok (.inl (s + i)) else .error .indexRange
    | none => .error .undeclaredReg

def resolveArgs (rs : Regs) : List Arg → Except SpecErr (List (Nat ⊕ List Nat))
  | [] => .ok []
  | a :: as => do
    let x ← resolveArg rs a
    let xs ← resolveArgs rs as
    .ok (x :: xs)

/-- size of the whole-register arguments if they all agree (`none` = no whole register) -/
def broadcastSize : List (Nat ⊕ List Nat) → Except SpecErr (Option Nat)
  | [] => .ok none
  | .inl _ :: xs => broadcastSize xs
  | .inr l :: xs => do
    match ← broadcastSize xs with
    | none => .ok (some l.length)
    | some m => if m = l.length then .ok (some m) else .error .broadcast

def pick (j : Nat) : Nat ⊕ List Nat → Nat
  | .inl i => i
  | .inr l => l.getD j 0

/-- the argument tuples of one statement (the standard: whole registers of equal size are
unrolled in parallel, single elements repeated); every tuple must consist of distinct qubits -/
def broadcast (xs : List (Nat ⊕ List Nat)) : Except SpecErr (List (List Nat)) := do
  let tuples ← match ← broadcastSize xs with
    | none => pure [xs.map (pick 0)]
    | some m => pure ((List.range m).map fun j => xs.map (pick j))
  if tuples.all (fun t => t.Nodup) then .ok tuples else .error .repeatedQubit

/-- static environment of the main program -/
structure Env where
  qregs : Regs := {}
  cregs : Regs := {}
  gates : List GateDef := []     -- newest first
deriving Repr

def Env.sig? (env : Env) (name : Str) : Option Sig :=
  (env.gates.find? (fun d => d.name == name)).map GateDef.sig

def condOf (env : Env) (c : Option (Str × Nat)) : Except SpecErr (Option Cond) :=
  match c with
  | none => .ok none
  | some (r, k) => match env.cregs.find? r with
    | some (s, n) => .ok (some ⟨(List.range n).map (s + ·), k⟩)
    | none => .error .undeclaredReg

def flattenQOp (env : Env) (c : Option (Str × Nat)) : QOp → Except SpecErr (List FlatOp)
  | .U a b l q => do
    let cond ← condOf env c
    if !(a.supported && b.supported && l.supported) then .error .unsupported else
    if !(a.closedIn [] && b.closedIn [] && l.closedIn []) then .error .freeId else
    let ts ← broadcast (← resolveArgs env.qregs [q])
    .ok (ts.map fun t => .U cond a b l (t.getD 0 0))
  | .CX a b => do
    let cond ← condOf env c
    let ts ← broadcast (← resolveArgs env.qregs [a, b])
    .ok (ts.map fun t => .CX cond (t.getD 0 0) (t.getD 1 0))
  | .call name ps qs => do
    let cond ← condOf env c
    match env.sig? name with
    | none => .error .undeclaredGate
    | some sg =>
      if sg.np ≠ ps.length || sg.nq ≠ qs.length then .error .arity else
      if !(ps.all Expr.supported) then .error .unsupported else
      if !(ps.all (Expr.closedIn [])) then .error .freeId else
      let ts ← broadcast (← resolveArgs env.qregs qs)
      .ok (ts.map fun t => .call cond name ps t)
  | .measure q cb => do
    let cond ← condOf env c
    let x ← resolveArg env.qregs q
    let y ← resolveArg env.cregs cb
    match x, y with
    | .inl i, .inl j => .ok [.measure cond i j]
    | .inr l, .inr m =>
      if l.length = m.length then .ok ((l.zip m).map fun (i, j) => .measure cond i j)
      else .error .broadcast
    | _, _ => .error .broadcast
  | .reset _ => .error .unsupported

/-- a body statement is well-formed w.r.t. the gates declared so far and the formals -/
def gopOk (gates : List GateDef) (params qargs : List Str) : GOp → Except SpecErr Unit
  | .U a b l q =>
    if !(a.supported && b.supported && l.supported) then .error .unsupported else
    if !(a.closedIn params && b.closedIn params && l.closedIn params) then .error .freeId else
    if qargs.contains q then .ok () else .error .undeclaredReg
  | .CX a b =>
    if !(qargs.contains a && qargs.contains b) then .error .undeclaredReg else
    if a == b then .error .repeatedQubit else .ok ()
  | .call name ps qs =>
    match gates.find? (fun d => d.name == name) with
    | none => .error .undeclaredGate
    | some d =>
      if d.params.length ≠ ps.length || d.qargs.length ≠ qs.length then .error .arity else
      if !(ps.all Expr.supported) then .error .unsupported else
      if !(ps.all (Expr.closedIn params)) then .error .freeId else
      if !(qs.all qargs.contains) then .error .undeclaredReg else
      if qs.Nodup then .ok () else .error .repeatedQubit
  | .barrier qs => if qs.all qargs.contains then .ok () else .error .undeclaredReg

def gopsOk (gates : List GateDef) (params qargs : List Str) : List GOp → Except SpecErr Unit
  | [] => .ok ()
  | g :: gs => do gopOk gates params qargs g; gopsOk gates params qargs gs

/-- one statement: new environment and the flat operations it contributes -/
def flattenStmt (env : Env) : Stmt → Except SpecErr (Env × List FlatOp)
  | .version => .ok (env, [])
  | .incl f =>
    if f != cs!"qelib1.inc" then .error .unsupported
    else if qelib1.any (fun d => (env.sig? d.name).isSome) then .error .redeclared
    else .ok ({ env with gates := qelib1.reverse ++ env.gates }, [])
  | .qreg nm k =>
    if (env.qregs.find? nm).isSome || (env.cregs.find? nm).isSome then .error .redeclared
    else .ok ({ env with qregs := env.qregs.add nm k }, [])
  | .creg nm k =>
    if (env.qregs.find? nm).isSome || (env.cregs.find? nm).isSome then .error .redeclared
    else .ok ({ env with cregs := env.cregs.add nm k }, [])
  | .gate d => do
    if (env.sig? d.name).isSome then .error .redeclared else
    if !(d.params.Nodup && d.qargs.Nodup) then .error .redeclared else
    gopsOk env.gates d.params d.qargs d.body
    .ok ({ env with gates := d :: env.gates }, [])
  | .opaque .. => .error .unsupported
  | .qop op => do .ok (env, ← flattenQOp env none op)
  | .ifc c k op => do .ok (env, ← flattenQOp env (some (c, k)) op)
  | .barrier qs => do
    let xs ← resolveArgs env.qregs qs
    let all := xs.flatMap fun x => match x with | .inl i => [i] | .inr l => l
    .ok (env, [.barrier all])

def flattenFrom (env : Env) : Program → Except SpecErr (Env × List FlatOp)
  | [] => .ok (env, [])
  | s :: ss => do
    let (env', ops) ← flattenStmt env s
    let (env'', ops') ← flattenFrom env' ss
    .ok (env'', ops ++ ops')

/-- static semantics of a whole program -/
def flatten (p : Program) : Except SpecErr (Env × List FlatOp) := flattenFrom {} p

/-- expansion of one call down to the built-ins.  `gates` is newest-first; a body may only
use gates declared before its own definition, so the recursion is on the list. -/
def expandCall : List GateDef → Str → List Expr → List Nat → Except SpecErr (List Prim)
  | [], _, _, _ => .error .undeclaredGate
  | d :: rest, name, ps, qs =>
    if d.name == name then
      if d.params.length ≠ ps.length || d.qargs.length ≠ qs.length then .error .arity else
      let σ := d.params.zip ps
      let ρ := d.qargs.zip qs
      let q (a : Str) : Nat := ((ρ.find? (fun e => e.1 == a)).map (·.2)).getD 0
      d.body.foldlM (fun acc g =>
        match g with
        | .U a b l x => .ok (acc ++ [Prim.U (a.subst σ) (b.subst σ) (l.subst σ) (q x)])
        | .CX a b => .ok (acc ++ [Prim.CX (q a) (q b)])
        | .barrier _ => .ok acc
        | .call nm ps' qs' => do
          let inner ← expandCall rest nm (ps'.map (Expr.subst σ)) (qs'.map q)
          .ok (acc ++ inner)) []
    else expandCall rest name ps qs

def expandOp (gates : List GateDef) : FlatOp → Except SpecErr (List Op)
  | .U c a b l q => .ok [.prim c (.U a b l q)]
  | .CX c a b => .ok [.prim c (.CX a b)]
  | .call c name ps qs => do .ok ((← expandCall gates name ps qs).map (Op.prim c))
  | .measure c q b => .ok [.measure c q b]
  | .barrier qs => .ok [.barrier qs]

def expandOps (gates : List GateDef) : List FlatOp → Except SpecErr (List Op)
  | [] => .ok []
  | o :: os => do .ok ((← expandOp gates o) ++ (← expandOps gates os))

/-- **denotation of a program**: number of qubits, number of classical bits, and the list of
built-in operations the standard prescribes -/
def denote (p : Program) : Except SpecErr (Nat × Nat × List Op) := do
  let (env, ops) ← flatten p
  .ok (env.qregs.total, env.cregs.total, ← expandOps env.gates ops)

/-! ## Strict recogniser for one-line statements -/

inductive Tok where
  | word (s : Str)     -- `[A-Za-z][A-Za-z0-9_]*`
  | nat (s : Str)      -- `[0-9]+`
  | real (s : Str)     -- the paper's `real`
  | str (s : Str)      -- `"…"`
  | sym (c : Char)     -- one of `; , ( ) [ ] { } + - * / ^`
  | arrow              -- `->`
  | eqeq               -- `==`
deriving DecidableEq, Repr

def isSymChar (c : Char) : Bool :=
  c == ';' || c == ',' || c == '(' || c == ')' || c == '[' || c == ']' || c == '{' || c == '}' ||
  c == '+' || c == '*' || c == '/' || c == '^'

/-- lexer state: the token being accumulated (characters in reverse) -/
inductive LexSt where
  | idle
  | word (acc : Str)
  | int (acc : Str)                 -- digits, no '.'
  | dot                             -- a lone '.', needs a digit
  | frac (acc : Str)                -- digits '.' digits  (a valid `real` so far)
  | expE (mant : Str) (e : Char)    -- real mantissa followed by `e`/`E`
  | expS (mant : Str) (e s : Char)  -- … followed by a sign
  | expD (acc : Str)                -- … followed by at least one digit (a valid `real`)
  | str (acc : Str)
  | minus
  | eq
  | slash                           -- a `/`: division sign, or the start of `//`
  | comment                         -- inside a `// …` comment (to the end of the line)
deriving DecidableEq, Repr

/-- tokens completed when the pending token ends (`none`: it cannot end here) -/
def LexSt.flush : LexSt → Option (List Tok)
  | .idle => some []
  | .word a => some [.word a.reverse]
  | .int a => some [.nat a.reverse]
  | .dot => none
  | .frac a => some [.real a.reverse]
  | .expE m e => some [.real m.reverse, .word [e]]
  | .expS m e s => some [.real m.reverse, .word [e], .sym s]
  | .expD a => some [.real a.reverse]
  | .str _ => none
  | .minus => some [.sym '-']
  | .eq => none
  | .slash => some [.sym '/']
  | .comment => some []

/-- a character that cannot continue the pending token: emit it and start afresh -/
def lexDelim (pending : Option (List Tok)) (c : Char) : Option (List Tok × LexSt) :=
  match pending with
  | none => none
  | some p =>
    if isSpace c then some (p, .idle)
    else if c == '/' then some (p, .slash)
    else if isSymChar c then some (p ++ [.sym c], .idle)
    else if isAlpha c then some (p, .word [c])
    else if isDigit c then some (p, .int [c])
    else if c == '.' then some (p, .dot)
    else if c == '"' then some (p, .str [])
    else if c == '-' then some (p, .minus)
    else if c == '=' then some (p, .eq)
    else none

/-- one step of the lexer: tokens emitted and next state (`none`: lexical error) -/
def lexStep (st : LexSt) (c : Char) : Option (List Tok × LexSt) :=
  match st with
  | .str a => if c == '"' then some ([.str a.reverse], .idle) else some ([], .str (c :: a))
  | .word a => if isIdChar c then some ([], .word (c :: a)) else lexDelim st.flush c
  | .int a =>
    if isDigit c then some ([], .int (c :: a))
    else if c == '.' then some ([], .frac (c :: a))
    else lexDelim st.flush c
  | .dot => if isDigit c then some ([], .frac [c, '.']) else none
  | .frac a =>
    if isDigit c then some ([], .frac (c :: a))
    else if c == 'e' || c == 'E' then some ([], .expE a c)
    else lexDelim st.flush c
  | .expE m e =>
    if isDigit c then some ([], .expD (c :: e :: m))
    else if c == '-' || c == '+' then some ([], .expS m e c)
    else if isIdChar c then some ([.real m.reverse], .word [c, e])
    else lexDelim st.flush c
  | .expS m e s =>
    if isDigit c then some ([], .expD (c :: s :: e :: m))
    else if s == '-' && c == '>' then some ([.real m.reverse, .word [e], .arrow], .idle)
    else lexDelim st.flush c
  | .expD a => if isDigit c then some ([], .expD (c :: a)) else lexDelim st.flush c
  | .minus => if c == '>' then some ([.arrow], .idle) else lexDelim st.flush c
  | .eq => if c == '=' then some ([.eqeq], .idle) else none
  | .slash => if c == '/' then some ([], .comment) else lexDelim st.flush c
  | .comment => some ([], .comment)
  | .idle => lexDelim (some []) c

/-- the single-pass (maximal-munch) lexer; `none` = not a token sequence of OpenQASM 2.0 -/
def lexGo : LexSt → Str → Option (List Tok)
  | st, [] => st.flush
  | st, c :: cs =>
    match lexStep st c with
    | none => none
    | some (out, st') => (lexGo st' cs).map (out ++ ·)

/-- run the lexer over a piece of text: tokens completed so far and the state reached -/
def lexRun : LexSt → Str → Option (List Tok × LexSt)
  | st, [] => some ([], st)
  | st, c :: cs =>
    match lexStep st c with
    | none => none
    | some (out, st') => (lexRun st' cs).map (fun r => (out ++ r.1, r.2))

/-- the text is exactly one numeric token of the standard: a `real`, or an `nninteger` -/
def isNumToken (s : Str) : Bool :=
  match lexRun .idle s with
  | some ([], st) => st.flush == some [.real s] || (st.flush == some [.nat s] && isNNInt s)
  | _ => false

def lexLine (s : Str) : Option (List Tok) := lexGo .idle s

/-! ### Parser (token level) -/

def keywords : List Str :=
  [cs!"OPENQASM", cs!"include", cs!"qreg", cs!"creg", cs!"gate", cs!"opaque", cs!"U", cs!"CX",
   cs!"measure", cs!"reset", cs!"barrier", cs!"if", cs!"pi", cs!"sin", cs!"cos", cs!"tan",
   cs!"exp", cs!"ln", cs!"sqrt"]

def unaryFns : List Str := [cs!"sin", cs!"cos", cs!"tan", cs!"exp", cs!"ln", cs!"sqrt"]

/-- `id := [a-z][A-Za-z0-9_]*`, not reserved -/
def isId (s : Str) : Bool :=
  match s with
  | c :: _ => isLower c && !keywords.contains s
  | [] => false

mutual
/-- `exp` with the usual precedences; fuel-bounded recursive descent -/
def pExp : Nat → List Tok → Option (Expr × List Tok)
  | 0, _ => none
  | f + 1, ts =>
    match pTerm f ts with
    | some (a, r) => pExpRest f a r
    | none => none
def pExpRest : Nat → Expr → List Tok → Option (Expr × List Tok)
  | 0, _, _ => none
  | f + 1, a, .sym '+' :: r =>
    match pTerm f r with
    | some (b, r') => pExpRest f (.add a b) r'
    | none => none
  | f + 1, a, .sym '-' :: r =>
    match pTerm f r with
    | some (b, r') => pExpRest f (.sub a b) r'
    | none => none
  | _ + 1, a, r => some (a, r)
def pTerm : Nat → List Tok → Option (Expr × List Tok)
  | 0, _ => none
  | f + 1, ts =>
    match pFactor f ts with
    | some (a, r) => pTermRest f a r
    | none => none
def pTermRest : Nat → Expr → List Tok → Option (Expr × List Tok)
  | 0, _, _ => none
  | f + 1, a, .sym '*' :: r =>
    match pFactor f r with
    | some (b, r') => pTermRest f (.mul a b) r'
    | none => none
  | f + 1, a, .sym '/' :: r =>
    match pFactor f r with
    | some (b, r') => pTermRest f (.div a b) r'
    | none => none
  | _ + 1, a, r => some (a, r)
def pFactor : Nat → List Tok → Option (Expr × List Tok)
  | 0, _ => none
  | f + 1, .sym '-' :: r =>
    match pFactor f r with
    | some (a, r') => some (.neg a, r')
    | none => none
  | f + 1, ts =>
    match pAtom f ts with
    | some (a, .sym '^' :: r) =>
      match pFactor f r with
      | some (b, r') => some (.pow a b, r')
      | none => none
    | other => other
def pAtom : Nat → List Tok → Option (Expr × List Tok)
  | 0, _ => none
  | _ + 1, .real s :: r => some (.lit s, r)
  | _ + 1, .nat s :: r => if isNNInt s then some (.lit s, r) else none
  | f + 1, .sym '(' :: r =>
    match pExp f r with
    | some (e, .sym ')' :: r') => some (e, r')
    | _ => none
  | f + 1, .word w :: r =>
    if w == cs!"pi" then some (.pi, r)
    else if unaryFns.contains w then
      match r with
      | .sym '(' :: r1 =>
        match pExp f r1 with
        | some (e, .sym ')' :: r') => some (.fn w e, r')
        | _ => none
      | _ => none
    else if isId w then some (.id w, r) else none
  | _ + 1, _ => none
end

/-- `explist` up to the closing parenthesis (which is consumed) -/
def pExpList : Nat → List Tok → Option (List Expr × List Tok)
  | 0, _ => none
  | f + 1, ts =>
    match pExp f ts with
    | some (e, .sym ')' :: r) => some ([e], r)
    | some (e, .sym ',' :: r) =>
      match pExpList f r with
      | some (es, r') => some (e :: es, r')
      | none => none
    | _ => none

/-- `(explist?)` if present -/
def pParams (ts : List Tok) : Option (List Expr × List Tok) :=
  match ts with
  | .sym '(' :: .sym ')' :: r => some ([], r)
  | .sym '(' :: r => pExpList (r.length + 1) r
  | r => some ([], r)

/-- `id` or `id[nninteger]` -/
def pArg : List Tok → Option (Arg × List Tok)
  | .word r :: .sym '[' :: .nat i :: .sym ']' :: rest =>
    if isId r && isNNInt i then some (.idx r (digitsVal i), rest) else none
  | .word r :: rest => if isId r then some (.whole r, rest) else none
  | _ => none

/-- `anylist` followed by `;` and the end of the line -/
def pArgsSemi : List Tok → Option (List Arg)
  | .word r :: .sym '[' :: .nat i :: .sym ']' :: .sym ',' :: rest =>
    if isId r && isNNInt i then (pArgsSemi rest).map (Arg.idx r (digitsVal i) :: ·) else none
  | .word r :: .sym '[' :: .nat i :: .sym ']' :: [.sym ';'] =>
    if isId r && isNNInt i then some [.idx r (digitsVal i)] else none
  | .word r :: .sym ',' :: rest => if isId r then (pArgsSemi rest).map (Arg.whole r :: ·) else none
  | .word r :: [.sym ';'] => if isId r then some [.whole r] else none
  | _ => none

/-- `idlist` terminated by `stop` (consumed) -/
def pIdList (stop : Tok) : List Tok → Option (List Str × List Tok)
  | .word a :: t :: rest =>
    if !isId a then none
    else if t == stop then some ([a], rest)
    else if t == .sym ',' then (pIdList stop rest).map (fun (l, r) => (a :: l, r))
    else none
  | _ => none

/-- formal parameter list of a definition: `( idlist? )` if present -/
def pFormals (ts : List Tok) : Option (List Str × List Tok) :=
  match ts with
  | .sym '(' :: .sym ')' :: r => some ([], r)
  | .sym '(' :: r => pIdList (.sym ')') r
  | r => some ([], r)

/-- a quantum operation with its terminating `;`, to the end of the line -/
def pQOp (ts : List Tok) : Option QOp :=
  match ts with
  | .word w :: r =>
    if w == cs!"U" then
      match pParams r with
      | some ([a, b, c], r') =>
        match pArgsSemi r' with
        | some [q] => some (.U a b c q)
        | _ => none
      | _ => none
    else if w == cs!"CX" then
      match pArgsSemi r with
      | some [a, b] => some (.CX a b)
      | _ => none
    else if w == cs!"measure" then
      match pArg r with
      | some (q, .arrow :: r') =>
        match pArgsSemi r' with
        | some [c] => some (.measure q c)
        | _ => none
      | _ => none
    else if w == cs!"reset" then
      match pArgsSemi r with
      | some [q] => some (.reset q)
      | _ => none
    else if isId w then
      match r with
      | .sym '(' :: _ =>
        match pParams r with
        | some (ps, r') => (pArgsSemi r').map (QOp.call w ps ·)
        | none => none
      | _ => (pArgsSemi r).map (QOp.call w [] ·)
    else none
  | _ => none

/-- formal qubit names of a body statement: `idlist ;` -/
def pGArgs (ts : List Tok) : Option (List Str × List Tok) := pIdList (.sym ';') ts

/-- body of a one-line gate definition up to the closing brace at the end of the line -/
def pBody : Nat → List Tok → Option (List GOp)
  | 0, _ => none
  | _ + 1, [.sym '}'] => some []
  | f + 1, .word w :: r =>
    let one : Option (GOp × List Tok) :=
      if w == cs!"U" then
        match pParams r with
        | some ([a, b, c], r') =>
          match pGArgs r' with
          | some ([q], r'') => some (.U a b c q, r'')
          | _ => none
        | _ => none
      else if w == cs!"CX" then
        match pGArgs r with
        | some ([a, b], r') => some (.CX a b, r')
        | _ => none
      else if w == cs!"barrier" then
        match pGArgs r with
        | some (qs, r') => some (.barrier qs, r')
        | none => none
      else if isId w then
        match r with
        | .sym '(' :: _ =>
          match pParams r with
          | some (ps, r') => (pGArgs r').map (fun (qs, r'') => (GOp.call w ps qs, r''))
          | none => none
        | _ => (pGArgs r).map (fun (qs, r') => (GOp.call w [] qs, r'))
      else none
    match one with
    | some (g, r') => (pBody f r').map (g :: ·)
    | none => none
  | _ + 1, _ => none

/-- `id [ nninteger ] ;` of a register declaration -/
def pRegDecl (ts : List Tok) : Option (Str × Nat) :=
  match ts with
  | [.word r, .sym '[', .nat k, .sym ']', .sym ';'] =>
    if isId r && isNNInt k then some (r, digitsVal k) else none
  | _ => none

/-- one-line statement; `some none` = blank line -/
def parseToks (ts : List Tok) : Option (Option Stmt) :=
  match ts with
  | [] => some none
  | .word w :: r =>
    if w == cs!"OPENQASM" then
      match r with
      | [.real v, .sym ';'] => if v == cs!"2.0" then some (some .version) else none
      | _ => none
    else if w == cs!"include" then
      match r with
      | [.str f, .sym ';'] => some (some (.incl f))
      | _ => none
    else if w == cs!"qreg" then (pRegDecl r).map (fun (n, k) => some (.qreg n k))
    else if w == cs!"creg" then (pRegDecl r).map (fun (n, k) => some (.creg n k))
    else if w == cs!"gate" then
      match r with
      | .word name :: r1 =>
        if !isId name then none else
        match pFormals r1 with
        | some (ps, r2) =>
          match pIdList (.sym '{') r2 with
          | some (qs, r3) => (pBody (r3.length + 1) r3).map (fun b => some (.gate ⟨name, ps, qs, b⟩))
          | none => none
        | none => none
      | _ => none
    else if w == cs!"opaque" then
      match r with
      | .word name :: r1 =>
        if !isId name then none else
        match pFormals r1 with
        | some (ps, r2) =>
          match pIdList (.sym ';') r2 with
          | some (qs, []) => some (some (.opaque name ps qs))
          | _ => none
        | none => none
      | _ => none
    else if w == cs!"barrier" then (pArgsSemi r).map (fun qs => some (.barrier qs))
    else if w == cs!"if" then
      match r with
      | .sym '(' :: .word c :: .eqeq :: .nat k :: .sym ')' :: r' =>
        if isId c && isNNInt k then (pQOp r').map (fun op => some (.ifc c (digitsVal k) op)) else none
      | _ => none
    else (pQOp ts).map (fun op => some (.qop op))
  | _ => none

/-- **the strict recogniser for one line**: `none` = rejected, `some none` = blank / comment,
`some (some s)` = the statement -/
def parseLine (s : Str) : Option (Option Stmt) :=
  match lexLine s with
  | some ts => parseToks ts
  | none => none

def parseLines : List Str → Option Program
  | [] => some []
  | l :: ls =>
    match parseLine l, parseLines ls with
    | some (some s), some p => some (s :: p)
    | some none, some p => some p
    | _, _ => none

/-- the program starts with the version statement -/
def headerOk : Program → Bool
  | .version :: rest => !rest.contains .version
  | _ => false

/-- **strict OpenQASM 2.0 acceptance of a text** given as lines: every line is a statement of
the grammar, the header is present, and the static semantics (`flatten`) has no complaint -/
def acceptProgram (lines : List Str) : Bool :=
  match parseLines lines with
  | some p => headerOk p && (match flatten p with | .ok _ => true | .error _ => false)
  | none => false

/-- qubit selector of an `add_gate` keyword in the importer's `_add_qiskit_gates`
(`regs[i]`, `regs`, `regs[:k]`, `[regs[i], …]`; used by the generated table) -/
inductive Sel where
  | none | all | one (i : Nat) | pre (k : Nat) | many (is : List Nat)
deriving DecidableEq, Repr

end QipVerif.Qasm
