import QipVerif.Model.Sim
/-!
# Pulse objects held by a processor, noise objects, `get_noisy_pulses` (property C16)

Import-free (no Mathlib), executable.

A `Pulse` object of the code holds its ideal control element and two Python LISTS, `coherent_noise` and
`lindblad_noise`, onto which the noise objects append noise elements (`add_coherent_noise`, `add_control_noise`,
`add_lindblad_noise`).  Here a pulse object is a cell of `pulses` holding REFERENCES to two cells of a heap of
lists (a noise element is an `Int` token), and `Processor.pulses` is a list of references to pulse objects — so
"a shallow copy of a Pulse shares its noise lists with the original" is representable.

`Processor.get_noisy_pulses` = `process_noise(deepcopy(self.pulses), self.noise, …)`;
`process_noise` = copy the pulses, create the `systematic_noise` pulse, let every noise object append.
Which copies are made is read from the source (`PCfg`).
-/
namespace QipVerif.Sim
open QipVerif.Heap

/-- a `Pulse` object: the ideal element (a token: operator, targets, tlist, coeff — no noise object writes it) and
the two list objects -/
structure PulseObj where
  ideal : Int
  coh : Ref
  lind : Ref
deriving DecidableEq, Repr

/-- the object store: noise-element lists and pulse objects -/
structure PWorld where
  lists : Heap
  pulses : List PulseObj
deriving DecidableEq, Repr

/-- how a list of pulses is handed on: `deepcopy(pulses)`, `[copy(p) for p in pulses]`, or the list itself -/
inductive CopyKind
  | deep | shallow | alias
deriving DecidableEq, Repr

/-- the variant of the code -/
structure PCfg where
  /-- `Processor.get_noisy_pulses` passes `deepcopy(self.pulses)`; `false` = `self.pulses` itself -/
  procCopy : Bool
  /-- what `process_noise` does with the pulses it is given -/
  noiseCopy : CopyKind
deriving DecidableEq, Repr

def PWorld.pulse? (w : PWorld) (r : Ref) : Option PulseObj := w.pulses[r]?

/-- a new pulse object with two new lists -/
def allocPulse (w : PWorld) (ideal : Int) (coh lind : List Int) : PWorld × Ref :=
  ({ lists := ⟨w.lists.cells ++ [coh, lind]⟩,
     pulses := w.pulses ++ [⟨ideal, w.lists.size, w.lists.size + 1⟩] }, w.pulses.length)

/-- one pulse handed on -/
def copyPulse (kind : CopyKind) (w : PWorld) (r : Ref) : PWorld × Option Ref :=
  match kind with
  | .alias => (w, some r)
  | .shallow =>
    match w.pulse? r with
    | some p => ({ w with pulses := w.pulses ++ [p] }, some w.pulses.length)
    | none => (w, none)
  | .deep =>
    match w.pulse? r with
    | some p => let a := allocPulse w p.ideal (w.lists.get p.coh) (w.lists.get p.lind); (a.1, some a.2)
    | none => (w, none)

def copyPulses (kind : CopyKind) : PWorld → List Ref → PWorld × List Ref
  | w, [] => (w, [])
  | w, r :: rs =>
    let c := copyPulse kind w r
    let rest := copyPulses kind c.1 rs
    (rest.1, c.2.toList ++ rest.2)

/-- what a noise object does, one append at a time -/
inductive Act
  | amp (i : Nat) (c : Int)      -- `ControlAmpNoise`: `pulses[i].add_coherent_noise(…, pulses[i].coeff * c)`
  | rand (i : Nat)               -- `RandomNoise`: `pulses[i].add_coherent_noise(…, rand_gen(…))` (one draw)
  | coh (i : Nat) (tok : Int)    -- `pulses[i].add_coherent_noise(…)` with a coefficient of the noise object's own
  | lind (i : Nat) (tok : Int)   -- `pulses[i].add_lindblad_noise(…)`
  | sysCoh (tok : Int)           -- `systematic_noise.add_control_noise(…)`
  | sysLind (tok : Int)          -- `systematic_noise.add_lindblad_noise(…)`
deriving DecidableEq, Repr

/-- the noise classes (tokens stand for the elements they build) -/
inductive Noise
  | amp (indices : Option (List Nat)) (c : Int)     -- `ControlAmpNoise(coeff=c, indices=…)`
  | random (indices : Option (List Nat))            -- `RandomNoise(dt, rand_gen, indices=…)`
  | relax (toks : List Int)                         -- `RelaxationNoise`: its collapse operators (device noise only)
  | deco (toks : List Int)                          -- `DecoherenceNoise` (device noise only)
  | zz (toks : List Int)                            -- `ZZCrossTalk`: one control-noise element per neighbouring pair
  | user (acts : List Act)                          -- a user `Noise` subclass: any sequence of appends
deriving DecidableEq, Repr

/-- `noise._apply_noise(pulses=…)` for `k` pulses, as a sequence of appends (`dn` = `device_noise`) -/
def Noise.acts (k : Nat) (dn : Bool) : Noise → List Act
  | .amp idx c => (idx.getD (List.range k)).map fun i => Act.amp i c
  | .random idx => (idx.getD (List.range k)).map Act.rand
  | .relax toks => if dn then toks.map Act.sysLind else []
  | .deco toks => if dn then toks.map Act.sysLind else []
  | .zz toks => toks.map Act.sysCoh
  | .user acts => acts

def allActs (k : Nat) (dn : Bool) (noise : List Noise) : List Act := noise.flatMap (Noise.acts k dn)

/-- `list.append(tok)` on the list object `r` -/
def appendTo (w : PWorld) (r : Ref) (tok : Int) : PWorld :=
  { w with lists := w.lists.put r (w.lists.get r ++ [tok]) }

/-- the store and the state of the random generator (the values `rand_gen` will return) -/
structure NState where
  w : PWorld
  rng : List Int
deriving DecidableEq, Repr

/-- one append (`some .index` = `IndexError`: `pulses[i]` does not exist) -/
def applyAct (noisy : List Ref) (sys : Ref) (s : NState) : Act → NState × Option Err
  | .amp i c =>
    match (noisy[i]?).bind s.w.pulse? with
    | some p => ({ s with w := appendTo s.w p.coh (c * p.ideal) }, none)
    | none => (s, some .index)
  | .rand i =>
    match (noisy[i]?).bind s.w.pulse? with
    | some p => ({ w := appendTo s.w p.coh (s.rng.headD 0), rng := s.rng.tail }, none)
    | none => (s, some .index)
  | .coh i tok =>
    match (noisy[i]?).bind s.w.pulse? with
    | some p => ({ s with w := appendTo s.w p.coh tok }, none)
    | none => (s, some .index)
  | .lind i tok =>
    match (noisy[i]?).bind s.w.pulse? with
    | some p => ({ s with w := appendTo s.w p.lind tok }, none)
    | none => (s, some .index)
  | .sysCoh tok =>
    match s.w.pulse? sys with
    | some p => ({ s with w := appendTo s.w p.coh tok }, none)
    | none => (s, some .index)
  | .sysLind tok =>
    match s.w.pulse? sys with
    | some p => ({ s with w := appendTo s.w p.lind tok }, none)
    | none => (s, some .index)

/-- the appends in order; the first exception ends the call (what was appended before stays) -/
def applyActs (noisy : List Ref) (sys : Ref) : NState → List Act → NState × Option Err
  | s, [] => (s, none)
  | s, a :: as =>
    match applyAct noisy sys s a with
    | (s', none) => applyActs noisy sys s' as
    | (s', some e) => (s', some e)

/-- `process_noise(pulses, noise_list, …, device_noise=dn)`: the pulses returned (`systematic_noise` last when
`device_noise`) or the exception -/
def processNoise (cfg : PCfg) (s : NState) (pulses : List Ref) (noise : List Noise) (dn : Bool) :
    NState × Except Err (List Ref) :=
  let c := copyPulses cfg.noiseCopy s.w pulses
  let a := allocPulse c.1 0 [] []
  let r := applyActs c.2 a.2 { s with w := a.1 } (allActs c.2.length dn noise)
  (r.1, match r.2 with
        | none => .ok (c.2 ++ (if dn then [a.2] else []))
        | some e => .error e)

/-- a processor: the pulses it holds, its noise objects; the store; the random generator -/
structure PState where
  w : PWorld
  held : List Ref
  noise : List Noise
  rng : List Int
deriving DecidableEq, Repr

/-- `processor.get_noisy_pulses(device_noise=dn)` — also the first step of `get_qobjevo(noisy=True)`, `run_state`
and `plot_pulses(show noise)` -/
def getNoisy (cfg : PCfg) (st : PState) (dn : Bool) : PState × Except Err (List Ref) :=
  let c := if cfg.procCopy then copyPulses .deep st.w st.held else (st.w, st.held)
  let r := processNoise cfg { w := c.1, rng := st.rng } c.2 st.noise dn
  ({ st with w := r.1.w, rng := r.1.rng }, r.2)

/-- a history of noisy evaluations on ONE processor -/
def getNoisyAll (cfg : PCfg) : PState → List Bool → PState
  | st, [] => st
  | st, dn :: dns => getNoisyAll cfg (getNoisy cfg st dn).1 dns

/-! ## The LIST of noise objects (`process_noise` appends `RelaxationNoise(t1, t2)` to the list it works on) -/

/-- the list `process_noise` iterates over -/
def usedNoise (noise : List Noise) : Option (List Int) → List Noise
  | some t => noise ++ [Noise.relax t]
  | none => noise

/-- a noisy evaluation with relaxation times given (`relax` = the collapse operators of `RelaxationNoise(t1, t2)`,
`none` when `t1` and `t2` are `None`).  `lcopy`: a copy of the LIST of noise objects is made somewhere between its owner
(the caller of `process_noise`, or the hardware model whose `get_noise` hands it out) and the `append`; without it
the owner's list itself grows. -/
def getNoisyT (cfg : PCfg) (lcopy : Bool) (relax : Option (List Int)) (st : PState) (dn : Bool) :
    PState × Except Err (List Ref) :=
  let r := getNoisy cfg { st with noise := usedNoise st.noise relax } dn
  ({ r.1 with noise := if lcopy then st.noise else usedNoise st.noise relax }, r.2)

def getNoisyTAll (cfg : PCfg) (lcopy : Bool) (relax : Option (List Int)) : PState → List Bool → PState
  | st, [] => st
  | st, dn :: dns => getNoisyTAll cfg lcopy relax (getNoisyT cfg lcopy relax st dn).1 dns

/-! ## Values (what deep snapshots see) -/

structure PVal where
  ideal : Int
  coh : List Int
  lind : List Int
deriving DecidableEq, Repr

def pulseVal (w : PWorld) (r : Ref) : Option PVal :=
  (w.pulse? r).map fun p => ⟨p.ideal, w.lists.get p.coh, w.lists.get p.lind⟩

def pulsesVal (w : PWorld) (rs : List Ref) : List (Option PVal) := rs.map (pulseVal w)

/-- the values of the pulses `rs` (dangling references skipped; none for a well-formed processor) -/
def valsOf (w : PWorld) (rs : List Ref) : List PVal := rs.filterMap (pulseVal w)

/-- the value of what a call returned -/
def retVal (w : PWorld) : Except Err (List Ref) → Except Err (List (Option PVal))
  | .ok rs => .ok (pulsesVal w rs)
  | .error e => .error e

/-! ## The same on values only: what a processor whose pulses have the values `vals` returns -/

structure VState where
  vals : List PVal
  sys : PVal
  rng : List Int
deriving DecidableEq, Repr

def PVal.addCoh (v : PVal) (t : Int) : PVal := { v with coh := v.coh ++ [t] }
def PVal.addLind (v : PVal) (t : Int) : PVal := { v with lind := v.lind ++ [t] }

def actVal (s : VState) : Act → VState × Option Err
  | .amp i c =>
    match s.vals[i]? with
    | some v => ({ s with vals := s.vals.set i (v.addCoh (c * v.ideal)) }, none)
    | none => (s, some .index)
  | .rand i =>
    match s.vals[i]? with
    | some v => ({ s with vals := s.vals.set i (v.addCoh (s.rng.headD 0)), rng := s.rng.tail }, none)
    | none => (s, some .index)
  | .coh i tok =>
    match s.vals[i]? with
    | some v => ({ s with vals := s.vals.set i (v.addCoh tok) }, none)
    | none => (s, some .index)
  | .lind i tok =>
    match s.vals[i]? with
    | some v => ({ s with vals := s.vals.set i (v.addLind tok) }, none)
    | none => (s, some .index)
  | .sysCoh tok => ({ s with sys := s.sys.addCoh tok }, none)
  | .sysLind tok => ({ s with sys := s.sys.addLind tok }, none)

def actsVal : VState → List Act → VState × Option Err
  | s, [] => (s, none)
  | s, a :: as =>
    match actVal s a with
    | (s', none) => actsVal s' as
    | (s', some e) => (s', some e)

/-- the value `get_noisy_pulses(device_noise=dn)` returns for held pulses of values `vals`, and the generator's
state afterwards -/
def noisyVal (vals : List PVal) (noise : List Noise) (dn : Bool) (rng : List Int) :
    Except Err (List (Option PVal)) × List Int :=
  let r := actsVal { vals := vals, sys := ⟨0, [], []⟩, rng := rng } (allActs vals.length dn noise)
  (match r.2 with
   | none => .ok ((r.1.vals ++ (if dn then [r.1.sys] else [])).map some)
   | some e => .error e, r.1.rng)

/-- no random draw: the noise objects are deterministic -/
def Noise.det : Noise → Bool
  | .random _ => false
  | .user acts => acts.all fun a => match a with | .rand _ => false | _ => true
  | _ => true

end QipVerif.Sim
