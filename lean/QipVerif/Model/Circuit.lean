import QipVerif.Num.Cyc
import QipVerif.Model.Embed
/-!
# Circuit IR, exact gate library and exact denotation (shared by C01 C03 C06 C07 C09 C13)

Import-free and executable.  Angles are kept exact: a fixed part in units of π/8 plus an
optional symbolic parameter (the argument of an input gate) with a rational coefficient.
The exact gate library `gateE` covers every fixed-angle gate with entries in ℤ[ζ₁₆][1/2];
it is validated against the implementation exhaustively (all names, all 16 residues of the
angle) by the C09 correspondence.
-/
namespace QipVerif

/-- angle = (cn/cd)·θ_sym + p8·π/8 -/
structure Ang where
  sym : Option Nat := none
  cn : Int := 0
  cd : Nat := 1
  p8 : Int := 0
deriving DecidableEq, Repr

namespace Ang
def pi8 (n : Int) : Ang := { p8 := n }
def zero : Ang := {}
def symb (j : Nat) : Ang := { sym := some j, cn := 1, cd := 1 }
def isFixed (a : Ang) : Bool := a.sym.isNone || a.cn == 0
def neg (a : Ang) : Ang := { a with cn := -a.cn, p8 := -a.p8 }
/-- a/2 (only used on symbolic angles and on fixed angles with even p8) -/
def half (a : Ang) : Ang := { a with cd := a.cd * 2, p8 := a.p8 / 2 }
end Ang

/-- gate names of the library (kernel-friendly enumeration; anything else is `other`) -/
inductive GName
  | RX
  | RY
  | RZ
  | PHASEGATE
  | CRX
  | CRY
  | CRZ
  | CPHASE
  | X
  | Y
  | Z
  | S
  | T
  | SNOT
  | SQRTNOT
  | IDLE
  | CNOT
  | CSIGN
  | CZ
  | CY
  | CS
  | CT
  | SWAP
  | ISWAP
  | SQRTSWAP
  | SQRTISWAP
  | BERKELEY
  | FREDKIN
  | TOFFOLI
  | GLOBALPHASE
  | SWAPalpha
  | R
  | QASMU
  | MS
  | RZX
  | other (s : String)
deriving DecidableEq, Repr

namespace GName
def ofString (s : String) : GName :=
  if s == "RX" then .RX else
  if s == "RY" then .RY else
  if s == "RZ" then .RZ else
  if s == "PHASEGATE" then .PHASEGATE else
  if s == "CRX" then .CRX else
  if s == "CRY" then .CRY else
  if s == "CRZ" then .CRZ else
  if s == "CPHASE" then .CPHASE else
  if s == "X" then .X else
  if s == "Y" then .Y else
  if s == "Z" then .Z else
  if s == "S" then .S else
  if s == "T" then .T else
  if s == "SNOT" then .SNOT else
  if s == "SQRTNOT" then .SQRTNOT else
  if s == "IDLE" then .IDLE else
  if s == "CNOT" then .CNOT else
  if s == "CSIGN" then .CSIGN else
  if s == "CZ" then .CZ else
  if s == "CY" then .CY else
  if s == "CS" then .CS else
  if s == "CT" then .CT else
  if s == "SWAP" then .SWAP else
  if s == "ISWAP" then .ISWAP else
  if s == "SQRTSWAP" then .SQRTSWAP else
  if s == "SQRTISWAP" then .SQRTISWAP else
  if s == "BERKELEY" then .BERKELEY else
  if s == "FREDKIN" then .FREDKIN else
  if s == "TOFFOLI" then .TOFFOLI else
  if s == "GLOBALPHASE" then .GLOBALPHASE else
  if s == "SWAPalpha" then .SWAPalpha else
  if s == "R" then .R else
  if s == "QASMU" then .QASMU else
  if s == "MS" then .MS else
  if s == "RZX" then .RZX else
  .other s
def toString : GName → String
  | .RX => "RX"
  | .RY => "RY"
  | .RZ => "RZ"
  | .PHASEGATE => "PHASEGATE"
  | .CRX => "CRX"
  | .CRY => "CRY"
  | .CRZ => "CRZ"
  | .CPHASE => "CPHASE"
  | .X => "X"
  | .Y => "Y"
  | .Z => "Z"
  | .S => "S"
  | .T => "T"
  | .SNOT => "SNOT"
  | .SQRTNOT => "SQRTNOT"
  | .IDLE => "IDLE"
  | .CNOT => "CNOT"
  | .CSIGN => "CSIGN"
  | .CZ => "CZ"
  | .CY => "CY"
  | .CS => "CS"
  | .CT => "CT"
  | .SWAP => "SWAP"
  | .ISWAP => "ISWAP"
  | .SQRTSWAP => "SQRTSWAP"
  | .SQRTISWAP => "SQRTISWAP"
  | .BERKELEY => "BERKELEY"
  | .FREDKIN => "FREDKIN"
  | .TOFFOLI => "TOFFOLI"
  | .GLOBALPHASE => "GLOBALPHASE"
  | .SWAPalpha => "SWAPalpha"
  | .R => "R"
  | .QASMU => "QASMU"
  | .MS => "MS"
  | .RZX => "RZX"
  | .other s => s
end GName

structure Gate where
  name : GName
  targets : List Nat := []
  controls : List Nat := []
  arg : Ang := {}
deriving DecidableEq, Repr

namespace Gate
/-- `get_all_qubits`: controls first, then targets -/
def qubits (g : Gate) : List Nat := g.controls ++ g.targets
end Gate

/-! ## Exact compact matrices (ordering: controls then targets, first qubit most significant) -/
namespace GateE
open Cyc

private def z : Cyc := Cyc.zero
private def o : Cyc := Cyc.one
private def i : Cyc := Cyc.I
private def two : Cyc := Cyc.ofInt 2

/-- RX(nπ/4), scaled by 2 -/
def rx (n : Int) : DMat := ⟨1, [[cos2 n, neg (mul i (sin2 n))], [neg (mul i (sin2 n)), cos2 n]]⟩
def ry (n : Int) : DMat := ⟨1, [[cos2 n, neg (sin2 n)], [sin2 n, cos2 n]]⟩
def rz (n : Int) : DMat := ⟨0, [[zpow (-n), z], [z, zpow n]]⟩
/-- PHASEGATE(nπ/4) = diag(1, e^{inπ/4}) -/
def phasegate (n : Int) : DMat := ⟨0, [[o, z], [z, zpow (2 * n)]]⟩
def x : DMat := ⟨0, [[z, o], [o, z]]⟩
def y : DMat := ⟨0, [[z, neg i], [i, z]]⟩
def zg : DMat := ⟨0, [[o, z], [z, neg o]]⟩
def s : DMat := ⟨0, [[o, z], [z, i]]⟩
def t : DMat := ⟨0, [[o, z], [z, zpow 2]]⟩
def snot : DMat := ⟨1, [[sqrt2, sqrt2], [sqrt2, neg sqrt2]]⟩
/-- [[½+½i, ½−½i],[½−½i, ½+½i]] -/
def sqrtnot : DMat := ⟨1, [[add o i, sub o i], [sub o i, add o i]]⟩
def idle : DMat := ⟨0, [[o, z], [z, o]]⟩
def cnot : DMat := ⟨0, [[o,z,z,z],[z,o,z,z],[z,z,z,o],[z,z,o,z]]⟩
def csign : DMat := ⟨0, [[o,z,z,z],[z,o,z,z],[z,z,o,z],[z,z,z,neg o]]⟩
def cy : DMat := ⟨0, [[o,z,z,z],[z,o,z,z],[z,z,z,neg i],[z,z,i,z]]⟩
def cs : DMat := ⟨0, [[o,z,z,z],[z,o,z,z],[z,z,o,z],[z,z,z,i]]⟩
def ct : DMat := ⟨0, [[o,z,z,z],[z,o,z,z],[z,z,o,z],[z,z,z,zpow 2]]⟩
def swap : DMat := ⟨0, [[o,z,z,z],[z,z,o,z],[z,o,z,z],[z,z,z,o]]⟩
def iswap : DMat := ⟨0, [[o,z,z,z],[z,z,i,z],[z,i,z,z],[z,z,z,o]]⟩
def sqrtswap : DMat :=
  ⟨1, [[two,z,z,z],[z,add o i,sub o i,z],[z,sub o i,add o i,z],[z,z,z,two]]⟩
def sqrtiswap : DMat :=
  ⟨1, [[two,z,z,z],[z,sqrt2,mul i sqrt2,z],[z,mul i sqrt2,sqrt2,z],[z,z,z,two]]⟩
def berkeley : DMat :=
  ⟨1, [[cos2 1, z, z, mul i (sin2 1)],
       [z, cos2 3, mul i (sin2 3), z],
       [z, mul i (sin2 3), cos2 3, z],
       [mul i (sin2 1), z, z, cos2 1]]⟩
def perm8 (p : List Nat) : DMat :=
  ⟨0, p.map fun j => (List.range 8).map fun c => if c = j then o else z⟩
def fredkin : DMat := perm8 [0,1,2,3,4,6,5,7]
def toffoli : DMat := perm8 [0,1,2,3,4,5,7,6]
/-- controlled rotation / phase: block_diag(1, U) -/
def ctrl (u : DMat) : DMat :=
  let s := Cyc.ofInt (2 ^ u.e)
  ⟨u.e, [[s,z,z,z],[z,s,z,z],[z,z,u.m.get 0 0,u.m.get 0 1],[z,z,u.m.get 1 0,u.m.get 1 1]]⟩
end GateE

/-- `some (arity, matrix)` for a library gate with a fixed angle `n8·π/8`; rotations need
an even `n8` (multiples of π/4) to stay inside ℤ[ζ₁₆]. -/
def gateE (name : GName) (n8 : Int) : Option (Nat × DMat) :=
  let rot (f : Int → DMat) : Option (Nat × DMat) := if n8 % 2 = 0 then some (1, f (n8 / 2)) else none
  let crot (f : Int → DMat) : Option (Nat × DMat) :=
    if n8 % 2 = 0 then some (2, GateE.ctrl (f (n8 / 2))) else none
  match name with
  | .RX => rot GateE.rx
  | .RY => rot GateE.ry
  | .RZ => rot GateE.rz
  | .PHASEGATE => rot GateE.phasegate
  | .CRX => crot GateE.rx
  | .CRY => crot GateE.ry
  | .CRZ => crot GateE.rz
  | .CPHASE => crot GateE.phasegate
  | .X => some (1, GateE.x)
  | .Y => some (1, GateE.y)
  | .Z => some (1, GateE.zg)
  | .S => some (1, GateE.s)
  | .T => some (1, GateE.t)
  | .SNOT => some (1, GateE.snot)
  | .SQRTNOT => some (1, GateE.sqrtnot)
  | .IDLE => some (1, GateE.idle)
  | .CNOT => some (2, GateE.cnot)
  | .CSIGN => some (2, GateE.csign)
  | .CZ => some (2, GateE.csign)
  | .CY => some (2, GateE.cy)
  | .CS => some (2, GateE.cs)
  | .CT => some (2, GateE.ct)
  | .SWAP => some (2, GateE.swap)
  | .ISWAP => some (2, GateE.iswap)
  | .SQRTSWAP => some (2, GateE.sqrtswap)
  | .SQRTISWAP => some (2, GateE.sqrtiswap)
  | .BERKELEY => some (2, GateE.berkeley)
  | .FREDKIN => some (3, GateE.fredkin)
  | .TOFFOLI => some (3, GateE.toffoli)
  | _ => none

/-! ## Exact embedding and denotation on a k-qubit register -/

/-- 2^k × 2^k matrix of `U` (on `qs.length` qubits) placed on qubits `qs` of a k-qubit register:
entry (X,Y) = U[X|qs, Y|qs] · δ(rest) — C08's specification, evaluated. -/
def embedE (k : Nat) (qs : List Nat) (U : CMat) : CMat :=
  let dims := List.replicate k 2
  let od := List.replicate qs.length 2
  let n := 2 ^ k
  (List.range n).map fun X =>
    let x := Embed.digits dims X
    (List.range n).map fun Y =>
      match Embed.specEntry k qs x (Embed.digits dims Y) with
      | some (a, b) => U.get (Embed.undigits od a) (Embed.undigits od b)
      | none => Cyc.zero

/-- the operator a gate applies on a k-qubit register (`none`: unknown name / symbolic angle /
malformed placement) -/
def gateDenE (k : Nat) (g : Gate) : Option DMat :=
  if !g.arg.isFixed then none else
  if g.name = .GLOBALPHASE then some (DMat.smul (Cyc.zpow g.arg.p8) (DMat.ident (2 ^ k))) else
  match gateE g.name g.arg.p8 with
  | none => none
  | some (m, U) =>
    let qs := g.qubits
    if qs.length = m ∧ qs.Nodup ∧ qs.all (· < k) then some ⟨U.e, embedE k qs U.m⟩ else none

/-- denotation of a circuit (first gate applied first: later gates multiply on the left) -/
def denE (k : Nat) : List Gate → Option DMat
  | [] => some (DMat.ident (2 ^ k))
  | g :: gs =>
    match gateDenE k g, denE k gs with
    | some G, some R => some (DMat.mul (2 ^ k) R G)
    | _, _ => none

/-- two circuits have the same exact unitary (global phase included) -/
def sameDenE (k : Nat) (a b : List Gate) : Bool :=
  match denE k a, denE k b with
  | some A, some B => DMat.eqv A B
  | _, _ => false

end QipVerif
