import QipVerif.Model.Sim
/-!
# Gate objects, circuits as lists of references, noise objects (property C16)

Import-free (no Mathlib), executable.

* A `Gate` object of the code is a mutable object holding two mutable lists (`targets`, `controls`).  Here a gate
  object is a cell of `gates` with REFERENCES into the heap of int lists, and a circuit's `gates` attribute is a
  list of references to gate objects — so "the result shares a `Gate` (or a targets list) with the argument" is
  representable.  A transformation is described by what it emits, item by item (`Item`), followed — or not — by
  the final `deepcopy` of the result's gate list.
* `RelaxationNoise.t1/t2` and `DecoherenceNoise.coeff` with the rewriting done by `get_noisy_pulses`.
-/
namespace QipVerif.Sim
open QipVerif.Heap

structure GateObj where
  name : Nat
  targets : Ref
  controls : Option Ref
deriving DecidableEq, Repr

/-- the object store: lists of ints and gate objects -/
structure OWorld where
  lists : Heap
  gates : List GateObj
deriving DecidableEq, Repr

/-- a circuit's `gates`: references to gate objects -/
abbrev Circ := List Ref

/-- what a transformation puts into its result for one step -/
inductive Item
  | keep (i : Nat)                     -- `result.gates.append(gate_i)`: the argument's gate object itself
  | relist (i : Nat) (name : Nat)      -- `add_gate(name, gate_i.targets, gate_i.controls)`: new gate, SAME lists
  | fresh (name : Nat) (targets : List Int) (controls : Option (List Int))   -- a gate built from new lists
deriving DecidableEq, Repr

def OWorld.gate? (w : OWorld) (r : Ref) : Option GateObj := w.gates[r]?

/-- a new gate object with new lists -/
def allocGate (w : OWorld) (name : Nat) (targets : List Int) (controls : Option (List Int)) : OWorld × Ref :=
  let l1 := w.lists.alloc targets
  match controls with
  | none => ({ lists := l1.1, gates := w.gates ++ [⟨name, l1.2, none⟩] }, w.gates.length)
  | some cs =>
    let l2 := l1.1.alloc cs
    ({ lists := l2.1, gates := w.gates ++ [⟨name, l1.2, some l2.2⟩] }, w.gates.length)

/-- emit one item into the result (`none`: the plan refers to a gate the argument does not have) -/
def emit (arg : Circ) (w : OWorld) : Item → OWorld × Option Ref
  | .keep i => (w, arg[i]?)
  | .relist i name =>
    match arg[i]? >>= w.gate? with
    | some g => ({ w with gates := w.gates ++ [⟨name, g.targets, g.controls⟩] }, some w.gates.length)
    | none => (w, none)
  | .fresh name ts cs => let r := allocGate w name ts cs; (r.1, some r.2)

def emitAll (arg : Circ) : OWorld → List Item → OWorld × Circ
  | w, [] => (w, [])
  | w, it :: its =>
    let r := emit arg w it
    let rest := emitAll arg r.1 its
    (rest.1, r.2.toList ++ rest.2)

/-- `deepcopy` of one gate object: new object, new lists, same contents -/
def copyGate (w : OWorld) (r : Ref) : OWorld × Option Ref :=
  match w.gate? r with
  | none => (w, none)
  | some g =>
    let res := allocGate w g.name (w.lists.get g.targets) (g.controls.map w.lists.get)
    (res.1, some res.2)

/-- `result.gates = deepcopy(result.gates)` -/
def copyAll : OWorld → Circ → OWorld × Circ
  | w, [] => (w, [])
  | w, r :: rs =>
    let c := copyGate w r
    let rest := copyAll c.1 rs
    (rest.1, c.2.toList ++ rest.2)

/-- a transformation: emit the plan, then (if `copy`) deep-copy the result's gates -/
def transform (copy : Bool) (w : OWorld) (arg : Circ) (plan : List Item) : OWorld × Circ :=
  let r := emitAll arg w plan
  if copy then copyAll r.1 r.2 else r

/-- `reverse_circuit`: every operation of the argument, in reverse order — a `Gate` object as it is
(`add_gate(gate)`), a `Measurement` as a new object built from the same targets list (`add_measurement(m)`);
`meas` lists the positions holding measurements -/
def reversePlan (n : Nat) (meas : List Nat) : List Item :=
  (List.range n).reverse.map fun i => if meas.contains i then Item.relist i i else Item.keep i

def reverseCircuit (cfg : Cfg) (w : OWorld) (arg : Circ) (meas : List Nat := []) : OWorld × Circ :=
  transform cfg.copyRev w arg (reversePlan arg.length meas)

/-- `to_chain_structure`: what it emits depends on the gates; only the final copy is modelled -/
def toChain (cfg : Cfg) (w : OWorld) (arg : Circ) (plan : List Item) : OWorld × Circ :=
  transform cfg.copyChain w arg plan

/-- `resolve_gates` / `adjacent_gates`: always end with the deep copy -/
def resolveLike (w : OWorld) (arg : Circ) (plan : List Item) : OWorld × Circ := transform true w arg plan

/-- the value of a gate object (what `vars()`-level snapshots see) -/
def gateVal (w : OWorld) (r : Ref) : Option (Nat × List Int × Option (List Int)) :=
  (w.gate? r).map fun g => (g.name, w.lists.get g.targets, g.controls.map w.lists.get)

def circVal (w : OWorld) (c : Circ) : List (Option (Nat × List Int × Option (List Int))) := c.map (gateVal w)

/-- in-place mutations a user can perform through a circuit: change a list, rename / re-point a gate -/
inductive Mut
  | setList (r : Ref) (v : List Int)
  | setGate (r : Ref) (g : GateObj)

def mutate (w : OWorld) : Mut → OWorld
  | .setList r v => { w with lists := w.lists.put r v }
  | .setGate r g => { w with gates := w.gates.set r g }

/-- everything reachable from a circuit: its gate objects and their lists -/
def reachGates (c : Circ) : List Ref := c
def reachLists (w : OWorld) (c : Circ) : List Ref :=
  c.flatMap fun r => match w.gate? r with
    | some g => g.targets :: g.controls.toList
    | none => []

/-- does the mutation touch something reachable from the circuit -/
def Mut.touches (w : OWorld) (c : Circ) : Mut → Bool
  | .setList r _ => (reachLists w c).contains r
  | .setGate r _ => (reachGates c).contains r

/-! ## Noise objects -/

/-- `t1` / `t2`: `None`, a number, or a list with `None` entries allowed -/
inductive TVal
  | none
  | scalar (v : Int)
  | list (l : List (Option Int))
deriving DecidableEq, Repr

structure RelaxObj where
  t1 : TVal
  t2 : TVal
deriving DecidableEq, Repr

/-- `_T_to_list(T, N)` -/
def tToList (T : TVal) (N : Nat) : Except Err (List (Option Int)) :=
  match T with
  | .none => .ok (List.replicate N none)
  | .scalar v => if v > 0 then .ok (List.replicate N (some v)) else .error .value
  | .list l => if l.length = N then .ok l else .error .value

/-- the first lines of `RelaxationNoise.get_noisy_pulses(dims)` with `N = len(dims)`: the two lists, or the
`ValueError`; without fix C16-5 the lists are stored back into `self.t1`, `self.t2` (in this order) -/
def relaxUse (cfg : Cfg) (o : RelaxObj) (N : Nat) : RelaxObj × Except Err (List (Option Int) × List (Option Int)) :=
  match tToList o.t1 N with
  | .error e => (o, .error e)
  | .ok l1 =>
    let o1 : RelaxObj := if cfg.noiseLocal then o else { o with t1 := .list l1 }
    match tToList o.t2 N with
    | .error e => (o1, .error e)
    | .ok l2 => (if cfg.noiseLocal then o else { t1 := .list l1, t2 := .list l2 }, .ok (l1, l2))

def relaxUses (cfg : Cfg) : RelaxObj → List Nat → RelaxObj
  | o, [] => o
  | o, n :: ns => relaxUses cfg (relaxUse cfg o n).1 ns

/-- `DecoherenceNoise`: `coeff` (`None` or given) and whether `tlist` is `None` -/
structure DecoObj where
  coeff : Option Int
  tlistNone : Bool
deriving DecidableEq, Repr

/-- `get_noisy_pulses`: the coefficient used (`True` = 1 for a time-independent noise) -/
def decoUse (cfg : Cfg) (o : DecoObj) : DecoObj × Option Int :=
  if o.coeff.isNone && o.tlistNone then (if cfg.noiseLocal then o else { o with coeff := some 1 }, some 1)
  else (o, o.coeff)

end QipVerif.Sim
