/-!
# Abstract arithmetic of the device compilers (property C18) — import-free

The arithmetic formulas of `compiler/cavityqedcompiler.py`, `compiler/circuitqedcompiler.py`,
`compiler/gatecompiler.py`, `device/cavityqed.py`, `device/circuitqed.py` are translated term by term
(py/translate/cqed.py) into functions over the operations of `DArith α`.  Instances:

* `Float` (this file): IEEE double arithmetic, the same operations in the same order as numpy performs
  them — used by the compiled model driver `drv_cqed`;
* `ℝ` (`Lemmas/CqedReal.lean`): used by the theorems.
-/
namespace QipVerif.Dev

class DArith (α : Type) where
  add : α → α → α
  sub : α → α → α
  mul : α → α → α
  div : α → α → α
  neg : α → α
  abs : α → α
  /-- `np.sign` -/
  sign : α → α
  /-- `np.sqrt` -/
  sqrt : α → α
  /-- `np.cos` -/
  cos : α → α
  /-- the rational constant `n / d` (a decimal literal of the source) -/
  ofFrac : Int → Nat → α
  /-- `a < b` -/
  lt : α → α → Bool
  /-- `x == 0` -/
  isZero : α → Bool

variable {α : Type} [DArith α]

def zero : α := DArith.ofFrac 0 1

/-- `arr[i]` for an index that is known to be in range (`0` otherwise; the models test the range first) -/
def getI (l : List α) (i : Int) : α := if i < 0 then zero else l.getD i.toNat zero

/-- `arr[i]`, `none` = IndexError (non-negative indices only) -/
def getI? {β : Type} (l : List β) (i : Int) : Option β := if i < 0 then none else l[i.toNat]?

/-- `np.linspace(0, tmax, n)`: `k * (tmax / (n - 1))`, the last point is `tmax` itself -/
def linspace (tmax : α) (n : Nat) : List α :=
  (List.range n).map fun k =>
    if k + 1 = n then tmax
    else DArith.mul (DArith.ofFrac (k : Int) 1) (DArith.div tmax (DArith.ofFrac ((n : Int) - 1) 1))

/-- `np.gradient(y, h)` for a uniform spacing `h`: central differences inside, one-sided at both ends
(`edge_order = 1`); fewer than two samples: numpy raises, the model returns `[]` -/
def gradient (y : List α) (h : α) : List α :=
  let n := y.length
  if n < 2 then [] else
  (List.range n).map fun k =>
    if k = 0 then DArith.div (DArith.sub (y.getD 1 zero) (y.getD 0 zero)) h
    else if k + 1 = n then DArith.div (DArith.sub (y.getD k zero) (y.getD (k - 1) zero)) h
    else DArith.div (DArith.sub (y.getD (k + 1) zero) (y.getD (k - 1) zero)) (DArith.mul (DArith.ofFrac 2 1) h)

instance : DArith Float where
  add := (· + ·)
  sub := (· - ·)
  mul := (· * ·)
  div := (· / ·)
  neg := fun x => -x
  abs := Float.abs
  sign := fun x => if x < 0 then -1.0 else if x > 0 then 1.0 else x
  sqrt := Float.sqrt
  cos := Float.cos
  ofFrac := fun n d => if d = 1 then Float.ofInt n else Float.ofInt n / Float.ofNat d
  lt := fun a b => a < b
  isZero := fun x => x == 0.0

end QipVerif.Dev
