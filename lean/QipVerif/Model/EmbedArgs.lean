import QipVerif.Model.Embed
/-!
# Argument handling of `expand_operator` (property C08)

No Mathlib/Batteries; executable.  `Model/Embed.lean: validate` models the call
`expand_operator(oper, dims=dims, targets=[…])`.  This file models the other ways the current source
accepts its arguments and the order of its error branches:

* `N=` (deprecated) and `dims=`: `N = len(dims)` only if `N` was not given; `dims = [2] * N` if `dims`
  was not given; neither given: `TypeError` (`[2] * None`).  When both are given the code uses `N` for
  the range test, for `new_order`, `rest_pos` and `rest_qubits`, and `dims` only through `dims[t]` /
  `dims[i]` — so `N < len(dims)` silently embeds into the first `N` subsystems and `N > len(dims)`
  always ends in an error;
* `targets`: `None` → `range(len(oper.dims[0]))`, an integer → `[t]`, an iterable → its elements;
* `_check_oper_dims`: `oper.dims[0] != oper.dims[1]` → `ValueError`;
* `cyclic_permutation=True` (deprecated): after the outer `_targets_to_list` / `_check_oper_dims`, one
  recursive call per `i in range(N)` with `targets = np.mod(targets + i, N)`; the first failing call raises.

Outside this model (compared or exercised by the harness only): the storage type (`dtype`, the global
default dtype), non-integer targets (`TypeError`), operands that are not `Qobj`, negative `N`.
-/
namespace QipVerif.EmbedArgs
open QipVerif.Embed

/-- the `targets` argument as passed -/
inductive TArg
  | none
  | int (t : Int)
  | list (ts : List Int)
deriving Repr

structure Args where
  N : Option Nat
  dims : Option (List Nat)
  targets : TArg
  opL : List Nat          -- oper.dims[0]
  opR : List Nat          -- oper.dims[1]
  cyclic : Bool
deriving Repr

inductive AErr
  | val (e : Err)   -- the errors of `Model/Embed.lean`
  | nosize          -- TypeError: neither `N` nor `dims`
  | square          -- ValueError: "The operator is not an Qobj with the same input and output dimensions."
deriving DecidableEq, Repr

/-- `N`, `dims` as used by the body -/
def resolveSize (a : Args) : Except AErr (Nat × List Nat) :=
  match a.N, a.dims with
  | none, none => .error .nosize
  | some n, none => .ok (n, List.replicate n 2)
  | none, some d => .ok (d.length, d)
  | some n, some d => .ok (n, d)

/-- the first lines of `_targets_to_list` -/
def resolveTargets (a : Args) : List Int :=
  match a.targets with
  | .none => (List.range a.opL.length).map Int.ofNat
  | .int t => [t]
  | .list ts => ts

/-- `_targets_to_list` (count, range) then `_check_oper_dims` (square, `dims[t]`, comparison) -/
def checkArgs (N : Nat) (dims : List Nat) (targets : List Int) (opL opR : List Nat) : Except AErr Unit :=
  if targets.length ≠ opL.length then .error (.val .count) else
  if !(targets.all (fun t => t < (N : Int))) then .error (.val .range) else
  if opL ≠ opR then .error .square else
  match pyGetAll dims targets with
  | none => .error (.val .index)
  | some td => if td ≠ opL then .error (.val .dims) else .ok ()

/-- the body after the checks: `new_order[t] = i` (wrap-around of negative `t`, IndexError below `-N`),
`rest_pos`, `rest_qubits[i]` (IndexError), `identity(dims[i])` (IndexError), `permute` (length of the order). -/
def buildChecks (N : Nat) (dims : List Nat) (targets : List Int) : Except AErr (List Nat) :=
  let nn := nonneg targets
  let rest := restPos N nn
  if targets.any (fun t => t < -(N : Int)) then .error (.val .index)
  else if rest.length > N - targets.length then .error (.val .index)
  else if rest.any (fun i => dims.length ≤ i) then .error (.val .index)
  else if rest.length + targets.length ≠ N then .error (.val .permute)
  else .ok nn

/-- one (non-cyclic) call with resolved arguments: the register the result lives on and the targets -/
def expandOne (N : Nat) (dims : List Nat) (targets : List Int) (opL opR : List Nat) :
    Except AErr (List Nat × List Nat) :=
  match checkArgs N dims targets opL opR with
  | .error e => .error e
  | .ok () =>
    match buildChecks N dims targets with
    | .error e => .error e
    | .ok nn => .ok (dims.take N, nn)

/-- `for i in range(N): expand_operator(oper, N=N, targets=np.mod(targets + i, N), dims=dims)` -/
def cyclicLoop (N : Nat) (dims : List Nat) (targets : List Int) (opL opR : List Nat) :
    List Nat → Except AErr (List (List Nat × List Nat))
  | [] => .ok []
  | i :: is =>
    match expandOne N dims (targets.map (fun t => (t + (i : Int)) % (N : Int))) opL opR with
    | .error e => .error e
    | .ok r =>
      match cyclicLoop N dims targets opL opR is with
      | .error e => .error e
      | .ok rs => .ok (r :: rs)

/-- `expand_operator` up to the data: the list of (register dims, targets) of the returned operator(s) -/
def expandArgs (a : Args) : Except AErr (List (List Nat × List Nat)) :=
  match resolveSize a with
  | .error e => .error e
  | .ok (N, dims) =>
    let ts := resolveTargets a
    if a.cyclic then
      match checkArgs N dims ts a.opL a.opR with
      | .error e => .error e
      | .ok () => cyclicLoop N dims ts a.opL a.opR (List.range N)
    else
      match expandOne N dims ts a.opL a.opR with
      | .error e => .error e
      | .ok r => .ok [r]

end QipVerif.EmbedArgs
