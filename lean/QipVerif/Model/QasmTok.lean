import QipVerif.Model.QasmSpec
/-!
# The line tokenizer of the OpenQASM importer (property C04)

Import-free (only the AST / renderer of `QasmSpec`), total, executable, kernel-friendly
(`List Char`, structural recursion, one fuel-bounded recursion).

Model of `qutip_qip/qasm.py`:

* `preLines`     — what `read_qasm` does to the raw lines before `_tokenize`: `str.strip()` of
  every line, lines that are empty or start with `//` dropped, a trailing `// comment` cut
  (`find("//")`, the rest is NOT stripped again), `pop(0)` compared with `OPENQASM 2.0;`.
* `tokenizeLine` — `_tokenize_line`, three branches; the regular expressions are transcribed
  as continuation-passing backtracking matchers (`wsStar`, `wsPlus`, `lit`, `dotLazy`,
  `dotGreedy`), one combinator per regex construct, tried in the order in which Python's `re`
  tries the alternatives (greedy: longest first, lazy: shortest first), so that the first success
  is the match `re.match` returns.  `.` does not match `\n` (no DOTALL).
* `tokenize`     — `_tokenize`: the six `str.replace` passes, `split(";")`, empty commands and
  empty token lists dropped.
* `tokensOf`     — the token lists the later passes of the importer receive for one statement
  of the AST (written directly, not via the tokenizer); `Lemmas/QasmTokRender.lean` proves
  `tokenize (renderProgram p) = ok (p.flatMap tokensOf)` on the class `TokClass`.

Whitespace (`str.strip`, `str.split()`, `\s` of a `str` pattern) is Python's `str.isspace` on
one character — the full Unicode set: U+0009–000D, U+001C–001F, U+0020, U+0085, U+00A0, U+1680,
U+2000–200A, U+2028, U+2029, U+202F, U+205F, U+3000 (checked against CPython 3.12 over all code
points by the correspondence).
-/
namespace QipVerif.Qasm.Tok
open QipVerif.Qasm

/-- exception classes of `read_qasm` up to and including `_tokenize` -/
inductive Err where
  | noLines    -- IndexError: `qasm_lines.pop(0)` on an empty list
  | header     -- SyntaxError: the first line is not `OPENQASM 2.0;`
  | brackets   -- SyntaxError("QASM: Incorrect bracket formatting"): third branch, no match
  | attr       -- AttributeError: `groups` is `None` in the second branch (`if (` never closed)
  | fuel       -- recursion bound of the model exhausted (never happens: `tokenizeLine_fuel`)
deriving DecidableEq, Repr

/-! ## Python string primitives -/

/-- `str.isspace` for one character (also `\s` of `re` for `str` patterns) -/
def isWs (c : Char) : Bool :=
  let n := c.toNat
  (9 ≤ n && n ≤ 13) || (28 ≤ n && n ≤ 32) || n == 0x85 || n == 0xa0 || n == 0x1680 ||
  (0x2000 ≤ n && n ≤ 0x200a) || n == 0x2028 || n == 0x2029 || n == 0x202f || n == 0x205f ||
  n == 0x3000

/-- `str.lstrip()` -/
def stripL : Str → Str
  | [] => []
  | c :: cs => if isWs c then stripL cs else c :: cs

/-- `str.rstrip()` -/
def stripR : Str → Str
  | [] => []
  | c :: cs =>
    match stripR cs with
    | [] => if isWs c then [] else [c]
    | r => c :: r

/-- `str.strip()` -/
def strip (s : Str) : Str := stripR (stripL s)

/-- split at the characters satisfying `p`, dropping empty pieces; the Boolean says whether the
first piece is still open at the left end -/
def splitByAux (p : Char → Bool) : Str → Bool × List Str
  | [] => (false, [])
  | c :: cs =>
    let r := splitByAux p cs
    if p c then (false, r.2)
    else if r.1 then
      match r.2 with
      | w :: ws => (true, (c :: w) :: ws)
      | [] => (true, [[c]])
    else (true, [c] :: r.2)

def splitBy (p : Char → Bool) (s : Str) : List Str := (splitByAux p s).2

/-- `str.split()` without argument: runs of whitespace separate, no empty strings -/
def splitWs (s : Str) : List Str := splitBy isWs s

/-- `str.split(d)` for a one-character separator: empty pieces are kept, the result is never `[]` -/
def splitOn (d : Char) : Str → List Str
  | [] => [[]]
  | c :: cs =>
    if c == d then [] :: splitOn d cs
    else
      match splitOn d cs with
      | w :: ws => (c :: w) :: ws
      | [] => [[c]]

/-- `str.replace(c, r)` for a one-character pattern -/
def replaceChar (c : Char) (r : Str) (s : Str) : Str :=
  s.flatMap fun x => if x == c then r else [x]

/-! ## `read_qasm` before `_tokenize` -/

/-- `line[0:line.find("//")]` (the whole line if there is no `//`) -/
def cutComment : Str → Str
  | [] => []
  | '/' :: '/' :: _ => []
  | c :: cs => c :: cutComment cs

def header : Str := cs!"OPENQASM 2.0;"

/-- the lines handed to `_tokenize` -/
def preLines (raw : List Str) : Except Err (List Str) :=
  let ls := raw.map strip
  let ls := ls.filter fun x => !(x.take 2 == cs!"//") && !x.isEmpty
  let ls := ls.map cutComment
  match ls with
  | [] => .error .noLines
  | h :: t => if h == header then .ok t else .error .header

/-! ## Regular expressions: backtracking matchers in continuation-passing style

`k` is the continuation (the rest of the pattern); every combinator tries its alternatives in
the order of Python's backtracking engine and returns the first overall success. -/

/-- a literal character -/
def lit {α} (c : Char) (k : Str → Option α) : Str → Option α
  | [] => none
  | d :: t => if d == c then k t else none

/-- `\s*` (greedy: as many as possible first, then fewer) -/
def wsStar {α} (k : Str → Option α) : Str → Option α
  | [] => k []
  | c :: cs =>
    if isWs c then
      match wsStar k cs with
      | some r => some r
      | none => k (c :: cs)
    else k (c :: cs)

/-- `\s+` -/
def wsPlus {α} (k : Str → Option α) : Str → Option α
  | [] => none
  | c :: cs => if isWs c then wsStar k cs else none

/-- `(.*?)` (lazy: as few as possible first); returns the group -/
def dotLazy {α} (k : Str → Option α) : Str → Option (Str × α)
  | [] => (k []).map fun r => ([], r)
  | c :: cs =>
    match k (c :: cs) with
    | some r => some ([], r)
    | none =>
      if c == '\n' then none
      else (dotLazy k cs).map fun gr => (c :: gr.1, gr.2)

/-- `(.*)` (greedy); returns the group -/
def dotGreedy {α} (k : Str → Option α) : Str → Option (Str × α)
  | [] => (k []).map fun r => ([], r)
  | c :: cs =>
    if c == '\n' then (k (c :: cs)).map fun r => ([], r)
    else
      match dotGreedy k cs with
      | some gr => some (c :: gr.1, gr.2)
      | none => (k (c :: cs)).map fun r => ([], r)

/-- end of the pattern (`re.match` does not anchor at the end) -/
def done : Str → Option Unit := fun _ => some ()

/-- `re.match(r"\s*if\s*\(", command)` -/
def reIfHead (s : Str) : Bool :=
  (wsStar (lit 'i' (lit 'f' (wsStar (lit '(' done)))) s).isSome

/-- `re.match(r"\s*if\s*\((.*?)\)\s*(.*?)\s+\((.*)\)(.*)", command)`: groups 1–4 -/
def reIfArgs (s : Str) : Option (Str × Str × Str × Str) :=
  (wsStar (lit 'i' (lit 'f' (wsStar (lit '('
    (dotLazy (lit ')' (wsStar
      (dotLazy (wsPlus (lit '('
        (dotGreedy (lit ')'
          (dotGreedy done))))))))))))) s).map
    fun r => (r.1, r.2.1, r.2.2.1, r.2.2.2.1)

/-- `re.match(r"\s*if\s*\((.*)\)(.*)", command)`: groups 1–2 -/
def reIfPlain (s : Str) : Option (Str × Str) :=
  (wsStar (lit 'i' (lit 'f' (wsStar (lit '('
    (dotGreedy (lit ')' (dotGreedy done))))))) s).map fun r => (r.1, r.2.1)

/-- `re.match(r"(^.*?)\((.*)\)(.*)", command)`: groups 1–3 (`^` holds at the start) -/
def reCall (s : Str) : Option (Str × Str × Str) :=
  (dotLazy (lit '(' (dotGreedy (lit ')' (dotGreedy done)))) s).map
    fun r => (r.1, r.2.1, r.2.2.1)

/-! ## `_tokenize_line` -/

/-- first branch: `list(chain(*[a.split() for a in command.split(",")]))`, every token stripped -/
def plainTokens (cmd : Str) : List Str := ((splitOn ',' cmd).flatMap splitWs).map strip

/-- `_tokenize_line` with a bound on the recursion depth -/
def tokenizeLineF : Nat → Str → Except Err (List Str)
  | 0, _ => .error .fuel
  | f + 1, cmd =>
    if !cmd.contains '(' then .ok (plainTokens cmd)
    else if reIfHead cmd then
      match reIfArgs cmd with
      | some (g1, g2, g3, g4) =>
        -- "{} ({}) {}".format(group(2), group(3), group(4))
        match tokenizeLineF f (g2 ++ cs!" (" ++ g3 ++ cs!") " ++ g4) with
        | .ok ts => .ok (([cs!"if", cs!"(", g1, cs!")"] ++ ts).map strip)
        | .error e => .error e
      | none =>
        match reIfPlain cmd with
        | some (g1, g2) =>
          match tokenizeLineF f g2 with
          | .ok ts => .ok (([cs!"if", cs!"(", g1, cs!")"] ++ ts).map strip)
          | .error e => .error e
        | none => .error .attr
    else
      match reCall cmd with
      | none => .error .brackets
      | some (g1, g2, g3) =>
        .ok ((splitWs g1 ++ [cs!"("] ++ splitOn ',' g2 ++ [cs!")"] ++ splitOn ',' g3).map strip)

/-- `_tokenize_line(command)`; the argument of every recursive call is shorter than `command` -/
def tokenizeLine (cmd : Str) : Except Err (List Str) := tokenizeLineF (cmd.length + 1) cmd

/-! ## `_tokenize` -/

/-- the six `line.replace(c, …)` passes, in the order of the code -/
def padLine (line : Str) : Str :=
  let l := replaceChar '[' cs!" [ " line
  let l := replaceChar ']' cs!" ] " l
  let l := replaceChar '(' cs!" ( " l
  let l := replaceChar ')' cs!" ) " l
  let l := replaceChar '{' cs!" ; { ; " l
  replaceChar '}' cs!" ; } ; " l

/-- `filter(lambda x: x != "", line.split(";"))` of the padded line -/
def lineCommands (line : Str) : List Str := (splitOn ';' (padLine line)).filter fun x => !x.isEmpty

/-- the loop over the commands: the first exception ends it -/
def tokenizeCmds : List Str → Except Err (List (List Str))
  | [] => .ok []
  | c :: cs =>
    match tokenizeLine c with
    | .error e => .error e
    | .ok ts =>
      match tokenizeCmds cs with
      | .error e => .error e
      | .ok l => .ok (ts :: l)

/-- **`_tokenize(token_cmds)`** -/
def tokenize (lines : List Str) : Except Err (List (List Str)) :=
  match tokenizeCmds (lines.flatMap lineCommands) with
  | .error e => .error e
  | .ok l => .ok (l.filter fun ts => !ts.isEmpty)

/-- `read_qasm` up to and including `_tokenize` -/
def readTokens (raw : List Str) : Except Err (List (List Str)) :=
  match preLines raw with
  | .error e => .error e
  | .ok ls => tokenize ls

/-! ## The tokens of a statement of the AST -/

/-- `_tokenize` surrounds every bracket by blanks (one pass; the parameter text never contains
`[ ] { }`) -/
def padBrackets : Str → Str
  | [] => []
  | c :: cs =>
    if c == '(' || c == ')' || c == '[' || c == ']' then ' ' :: c :: ' ' :: padBrackets cs
    else c :: padBrackets cs

/-- the token of one parameter expression: every parenthesis of the rendered text padded -/
def argToken (e : Expr) : Str := strip (padBrackets e.render)

/-- operand of a statement WITHOUT parameter list (first branch): `q [ 0 ]` falls into four tokens -/
def argToks1 : Arg → List Str
  | .whole r => [r]
  | .idx r i => [r, cs!"[", natDigits i, cs!"]"]

/-- operand of a statement WITH parameter list (third branch): only commas separate -/
def argTok3 : Arg → Str
  | .whole r => r
  | .idx r i => r ++ cs!" [ " ++ natDigits i ++ cs!" ]"

/-- `"".split(",") == [""]`: an empty operand list after `)` leaves one empty token -/
def opnds3 (l : List Str) : List Str := if l.isEmpty then [[]] else l

/-- `head… name(ps) operands` — `ps` already as tokens; `q1`/`q3` the operand tokens of the first /
third branch -/
def callToks (name : Str) (ps : List Str) (q1 q3 : List Str) : List Str :=
  if ps.isEmpty then name :: q1 else name :: cs!"(" :: ps ++ cs!")" :: opnds3 q3

def gopToks : GOp → List Str
  | .U a b c q => callToks cs!"U" [argToken a, argToken b, argToken c] [q] [q]
  | .CX a b => [cs!"CX", a, b]
  | .call n ps qs => callToks n (ps.map argToken) qs qs
  | .barrier qs => cs!"barrier" :: qs

def qopToks : QOp → List Str
  | .U a b c q => callToks cs!"U" [argToken a, argToken b, argToken c] (argToks1 q) [argTok3 q]
  | .CX a b => cs!"CX" :: argToks1 a ++ argToks1 b
  | .call n ps qs => callToks n (ps.map argToken) (qs.flatMap argToks1) (qs.map argTok3)
  | .measure q c => cs!"measure" :: argToks1 q ++ cs!"->" :: argToks1 c
  | .reset q => cs!"reset" :: argToks1 q

/-- **the token lists of one statement** as `_initialize_pass` / `_final_pass` receive them -/
def tokensOf : Stmt → List (List Str)
  | .version => [[cs!"OPENQASM", cs!"2.0"]]
  | .incl f => [[cs!"include", '"' :: f ++ ['"']]]
  | .qreg n k => [[cs!"qreg", n, cs!"[", natDigits k, cs!"]"]]
  | .creg n k => [[cs!"creg", n, cs!"[", natDigits k, cs!"]"]]
  | .gate d =>
    (cs!"gate" :: callToks d.name d.params d.qargs d.qargs) :: [cs!"{"] ::
      (d.body.map gopToks ++ [[cs!"}"]])
  | .opaque n ps qs => [cs!"opaque" :: callToks n ps qs qs]
  | .qop op => [qopToks op]
  | .ifc c k op => [[cs!"if", cs!"(", c ++ cs!"==" ++ natDigits k, cs!")"] ++ qopToks op]
  | .barrier qs => [cs!"barrier" :: qs.flatMap argToks1]

/-! ## The class of programs of the theorem (decidable) -/

/-- the characters the tokenizer treats specially -/
def special (c : Char) : Bool :=
  c == '(' || c == ')' || c == '[' || c == ']' || c == '{' || c == '}' || c == ';' || c == ','

/-- any other visible character -/
def plain (c : Char) : Bool := !isWs c && !special c

/-- a non-empty run of plain characters (identifiers `[a-z][A-Za-z0-9_]*`, numerals, `->`, …) -/
def isWord (s : Str) : Bool := !s.isEmpty && s.all plain

/-- leaves of a parameter expression consist of plain characters (depth and shape are free) -/
def exprOk : Expr → Bool
  | .pi => true
  | .lit s => s.all plain
  | .id s => s.all plain
  | .neg e => exprOk e
  | .add a b | .sub a b | .mul a b | .div a b | .pow a b => exprOk a && exprOk b
  | .fn f e => f.all plain && exprOk e

def argOk : Arg → Bool
  | .whole r => isWord r
  | .idx r _ => isWord r

/-- a called gate: its name is a word, and with a parameter list it is not the word `if`
(`if(…) q;` would be taken for a classically controlled statement) -/
def callOk (name : Str) (ps : List Expr) : Bool :=
  isWord name && ps.all exprOk && (ps.isEmpty || name != cs!"if")

def gopOk' : GOp → Bool
  | .U a b c q => exprOk a && exprOk b && exprOk c && isWord q
  | .CX a b => isWord a && isWord b
  | .call n ps qs => callOk n ps && qs.all isWord
  | .barrier qs => qs.all isWord

def qopOk : QOp → Bool
  | .U a b c q => exprOk a && exprOk b && exprOk c && argOk q
  | .CX a b => argOk a && argOk b
  | .call n ps qs => callOk n ps && qs.all argOk
  | .measure q c => argOk q && argOk c
  | .reset q => argOk q

def stmtOk : Stmt → Bool
  | .version => true
  | .incl f => f.all plain
  | .qreg n _ => isWord n
  | .creg n _ => isWord n
  | .gate d => isWord d.name && d.params.all isWord && d.qargs.all isWord && d.body.all gopOk'
  | .opaque n ps qs => isWord n && ps.all isWord && qs.all isWord
  | .qop op => qopOk op
  | .ifc c _ op => c.all plain && qopOk op
  | .barrier qs => qs.all argOk

/-- **the class**: every statement of the subset, with identifiers / numerals / file names made
of plain characters; no bound on the number of statements, operands, parameters or on the depth
of the parameter expressions -/
def TokClass (p : Program) : Bool := p.all stmtOk

end QipVerif.Qasm.Tok
