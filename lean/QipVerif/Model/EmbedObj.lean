import QipVerif.Model.EmbedArgs
/-!
# Objects that embed an operator on demand (property C08, observation points)

No Mathlib/Batteries; executable.  `pulse.py: _EvoElement` (behind `Pulse.get_ideal_qobj`,
`Pulse.get_ideal_qobjevo`, `Pulse.get_noisy_qobjevo`, `Drift.get_ideal_qobjevo`,
`Processor` drift) holds the mutable fields `qobj` and `targets`; `get_qobj(dims)` is

```
if isinstance(dims, int): dims = [2] * dims
if self.qobj is None: qobj = identity(dims[0]) * 0.0; targets = 0
else:                 qobj = self.qobj;               targets = self.targets
return expand_operator(qobj, dims=dims, targets=targets)
```

An object is a list of such elements (a `Pulse`: ideal pulse, coherent noise, Lindblad noise; a `Drift`:
its Hamiltonians).  A *history* re-assigns fields (`pulse.targets = …`, `pulse.qobj = …`) and asks for the
operators; the code that exists computes every answer from the current fields only.
-/
namespace QipVerif.EmbedObj
open QipVerif.Embed QipVerif.EmbedArgs

/-- one `_EvoElement`: `od = none` is `qobj is None`, otherwise `oper.dims[0]` (= `dims[1]`);
`oid` names the operator object currently stored in `qobj` -/
structure Elem where
  od : Option (List Nat)
  targets : TArg
  oid : Nat := 0
deriving Repr

/-- the `dims` argument as passed -/
inductive DArg
  | int (n : Nat)
  | list (d : List Nat)
deriving Repr

def DArg.dims : DArg → List Nat
  | .int n => List.replicate n 2
  | .list d => d

inductive Op
  | setTargets (i : Nat) (t : TArg)
  | setOper (i : Nat) (od : Option (List Nat)) (oid : Nat)
  | get (d : DArg)
deriving Repr

/-- `_EvoElement.get_qobj(dims)`: the register and the targets of the returned operator -/
def elemGet (e : Elem) (d : DArg) : Except AErr (List Nat × List Nat) :=
  let dims := d.dims
  let a : Except AErr Args :=
    match e.od with
    | some od => .ok ⟨none, some dims, e.targets, od, od, false⟩
    | none =>
      match dims with
      | [] => .error (.val .index)                       -- `dims[0]`
      | d0 :: _ => .ok ⟨none, some dims, .int 0, [d0], [d0], false⟩
  match a with
  | .error e => .error e
  | .ok a =>
    match expandArgs a with
    | .error e => .error e
    | .ok [] => .error (.val .index)                     -- not reachable: one operator is returned
    | .ok (r :: _) => .ok r

/-- the assignments of a history (asking for an operator changes nothing) -/
def applyOp (es : List Elem) : Op → List Elem
  | .setTargets i t => es.modify i (fun e => { e with targets := t })
  | .setOper i od oid => es.modify i (fun e => { e with od := od, oid := oid })
  | .get _ => es

/-- what one request returns for one element: the placement and which operator was placed -/
def answer (d : DArg) (e : Elem) : Except AErr (List Nat × List Nat) × Nat := (elemGet e d, e.oid)

/-- the answers of a history, one per `get` (each a list over the elements of the object) -/
def run : List Elem → List Op → List (List (Except AErr (List Nat × List Nat) × Nat))
  | _, [] => []
  | es, .get d :: ops => es.map (answer d) :: run es ops
  | es, op :: ops => run (applyOp es op) ops

end QipVerif.EmbedObj
