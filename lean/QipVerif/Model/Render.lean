/-!
# Model of the text renderer (property C20)

`qutip_qip/circuit/text_renderer.py` (`TextRenderer`) together with the two layer
bookkeeping functions it inherits from `base_renderer.py` (`_get_xskip`,
`_manage_layers`).  Import-free, total, executable.

* A Python `str` is a `List Char` (`len` = number of code points = `List.length`).
* The three dictionaries of row strings and `_layer_list` are kept per wire
  (`Wire` = top / mid / bot row and the list of layer widths of that wire).
* Every `_update_*` method is a function that returns the list of `(wire, segment)`
  appends it performs, in the order the Python loop performs them; `applyActs` replays
  them (`self._render_strs[..][wire] += ..`).
* Style options read by the text renderer: `gate_pad` (only through `ceil(gate_pad)`),
  `wire_label`, `end_wire_ext`, `align_layer`.  `gate_margin` is overwritten with `0` by
  `TextRenderer.__init__`, every other `StyleConfig` field is ignored by this renderer.
* Classical controls of a gate are not read by the text renderer at all.
* `Variant` says which of the proposed repairs the modelled tree contains (read from the
  source with `ast` by py/props/c20.py); `{}` is the tree as shipped.
* Indices are naturals (Python's wrap-around of negative indices is outside the model);
  an index outside the wire range is the `IndexError` of the code, `max([])`/`min([])`
  its `ValueError`.
-/
namespace QipVerif.Render

abbrev Str := List Char

/-- Python `c * k` for an `int` k (a negative count gives the empty string). -/
def repI (k : Int) (c : Char) : Str := List.replicate k.toNat c
def rep (k : Nat) (c : Char) : Str := List.replicate k c

/-- Python `s[:i] + c + s[i + 1:]` -/
def setChar (s : Str) (i : Nat) (c : Char) : Str := s.take i ++ c :: s.drop (i + 1)

/-- Python `range(a, b)` -/
def pyRange (a b : Nat) : List Nat := List.range' a (b - a)

/-- Python `max(l)` / `min(l)` of a non-empty list (0 on the empty list; every use is guarded) -/
def lmax : List Nat → Nat
  | [] => 0
  | a :: as => as.foldl max a
def lmin : List Nat → Nat
  | [] => 0
  | a :: as => as.foldl min a
def imax : List Int → Int
  | [] => 0
  | a :: as => as.foldl max a

def isum (l : List Int) : Int := l.foldl (· + ·) 0

/-- decimal digits of a natural number (`f"{i}"`), structural on the fuel -/
def digitsAux : Nat → Nat → Str → Str
  | 0, _, acc => acc
  | fuel + 1, n, acc =>
    let acc' := Char.ofNat (48 + n % 10) :: acc
    if n / 10 = 0 then acc' else digitsAux fuel (n / 10) acc'
def natStr (n : Nat) : Str := digitsAux (n + 1) n []

/-! ## State -/

/-- three pieces appended to the top / middle / bottom row of one wire -/
structure Seg where
  top : Str
  mid : Str
  bot : Str
deriving DecidableEq, Repr

structure Wire where
  top : Str
  mid : Str
  bot : Str
  layers : List Int
deriving DecidableEq, Repr

abbrev St := List Wire

inductive Err
  | index   -- IndexError
  | value   -- ValueError (`max`/`min` of an empty sequence)
  | type    -- TypeError (`len(None)`: a gate without targets, e.g. GLOBALPHASE; `None + int`: a measurement without classical_store)
deriving DecidableEq, Repr

/-- The style options the text renderer reads.  `gate_pad = padNum / padDen` (a rational
`> -1`, `padDen > 0`); only `ceil(gate_pad)` is ever used, and it is `≥ 0` on that domain. -/
structure Style where
  padNum : Int := 1
  padDen : Nat := 20
  ext : Int := 2
  align : Bool := false
  labels : Option (List Str) := none
deriving DecidableEq, Repr

/-- `ceil(self.style.gate_pad)` -/
def Style.pad (s : Style) : Nat := ((s.padNum + (s.padDen : Int) - 1) / (s.padDen : Int)).toNat

/-- Which repairs of `text_renderer.py` the modelled tree contains.
* `spanFix` (fixes/C20-1): `_update_qbridge` skips every wire from the first to the last target
  (not only the targets), and the marks `┴`/`┬` / the bridges are drawn iff a control lies beyond
  the last / before the first target.
* `insideNode` (fixes/C20-2): a control strictly inside the span of the targets gets its node `█`
  in the box, at the link column.
* `globalBox` (fixes/C20-3): a gate without targets and controls (`GLOBALPHASE`) is drawn as a box
  over all qubits instead of raising `TypeError`.
* `measBox` (fixes/C20-4): a measurement without `classical_store` (its result is not stored) is
  drawn as the box `M` on its target(s), without a link, instead of raising `TypeError`. -/
structure Variant where
  spanFix : Bool := false
  insideNode : Bool := false
  globalBox : Bool := false
  measBox : Bool := false
  /-- fixes/C20-5: `layout()` starts from empty rows, so that it may be called again on the same
  renderer object (the shipped `layout()` continues on the rows its previous call left) -/
  resetLayout : Bool := false
deriving DecidableEq, Repr

/-- the tree with all repairs (fixes/C20-1 … C20-5) -/
def Variant.repaired : Variant :=
  { spanFix := true, insideNode := true, globalBox := true, measBox := true, resetLayout := true }

/-- A circuit element as the renderer sees it. -/
inductive Op
  /-- `Gate`: `name`, `arg_label`, `targets`, `controls` (`none` = Python `None`) -/
  | gate (name : Str) (argLabel : Option Str) (targets : List Nat) (controls : Option (List Nat))
  /-- `Measurement`: `targets`, `classical_store` -/
  | meas (targets : List Nat) (store : Nat)
  /-- `Gate` with `targets = None` and `controls = None` (`GLOBALPHASE`): `name`, `arg_label` -/
  | glob (name : Str) (argLabel : Option Str)
  /-- `Measurement` with `classical_store = None` (the result is not stored): `targets` -/
  | measNS (targets : List Nat)
deriving DecidableEq, Repr

structure Circ where
  N : Nat          -- qc.N
  C : Nat          -- qc.num_cbits
  ops : List Op    -- qc.gates
deriving DecidableEq, Repr

/-! ## `__init__` and `_add_wire_labels` -/

def initWire (N i : Nat) : Wire :=
  { top := [' ', ' '], mid := if i < N then ['─', '─'] else ['═', '═'], bot := [' ', ' '], layers := [] }

def initSt (N C : Nat) : St := (List.range (N + C)).map (initWire N)

def defaultLabels (N C : Nat) : List Str :=
  (List.range N).map (fun i => 'q' :: natStr i) ++ (List.range C).map (fun i => 'c' :: natStr i)

/-- `default_labels` of `_add_wire_labels` -/
def wireLabels (sty : Style) (N C : Nat) : List Str :=
  match sty.labels with
  | none => defaultLabels N C
  | some l => l.drop C ++ l.take C

/-- the new middle row prefix of wire `i`: `f" {label} " + " " * (max_len - len(label)) + ":"` -/
def labelPrefix (maxLen : Nat) (label : Str) : Str :=
  ' ' :: label ++ ' ' :: (rep (maxLen - label.length) ' ' ++ [':'])

def labelWire (maxLen : Nat) (label : Str) (w : Wire) : Wire :=
  let mid := labelPrefix maxLen label ++ w.mid
  { top := rep mid.length ' ', mid := mid, bot := rep mid.length ' ',
    layers := w.layers ++ [(mid.length : Int)] }

/-- the `for i, label in enumerate(default_labels)` loop, starting at wire `i` -/
def addLabelsFrom (maxLen : Nat) : Nat → List Str → St → Except Err St
  | _, [], st => .ok st
  | i, l :: ls, st =>
    if i < st.length then addLabelsFrom maxLen (i + 1) ls (st.modify i (labelWire maxLen l))
    else .error .index

def addWireLabels (sty : Style) (N C : Nat) (st : St) : Except Err St :=
  let labels := wireLabels sty N C
  if labels.isEmpty then .error .value
  else addLabelsFrom (lmax (labels.map List.length)) 0 labels st

/-! ## Layer bookkeeping (`base_renderer.py`) and `_adjust_layer_pad` -/

def layersOf (st : St) (w : Nat) : List Int := (st[w]?.map Wire.layers).getD []

/-- `max(len(self._layer_list[i]) for i in wire_list)` -/
def layerOf (st : St) (wl : List Nat) : Nat := lmax (wl.map fun w => (layersOf st w).length)

/-- `_get_xskip` -/
def getXskip (align : Bool) (N : Nat) (st : St) (wl : List Nat) (layer : Nat) : Int :=
  let wl' := if align then List.range N else wl
  imax (wl'.map fun w => isum ((layersOf st w).take layer))

def padWire (isQ : Bool) (xskip : Int) (w : Wire) : Wire :=
  { w with
    top := w.top ++ repI (xskip - w.top.length) ' '
    bot := w.bot ++ repI (xskip - w.bot.length) ' '
    mid := w.mid ++ repI (xskip - w.mid.length) (if isQ then '─' else '═') }

/-- `_adjust_layer_pad` -/
def adjustPad (N : Nat) (wl : List Nat) (xskip : Int) (st : St) : St :=
  wl.foldl (fun s w => s.modify w (padWire (w < N) xskip)) st

def manageWire (width : Nat) (layer : Nat) (xskip : Int) (w : Wire) : Wire :=
  if w.layers.length > layer then
    if w.layers.getD layer 0 < (width : Int) then { w with layers := w.layers.set layer width } else w
  else
    let temp : Int := if xskip ≠ 0 then xskip - isum w.layers else 0
    { w with layers := w.layers ++ [temp + width] }

/-- `_manage_layers` (with `gate_margin = 0`, as forced by `TextRenderer.__init__`) -/
def manageLayers (width : Nat) (wl : List Nat) (layer : Nat) (xskip : Int) (st : St) : St :=
  wl.foldl (fun s w => s.modify w (manageWire width layer xskip)) st

def appendSeg (g : Seg) (w : Wire) : Wire :=
  { w with top := w.top ++ g.top, mid := w.mid ++ g.mid, bot := w.bot ++ g.bot }

/-- replay of the `self._render_strs[..][wire] += ..` statements of one `_update_*` call -/
def applyActs (acts : List (Nat × Seg)) (st : St) : St :=
  acts.foldl (fun s a => s.modify a.1 (appendSeg a.2)) st

/-! ## `_draw_*` -/

structure Box where
  top : Str
  midFrame : Str
  midConnect : Str
  midLabel : Str
  bot : Str
deriving DecidableEq, Repr

/-- `_draw_singleq_gate`: the three parts; the width is the length of the top part -/
def drawSingleq (p : Nat) (name : Str) : Seg :=
  let lid := rep (p * 2 + name.length) '─'
  let pad := rep p ' '
  { top := ' ' :: '┌' :: (lid ++ ['┐', ' '])
    mid := '─' :: '┤' :: (pad ++ name ++ pad ++ ['├', '─'])
    bot := ' ' :: '└' :: (lid ++ ['┘', ' ']) }

def truthy (c : Option (List Nat)) : Bool :=
  match c with
  | none => false
  | some l => !l.isEmpty

def ctrlList (c : Option (List Nat)) : List Nat := c.getD []

/-- "is there a control above the box" as the tree computes it -/
def isTop (v : Variant) (cs ts : List Nat) : Bool :=
  if v.spanFix then decide (lmax cs > lmax ts) else decide (lmax cs > lmin ts)
/-- "is there a control below the box" as the tree computes it -/
def isBot (v : Variant) (cs ts : List Nat) : Bool :=
  if v.spanFix then decide (lmin cs < lmin ts) else decide (lmin cs < lmax ts)

/-- `_draw_multiq_gate` -/
def drawMultiq (v : Variant) (p : Nat) (text : Str) (targets : List Nat) (controls : Option (List Nat)) : Box :=
  let lid := rep (p * 2 + text.length) '─'
  let pad := rep p ' '
  let blank := rep text.length ' '
  let top : Str := ' ' :: '┌' :: (lid ++ ['┐', ' '])
  let bot : Str := ' ' :: '└' :: (lid ++ ['┘', ' '])
  let midFrame : Str := ' ' :: '│' :: (pad ++ blank ++ pad ++ ['│', ' '])
  let midConnect : Str := '─' :: '┤' :: (pad ++ blank ++ pad ++ ['├', '─'])
  let midLabel : Str := '─' :: '┤' :: (pad ++ text ++ pad ++ ['├', '─'])
  if truthy controls then
    let cs := ctrlList controls
    let mi := bot.length / 2
    { top := if isTop v cs targets then setChar top mi '┴' else top
      bot := if isBot v cs targets then setChar bot mi '┬' else bot
      midFrame := midFrame, midConnect := midConnect, midLabel := midLabel }
  else
    { top := top, bot := bot, midFrame := midFrame, midConnect := midConnect, midLabel := midLabel }

/-- `_draw_measurement_gate` (`t0 = measurement.targets[0]`) -/
def drawMeas (p : Nat) (N : Nat) (t0 store : Nat) : Seg :=
  let g := drawSingleq p ['M']
  let mi := g.bot.length / 2
  if store + N > t0 then { g with bot := setChar g.bot mi '╥' }
  else { g with top := setChar g.top mi '╨' }

/-! ## `_update_*` — each returns the appends it performs, in loop order -/

/-- `_update_singleq` -/
def updSingleq (wl : List Nat) (g : Seg) : List (Nat × Seg) := wl.map fun w => (w, g)

/-- `_update_cbridge` -/
def updCbridge (N : Nat) (t0 store : Nat) (wl : List Nat) (width : Nat) : List (Nat × Seg) :=
  let h := width / 2
  let bar := rep h ' ' ++ '║' :: rep h ' '
  let midBar := rep h '─' ++ '║' :: rep h '─'
  let midBarC := rep h '═' ++ '║' :: rep h '═'
  let cconn := rep h '═' ++ '╩' :: rep h '═'
  wl.filterMap fun w =>
    if w = t0 then none
    else if w = N + store then some (w, { top := bar, mid := cconn, bot := rep bar.length ' ' })
    else some (w, { top := bar, mid := if w > N then midBarC else midBar, bot := bar })

/-- the piece `_update_target_multiq` appends to wire `w`, the `i`-th of the `n` wires of the box -/
def targetSeg (v : Variant) (targets controls : List Nat) (n : Nat) (b : Box) (i w : Nat) : Seg :=
  if targets.length = 1 then { top := b.top, mid := b.midLabel, bot := b.bot }
  else if i = 0 ∧ w ∈ targets then { top := b.midFrame, mid := b.midLabel, bot := b.bot }
  else if i = n - 1 ∧ w ∈ targets then { top := b.top, mid := b.midConnect, bot := b.midFrame }
  else
    { top := b.midFrame
      mid := if v.insideNode = true ∧ w ∈ controls then setChar b.midFrame (b.midFrame.length / 2) '█'
             else b.midFrame
      bot := b.midFrame }

/-- `_update_target_multiq`; `wl = range(min(targets), max(targets) + 1)`,
`controls = gate.controls or []` -/
def updTargetMultiq (v : Variant) (targets controls : List Nat) (wl : List Nat) (b : Box) : List (Nat × Seg) :=
  (List.zip (List.range wl.length) wl).map fun x => (x.2, targetSeg v targets controls wl.length b x.1 x.2)

/-- the wires `_update_qbridge` leaves to the box -/
def inBox (v : Variant) (targets : List Nat) (w : Nat) : Bool :=
  if v.spanFix then decide (lmin targets ≤ w ∧ w ≤ lmax targets) else decide (w ∈ targets)

/-- `_update_qbridge` -/
def updQbridge (v : Variant) (targets controls : List Nat) (wl : List Nat) (width : Nat) (isTop : Bool) :
    List (Nat × Seg) :=
  let h := width / 2
  let bar := rep h ' ' ++ '│' :: rep (h - 1) ' '
  let midBar := rep h '─' ++ '│' :: rep (h - 1) '─'
  let node := rep h '─' ++ '█' :: rep (h - 1) '─'
  let blank := rep bar.length ' '
  wl.filterMap fun w =>
    if inBox v targets w then none
    else if w ∈ controls then
      if some w = wl.head? ∨ some w = wl.getLast? then
        some (w, { top := if !isTop then bar else blank, mid := node, bot := if isTop then bar else blank })
      else some (w, { top := bar, mid := node, bot := bar })
    else some (w, { top := bar, mid := midBar, bot := bar })

/-- `_update_swap_gate` -/
def updSwap (p : Nat) (wl : List Nat) : List (Nat × Seg) :=
  let width := 4 * p + 1
  let h := width / 2
  let cross := rep h '─' ++ '╳' :: rep h '─'
  let bar := rep h ' ' ++ '│' :: rep h ' '
  let midBar := rep h '─' ++ '│' :: rep h '─'
  let blank := rep bar.length ' '
  wl.map fun w =>
    if some w = wl.getLast? then (w, { top := blank, mid := cross, bot := bar })
    else if some w = wl.head? then (w, { top := bar, mid := cross, bot := blank })
    else (w, { top := bar, mid := midBar, bot := bar })

/-! ## One iteration of the loop of `layout` -/

/-- What `layout` computes for one circuit element before touching the rows. -/
structure Plan where
  wl : List Nat                 -- wire_list
  width : Nat                   -- width
  acts : List (Nat × Seg)       -- the appends of the `_update_*` calls, in order
deriving DecidableEq, Repr

def swapName : Str := ['S', 'W', 'A', 'P']

def gateText (name : Str) (argLabel : Option Str) : Str := argLabel.getD name

/-- the `elif … else` chain of `layout` for a `Gate` with a target list -/
def planGate (v : Variant) (p : Nat) (name : Str) (argLabel : Option Str) (targets : List Nat)
    (controls : Option (List Nat)) : Except Err Plan :=
  let text := gateText name argLabel
  if targets.length = 1 ∧ controls = none then
    let g := drawSingleq p text
    .ok { wl := targets, width := g.top.length, acts := updSingleq targets g }
  else if name = swapName then
    if targets.isEmpty then .error .value                 -- `min([])`
    else
      let wl := pyRange (lmin targets) (lmax targets + 1)
      .ok { wl := wl, width := 4 * p + 1, acts := updSwap p wl }
  else
    let merged := targets ++ ctrlList controls
    if targets.isEmpty then .error .index                 -- `merged_wire[0]` / `sorted_targets[0]`
    else
      let wl := pyRange (lmin merged) (lmax merged + 1)
      let b := drawMultiq v p text targets controls
      let width := b.top.length
      let tmin := lmin targets
      let tmax := lmax targets
      let a0 := updTargetMultiq v targets (ctrlList controls) (pyRange tmin (tmax + 1)) b
      if truthy controls then
        let cs := ctrlList controls
        let a1 := if isTop v cs targets then updQbridge v targets cs (pyRange tmin (lmax cs + 1)) width true else []
        let a2 := if isBot v cs targets then updQbridge v targets cs (pyRange (lmin cs) (tmax + 1)) width false else []
        .ok { wl := wl, width := width, acts := a0 ++ a1 ++ a2 }
      else .ok { wl := wl, width := width, acts := a0 }

/-- the `if isinstance(gate, Measurement) … elif … else` chains of `layout` -/
def plan (v : Variant) (p N C : Nat) : Op → Except Err Plan
  | .meas targets store =>
    match targets with
    | [] => .error .index                                   -- `gate.targets[0]`
    | t0 :: _ =>
      let wl := pyRange 0 (t0 + 1) ++ pyRange (store + N) (N + C)
      let g := drawMeas p N t0 store
      let width := g.top.length
      .ok { wl := wl, width := width, acts := updSingleq targets g ++ updCbridge N t0 store wl width }
  | .gate name argLabel targets controls => planGate v p name argLabel targets controls
  | .glob name argLabel =>
    -- shipped: `len(gate.targets)` with `targets = None`; repaired: a box over all the qubits
    if v.globalBox then planGate v p name argLabel (List.range N) none else .error .type
  | .measNS targets =>
    if v.measBox then
      -- repaired: `wire_list = gate.targets`, the box of `_draw_singleq_gate("M")` on every target, no bridge
      if targets.isEmpty then .error .value                 -- `max(())` for the layer
      else
        let g := drawSingleq p ['M']
        .ok { wl := targets, width := g.top.length, acts := updSingleq targets g }
    else
      -- shipped: `gate.targets[0]`, then `gate.classical_store + self._qwires` with `None`
      match targets with
      | [] => .error .index
      | _ :: _ => .error .type

/-- "update the render strings for the gate" -/
def place (align : Bool) (N : Nat) (pl : Plan) (st : St) : St :=
  let layer := layerOf st pl.wl
  let xskip := getXskip align N st pl.wl layer
  applyActs pl.acts (manageLayers pl.width pl.wl layer xskip (adjustPad N pl.wl xskip st))

def step (v : Variant) (sty : Style) (N C : Nat) (st : St) (op : Op) : Except Err St :=
  match plan v sty.pad N C op with
  | .error e => .error e
  | .ok pl =>
    if !pl.wl.all (· < N + C) then .error .index            -- `self._layer_list[i]`
    else if sty.align ∧ N = 0 then .error .value            -- `max([])` in `_get_xskip`
    else if !pl.acts.all (·.1 < N + C) then .error .index   -- `self._render_strs[..][wire]`
    else .ok (place sty.align N pl st)

def steps (v : Variant) (sty : Style) (N C : Nat) : St → List Op → Except Err St
  | st, [] => .ok st
  | st, op :: ops =>
    match step v sty N C st op with
    | .error e => .error e
    | .ok st' => steps v sty N C st' ops

/-- the final `_adjust_layer_pad` of `layout` -/
def finalPad (sty : Style) (N : Nat) (st : St) : St :=
  let maxLayerLen := imax (st.map fun w => isum w.layers)
  adjustPad N (List.range st.length) (maxLayerLen + sty.ext) st

/-- state of the renderer when `layout` calls `print_circuit` -/
def layoutSt (v : Variant) (sty : Style) (c : Circ) : Except Err St :=
  match addWireLabels sty c.N c.C (initSt c.N c.C) with
  | .error e => .error e
  | .ok st0 =>
    match steps v sty c.N c.C st0 c.ops with
    | .error e => .error e
    | .ok st => .ok (finalPad sty c.N st)

/-- **a renderer object used twice**: `r = TextRenderer(qc); r.layout(); …; r.layout()` — the state when
the second `layout()` prints.  `c0` is the circuit at the first call, `c` the circuit (same object,
its gate list and the fields of its gates possibly changed in between) at the second one.  The
contract is "the picture of `c`, as drawn by a fresh renderer"; the tree with the repair
`resetLayout` meets it, the shipped one writes the labels and the elements again behind the rows
of the first call (and blanks their top and bottom rows up to the new label). -/
def relayoutSt (v : Variant) (sty : Style) (c0 c : Circ) : Except Err St :=
  match layoutSt v sty c0 with
  | .error e => .error e
  | .ok prev =>
    let start := if v.resetLayout then initSt c.N c.C else prev
    match addWireLabels sty c.N c.C start with
    | .error e => .error e
    | .ok st0 =>
      match steps v sty c.N c.C st0 c.ops with
      | .error e => .error e
      | .ok st => .ok (finalPad sty c.N st)

def wireRows (st : St) (i : Nat) : List Str :=
  match st[i]? with
  | some w => [w.top, w.mid, w.bot]
  | none => []

/-- the wires in the order `print_circuit` / `save` emit them -/
def printOrder (N C : Nat) : List Nat :=
  (List.range N).reverse ++ ((List.range C).map (· + N)).reverse

/-- `print_circuit`: the printed lines -/
def printRows (N C : Nat) (st : St) : List Str := (printOrder N C).flatMap (wireRows st)

/-- `QubitCircuit.draw("text", **style)`: the printed lines, or the exception -/
def render (v : Variant) (sty : Style) (c : Circ) : Except Err (List Str) :=
  match layoutSt v sty c with
  | .error e => .error e
  | .ok st => .ok (printRows c.N c.C st)

/-- the lines the second `r.layout()` of one renderer object prints -/
def render2 (v : Variant) (sty : Style) (c0 c : Circ) : Except Err (List Str) :=
  match relayoutSt v sty c0 c with
  | .error e => .error e
  | .ok st => .ok (printRows c.N c.C st)

end QipVerif.Render
