/-!
# Model of `qutip_qip.operations.gates.expand_operator` (property C08)

Import-free, executable.  The operator is never materialised: for a pair of product
basis states `x y` (digit lists, one digit per subsystem) the model answers *which entry
of the small operator* the expanded matrix element equals (`some (a, b)` meaning
`U[a][b]`), or `none` when the element is `0` by the identity factors.  This makes the
model independent of the coefficient ring and of the operator: every statement proved
about it holds for every operator.
-/
namespace QipVerif.Embed

/-! ## The code's list algorithm -/

/-- `for i, p in enumerate(ps): ord[p] = start + i` — both assignment loops of the code
have this shape (`start = 0` for the targets, `start = k` for the rest positions because
`rest_qubits = range(k, N)`). -/
def assignSeq : List Nat → Nat → List Nat → List Nat
  | [], _, ord => ord
  | p :: ps, v, ord => assignSeq ps (v + 1) (ord.set p v)

/-- `rest_pos = [q for q in range(N) if q not in targets]` -/
def restPos (N : Nat) (targets : List Nat) : List Nat :=
  (List.range N).filter (fun q => !targets.contains q)

/-- `new_order` of `expand_operator` for in-range targets. -/
def newOrder (N : Nat) (targets : List Nat) : List Nat :=
  assignSeq (restPos N targets) targets.length (assignSeq targets 0 (List.replicate N 0))

/-! ## Validation (`_targets_to_list`, `_check_oper_dims`, and the downstream failures) -/

inductive Err
  | count   -- "The given operator needs k target qubits, but m given."
  | range   -- "Targets must be smaller than N"
  | dims    -- "The operator dims do not match the target dims"
  | index   -- IndexError raised by the list algorithm (negative / duplicate targets)
  | permute -- `Qobj.permute` refuses: the order has not as many elements as the tensor has subsystems
deriving DecidableEq, Repr

/-- Python list indexing with wrap-around of negative indices. -/
def pyGet (l : List Nat) (t : Int) : Option Nat :=
  if 0 ≤ t then l[t.toNat]? else
    if 0 ≤ (l.length : Int) + t then l[((l.length : Int) + t).toNat]? else none

/-- `[dims[t] for t in targets]` (IndexError = `none`) -/
def pyGetAll (dims : List Nat) : List Int → Option (List Nat)
  | [] => some []
  | t :: ts =>
    match pyGet dims t, pyGetAll dims ts with
    | some a, some b => some (a :: b)
    | _, _ => none

/-- the non-negative targets, as naturals -/
def nonneg : List Int → List Nat
  | [] => []
  | t :: ts => if 0 ≤ t then t.toNat :: nonneg ts else nonneg ts

/-- What the real function does before building anything; `targets` are Python ints. -/
def validate (dims : List Nat) (targets : List Int) (opdims : List Nat) : Except Err (List Nat) :=
  let N := dims.length
  if targets.length ≠ opdims.length then .error .count else
  if !(targets.all (fun t => t < (N : Int))) then .error .range else
  match pyGetAll dims targets with
  | none => .error .index
  | some td =>
    if td ≠ opdims then .error .dims else
    -- `new_order[t] = i` wraps negative t; `q not in targets` compares with the raw values,
    -- so negative or duplicate targets leave more than N-k rest positions and
    -- `rest_qubits[i]` raises IndexError.
    let nn := nonneg targets
    if (restPos N nn).length > N - targets.length then .error .index
    -- the tensor product has k + |rest_pos| subsystems, `new_order` has N entries
    else if (restPos N nn).length + targets.length ≠ N then .error .permute
    else .ok nn

/-! ## Meaning of `tensor([oper] + ids).permute(new_order)` on digit tuples

`Qobj.permute(order)`: subsystem `p` of the result is subsystem `order[p]` of the
argument.  The argument is `oper ⊗ 1`: subsystems `0..k-1` are the operator's, the
others carry identities. -/

/-- digits of the *argument* of `permute` given digits `x` of the result:
`x'[order[p]] = x[p]`, i.e. `x'[j] = x[order.idxOf j]`. -/
def unpermute (ord : List Nat) (x : List Nat) : List Nat :=
  (List.range ord.length).map (fun j => x.getD (ord.idxOf j) 0)

/-- Matrix element of the expanded operator between basis states `x` and `y`:
`none` = 0, `some (a, b)` = the operator's entry between digit lists `a` and `b`. -/
def expandEntry (N : Nat) (targets : List Nat) (x y : List Nat) : Option (List Nat × List Nat) :=
  let ord := newOrder N targets
  let k := targets.length
  let x' := unpermute ord x
  let y' := unpermute ord y
  if x'.drop k = y'.drop k then some (x'.take k, y'.take k) else none

/-- The specification (C08's statement): operator entry on the target digits in the
listed order, Kronecker delta on all other digits. -/
def specEntry (N : Nat) (targets : List Nat) (x y : List Nat) : Option (List Nat × List Nat) :=
  if (List.range N).all (fun i => targets.contains i || x.getD i 0 == y.getD i 0)
  then some (targets.map (fun t => x.getD t 0), targets.map (fun t => y.getD t 0)) else none

/-! ## Mixed-radix indices (first subsystem most significant, as `qutip.tensor`) -/

/-- product of the dimensions -/
def prodL : List Nat → Nat
  | [] => 1
  | d :: ds => d * prodL ds

def digits : List Nat → Nat → List Nat
  | [], _ => []
  | d :: ds, idx => (idx / prodL ds) % d :: digits ds (idx % prodL ds)

def undigits : List Nat → List Nat → Nat
  | [], _ => 0
  | _, [] => 0
  | _ :: ds, v :: vs => v * prodL ds + undigits ds vs

def total (dims : List Nat) : Nat := prodL dims

end QipVerif.Embed
