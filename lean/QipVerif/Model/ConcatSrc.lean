import QipVerif.Model.Concat
/-!
# The concatenation model driven by what the source says (property C12)

`Model/Concat.lean` fixes the shape of `_process_gate_pulse`, `_process_idling_tlist` and `_concatenate_pulses`.
Here the same three functions are written over a *description of the source* (`Src`): every tolerance constant,
every comparison operator, the operands of the idle test, the end points and point counts of `np.linspace` /
`np.arange`, the slices and indices of `_process_gate_pulse`, the reference of `time_tol`, which step size the final
padding uses.  `py/props/c12.py` reads that description from the working tree with `ast` and writes it to
`Gen/ConcatSrc.lean`; the driver runs *this* model, so an edit of a constant or an operator changes the Lean
definition that is compared with the code.  `Lemmas/ConcatSrcEq.lean` proves that for a description of the expected
shape (`Src.Standard`, decidable) this model is the fixed-shape one the theorems are about.

Import-free apart from the fixed-shape model, executable, exact (`Rat`).
-/
namespace QipVerif.Concat

inductive Cmp
  | lt | le | gt | ge | eq | ne
deriving DecidableEq, Repr

def Cmp.test : Cmp → Rat → Rat → Bool
  | .lt, a, b => decide (a < b)
  | .le, a, b => decide (a ≤ b)
  | .gt, a, b => decide (a > b)
  | .ge, a, b => decide (a ≥ b)
  | .eq, a, b => decide (a = b)
  | .ne, a, b => decide (a ≠ b)

/-- a linear form `start·start_time + last·last_pulse_time + step·step_size + const` -/
structure Lin where
  start : Rat
  last : Rat
  step : Rat
  const : Rat
deriving DecidableEq, Repr

def Lin.eval (l : Lin) (start last step : Rat) : Rat :=
  l.start * start + l.last * last + l.step * step + l.const

/-- the slice `x[front : len(x) - back]` (`x[1:]` = ⟨1, 0⟩, `x[:-1]` = ⟨0, 1⟩) -/
structure Slice where
  front : Nat
  back : Nat
deriving DecidableEq, Repr

def Slice.app (s : Slice) (l : List Rat) : List Rat := (l.drop s.front).take (l.length - s.front - s.back)

/-- one `elif len(tlist) + off == len(coeff):` branch of `_process_gate_pulse`:
`step_size = tlist[hi] - tlist[lo]`, `coeff = np.asarray(coeff)[cSlice]`, `gate_tlist = np.asarray(tlist)[tSlice]` -/
structure ArrBranch where
  off : Int
  hi : Nat
  lo : Nat
  tSlice : Slice
  cSlice : Slice
  mode : Mode
deriving DecidableEq, Repr

/-- `_process_gate_pulse` as the source has it -/
structure ProcSrc where
  scalarMode : Mode
  branches : List ArrBranch
deriving DecidableEq, Repr

def procBranches (tl cs : List Rat) : List ArrBranch → Except Err Proc
  | [] => .error .shape
  | b :: bs =>
    if (tl.length : Int) + b.off = (cs.length : Int) then
      match tl[b.hi]?, tl[b.lo]? with
      | some x, some y => .ok ⟨b.tSlice.app tl, b.cSlice.app cs, x - y, b.mode⟩
      | _, _ => .error .index
    else procBranches tl cs bs

def procPulseS (src : ProcSrc) : Wave → Except Err Proc
  | .scalar t c => .ok ⟨[t], [c], t, src.scalarMode⟩
  | .mixed _ _ => .error .type
  | .arr tl cs => procBranches tl cs src.branches

/-- `np.linspace(a, b, n)` -/
def linspaceN (n : Nat) (a b : Rat) : List Rat :=
  (List.range n).map (fun (i : Nat) => a + (i : Rat) * ((b - a) / ((n : Rat) - 1)))

/-- one array appended to `idling_tlist` -/
inductive Piece
  | linspace (a b : Lin) (n : Nat)
  | arange (a stop step : Lin)
  | pts (l : List Lin)
deriving DecidableEq, Repr

def Piece.eval (start last step : Rat) : Piece → Except Err (List Rat)
  | .linspace a b n => .ok (linspaceN n (a.eval start last step) (b.eval start last step))
  | .arange a stop st =>
    if st.eval start last step = 0 then .error .zerodiv
    else .ok (Concat.arange (a.eval start last step) (stop.eval start last step) (st.eval start last step))
  | .pts l => .ok (l.map (·.eval start last step))

def evalPieces (start last step : Rat) : List Piece → Except Err (List Rat)
  | [] => .ok []
  | p :: ps =>
    match p.eval start last step with
    | .error e => .error e
    | .ok a =>
      match evalPieces start last step ps with
      | .error e => .error e
      | .ok b => .ok (a ++ b)

/-- `_process_idling_tlist` as the source has it: in continuous mode `if condL cmp condR: thenP else: elseP` -/
structure IdleSrc where
  condL : Lin
  condCmp : Cmp
  condR : Lin
  thenP : List Piece
  elseP : List Piece
  disc : List Piece
deriving DecidableEq, Repr

def idleS (src : IdleSrc) (m : Mode) (start last step : Rat) : Except Err (List Rat) :=
  match m with
  | .continuous =>
    if src.condCmp.test (src.condL.eval start last step) (src.condR.eval start last step) then
      evalPieces start last step src.thenP
    else evalPieces start last step src.elseP
  | .discrete => evalPieces start last step src.disc

/-- what the idle-gap tolerance is relative to -/
inductive GapRef
  | step       -- `step_size * c` of the following pulse (code before fixes/C12-3.patch)
  | maxStart   -- `c * max |start time|` (fixes/C12-3.patch)
  | maxEnd     -- `c * max (|start time| + max(tlist))` (fixes/C12-5.patch)
deriving DecidableEq, Repr

/-- which step size the final padding uses -/
inductive StepRef
  | min    -- `min_step_size`
  | last   -- `step_size` (left over from the last pulse processed)
deriving DecidableEq, Repr

structure CatSrc where
  firstByTol : Bool     -- `abs(last_pulse_time) < step_size * firstTol` instead of `not compiled_tlist[pulse_ind]`
  firstCmp : Cmp
  firstTol : Rat
  gapRef : GapRef
  gapCmp : Cmp
  gapTol : Rat
  emptyOk : Bool        -- fixes/C12-2.patch
  padCmp : Cmp
  padTol : Rat
  padTolStep : StepRef  -- the step size in the tolerance of the padding test
  padStep : StepRef     -- the step size handed to `_process_idling_tlist` for the padding
  dropZero : Bool       -- `compile` drops instructions of zero duration
deriving DecidableEq, Repr

/-- `Instruction.__init__` on a sampled `tlist` as the source has it: `abs(tlist[0]) t0Cmp t0Tol` raises ValueError; with
`shift` an accepted sequence whose first entry is not 0 is replaced by `tlist - tlist[0]` (fixes/C12-6.patch);
`duration = durLast * tlist[-1] + durFirst * tlist[0]` (the code: `tlist[-1]`). -/
structure InstrSrc where
  t0Cmp : Cmp
  t0Tol : Rat
  shift : Bool
  durLast : Rat
  durFirst : Rat
deriving DecidableEq, Repr

structure Src where
  proc : ProcSrc
  idle : IdleSrc
  cat : CatSrc
  instr : InstrSrc
deriving DecidableEq, Repr

/-- the tolerances of the source multiplied by `k` (the harness probes `k = 1 ± 2^-20` to find the cases in which a
float product such as `step_size * 1e-6` could decide differently from the exact rational) -/
def Src.scale (k : Rat) (s : Src) : Src :=
  { s with cat := { s.cat with firstTol := s.cat.firstTol * k, gapTol := s.cat.gapTol * k, padTol := s.cat.padTol * k } }

/-- `np.max(tlist, initial=0.0)` -/
def Wave.tmax : Wave → Rat
  | .scalar t _ => if 0 < t then t else 0
  | .arr tl _ => tl.foldl (fun a b => if a < b then b else a) 0
  | .mixed tl _ => tl.foldl (fun a b => if a < b then b else a) 0

/-- `max([abs(inst[0]) + np.max(inst[1], initial=0.0) for insts in pulse_instructions for inst in insts], default=0.0)` -/
def maxEnd (chans : List (List (Rat × Wave))) : Rat :=
  (chans.flatten.map (fun sw => absR sw.1 + sw.2.tmax)).foldl (fun a b => if a < b then b else a) 0

/-- the reference of `time_tol` -/
def gapScale (r : GapRef) (chans : List (List (Rat × Wave))) : Rat :=
  match r with
  | .step => 0
  | .maxStart => maxStart chans
  | .maxEnd => maxEnd chans

/-- `time_tol` (0 when the idle-gap tolerance is relative to the step size of the following pulse) -/
def Src.timeTol (src : Src) (chans : List (List (Rat × Wave))) : Rat :=
  src.cat.gapTol * gapScale src.cat.gapRef chans

/-- all pulses processed successfully, in processing order -/
def procsS (src : Src) (chans : List (List (Rat × Wave))) : List Proc :=
  (chans.flatten).filterMap (fun sw => match procPulseS src.proc sw.2 with | .ok p => some p | .error _ => none)

/-- the channel loop; `tt` = `time_tol` -/
def chanLoopS (src : Src) (tt : Rat) : Bool → Rat → List (Rat × Wave) → Except Err (List Rat × List Rat × Rat)
  | _, last, [] => .ok ([], [], last)
  | isFirst, last, (s, w) :: rest =>
    match procPulseS src.proc w with
    | .error e => .error e
    | .ok p =>
      let first := if src.cat.firstByTol then src.cat.firstCmp.test (absR last) (p.step * src.cat.firstTol) else isFirst
      let z := zeroChunk first p.mode
      let thr := match src.cat.gapRef with
        | .step => p.step * src.cat.gapTol
        | _ => tt
      match (if src.cat.gapCmp.test (absR (s - last)) thr then idleS src.idle p.mode s last p.step else .ok []) with
      | .error e => .error e
      | .ok idl =>
        let ex := p.gt.map (· + s)
        match chanLoopS src tt false (ex.getLast?.getD last) rest with
        | .error e => .error e
        | .ok (ts, cs, l) =>
          .ok (z.1 ++ (idl ++ (ex ++ ts)), z.2 ++ (idl.map (fun _ => 0) ++ (p.cs ++ cs)), l)

def stepOf (r : StepRef) (ms : Rat) (lastp : Proc) : Rat :=
  match r with
  | .min => ms
  | .last => lastp.step

/-- final padding of one channel -/
def padChanSrc (src : Src) (lastp : Proc) (final ms : Rat) (r : List Rat × List Rat × Rat) :
    Except Err (List Rat × List Rat) :=
  if src.cat.padCmp.test (absR (final - r.2.2)) (stepOf src.cat.padTolStep ms lastp * src.cat.padTol) then
    match idleS src.idle lastp.mode final r.2.2 (stepOf src.cat.padStep ms lastp) with
    | .error e => .error e
    | .ok idl => .ok (r.1 ++ idl, r.2.1 ++ idl.map (fun _ => 0))
  else .ok (r.1, r.2.1)

def padChanSrcO (src : Src) (lastp : Proc) (final ms : Rat) (r : List Rat × List Rat × Rat) :
    Except Err (Option (List Rat × List Rat)) :=
  if src.cat.emptyOk && r.1.isEmpty then .ok none else
  match padChanSrc src lastp final ms r with
  | .error e => .error e
  | .ok o => .ok (some o)

/-- `_concatenate_pulses` as the source has it -/
def concatenateS (src : Src) (chans : List (List (Rat × Wave))) : Except Err (List (Option (List Rat × List Rat))) :=
  match mapMExcept (chanLoopS src (src.timeTol chans) true 0) chans with
  | .error e => .error e
  | .ok rs =>
    if src.cat.emptyOk then
      let final := (maxList ((rs.filter (fun r => !r.1.isEmpty)).map (·.2.2))).getD 0
      match minStep (procsS src chans), (procsS src chans).getLast? with
      | some ms, some lastp => mapMExcept (padChanSrcO src lastp final ms) rs
      | _, _ => .ok (rs.map fun _ => none)
    else
      if chans.any (·.isEmpty) then .error .index else
      match maxList (rs.map (·.2.2)), minStep (procsS src chans), (procsS src chans).getLast? with
      | some final, some ms, some lastp => mapMExcept (padChanSrcO src lastp final ms) rs
      | _, _, _ => .error .empty

/-- `GateCompiler.compile` after the gate-by-gate compilation, for any concatenation function -/
def compileWith (dropZero : Bool)
    (cat : List (List (Rat × Wave)) → Except Err (List (Option (List Rat × List Rat))))
    (instrs0 : List Instr) (sch : Option (List Rat × List Nat)) :
    Option (Except Err (Option (List (Nat × Option (List Rat × List Rat))))) :=
  let instrs := if dropZero then instrs0.filter (fun i => i.duration != 0) else instrs0
  if instrs.isEmpty then some (.ok none) else
  match schedule instrs sch with
  | .error e => some (.error e)
  | .ok (is, starts) =>
    match groupPulses (is.zip starts) [] with
    | none => none
    | some groups =>
      match cat (groups.map (·.2)) with
      | .error e => some (.error e)
      | .ok outs => some (.ok (some ((groups.map (·.1)).zip outs)))

/-- `Instruction(gate, tlist, pulse_info)`: the instruction as stored and its `duration`; `none` = ValueError -/
def InstrSrc.init (s : InstrSrc) (i : Instr) : Option (Instr × Rat) :=
  match i.tl with
  | .scalar t => some (i, t)
  | .arr tl =>
    let t0 := tl.head?.getD 0
    if s.t0Cmp.test (absR t0) s.t0Tol then none else
    let tl' := if s.shift && t0 != 0 then tl.map (· - t0) else tl
    some ({ i with tl := .arr tl' }, s.durLast * tl'.getLast?.getD 0 + s.durFirst * tl'.head?.getD 0)

def initAll (s : InstrSrc) : List Instr → Option (List (Instr × Rat))
  | [] => some []
  | i :: is =>
    match s.init i, initAll s is with
    | some a, some as => some (a :: as)
    | _, _ => none

/-- start times without scheduling from the recorded durations -/
def cumStartsD : Rat → List (Instr × Rat) → List Rat
  | _, [] => []
  | acc, (_, d) :: rest => acc :: cumStartsD (acc + d) rest

/-- `_schedule` on instructions with their recorded durations -/
def scheduleD (ids : List (Instr × Rat)) : Option (List Rat × List Nat) → Except Err (List Instr × List Rat)
  | none => .ok (ids.map (·.1), cumStartsD 0 ids)
  | some sp => schedule (ids.map (·.1)) (some sp)

/-- `GateCompiler.compile` on constructed instructions `(instruction, duration)` -/
def compileD (dropZero : Bool)
    (cat : List (List (Rat × Wave)) → Except Err (List (Option (List Rat × List Rat))))
    (ids0 : List (Instr × Rat)) (sch : Option (List Rat × List Nat)) :
    Option (Except Err (Option (List (Nat × Option (List Rat × List Rat))))) :=
  let ids := if dropZero then ids0.filter (fun id => id.2 != 0) else ids0
  if ids.isEmpty then some (.ok none) else
  match scheduleD ids sch with
  | .error e => some (.error e)
  | .ok (is, starts) =>
    match groupPulses (is.zip starts) [] with
    | none => none
    | some groups =>
      match cat (groups.map (·.2)) with
      | .error e => some (.error e)
      | .ok outs => some (.ok (some ((groups.map (·.1)).zip outs)))

/-- `GateCompiler.compile` as the source has it, from the arguments the gate compilers hand to `Instruction` -/
def compileS (src : Src) (instrs0 : List Instr) (sch : Option (List Rat × List Nat)) :
    Option (Except Err (Option (List (Nat × Option (List Rat × List Rat))))) :=
  match initAll src.instr instrs0 with
  | none => some (.error .t0)
  | some ids => compileD src.cat.dropZero (concatenateS src) ids sch

/-! ## The fixed-shape model with an absolute idle-gap threshold (what the theorems are about) -/

/-- `_concatenate_pulses` with the first-pulse test by emptiness, channels without pulse left empty and the idle-gap test
`np.abs(start_time - last_pulse_time) > thr` for an absolute threshold `thr` (`concatenateG true ρ τ` is this function at
`thr = ρ * maxStart chans`) -/
def concatenateH (thr τ : Rat) (chans : List (List (Rat × Wave))) :
    Except Err (List (Option (List Rat × List Rat))) :=
  match mapMExcept (chanLoopG thr true 0) chans with
  | .error e => .error e
  | .ok rs =>
    let final := (maxList ((rs.filter (fun r => !r.1.isEmpty)).map (·.2.2))).getD 0
    match minStep (procs chans), (procs chans).getLast? with
    | some ms, some lastp => mapMExcept (padChanO τ lastp.mode final ms) rs
    | _, _ => .ok (rs.map fun _ => none)

/-- the shape of `_process_gate_pulse` the theorems are about -/
def stdProc : ProcSrc :=
  { scalarMode := .discrete,
    branches := [⟨-1, 1, 0, ⟨1, 0⟩, ⟨0, 0⟩, .discrete⟩, ⟨0, 1, 0, ⟨1, 0⟩, ⟨1, 0⟩, .continuous⟩] }

/-- the shape of `_process_idling_tlist` the theorems are about -/
def stdIdle : IdleSrc :=
  { condL := ⟨1, -1, 0, 0⟩, condCmp := .gt, condR := ⟨0, 0, 3, 0⟩,
    thenP := [.linspace ⟨0, 1, 1/5, 0⟩ ⟨0, 1, 1, 0⟩ 10, .linspace ⟨1, 0, -1, 0⟩ ⟨1, 0, 0, 0⟩ 10],
    elseP := [.arange ⟨0, 1, 1, 0⟩ ⟨1, 0, 0, 0⟩ ⟨0, 0, 1, 0⟩],
    disc := [.pts [⟨1, 0, 0, 0⟩]] }

/-- the source has the shape the theorems are about: the two helper functions as above, first pulse by emptiness,
`time_tol` relative to the largest start or end time and compared with `>`, empty channels left empty, padding test
`> min_step_size * padTol` with `min_step_size` -/
def Src.Standard (s : Src) : Prop :=
  s.proc = stdProc ∧ s.idle = stdIdle ∧ s.cat.firstByTol = false ∧ s.cat.gapRef ≠ .step ∧ s.cat.gapCmp = .gt ∧
  s.cat.emptyOk = true ∧ s.cat.padCmp = .gt ∧ s.cat.padTolStep = .min ∧ s.cat.padStep = .min

instance (s : Src) : Decidable s.Standard := by unfold Src.Standard; infer_instance

/-- `Instruction.__init__` has the shape the theorems are about: a first entry is refused by `abs(tlist[0]) > t0Tol`, the
duration of a sampled instruction is `tlist[-1]` -/
def InstrSrc.Standard (s : InstrSrc) : Prop := s.t0Cmp = .gt ∧ s.durLast = 1 ∧ s.durFirst = 0

instance (s : InstrSrc) : Decidable s.Standard := by unfold InstrSrc.Standard; infer_instance

end QipVerif.Concat
