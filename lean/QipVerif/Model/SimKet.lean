import QipVerif.Model.Circuit
/-!
# Model of gate-level circuit evolution (property C01)

Import-free (no Mathlib/Batteries), total, executable.  Everything is generic in the scalar type:
`Ops α` carries the five scalar operations and **no laws**, so the same definitions run in the driver
over exact dyadic cyclotomic numbers (`CycD`) and are reasoned about over `ℂ` in `Lemmas/SimKet*.lean`.

Modelled code (`/repo/src/qutip_qip`):

* `circuit/circuitsimulator.py`
  * `CircuitSimulator._evolve_state_einsum` — `einLists` builds the four index lists exactly as the code
    does (`ancillary_indices`, `targets_indices`, `index_list`, `new_index_list`); `einsum` is a faithful
    evaluator of the two-operand `np.einsum(A, la, B, lb, lo)` with explicit index lists; `stepKet`.
  * `CircuitSimulator._evolve_state` (density-matrix mode) — `stepDm`: `expand_operator`, then `UρU†`;
    the GLOBALPHASE branch is the **repaired** one (fixes/C01-2.patch: scalar and its conjugate; the
    unpatched code raises `AttributeError` there).
  * `initialize`/`run`/`step`/`state` for measurement-free circuits — `runKet`, `runDm`, `traceKet`,
    `traceDm`; `QubitCircuit.compute_unitary` — `computeUnitary` (run on the identity operator, whose
    tensor has one extra axis); `QubitCircuit.propagators(expand)` — `propagators`;
    `_gate_sequence_product_with_expansion` — `seqProduct`.
  * `_mult_sublists`, `_expand_overall`, `_gate_sequence_product` — `multSublists`, `expandOverall`,
    `gsp`: a recursive list algorithm on (matrix, index-list) blocks.  Python's `list(set(a).union(set(b)))`
    is the **order oracle** parameter `ord` (its iteration order is unspecified by the language).  The
    repaired code (fixes/C01-1.patch) is the instance `ordSorted`.
* `circuit/circuit.py` `QubitCircuit._get_gate_unitary` — `getGateUnitary` (lookup logic for user gates);
  section (f): `resolveGate` — gate object → matrix step (`get_all_qubits`, GLOBALPHASE name test, user table
  with opaque user functions, library); section (g): `propagatorsM` — `propagators(expand, ignore_measurement)`
  on circuits containing measurements.

Matrices are lazy (`FMat`: dimension + entry function) and are tabulated (`force`) after every
multiplication, so that 9–12 qubit compact products can be sampled entrywise.
-/
namespace QipVerif.SimKet
open QipVerif.Embed

/-! ## Scalars -/

/-- scalar operations, no laws -/
structure Ops (α : Type) where
  zero : α
  one : α
  add : α → α → α
  mul : α → α → α
  conj : α → α

variable {α : Type}

def sumL (o : Ops α) : List α → α
  | [] => o.zero
  | a :: as => o.add a (sumL o as)

inductive Err
  | embed (e : Embed.Err)   -- raised by `expand_operator`
  | index                   -- `new_index_list[k] = …` with k ≥ num_site (IndexError)
  | einsum                  -- `np.einsum` refuses (operand rank ≠ number of labels, inconsistent sizes)
  | empty                   -- `_gate_sequence_product([])`: `tensor_list` unbound
  | userControls            -- "A user defined gate … takes only `targets` variable."
  | userParams              -- "gate function takes at most one parameters."
  | userNeither             -- "gate is neither function nor operator"
  | unknownGate             -- `get_compact_qobj`: NotImplementedError (unknown name / GLOBALPHASE)
  | measurement             -- `propagators`: TypeError "Cannot compute the propagator of a measurement operator"
  | controlValue            -- ValueError: a fixed-matrix gate given a `control_value` other than "all controls 1"
  | fuel                    -- (model only) recursion budget exhausted; never happens with fuel ≥ length
deriving DecidableEq, Repr

/-! ## (a) The index lists of `_evolve_state_einsum` and two-operand `einsum` -/

structure EinLists where
  /-- `ancillary_indices = range(num_site, num_site + len(targets_indices))` -/
  anc : List Nat
  /-- `targets_indices = gate.get_all_qubits()` -/
  tgt : List Nat
  /-- `index_list = range(num_site)` -/
  idx : List Nat
  /-- `new_index_list = list(index_list); for j, k in enumerate(targets_indices): new_index_list[k] = j + num_site` -/
  new : List Nat
deriving DecidableEq, Repr

/-- the four lists; `num_site = len(state.shape)`: the number of qubits, plus one when the state is an
operator (the ancillary column axis added by `initialize`). -/
def einLists (numSite : Nat) (targets : List Nat) : EinLists :=
  { anc := List.range' numSite targets.length
    tgt := targets
    idx := List.range numSite
    new := assignSeq targets numSite (List.range numSite) }

/-- an n-dimensional array: shape and row-major data (`ndarray.reshape`) -/
structure Tensor (α : Type) where
  shape : List Nat
  data : List α

def Tensor.get (o : Ops α) (T : Tensor α) (ix : List Nat) : α :=
  T.data.getD (undigits T.shape ix) o.zero

def Tensor.ofFn (shape : List Nat) (f : List Nat → α) : Tensor α :=
  ⟨shape, (List.range (prodL shape)).map fun X => f (digits shape X)⟩

/-- first occurrences, in order -/
def dedup : List Nat → List Nat
  | [] => []
  | a :: as => a :: (dedup as).filter (fun b => b != a)

/-- value of label `l` in an assignment -/
def lookup : List (Nat × Nat) → Nat → Nat
  | [], _ => 0
  | (k, v) :: rest, l => if k = l then v else lookup rest l

/-- size of label `l` according to an operand with labels `ls` and shape `sh` (first occurrence) -/
def labelDim : List Nat → List Nat → Nat → Option Nat
  | a :: as, d :: ds, l => if a = l then some d else labelDim as ds l
  | _, _, _ => none

/-- the labels summed over: those of the operands that are not output labels -/
def summedLabels (la lb lo : List Nat) : List Nat :=
  dedup ((la ++ lb).filter (fun l => !lo.contains l))

/-- For the output position `oix` (one index per output label): the pairs
(index into the first operand, index into the second operand) whose products are summed.
Independent of the scalars. -/
def einsumTerms (la lb lo sl sdims : List Nat) (oix : List Nat) : List (List Nat × List Nat) :=
  (List.range (prodL sdims)).map fun s =>
    let env := lo.zip oix ++ sl.zip (digits sdims s)
    (la.map (lookup env), lb.map (lookup env))

/-- every axis of an operand has the size of its label -/
def dimsAgree (dimOf : Nat → Nat) : List Nat → List Nat → Bool
  | l :: ls, d :: ds => dimOf l == d && dimsAgree dimOf ls ds
  | [], [] => true
  | _, _ => false

/-- size of label `l`: from the first operand if it carries the label, else from the second -/
def dimOf (la shA lb shB : List Nat) (l : Nat) : Nat :=
  match labelDim la shA l with
  | some d => d
  | none => (labelDim lb shB l).getD 1

/-- what `np.einsum` checks: operand ranks = numbers of labels, one size per label, output labels
occur in the operands and are pairwise distinct -/
def einsumOk (la shA lb shB lo : List Nat) : Bool :=
  dimsAgree (dimOf la shA lb shB) la shA && dimsAgree (dimOf la shA lb shB) lb shB &&
  lo.all (fun l => (la ++ lb).contains l) && (dedup lo).length == lo.length

/-- `np.einsum(A, la, B, lb, lo)`:
`out[o] = Σ_{summed labels} A[la under the assignment] * B[lb under the assignment]`. -/
def einsum (o : Ops α) (A : Tensor α) (la : List Nat) (B : Tensor α) (lb lo : List Nat) :
    Except Err (Tensor α) :=
  if !einsumOk la A.shape lb B.shape lo then .error .einsum else
  let sl := summedLabels la lb lo
  .ok (Tensor.ofFn (lo.map (dimOf la A.shape lb B.shape)) fun oix =>
    sumL o ((einsumTerms la lb lo sl (sl.map (dimOf la A.shape lb B.shape)) oix).map fun ab =>
      o.mul (A.get o ab.1) (B.get o ab.2)))

/-- a step of a measurement-free circuit, already resolved to matrices -/
inductive Op (α : Type) where
  /-- GLOBALPHASE: the scalar `np.exp(1j * arg_value)` -/
  | phase (c : α)
  /-- a gate on `qs = controls ++ targets` whose compact matrix `U` (rows) has `m` qubit subsystems -/
  | gate (qs : List Nat) (m : Nat) (U : List (List α))

/-- `gate.full().reshape(gate.dims[0] + gate.dims[1])` -/
def gateTensor (m : Nat) (U : List (List α)) : Tensor α :=
  ⟨List.replicate (2 * m) 2, U.flatten⟩

/-- `_evolve_state_einsum` -/
def stepKet (o : Ops α) (op : Op α) (st : Tensor α) : Except Err (Tensor α) :=
  match op with
  | .phase c => .ok ⟨st.shape, st.data.map (o.mul c)⟩
  | .gate qs m U =>
    let n := st.shape.length
    if !(qs.all (· < n)) then .error .index else
    let L := einLists n qs
    einsum o (gateTensor m U) (L.anc ++ L.tgt) st L.idx L.new

/-- `run` in state-vector mode (no measurements, no classical controls): `step` for every gate -/
def runKet (o : Ops α) : List (Op α) → Tensor α → Except Err (Tensor α)
  | [], st => .ok st
  | op :: rest, st =>
    match stepKet o op st with
    | .ok s => runKet o rest s
    | .error e => .error e

/-- the states after each `step()` -/
def traceKet (o : Ops α) : List (Op α) → Tensor α → Except Err (List (Tensor α))
  | [], _ => .ok []
  | op :: rest, st =>
    match stepKet o op st with
    | .ok s => match traceKet o rest s with
      | .ok l => .ok (s :: l)
      | .error e => .error e
    | .error e => .error e

/-- the tensor `initialize` builds for a ket on `N` qubits -/
def ketTensor (N : Nat) (amps : List α) : Tensor α := ⟨List.replicate N 2, amps⟩

/-- the tensor `initialize` builds for an operator on `N` qubits (state-vector mode, `state.type == "oper"`):
`_tensor_dims = dims[0] + [prod(dims[0])]` -/
def operTensor (N : Nat) (rows : List (List α)) : Tensor α :=
  ⟨List.replicate N 2 ++ [2 ^ N], rows.flatten⟩

/-! ## Lazy matrices -/

structure FMat (α : Type) where
  n : Nat
  get : Nat → Nat → α

namespace FMat
def ofRows (o : Ops α) (n : Nat) (rows : List (List α)) : FMat α :=
  ⟨n, fun i j => (rows.getD i []).getD j o.zero⟩
def rows (A : FMat α) : List (List α) :=
  (List.range A.n).map fun i => (List.range A.n).map fun j => A.get i j
/-- tabulate -/
def force (o : Ops α) (A : FMat α) : FMat α := ofRows o A.n A.rows
def mul (o : Ops α) (A B : FMat α) : FMat α :=
  force o ⟨A.n, fun i j => sumL o ((List.range A.n).map fun k => o.mul (A.get i k) (B.get k j))⟩
/-- product of tabulated copies of the operands (lazy operands would be re-evaluated `n` times) -/
def mulF (o : Ops α) (A B : FMat α) : FMat α := mul o (force o A) (force o B)
def dagger (o : Ops α) (A : FMat α) : FMat α := ⟨A.n, fun i j => o.conj (A.get j i)⟩
def smul (o : Ops α) (c : α) (A : FMat α) : FMat α := ⟨A.n, fun i j => o.mul c (A.get i j)⟩
/-- `Qobj * scalar` -/
def smulR (o : Ops α) (A : FMat α) (c : α) : FMat α := ⟨A.n, fun i j => o.mul (A.get i j) c⟩
def ident (o : Ops α) (n : Nat) : FMat α := ⟨n, fun i j => if i = j then o.one else o.zero⟩
/-- Kronecker product, first factor most significant (`qutip.tensor`) -/
def kron (o : Ops α) (A B : FMat α) : FMat α :=
  ⟨A.n * B.n, fun i j => o.mul (A.get (i / B.n) (j / B.n)) (B.get (i % B.n) (j % B.n))⟩
end FMat

/-- `tensor(list)`: left-nested Kronecker product (the empty case does not occur in the code) -/
def tensorL (o : Ops α) : List (FMat α) → FMat α
  | [] => FMat.ident o 1
  | A :: rest => rest.foldl (FMat.kron o) A

/-- `expand_operator(U, dims=[2]*N, targets=targets)` for an operator with `m` qubit subsystems:
validation (`Embed.validate`), then the matrix elements of the code's
`tensor([U] + identities).permute(new_order)` (`Embed.expandEntry`, C08). -/
def expandV (o : Ops α) (N : Nat) (targets : List Nat) (m : Nat) (U : FMat α) : Except Err (FMat α) :=
  let dims := List.replicate N 2
  let od := List.replicate targets.length 2
  match validate dims (targets.map Int.ofNat) (List.replicate m 2) with
  | .error e => .error (.embed e)
  | .ok _ =>
    .ok ⟨2 ^ N, fun X Y =>
      match expandEntry N targets (digits dims X) (digits dims Y) with
      | some (a, b) => U.get (undigits od a) (undigits od b)
      | none => o.zero⟩

/-! ## (b) Density-matrix mode -/

/-- `_evolve_state` in `density_matrix_simulator` mode.  GLOBALPHASE: `U = np.exp(1j*arg)` is a scalar;
the repaired code (fixes/C01-2.patch) computes `U * state * conj(U)`. -/
def stepDm (o : Ops α) (N : Nat) (op : Op α) (ρ : FMat α) : Except Err (FMat α) :=
  match op with
  | .phase c => .ok (FMat.force o (FMat.smulR o (FMat.smul o c ρ) (o.conj c)))
  | .gate qs m U =>
    match expandV o N qs m (FMat.ofRows o (2 ^ m) U) with
    | .error e => .error e
    | .ok E => .ok (FMat.mulF o (FMat.mulF o E ρ) (FMat.dagger o E))

def runDm (o : Ops α) (N : Nat) : List (Op α) → FMat α → Except Err (FMat α)
  | [], ρ => .ok ρ
  | op :: rest, ρ =>
    match stepDm o N op ρ with
    | .ok r => runDm o N rest r
    | .error e => .error e

def traceDm (o : Ops α) (N : Nat) : List (Op α) → FMat α → Except Err (List (FMat α))
  | [], _ => .ok []
  | op :: rest, ρ =>
    match stepDm o N op ρ with
    | .ok r => match traceDm o N rest r with
      | .ok l => .ok (r :: l)
      | .error e => .error e
    | .error e => .error e

/-- `ket2dm` -/
def ket2dm (o : Ops α) (n : Nat) (amps : List α) : FMat α :=
  FMat.force o ⟨n, fun i j => o.mul (amps.getD i o.zero) (o.conj (amps.getD j o.zero))⟩

/-! ## (c) `compute_unitary`, `propagators`, product of expanded propagators -/

/-- `compute_unitary`: `CircuitSimulator(self).run(qeye(dims))`; the answer is the final tensor reshaped
to `2^N × 2^N` (row-major data unchanged) -/
def computeUnitary (o : Ops α) (N : Nat) (ops : List (Op α)) : Except Err (Tensor α) :=
  runKet o ops (operTensor N (FMat.ident o (2 ^ N)).rows)

/-- `propagators(expand)`: GLOBALPHASE gives `globalphase(arg, N)` (a full `2^N` operator) in both cases -/
def propagators (o : Ops α) (N : Nat) (expand : Bool) : List (Op α) → Except Err (List (FMat α))
  | [] => .ok []
  | op :: rest =>
    let head : Except Err (FMat α) :=
      match op with
      | .phase c => .ok (FMat.smul o c (FMat.ident o (2 ^ N)))
      | .gate qs m U =>
        if expand then expandV o N qs m (FMat.ofRows o (2 ^ m) U) else .ok (FMat.ofRows o (2 ^ m) U)
    match head, propagators o N expand rest with
    | .ok h, .ok t => .ok (h :: t)
    | .error e, _ => .error e
    | _, .error e => .error e

/-- `_gate_sequence_product_with_expansion(U_list, left_to_right)`; `none` is the Python integer `1`
the loop starts from (returned for the empty list) -/
def seqProduct (o : Ops α) (ltr : Bool) : Option (FMat α) → List (FMat α) → Option (FMat α)
  | acc, [] => acc
  | none, U :: rest => seqProduct o ltr (some U) rest
  | some A, U :: rest => seqProduct o ltr (some (if ltr then FMat.mulF o U A else FMat.mulF o A U)) rest

/-! ## (d) The compact product -/

/-- stable insertion sort of positions by key (`sorted(.., key=..)`) -/
def insertKey (key : Nat → Nat) (p : Nat) : List Nat → List Nat
  | [] => [p]
  | q :: qs => if key p ≤ key q then p :: q :: qs else q :: insertKey key p qs

def sortKey (key : Nat → Nat) : List Nat → List Nat
  | [] => []
  | p :: ps => insertKey key p (sortKey key ps)

/-- `sorted(set(l))` -/
def sortDedup (l : List Nat) : List Nat := sortKey id (dedup l)

/-- the order oracle of the repaired code: `sorted(set(a).union(set(b)))` -/
def ordSorted (a b : List Nat) : List Nat := sortDedup (a ++ b)

/-- an order oracle that answers in reverse (a legal behaviour of `list(set(..))` as far as the language
is concerned; used for the counter-example) -/
def ordRev (a b : List Nat) : List Nat := (sortDedup (a ++ b)).reverse

abbrev Block (α : Type) := FMat α × List Nat

def hits (inds : List Nat) (b : Block α) : Bool := b.2.any fun q => inds.contains q

/-- `_mult_sublists(tensor_list, overall_inds, U, inds)`; `ord a b` stands for
`list(set(a).union(set(b)))` -/
def multSublists (o : Ops α) (ord : List Nat → List Nat → List Nat)
    (blocks : List (Block α)) (U : FMat α) (inds : List Nat) : Except Err (List (Block α)) :=
  let sel := blocks.filter (hits inds)
  let rest := blocks.filter (fun b => !hits inds b)
  let indsSub := (sel.map (·.2)).flatten
  let Usub := tensorL o (sel.map (·.1))
  let revised := ord indsSub inds
  let N := revised.length
  -- sorted_positions = sorted(range(N), key=lambda key: revised_inds[key])
  let sp := sortKey (fun p => revised.getD p 0) (List.range N)
  -- ind_map = {ind: pos for ind, pos in zip(revised_inds, sorted_positions)}
  let indMap : Nat → Nat := fun q => sp.getD (revised.idxOf q) 0
  match expandV o N (indsSub.map indMap) indsSub.length Usub, expandV o N (inds.map indMap) inds.length U with
  | .ok Es, .ok Eu => .ok (rest ++ [(FMat.mulF o Eu Es, revised)])
  | .error e, _ => .error e
  | _, .error e => .error e

/-- `_expand_overall(tensor_list, overall_inds)` -/
def expandOverall (o : Ops α) (blocks : List (Block α)) : Except Err (Block α) :=
  let inds := (blocks.map (·.2)).flatten
  match expandV o inds.length inds inds.length (tensorL o (blocks.map (·.1))) with
  | .ok E => .ok (E, sortKey id inds)
  | .error e => .error e

/-- the loop of `_gate_sequence_product` over the (already renumbered) gates; `st = none` is
`U_overall == 1` (nothing processed yet); `rec` is the recursive call on the remaining gates. -/
def gspLoop (o : Ops α) (ord : List Nat → List Nat → List Nat)
    (rec : List (Block α) → Except Err (Block α)) (nq : Nat) (sortedInds : List Nat) :
    Option (List (Block α)) → List (Block α) → Except Err (Block α)
  | none, [] => .error .empty
  | some bl, [] =>
    match expandOverall o bl with
    | .ok (U, oi) => .ok (U, oi.map fun i => sortedInds.getD i 0)
    | .error e => .error e
  | st, (U, inds) :: rest =>
    let full : Bool := match st with
      | some [b] => b.2.length == nq
      | _ => false
    if full then
      -- the single block covers the whole register: expand it and recurse on the remaining gates
      match expandOverall o (st.getD []), rec ((U, inds) :: rest) with
      | .ok (Uo, oi), .ok (Ul, ri) =>
        match expandV o nq ri ri.length Ul with
        | .ok El => .ok (FMat.mulF o El Uo, oi.map fun i => sortedInds.getD i 0)
        | .error e => .error e
      | .error e, _ => .error e
      | _, .error e => .error e
    else
      match st with
      | none => gspLoop o ord rec nq sortedInds (some [(U, inds)]) rest
      | some bl =>
        if (bl.map (·.2)).flatten.any (fun q => inds.contains q) then
          match multSublists o ord bl U inds with
          | .ok bl' => gspLoop o ord rec nq sortedInds (some bl') rest
          | .error e => .error e
        else gspLoop o ord rec nq sortedInds (some (bl ++ [(U, inds)])) rest

/-- `_gate_sequence_product(U_list, ind_list)`; `fuel` bounds the recursion depth (the recursive call is
on a strictly shorter list, `fuel = length + 1` suffices) -/
def gsp (o : Ops α) (ord : List Nat → List Nat → List Nat) : Nat → List (Block α) → Except Err (Block α)
  | 0, _ => .error .fuel
  | fuel + 1, gates =>
    let sortedInds := sortDedup (gates.map (·.2)).flatten
    let gates' := gates.map fun g => (g.1, g.2.map fun q => sortedInds.idxOf q)
    gspLoop o ord (gsp o ord fuel) sortedInds.length sortedInds none gates'

/-- `gate_sequence_product(U_list, inds_list=.., expand=True)` -/
def compactProduct (o : Ops α) (ord : List Nat → List Nat → List Nat) (gates : List (Block α)) :
    Except Err (Block α) :=
  gsp o ord (gates.length + 1) gates

/-! ## (e) `_get_gate_unitary` -/

/-- what `user_gates[name]` is -/
inductive UserKind
  | oper                 -- a `Qobj`
  | fn (nparams : Nat)   -- a Python function (`inspect.isfunction`) with that many positional parameters
  | other                -- anything else (array, partial, builtin, class …)
deriving DecidableEq, Repr

/-- where the matrix of a gate comes from -/
inductive USrc
  | library                       -- `gate.get_compact_qobj()`
  | userOper (name : String)      -- the stored operator
  | userCall0 (name : String)     -- `func()`
  | userCall1 (name : String)     -- `func(gate.arg_value)`
deriving DecidableEq, Repr

/-- `QubitCircuit._get_gate_unitary(gate)`: `name` is `gate.name`, `controlsNone` is `gate.controls is None` -/
def getGateUnitary (userGates : List (String × UserKind)) (name : String) (controlsNone : Bool) :
    Except Err USrc :=
  match List.lookup name userGates with
  | none => .ok .library
  | some kind =>
    if !controlsNone then .error .userControls else
    match kind with
    | .fn 0 => .ok (.userCall0 name)
    | .fn 1 => .ok (.userCall1 name)
    | .fn _ => .error .userParams
    | .oper => .ok (.userOper name)
    | .other => .error .userNeither

/-! ## (f) From the circuit's gate objects to matrix steps: `get_all_qubits`, the GLOBALPHASE name test,
`_get_gate_unitary` with the user's objects -/

/-- what the evolution reads of a gate object.  `name` is the object's `.name` attribute — the key of the
user-table lookup; for an object built through a gate class it is the class name (`H(0).name = "H"`,
`CY(0, 1).name = "_OneControlledGate"`), not necessarily the library name of its matrix.  `A` is the
(opaque) type of `arg_value` together with whatever else of the object its own `get_compact_qobj` reads
(class, `target_gate`, `control_value`): the library matrix is a function of the object, never of an
earlier gate of the run (no history). -/
structure GateReq (A : Type) where
  name : String
  targets : List Nat
  controls : List Nat
  /-- `gate.controls is None` -/
  controlsNone : Bool
  arg : A
  /-- `gate.control_value` (`none`: not given) -/
  controlValue : Option Nat := none

/-- `Gate._check_fixed_control_value`: the matrix of a library gate is fixed — it acts on the targets when all the
control qubits are 1; an explicit `control_value` is accepted only if the gate has controls and the value is the
all-ones mask `2 ** len(controls) - 1` (the legal redundant value) -/
def GateReq.fixedControlOK {A : Type} (r : GateReq A) : Bool :=
  match r.controlValue with
  | none => true
  | some v => !r.controlsNone && !r.controls.isEmpty && v == 2 ^ r.controls.length - 1

/-- `Gate.get_all_qubits`: `controls + targets` if `controls is not None`, else `targets` -/
def GateReq.allQubits {A : Type} (r : GateReq A) : List Nat :=
  if r.controlsNone then r.targets else r.controls ++ r.targets

/-- an entry of `user_gates`: the kind of object, and the operator it stands for — `yield none` is the
stored operator / the result of `func()`, `yield (some a)` the result of `func(a)`; the operator has `m`
qubit subsystems and the rows `yield _`.  The user's function is opaque: any function of the argument. -/
structure UserGate (A α : Type) where
  name : String
  kind : UserKind
  m : Nat
  yield : Option A → List (List α)

/-- the library side: `gate.get_compact_qobj()` (`none`: NotImplementedError) as (number of qubits, rows),
and the scalar `np.exp(1j * arg_value)` of GLOBALPHASE -/
structure Library (A α : Type) where
  compact : String → A → Option (Nat × List (List α))
  phase : A → α

/-- one gate object → one matrix step.  The name test for GLOBALPHASE comes first (`_evolve_state*`,
`propagators`), then `_get_gate_unitary`: the user table shadows the library. -/
def resolveGate {A : Type} (lib : Library A α) (ug : List (UserGate A α)) (r : GateReq A) : Except Err (Op α) :=
  if r.name = "GLOBALPHASE" then .ok (.phase (lib.phase r.arg)) else
  match getGateUnitary (ug.map fun u => (u.name, u.kind)) r.name r.controlsNone with
  | .error e => .error e
  | .ok .library =>
    -- the library refuses a control value it has no matrix for (checked before the name is dispatched)
    if !r.fixedControlOK then .error .controlValue else
    match lib.compact r.name r.arg with
    | some (m, U) => .ok (.gate r.allQubits m U)
    | none => .error .unknownGate
  | .ok (.userOper n) | .ok (.userCall0 n) =>
    match ug.find? (fun u => u.name == n) with
    | some u => .ok (.gate r.allQubits u.m (u.yield none))
    | none => .error .unknownGate
  | .ok (.userCall1 n) =>
    match ug.find? (fun u => u.name == n) with
    | some u => .ok (.gate r.allQubits u.m (u.yield (some r.arg)))
    | none => .error .unknownGate

def resolveAll {A : Type} (lib : Library A α) (ug : List (UserGate A α)) : List (GateReq A) → Except Err (List (Op α))
  | [] => .ok []
  | r :: rs =>
    match resolveGate lib ug r, resolveAll lib ug rs with
    | .ok a, .ok b => .ok (a :: b)
    | .error e, _ => .error e
    | _, .error e => .error e

/-! ## (g) `propagators(expand, ignore_measurement)` on a circuit that may contain measurements -/

/-- an element of `QubitCircuit.gates` -/
inductive Item (α : Type) where
  | op (o : Op α)
  | meas

def Item.gate? : Item α → Option (Op α)
  | .op o => some o
  | .meas => none

/-- `propagators`: the measurements are filtered out; if there was one and `ignore_measurement` is not
set, TypeError; then the propagators of the remaining gates -/
def propagatorsM (o : Ops α) (N : Nat) (expand ignore : Bool) (items : List (Item α)) : Except Err (List (FMat α)) :=
  let gates := items.filterMap Item.gate?
  if gates.length < items.length && !ignore then .error .measurement
  else propagators o N expand gates

/-! ## (h) Histories on live gate objects: `targets` / `controls` are plain public attributes -/

/-- what a user may do to the circuit's gate objects between evaluations -/
inductive HistOp where
  /-- `qc.gates[i].targets = t` -/
  | setTargets (i : Nat) (t : List Nat)
  /-- `qc.gates[i].controls = c` (`none`: `None`) -/
  | setControls (i : Nat) (c : Option (List Nat))
  /-- evaluate the circuit (any route: run, compute_unitary, propagators, stepping) -/
  | eval

def GateReq.setTargets {A : Type} (r : GateReq A) (t : List Nat) : GateReq A := { r with targets := t }

def GateReq.setControls {A : Type} (r : GateReq A) (c : Option (List Nat)) : GateReq A :=
  match c with
  | none => { r with controls := [], controlsNone := true }
  | some l => { r with controls := l, controlsNone := false }

/-- the objects after one operation (an index outside the list raises IndexError in Python and changes nothing) -/
def applyHist {A : Type} (gs : List (GateReq A)) : HistOp → List (GateReq A)
  | .setTargets i t => gs.modify i (·.setTargets t)
  | .setControls i c => gs.modify i (·.setControls c)
  | .eval => gs

/-- the answers of the evaluations of a history; `ev` is the evaluation route (a function of the objects'
fields at that moment — there is no other state: no memo of `get_all_qubits`, no cached matrices) -/
def runHist {A β : Type} (ev : List (GateReq A) → β) : List (GateReq A) → List HistOp → List β
  | _, [] => []
  | gs, .eval :: rest => ev gs :: runHist ev gs rest
  | gs, op :: rest => runHist ev (applyHist gs op) rest

/-! ## Exact scalars for the driver: ℤ[ζ₁₆][1/2] with the dyadic exponent kept per number -/

structure CycD where
  e : Nat
  v : Cyc
deriving DecidableEq, Repr

namespace CycD
def allEven (a : Cyc) : Bool :=
  a.c0 % 2 == 0 && a.c1 % 2 == 0 && a.c2 % 2 == 0 && a.c3 % 2 == 0 &&
  a.c4 % 2 == 0 && a.c5 % 2 == 0 && a.c6 % 2 == 0 && a.c7 % 2 == 0
def halve (a : Cyc) : Cyc := ⟨a.c0 / 2, a.c1 / 2, a.c2 / 2, a.c3 / 2, a.c4 / 2, a.c5 / 2, a.c6 / 2, a.c7 / 2⟩
/-- cancel common factors of two (value unchanged) -/
def norm : Nat → Cyc → CycD
  | 0, v => ⟨0, v⟩
  | e + 1, v => if v = Cyc.zero then ⟨0, v⟩ else if allEven v then norm e (halve v) else ⟨e + 1, v⟩
def zero : CycD := ⟨0, Cyc.zero⟩
def one : CycD := ⟨0, Cyc.one⟩
def add (a b : CycD) : CycD :=
  if a.v = Cyc.zero then b else if b.v = Cyc.zero then a else
  let m := max a.e b.e
  norm m (Cyc.add (Cyc.smul (2 ^ (m - a.e)) a.v) (Cyc.smul (2 ^ (m - b.e)) b.v))
def mul (a b : CycD) : CycD :=
  if a.v = Cyc.zero || b.v = Cyc.zero then zero else norm (a.e + b.e) (Cyc.mul a.v b.v)
def conj (a : CycD) : CycD := ⟨a.e, Cyc.conj a.v⟩
def ops : Ops CycD := ⟨zero, one, add, mul, conj⟩
end CycD

end QipVerif.SimKet
