import QipVerif.Model.Embed
/-!
# Flat-index model of `tensor([oper] + id_list).permute(new_order)` (property C08)

No Mathlib/Batteries; executable.  `Model/Embed.lean` states the *meaning* of `qutip.tensor` and
`Qobj.permute` on digit tuples.  This file models what QuTiP 5.3 actually computes on the flat row/column
indices of the stored matrices, statement by statement:

* `qutip.core.tensor.tensor`: `out = args[0].data; for arg in args[1:]: out = _data.kron(out, arg.data)`
  with `kron(A, B)[i, j] = A[i / nB, j / nB] * B[i % nB, j % nB]` (`kronId`, `tensorIds`; the second factor
  is always an identity here, so the product is the left entry or zero);
* `qutip/core/data/permute.pyx`: `_Indexer.__init__` (the checks of `order`, `new_dimensions`, the
  `cumprod` loop), `_Indexer.single` (digit extraction from the least significant end with the early
  `break`), `_Indexer.all`, and the placement `out[perm[n], perm[m]] = in[n, m]` of
  `_indices_csr_full` / `indices_dense` (`array[np.argsort(perm), :][:, np.argsort(perm)]`);
* `Qobj.permute`: `structure = dims[0]`, `new_structure = [structure[x] for x in order]`,
  `data = permute.dimensions(data, structure, order)`.

Entries are symbolic as in `Model/Embed.lean`: `some (a, b)` = the operator's stored entry at flat row
`a`, flat column `b`; `none` = 0.  `Lemmas/EmbedFlat*.lean` prove that this flat model equals the
digit-tuple model under the mixed-radix bijection (`Props/C08.lean: flat_eq_digits, flat_eq_spec`).
-/
namespace QipVerif.EmbedFlat
open QipVerif.Embed

/-- a stored matrix entry of the result: `none` = 0, `some (a, b)` = `oper.data[a, b]` -/
abbrev Entry := Option (Nat × Nat)

/-! ## `tensor` = iterated Kronecker product of the stored matrices -/

/-- the operator's own matrix -/
def operEntry : Nat → Nat → Entry := fun a b => some (a, b)

/-- `_data.kron(P, identity(r))`: entry `(i, j)` is `P[i / r, j / r] * 1[i % r, j % r]`
(first factor most significant). -/
def kronId (P : Nat → Nat → Entry) (r : Nat) : Nat → Nat → Entry :=
  fun i j => if i % r = j % r then P (i / r) (j / r) else none

/-- `out = args[0].data; for arg in args[1:]: out = kron(out, arg.data)` with identities of the
listed dimensions as `args[1:]`. -/
def tensorIds : (Nat → Nat → Entry) → List Nat → Nat → Nat → Entry
  | P, [] => P
  | P, r :: rs => tensorIds (kronId P r) rs

/-! ## `_Indexer` of `qutip/core/data/permute.pyx` -/

inductive PErr
  | length     -- "invalid order: wrong number of elements"
  | element    -- "invalid order element"
  | duplicate  -- "duplicate order element"
  | dimension  -- "found zero dimension"
deriving DecidableEq, Repr

/-- the checking loop of `_Indexer.__init__`: `for i in range(ndims): ord = order[i]; …;
new_dimensions[i] = dimensions[ord]` (`seen` = the positions of `tmp` already set). -/
def newDimsLoop (dimsA : List Nat) : List Nat → List Nat → Except PErr (List Nat)
  | [], _ => .ok []
  | o :: os, seen =>
    if dimsA.length ≤ o then .error .element
    else if seen.contains o then .error .duplicate
    else if dimsA.getD o 0 = 0 then .error .dimension
    else match newDimsLoop dimsA os (o :: seen) with
      | .ok nd => .ok (dimsA.getD o 0 :: nd)
      | .error e => .error e

def newDims (dimsA order : List Nat) : Except PErr (List Nat) :=
  if order.length ≠ dimsA.length then .error .length else newDimsLoop dimsA order []

/-- `for i in range(ndims - 2, -1, -1): prev = cumprod[order[i]] = prev * new_dimensions[i + 1]`;
`cumLoop order nd (i+1) prev c` executes the iterations `i, i-1, …, 0`. -/
def cumLoop (order nd : List Nat) : Nat → Nat → List Nat → List Nat
  | 0, _, c => c
  | i + 1, prev, c =>
    let p := prev * nd.getD (i + 1) 0
    cumLoop order nd i p (c.set (order.getD i 0) p)

/-- the array `cumprod` after the constructor: `prev = cumprod[order[ndims - 1]] = 1`, then the loop
(the array is allocated uninitialised; every cell is written when `order` is a permutation). -/
def cumprod (order nd : List Nat) : List Nat :=
  let n := order.length
  cumLoop order nd (n - 1) 1 ((List.replicate n 0).set (order.getD (n - 1) 0) 1)

/-- `self.size = self.cumprod[order[0]] * new_dimensions[0]` -/
def indexerSize (order nd : List Nat) : Nat :=
  (cumprod order nd).getD (order.getD 0 0) 0 * nd.getD 0 0

/-- `_Indexer.single`: `for i in range(ndims - 1, -1, -1): dim = dimensions[i];
out += cumprod[i] * (idx % dim); idx //= dim; if idx == 0: break`;
`singleLoop dimsA cum (i+1) idx out` executes the iterations `i, i-1, …, 0`. -/
def singleLoop (dimsA cum : List Nat) : Nat → Nat → Nat → Nat
  | 0, _, out => out
  | i + 1, idx, out =>
    let dim := dimsA.getD i 0
    let out := out + cum.getD i 0 * (idx % dim)
    let idx := idx / dim
    if idx = 0 then out else singleLoop dimsA cum i idx out

def single (dimsA cum : List Nat) (idx : Nat) : Nat := singleLoop dimsA cum dimsA.length idx 0

/-- `_Indexer.all()`: the flat index every flat index of the argument is sent to -/
def indexAll (dimsA order nd : List Nat) : List Nat :=
  (List.range (indexerSize order nd)).map (single dimsA (cumprod order nd))

/-- `_indices_csr_full(matrix, perm, perm)` / `indices_dense`: row `n` of the input is row `perm[n]` of
the output, the same for columns; read at an output position this is the entry at the positions
`np.argsort(perm)` = `perm.idxOf`. -/
def permuteEntries (perm : List Nat) (inp : Nat → Nat → Entry) : Nat → Nat → Entry :=
  fun X Y => inp (perm.idxOf X) (perm.idxOf Y)

/-! ## `expand_operator` after the validation, on flat indices -/

/-- `oper.dims[0] + [dims[i] for i in rest_pos]`: the tensor structure of `tensor([oper] + id_list)`
(the validation has established `oper.dims[0] = [dims[t] for t in targets]`). -/
def structureOf (dims targets : List Nat) : List Nat :=
  targets.map (fun t => dims.getD t 0) ++ (restPos dims.length targets).map (fun i => dims.getD i 0)

def restDims (dims targets : List Nat) : List Nat :=
  (restPos dims.length targets).map (fun i => dims.getD i 0)

/-- `Qobj.permute`'s `new_structure` = `_Indexer.new_dimensions`; an error is QuTiP's `ValueError`. -/
def flatDims (dims targets : List Nat) : Except PErr (List Nat) :=
  newDims (structureOf dims targets) (newOrder dims.length targets)

/-- the row/column permutation `index.all()` used by `permute.dimensions` -/
def flatPerm (dims targets : List Nat) : List Nat :=
  let s := structureOf dims targets
  let order := newOrder dims.length targets
  indexAll s order (order.map (fun o => s.getD o 0))

/-- entry of the result given the permutation (the driver computes `perm` once per request) -/
def flatEntryP (perm rest : List Nat) (X Y : Nat) : Entry :=
  permuteEntries perm (tensorIds operEntry rest) X Y

/-- Stored entry `(X, Y)` of `tensor([oper] + id_list).permute(new_order)`. -/
def flatEntry (dims targets : List Nat) (X Y : Nat) : Entry :=
  flatEntryP (flatPerm dims targets) (restDims dims targets) X Y

/-! ## The specification on flat indices -/

/-- digit `i` of the flat index `X` in the mixed radix `dims` (first subsystem most significant) -/
def digitAt (dims : List Nat) (X i : Nat) : Nat := (X / prodL (dims.drop (i + 1))) % dims.getD i 0

/-- C08's statement on flat indices: the operator's entry at the flat indices formed by the target digits
(in the listed order, radix = the targets' dimensions) if all other digits of `X` and `Y` agree, else 0. -/
def specFlat (dims targets : List Nat) (X Y : Nat) : Entry :=
  let od := targets.map (fun t => dims.getD t 0)
  if (List.range dims.length).all (fun i => targets.contains i || digitAt dims X i == digitAt dims Y i)
  then some (undigits od (targets.map (digitAt dims X)), undigits od (targets.map (digitAt dims Y)))
  else none

end QipVerif.EmbedFlat
