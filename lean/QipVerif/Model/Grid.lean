/-!
# Model of `Processor.get_full_tlist`, `pulse._fill_coeff` (step branch),
# `Processor.get_full_coeffs`, the slice list of `Processor.run_analytically` and the
# header/label logic of `Processor.save_coeff / read_coeff` (property C14)

Import-free, executable, exact (`Rat`).  The float tolerance `tol = 1.0e-10` of the code is
a parameter.  Cubic-spline resampling is numerical and not modelled.
-/
namespace QipVerif.Grid

/-! ## `get_full_tlist` : `np.unique(np.sort(np.hstack(..)))`, then drop points within `tol` of their predecessor -/

/-- insert into a strictly increasing list, dropping duplicates -/
def insertU (x : Rat) : List Rat → List Rat
  | [] => [x]
  | y :: ys => if x < y then x :: y :: ys else if x = y then y :: ys else y :: insertU x ys

/-- `np.unique(np.sort(l))` -/
def sortU (l : List Rat) : List Rat := l.foldr insertU []

/-- `full[1:][np.diff(full) > tol]`: the elements after `prev` whose distance to their
*immediate predecessor in the unfiltered list* exceeds `tol` -/
def keepFrom (tol : Rat) : Rat → List Rat → List Rat
  | _, [] => []
  | prev, b :: rest => if b - prev > tol then b :: keepFrom tol b rest else keepFrom tol b rest

/-- `get_full_tlist(tol)`; `none` when no pulse has a tlist.  `grids` are the tlists that are not `None`. -/
def fullTlist (tol : Rat) (grids : List (List Rat)) : Option (List Rat) :=
  if grids.isEmpty then none else
  match sortU grids.flatten with
  | [] => some []
  | a :: rest => some (a :: keepFrom tol a rest)

/-! ### the de-duplication with the reference point of the working tree (fixes/C14-8.patch)

`kk = false`: the code as found, `full[1:][np.diff(full) > tol]` — a point is dropped when it is within `tol` of its PREDECESSOR
in the sorted list, kept or not (a chain p, p + 0.7 tol, p + 1.4 tol loses both later points).  `kk = true`: the repaired loop —
a point is dropped when it is within `tol` of the last point that is KEPT. -/

def keepFromK (kk : Bool) (tol : Rat) : Rat → List Rat → List Rat
  | _, [] => []
  | prev, b :: rest =>
    if b - prev > tol then b :: keepFromK kk tol b rest else keepFromK kk tol (if kk then prev else b) rest

def fullTlistK (kk : Bool) (tol : Rat) (grids : List (List Rat)) : Option (List Rat) :=
  if grids.isEmpty then none else
  match sortU grids.flatten with
  | [] => some []
  | a :: rest => some (a :: keepFromK kk tol a rest)

/-! ## `_fill_coeff`, step branch -/

inductive Err
  | index    -- IndexError
  | type     -- TypeError `len(None)`: no pulse carries a tlist
  | shape    -- ValueError of `_is_pulses_valid`
deriving DecidableEq, Repr

/-- the loop over `full_tlist`; `oldInd` is the running index -/
def fillLoop (tol : Rat) (oldT oldC : List Rat) (first last : Rat) : Nat → List Rat → Except Err (List Rat)
  | _, [] => .ok []
  | oldInd, t :: ts =>
    if first - t > tol then
      match fillLoop tol oldT oldC first last oldInd ts with
      | .error e => .error e
      | .ok r => .ok (0 :: r)
    else if t - last > tol then
      match fillLoop tol oldT oldC first last oldInd ts with
      | .error e => .error e
      | .ok r => .ok (0 :: r)
    else
      match oldT[oldInd + 1]? with
      | none => .error .index
      | some nxt =>
        let ind' := if nxt ≤ t + tol then oldInd + 1 else oldInd
        match oldC[ind']? with
        | none => .error .index
        | some c =>
          match fillLoop tol oldT oldC first last ind' ts with
          | .error e => .error e
          | .ok r => .ok (c :: r)

/-- `old_coeffs` after `if len(old_coeffs) == len(old_tlist) - 1: old_coeffs = concatenate([old_coeffs, [0]])` -/
def padCoeff (oldT oldC : List Rat) : List Rat :=
  if (oldC.length : Int) = (oldT.length : Int) - 1 then oldC ++ [0] else oldC

/-- `_fill_coeff(old_coeffs, old_tlist, full_tlist, {"_step_func_coeff": True}, tol)` -/
def fill (tol : Rat) (oldT oldC full : List Rat) : Except Err (List Rat) :=
  match full with
  | [] => .ok []                         -- the loop body (and `old_tlist[0]`) is never reached
  | _ =>
    match oldT.head?, oldT.getLast? with
    | some first, some last => fillLoop tol oldT (padCoeff oldT oldC) first last 0 full
    | _, _ => .error .index

/-- Variant of the padding selected from the working tree (`zeroLast = true`: repaired code, fixes/C14-2.patch:
`elif len(old_coeffs) == len(old_tlist): old_coeffs = concatenate([old_coeffs[:-1], [0]])` — the last element of a
full-length step coefficient has no effect). -/
def normCoeff (zeroLast : Bool) (oldT oldC : List Rat) : List Rat :=
  if zeroLast && oldC.length == oldT.length then oldC.dropLast ++ [0] else oldC

/-- `_fill_coeff` (step branch) of the tree with the given padding variant; `fillV false = fill` -/
def fillV (zeroLast : Bool) (tol : Rat) (oldT oldC full : List Rat) : Except Err (List Rat) :=
  fill tol oldT (normCoeff zeroLast oldT oldC) full

/-! ## `_fill_coeff`, step branch, with the advance step of the working tree (fixes/C14-7.patch)

`w = false`: the code as found, `if old_tlist[old_ind + 1] <= t + tol: old_ind += 1` (at most one slot per merged point,
`IndexError` when the index is at the last grid point).  `w = true`: the repaired loop
`while old_ind + 1 < len(old_tlist) and old_tlist[old_ind + 1] <= t + tol: old_ind += 1` — the index catches up over
every slot that ends before `t + tol`; slots shorter than `tol` have no point of their own in the merged grid. -/

/-- the `while` loop; `fuel` bounds the number of iterations (the index moves at most `len(old_tlist)` times) -/
def catchUp (tol : Rat) (oldT : List Rat) (t : Rat) : Nat → Nat → Nat
  | 0, i => i
  | fuel + 1, i =>
    match oldT[i + 1]? with
    | some nxt => if nxt ≤ t + tol then catchUp tol oldT t fuel (i + 1) else i
    | none => i

/-- the running index after the advance step at the merged point `t`; `none`: `IndexError` -/
def nextInd (w : Bool) (tol : Rat) (oldT : List Rat) (t : Rat) (oldInd : Nat) : Option Nat :=
  if w then some (catchUp tol oldT t oldT.length oldInd)
  else
    match oldT[oldInd + 1]? with
    | none => none
    | some nxt => some (if nxt ≤ t + tol then oldInd + 1 else oldInd)

/-- `fillLoop` with the advance step of the variant `w` (`fillLoopW false = fillLoop`, `GridCatchUp.fillLoopW_false`) -/
def fillLoopW (w : Bool) (tol : Rat) (oldT oldC : List Rat) (first last : Rat) : Nat → List Rat → Except Err (List Rat)
  | _, [] => .ok []
  | oldInd, t :: ts =>
    if first - t > tol then
      match fillLoopW w tol oldT oldC first last oldInd ts with
      | .error e => .error e
      | .ok r => .ok (0 :: r)
    else if t - last > tol then
      match fillLoopW w tol oldT oldC first last oldInd ts with
      | .error e => .error e
      | .ok r => .ok (0 :: r)
    else
      match nextInd w tol oldT t oldInd with
      | none => .error .index
      | some ind' =>
        match oldC[ind']? with
        | none => .error .index
        | some c =>
          match fillLoopW w tol oldT oldC first last ind' ts with
          | .error e => .error e
          | .ok r => .ok (c :: r)

/-- `_fill_coeff` (step branch) with the advance step of the variant `w` -/
def fillW (w : Bool) (tol : Rat) (oldT oldC full : List Rat) : Except Err (List Rat) :=
  match full with
  | [] => .ok []
  | _ =>
    match oldT.head?, oldT.getLast? with
    | some first, some last => fillLoopW w tol oldT (padCoeff oldT oldC) first last 0 full
    | _, _ => .error .index

/-- both variants of the working tree: padding (`zeroLast`, fixes/C14-2) and advance step (`w`, fixes/C14-7) -/
def fillVW (zeroLast w : Bool) (tol : Rat) (oldT oldC full : List Rat) : Except Err (List Rat) :=
  fillW w tol oldT (normCoeff zeroLast oldT oldC) full

/-! ## `get_full_coeffs` (step_func) -/

inductive Chan
  | absent                           -- `tlist is None and coeff is None`
  | const (b : Bool) (tl : Option (List Rat))   -- `coeff` is a bool (its tlist, if any, still enters the merged grid)
  | arr (tl cs : List Rat)
deriving Repr

def Chan.grid? : Chan → Option (List Rat)
  | .arr tl _ => some tl
  | .const _ tl => tl
  | .absent => none

/-- `_is_pulses_valid` for step pulses -/
def valid (chans : List Chan) : Bool :=
  chans.all fun
    | .arr tl cs => (cs.length : Int) = (tl.length : Int) - 1 || cs.length = tl.length
    | _ => true

def mapMExcept {α β ε : Type} (f : α → Except ε β) : List α → Except ε (List β)
  | [] => .ok []
  | a :: as =>
    match f a with
    | .error e => .error e
    | .ok b =>
      match mapMExcept f as with
      | .error e => .error e
      | .ok bs => .ok (b :: bs)

/-- merged grid of the processor (constant pulses in this model carry no tlist) -/
def procTlist (tol : Rat) (chans : List Chan) : Option (List Rat) :=
  fullTlist tol (chans.filterMap Chan.grid?)

/-- `get_full_coeffs()` for `spline_kind = "step_func"`; rows in pulse order -/
def fullCoeffs (tol : Rat) (chans : List Chan) : Except Err (List Rat × List (List Rat)) :=
  if !valid chans then .error .shape else
  match procTlist tol chans with
  | none => .error .type      -- `len(None)`
  | some T =>
    match mapMExcept (fun
        | .absent => .ok (T.map fun _ => (0 : Rat))
        | .const b _ => .ok (T.map fun _ => if b then (1 : Rat) else 0)
        | .arr tl cs => fill tol tl cs T) chans with
    | .error e => .error e
    | .ok rows => .ok (T, rows)

/-- `get_full_coeffs()` of the tree with the given padding variant -/
def Chan.norm (zeroLast : Bool) : Chan → Chan
  | .arr tl cs => .arr tl (normCoeff zeroLast tl cs)
  | c => c

def fullCoeffsV (zeroLast : Bool) (tol : Rat) (chans : List Chan) : Except Err (List Rat × List (List Rat)) :=
  fullCoeffs tol (chans.map (Chan.norm zeroLast))

/-- `get_full_coeffs()` with the advance step of the variant `w` -/
def fullCoeffsW (w : Bool) (tol : Rat) (chans : List Chan) : Except Err (List Rat × List (List Rat)) :=
  if !valid chans then .error .shape else
  match procTlist tol chans with
  | none => .error .type
  | some T =>
    match mapMExcept (fun
        | .absent => .ok (T.map fun _ => (0 : Rat))
        | .const b _ => .ok (T.map fun _ => if b then (1 : Rat) else 0)
        | .arr tl cs => fillW w tol tl cs T) chans with
    | .error e => .error e
    | .ok rows => .ok (T, rows)

def fullCoeffsVW (zeroLast w : Bool) (tol : Rat) (chans : List Chan) : Except Err (List Rat × List (List Rat)) :=
  fullCoeffsW w tol (chans.map (Chan.norm zeroLast))

/-- `get_full_coeffs()` with all variants of the working tree: padding (`zeroLast`, C14-2), advance step of `_fill_coeff` (`w`,
C14-7), reference point of the de-duplication in `get_full_tlist` (`kk`, C14-8) -/
def fullCoeffsVWK (zeroLast w kk : Bool) (tol : Rat) (chans : List Chan) : Except Err (List Rat × List (List Rat)) :=
  let chans := chans.map (Chan.norm zeroLast)
  if !valid chans then .error .shape else
  match fullTlistK kk tol (chans.filterMap Chan.grid?) with
  | none => .error .type
  | some T =>
    match mapMExcept (fun
        | .absent => .ok (T.map fun _ => (0 : Rat))
        | .const b _ => .ok (T.map fun _ => if b then (1 : Rat) else 0)
        | .arr tl cs => fillW w tol tl cs T) chans with
    | .error e => .error e
    | .ok rows => .ok (T, rows)

/-- `run_analytically`: slice `n` has `dt = T[n+1] - T[n]` and the coefficient column `n` -/
def slices : List Rat → List (List Rat) → List (Rat × List Rat)
  | a :: b :: rest, rows => (b - a, rows.map (fun r => r.headD 0)) :: slices (b :: rest) (rows.map List.tail)
  | _, _ => []

/-! ## `_fill_coeff`, cubic branch: which interpolant -/

/-- `CubicSpline(old_tlist, old_coeffs)` with the default not-a-knot boundary condition is the interpolating
spline of this degree through `n` samples (a line for 2, the parabola for 3, a not-a-knot cubic spline from 4 on;
`ValueError` for fewer than 2 samples).  QuTiP's order-3 coefficient reduces its order in the same way, so the
resampled coefficients and the function the solver integrates coincide.  Numerics themselves are not modelled. -/
def splineDegree (n : Nat) : Option Nat := if n < 2 then none else some (min 3 (n - 1))

/-- the interpolation routine a branch of `_fill_coeff` calls (regenerated from the source into
`Gen/FillCubic.lean`): `CubicSpline(old_tlist, old_coeffs)` or `np.interp(full_tlist, old_tlist, old_coeffs)` -/
inductive Interp
  | notAKnot
  | linear
deriving DecidableEq, Repr

/-- degree of the polynomial pieces of the interpolant through `n` samples (`none`: the call raises) -/
def Interp.degree : Interp → Nat → Option Nat
  | .notAKnot, n => splineDegree n
  | .linear, n => if n = 0 then none else some (min 1 (n - 1))

/-! ## The step function of a channel (specification object) -/

/-- value of the slot of `tl` containing `t`: `cs[i]` for `tl[i] ≤ t < tl[i+1]`, `0` before the first
and from the last grid point on -/
def stepAt : List Rat → List Rat → Rat → Rat
  | a :: b :: tl, c :: cs, t => if a ≤ t ∧ t < b then c else stepAt (b :: tl) cs t
  | _, _, _ => 0

/-! ## `save_coeff` / `read_coeff`: header and labels (tokens instead of characters) -/

/-- `sep.join(parts)` -/
def joinSep {α : Type} (sep : α) : List (List α) → List α
  | [] => []
  | [l] => l
  | l :: ls => l ++ sep :: joinSep sep ls

/-- `s.split(sep)` for a one-token separator -/
def splitSep {α : Type} [DecidableEq α] (sep : α) : List α → List (List α)
  | [] => [[]]
  | c :: cs =>
    match splitSep sep cs with
    | [] => [[c]]       -- unreachable: the result is never empty
    | w :: ws => if c = sep then [] :: w :: ws else (c :: w) :: ws

/-- header line written by `np.savetxt(header=…)`: `"# " + header + "\n"`; with `inctime` the header is `";" + …`.
`hash`, `space`, `nl`, `semi` are the four special tokens. -/
def headerLine {α : Type} (hash space nl semi : α) (inctime : Bool) (labels : List (List α)) : List α :=
  [hash, space] ++ (if inctime then semi :: joinSep semi labels else joinSep semi labels) ++ [nl]

/-- `f.readline()`: everything up to and including the first newline token -/
def firstLine {α : Type} [DecidableEq α] (nl : α) (s : List α) : List α := s.takeWhile (· ≠ nl) ++ [nl]

/-- `label_list` of `read_coeff`: `header[2:-1].split(";")`, minus the first entry with `inctime` -/
def readLabels {α : Type} [DecidableEq α] (semi : α) (inctime : Bool) (line : List α) : List (List α) :=
  let body := (line.drop 2).dropLast
  let ls := splitSep semi body
  if inctime then ls.drop 1 else ls

/-- shape of `np.loadtxt` of a `rows × cols` table: dimensions of size 1 are squeezed away -/
def loadShape (rows cols : Nat) : List Nat := [rows, cols].filter (· ≠ 1)

/-- what `read_coeff` hands to `set_coeffs` for the `i`-th label: the length of the array `coeffs[i]`;
`none` when the table was squeezed (then `coeffs[i]` is a scalar or `data[:, 0]` raises) or `i` is out of range -/
def readCoeffLen (inctime : Bool) (rows npulses i : Nat) : Option Nat :=
  match loadShape rows (if inctime then npulses + 1 else npulses) with
  | [r, c] => if i < (if inctime then c - 1 else c) then some r else none
  | _ => none

/-- `np.loadtxt(..., ndmin=2)` (repaired code, fixes/C14-3.patch) keeps both dimensions -/
def loadShapeV (ndmin2 : Bool) (rows cols : Nat) : List Nat := if ndmin2 then [rows, cols] else loadShape rows cols

def readCoeffLenV (ndmin2 inctime : Bool) (rows npulses i : Nat) : Option Nat :=
  match loadShapeV ndmin2 rows (if inctime then npulses + 1 else npulses) with
  | [r, c] => if i < (if inctime then c - 1 else c) then some r else none
  | _ => none

/-- what `np.savetxt(..., header=h)` puts in front of the data: nothing at all when `h` is the empty string
(`always = false`, the call as found); the repaired `save_coeff` (fixes/C14-5.patch: the comment prefix is part of the
header) always writes the line.  `none`: the file starts with its first data row. -/
def headerLineV {α : Type} (always : Bool) (hash space nl semi : α) (inctime : Bool) (labels : List (List α)) :
    Option (List α) :=
  if !always && (if inctime then semi :: joinSep semi labels else joinSep semi labels).isEmpty then none
  else some (headerLine hash space nl semi inctime labels)

end QipVerif.Grid
