import QipVerif.Model.Embed
/-!
# Model of `qutip_qip.operations.gates.controlled_gate` (property C09)

Import-free, executable.  As in `Model/Embed.lean` the operator is never materialised: for a pair of
basis states the model answers WHICH entry of the single-qubit `U` the matrix element of the result is
(`Ent.u i j`), or that it is `1` / `0` by the identity blocks — so every statement proved about it holds
for every `U`.

The code (gates.py, `controlled_gate(U, controls=0, targets=1, N=None, control_value=1)`):

    if not isinstance(targets, Iterable): controls = [controls]      # (sic: tests `targets`)
    if not isinstance(targets, Iterable): targets = [targets]
    num_controls = len(controls); num_targets = len(U.dims[0]); N = num_controls + num_targets if N is None else N
    block_matrices = [1₂] * 2**num_controls;  block_matrices[control_value] = U.full()
    result = Qobj(block_diag(*block_matrices), dims=[[2] * (num_controls + num_targets)] * 2)
    if controls + targets == list(range(N)): return result
    else: return expand_operator(result, N, targets=controls + targets)

`U` is a single-qubit operator (`num_targets = 1`).
-/
namespace QipVerif.Ctrl
open QipVerif.Embed

/-- which number a matrix element of the result is -/
inductive Ent
  | zero
  | one
  | u (i j : Nat)      -- the entry `U[i][j]`
deriving DecidableEq, Repr

/-- a `controls=` / `targets=` argument: a bare integer or a list of integers -/
inductive Arg
  | scalar (q : Int)
  | list (qs : List Int)
deriving DecidableEq, Repr

inductive CErr
  | lenOfInt      -- TypeError: `len(controls)` of an integer (controls scalar, targets a list)
  | nested        -- TypeError of `_targets_to_list`: `[controls]` wrapped a list (controls a list, targets scalar)
  | blockIndex    -- IndexError: `block_matrices[control_value]` outside the 2^m blocks
  | embed (e : Err) -- refused by `expand_operator`
deriving DecidableEq, Repr

/-- element (r, c) of `block_diag(1₂, …, U, …, 1₂)` with `U` as block number `b` (flat indices) -/
def blockEntry (b r c : Nat) : Ent :=
  if r / 2 ≠ c / 2 then .zero
  else if r / 2 = b then .u (r % 2) (c % 2)
  else if r % 2 = c % 2 then .one else .zero

/-- Python's `lst[v] = …` on a list of `len` elements: negative indices wrap once, anything else is an IndexError -/
def pyIndex (len : Nat) (v : Int) : Option Nat :=
  if 0 ≤ v then (if v.toNat < len then some v.toNat else none)
  else if 0 ≤ (len : Int) + v then some ((len : Int) + v).toNat else none

/-- the operator returned: on `K` qubits, element between digit lists `x`, `y` -/
structure Res where
  K : Nat
  entry : List Nat → List Nat → Ent

/-- element of `Qobj(block_diag(..), dims=[[2]*(m+1)]*2)` between the digit lists `a`, `b` (m+1 binary digits) -/
def blockDigits (m b : Nat) (a c : List Nat) : Ent :=
  blockEntry b (undigits (List.replicate (m + 1) 2) a) (undigits (List.replicate (m + 1) 2) c)

/-- everything after the argument-shape compatibility code: `controls`, `targets` are lists -/
def build (cs ts : List Int) (N? : Option Nat) (v : Int) : Except CErr Res :=
  let m := cs.length
  let N := N?.getD (m + 1)
  match pyIndex (2 ^ m) v with
  | none => .error .blockIndex
  | some b =>
    if cs ++ ts = (List.range N).map Int.ofNat then .ok ⟨m + 1, blockDigits m b⟩
    else
      match validate (List.replicate N 2) (cs ++ ts) (List.replicate (m + 1) 2) with
      | .error e => .error (.embed e)
      | .ok qs => .ok ⟨N, fun x y =>
          match expandEntry N qs x y with
          | none => .zero
          | some (a, c) => blockDigits m b a c⟩

/-- which argument the first compatibility line `if not isinstance(·, Iterable): controls = [controls]` tests.
The source tests `targets` (regenerated on every check into `Gen.GF.ctrlCompatTest`); testing `controls` is what the
line evidently intends. -/
inductive Which
  | controls
  | targets
deriving DecidableEq, Repr

/-- `controlled_gate(U, controls, targets, N, control_value)` for a single-qubit `U` -/
def controlledGate (cTest : Which) (controls targets : Arg) (N? : Option Nat) (v : Int) : Except CErr Res :=
  let targetsScalar := match targets with | .scalar _ => true | .list _ => false
  let controlsScalar := match controls with | .scalar _ => true | .list _ => false
  let wrapControls := match cTest with | .targets => targetsScalar | .controls => controlsScalar
  let ts := match targets with | .scalar t => [t] | .list ts => ts      -- second line: `targets = [targets]`
  match controls, wrapControls with
  | .scalar c, true => build [c] ts N? v
  | .scalar _, false => .error .lenOfInt                                  -- `len(controls)` of an integer
  | .list cs, false => build cs ts N? v
  | .list _, true =>
    -- controls = [[…]]: one "control", the value is checked against 2 blocks, then expand_operator refuses the nested list
    match pyIndex 2 v with
    | none => .error .blockIndex
    | some _ => .error .nested

/-- the property: on every qubit outside controls ∪ {target} and on the controls the two states agree; the target
sees `U` when the controls (first listed = most significant) hold the value `v`, the identity otherwise -/
def specEntry (N : Nat) (cs : List Nat) (t : Nat) (v : Nat) (x y : List Nat) : Ent :=
  if (List.range N).all (fun i => (cs ++ [t]).contains i || x.getD i 0 == y.getD i 0)
      && (cs.map fun c => x.getD c 0) == (cs.map fun c => y.getD c 0) then
    if undigits (List.replicate cs.length 2) (cs.map fun c => x.getD c 0) = v then .u (x.getD t 0) (y.getD t 0)
    else if x.getD t 0 = y.getD t 0 then .one else .zero
  else .zero

end QipVerif.Ctrl
