import QipVerif.Model.EmbedArgs
/-!
# Numeric types of the integer-valued arguments (property C08)

No Mathlib/Batteries; executable.  Python callers pass `N` / `num_qubits`, the entries of `targets` and of
`dims`, and the integer form of a pulse's `dims` as Python `int`, `bool`, numpy integers (`int64`, `int32`,
`uint8`, …), numpy 0-d arrays, or floats with an integral value.  What the code that exists does with each,
position by position (a value is never changed: every type is either used with its integer value or the call
raises):

| position | int | bool | numpy integer | 0-d array | integral float |
|---|---|---|---|---|---|
| `N` of `expand_operator`, `num_qubits` of `Gate.get_qobj` without `dims` (`[2] * n`, `t < n`, `range(n)`) | value | 0 / 1 | value | `[2] * array(n)` is the array `[2n]`, `[0] * array(n)` has one cell: as the value for `n ≤ 1`, IndexError / dims mismatch otherwise | `TypeError` (`[2] * 3.0`) |
| integer `dims` of `_EvoElement.get_qobj` (`isinstance(dims, (int, np.integer))`) | value | 0 / 1 | value | taken for a list: `TypeError` | taken for a list: `TypeError` |
| `targets` given as a scalar (`hasattr(targets, "__iter__")`, `numbers.Integral`) | value | 0 / 1 | value | iteration over a 0-d array: `TypeError` | `TypeError` |
| an entry of `targets` (`numbers.Integral`) | value | 0 / 1 | value | `TypeError` | `TypeError` |
| an entry of `dims` at a target position (`oper.dims[0] != targ_dims`) | value | 0 / 1 | value | value | value |
| an entry of `dims` elsewhere (`identity(dims[i])`) | value | 0 / 1 | value | `identity(array(1))` is accepted by QuTiP, every other value: `TypeError` (unhashable) | value (QuTiP accepts an integral float) |

A typed request is *lowered* to the request on integers of `Model/EmbedArgs.lean`, or refused.
-/
namespace QipVerif.EmbedNum
open QipVerif.Embed QipVerif.EmbedArgs

inductive NumT
  | int | bool | npint | arr0 | float
deriving DecidableEq, Repr

/-- a number as passed: its Python type class and its (integral) value; `bool` carries 0 or 1 -/
structure Num where
  ty : NumT
  v : Int
deriving Repr

inductive Pos
  | size          -- `N`, `num_qubits` (without dims)
  | pulseSize     -- integer `dims` of a pulse / drift element
  | targetScalar
  | targetEntry
  | dimTarget     -- entry of `dims` at a target position
  | dimRest       -- entry of `dims` elsewhere
deriving DecidableEq, Repr

/-- the integer the code works with, or `none` when the call raises because of the type -/
def coerce : Pos → Num → Option Int
  | .size, ⟨.arr0, v⟩ => if v ≤ 1 then some v else none
  | .size, ⟨.float, _⟩ => none
  | .size, ⟨_, v⟩ => some v
  | .pulseSize, ⟨.arr0, _⟩ => none
  | .pulseSize, ⟨.float, _⟩ => none
  | .pulseSize, ⟨_, v⟩ => some v
  | .targetScalar, ⟨.arr0, _⟩ => none
  | .targetScalar, ⟨.float, _⟩ => none
  | .targetScalar, ⟨_, v⟩ => some v
  | .targetEntry, ⟨.arr0, _⟩ => none
  | .targetEntry, ⟨.float, _⟩ => none
  | .targetEntry, ⟨_, v⟩ => some v
  | .dimTarget, ⟨_, v⟩ => some v
  | .dimRest, ⟨.arr0, v⟩ => if v = 1 then some v else none
  | .dimRest, ⟨_, v⟩ => some v

/-- the `targets` argument as passed -/
inductive TArgT
  | none
  | scalar (t : Num)
  | list (ts : List Num)
deriving Repr

/-- how the register is specified -/
inductive DimsT
  | none                      -- `dims=None`
  | list (d : List Num)       -- a list / tuple / array of numbers
  | pulse (n : Num)           -- the integer form of `_EvoElement.get_qobj(dims)`
  | qubits (n : Num)          -- `Gate.get_qobj(num_qubits=n)` without dims: `[2] * n`
deriving Repr

structure ArgsT where
  N : Option Num
  dims : DimsT
  targets : TArgT
  opL : List Nat
  opR : List Nat
  cyclic : Bool
deriving Repr

def coerceAll (p : Pos) : List Num → Option (List Int)
  | [] => some []
  | x :: xs =>
    match coerce p x, coerceAll p xs with
    | some a, some b => some (a :: b)
    | _, _ => Option.none

def lowerTargets : TArgT → Option TArg
  | .none => some .none
  | .scalar t => (coerce .targetScalar t).map .int
  | .list ts => (coerceAll .targetEntry ts).map .list

/-- entries of `dims`, each coerced according to whether its position is one of the (lowered) targets -/
def lowerDimsList (targets : List Int) (n : Nat) : Nat → List Num → Option (List Nat)
  | _, [] => some []
  | i, x :: xs =>
    let isT := targets.contains (i : Int) || targets.contains ((i : Int) - (n : Int))
    match coerce (if isT then .dimTarget else .dimRest) x, lowerDimsList targets n (i + 1) xs with
    | some a, some b => if a < 0 then Option.none else some (a.toNat :: b)
    | _, _ => Option.none

def sizeNat (p : Pos) (x : Num) : Option Nat :=
  match coerce p x with
  | some v => if v < 0 then Option.none else some v.toNat
  | Option.none => Option.none

/-- the request on integers, or `none` if the call raises because of a numeric type -/
def lower (a : ArgsT) : Option Args :=
  match lowerTargets a.targets with
  | Option.none => Option.none
  | some t =>
    let tl : List Int := match t with
      | .none => (List.range a.opL.length).map Int.ofNat
      | .int x => [x]
      | .list l => l
    let nOpt : Option (Option Nat) := match a.N with
      | Option.none => some Option.none
      | some x => (sizeNat .size x).map some
    let dOpt : Option (Option (List Nat)) := match a.dims with
      | .none => some Option.none
      | .list d => (lowerDimsList tl d.length 0 d).map some
      | .pulse n => (sizeNat .pulseSize n).map (fun k => some (List.replicate k 2))
      | .qubits n => (sizeNat .size n).map (fun k => some (List.replicate k 2))
    match nOpt, dOpt with
    | some n, some d => some ⟨n, d, t, a.opL, a.opR, a.cyclic⟩
    | _, _ => Option.none

inductive TErr
  | numtype              -- the call raises because of the type of a number
  | args (e : AErr)
deriving DecidableEq, Repr

/-- `expand_operator` / `Gate.get_qobj` / `_EvoElement.get_qobj` with typed numbers -/
def expandArgsT (a : ArgsT) : Except TErr (List (List Nat × List Nat)) :=
  match lower a with
  | Option.none => .error .numtype
  | some a' =>
    match expandArgs a' with
    | .ok rs => .ok rs
    | .error e => .error (.args e)

end QipVerif.EmbedNum
