import QipVerif.Model.Sim
/-!
# `ModelProcessor.load_circuit` with its early return for circuits that need no control pulse (property C16)

Import-free.  `ModelProcessor.load_circuit` compiles the circuit and then either stores the pulses, or — when the
compiler returns `coeffs = None` (the circuit is empty, or consists of GLOBALPHASE gates and rotations by 0 only) —
clears the pulses and returns early.  The global phase collected by the compiler is stored by the subclasses
(`SpinChain.load_circuit`, `DispersiveCavityQED.load_circuit`) after the base method has returned, i.e. on BOTH paths.
`phaseOnEmpty` says whether `global_phase` is overwritten on the early-return path too (read from the source);
`pulseFree i` says whether circuit `i` takes that path (measured on a fresh processor).
-/
namespace QipVerif.Sim

/-- `load_circuit`: as `loadCircuit`, except that on the early-return path a code variant with
`phaseOnEmpty = false` leaves the processor's `global_phase` as it was -/
def loadCircuitE {Q P : Type} (cfg : Cfg) (phaseOnEmpty : Bool) (phases : List Int) (pulseFree : List Bool)
    (w : World Q P) (circ : Nat) (user : Bool) : World Q P × (Nat × List (Nat × Int)) :=
  let r := loadCircuit cfg phases w circ user
  if pulseFree.getD circ false && !phaseOnEmpty then
    ({ r.1 with proc := { r.1.proc with phase := w.proc.phase } }, r.2)
  else r

/-- a history of `load_circuit` calls on one processor (circuit index, user compiler?) -/
def loadAllE {Q P : Type} (cfg : Cfg) (phaseOnEmpty : Bool) (phases : List Int) (pulseFree : List Bool) :
    World Q P → List (Nat × Bool) → World Q P
  | w, [] => w
  | w, (c, u) :: rest => loadAllE cfg phaseOnEmpty phases pulseFree (loadCircuitE cfg phaseOnEmpty phases pulseFree w c u).1 rest

end QipVerif.Sim
