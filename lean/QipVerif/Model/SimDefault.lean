import QipVerif.Model.Sim
/-!
# The default condition value of a classically controlled gate (property C02)

Import-free.  `Gate.__init__`: a gate with `k` classical controls and `classical_control_value = None` gets the value
`2 ** k - 1` — "all classical controls must be 1".
-/
namespace QipVerif.Sim

/-- the value stored for `classical_control_value = None` -/
def defaultCcv (k : Nat) : Int := 2 ^ k - 1

end QipVerif.Sim
