import QipVerif.Model.Decompose
/-!
# `resolve_gates` with EVERY field of the emitted gate objects (C03)

`Model/Decompose.lean` is the control flow of `resolve_gates` on (name, targets, controls, angle).
This file adds the remaining fields of the gate objects the code emits:

* `arg_label` — `Lab`: none, a text `kπ/m` (`\pi/2`, `-3\pi/4`, …) or a label given by the user;
* `classical_controls` / `classical_control_value` — `Cond`;
* whether the emitted object IS an input gate passed through untouched (`src = some i`: its class,
  `control_value`, `style`, … are those of the i-th input gate) or an object built by `resolve_gates`
  (`src = none`: class `Gate`, no `control_value`, no `style`);

and the two checks in front of the rewriting: a circuit with a measurement is refused, and the
spelling of the basis (string / list).  The labels of the rule templates are a second regenerated
table (`Gen/DecompLabels.lean`), position by position next to the rule bodies of `Gen/DecompTables`.

Variants of the source (read from the tree by `py/props/c03.py`):
* `keepCond`  — `fixes/C03-2`: every gate emitted for a classically controlled gate carries its condition
  (the unrepaired code drops it on every rebuilt gate);
* `exactStr`  — `fixes/C03-3`: a basis given as a string is ONE name (the unrepaired code tests
  `gate.name in basis` on the string, i.e. substrings: `S` passes in basis `"CSIGN"`).

`FGate.g` forgets the extra fields: `resolveF_erase` (Lemmas/DecompFields.lean) shows that the
field model refines `Decomp.resolve`, so every theorem about `resolve` speaks about `resolveF`.
-/
namespace QipVerif.Decomp
open QipVerif

/-- classical condition of a gate: `classical_controls`, `classical_control_value` -/
structure Cond where
  bits : List Nat
  value : Nat
deriving DecidableEq, Repr

/-- `arg_label` of a gate object -/
inductive Lab
  | none
  /-- the text `k\pi/m` (sign and `1`s as the source writes them) -/
  | frac (k : Int) (m : Nat)
  /-- any other text (the label a user gave) -/
  | user (id : Nat)
deriving DecidableEq, Repr

/-- label of a template gate -/
inductive TLab
  | none
  | frac (k : Int) (m : Nat)
  /-- `arg_label=gate.arg_label` -/
  | inp
deriving DecidableEq, Repr

def TLab.inst (l : TLab) (inp : Lab) : Lab :=
  match l with
  | .none => .none
  | .frac k m => .frac k m
  | .inp => inp

/-- labels of the rule templates, position by position -/
structure LabTables where
  gateLab : GName → List TLab
  basisLab : GName → GName → List TLab

structure FGate where
  g : Gate
  lab : Lab := .none
  cond : Option Cond := none
  /-- `some i`: the i-th gate object of the input, untouched; `none`: built by `resolve_gates` -/
  src : Option Nat := none
deriving DecidableEq, Repr

structure FVariant where
  keepMarkers : Bool := true
  keepCond : Bool := true
  exactStr : Bool := true
deriving DecidableEq, Repr

/-- the condition handed to a gate that replaces `f` -/
def condOf (kc : Bool) (f : FGate) : Option Cond := if kc then f.cond else none

/-- a gate built by `resolve_gates` for `f` -/
def built (kc : Bool) (f : FGate) (g : Gate) (l : Lab) : FGate := ⟨g, l, condOf kc f, none⟩

/-- attach the labels of a template to its instantiated gates -/
def withLabs (kc : Bool) (f : FGate) (labs : List TLab) (gs : List Gate) : List FGate :=
  gs.zipIdx.map fun p => built kc f p.1 ((labs.getD p.2 .none).inst f.lab)

def instBodyF (kc : Bool) (f : FGate) (body : List TGate) (labs : List TLab) : Option (List FGate) :=
  (instBody f.g body).map (withLabs kc f labs)

/-- Pauli substitution: the marker and the rotation are new objects without label -/
def pauliSubF (kc : Bool) (f : FGate) : List FGate × FGate :=
  if f.g.name = .X ∨ f.g.name = .Y ∨ f.g.name = .Z then
    ((pauliSub f.g).1.map fun m => built kc f m .none, built kc f (pauliSub f.g).2 .none)
  else ([], f)

def dispatchF (T : Tables) (L : LabTables) (kc : Bool) (b2 : List GName) (inBasis : GName → Bool)
    (f : FGate) : Except Err (List FGate) :=
  if b2.contains f.g.name then .ok [f]
  else if f.g.name = .SWAP ∧ b2.contains .ISWAP then .ok [f]
  else match T.gateRule f.g.name with
    | .ignored => .ok [f]
    | .notImplemented => .error .cannotResolve
    | .missing => if inBasis f.g.name then .ok [f] else .error .cannotResolve
    | .templ body =>
      match instBodyF kc f body (L.gateLab f.g.name) with
      | some gs => .ok gs
      | none => .error .index

def resolveOneF (T : Tables) (L : LabTables) (kc : Bool) (b2 : List GName) (inBasis : GName → Bool)
    (f0 : FGate) : Except Err (List FGate × List FGate) :=
  match dispatchF T L kc b2 inBasis (pauliSubF kc f0).2 with
  | .ok out => .ok ((pauliSubF kc f0).1, out)
  | .error e => .error e

def resolveAllF (T : Tables) (L : LabTables) (kc : Bool) (b2 : List GName) (inBasis : GName → Bool) :
    List FGate → Except Err (List FGate × List FGate)
  | [] => .ok ([], [])
  | f :: fs =>
    match resolveOneF T L kc b2 inBasis f with
    | .error e => .error e
    | .ok (p, r) =>
      match resolveAllF T L kc b2 inBasis fs with
      | .error e => .error e
      | .ok (ps, rs) => .ok (p ++ ps, r ++ rs)

def basisPassF (T : Tables) (L : LabTables) (kc : Bool) (y : GName) : List FGate → Except Err (List FGate)
  | [] => .ok []
  | f :: fs =>
    match basisPassF T L kc y fs with
    | .error e => .error e
    | .ok rest =>
      match T.basisRule y f.g.name with
      | none => .ok (f :: rest)
      | some body =>
        match instBodyF kc f body (L.basisLab y f.g.name) with
        | some out => .ok (out ++ rest)
        | none => .error .index

/-- elimination of the rotation missing from a two-rotation basis: `-\pi/2`, the label of the
rotation, `\pi/2` -/
def elim1qF (kc : Bool) (b1 : List GName) (f : FGate) : List FGate :=
  if (f.g.name = .RX ∧ !b1.contains .RX) ∨ (f.g.name = .RY ∧ !b1.contains .RY) ∨
      (f.g.name = .RZ ∧ !b1.contains .RZ) then
    (elim1q b1 f.g).zipIdx.map fun p =>
      built kc f p.1 (if p.2 = 0 then .frac (-1) 2 else if p.2 = 1 then f.lab else .frac 1 2)
  else [f]

/-- `fixes/C03-3`: a valid string basis is the one-element list -/
def normBasis (exact : Bool) : BasisSpec → BasisSpec
  | .str b => if exact && basis2qValid.contains b then .list [b] else .str b
  | .list bs => .list bs

/-- `resolve_gates` on gate objects with all fields -/
def resolveF (T : Tables) (L : LabTables) (v : FVariant) (basis : BasisSpec) (fs : List FGate) :
    Except Err (List FGate) :=
  match splitBasis (normBasis v.exactStr basis) with
  | .error e => .error e
  | .ok (b1, b2, inBasis) =>
    match resolveAllF T L v.keepCond b2 inBasis fs with
    | .error e => .error e
    | .ok (markers, temp) =>
      let firstMatch := [GName.CSIGN, .ISWAP, .SQRTSWAP, .SQRTISWAP].find? b2.contains
      let stage2 : Except Err (List FGate) :=
        match firstMatch with
        | some y => match basisPassF T L v.keepCond y temp with
                    | .ok out => .ok (markers ++ out)
                    | .error e => .error e
        | none => .ok (if v.keepMarkers then markers ++ temp else temp)
      match stage2 with
      | .error e => .error e
      | .ok out => .ok (if b1.length = 2 then out.flatMap (elim1qF v.keepCond b1) else out)

/-! ## the whole call: measurements are refused before anything else -/

/-- an entry of `QubitCircuit.gates` -/
inductive CircItem
  | gate (g : Gate) (lab : Lab) (cond : Option Cond)
  | meas
deriving DecidableEq, Repr

inductive ErrC
  /-- NotImplementedError: the circuit contains a measurement -/
  | measurement
  | res (e : Err)
deriving DecidableEq, Repr

def CircItem.isMeas : CircItem → Bool
  | .meas => true
  | _ => false

/-- the gate objects of a measurement-free circuit, numbered -/
def inputs : List CircItem → List FGate
  | items => items.zipIdx.filterMap fun p =>
    match p.1 with
    | .gate g l c => some ⟨g, l, c, some p.2⟩
    | .meas => none

def resolveC (T : Tables) (L : LabTables) (v : FVariant) (basis : BasisSpec) (items : List CircItem) :
    Except ErrC (List FGate) :=
  if items.any CircItem.isMeas then .error .measurement
  else match resolveF T L v basis (inputs items) with
    | .ok out => .ok out
    | .error e => .error (.res e)

/-! ## alias names

`_decompose.py` has `_gate_H = _gate_SNOT`: a gate NAMED `H` (GATE_CLASS_MAP gives it the class of SNOT) is rewritten by
the rule of SNOT.  The model alphabet `GName` has no `H`; the regenerated table `Gen.ruleAlias` lists such names with
their canonical name, and `resolveCA` reads an alias as its canonical name.  The translator admits only aliases for
which this is exact: the canonical name has a template rule, a fixed angle, and is none of the names `resolve_gates`
compares literally (two-qubit basis gates, SWAP, the Paulis) — so the gate is always rebuilt, never passed through, and
its own name occurs nowhere in the result. -/

def canonName (al : List (String × GName)) : GName → GName
  | .other s => match al.lookup s with
    | some n => n
    | none => .other s
  | n => n

def CircItem.canon (al : List (String × GName)) : CircItem → CircItem
  | .gate g l c => .gate ⟨canonName al g.name, g.targets, g.controls, g.arg⟩ l c
  | .meas => .meas

/-- `resolve_gates` on a circuit that may use alias names -/
def resolveCA (T : Tables) (L : LabTables) (al : List (String × GName)) (v : FVariant) (basis : BasisSpec)
    (items : List CircItem) : Except ErrC (List FGate) :=
  resolveC T L v basis (items.map (CircItem.canon al))

/-! ## histories on one live circuit object

The public fields of a gate object (`targets`, `controls`, `arg_value`, the classical condition) can be re-assigned,
gates appended and removed, between calls of `resolve_gates` on the same `QubitCircuit`.  The model of `resolve_gates`
is a function of the fields as they are when it is called: no memo on the gate objects, no state in the circuit, and
the call leaves the circuit it is called on alone. -/

inductive HOp
  /-- `qc.resolve_gates(basis)` -/
  | resolve (b : BasisSpec)
  | setTargets (i : Nat) (ts : List Nat)
  | setControls (i : Nat) (cs : List Nat)
  | setArg (i : Nat) (a : Ang)
  | setCond (i : Nat) (c : Option Cond)
  /-- `qc.add_gate(...)` / `qc.add_measurement(...)` at the end -/
  | append (it : CircItem)
  /-- `qc.remove_gate_or_measurement(index=i)` -/
  | remove (i : Nat)
deriving DecidableEq, Repr

def CircItem.upd (f : Gate → Gate) (fc : Option Cond → Option Cond) : CircItem → CircItem
  | .gate g l c => .gate (f g) l (fc c)
  | .meas => .meas

def applyHOp (items : List CircItem) : HOp → List CircItem
  | .resolve _ => items
  | .setTargets i ts => items.modify i (CircItem.upd (fun g => { g with targets := ts }) id)
  | .setControls i cs => items.modify i (CircItem.upd (fun g => { g with controls := cs }) id)
  | .setArg i a => items.modify i (CircItem.upd (fun g => { g with arg := a }) id)
  | .setCond i c => items.modify i (CircItem.upd id (fun _ => c))
  | .append it => items ++ [it]
  | .remove i => items.eraseIdx i

/-- the answers of the `resolve_gates` calls of a history, in order -/
def runHistory (T : Tables) (L : LabTables) (al : List (String × GName)) (v : FVariant) :
    List CircItem → List HOp → List (Except ErrC (List FGate))
  | _, [] => []
  | items, .resolve b :: ops => resolveCA T L al v b items :: runHistory T L al v items ops
  | items, op :: ops => runHistory T L al v (applyHOp items op) ops

/-! ## execution under a classical state -/

/-- does the condition hold for the classical bits `σ` (first bit of `bits` = most significant bit of
`value`, as `_check_classical_control_value` reads it) -/
def Cond.holds (σ : Nat → Bool) (c : Cond) : Bool :=
  c.bits.zipIdx.all fun p => σ p.1 == ((c.value / 2 ^ (c.bits.length - 1 - p.2)) % 2 == 1)

def FGate.active (σ : Nat → Bool) (f : FGate) : Bool :=
  match f.cond with
  | none => true
  | some c => c.holds σ

/-- the gates the simulator executes for the classical bits `σ` -/
def executed (σ : Nat → Bool) (fs : List FGate) : List FGate := fs.filter (FGate.active σ)

/-- what the constructors of the gate classes RX RY RZ X Y Z enforce (`SingleQubitGate.__init__`): the qubit
is given as `targets`, there are no `controls`.  `resolve_gates` rebuilds these gates from `gate.targets`. -/
def buildable (g : Gate) : Bool :=
  !([GName.RX, .RY, .RZ, .X, .Y, .Z].contains g.name) || g.controls.isEmpty

/-- a label `kπ/m` says what the angle is -/
def labTrue (f : FGate) : Bool :=
  match f.lab with
  | .frac k m => f.g.arg.isFixed && f.g.arg.p8 * (m : Int) == 8 * k
  | _ => true

end QipVerif.Decomp
