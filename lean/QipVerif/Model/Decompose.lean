import QipVerif.Model.Circuit
/-!
# Model of `QubitCircuit.resolve_gates` (C03) — types of the rule tables and the control flow

The rule *tables* (`_gate_X`, `_basis_Y` of `circuit/_decompose.py`) are regenerated from
/repo into `Gen/DecompTables.lean`; this file holds their types, the instantiation of a
template on a concrete gate, and the hand model of the control flow of `resolve_gates`
(basis validation, dispatch, Pauli substitution, two-qubit basis pass, elimination of the
third rotation), parameterised by the tables.
-/
namespace QipVerif.Decomp
open QipVerif

/-- qubit selector of a template: i-th target / i-th control of the gate being rewritten -/
inductive Sel
  | t (i : Nat)
  | c (i : Nat)
deriving DecidableEq, Repr

/-- template angle: (cn/cd)·(argument of the input gate) + p8·π/8 -/
structure TAng where
  cn : Int
  cd : Nat
  p8 : Int
deriving DecidableEq, Repr

structure TGate where
  name : GName
  targets : List Sel
  controls : List Sel
  arg : TAng
deriving DecidableEq, Repr

/-- what `_gate_<NAME>` does -/
inductive Rule
  | ignored                    -- appends the gate itself (`_gate_IGNORED`)
  | notImplemented             -- raises NotImplementedError
  | missing                    -- no such function: KeyError in the dispatch
  | templ (body : List TGate)
deriving DecidableEq, Repr

def Sel.get (g : Gate) : Sel → Option Nat
  | .t i => g.targets[i]?
  | .c i => g.controls[i]?

def TAng.inst (a : TAng) (g : Ang) : Ang :=
  if a.cn = 0 then { p8 := a.p8 }
  else { sym := g.sym, cn := a.cn * g.cn, cd := a.cd * g.cd,
         p8 := a.p8 + (a.cn * g.p8) / (a.cd : Int) }

def TGate.inst (g : Gate) (t : TGate) : Option Gate :=
  match t.targets.mapM (Sel.get g), t.controls.mapM (Sel.get g) with
  | some ts, some cs => some ⟨t.name, ts, cs, t.arg.inst g.arg⟩
  | _, _ => none

def instBody (g : Gate) (body : List TGate) : Option (List Gate) := body.mapM (TGate.inst g)

/-- rule tables, supplied by the generated file -/
structure Tables where
  gateRule : GName → Rule
  /-- `_basis_Y`: `none` = the gate is appended unchanged -/
  basisRule : GName → GName → Option (List TGate)

inductive Err
  | notSufficient1q          -- ValueError "Not sufficient single-qubit gates in basis"
  | invalid2q                -- ValueError "... is not a valid two-qubit basis gate"
  | cannotResolve            -- NotImplementedError (unknown gate / not expressible)
  | index                    -- IndexError/TypeError: a rule addressed a qubit the gate does not have
deriving DecidableEq, Repr

/-- basis specification: the string form or the list form -/
inductive BasisSpec
  | str (b : GName)
  | list (bs : List GName)
deriving DecidableEq, Repr

/-- Python `a in b` for strings (`gate.name in basis` when the basis is given as a string) -/
def isSubstr (a b : List Char) : Bool :=
  match b with
  | [] => a.isEmpty
  | _ :: bt => a.isPrefixOf b || isSubstr a bt

def basis1qValid : List GName := [.RX, .RY, .RZ, .IDLE]
def basis2qValid : List GName := [.CNOT, .CSIGN, .ISWAP, .SQRTSWAP, .SQRTISWAP]

/-- (basis_1q, basis_2q, `gate.name in basis` test) -/
def splitBasis : BasisSpec → Except Err (List GName × List GName × (GName → Bool))
  | .str b =>
    if basis2qValid.contains b then
      .ok ([.RX, .RY, .RZ], [b], fun n => isSubstr n.toString.toList b.toString.toList)
    else .error .invalid2q
  | .list bs =>
    let b2 := bs.filter basis2qValid.contains
    let b1 := bs.filter (fun g => !basis2qValid.contains g && basis1qValid.contains g)
    if b1.length = 1 then .error .notSufficient1q
    else .ok (if b1.length = 0 then [.RX, .RY, .RZ] else b1, b2, fun n => bs.contains n)

def halfPi : Ang := .pi8 4

/-- the Pauli substitution at the top of the loop of `resolve_gates`: (phase markers, gate) -/
def pauliSub (g0 : Gate) : List Gate × Gate :=
  if g0.name = .X then ([⟨.GLOBALPHASE, [], [], halfPi⟩], ⟨.RX, g0.targets, [], .pi8 8⟩)
  else if g0.name = .Y then ([⟨.GLOBALPHASE, [], [], halfPi⟩], ⟨.RY, g0.targets, [], .pi8 8⟩)
  else if g0.name = .Z then ([⟨.GLOBALPHASE, [], [], halfPi⟩], ⟨.RZ, g0.targets, [], .pi8 8⟩)
  else ([], g0)

/-- `_resolve_to_universal` + the KeyError handler of `resolve_gates`: gates appended to `temp_resolved` -/
def dispatch (T : Tables) (b2 : List GName) (inBasis : GName → Bool) (g : Gate) : Except Err (List Gate) :=
  if b2.contains g.name then .ok [g]
  else if g.name = .SWAP ∧ b2.contains .ISWAP then .ok [g]
  else match T.gateRule g.name with
    | .ignored => .ok [g]
    | .notImplemented => .error .cannotResolve
    | .missing => if inBasis g.name then .ok [g] else .error .cannotResolve
    | .templ body =>
      match instBody g body with
      | some gs => .ok gs
      | none => .error .index

/-- one gate of the loop; returns (phase markers appended to `qc_temp.gates`, gates appended
to `temp_resolved`) -/
def resolveOne (T : Tables) (b2 : List GName) (inBasis : GName → Bool) (g0 : Gate) :
    Except Err (List Gate × List Gate) :=
  match dispatch T b2 inBasis (pauliSub g0).2 with
  | .ok out => .ok ((pauliSub g0).1, out)
  | .error e => .error e

def resolveAll (T : Tables) (b2 : List GName) (inBasis : GName → Bool) :
    List Gate → Except Err (List Gate × List Gate)
  | [] => .ok ([], [])
  | g :: gs =>
    match resolveOne T b2 inBasis g with
    | .error e => .error e
    | .ok (p, r) =>
      match resolveAll T b2 inBasis gs with
      | .error e => .error e
      | .ok (ps, rs) => .ok (p ++ ps, r ++ rs)

/-- `_basis_Y` over the whole list -/
def basisPass (T : Tables) (y : GName) : List Gate → Except Err (List Gate)
  | [] => .ok []
  | g :: gs =>
    match basisPass T y gs with
    | .error e => .error e
    | .ok rest =>
      match T.basisRule y g.name with
      | none => .ok (g :: rest)
      | some body =>
        match instBody g body with
        | some out => .ok (out ++ rest)
        | none => .error .index

/-- elimination of the rotation that is not in a two-rotation basis -/
def elim1q (b1 : List GName) (g : Gate) : List Gate :=
  if g.name = .RX ∧ !b1.contains .RX then
    [⟨.RY, g.targets, [], .pi8 (-4)⟩, ⟨.RZ, g.targets, [], g.arg⟩, ⟨.RY, g.targets, [], .pi8 4⟩]
  else if g.name = .RY ∧ !b1.contains .RY then
    [⟨.RZ, g.targets, [], .pi8 (-4)⟩, ⟨.RX, g.targets, [], g.arg⟩, ⟨.RZ, g.targets, [], .pi8 4⟩]
  else if g.name = .RZ ∧ !b1.contains .RZ then
    [⟨.RX, g.targets, [], .pi8 (-4)⟩, ⟨.RY, g.targets, [], g.arg⟩, ⟨.RX, g.targets, [], .pi8 4⟩]
  else [g]

/-- `resolve_gates`.  `keepMarkers = true` models the repaired code (`fix:` commit: the
Pauli phase markers are kept when no two-qubit basis pass runs); `false` is the original
behaviour (`qc_temp.gates = temp_resolved` overwrites them). -/
def resolve (T : Tables) (keepMarkers : Bool) (basis : BasisSpec) (gs : List Gate) :
    Except Err (List Gate) :=
  match splitBasis basis with
  | .error e => .error e
  | .ok (b1, b2, inBasis) =>
    match resolveAll T b2 inBasis gs with
    | .error e => .error e
    | .ok (markers, temp) =>
      let firstMatch := [GName.CSIGN, .ISWAP, .SQRTSWAP, .SQRTISWAP].find? b2.contains
      let stage2 : Except Err (List Gate) :=
        match firstMatch with
        | some y => match basisPass T y temp with
                    | .ok out => .ok (markers ++ out)
                    | .error e => .error e
        | none => .ok (if keepMarkers then markers ++ temp else temp)
      match stage2 with
      | .error e => .error e
      | .ok out => .ok (if b1.length = 2 then out.flatMap (elim1q b1) else out)

/-- exact soundness of one rule on the canonical placement of its gate: the instantiated
body has the same exact unitary (global phase included) as the gate, on `k` qubits -/
def ruleSoundE (k : Nat) (body : List TGate) (g : Gate) : Bool :=
  match instBody g body with
  | some gs => sameDenE k gs [g]
  | none => false

end QipVerif.Decomp
