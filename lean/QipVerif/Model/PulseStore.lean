/-!
# Model of how `ModelProcessor.load_circuit` stores the compiled maps in the processor (property C12)

`load_circuit` calls `set_coeffs(coeff_map)` — all pulses cleared, then one `Pulse` per item of the dict, in the dict's
order, carrying the item's label — and `set_tlist(tlist_map)` — for every item the pulse at position
`get_pulse_dict()[label]` gets the item's time grid.  Labels, time grids and coefficient arrays are abstract here
(natural numbers: the harness numbers the labels by Python equality and the arrays by their position in the maps).

Import-free, executable.
-/
namespace QipVerif.Store

/-- a pulse of the processor: its label, the time grid it holds (if any), its coefficient array -/
structure SPulse where
  label : Nat
  tl : Option Nat
  co : Nat
deriving DecidableEq, Repr

/-- `Processor.set_coeffs(coeffs)` for a dict (items in order) -/
def setCoeffs (coeffs : List (Nat × Nat)) : List SPulse := coeffs.map fun lc => ⟨lc.1, none, lc.2⟩

/-- `Processor.get_pulse_dict()[l]`: position of the pulse labelled `l` (a later pulse with the same label wins) -/
def pulseDict : List SPulse → Nat → Option Nat
  | [], _ => none
  | p :: ps, l =>
    match pulseDict ps l with
    | some i => some (i + 1)
    | none => if p.label = l then some 0 else none

/-- `self.pulses[i].tlist = t` -/
def setAt : List SPulse → Nat → Nat → List SPulse
  | [], _, _ => []
  | p :: ps, 0, t => { p with tl := some t } :: ps
  | p :: ps, i + 1, t => p :: setAt ps i t

/-- `Processor.set_tlist(tlist)` for a dict; `none` = `KeyError` (no pulse with that label) -/
def setTlist : List (Nat × Nat) → List SPulse → Option (List SPulse)
  | [], ps => some ps
  | (l, t) :: rest, ps =>
    match pulseDict ps l with
    | none => none
    | some i => setTlist rest (setAt ps i t)

/-- what `load_circuit` leaves in `processor.pulses` -/
def storePulses (coeffs tlists : List (Nat × Nat)) : Option (List SPulse) := setTlist tlists (setCoeffs coeffs)

/-- `tlist_map[l]` -/
def tlOf (l : Nat) : List (Nat × Nat) → Option Nat
  | [] => none
  | (k, t) :: r => if k = l then some t else tlOf l r

end QipVerif.Store
