/-!
# Model of the index bookkeeping of `qutip_qip.vqa.VQA` (property C19)

Import-free, executable.  What is modelled is *which block, which slice of the parameter
vector, which Hamiltonian term and which prefix/suffix product* every entry of the
jacobian refers to:

* `VQABlock.__init__`            → `Block.nparams`
* `VQA.get_block_series`         → `blockSeries`
* `VQA.get_free_parameters_num`  → `freeParams`
* `VQA.construct_circuit`        → `constructCircuit` (slices `angles[i : i + n]`)
* `VQA.get_unitary_products`     → `unitaryProducts` (over an arbitrary multiplication)
* `modify_unitary` (closure of `compute_jac`) → `modifyUnitary`
* the loop of `VQA.compute_jac`  → `jacLoop` (the repaired loop, fixes/C19-1.patch: one entry per
  requested parameter, `term_index` advanced) and `jacLoopOrig` (the loop as shipped: one entry per
  block, `term_index` always 0)

Block unitaries and their derivatives are abstract elements of a type `M` with a
multiplication; the numerics (`expm`, `expm_frechet`) are not modelled.
-/
namespace QipVerif.Vqa

/-- What `VQABlock.__init__` distinguishes: a `Qobj` Hamiltonian (`is_unitary=False`), a fixed
`Qobj` unitary (`is_unitary=True`), a string naming a library gate, a
`ParameterizedHamiltonian`, a Python function returning a unitary. -/
inductive Kind
  | ham | unitary | native | pham | func
deriving DecidableEq, Repr

structure Block where
  kind : Kind
  /-- `len(parameterized_terms)`; only read for `pham` -/
  nterms : Nat
  initial : Bool
deriving DecidableEq, Repr

/-- `num_parameters` as set by `VQABlock.__init__` -/
def Block.nparams (b : Block) : Nat :=
  match b.kind with
  | .ham => 1
  | .unitary => 0
  | .native => 0
  | .pham => b.nterms
  | .func => 1

/-- a block together with its position in `VQA.blocks` -/
abbrev IBlock := Nat × Block

def indexFrom : Nat → List Block → List IBlock
  | _, [] => []
  | j, b :: bs => (j, b) :: indexFrom (j + 1) bs

/-- `filter(lambda b: not b.initial, self.blocks)` -/
def layerBlocks (bs : List IBlock) : List IBlock := bs.filter (fun b => !b.2.initial)

def initialBlocks (bs : List IBlock) : List IBlock := bs.filter (fun b => b.2.initial)

def repeatL : Nat → List IBlock → List IBlock
  | 0, _ => []
  | r + 1, l => l ++ repeatL r l

/-- `get_block_series`: all blocks, then `num_layers - 1` copies of the non-initial ones. -/
def blockSeries (bs : List Block) (L : Nat) : List IBlock :=
  indexFrom 0 bs ++ repeatL (L - 1) (layerBlocks (indexFrom 0 bs))

def sumParams : List IBlock → Nat
  | [] => 0
  | jb :: rest => jb.2.nparams + sumParams rest

/-- `VQA.get_free_parameters_num` -/
def freeParams (bs : List Block) (L : Nat) : Nat :=
  sumParams (initialBlocks (indexFrom 0 bs)) + sumParams (layerBlocks (indexFrom 0 bs)) * L

/-! ## `construct_circuit` -/

/-- one `circ.add_gate` call: which block, native or user gate, `arg_value` -/
structure CGate (α : Type) where
  blk : Nat
  native : Bool
  arg : Option (List α)
deriving DecidableEq, Repr

/-- Python `angles[i : i + n]` for `0 ≤ i` (silently shorter when the list ends early) -/
def slice {α : Type} (angles : List α) (i n : Nat) : List α := (angles.drop i).take n

/-- the gate added for block `jb` when the running offset is `i` -/
def gateOf {α : Type} (angles : List α) (jb : IBlock) (i : Nat) : CGate α :=
  if jb.2.kind = .native then ⟨jb.1, true, none⟩
  else ⟨jb.1, false, if jb.2.nparams > 0 then some (slice angles i jb.2.nparams) else none⟩

/-- inner loop `for block in self.blocks` of one layer; returns the gates and the new `i` -/
def circLayer {α : Type} (angles : List α) (first : Bool) : List IBlock → Nat → List (CGate α) × Nat
  | [], i => ([], i)
  | jb :: rest, i =>
    if jb.2.initial && !first then circLayer angles first rest i
    else if jb.2.kind = .native then
      let r := circLayer angles first rest i
      (gateOf angles jb i :: r.1, r.2)
    else
      let r := circLayer angles first rest (i + jb.2.nparams)
      (gateOf angles jb i :: r.1, r.2)

/-- outer loop `for layer_num in range(self.num_layers)` -/
def circLayers {α : Type} (angles : List α) (ib : List IBlock) : Nat → Bool → Nat → List (CGate α)
  | 0, _, _ => []
  | r + 1, first, i =>
    let l := circLayer angles first ib i
    l.1 ++ circLayers angles ib r false l.2

def constructCircuit {α : Type} (bs : List Block) (L : Nat) (angles : List α) : List (CGate α) :=
  circLayers angles (indexFrom 0 bs) L true 0

/-- The walk of `compute_jac` over the block series (`i += n_params` after *every* block):
the gate that block receives. -/
def seriesGates {α : Type} (angles : List α) : List IBlock → Nat → List (CGate α)
  | [], _ => []
  | jb :: rest, i => gateOf angles jb i :: seriesGates angles rest (i + jb.2.nparams)

/-! ## Errors raised while the propagators are evaluated (`circ.propagators()`) -/

inductive Err
  | angles      -- ValueError "Expected n angles but got m." (parameter vector too short)
  | noangles    -- ValueError "No angles were given and block was not unitary" (0-term ParameterizedHamiltonian)
  | funcderiv   -- TypeError: derivative of a function block multiplies a Qobj with a function
  | noobs       -- NotImplementedError: `cost_derivative` called while `cost_observable is None`
  | nocostfunc  -- ValueError of `evaluate_parameters`: STATE/BITSTRING without `cost_func`, OBSERVABLE without observable
deriving DecidableEq, Repr

/-- `block.get_unitary(arg)` for the gate the block receives at offset `i`, `m = len(angles)` -/
def blockErr (m : Nat) (b : Block) (i : Nat) : Option Err :=
  if b.kind = .native then none
  else if b.nparams = 0 then (if b.kind = .unitary then none else some .noangles)
  else if min b.nparams (m - i) ≠ b.nparams then some .angles else none

def seriesErr (m : Nat) : List IBlock → Nat → Option Err
  | [], _ => none
  | jb :: rest, i =>
    match blockErr m jb.2 i with
    | some e => some e
    | none => seriesErr m rest (i + jb.2.nparams)

/-! ## `get_unitary_products`, `modify_unitary`, the full product -/

section Products
variable {M : Type} (mul : M → M → M) (one : M)

/-- `U_prods`: `[1, P₀, P₁P₀, …]` built by `U_prods.append(propagators[i] * U_prods[-1])` -/
def prodsFwd : M → List M → List M
  | acc, [] => [acc]
  | acc, p :: ps => acc :: prodsFwd (mul p acc) ps

/-- `U_prods_back` over the *reversed* propagator list:
`U_prods_back.append(U_prods_back[-1] * propagators[-i - 1])` -/
def prodsBack : M → List M → List M
  | acc, [] => [acc]
  | acc, p :: ps => acc :: prodsBack (mul acc p) ps

def unitaryProducts (ps : List M) : List M × List M :=
  (prodsFwd mul one ps, prodsBack mul one ps.reverse)

/-- `modify_unitary(k, X) = U_prods_back[n - 1 - k] * X * U_prods[k]`, `n = len(U_prods) - 1` -/
def modifyUnitary (ps : List M) (k : Nat) (X : M) : M :=
  let up := unitaryProducts mul one ps
  let n := up.1.length - 1
  mul (mul (up.2.getD (n - 1 - k) one) X) (up.1.getD k one)

/-- `gate_sequence_product(propagators)`: later propagators multiply from the left -/
def fullProd (ps : List M) : M := ps.foldl (fun acc p => mul p acc) one

end Products

/-! ## The loop of `compute_jac` -/

/-- One jacobian entry: series position `k` (also the index of the propagator that is replaced),
block `blk` of `VQA.blocks`, the slice `angles[start : start + n]` handed to
`get_unitary_derivative`, and `term_index`. -/
structure JEntry where
  k : Nat
  blk : Nat
  start : Nat
  n : Nat
  term : Nat
deriving DecidableEq, Repr

/-- flat index of the parameter an entry differentiates with respect to -/
def JEntry.param (e : JEntry) : Nat := e.start + e.term

/-- Repaired loop (fixes/C19-1.patch):
```
for k, block in enumerate(series):
    n = block.get_free_parameters_num()
    for t in range(n):
        if i + t in indices_to_compute:  entry (k, angles[i:i+n], term_index=t)
    i += n
``` -/
def jacLoop (idx : List Int) : List IBlock → Nat → Nat → List JEntry
  | [], _, _ => []
  | jb :: rest, k, i =>
    ((List.range jb.2.nparams).filter (fun t => idx.contains (((i + t : Nat)) : Int))).map
        (fun t => (⟨k, jb.1, i, jb.2.nparams, t⟩ : JEntry))
      ++ jacLoop idx rest (k + 1) (i + jb.2.nparams)

/-- The loop as shipped in /repo (before the patch):
```
    if n > 0:
        if i in indices_to_compute:  entry (k, angles[i:i+n], term_index=0)
        i += n
``` -/
def jacLoopOrig (idx : List Int) : List IBlock → Nat → Nat → List JEntry
  | [], _, _ => []
  | jb :: rest, k, i =>
    if jb.2.nparams > 0 then
      (if idx.contains ((i : Nat) : Int) then [(⟨k, jb.1, i, jb.2.nparams, 0⟩ : JEntry)] else [])
        ++ jacLoopOrig idx rest (k + 1) (i + jb.2.nparams)
    else jacLoopOrig idx rest (k + 1) i

/-- `indices_to_compute` (default `range(len(angles))`) -/
def indices (m : Nat) (idx : Option (List Int)) : List Int :=
  match idx with
  | some l => l
  | none => (List.range m).map Int.ofNat

def kindAt (bs : List Block) (j : Nat) : Option Kind := (bs[j]?).map (·.kind)

/-- `compute_jac(angles, indices_to_compute)` with `m = len(angles)`: either the exception or the
list of entries, in the order they are appended. `orig = true` selects the shipped loop. -/
def computeJac (orig : Bool) (bs : List Block) (L m : Nat) (idx : Option (List Int)) :
    Except Err (List JEntry) :=
  let s := blockSeries bs L
  match seriesErr m s 0 with
  | some e => .error e
  | none =>
    let es := if orig then jacLoopOrig (indices m idx) s 0 0 else jacLoop (indices m idx) s 0 0
    if es.any (fun e => kindAt bs e.blk == some .func) then .error .funcderiv else .ok es

/-! ## The cost configuration (`cost_method`, `cost_observable`, `cost_func`) -/

/-- `VQA.cost_method` -/
inductive CostMethod
  | observable | state | bitstring
deriving DecidableEq, Repr

/-- `compute_jac` as a function of the cost configuration.  `compute_jac` never reads `cost_method` or
`cost_func`; `cost_derivative` raises `NotImplementedError` when `cost_observable is None`, which happens
when the first entry is evaluated — after `get_unitary_derivative` of that entry (`TypeError` for a
function block).  With no requested entry nothing is raised. -/
def computeJacCfg (hasObs : Bool) (_cm : CostMethod) (orig : Bool) (bs : List Block) (L m : Nat)
    (idx : Option (List Int)) : Except Err (List JEntry) :=
  if hasObs then computeJac orig bs L m idx
  else
    let s := blockSeries bs L
    match seriesErr m s 0 with
    | some e => .error e
    | none =>
      let es := if orig then jacLoopOrig (indices m idx) s 0 0 else jacLoop (indices m idx) s 0 0
      match es with
      | [] => .ok []
      | e :: _ => if kindAt bs e.blk == some .func then .error .funcderiv else .error .noobs

/-- Which quantity `evaluate_parameters` returns: the observable expectation (`true`) or a user function
of the final state / of a sampled bitstring (`false`); `ValueError` when the needed attribute is missing.
(The circuit is run first: errors of the propagators come before.) -/
def evalKind (cm : CostMethod) (hasObs hasFunc : Bool) : Except Err Bool :=
  match cm with
  | .observable => if hasObs then .ok true else .error .nocostfunc
  | .state => if hasFunc then .ok false else .error .nocostfunc
  | .bitstring => if hasFunc then .ok false else .error .nocostfunc

/-- the values: `cost_derivative(U, modify_unitary(k, dBlock))` for every entry -/
def jacValues {M R : Type} (mul : M → M → M) (one : M) (ps : List M) (dB : JEntry → M)
    (cd : M → M → R) (es : List JEntry) : List R :=
  es.map (fun e => cd (fullProd mul one ps) (modifyUnitary mul one ps e.k (dB e)))

end QipVerif.Vqa
