import QipVerif.Gen.CqedTables
import QipVerif.Gen.ScqTables
/-!
# Model of the pulse compilers of the cavity-QED and the superconducting-qubit processors (property C18)

No Mathlib; executable; generic in the number type (`DArith α`: `Float` in the driver `drv_cqed`, `ℝ` in the
theorems).  Formulas and tables are REGENERATED from the source (`Gen/CqedTables.lean`, `Gen/ScqTables.lean`);
the control flow below is written by hand after

* `CavityQEDCompiler`: `_rotation_compiler` (RX, RZ: channel `op_label + str(targets[0])`, strength
  `params[param_label][targets[0]]`, area from the angle, rectangular pulse), `_swap_compiler` (ISWAP, SQRTISWAP:
  the four held channels with their coefficients, the duration from the effective coupling `J`, the two RZ
  corrections compiled through `gate_compiler["RZ"]`, the correction added to `global_phase`),
  `globalphase_compiler`, `idle_compiler`; the gate loop of `GateCompiler.compile` (phase reset, zero-duration
  instructions dropped); `CavityQEDModel._compute_params` (aliases `sx`/`sz`, `wq`, `Delta`, the regime warnings);
* `SCQubitsCompiler`: `_rotation_compiler` with the sampled Hann window (`np.linspace`, `generate_pulse_shape`; the amplitude
  floor `rotMax` for small angles when the source has it),
  `_drag_pulse` (`np.gradient`, the three quadratures and which channel carries which), the plain branch
  (`DRAG = False`), `rzx_compiler` (index into `zx_coeff`, rescaling of times and coefficients, label),
  `cnot_compiler` (the generated gate sequence, each compiled through the gate map / `rzx_compiler`);
  `SCQubitsModel._compute_params` (dressed frequencies, `J`, `zx_coeff`);
* the set of channel labels of each model (`Processor.set_coeffs` raises `KeyError` for any other label).

Scheduling and the concatenation of the instructions into pulses are the models of C05/C11/C12.
-/
namespace QipVerif.DevModel
open QipVerif.Dev

/-- a gate as the compilers read it -/
structure GateRec (α : Type) where
  name : String
  targets : List Nat
  controls : List Nat
  /-- `gate.arg_value` (unused by gates without a parameter) -/
  arg : α
deriving Repr

structure Pulse (α : Type) where
  label : String
  /-- one entry: a scalar coefficient (rectangular pulse) -/
  coeff : List α
deriving Repr

/-- `Instruction(gate, tlist, pulse_info)` -/
structure Instr (α : Type) where
  gate : GateRec α
  /-- `tlist` and the coefficients are scalars -/
  scalar : Bool
  tlist : List α
  pulses : List (Pulse α)
deriving Repr

inductive Err
  | unsupported   -- ValueError "Unsupported gate …"
  | index         -- IndexError
  | key           -- KeyError
  | shape         -- ValueError / TypeError from unpacking `gate.targets`, or a table shape the model does not describe
deriving DecidableEq, Repr

variable {α : Type} [DArith α]

/-- `ins.duration`: the scalar `tlist`, or its last entry -/
def Instr.duration (i : Instr α) : α := i.tlist.getLast?.getD zero

/-- what compiling one gate yields: instructions and the increment of `self.global_phase` -/
abbrev Step (α : Type) := List (Instr α) × Option α

/-- the gate loop of `GateCompiler.compile` -/
def compileLoop (drop : Bool) (step : GateRec α → Except Err (Step α)) :
    List (GateRec α) → α → Except Err (List (Instr α) × α)
  | [], ph => .ok ([], ph)
  | g :: gs, ph =>
    match step g with
    | .error e => .error e
    | .ok (is, dph) =>
      let ph1 := match dph with | some d => DArith.add ph d | none => ph
      match compileLoop drop step gs ph1 with
      | .error e => .error e
      | .ok (rest, ph2) =>
        .ok ((if drop then is.filter (fun i => !DArith.isZero i.duration) else is) ++ rest, ph2)

/-! ## cavity QED -/
namespace CQ
open QipVerif.Gen.CQ

/-- `CavityQEDModel.params` after `_to_array` (one entry per qubit) -/
structure HW (α : Type) where
  deltamax : List α
  epsmax : List α
  eps : List α
  delta : List α
  g : List α
  w0 : α
deriving Repr

/-- `self.params[key]` for the per-qubit arrays the compiler reads (`none`: not modelled / KeyError) -/
def HW.get? (P : HW α) (key : String) : Option (List α) :=
  let k := (paramAlias.lookup key).getD key
  if k == "deltamax" then some P.deltamax
  else if k == "epsmax" then some P.epsmax
  else if k == "eps" then some P.eps
  else if k == "delta" then some P.delta
  else if k == "g" then some P.g
  else none

/-- `_rotation_compiler(gate, op_label, param_label, args)` with the default rectangular shape -/
def rotation (pi : α) (P : HW α) (g : GateRec α) (op par : String) : Except Err (Instr α) :=
  match g.targets.head? with
  | none => .error .index
  | some t =>
    match P.get? par with
    | none => .error .key
    | some l =>
      match l[t]? with
      | none => .error .index
      | some mx =>
        let area := rotArea pi g.arg
        .ok ⟨g, true, [pulseDur rectT0 mx area], [⟨op ++ toString t, [pulseCoeff rectC0 mx area]⟩]⟩

def refOf (q1 q2 : Nat) : QRef → Nat
  | .q1 => q1
  | .q2 => q2

/-- the quantities `_swap_compiler` reads for the pair `(q1, q2)`: `wq`, `g`, `Delta` of both -/
structure Pair (α : Type) where
  wq1 : α
  wq2 : α
  g1 : α
  g2 : α
  D1 : α
  D2 : α

def pair? (P : HW α) (q1 q2 : Nat) : Option (Pair α) :=
  match P.eps[q1]?, P.delta[q1]?, P.g[q1]?, P.eps[q2]?, P.delta[q2]?, P.g[q2]? with
  | some e1, some d1, some g1, some e2, some d2, some g2 =>
    let wq1 := compWq e1 d1
    let wq2 := compWq e2 d2
    some ⟨wq1, wq2, g1, g2, compDelta wq1 P.w0, compDelta wq2 P.w0⟩
  | _, _, _, _, _, _ => none

/-- the exchange instruction of `_swap_compiler` -/
def exchInstr (P : HW α) (g : GateRec α) (k : Nat) (q1 q2 : Nat) (pr : Pair α) : Instr α :=
  let J := swapJ pr.g1 pr.g2 pr.D1 pr.D2
  let area := swapArea J (exchArea k)
  let held := (swapHeld.zip (List.range swapHeld.length)).map fun ((pre, r), i) =>
    (⟨pre ++ toString (refOf q1 q2 r), [swapHeldCoef pr.wq1 pr.wq2 pr.g1 pr.g2 P.w0 i]⟩ : Pulse α)
  ⟨g, true, [pulseDur rectT0 J area], held⟩

/-- the corrections of `_swap_compiler`: `self.gate_compiler[name](Gate(name, [q], None, arg_value=corr), args)` -/
def corrections (pi : α) (P : HW α) (k : Nat) (q1 q2 : Nat) : List (String × QRef) → Except Err (List (Instr α))
  | [] => .ok []
  | (nm, r) :: rest =>
    match gateCompiler.lookup nm with
    | some (.rotation op par) =>
      match rotation pi P ⟨nm, [refOf q1 q2 r], [], exchCorr pi k⟩ op par with
      | .error e => .error e
      | .ok i =>
        match corrections pi P k q1 q2 rest with
        | .error e => .error e
        | .ok is => .ok (i :: is)
    | _ => .error .shape

/-- `self.gate_compiler[gate.name](gate, self.args)` -/
def compileGate (pi : α) (P : HW α) (g : GateRec α) : Except Err (Step α) :=
  match gateCompiler.lookup g.name with
  | none => .error .unsupported
  | some (.rotation op par) =>
    match rotation pi P g op par with
    | .error e => .error e
    | .ok i => .ok ([i], none)
  | some (.exchange k) =>
    match g.targets with
    | [q1, q2] =>
      match pair? P q1 q2 with
      | none => .error .index
      | some pr =>
        match corrections pi P k q1 q2 swapCorrections with
        | .error e => .error e
        | .ok cs => .ok (exchInstr P g k q1 q2 pr :: cs, some (exchCorr pi k))
    | _ => .error .shape
  | some .phase => .ok ([], some g.arg)
  | some .noop => .ok ([], none)
  | some .idle => .ok ([⟨g, true, [g.arg], []⟩], none)

/-- instructions (before scheduling) and `compiler.global_phase` after `compile(gates)` -/
def compile (pi : α) (P : HW α) (phase0 : α) (gs : List (GateRec α)) : Except Err (List (Instr α) × α) :=
  compileLoop dropsZeroDuration (compileGate pi P) gs (if compileResetsPhase then zero else phase0)

/-- `processor.global_phase` after `DispersiveCavityQED.load_circuit` -/
def reportedPhase (old compilerPhase : α) : α := if handsBackPhase then compilerPhase else old

/-- the channel labels of `CavityQEDModel(N)` -/
def labels (N : Nat) : List String :=
  (List.range N).map (fun m => ctlSX_prefix ++ toString m) ++ (List.range N).map (fun m => ctlSZ_prefix ++ toString m)
    ++ (List.range N).map (fun m => ctlG_prefix ++ toString m)

/-- `_compute_params`: `wq`, `Delta` per qubit and whether each of the two warnings is issued -/
def computed (P : HW α) : List α × List α × Bool × Bool :=
  let wq := (P.eps.zip P.delta).map fun (e, d) => modelWq e d
  let D := wq.map fun w => modelDelta w P.w0
  (wq, D, (P.g.zip wq).any (fun (g, w) => warn0 g P.w0 w), (P.g.zip wq).any (fun (g, w) => warn1 g P.w0 w))

end CQ

/-! ## superconducting qubits -/
namespace SCQ
open QipVerif.Gen.SCQ

/-- `SCQubitsModel.params` after `_compute_params` -/
structure HW (α : Type) where
  raw : Raw α
  wq_dressed : List α
  wr_dressed : List α
  J : List α
  zx_coeff : List α
deriving Repr

/-- `SCQubitsModel._compute_params` for `num_qubits = N` -/
def computeParams (P : Raw α) (N : Nat) : HW α :=
  let n : Int := N
  let J := (List.range (N - 1)).map fun (i : Nat) => JAt P n (i : Int)
  { raw := P
    wq_dressed := (List.range N).map fun (i : Nat) => wqDressedAt P n (i : Int)
    wr_dressed := (List.range (N - 1)).map fun (i : Nat) => wrDressedAt P n (i : Int)
    J := J
    zx_coeff := ((List.range (N - 1)).flatMap fun (i : Nat) => [zxAt0 P J n (i : Int), zxAt1 P J n (i : Int)]).map zxFinal }

def HW.get? (H : HW α) (key : String) : Option (List α) :=
  if key == "omega_single" then some H.raw.omega_single
  else if key == "omega_cr" then some H.raw.omega_cr
  else if key == "alpha" then some H.raw.alpha
  else if key == "wq" then some H.raw.wq
  else if key == "zx_coeff" then some H.zx_coeff
  else none

/-- Python list / array indexing: a negative index counts from the end -/
def pyIdx? {β : Type} (l : List β) (i : Int) : Option β :=
  if i < 0 then (if -i ≤ (l.length : Int) then l[(l.length - (-i).toNat)]? else none) else l[i.toNat]?

/-- `generate_pulse_shape("hann", n, maximum, area)`: `(coeff, tlist)` -/
def hannPulse (pi : α) (n : Nat) (mx area : α) : List α × List α :=
  let us := linspace (windowTmax : α) n
  (us.map (fun u => pulseCoeff (window pi u) mx area), us.map (fun u => pulseDur u mx area))

/-- `_rotation_compiler(gate, op_label, param_label, args)` for `args = {shape: "hann", num_samples: n, DRAG: drag}` -/
def rotation (pi : α) (H : HW α) (drag : Bool) (n : Nat) (g : GateRec α) (op par : String) : Except Err (Instr α) :=
  match g.targets.head? with
  | none => .error .index
  | some t =>
    match H.get? par with
    | none => .error .key
    | some l =>
      match l[t]?, H.raw.wq[t]? with
      | some mx, some _ =>
        let (c, tl) := hannPulse pi n (rotMax mx (rotArea pi g.arg)) (rotArea pi g.arg)
        let ts := toString t
        if drag then
          match H.raw.alpha[t]?, tl[0]?, tl[1]? with
          | some alpha, some t0, some t1 =>
            let grad := gradient c (DArith.sub t1 t0)
            let y := grad.map fun gr => dragY (dragDt pi gr) alpha
            let z := c.map fun x => dragZ x alpha
            let x := c.map fun x => dragX x alpha
            let third : List (Pulse α) :=
              if op == "sx" then [⟨"sy" ++ ts, y⟩] else if op == "sy" then [⟨"sx" ++ ts, y.map DArith.neg⟩] else []
            .ok ⟨g, false, tl, [⟨op ++ ts, x⟩, ⟨"sz" ++ ts, z⟩] ++ third⟩
          | _, _, _ => .error .index
        else if op == "sx" then .ok ⟨g, false, tl, [⟨"sx" ++ ts, c⟩, ⟨"sy" ++ ts, c.map fun _ => zero⟩]⟩
        else if op == "sy" then .ok ⟨g, false, tl, [⟨"sx" ++ ts, c.map fun _ => zero⟩, ⟨"sy" ++ ts, c⟩]⟩
        else .error .shape
      | _, _ => .error .index

/-- `rzx_compiler(gate, args)` -/
def rzx (pi : α) (H : HW α) (n : Nat) (g : GateRec α) : Except Err (Instr α) :=
  match g.targets with
  | [q1, q2] =>
    match pyIdx? H.zx_coeff (rzxIdx (q1 : Int) (q2 : Int)) with
    | none => .error .index
    | some mx =>
      let (c, tl) := hannPulse pi n mx (rzxArea pi g.arg)
      let f := rzxRescale pi g.arg
      .ok ⟨g, false, tl.map (fun t => DArith.mul t f),
           [⟨"zx" ++ toString q1 ++ toString q2, c.map (fun x => DArith.mul x f)⟩]⟩
  | _ => .error .shape

def refOf (q1 q2 : Nat) : QRef → Nat
  | .q1 => q1
  | .q2 => q2

/-- the body of `cnot_compiler`: every gate of the generated sequence compiled in order -/
def cnotSteps (pi : α) (H : HW α) (drag : Bool) (n : Nat) (q1 q2 : Nat) :
    List (String × List QRef × α × Bool) → Except Err (List (Instr α))
  | [] => .ok []
  | (nm, refs, ang, viaMap) :: rest =>
    let sub : GateRec α := ⟨nm, refs.map (refOf q1 q2), [], ang⟩
    let r : Except Err (Instr α) :=
      if viaMap then
        match gateCompiler.lookup nm with
        | some (.rotation op par) => rotation pi H drag n sub op par
        | some .rzx => rzx pi H n sub
        | _ => .error .shape
      else rzx pi H n sub
    match r with
    | .error e => .error e
    | .ok i =>
      match cnotSteps pi H drag n q1 q2 rest with
      | .error e => .error e
      | .ok is => .ok (i :: is)

/-- `self.gate_compiler[gate.name](gate, self.args)` -/
def compileGate (pi : α) (H : HW α) (drag : Bool) (n : Nat) (g : GateRec α) : Except Err (Step α) :=
  match gateCompiler.lookup g.name with
  | none => .error .unsupported
  | some (.rotation op par) =>
    match rotation pi H drag n g op par with
    | .error e => .error e
    | .ok i => .ok ([i], none)
  | some .rzx =>
    match rzx pi H n g with
    | .error e => .error e
    | .ok i => .ok ([i], none)
  | some .cnot =>
    match g.controls.head?, g.targets.head? with
    | some q1, some q2 =>
      match cnotSteps pi H drag n q1 q2 (cnotSeq pi) with
      | .error e => .error e
      | .ok is => .ok (is, none)
    | _, _ => .error .index
  | some .phase => .ok ([], some g.arg)
  | some .noop => .ok ([], none)
  | some .idle => .ok ([⟨g, true, [g.arg], []⟩], none)

def compile (pi : α) (H : HW α) (drag : Bool) (n : Nat) (gs : List (GateRec α)) : Except Err (List (Instr α) × α) :=
  compileLoop dropsZeroDuration (compileGate pi H drag n) gs zero

/-- the channel labels of `SCQubitsModel(N)` -/
def labels (N : Nat) : List String :=
  (List.range N).map (fun m => "sx" ++ toString m) ++ (List.range N).map (fun m => "sy" ++ toString m)
    ++ (List.range N).map (fun m => "sz" ++ toString m)
    ++ (List.range (N - 1)).flatMap (fun m => ["zx" ++ toString m ++ toString (m + 1), "zx" ++ toString (m + 1) ++ toString m])

end SCQ

end QipVerif.DevModel
