/-!
# Model of `qutip_qip.compiler.scheduler` (properties C05 and C11)

Import-free, executable, kernel-evaluable (lists, `Nat`/`Int`, structural recursion).

What is modelled, function by function (`scheduler.py`, `instruction.py`):

* `Instruction.__init__`            → `Ins` (sorted targets / controls, `used`); `controls = []` stands for `None`
* `Scheduler.commutation_rules`     → `commRules` (verbatim, including the sort by name)
* `qubit_constraint`                → `share`
* `generate_dependency_graph`       → `depLoop` / `depEdges` (per-qubit `cycle_last` / `cycle_current`, `_add_dependency`)
* `reverse_graph`                   → `Edges.rev`
* `find_topological_order`          → `topoLoop` / `topo`; `_add_dependency_among_commuting_gates` → `greedy` + `conflicts`
* `compute_distance`                → `distStart` (twice, second time on the reversed graph / reversed cycle list)
* `_compare_priority` + stable sort → `cmpPrio`, `stableSort`
* `Scheduler.schedule`              → `pass1`, `pass2`, `gateCycles`, `cycleIndices`, `pulseStarts`

The only sources of non-determinism of the code are `random.shuffle` and the iteration
order of the successor `set`.  Both are *inputs* here: `topoLoop` takes an arbitrary
re-ordering oracle `O : round → available list → re-ordered list`; the executable
instance (`realO1`, `realO2`) replays recorded shuffles and applies the code's stable sort.
The theorems (`Props/C05.lean`, `Props/C11.lean`) are proved for *every* permutation-valued
oracle, which covers every shuffle outcome and every set iteration order.

Durations are `Int` numerators over one common power-of-two denominator chosen by the
harness (the code only adds, subtracts, compares and takes maxima of durations, all of
which commute with scaling by a positive constant).
-/
namespace QipVerif.Sched

/-! ## Instructions -/

structure Ins where
  name : String
  /-- sorted by `Instruction.__init__` -/
  targets : List Nat
  /-- sorted; `[]` = `None` (both are falsy in `commutation_rules`) -/
  controls : List Nat
  /-- duration numerator -/
  dur : Int
  /-- the name belongs to the module's set of gate families that commute with themselves
  (`_SELF_COMMUTING_GATES`); `true` for every name when the module has no such set.  The driver computes the
  flag from the set regenerated from the source tree (`Gen/SchedRule.lean`, `Gen.SchedRule.inSet`);
  `Lemmas/SchedRuleGen.lean` proves that with these flags `commRules` is the regenerated rule. -/
  sc : Bool
deriving Repr, DecidableEq

instance : Inhabited Ins := ⟨⟨"", [], [], 0, true⟩⟩

/-- `used_qubits = set(targets) | set(controls)` -/
def Ins.used (i : Ins) : List Nat := (i.targets ++ i.controls).eraseDups

/-- `used_qubits` of the two instructions intersect (`qubit_constraint` answers `False`) -/
def share (a b : Ins) : Bool := a.used.any (fun q => b.used.contains q)

/-- `Scheduler.commutation_rules` -/
def commRules (a b : Ins) : Bool :=
  if a.name != b.name then
    -- `sorted([i1, i2], key=name)`
    let x := if b.name < a.name then b else a
    let y := if b.name < a.name then a else b
    if x.name == "CNOT" && (y.name == "X" || y.name == "RX") then x.targets == y.targets
    else if x.name == "CNOT" && (y.name == "Z" || y.name == "RZ") then x.controls == y.targets
    else false
  -- `if instruction1.name not in _SELF_COMMUTING_GATES: return False` (when the module has the set)
  else if !(a.sc && b.sc) then false
  else if !a.controls.isEmpty && a.controls == b.controls then true
  else a.targets == b.targets

/-- the literal set `_SELF_COMMUTING_GATES` of `fixes/C05-1.patch` (historical; the set of the tree under test
is `Gen.SchedRule.selfCommuting`, regenerated on every check) -/
def patchNames : List String :=
  ["X", "Y", "Z", "RX", "RY", "RZ", "S", "T", "H", "SNOT", "SQRTNOT", "PHASEGATE", "IDLE",
   "CNOT", "CX", "CY", "CZ", "CSIGN", "CS", "CT", "CRX", "CRY", "CRZ", "CPHASE", "TOFFOLI",
   "SWAP", "ISWAP", "SQRTSWAP", "SQRTISWAP", "SWAPALPHA", "BERKELEY"]

def wPatch (s : String) : Bool := patchNames.contains s

def getIns (ns : List Ins) (i : Nat) : Ins := ns.getD i default

/-- `commuting(gate_index, dependent_ind, nodes)`: `commutation_rules`, or the constant
`False` lambda when `allow_permutation` is off. -/
def commIdx (allowPerm : Bool) (ns : List Ins) (i j : Nat) : Bool :=
  allowPerm && commRules (getIns ns i) (getIns ns j)

/-- `not apply_constraint(i, j, nodes)` with the default `qubit_constraint` -/
def shareIdx (ns : List Ins) (i j : Nat) : Bool := share (getIns ns i) (getIns ns j)

def durIdx (ns : List Ins) (i : Nat) : Int := (getIns ns i).dur

/-! ## Dependency graph -/

abbrev Edges := List (Nat × Nat)

/-- `j in nodes[i].successors` (equivalently `i in nodes[j].predecessors`) -/
def Edges.has (e : Edges) (i j : Nat) : Bool := e.any (fun p => p.1 == i && p.2 == j)

/-- `reverse_graph` -/
def Edges.rev (e : Edges) : Edges := e.map (fun p => (p.2, p.1))

/-- all pairs `last × cur` (`_add_dependency`) -/
def pairs (xs ys : List Nat) : Edges := xs.flatMap (fun i => ys.map (fun j => (i, j)))

/-- `qubits_cycle_last[q]`, `qubits_cycle_current[q]` -/
structure QS where
  last : List Nat
  cur : List Nat

abbrev QMap := Nat → QS

def QMap.set (m : QMap) (q : Nat) (v : QS) : QMap := fun q' => if q' = q then v else m q'

/-- body of `for qubit in instruction.used_qubits` -/
def depStepQ (comm : Nat → Nat → Bool) (idx : Nat) (me : QMap × Edges) (q : Nat) : QMap × Edges :=
  let s := me.1 q
  if s.cur.any (fun d => !(comm idx d)) then
    (me.1.set q ⟨s.cur, [idx]⟩, me.2 ++ pairs s.last s.cur)
  else
    (me.1.set q ⟨s.last, s.cur ++ [idx]⟩, me.2)

/-- body of `for gate_index, instruction in enumerate(self.nodes)` -/
def depStep (comm : Nat → Nat → Bool) (used : Nat → List Nat) (me : QMap × Edges) (idx : Nat) : QMap × Edges :=
  (used idx).foldl (depStepQ comm idx) me

def depLoop (comm : Nat → Nat → Bool) (used : Nat → List Nat) (n : Nat) : QMap × Edges :=
  (List.range n).foldl (depStep comm used) (fun _ => ⟨[], []⟩, [])

/-- the closing loop `for qubit in range(num_qubits): _add_dependency(last, current)` -/
def closeLoop (m : QMap) (numQ : Nat) (e : Edges) : Edges :=
  (List.range numQ).foldl (fun e q => e ++ pairs (m q).last (m q).cur) e

/-- `max(set().union(*used_qubits)) + 1` -/
def numQubits (ns : List Ins) : Nat := (ns.flatMap Ins.used).foldl max 0 + 1

/-- `generate_dependency_graph(commuting)`; the edge list may contain duplicates, only
membership (`Edges.has`) is ever used. -/
def depEdgesOf (comm : Nat → Nat → Bool) (used : Nat → List Nat) (n numQ : Nat) : Edges :=
  let me := depLoop comm used n
  closeLoop me.1 numQ me.2

def depEdges (allowPerm : Bool) (ns : List Ins) : Edges :=
  depEdgesOf (commIdx allowPerm ns) (fun i => (getIns ns i).used) ns.length (numQubits ns)

/-! ## List scheduling -/

/-- `nodes[j].predecessors`, ascending -/
def predsOf (n : Nat) (E : Nat → Nat → Bool) (j : Nat) : List Nat := (List.range n).filter (fun i => E i j)

/-- `nodes[i].successors` iterated in ascending order (the harness makes the code's `set`
iterate in this order; the theorems do not depend on it) -/
def succsOf (n : Nat) (E : Nat → Nat → Bool) (i : Nat) : List Nat := (List.range n).filter (fun j => E i j)

/-- one iteration of `for ind2 in available_gates` in `_add_dependency_among_commuting_gates` -/
def gstep (sh : Nat → Nat → Bool) (cyc : List Nat) (i2 : Nat) : List Nat :=
  if cyc.any (fun i1 => sh i2 i1) then cyc else cyc ++ [i2]

/-- the cycle built by `_add_dependency_among_commuting_gates` -/
def greedy (sh : Nat → Nat → Bool) (cyc : List Nat) : List Nat → List Nat
  | [] => cyc
  | i2 :: rest => greedy sh (gstep sh cyc i2) rest

/-- the conflict edges `ind1 → ind2` recorded on `self.nodes` by the same loop -/
def conflicts (sh : Nat → Nat → Bool) (cyc : List Nat) : List Nat → Edges
  | [] => []
  | i2 :: rest =>
    ((cyc.filter (fun i1 => sh i2 i1)).map (fun i1 => (i1, i2))) ++ conflicts sh (gstep sh cyc i2) rest

/-- "add new nodes to available_gates if they have no other predecessors": executed nodes
are removed from the predecessor sets one by one; a successor is appended at the moment
its last predecessor is removed.  Returns `(done, available)`. -/
def release (n : Nat) (E : Nat → Nat → Bool) : List Nat → List Nat → List Nat → List Nat × List Nat
  | [], done, avail => (done, avail)
  | node :: rest, done, avail =>
    let done' := node :: done
    let new := (succsOf n E node).filter (fun s => (predsOf n E s).all (fun p => done'.contains p))
    release n E rest done' (avail ++ new)

/-- `find_topological_order`.  `O r l` is the list `available_gates` after the optional
shuffle and the optional priority sort of round `r`.  Returns the cycles and the conflict
edges.  `fuel` = number of nodes suffices (every round schedules at least one node). -/
def topoLoop (n : Nat) (E sh : Nat → Nat → Bool) (constraint : Bool) (O : Nat → List Nat → List Nat) :
    Nat → Nat → List Nat → List Nat → List (List Nat) × Edges
  | 0, _, _, _ => ([], [])
  | fuel + 1, r, avail, done =>
    if avail.isEmpty then ([], []) else
    let av := O r avail
    let cycle := if constraint then greedy sh [] av else av
    let ce := if constraint then conflicts sh [] av else []
    -- `for node in current_cycle: available_gates.remove(node)` (the list has no duplicates)
    let rest := av.filter (fun i => !cycle.contains i)
    let st := release n E cycle done rest
    let res := topoLoop n E sh constraint O fuel (r + 1) st.2 st.1
    (cycle :: res.1, ce ++ res.2)

/-- `self.start`: nodes without predecessors, ascending -/
def startNodes (n : Nat) (E : Nat → Nat → Bool) : List Nat :=
  (List.range n).filter (fun i => (predsOf n E i).isEmpty)

def topo (n : Nat) (E sh : Nat → Nat → Bool) (constraint : Bool) (O : Nat → List Nat → List Nat) :
    List (List Nat) × Edges :=
  topoLoop n E sh constraint O n 0 (startNodes n E) []

/-! ## Longest-path distances -/

abbrev Dist := List (Nat × Int)

def Dist.get (d : Dist) (i : Nat) : Int := (d.lookup i).getD 0

/-- `max([d[p] for p in preds])`, and `0` for a node without predecessors
(`distance_to_start = duration`) -/
def maxOver (d : Dist) : List Nat → Int
  | [] => 0
  | p :: ps => ps.foldl (fun m x => max m (d.get x)) (d.get p)

def distStep (n : Nat) (E : Nat → Nat → Bool) (dur : Nat → Int) (d : Dist) (i : Nat) : Dist :=
  (i, maxOver d (predsOf n E i) + dur i) :: d

/-- `_compute_distance_to_start` following `order` -/
def distStart (n : Nat) (E : Nat → Nat → Bool) (dur : Nat → Int) (order : List Nat) : Dist :=
  order.foldl (distStep n E dur) []

/-! ## Priority and re-ordering of the available list -/

/-- `_compare_priority(a, b)` -/
def cmpPrio (dS dE : Nat → Int) (a b : Nat) : Int :=
  let x := dE b - dE a
  if x != 0 then x else dS a - dS b

def insertSorted (le : Nat → Nat → Bool) (x : Nat) : List Nat → List Nat
  | [] => [x]
  | y :: ys => if le y x then y :: insertSorted le x ys else x :: y :: ys

/-- Python's stable `list.sort` for a comparator that is a total preorder -/
def stableSort (le : Nat → Nat → Bool) (l : List Nat) : List Nat :=
  l.foldl (fun acc x => insertSorted le x acc) []

/-- a recorded `random.shuffle`: the new list is `[l[p] for p in π]`; anything that is not
a permutation of the positions leaves the list unchanged (no shuffle recorded). -/
def applyShuffle (π : List Nat) (l : List Nat) : List Nat :=
  if π.isPerm (List.range l.length) then π.map (fun k => l.getD k 0) else l

/-! ## `Scheduler.schedule` -/

structure Cfg where
  /-- `method == "ALAP"` -/
  alap : Bool
  allowPerm : Bool
  /-- outcomes of successive `shuffle` calls (empty = `random_shuffle=False`) -/
  shufs : List (List Nat)
  /-- the tree has the repaired `_add_dependency_among_commuting_gates` (parameter `executed`): an approved
  candidate also gets a conflict edge from every instruction of the previous cycles it shares a qubit with
  (the driver takes it from `Gen.SchedRule.conflictFix`, regenerated from the source with `ast`) -/
  fx : Bool := false

/-- the graph the two passes run on (`reverse_graph()` first for ALAP) -/
def passEdges (alap allowPerm : Bool) (ns : List Ins) : Edges :=
  if alap then (depEdges allowPerm ns).rev else depEdges allowPerm ns

/-- what the second pass needs from the first one -/
structure Pass1 where
  rounds : Nat
  dS : List Int
  dE : List Int

def realO1 (shufs : List (List Nat)) (r : Nat) (l : List Nat) : List Nat := applyShuffle (shufs.getD r []) l

/-- first pass (`priority=False, apply_constraint=None`) and `compute_distance` -/
def pass1 (cfg : Cfg) (ns : List Ins) : Pass1 :=
  let n := ns.length
  let e0 := passEdges cfg.alap cfg.allowPerm ns
  let cyc1 := (topo n e0.has (shareIdx ns) false (realO1 cfg.shufs)).1
  let dS := distStart n e0.has (durIdx ns) cyc1.flatten
  let dE := distStart n e0.rev.has (durIdx ns) cyc1.reverse.flatten
  ⟨cyc1.length, (List.range n).map dS.get, (List.range n).map dE.get⟩

/-- second-pass ordering: recorded shuffle, then the stable priority sort -/
def realO2 (shufs : List (List Nat)) (p : Pass1) (r : Nat) (l : List Nat) : List Nat :=
  stableSort (fun a b => decide (cmpPrio (fun i => p.dS.getD i 0) (fun i => p.dE.getD i 0) a b ≤ 0))
    (applyShuffle (shufs.getD (p.rounds + r) []) l)

/-- second pass (`priority=True`, qubit constraint) for an arbitrary ordering oracle -/
def pass2 (alap allowPerm : Bool) (ns : List Ins) (O2 : Nat → List Nat → List Nat) : List (List Nat) × Edges :=
  topo ns.length (passEdges alap allowPerm ns).has (shareIdx ns) true O2

/-- the cycles list returned with `return_cycles_list=True` (reversed for ALAP) -/
def cyclesGen (alap allowPerm : Bool) (ns : List Ins) (O2 : Nat → List Nat → List Nat) : List (List Nat) :=
  let c := (pass2 alap allowPerm ns O2).1
  if alap then c.reverse else c

/-- `gate_cycles_indices` -/
def cycleIndices (n : Nat) (cycles : List (List Nat)) : List Nat :=
  (List.range n).map (fun i => cycles.findIdx (fun c => c.contains i))

/-- the additional conflict edges of the repaired code: when a candidate is approved it gets an edge
from every instruction of the *previous* cycles with which it shares a qubit; as a set: all pairs
(earlier cycle, later cycle) that share a qubit -/
def crossEdges (sh : Nat → Nat → Bool) : List (List Nat) → Edges
  | [] => []
  | c :: cs =>
    (c.flatMap fun i1 => (cs.flatten.filter (fun i2 => sh i2 i1)).map fun i2 => (i1, i2)) ++ crossEdges sh cs

/-- final graph of the pulse schedule *in the original orientation* (dependency edges plus
the recorded conflict edges) and the order in which the returned distances are computed;
`fx`: the repaired recording of conflict edges -/
def finalEdges (alap allowPerm fx : Bool) (ns : List Ins) (O2 : Nat → List Nat → List Nat) : Edges :=
  let r := pass2 alap allowPerm ns O2
  let e2 := passEdges alap allowPerm ns ++ r.2 ++ (if fx then crossEdges (shareIdx ns) r.1 else [])
  if alap then e2.rev else e2

def finalOrder (alap allowPerm : Bool) (ns : List Ins) (O2 : Nat → List Nat → List Nat) : List Nat :=
  let c := (pass2 alap allowPerm ns O2).1
  if alap then c.reverse.flatten else c.flatten

/-- `instruction_start_time`: for ASAP `distance_to_start - duration`; for ALAP the final
`reverse_graph()` exchanges the two distances, so the value returned is the distance
computed on the re-reversed graph along the reversed cycle list. -/
def startsGen (alap allowPerm fx : Bool) (ns : List Ins) (O2 : Nat → List Nat → List Nat) : List Int :=
  let d := distStart ns.length (finalEdges alap allowPerm fx ns O2).has (durIdx ns) (finalOrder alap allowPerm ns O2)
  (List.range ns.length).map (fun i => d.get i - durIdx ns i)

/-! ### the executable instance -/

def O2of (cfg : Cfg) (ns : List Ins) : Nat → List Nat → List Nat := realO2 cfg.shufs (pass1 cfg ns)

def gateCycles (cfg : Cfg) (ns : List Ins) : List (List Nat) :=
  let p := pass1 cfg ns
  cyclesGen cfg.alap cfg.allowPerm ns (realO2 cfg.shufs p)

def pulseStarts (cfg : Cfg) (ns : List Ins) : List Int :=
  let p := pass1 cfg ns
  startsGen cfg.alap cfg.allowPerm cfg.fx ns (realO2 cfg.shufs p)

/-- number of `shuffle` calls one `schedule` consumes when `random_shuffle=True` -/
def shufflesUsed (cfg : Cfg) (ns : List Ins) : Nat :=
  let p := pass1 cfg ns
  p.rounds + (pass2 cfg.alap cfg.allowPerm ns (realO2 cfg.shufs p)).1.length

/-! ## User constraint functions (`Scheduler(constraint_functions=…)`)

`apply_constraint(ind2, ind1, nodes)` is the conjunction of the verdicts of the constraint functions; `sh i2 i1` below
stands for `not apply_constraint(i2, i1, nodes)` (the arguments in the order of the call).  The definitions above are the
instances `sh := shareIdx ns` (the default list `[qubit_constraint]`); the first pass does not consult the constraints. -/

def pass2W (sh : Nat → Nat → Bool) (alap allowPerm : Bool) (ns : List Ins) (O2 : Nat → List Nat → List Nat) :
    List (List Nat) × Edges :=
  topo ns.length (passEdges alap allowPerm ns).has sh true O2

def cyclesGenW (sh : Nat → Nat → Bool) (alap allowPerm : Bool) (ns : List Ins) (O2 : Nat → List Nat → List Nat) :
    List (List Nat) :=
  let c := (pass2W sh alap allowPerm ns O2).1
  if alap then c.reverse else c

def finalEdgesW (sh : Nat → Nat → Bool) (alap allowPerm fx : Bool) (ns : List Ins) (O2 : Nat → List Nat → List Nat) : Edges :=
  let r := pass2W sh alap allowPerm ns O2
  let e2 := passEdges alap allowPerm ns ++ r.2 ++ (if fx then crossEdges sh r.1 else [])
  if alap then e2.rev else e2

def finalOrderW (sh : Nat → Nat → Bool) (alap allowPerm : Bool) (ns : List Ins) (O2 : Nat → List Nat → List Nat) : List Nat :=
  let c := (pass2W sh alap allowPerm ns O2).1
  if alap then c.reverse.flatten else c.flatten

def startsGenW (sh : Nat → Nat → Bool) (alap allowPerm fx : Bool) (ns : List Ins) (O2 : Nat → List Nat → List Nat) : List Int :=
  let d := distStart ns.length (finalEdgesW sh alap allowPerm fx ns O2).has (durIdx ns) (finalOrderW sh alap allowPerm ns O2)
  (List.range ns.length).map (fun i => d.get i - durIdx ns i)

def gateCyclesW (sh : Nat → Nat → Bool) (cfg : Cfg) (ns : List Ins) : List (List Nat) :=
  cyclesGenW sh cfg.alap cfg.allowPerm ns (realO2 cfg.shufs (pass1 cfg ns))

def pulseStartsW (sh : Nat → Nat → Bool) (cfg : Cfg) (ns : List Ins) : List Int :=
  startsGenW sh cfg.alap cfg.allowPerm cfg.fx ns (realO2 cfg.shufs (pass1 cfg ns))

def shufflesUsedW (sh : Nat → Nat → Bool) (cfg : Cfg) (ns : List Ins) : Nat :=
  let p := pass1 cfg ns
  p.rounds + (pass2W sh cfg.alap cfg.allowPerm ns (realO2 cfg.shufs p)).1.length

/-- two instructions that a constraint forbids to run in parallel (`sh`, either order of the arguments) have
intersecting execution intervals -/
def overlapsW (sh : Nat → Nat → Bool) (ns : List Ins) (st : List Int) (i j : Nat) : Bool :=
  (sh i j || sh j i) && decide (st.getD i 0 < st.getD j 0 + durIdx ns j) && decide (st.getD j 0 < st.getD i 0 + durIdx ns i)

/-! ## Timetable predicates (C11) -/

/-- instructions `i`, `j` share a qubit and their execution intervals intersect -/
def overlaps (ns : List Ins) (st : List Int) (i j : Nat) : Bool :=
  shareIdx ns i j && decide (st.getD i 0 < st.getD j 0 + durIdx ns j) && decide (st.getD j 0 < st.getD i 0 + durIdx ns i)

/-- no two distinct qubit-sharing instructions overlap -/
def noOverlap (ns : List Ins) (st : List Int) : Bool :=
  (List.range ns.length).all fun i => (List.range ns.length).all fun j => i == j || !overlaps ns st i j

end QipVerif.Sched
