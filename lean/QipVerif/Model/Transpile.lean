import QipVerif.Model.Route
import QipVerif.Model.Decompose
import QipVerif.Model.DecomposeF
import QipVerif.Gen.DecompVariant
/-!
# Model of `ModelProcessor.transpile` (property C13)

Import-free (only other model files), executable.  `transpile` composes the two finished
models exactly as `device/modelprocessor.py:ModelProcessor.transpile` composes the code:

    [gates on more than two qubits are decomposed to CNOT + rotations]     (only with `pre`)
    try: qc = self.topology_map(qc)      -- `Route.toChain`   (C07)
    except NotImplementedError: pass
    if self.native_gates is not None:
        qc = qc.resolve_gates(basis=self.native_gates)   -- `Decomp.resolve`  (C03)

`pre = false` is the code as found at the pinned commit (the router never sees the two-qubit
gates a TOFFOLI/FREDKIN decomposes into, so they come out on non-neighbouring qubits);
`pre = true` is the code after `fixes/C13-1.patch` (`_decompose_multi_qubit_gates`).  Which
of the two the current source has is REGENERATED (`Gen.preDecompose`), as are the devices'
native gate lists and topologies (`Gen.deviceSpec`), see `Gen/DeviceTables.lean`.

The router works on its own gate type `Route.Gate`, whose `name`, `arg` carry opaque labels
for everything the router does not look into.  The conversion uses a symbol table of the
circuit being routed (`Ctx`): an unhandled gate name is the label `other k` with `k` its
position in the table, an angle is the label `k + 1` with `k` its position (`0` = no angle).
-/
namespace QipVerif.Transpile
open QipVerif

/-! ## conversion circuit IR ↔ router gates -/

/-- symbol table of the circuit being routed -/
structure Ctx where
  names : List GName
  angs : List Ang
deriving Repr

def ctxOf (gs : List Gate) : Ctx := ⟨gs.map (·.name), gs.map (·.arg)⟩

/-- position of the first occurrence (`l.length` if absent) -/
def pos {α : Type} [DecidableEq α] (a : α) : List α → Nat
  | [] => 0
  | b :: l => if b = a then 0 else pos a l + 1

def encName (cx : Ctx) : GName → Route.GName
  | .CNOT => .CNOT
  | .CSIGN => .CSIGN
  | .SWAP => .SWAP
  | .ISWAP => .ISWAP
  | .SQRTISWAP => .SQRTISWAP
  | .SQRTSWAP => .SQRTSWAP
  | .BERKELEY => .BERKELEY
  | .SWAPalpha => .SWAPalpha
  | n => .other (pos n cx.names)

def decName (cx : Ctx) : Route.GName → GName
  | .CNOT => .CNOT
  | .CSIGN => .CSIGN
  | .SWAP => .SWAP
  | .ISWAP => .ISWAP
  | .SQRTISWAP => .SQRTISWAP
  | .SQRTSWAP => .SQRTSWAP
  | .BERKELEY => .BERKELEY
  | .SWAPalpha => .SWAPalpha
  | .RZX => .RZX
  | .other k => cx.names.getD k (.other "?")
  | .meas _ => .other "MEASUREMENT"

/-- `0` is "no argument" (`arg_value=None`, the zero angle of the IR) -/
def encAng (cx : Ctx) (a : Ang) : Nat := if a = {} then 0 else pos a cx.angs + 1

def decAng (cx : Ctx) : Nat → Ang
  | 0 => {}
  | k + 1 => cx.angs.getD k {}

/-- CNOT / CSIGN carry no argument (`arg_value=None`); the router rebuilds them from name, controls
and targets alone, so their label is `0` whatever the IR gate carries -/
def toRoute (cx : Ctx) (g : Gate) : Route.Gate :=
  ⟨encName cx g.name, g.controls, g.targets,
    if g.name = .CNOT ∨ g.name = .CSIGN then 0 else encAng cx g.arg, 0⟩

def ofRoute (cx : Ctx) (r : Route.Gate) : Gate :=
  ⟨decName cx r.name, r.targets, r.controls, decAng cx r.arg⟩

/-! ## errors -/

inductive Err
  | route (e : Route.Err)
  | decomp (e : Decomp.Err)
deriving DecidableEq, Repr

/-! ## devices -/

inductive Device
  | linearSpinChain | circularSpinChain | scQubits | cavityQED
deriving DecidableEq, Repr

/-- what `transpile` reads off a processor: `self.native_gates` (`none` = Python `None`) and the
setup string its `topology_map` hands to `to_chain_structure` (`none`: no `topology_map`, the
base class raises `NotImplementedError`, which `transpile` catches) -/
structure DeviceSpec where
  native : Option (List GName)
  topo : Option Route.Setup
deriving Repr

/-! ## stages -/

/-- `topology_map(qc)` of a chain device: `to_chain_structure(qc, setup)` on the converted circuit -/
def routeStage (N : Nat) (setup : Route.Setup) (gs : List Gate) : Except Route.Err (List Gate) :=
  let cx := ctxOf gs
  match Route.toChain N setup (gs.map (toRoute cx)) with
  | .ok out => .ok (out.map (ofRoute cx))
  | .error e => .error e

/-- the basis `"CNOT"` that `_decompose_multi_qubit_gates` hands to `resolve_gates`, as `resolve_gates` of THIS tree
reads a string: `Gen.strExact` is regenerated from the source (`Gen/DecompVariant.lean`) — `false`: the string is
searched for substrings (a raw gate named `NOT` passes), `true` (`fixes/C03-3`): it is the one-element list -/
def cnotBasis : Decomp.BasisSpec := Decomp.normBasis Gen.strExact (.str .CNOT)

/-- one iteration of `_decompose_multi_qubit_gates` (after `fixes/C13-1.patch`) -/
def expandOne (T : Decomp.Tables) (g : Gate) : Except Decomp.Err (List Gate) :=
  if g.qubits.length > 2 then Decomp.resolve T true cnotBasis [g] else .ok [g]

/-- `_decompose_multi_qubit_gates`: the first failing gate raises -/
def preExpand (T : Decomp.Tables) : List Gate → Except Decomp.Err (List Gate)
  | [] => .ok []
  | g :: gs =>
    match expandOne T g with
    | .error e => .error e
    | .ok a =>
      match preExpand T gs with
      | .error e => .error e
      | .ok b => .ok (a ++ b)

/-- the `try … except NotImplementedError: pass` around `topology_map` -/
def topoStage (spec : DeviceSpec) (N : Nat) (gs : List Gate) : Except Err (List Gate) :=
  match spec.topo with
  | none => .ok gs
  | some setup =>
    match routeStage N setup gs with
    | .ok out => .ok out
    | .error .notImplemented => .ok gs
    | .error e => .error (.route e)

/-- `if self.native_gates is not None: qc = qc.resolve_gates(basis=self.native_gates)` -/
def nativeStage (T : Decomp.Tables) (spec : DeviceSpec) (gs : List Gate) : Except Err (List Gate) :=
  match spec.native with
  | none => .ok gs
  | some b =>
    match Decomp.resolve T true (.list b) gs with
    | .ok out => .ok out
    | .error e => .error (.decomp e)

/-- the pre-decomposition of `fixes/C13-1.patch` (only when there are native gates) -/
def preStage (T : Decomp.Tables) (pre : Bool) (spec : DeviceSpec) (gs : List Gate) : Except Err (List Gate) :=
  if pre && spec.native.isSome then
    match preExpand T gs with
    | .ok out => .ok out
    | .error e => .error (.decomp e)
  else .ok gs

/-- `ModelProcessor.transpile(qc).gates` for `qc.N = N`, `qc.gates = gs` -/
def transpileV (T : Decomp.Tables) (pre : Bool) (spec : DeviceSpec) (N : Nat) (gs : List Gate) :
    Except Err (List Gate) :=
  match preStage T pre spec gs with
  | .error e => .error e
  | .ok g0 =>
    match topoStage spec N g0 with
    | .error e => .error e
    | .ok g1 => nativeStage T spec g1

/-! ## the router that also routes RZX (`fixes/C13-3.patch`)

`SCQubits` lists RZX among its native gates; the router as found does not know the name, so an RZX on
distant qubits came out of `transpile` unrouted.  After `fixes/C13-3.patch` `to_chain_structure`
routes it (C07: `Route.Variant.rzFix`, the two targets keep their order).  `rz` says which router
the source has (REGENERATED: `Gen.routeRzx`); with `rz = false` everything below is the model above
(`routeStageR_false`), and for circuits without RZX the flag is irrelevant
(`Lemmas/TranspileRzx.lean`). -/

/-- the router's name of a gate: RZX is a name of its own for the router that routes it -/
def encNameR (rz : Bool) (cx : Ctx) (n : GName) : Route.GName :=
  if rz && n == .RZX then .RZX else encName cx n

def toRouteR (rz : Bool) (cx : Ctx) (g : Gate) : Route.Gate :=
  ⟨encNameR rz cx g.name, g.controls, g.targets,
    if g.name = .CNOT ∨ g.name = .CSIGN then 0 else encAng cx g.arg, 0⟩

def routeStageR (rz : Bool) (N : Nat) (setup : Route.Setup) (gs : List Gate) : Except Route.Err (List Gate) :=
  let cx := ctxOf gs
  match Route.toChainV (.rep false rz) N setup (gs.map (toRouteR rz cx)) with
  | .ok out => .ok (out.map (ofRoute cx))
  | .error e => .error e

def topoStageR (rz : Bool) (spec : DeviceSpec) (N : Nat) (gs : List Gate) : Except Err (List Gate) :=
  match spec.topo with
  | none => .ok gs
  | some setup =>
    match routeStageR rz N setup gs with
    | .ok out => .ok out
    | .error .notImplemented => .ok gs
    | .error e => .error (.route e)

/-- `ModelProcessor.transpile(qc).gates`, the router given by `rz` -/
def transpileVR (T : Decomp.Tables) (pre rz : Bool) (spec : DeviceSpec) (N : Nat) (gs : List Gate) :
    Except Err (List Gate) :=
  match preStage T pre spec gs with
  | .error e => .error e
  | .ok g0 =>
    match topoStageR rz spec N g0 with
    | .error e => .error e
    | .ok g1 => nativeStage T spec g1

/-! ## the register of the circuit against the register of the processor (`fixes/C13-2.patch`)

`transpile` is handed a circuit whose `qc.N` need not be the processor's `num_qubits`.  The code as
found routes with `qc.N` whatever the processor's size (a ring device then closes the ring between
the first and the last qubit *of the circuit*) and lets a circuit on too many qubits through.  After
`fixes/C13-2.patch` `transpile` refuses `qc.N > num_qubits` (`ValueError`), and the ring device routes a
circuit with `qc.N < num_qubits` on the open chain.  Both are REGENERATED from the source:
`guard` (does `transpile` begin with the size check) and `specSmall` (the device spec in force when
`qc.N < num_qubits`; equal to `spec` when `topology_map` does not look at the sizes). -/

inductive ErrD
  /-- `ValueError`: the circuit acts on more qubits than the processor has -/
  | size
  | inner (e : Err)
deriving DecidableEq, Repr

/-- `processor.transpile(qc).gates` for `processor.num_qubits = M`, `qc.N = N`, `qc.gates = gs` -/
def transpileD (T : Decomp.Tables) (pre guard : Bool) (spec specSmall : DeviceSpec) (M N : Nat)
    (gs : List Gate) : Except ErrD (List Gate) :=
  if guard && decide (M < N) then .error .size
  else
    match transpileV T pre (if N < M then specSmall else spec) N gs with
    | .ok out => .ok out
    | .error e => .error (.inner e)

/-- … with the router given by `rz` -/
def transpileDR (T : Decomp.Tables) (pre guard rz : Bool) (spec specSmall : DeviceSpec) (M N : Nat)
    (gs : List Gate) : Except ErrD (List Gate) :=
  if guard && decide (M < N) then .error .size
  else
    match transpileVR T pre rz (if N < M then specSmall else spec) N gs with
    | .ok out => .ok out
    | .error e => .error (.inner e)

/-! ## what the property asks of the result (decidable, also evaluated by the driver) -/

/-- the hardware couples `i` and `j` directly -/
def coupledB (topo : Option Route.Setup) (N i j : Nat) : Bool :=
  match topo with
  | none => true                                     -- through the cavity: any pair
  | some s =>
    j == i + 1 || i == j + 1 ||
      (s == .circular && ((i == 0 && j + 1 == N) || (j == 0 && i + 1 == N)))

/-- any two distinct qubits of the gate are coupled -/
def gateCoupledB (topo : Option Route.Setup) (N : Nat) (g : Gate) : Bool :=
  g.qubits.all fun p => g.qubits.all fun q => p == q || coupledB topo N p q

/-- shape of a library gate: (number of controls, number of targets) -/
def shapeOf : GName → Option (Nat × Nat)
  | .RX | .RY | .RZ | .PHASEGATE | .X | .Y | .Z | .S | .T | .SNOT | .SQRTNOT | .IDLE | .R | .QASMU => some (0, 1)
  | .CRX | .CRY | .CRZ | .CPHASE | .CNOT | .CSIGN | .CZ | .CY | .CS | .CT => some (1, 1)
  | .SWAP | .ISWAP | .SQRTSWAP | .SQRTISWAP | .BERKELEY | .SWAPalpha | .MS | .RZX => some (0, 2)
  | .FREDKIN => some (1, 2)
  | .TOFFOLI => some (2, 1)
  | .GLOBALPHASE => some (0, 0)
  | .other _ => none

/-- a library gate as the gate classes build it: the number of controls and targets of its name,
pairwise distinct qubits of the register -/
def shapedB (N : Nat) (g : Gate) : Bool :=
  shapeOf g.name == some (g.controls.length, g.targets.length) &&
    decide g.qubits.Nodup && g.qubits.all (· < N)

end QipVerif.Transpile
