/-! Complex floats — used ONLY by drivers to evaluate the generated gate functions numerically when the
translator is validated against the implementation.  No theorem mentions this file. -/
namespace QipVerif

structure CF where
  re : Float
  im : Float

namespace CF
def ofReal (x : Float) : CF := ⟨x, 0⟩
def ofRat (n : Int) (d : Nat) : CF := ⟨Float.ofInt n / Float.ofNat d, 0⟩
def I : CF := ⟨0, 1⟩
def pi : CF := ⟨3.141592653589793, 0⟩
instance : Add CF := ⟨fun a b => ⟨a.re + b.re, a.im + b.im⟩⟩
instance : Sub CF := ⟨fun a b => ⟨a.re - b.re, a.im - b.im⟩⟩
instance : Neg CF := ⟨fun a => ⟨-a.re, -a.im⟩⟩
instance : Mul CF := ⟨fun a b => ⟨a.re * b.re - a.im * b.im, a.re * b.im + a.im * b.re⟩⟩
instance : Div CF := ⟨fun a b =>
  let n := b.re * b.re + b.im * b.im
  ⟨(a.re * b.re + a.im * b.im) / n, (a.im * b.re - a.re * b.im) / n⟩⟩
def conj (z : CF) : CF := ⟨z.re, -z.im⟩
def exp (z : CF) : CF := let r := Float.exp z.re; ⟨r * Float.cos z.im, r * Float.sin z.im⟩
/-- cos / sin of a complex number (the code only passes real arguments) -/
def cos (z : CF) : CF := ⟨Float.cos z.re * Float.cosh z.im, -(Float.sin z.re * Float.sinh z.im)⟩
def sin (z : CF) : CF := ⟨Float.sin z.re * Float.cosh z.im, Float.cos z.re * Float.sinh z.im⟩
def smul (c : CF) (m : List (List CF)) : List (List CF) := m.map (·.map (c * ·))
def mmul (a b : List (List CF)) : List (List CF) :=
  let n := a.length
  a.map fun r => (List.range n).map fun j =>
    (List.range n).foldl (fun acc l => acc + (r.getD l ⟨0, 0⟩) * ((b.getD l []).getD j ⟨0, 0⟩)) ⟨0, 0⟩
def sigmax : List (List CF) := [[⟨0,0⟩, ⟨1,0⟩], [⟨1,0⟩, ⟨0,0⟩]]
def sigmay : List (List CF) := [[⟨0,0⟩, ⟨0,-1⟩], [⟨0,1⟩, ⟨0,0⟩]]
def sigmaz : List (List CF) := [[⟨1,0⟩, ⟨0,0⟩], [⟨0,0⟩, ⟨-1,0⟩]]
def ident2 : List (List CF) := [[⟨1,0⟩, ⟨0,0⟩], [⟨0,0⟩, ⟨1,0⟩]]
/-- `fock_dm(2, 0)`, `fock_dm(2, 1)` -/
def fock0 : List (List CF) := [[⟨1,0⟩, ⟨0,0⟩], [⟨0,0⟩, ⟨0,0⟩]]
def fock1 : List (List CF) := [[⟨0,0⟩, ⟨0,0⟩], [⟨0,0⟩, ⟨1,0⟩]]
def madd (a b : List (List CF)) : List (List CF) := List.zipWith (List.zipWith (· + ·)) a b
/-- `tensor(a, b)`: Kronecker product, first factor most significant -/
def kron2 (a b : List (List CF)) : List (List CF) :=
  a.flatMap fun ra => b.map fun rb => ra.flatMap fun x => rb.map fun y => x * y
end CF
end QipVerif
