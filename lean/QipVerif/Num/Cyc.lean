/-!
# Exact numbers: ℤ[ζ₁₆] (ζ = e^{iπ/8}) and dyadic-scaled matrices over it

Import-free and kernel-friendly (structure of eight `Int`s, `List` recursion, `Bool`
checkers): every fixed-angle gate of the library (H, S, T, √X, CNOT, Berkeley's cos π/8,
RZ(π/4) = diag(ζ⁻¹, ζ), global phases that are multiples of π/8 …) has entries in
ℤ[ζ₁₆][1/2].  A matrix carries one dyadic exponent `e`: its value is `m / 2^e`.
-/
namespace QipVerif

structure Cyc where
  c0 : Int
  c1 : Int
  c2 : Int
  c3 : Int
  c4 : Int
  c5 : Int
  c6 : Int
  c7 : Int
deriving DecidableEq, Repr

namespace Cyc
def zero : Cyc := ⟨0,0,0,0,0,0,0,0⟩
def one : Cyc := ⟨1,0,0,0,0,0,0,0⟩
def ofInt (n : Int) : Cyc := ⟨n,0,0,0,0,0,0,0⟩
def add (a b : Cyc) : Cyc :=
  ⟨a.c0+b.c0,a.c1+b.c1,a.c2+b.c2,a.c3+b.c3,a.c4+b.c4,a.c5+b.c5,a.c6+b.c6,a.c7+b.c7⟩
def neg (a : Cyc) : Cyc := ⟨-a.c0,-a.c1,-a.c2,-a.c3,-a.c4,-a.c5,-a.c6,-a.c7⟩
def sub (a b : Cyc) : Cyc := add a (neg b)
def smul (k : Int) (a : Cyc) : Cyc := ⟨k*a.c0,k*a.c1,k*a.c2,k*a.c3,k*a.c4,k*a.c5,k*a.c6,k*a.c7⟩
/-- multiplication by ζ (ζ⁸ = −1) -/
def mulZeta (a : Cyc) : Cyc := ⟨-a.c7,a.c0,a.c1,a.c2,a.c3,a.c4,a.c5,a.c6⟩
def mul (a b : Cyc) : Cyc :=
  let b1 := mulZeta b
  let b2 := mulZeta b1
  let b3 := mulZeta b2
  let b4 := mulZeta b3
  let b5 := mulZeta b4
  let b6 := mulZeta b5
  let b7 := mulZeta b6
  add (add (add (smul a.c0 b) (smul a.c1 b1)) (add (smul a.c2 b2) (smul a.c3 b3)))
      (add (add (smul a.c4 b4) (smul a.c5 b5)) (add (smul a.c6 b6) (smul a.c7 b7)))
/-- ζ^n for n ≥ 0 -/
def zetaPow : Nat → Cyc
  | 0 => one
  | n+1 => mulZeta (zetaPow n)
/-- ζ^n for any integer n (ζ¹⁶ = 1) -/
def zpow (n : Int) : Cyc := zetaPow (n % 16).toNat
/-- complex conjugate: ζ ↦ ζ⁻¹ = −ζ⁷ -/
def conj (a : Cyc) : Cyc := ⟨a.c0,-a.c7,-a.c6,-a.c5,-a.c4,-a.c3,-a.c2,-a.c1⟩
def I : Cyc := zetaPow 4
/-- √2 = ζ² + ζ⁻² = ζ² − ζ⁶ -/
def sqrt2 : Cyc := ⟨0,0,1,0,0,0,-1,0⟩
/-- 2·cos(nπ/8) = ζⁿ + ζ⁻ⁿ -/
def cos2 (n : Int) : Cyc := add (zpow n) (zpow (-n))
/-- 2·sin(nπ/8) = −i(ζⁿ − ζ⁻ⁿ) -/
def sin2 (n : Int) : Cyc := neg (mul I (sub (zpow n) (zpow (-n))))

instance : Add Cyc := ⟨add⟩
instance : Mul Cyc := ⟨mul⟩
instance : Neg Cyc := ⟨neg⟩
instance : Sub Cyc := ⟨sub⟩
instance : OfNat Cyc 0 := ⟨zero⟩
instance : OfNat Cyc 1 := ⟨one⟩
instance : Inhabited Cyc := ⟨zero⟩
end Cyc

/-! ## Matrices as lists of rows -/
abbrev CMat := List (List Cyc)

namespace CMat
def dot : List Cyc → List Cyc → Cyc
  | a :: as, b :: bs => Cyc.add (Cyc.mul a b) (dot as bs)
  | _, _ => Cyc.zero
def col (B : CMat) (j : Nat) : List Cyc := B.map fun row => row.getD j Cyc.zero
def transpose (n : Nat) (B : CMat) : CMat := (List.range n).map (col B)
def mul (n : Nat) (A B : CMat) : CMat :=
  let Bt := transpose n B
  A.map fun r => Bt.map fun c => dot r c
def ident (n : Nat) : CMat :=
  (List.range n).map fun i => (List.range n).map fun j => if i = j then Cyc.one else Cyc.zero
def smul (c : Cyc) (A : CMat) : CMat := A.map (·.map (Cyc.mul c))
def dagger (n : Nat) (A : CMat) : CMat := (transpose n A).map (·.map Cyc.conj)
def get (A : CMat) (i j : Nat) : Cyc := (A.getD i []).getD j Cyc.zero
end CMat

/-- dyadic-scaled matrix of size `n × n`: value `m / 2^e` -/
structure DMat where
  e : Nat
  m : CMat
deriving DecidableEq, Repr

namespace DMat
def mul (n : Nat) (A B : DMat) : DMat := ⟨A.e + B.e, CMat.mul n A.m B.m⟩
def ident (n : Nat) : DMat := ⟨0, CMat.ident n⟩
def smul (c : Cyc) (A : DMat) : DMat := ⟨A.e, CMat.smul c A.m⟩
def dagger (n : Nat) (A : DMat) : DMat := ⟨A.e, CMat.dagger n A.m⟩
/-- equality of values: A.m · 2^B.e = B.m · 2^A.e -/
def eqv (A B : DMat) : Bool :=
  decide (CMat.smul (Cyc.ofInt (2 ^ B.e)) A.m = CMat.smul (Cyc.ofInt (2 ^ A.e)) B.m)
end DMat

end QipVerif
