import QipVerif.Gen.Rule_basis_CSIGN_CNOT
import QipVerif.Gen.Rule_basis_ISWAP_CNOT
import QipVerif.Gen.Rule_basis_ISWAP_SWAP
import QipVerif.Gen.Rule_basis_SQRTISWAP_CNOT
import QipVerif.Gen.Rule_basis_SQRTSWAP_CNOT
import QipVerif.Gen.Rule_gate_CSIGN
import QipVerif.Gen.Rule_gate_FREDKIN
import QipVerif.Gen.Rule_gate_ISWAP
import QipVerif.Gen.Rule_gate_SNOT
import QipVerif.Gen.Rule_gate_SQRTNOT
import QipVerif.Gen.Rule_gate_SWAP
import QipVerif.Gen.Rule_gate_TOFFOLI
/-! GENERATED: imports every rule-soundness module. -/
