import QipVerif.Lemmas.SimBorn
import QipVerif.Lemmas.SimWrites
import QipVerif.Lemmas.SimDm
import QipVerif.Lemmas.SimIdeal
import QipVerif.Lemmas.SimIdealEmbed
import QipVerif.Model.SimEdit
import QipVerif.Model.SimDefault
/-!
# C02 — measurement branches obey the Born rule and drive classical control

Property theorems only (proofs call `Lemmas/Sim*.lean`).  The model (`Model/Sim.lean`) is the control state
machine of `CircuitSimulator` over an abstract quantum backend `B`; `branch B c bits₀ ψ r` is the specification:
the operations of the circuit folded over `(bits, state | None, probability)` with record `r`, a gate acting iff
its condition holds.  `Fresh cfg cb` = the run works on a list of its own (`cfg.copyCbits`, i.e. fix C02-1, or no
list passed); `c.Valid` = indices in range, control values non-negative.
-/
namespace QipVerif.C02
open QipVerif.Sim QipVerif.Heap
open Matrix

/-- an empty world whose heap holds the caller's lists -/
def world0 (lists : List (List Int)) : World Exact.QS Exact.Prob :=
  { heap := ⟨lists⟩, sim := none, rng := [], log := [], comp := defaultCompiler,
    proc := { pulses := none, phase := 0 } }

def cfgCurrent : Cfg :=
  { copyCbits := false, checkCcv := false, resetPhase := false, pureGetter := false, dmRefuse := false,
    copyRev := false, copyChain := false, noiseLocal := false }
def cfgFixed : Cfg :=
  { copyCbits := true, checkCcv := true, resetPhase := true, pureGetter := true, dmRefuse := true,
    copyRev := true, copyChain := true, noiseLocal := true }

/-- the exception of a call, if any -/
def errOf {α : Type} : Except Err α → Option Err
  | .error e => some e
  | .ok _ => none

/-! ## Classical control -/

/-- **cond_iff.** A gate with classical controls `cs` (any number `k`, any order) and value `v < 2^k` acts iff
`Σ bits[csᵢ]·2^(k-1-i) = v` (first listed bit most significant) — for all `k`, all in-range controls, all bit values
in `{0,1}`. -/
theorem cond_iff (cs : List Nat) (v : Nat) (bits : List Int)
    (hv : v < 2 ^ cs.length) (hr : ∀ c ∈ cs, c < bits.length)
    (hb : ∀ c ∈ cs, bits.getD c 0 = 0 ∨ bits.getD c 0 = 1) :
    checkCCV (cs.map Int.ofNat) (v : Int) (some bits)
      = .ok (decide (valMSB (cs.map fun c => (bits.getD c 0).toNat) = v)) :=
  checkCCV_spec cs v bits hv hr hb

-- non-vacuity: controls [2,0] (bit 2 most significant), value 2 = binary 10, bits c2=1 c0=0: acts; c2=0 c0=1: does not
example : checkCCV [2, 0] 2 (some [0, 1, 1]) = .ok true ∧ checkCCV [2, 0] 2 (some [1, 1, 0]) = .ok false := by decide

theorem valMSB_replicate_one (k : Nat) : valMSB (List.replicate k 1) = 2 ^ k - 1 := by
  induction k with
  | zero => rfl
  | succ n ih =>
    rw [List.replicate_succ, valMSB_cons, ih, List.length_replicate]
    have : 1 ≤ 2 ^ n := Nat.one_le_two_pow
    rw [Nat.pow_succ]; omega

/-- **cond_default_iff.** A gate with `k` classical controls (any `k`, any order) whose `classical_control_value` was
left at its default acts iff EVERY listed bit is 1: the default `2^k − 1` is the all-ones pattern for every `k` (not
only `k ≤ 2`). -/
theorem cond_default_iff (cs : List Nat) (bits : List Int)
    (hr : ∀ c ∈ cs, c < bits.length) (hb : ∀ c ∈ cs, bits.getD c 0 = 0 ∨ bits.getD c 0 = 1) :
    checkCCV (cs.map Int.ofNat) (defaultCcv cs.length) (some bits)
      = .ok (decide (∀ c ∈ cs, bits.getD c 0 = 1)) := by
  have h1 : 1 ≤ 2 ^ cs.length := Nat.one_le_two_pow
  have hd : defaultCcv cs.length = ((2 ^ cs.length - 1 : Nat) : Int) := by
    unfold defaultCcv; rw [Nat.cast_sub h1]; simp
  rw [hd, cond_iff cs (2 ^ cs.length - 1) bits (by omega) hr hb]
  congr 1
  apply decide_eq_decide.mpr
  constructor
  · intro hv c hc
    have hlen : (cs.map fun c => (bits.getD c 0).toNat).length = (List.replicate cs.length 1).length := by simp
    have hle : ∀ d ∈ (cs.map fun c => (bits.getD c 0).toNat), d ≤ 1 := by
      intro d hd'
      obtain ⟨x, hx, rfl⟩ := List.mem_map.mp hd'
      rcases hb x hx with h | h <;> rw [h] <;> decide
    have heq := valMSB_inj _ _ hlen hle (fun d hd' => by rw [List.eq_of_mem_replicate hd'])
      (by rw [hv, valMSB_replicate_one])
    have hm : (bits.getD c 0).toNat ∈ (cs.map fun c => (bits.getD c 0).toNat) := List.mem_map.mpr ⟨c, hc, rfl⟩
    rw [heq] at hm
    have := List.eq_of_mem_replicate hm
    rcases hb c hc with h | h
    · rw [h] at this; cases this
    · exact h
  · intro hall
    have : (cs.map fun c => (bits.getD c 0).toNat) = List.replicate cs.length 1 := by
      apply List.eq_replicate_iff.mpr
      refine ⟨by simp, ?_⟩
      intro d hd'
      obtain ⟨x, hx, rfl⟩ := List.mem_map.mp hd'
      rw [hall x hx]; rfl
    rw [this, valMSB_replicate_one]

-- non-vacuity: three controls with the default value: acts on 111 only (not on 101 = 2·3 − 1)
example : defaultCcv 3 = 7 ∧ checkCCV [0, 1, 2] (defaultCcv 3) (some [1, 1, 1]) = .ok true ∧
    checkCCV [0, 1, 2] (defaultCcv 3) (some [1, 0, 1]) = .ok false := by decide

/-- the value of a digit list is `Σ dᵢ·2^(k-1-i)` -/
theorem valMSB_eq (b : Nat) (bs : List Nat) : valMSB (b :: bs) = b * 2 ^ bs.length + valMSB bs := valMSB_cons b bs

/-- **Counter-example (condition value out of range).** `X` conditioned on bit 0 with value 2 acts when the bit is
1, although no value of one bit equals 2.  (Fix C02-2 makes `Gate.__init__` refuse such a gate:
`Circuit.constructible` with `cfg.checkCcv`.) -/
theorem C02_counterexample_ccv_out_of_range :
    checkCCV [0] 2 (some [1]) = .ok true ∧ (∀ b : Nat, b ≤ 1 → valMSB [b] ≠ 2) ∧
    (Circuit.constructible cfgFixed { nq := 1, ncb := 1, ops := [.gate ⟨0, [0], some [0], 2⟩] } = false) := by
  refine ⟨by decide, ?_, by decide⟩
  intro b hb; unfold valMSB; simp; omega

/-! ## Born rule -/

/-- **born_split.** `‖P₀ψ‖² + ‖P₁ψ‖² = ‖ψ‖²` for the projectors on any qubit `t` of any `N`-qubit register,
any `ψ : (Fin N → Fin 2) → ℂ`. -/
theorem born_split {N : ℕ} (t : Fin N) (ψ : Vec N) :
    normSqV (projV t 0 ψ) + normSqV (projV t 1 ψ) = normSqV ψ :=
  QipVerif.Sim.born_split t ψ

-- non-vacuity: the uniform vector on two qubits is non-zero and splits on qubit 1
example : ∃ ψ : Vec 2, normSqV ψ ≠ 0 ∧ normSqV (projV 1 0 ψ) + normSqV (projV 1 1 ψ) = normSqV ψ :=
  ⟨fun _ => 1, by simp [normSqV], QipVerif.Sim.born_split 1 _⟩

/-- **probs_sum_one.** For every circuit, initial bits and state: the probabilities of all `2^m` records sum to one,
and so do those of the surviving (non-pruned) records — the list `run_statistics` returns.  `BornOk B` is the only
analytic input: a measurement splits the weight (`p₀+p₁ = 1`, which `born_split` gives for the ideal backend) and a
pruned outcome is reported with probability 0. -/
theorem probs_sum_one {Q P : Type} [Semiring P] (B : Backend Q P) (hB : BornOk B) (c : Circuit)
    (bits0 : Option (List Int)) (st : Q) :
    (((records c.numMeas).map (branchEntry B c bits0 st)).map (·.2.1)).sum = 1 ∧
    ((((records c.numMeas).map (branchEntry B c bits0 st)).filter (fun e => e.1.isSome)).map (·.2.1)).sum = 1 :=
  branch_probs_sum_one B hB c bits0 st

/-- the ideal backend on `ℂ`-vectors (conditional Born probabilities `‖P_oψ‖²/‖ψ‖²`, any maps of non-zero vectors
as gates) meets the hypothesis of `probs_sum_one`, by `born_split` -/
theorem born_backend_ok (N : ℕ) (gate : ℕ → List ℕ → NzVec N → NzVec N) (dephase : ℕ → NzVec N → NzVec N) :
    BornOk (bornBackend N gate dephase) :=
  bornBackend_ok N gate dephase

/-! ## Branches, prescribed and unconstrained runs, `run_statistics` -/

/-- **postselect_eq_branch.** `run(state, cbits, measure_results = r)` on a well-formed circuit returns the state
and probability of the branch of `r` (state `None` if the branch is pruned), and the list it reports holds that
branch's bits.  The heap is only extended by that one list. -/
theorem postselect_eq_branch {Q P : Type} [One P] [Mul P] (B : Backend Q P) (cfg : Cfg) (c : Circuit) (hc : c.Valid)
    (w : World Q P) (st : Q) (cb : Option Ref) (hf : Fresh cfg cb) (r : List Int) (hr : IsRecord c r) :
    let b := branch B c (initBits c (cb.map w.heap.get)) st r
    ∃ w' res, run B cfg .sv c w st cb (some r) = (w', .ok res) ∧
      res.states = [b.st] ∧ res.probs = [b.prob] ∧
      w'.heap.cells = w.heap.cells ++ b.bits.toList ∧
      (∀ s, w'.sim = some s → s.cbits.map w'.heap.get = b.bits) := by
  intro b
  rw [run_fresh B cfg .sv c w st cb (some r) hf]
  obtain ⟨hres, hbits⟩ := coreRun_eq_branch B cfg c hc (initBits c (cb.map w.heap.get)) (initBits_ok c _) st r hr
    (some r) w.rng (Or.inl rfl)
  dsimp only
  generalize coreRun B cfg .sv c (initBits c (cb.map w.heap.get)) st (some r) w.rng = ro at hres hbits ⊢
  obtain ⟨cbf, hmk⟩ : ∃ cbf, mkResult ro (ro.bits.map (fun _ => w.heap.size)) =
      .ok { states := [b.st], probs := [b.prob], cbits := cbf } := by
    unfold mkResult; rw [hres]; exact ⟨_, rfl⟩
  rw [hmk]
  refine ⟨_, _, rfl, rfl, rfl, by simp only [hbits]; rfl, ?_⟩
  intro s hs
  cases hs
  simp only
  rw [← hbits]
  cases hb : ro.bits with
  | none => rfl
  | some l => simp [Heap.get, Heap.size, List.getD_eq_getElem?_getD]

/-- a pruned prescribed record is reported with probability zero -/
theorem postselect_pruned_prob_zero {Q P : Type} [Semiring P] (B : Backend Q P) (hB : BornOk B) (c : Circuit)
    (bits0 : Option (List Int)) (st : Q) (r : List Int) (h : (branch B c bits0 st r).st = none) :
    (branch B c bits0 st r).prob = 0 :=
  brRun_dead_prob B hB c.ops _ (by intro h'; cases h') h

/-- **unconstrained_run_mem_branches.** A run without `measure_results` whose random draws are the record `r` (any
record whose branch survives, i.e. any that `np.random.choice` can produce) returns exactly the branch of `r`, which
is one of the entries of `run_statistics`. -/
theorem unconstrained_run_mem_branches {Q P : Type} [One P] [Mul P] (B : Backend Q P) (cfg : Cfg) (c : Circuit)
    (hc : c.Valid) (w : World Q P) (st : Q) (cb : Option Ref) (hf : Fresh cfg cb) (r tail : List Int)
    (hr : r ∈ records c.numMeas) (hrng : w.rng = r ++ tail)
    (halive : (branch B c (initBits c (cb.map w.heap.get)) st r).st.isSome) :
    let b := branch B c (initBits c (cb.map w.heap.get)) st r
    (∃ w' res, run B cfg .sv c w st cb none = (w', .ok res) ∧ res.states = [b.st] ∧ res.probs = [b.prob] ∧
      (∀ s, w'.sim = some s → s.cbits.map w'.heap.get = b.bits)) ∧
    (b.st, b.prob, b.bits) ∈
      ((records c.numMeas).map (branchEntry B c (initBits c (cb.map w.heap.get)) st)).filter (fun e => e.1.isSome) := by
  intro b
  constructor
  · rw [run_fresh B cfg .sv c w st cb none hf]
    obtain ⟨hres, hbits⟩ := coreRun_eq_branch B cfg c hc (initBits c (cb.map w.heap.get)) (initBits_ok c _) st r
      (records_isRecord c r hr) none w.rng (Or.inr ⟨rfl, tail, hrng⟩)
    dsimp only
    generalize coreRun B cfg .sv c (initBits c (cb.map w.heap.get)) st none w.rng = ro at hres hbits ⊢
    obtain ⟨cbf, hmk⟩ : ∃ cbf, mkResult ro (ro.bits.map (fun _ => w.heap.size)) =
        .ok { states := [b.st], probs := [b.prob], cbits := cbf } := by
      unfold mkResult; rw [hres]; exact ⟨_, rfl⟩
    rw [hmk]
    refine ⟨_, _, rfl, rfl, rfl, ?_⟩
    intro s hs
    cases hs
    simp only
    rw [← hbits]
    cases hb : ro.bits with
    | none => rfl
    | some l => simp [Heap.get, Heap.size, List.getD_eq_getElem?_getD]
  · rw [List.mem_filter]
    exact ⟨List.mem_map.mpr ⟨r, hr, rfl⟩, halive⟩

/-- **stat_eq_branches.** `run_statistics` on a well-formed circuit: no exception; `new` lists one entry per record
(in the order of `itertools.product`), whose state, probability and — read through the final heap — bits are those of
the record's branch; the result keeps the entries with a state; each record has a list of its own (references
pairwise different, all allocated by this call); the caller's cells are unchanged. -/
theorem stat_eq_branches {Q P : Type} [One P] [Mul P] (B : Backend Q P) (cfg : Cfg) (c : Circuit) (hc : c.Valid)
    (w : World Q P) (st : Q) (cb : Option Ref) (hf : Fresh cfg cb) (hcb : CbOk w cb) :
    ∃ (w' : World Q P) (new : List (Option Q × P × Option Ref)) (extra : List (List Int)),
      runStatistics B cfg .sv c w st cb =
        (w', .ok { states := (new.filter (fun x => x.1.isSome)).map (·.1),
                   probs := (new.filter (fun x => x.1.isSome)).map (·.2.1),
                   cbits := some ((new.filter (fun x => x.1.isSome)).map (·.2.2)) }) ∧
      w'.heap.cells = w.heap.cells ++ extra ∧
      new.map (derefEntry w'.heap) =
        (records c.numMeas).map (branchEntry B c (initBits c (cb.map w.heap.get)) st) ∧
      (∀ e ∈ new, ∀ r : Nat, e.2.2 = some r → w.heap.size ≤ r ∧ r < w'.heap.size) ∧
      (new.filterMap (·.2.2)).Nodup := by
  obtain ⟨w', new, extra, h1, h2, h3, h4, h5, _, _⟩ := runStatistics_fresh B cfg c hc st cb hf w hcb
  exact ⟨w', new, extra, h1, h2, h3, h4, h5⟩

/-- **stat_eq_branches_current.** The simulator reads the gate objects of its circuit when it EXECUTES them (contract
of `Model/SimEdit.lean`: `step` takes the operation's fields — targets, controls, `classical_controls`,
`classical_control_value` — as they are at that time; nothing is precomputed at construction of the gate or of the
simulator).  Hence after ANY history of calls interleaved with in-place edits of the circuit (a condition assigned or
re-assigned on a gate object after `add_gate`, a gate replaced, …), `run_statistics` returns the branches of the circuit
AS IT IS NOW: the conclusion of `stat_eq_branches` for the current circuit `ch`, whatever the simulator did before and
whatever the gates' fields were earlier. -/
theorem stat_eq_branches_current {Q P : Type} [One P] [Mul P] (B : Backend Q P) (cfg : Cfg) (phases : List Int)
    (w0 : World Q P) (c0 : Circuit) (evs : List (HEv Q)) (st : Q) (cb : Option Ref) (hf : Fresh cfg cb)
    (hc : (execHEvs B cfg .sv phases (w0, c0) evs).2.Valid)
    (hcb : CbOk (execHEvs B cfg .sv phases (w0, c0) evs).1 cb) :
    let wh := (execHEvs B cfg .sv phases (w0, c0) evs).1
    let ch := (execHEvs B cfg .sv phases (w0, c0) evs).2
    ∃ (w' : World Q P) (new : List (Option Q × P × Option Ref)) (extra : List (List Int)),
      runStatistics B cfg .sv ch wh st cb =
        (w', .ok { states := (new.filter (fun x => x.1.isSome)).map (·.1),
                   probs := (new.filter (fun x => x.1.isSome)).map (·.2.1),
                   cbits := some ((new.filter (fun x => x.1.isSome)).map (·.2.2)) }) ∧
      w'.heap.cells = wh.heap.cells ++ extra ∧
      new.map (derefEntry w'.heap) =
        (records ch.numMeas).map (branchEntry B ch (initBits ch (cb.map wh.heap.get)) st) :=
  let ⟨w', new, extra, h1, h2, h3, _, _⟩ :=
    stat_eq_branches B cfg (execHEvs B cfg .sv phases (w0, c0) evs).2 hc (execHEvs B cfg .sv phases (w0, c0) evs).1 st cb hf hcb
  ⟨w', new, extra, h1, h2, h3⟩

/-- **cbits_reported.** The bits of a surviving record are the record's writes applied in program order to the
initial bits: every measurement with a `classical_store` overwrites that bit with its outcome, so the last write
to a bit wins; gates never write. -/
theorem cbits_reported {Q P : Type} [One P] [Mul P] (B : Backend Q P) (c : Circuit) (bits0 : Option (List Int)) (st : Q)
    (r : List Int) (hr : IsRecord c r) (halive : (branch B c bits0 st r).st.isSome) :
    (branch B c bits0 st r).bits = applyWrites c.ops r bits0 :=
  brRun_bits B c.ops _ (by rw [← numMeas_eq]; exact hr.1) halive

-- non-vacuity: two measurements into the same bit, record [0,1]: the second outcome is reported
example : applyWrites [.meas 0 (some 0), .gate ⟨0, [0], none, 0⟩, .meas 0 (some 0)] [0, 1] (some [7, 7]) = some [1, 7] := by
  decide

/-- **A conditioned gate acts in exactly the branches whose bits equal its condition**: in the branch semantics
the gate's action is decided by `firesB`, which for an in-range condition is the integer comparison of `cond_iff`. -/
theorem fires_iff (g : Gate) (cs : List Nat) (v : Nat) (bits : List Int) (hcc : g.cc = some (cs.map Int.ofNat))
    (hccv : g.ccv = v) (hv : v < 2 ^ cs.length) (hr : ∀ c ∈ cs, c < bits.length)
    (hb : ∀ c ∈ cs, bits.getD c 0 = 0 ∨ bits.getD c 0 = 1) :
    firesB g (some bits) = decide (valMSB (cs.map fun c => (bits.getD c 0).toNat) = v) := by
  unfold firesB fires
  rw [hcc, hccv]
  simp only
  rw [checkCCV_spec cs v bits hv hr hb]

/-! ## Born rule on `ℂ`-vectors: the branch of a record is the normalised projector chain -/

/-- **branch_prob.** Ideal backend `idealBackend N tol U` on `N` qubits: gates act by matrices `U code qubits` that
preserve the norm (unitaries, e.g. `Tg.embed` of a unitary — `unitary_preserves_norm`), a measurement has the Born
probability `‖P_o φ‖²` of the normalised state `φ`, is pruned (`None`, probability `0`) when that is `≤ tol`
(`= atol²`), and otherwise collapses to `P_o φ/‖P_o φ‖` as `measurement_statistics` does.  For every circuit, initial
bits, normalised initial vector `ψ` and record `r`, under the threshold hypothesis `NoTiny` (at no measurement along
the record does the conditional probability lie in `(0, tol]`): with `ψ_r` the UNNORMALISED vector obtained by applying
to `ψ`, in program order, every gate whose condition holds on the current bits and the projector of the recorded
outcome at every measurement (`specRun`),

* the accumulated probability of the branch is `‖ψ_r‖²`;
* the branch is pruned iff `ψ_r = 0`;
* otherwise the reported state is `ψ_r/‖ψ_r‖` and the reported bits are those of `ψ_r`'s run;
* "the condition holds" is, for an in-range condition, the integer comparison of `cond_iff`
  (first listed bit most significant) — the same `firesB` decides the gates of `ψ_r`. -/
theorem branch_prob {N : ℕ} (tol : ℝ) (htol : 0 ≤ tol) (U : ℕ → List ℕ → Matrix (Basis N) (Basis N) ℂ)
    (hU : ∀ code qs ψ, normSqV ((U code qs).mulVec ψ) = normSqV ψ) (c : Circuit) (bits0 : Option (List Int))
    (ψ : Vec N) (hψ : normSqV ψ = 1) (r : List Int) (hr : ∀ i ∈ r, i = 0 ∨ i = 1)
    (hnt : NoTiny tol U ⟨bits0, ψ, r⟩ c.ops) :
    (branch (idealBackend N tol U) c bits0 ψ r).prob = normSqV (specRun U ⟨bits0, ψ, r⟩ c.ops).v ∧
    ((branch (idealBackend N tol U) c bits0 ψ r).st = none ↔ (specRun U ⟨bits0, ψ, r⟩ c.ops).v = 0) ∧
    (∀ φ, (branch (idealBackend N tol U) c bits0 ψ r).st = some φ →
      φ = scaleV (Real.sqrt (normSqV (specRun U ⟨bits0, ψ, r⟩ c.ops).v))⁻¹ (specRun U ⟨bits0, ψ, r⟩ c.ops).v ∧
      (branch (idealBackend N tol U) c bits0 ψ r).bits = (specRun U ⟨bits0, ψ, r⟩ c.ops).bits) ∧
    (∀ (g : Gate) (cs : List Nat) (v : Nat) (bits : List Int), g.cc = some (cs.map Int.ofNat) → g.ccv = v →
      v < 2 ^ cs.length → (∀ x ∈ cs, x < bits.length) → (∀ x ∈ cs, bits.getD x 0 = 0 ∨ bits.getD x 0 = 1) →
      firesB g (some bits) = decide (valMSB (cs.map fun x => (bits.getD x 0).toNat) = v)) := by
  have h0 : BInv (N := N) ⟨bits0, some ψ, 1, r⟩ ⟨bits0, ψ, r⟩ := by
    refine ⟨hψ.symm, Or.inl ⟨ψ, rfl, by rw [hψ]; exact one_pos, ?_, rfl, rfl⟩⟩
    funext x; simp [scaleV, hψ]
  have h := binv_run tol htol U hU c.ops _ _ h0 hr hnt
  obtain ⟨hp, hcase⟩ := h
  refine ⟨hp, ?_, ?_, fun g cs v bits h1 h2 h3 h4 h5 => fires_iff g cs v bits h1 h2 h3 h4 h5⟩
  · constructor
    · intro hn
      rcases hcase with ⟨φ, hst, _⟩ | ⟨_, hv⟩
      · unfold branch at hn; rw [hst] at hn; cases hn
      · exact hv
    · intro hv
      rcases hcase with ⟨φ, hst, hpos, _⟩ | ⟨hst, _⟩
      · rw [hv, normSqV_zero] at hpos; exact absurd hpos (lt_irrefl 0)
      · exact hst
  · intro φ hφ
    rcases hcase with ⟨φ', hst, _, hφ', hbits, _⟩ | ⟨hst, _⟩
    · unfold branch at hφ
      rw [hst] at hφ
      cases hφ
      exact ⟨hφ', hbits⟩
    · unfold branch at hφ; rw [hst] at hφ; cases hφ

/-- a unitary matrix preserves the norm — the hypothesis `hU` of `branch_prob` for unitary gates -/
theorem unitary_preserves_norm {N : ℕ} (M : Matrix (Basis N) (Basis N) ℂ) (h : Mᴴ * M = 1) (ψ : Vec N) :
    normSqV (M.mulVec ψ) = normSqV ψ :=
  unitary_isometry M h ψ

/-- gates given as C08's placement `Tg.embed` of a unitary on `k` qubits (any injective qubit list, any register
size) preserve the norm: `branch_prob` and `probs_sum_one_born` apply to every circuit of such gates -/
theorem embed_unitary_preserves_norm {k N : ℕ} (t : QipVerif.Tg k N) (U : Matrix (QipVerif.St k) (QipVerif.St k) ℂ)
    (h : Uᴴ * U = 1) (ψ : Vec N) :
    normSqV ((t.embed U : Matrix (Basis N) (Basis N) ℂ).mulVec ψ) = normSqV ψ :=
  embed_preserves_norm t U h ψ

/-- **probs_sum_one_born.** For the ideal backend the probabilities of all `2^m` records of a circuit (measurement
targets inside the register) sum to one, and so do those of the surviving records — from `born_split` and unitarity
alone, no splitting hypothesis on the backend; the threshold hypothesis is `NoTiny` for every record. -/
theorem probs_sum_one_born {N : ℕ} (tol : ℝ) (htol : 0 ≤ tol) (U : ℕ → List ℕ → Matrix (Basis N) (Basis N) ℂ)
    (hU : ∀ code qs ψ, normSqV ((U code qs).mulVec ψ) = normSqV ψ) (c : Circuit)
    (ht : ∀ t store, Op.meas t store ∈ c.ops → t < N) (bits0 : Option (List Int)) (ψ : Vec N) (hψ : normSqV ψ = 1)
    (hnt : ∀ r ∈ records c.numMeas, NoTiny tol U ⟨bits0, ψ, r⟩ c.ops) :
    (((records c.numMeas).map (branchEntry (idealBackend N tol U) c bits0 ψ)).map (·.2.1)).sum = 1 ∧
    ((((records c.numMeas).map (branchEntry (idealBackend N tol U) c bits0 ψ)).filter
        (fun e => e.1.isSome)).map (·.2.1)).sum = 1 := by
  have hall : (((records c.numMeas).map (branchEntry (idealBackend N tol U) c bits0 ψ)).map (·.2.1)).sum = 1 := by
    have hs := spec_norms_sum U hU c.ops ⟨bits0, ψ, []⟩ ht
    rw [hψ, ← numMeas_eq] at hs
    rw [← hs, List.map_map]
    congr 1
    apply List.map_congr_left
    intro r hr
    have hb := (records_isRecord c r hr).2
    exact (branch_prob tol htol U hU c bits0 ψ hψ r hb (hnt r hr)).1
  refine ⟨hall, ?_⟩
  rw [sum_filter_of_zero, hall]
  intro e he hdead
  obtain ⟨r, hr, rfl⟩ := List.mem_map.mp he
  have hb := (records_isRecord c r hr).2
  obtain ⟨hp, hz, _⟩ := branch_prob tol htol U hU c bits0 ψ hψ r hb (hnt r hr)
  simp only [branchEntry] at hdead ⊢
  have hnone : (branch (idealBackend N tol U) c bits0 ψ r).st = none := by
    cases hs : (branch (idealBackend N tol U) c bits0 ψ r).st with
    | none => rfl
    | some q => simp [hs] at hdead
  rw [hp, hz.mp hnone, normSqV_zero]

/-! ## Density-matrix mode -/

/-- **dm_eq_mixture_partial.** (Partial: circuits WITHOUT feed-forward — no gate is conditioned on a bit that a
measurement writes.)  In any space `V` of operators linked to the two backends by `DmLink` (gates and projectors act
linearly, Born rule `p_o·|φ_o⟩⟨φ_o| = P_o|ψ⟩⟨ψ|P_o`, dephasing `= P₀·P₀ + P₁·P₁`), the density-matrix run of a
well-formed circuit from `|ψ⟩⟨ψ|` returns, without exception and with probability 1,
`Σ_r p_r · |φ_r⟩⟨φ_r|` over the records' branches of the state-vector semantics.  With feed-forward this is false
for the code: `C02_counterexample_dm_feedforward`. -/
theorem dm_eq_mixture_partial {Q V P : Type} [Semiring P] [AddCommMonoid V] [Module P V]
    (Bs : Backend Q P) (Bd : Backend V P) (dm : Q → V) (L : DmLink Bs Bd dm) (cfg : Cfg) (c : Circuit)
    (hc : c.Valid) (reads : Int → Prop) (hff : NoFeedForward c.ops reads) (w : World V P) (q0 : Q)
    (cb : Option Ref) (hf : Fresh cfg cb) (mr : Option (List Int)) :
    ∃ w' res, run Bd cfg .dm c w (dm q0) cb mr = (w', .ok res) ∧ res.probs = [1] ∧
      res.states = [some (((records c.numMeas).map (fun r =>
        (branchEntry Bs c (initBits c (cb.map w.heap.get)) q0 r).2.1 •
          dmOpt dm (branchEntry Bs c (initBits c (cb.map w.heap.get)) q0 r).1)).sum)] := by
  rw [run_fresh Bd cfg .dm c w (dm q0) cb mr hf]
  have hres := coreRun_dm_eq_mixture Bs Bd dm L cfg c hc reads hff (initBits c (cb.map w.heap.get))
    (initBits_ok c _) q0 mr w.rng
  dsimp only
  generalize coreRun Bd cfg .dm c (initBits c (cb.map w.heap.get)) (dm q0) mr w.rng = ro at hres ⊢
  obtain ⟨cbf, hmk⟩ : ∃ cbf, mkResult ro (ro.bits.map (fun _ => w.heap.size)) =
      .ok { states := [some (((records c.numMeas).map (fun r =>
              (branchEntry Bs c (initBits c (cb.map w.heap.get)) q0 r).2.1 •
                dmOpt dm (branchEntry Bs c (initBits c (cb.map w.heap.get)) q0 r).1)).sum)],
            probs := [1], cbits := cbf } := by
    unfold mkResult; rw [hres]; exact ⟨_, rfl⟩
  rw [hmk]
  exact ⟨_, _, rfl, rfl, rfl⟩

/-- **dm_mixture_or_refuse.** Stated for EVERY variant `cfg` of the code, in particular for the tree as it is
(`cfg.dmRefuse = false`).  (1) For every well-formed circuit in which no gate is conditioned on a bit written by an
EARLIER measurement (`FF [] c.ops`, decidable from the circuit; weaker than the hypothesis of
`dm_eq_mixture_partial`), the density-matrix run returns the probability-weighted mixture of the branches with
probability 1 — unconditionally.  (2) ONLY under the explicit hypothesis `cfg.dmRefuse = true` — the proposed and NOT
applied patch fixes/C02-3, kept as a proposal — the remaining circuits are refused with `NotImplementedError`; for
the tree as it is nothing is claimed about them here: they are the known finding (`C02_counterexample_dm_feedforward`
shows the wrong result). -/
theorem dm_mixture_or_refuse {Q V P : Type} [Semiring P] [AddCommMonoid V] [Module P V]
    (Bs : Backend Q P) (Bd : Backend V P) (dm : Q → V) (L : DmLink Bs Bd dm) (cfg : Cfg) (c : Circuit)
    (hc : c.Valid) (w : World V P) (q0 : Q) (cb : Option Ref) (hf : Fresh cfg cb) (mr : Option (List Int)) :
    (FF [] c.ops →
      ∃ w' res, run Bd cfg .dm c w (dm q0) cb mr = (w', .ok res) ∧ res.probs = [1] ∧
        res.states = [some (((records c.numMeas).map (fun r =>
          (branchEntry Bs c (initBits c (cb.map w.heap.get)) q0 r).2.1 •
            dmOpt dm (branchEntry Bs c (initBits c (cb.map w.heap.get)) q0 r).1)).sum)]) ∧
    (¬ FF [] c.ops → cfg.dmRefuse = true → (run Bd cfg .dm c w (dm q0) cb mr).2 = .error .notimpl) := by
  constructor
  · intro hff
    rw [run_fresh Bd cfg .dm c w (dm q0) cb mr hf]
    have hres := coreRun_dm_eq_mixture_ff Bs Bd dm L cfg c hc hff (initBits c (cb.map w.heap.get))
      (initBits_ok c _) q0 mr w.rng
    dsimp only
    generalize coreRun Bd cfg .dm c (initBits c (cb.map w.heap.get)) (dm q0) mr w.rng = ro at hres ⊢
    obtain ⟨cbf, hmk⟩ : ∃ cbf, mkResult ro (ro.bits.map (fun _ => w.heap.size)) =
        .ok { states := [some (((records c.numMeas).map (fun r =>
                (branchEntry Bs c (initBits c (cb.map w.heap.get)) q0 r).2.1 •
                  dmOpt dm (branchEntry Bs c (initBits c (cb.map w.heap.get)) q0 r).1)).sum)],
              probs := [1], cbits := cbf } := by
      unfold mkResult; rw [hres]; exact ⟨_, rfl⟩
    rw [hmk]
    exact ⟨_, _, rfl, rfl, rfl⟩
  · intro hff hd
    rw [run_fresh Bd cfg .dm c w (dm q0) cb mr hf]
    have hres := coreRun_dm_refuses Bd cfg hd c hc hff (initBits c (cb.map w.heap.get)) (initBits_ok c _) (dm q0) mr
      w.rng
    dsimp only
    unfold mkResult
    rw [hres]

-- non-vacuity: `M 0→c0; X if c1` has no feed-forward in the position-sensitive sense, `M 0→c0; X if c0` has
example : FF [] [.meas 0 (some 0), .gate ⟨0, [1], some [1], 1⟩] ∧ ¬ FF [] [.meas 0 (some 0), .gate ⟨0, [1], some [0], 1⟩] := by
  constructor
  · refine ⟨?_, trivial⟩
    intro cs hcs x hx
    cases hcs
    simp only [List.mem_cons, List.mem_nil_iff, or_false] at hx
    subst hx; decide
  · intro h
    exact h.1 [0] rfl 0 (by simp) (by simp)

-- non-vacuity of the hypothesis: a circuit measuring into bit 0 and conditioning on bit 1 has no feed-forward
example : NoFeedForward [.meas 0 (some 0), .gate ⟨0, [1], some [1], 1⟩] (fun x => x = 1) := by
  constructor
  · intro g cs hg hcc x hx
    simp only [List.mem_cons, List.mem_nil_iff, or_false] at hg
    rcases hg with hg | hg
    · cases hg
    · cases hg; cases hcc
      simp only [List.mem_cons, List.mem_nil_iff, or_false] at hx
      subst hx; exact ⟨rfl, by decide⟩
  · intro t s hm
    simp only [List.mem_cons, List.mem_nil_iff, or_false] at hm
    rcases hm with hm | hm
    · cases hm; exact ⟨by decide, by decide⟩
    · cases hm

/-! ## Counter-examples on the unrepaired code (exact backend of the driver, decided by the kernel) -/

/-- `SNOT 0; measure 0 → c0` -/
def circHM : Circuit := { nq := 1, ncb := 1, ops := [.gate ⟨4, [0], none, 0⟩, .meas 0 (some 0)] }
def ket0 : Exact.QS := { n := 1, k := 0, vecs := [[1, 0]] }

/-- **Counter-example (aliasing, unrepaired code).** `run_statistics(psi, cbits=[0])` on `SNOT; measure → c0`:
the caller's list ends as `[1]` and both records report the same list object; with the repaired `initialize` the
caller's list is untouched and the records have different lists holding `[0]` and `[1]`. -/
theorem C02_counterexample_cbits_alias :
    (runStatistics Exact.backend cfgCurrent .sv circHM (world0 [[0]]) ket0 (some 0)).1.heap.get 0 = [1] ∧
    (runStatistics Exact.backend cfgCurrent .sv circHM (world0 [[0]]) ket0 (some 0)).2.toOption.map (·.cbits)
      = some (some [some 0, some 0]) ∧
    (runStatistics Exact.backend cfgFixed .sv circHM (world0 [[0]]) ket0 (some 0)).1.heap.cells = [[0], [0], [1]] ∧
    (runStatistics Exact.backend cfgFixed .sv circHM (world0 [[0]]) ket0 (some 0)).2.toOption.map (·.cbits)
      = some (some [some 1, some 2]) := by
  decide +kernel

/-- `SNOT 0; measure 0 → c0; X 1 if c0 = 1` on two qubits -/
def circFF : Circuit :=
  { nq := 2, ncb := 1, ops := [.gate ⟨4, [0], none, 0⟩, .meas 0 (some 0), .gate ⟨0, [1], some [0], 1⟩] }
def ket00 : Exact.QS := { n := 2, k := 0, vecs := [[1, 0, 0, 0]] }

/-- **Counter-example (density-matrix mode ignores feed-forward).** For `SNOT 0; measure 0 → c0; X 1 if c0`, the
branches are `|00⟩` and `|11⟩` (each with probability 1/2), but the density-matrix run — whose measurement never
writes classical bits — ends in the ensemble `{|00⟩, |10⟩}`: the conditioned `X` is skipped in both components. -/
theorem C02_counterexample_dm_feedforward :
    ((runStatistics Exact.backend cfgFixed .sv circFF (world0 []) ket00 none).2.toOption.map (·.states))
      = some [some ⟨2, 1, [[1, 0, 0, 0]]⟩, some ⟨2, 1, [[0, 0, 0, 1]]⟩] ∧
    ((run Exact.backend { cfgFixed with dmRefuse := false } .dm circFF (world0 []) ket00 none none).2.toOption.map
        (·.states)) = some [some ⟨2, 1, [[1, 0, 0, 0], [0, 0, 1, 0]]⟩] ∧
    -- with fix C02-3 the same run is refused instead
    errOf (run Exact.backend cfgFixed .dm circFF (world0 []) ket00 none none).2 = some Err.notimpl := by
  decide +kernel

end QipVerif.C02
