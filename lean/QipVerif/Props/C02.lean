import QipVerif.Model.Sim
/-!
# C02 — measurement branches obey the Born rule and drive classical control

(first version: the concrete counter-examples of the unrepaired code; the general theorems follow)
-/
namespace QipVerif.C02
open QipVerif.Sim QipVerif.Heap

/-- an empty world whose heap holds the caller's lists -/
def world0 (lists : List (List Int)) : World Exact.QS Exact.Prob :=
  { heap := ⟨lists⟩, sim := none, rng := [], log := [], comp := defaultCompiler,
    proc := { pulses := none, phase := 0 } }

def cfgCurrent : Cfg := { copyCbits := false, checkCcv := false, resetPhase := false, pureGetter := false }
def cfgFixed : Cfg := { copyCbits := true, checkCcv := true, resetPhase := true, pureGetter := true }

/-- `SNOT 0; measure 0 → c0` -/
def circHM : Circuit := { nq := 1, ncb := 1, ops := [.gate ⟨4, [0], none, 0⟩, .meas 0 (some 0)] }
def ket0 : Exact.QS := { n := 1, k := 0, vecs := [[1, 0]] }

/-- **Counter-example (condition value out of range).** `X` conditioned on bit 0 with value 2 fires when
the bit is 1, although no value of one bit equals 2. -/
theorem C02_counterexample_ccv_out_of_range :
    checkCCV [0] 2 (some [1]) = .ok true ∧ ∀ b : Int, (b = 0 ∨ b = 1) → b ≠ 2 := by
  refine ⟨by decide, ?_⟩
  intro b hb; omega

/-- **Counter-example (aliasing, unrepaired code).** `run_statistics(psi, cbits=[0])` on `SNOT; measure → c0`:
the caller's list ends as `[1]` and both records report the same list object. -/
theorem C02_counterexample_cbits_alias :
    (runStatistics Exact.backend cfgCurrent .sv circHM (world0 [[0]]) ket0 (some 0)).1.heap.get 0 = [1] ∧
    (runStatistics Exact.backend cfgCurrent .sv circHM (world0 [[0]]) ket0 (some 0)).2.toOption.map (·.cbits)
      = some (some [some 0, some 0]) := by
  decide +kernel

end QipVerif.C02
