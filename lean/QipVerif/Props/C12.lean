import QipVerif.Lemmas.ConcatTop
import QipVerif.Lemmas.ConcatCont
import QipVerif.Lemmas.ConcatPoints
import QipVerif.Lemmas.ConcatCompile
import QipVerif.Lemmas.ConcatGap
import QipVerif.Lemmas.ConcatAllGaps
import QipVerif.Lemmas.ConcatSrcCompile
import QipVerif.Gen.ConcatSrc
import QipVerif.Lemmas.PulseStore
/-!
# C12 — compiled control pulses are exactly the scheduled instruction waveforms

Property theorems only.  Three layers, newest (headline) last in the file:

1. **The code before the repairs** (`Concat.concatenate byTol τ`, `compiledChannel`: first-pulse test and idle-gap test relative
   to `step_size * 1e-6`): theorems under the explicit scale hypothesis `Sep`, refuted without it by `scale_counterexample`,
   `gap_counterexample`, `idle_only_counterexample`.
2. **The repaired idle-gap test with gaps `0` or above the tolerance** (`concatenateG`, `ValidG`): `gap_repaired_concatenate`,
   `closed_channel_is_schedule` — the whole statement from `Chain` alone.
3. **The code as the working tree has it, on every schedule** (section at the end): the model `concatenateS Gen.concatSrc` is
   driven by the description of the source that `py/props/c12.py` regenerates with `ast` (`Gen/ConcatSrc.lean`: tolerance
   constants, comparison operators, operands, `np.linspace`/`np.arange` end points, slices, reference of `time_tol`);
   `source_shape`, `source_constants`, `source_is_model` tie it to the fixed-shape model; `compiled_source_all_schedules`,
   `closed_channel_every_schedule`, `discrete_channel_outside_small_gaps` hold for every channel list, any gap sizes, any
   relative magnitudes, start times carrying the scheduler's rounding (`ChainR`); `tolerance_counterexample` and
   `maxstart_rounding_counterexample` show that the exception set and the reference of the tolerance are what they must be.

Hypotheses, all explicit:
* `Chain 0 instrs` — the channel's instructions `(start, wave)` are sorted by start, do not overlap, start
  at or after 0, and every wave is well formed (`WaveOK`: positive duration; sampled pulses start at 0,
  increase strictly, have ≥ 1 step and `n-1` (discrete) or `n` (continuous) coefficients);
* `ChainR thr 0 instrs` — the same up to a rounding `thr` of the start times (see the last section);
* `Sep byTol τ true 0 instrs` — (layer 1 only) the **scale hypothesis**: every idle gap is `0` or `> step·τ`, and
  (shipped test only) no later instruction is processed while less than `step·τ` of time is covered.

Specification objects: `Concat.specAt instrs t` (the scheduled function: the instruction's waveform inside
its window, 0 elsewhere), `Grid.stepAt g c t` (the step function a grid/coefficient pair denotes), `PointExplained`
(point-level meaning for channels of any composition), `SmallGap thr` (times inside an idle gap of length `≤ thr`).
-/
namespace QipVerif.C12
open QipVerif.Concat
open QipVerif.Grid (stepAt)

/-- **`_concatenate_pulses` channel by channel.** For every list of channels satisfying the hypotheses the
whole function succeeds, and its output is `compiledChannel` of each channel with one common final time
(≥ every channel's end), one common positive `min_step_size` and one padding mode. -/
theorem concatenate_channels (byTol : Bool) (τ : Rat) (hτ : 0 < τ) (chans : List (List (Rat × Wave)))
    (hne : chans ≠ []) (hch : ∀ ch ∈ chans, ch ≠ [] ∧ Chain 0 ch ∧ Sep byTol τ true 0 ch) :
    ∃ (pm : Mode) (final ms : Rat) (outs : List (List Rat × List Rat)),
      0 < ms ∧ (∀ ch ∈ chans, endOf 0 ch ≤ final) ∧
      concatenate byTol τ chans = .ok outs ∧
      mapMExcept (compiledChannel byTol τ pm final ms) chans = .ok outs :=
  Concat.concatenate_channels byTol τ hτ chans hne
    (fun ch hc => ⟨(hch ch hc).1, valid_of_chain_sep (hch ch hc).2.1 (hch ch hc).2.2⟩)

/-- **Repaired empty handling (fixes/C12-2.patch) changes nothing on valid input**: for channels meeting the hypotheses the
repaired `_concatenate_pulses` (`concatenateZ`) returns exactly what the shipped one returns, every channel present — so
every theorem below holds for it as well. -/
theorem repaired_concatenate_agrees (byTol : Bool) (τ : Rat) (hτ : 0 < τ) (chans : List (List (Rat × Wave)))
    (hne : chans ≠ []) (hch : ∀ ch ∈ chans, ch ≠ [] ∧ Chain 0 ch ∧ Sep byTol τ true 0 ch) :
    ∃ outs, concatenate byTol τ chans = .ok outs ∧ concatenateZ byTol τ chans = .ok (outs.map some) := by
  obtain ⟨_, _, _, outs, _, _, h1, h2⟩ := Concat.concatenateZ_channels byTol τ hτ chans hne
    (fun ch hc => ⟨(hch ch hc).1, valid_of_chain_sep (hch ch hc).2.1 (hch ch hc).2.2⟩)
  exact ⟨outs, h1, h2⟩

/-- **A gate list without any pulse** (only IDLE gates: no control channel at all).  The shipped `_concatenate_pulses`
raises (`np.max([])`, model `Err.empty`) — a counter-example to "for every gate list"; the repaired one returns the
empty result, and a channel that received no instruction is returned as `None` instead of raising. -/
theorem idle_only_counterexample (byTol : Bool) (τ : Rat) :
    concatenate byTol τ [] = .error .empty ∧ concatenateZ byTol τ [] = .ok [] ∧
    concatenate byTol τ [[]] = .error .index ∧ concatenateZ byTol τ [[]] = .ok [none] := by
  refine ⟨concatenate_nil byTol τ, concatenateZ_nil byTol τ, ?_, ?_⟩
  · simp [concatenate, mapMExcept, chanLoop]
  · simp [concatenateZ, mapMExcept, chanLoop, procs, minStep]

/-- **`_schedule` without scheduler**: the instruction order is kept and every instruction starts when the previous one
ends (`0, d₀, d₀+d₁, …`). -/
theorem schedule_unscheduled (instrs : List Instr) :
    schedule instrs none = .ok (instrs, cumStarts 0 instrs) ∧ (cumStarts 0 instrs).length = instrs.length ∧
    ∀ k (h1 : k + 1 < (cumStarts 0 instrs).length) (h2 : k < instrs.length),
      (cumStarts 0 instrs)[k + 1] = (cumStarts 0 instrs)[k]'(by omega) + instrs[k].duration :=
  ⟨rfl, cumStarts_length 0 instrs, fun k h1 h2 => cumStarts_succ 0 instrs k h1 h2⟩

/-- **`_schedule` with a scheduler** (`starts` = what the scheduler returned, `perm` = what `np.argsort` returned, any
sorting permutation): the start times come out sorted and the (instruction, start time) pairs are a permutation of the
scheduler's — no instruction is lost, duplicated or given another instruction's start time. -/
theorem schedule_scheduled (instrs : List Instr) (starts : List Rat) (perm : List Nat) (is : List Instr) (st : List Rat)
    (h : schedule instrs (some (starts, perm)) = .ok (is, st)) :
    st.Pairwise (· ≤ ·) ∧ (is.zip st).Perm (instrs.zip starts) :=
  schedule_sorted_perm instrs starts perm is st h

/-- **`compile` end to end** (after the gate-by-gate compilation): schedule, group by pulse label, concatenate.  The
channel labelled `l` is compiled from exactly the pulses labelled `l` (`chanOf`), in scheduled order, each with the start
time of its instruction; labels are distinct and appear in order of first use; if every such channel meets `Chain` and
`Sep`, `compile` succeeds and returns `_concatenate_pulses` of those channels (to which all theorems below apply). -/
theorem compile_channels (byTol : Bool) (τ : Rat) (hτ : 0 < τ) (instrs : List Instr) (sch : Option (List Rat × List Nat))
    (is : List Instr) (starts : List Rat) (groups : List (Nat × List (Rat × Wave)))
    (hne : instrs ≠ []) (hs : schedule instrs sch = .ok (is, starts))
    (hg : groupPulses (is.zip starts) [] = some groups) (hgn : groups ≠ [])
    (hch : ∀ g ∈ groups, Chain 0 g.2 ∧ Sep byTol τ true 0 g.2) :
    (groups.map (·.1)).Nodup ∧ (∀ g ∈ groups, g.2 = chanOf g.1 (is.zip starts)) ∧
    ∃ outs, concatenate byTol τ (groups.map (·.2)) = .ok outs ∧
      compile byTol τ instrs sch = some (.ok (some ((groups.map (·.1)).zip outs))) := by
  obtain ⟨g1, g2, g3⟩ := groupPulses_spec (is.zip starts) [] groups hg
  have hnd := g2 (by simp)
  have hnonempty := g3 (by simp)
  refine ⟨hnd, ?_, ?_⟩
  · intro g hgm
    rw [← chanLookup_of_mem hnd hgm, g1 g.1]; simp [chanLookup]
  · obtain ⟨_, _, _, outs, _, _, hc, _⟩ := Concat.concatenate_channels byTol τ hτ (groups.map (·.2)) (by simpa using hgn)
      (by
        intro ch hc
        obtain ⟨g, hgm, rfl⟩ := List.mem_map.mp hc
        exact ⟨hnonempty g hgm, valid_of_chain_sep (hch g hgm).1 (hch g hgm).2⟩)
    refine ⟨outs, hc, ?_⟩
    have he : instrs.isEmpty = false := by cases instrs <;> simp_all
    simp [compile, he, hs, hg, hc]

-- non-vacuity: three rectangular pulses on two labels, unscheduled
example :
    (match compile false (1/1000000)
        [⟨.scalar 1, [(0, .scalar (1/2))]⟩, ⟨.scalar 2, [(1, .scalar 1)]⟩, ⟨.scalar 1, [(0, .scalar (3/4))]⟩] none with
      | some (.ok (some outs)) => outs
      | _ => []) = [(0, [0, 1, 3, 4], [1/2, 0, 3/4]), (1, [0, 1, 3, 4], [0, 1, 0])] := by decide +kernel

/-- **Grid.** Every compiled channel has a time grid that starts at 0 and increases strictly — for every
padding mode, every final time at or after the channel's end and every positive `min_step_size`. -/
theorem grid_starts_at_zero_and_increases (byTol : Bool) (τ : Rat) (hτ : 0 < τ) (pm : Mode) (final ms : Rat)
    (hms : 0 < ms) (instrs : List (Rat × Wave)) (hne : instrs ≠ [])
    (hc : Chain 0 instrs) (hs : Sep byTol τ true 0 instrs) (hfin : endOf 0 instrs ≤ final) :
    ∃ g c, compiledChannel byTol τ pm final ms instrs = .ok (g, c) ∧ g.head? = some 0 ∧ g.Pairwise (· < ·) := by
  match instrs, hne with
  | (s, w) :: rest, _ =>
    refine ⟨_, _, compiledChannel_eq byTol τ hτ pm final ms hms _ (valid_of_chain_sep hc hs) hfin, rfl, ?_⟩
    rw [headChunk_fst, List.append_assoc]
    exact grid_ok τ hτ pm final ms hms s w rest hc

/-- **Length.** The coefficient array fits the grid for the channel's pulse kind: a channel whose first
instruction is discrete (scalar or `n-1` coefficients) has one coefficient per grid slot
(`len(coeff) = len(tlist) - 1`), a channel whose first instruction is continuous one per grid point. -/
theorem coefficient_length_fits (byTol : Bool) (τ : Rat) (hτ : 0 < τ) (pm : Mode) (final ms : Rat)
    (hms : 0 < ms) (s : Rat) (w : Wave) (rest : List (Rat × Wave))
    (hc : Chain 0 ((s, w) :: rest)) (hs : Sep byTol τ true 0 ((s, w) :: rest)) (hfin : endOf 0 ((s, w) :: rest) ≤ final) :
    ∃ g c, compiledChannel byTol τ pm final ms ((s, w) :: rest) = .ok (g, c) ∧
      (w.mode = .discrete → c.length + 1 = g.length) ∧ (w.mode = .continuous → c.length = g.length) := by
  refine ⟨_, _, compiledChannel_eq byTol τ hτ pm final ms hms _ (valid_of_chain_sep hc hs) hfin, ?_, ?_⟩
  · intro hm
    have := (pureLoop_struct _ 0 hc).2.1
    simp [headChunk, zeroChunk, hm, this]
  · intro hm
    have := (pureLoop_struct _ 0 hc).2.1
    simp [headChunk, zeroChunk, hm, this]

/-- **Waveform.** For a channel of discrete pulses (scalar rectangular or sampled with `n-1` coefficients)
the step function denoted by the compiled grid and coefficients *is* the scheduled function, at every time
`t`: inside the window of an instruction it is that instruction's waveform, everywhere else it is 0
(including before 0 and after the final time). -/
theorem discrete_channel_is_schedule (byTol : Bool) (τ : Rat) (hτ : 0 < τ) (pm : Mode) (final ms : Rat)
    (hms : 0 < ms) (instrs : List (Rat × Wave)) (hne : instrs ≠ [])
    (hc : Chain 0 instrs) (hs : Sep byTol τ true 0 instrs) (hfin : endOf 0 instrs ≤ final)
    (hd : ∀ sw ∈ instrs, sw.2.mode = .discrete) :
    ∃ g c, compiledChannel byTol τ pm final ms instrs = .ok (g, c) ∧ ∀ t, stepAt g c t = specAt instrs t := by
  match instrs, hne with
  | (s, w) :: rest, _ =>
    refine ⟨_, _, compiledChannel_eq byTol τ hτ pm final ms hms _ (valid_of_chain_sep hc hs) hfin, ?_⟩
    intro t
    have hm : w.mode = .discrete := hd (s, w) (by simp)
    have hz : headChunk true ((s, w) :: rest) = ([0], []) := by simp [headChunk, zeroChunk, hm]
    rw [hz]
    simp only [List.nil_append, List.cons_append]
    rw [stepAt_pad 0 _ _ _ t (pureLoop_struct _ 0 hc).2.1.symm (grid_ok τ hτ pm final ms hms s w rest hc)]
    exact pureLoop_discrete _ 0 hc hd t

/-- **Samples.** For a channel of continuous pulses (`n` coefficients for `n` time points; the code drops each
pulse's first sample, which by the documented convention is 0) there is one coefficient per grid point, and
every (grid point, coefficient) pair is *explained by the schedule* (`Explained`): a grid point inside the
window `(s, s + duration]` of an instruction is one of that instruction's sample points and carries its
sample; every other grid point (time 0, idle points, padding) carries 0.  Conversely every kept sample of every
instruction appears in the compiled arrays at its scheduled time. -/
theorem continuous_channel_is_schedule (byTol : Bool) (τ : Rat) (hτ : 0 < τ) (pm : Mode) (final ms : Rat)
    (hms : 0 < ms) (instrs : List (Rat × Wave)) (hne : instrs ≠ [])
    (hc : Chain 0 instrs) (hs : Sep byTol τ true 0 instrs) (hfin : endOf 0 instrs ≤ final)
    (hcnt : ∀ sw ∈ instrs, sw.2.mode = .continuous) :
    ∃ g c, compiledChannel byTol τ pm final ms instrs = .ok (g, c) ∧ c.length = g.length ∧
      (∀ xv ∈ g.zip c, Explained instrs xv) ∧
      (∀ sw ∈ instrs, ∀ yc ∈ sw.2.kept, (sw.1 + yc.1, yc.2) ∈ g.zip c) := by
  match instrs, hne with
  | (s, w) :: rest, _ =>
    exact ⟨_, _, compiledChannel_eq byTol τ hτ pm final ms hms _ (valid_of_chain_sep hc hs) hfin,
      compiled_continuous τ hτ pm final ms hms s w rest hc hcnt⟩

/-- **Every channel, also one mixing discrete and continuous instructions.**  Pair every coefficient with the grid
point it was appended with (`pairsOf`: for a channel starting with a discrete instruction coefficient `k` belongs to grid
point `k+1`, otherwise to grid point `k`).  Then every pair is `PointExplained`: inside the window `(s, s+duration]` of an
instruction it is one of that instruction's points with the coefficient the instruction attaches to it (amplitude at the
end of a rectangular pulse, slot value at the slot's right end, sample at its sample time); outside all windows the
coefficient is 0.  Conversely every point of every instruction is present.  No assumption on the pulse kinds. -/
theorem every_channel_points_are_schedule (byTol : Bool) (τ : Rat) (hτ : 0 < τ) (pm : Mode) (final ms : Rat)
    (hms : 0 < ms) (s : Rat) (w : Wave) (rest : List (Rat × Wave))
    (hc : Chain 0 ((s, w) :: rest)) (hs : Sep byTol τ true 0 ((s, w) :: rest)) (hfin : endOf 0 ((s, w) :: rest) ≤ final) :
    ∃ g c, compiledChannel byTol τ pm final ms ((s, w) :: rest) = .ok (g, c) ∧
      (∀ xv ∈ pairsOf w.mode g c, PointExplained ((s, w) :: rest) xv) ∧
      (∀ sw ∈ (s, w) :: rest, ∀ yc ∈ sw.2.points, (sw.1 + yc.1, yc.2) ∈ pairsOf w.mode g c) :=
  ⟨_, _, compiledChannel_eq byTol τ hτ pm final ms hms _ (valid_of_chain_sep hc hs) hfin,
    compiled_points τ hτ pm final ms hms s w rest hc⟩

-- non-vacuity (mixed): a rectangular pulse, then a sampled continuous pulse after a gap, on one channel
example :
    (compiledChannel false (1/1000000) .discrete 8 1
        [(0, .scalar 2 (1/2)), (4, .arr [0, 1, 2] [0, 3, 0])]).toOption
      = some ([0, 2, 3, 5, 6, 8], [1/2, 0, 3, 0, 0]) ∧
    (Wave.scalar 2 (1/2)).points = [(2, 1/2)] ∧ (Wave.arr [0, 1, 2] [0, 3, 0]).points = [(1, 3), (2, 0)] ∧
    pairsOf .discrete [0, 2, 3, 5, 6, 8] [1/2, 0, 3, 0, 0] = [(2, 1/2), (3, 0), (5, 3), (6, 0), (8, 0)] := by
  decide +kernel

-- non-vacuity (continuous): two sampled pulses, gap 2 <= 3 steps (arange branch) — compiled arrays
example :
    (compiledChannel true (1/1000000) .continuous 7 1
        [(0, .arr [0, 1, 2, 3] [0, 1, 1, 0]), (5, .arr [0, 1, 2] [0, 3, 0])]).toOption
      = some ([0, 1, 2, 3, 4, 6, 7], [0, 1, 1, 0, 0, 3, 0]) ∧
    (Wave.arr [0, 1, 2] [0, 3, 0]).kept = [(1, 3), (2, 0)] ∧
    (Wave.arr [0, 1, 2] [0, 3, 0]).sample (6 - 5) = some 3 := by
  decide +kernel

-- non-vacuity: two instructions with an idle gap, steps 2^-10 and 2^9; the hypotheses hold
example : Chain 0 [(0, .scalar (1/1024) (1/2)), (1, .arr [0, 512, 1024] [3/4, -1/4])] ∧
    Sep true (1/1000000) true 0 [(0, .scalar (1/1024) (1/2)), (1, .arr [0, 512, 1024] [3/4, -1/4])] := by
  refine ⟨⟨?_, ?_, ?_, ?_, trivial⟩, ⟨?_, ?_, ?_, ?_, trivial⟩⟩
  · show (0 : Rat) < 1/1024; decide +kernel
  · decide +kernel
  · exact ⟨by decide +kernel, by decide +kernel, by decide +kernel, Or.inl (by decide +kernel)⟩
  · decide +kernel
  · left; decide +kernel
  · intro _ h; cases h
  · right; show (1 : Rat) - (0 + 1/1024) > (512 - 0) * (1/1000000); decide +kernel
  · intro _ _; show ((512 : Rat) - 0) * (1/1000000) ≤ 0 + 1/1024; decide +kernel

example :
    (compiledChannel true (1/1000000) .discrete 2000 (1/1024)
        [(0, .scalar (1/1024) (1/2)), (1, .arr [0, 512, 1024] [3/4, -1/4])]).toOption
      = some ([0, 1/1024, 1, 513, 1025, 2000], [1/2, 0, 3/4, -1/4, 0]) ∧
    specAt [(0, .scalar (1/1024) (1/2)), (1, .arr [0, 512, 1024] [3/4, -1/4])] 600 = -1/4 ∧
    specAt [(0, .scalar (1/1024) (1/2)), (1, .arr [0, 512, 1024] [3/4, -1/4])] (1/2) = 0 := by
  decide +kernel

/-- **Without `Sep` the statement is false** (shipped first-pulse test): one channel, durations
`[10⁻⁹, 10⁴]`, no gap.  The second instruction is taken for a "first pulse" again because
`|10⁻⁹| < 10⁴·10⁻⁶`: the grid is `[0, 10⁻⁹, 0, 10⁴+10⁻⁹]` — not increasing — with 2 coefficients for 4
grid points.  The repaired test (`byTol = false`) gives `[0, 10⁻⁹, 10⁴+10⁻⁹]`. -/
theorem scale_counterexample :
    let instrs : List (Rat × Wave) := [(0, .scalar (1/1000000000) (1/2)), (1/1000000000, .scalar 10000 (1/2))]
    Chain 0 instrs ∧ ¬ Sep true (1/1000000) true 0 instrs ∧
    (concatenate true (1/1000000) [instrs]).toOption
      = some [([0, 1/1000000000, 0, 10000000000001/1000000000], [1/2, 1/2])] ∧
    ¬ ([0, 1/1000000000, 0, 10000000000001/1000000000] : List Rat).Pairwise (· < ·) ∧
    (concatenate false (1/1000000) [instrs]).toOption
      = some [([0, 1/1000000000, 10000000000001/1000000000], [1/2, 1/2])] := by
  refine ⟨?_, ?_, ?_, ?_, ?_⟩
  · refine ⟨?_, by decide +kernel, ?_, by decide +kernel, trivial⟩
    · show (0 : Rat) < 1/1000000000; decide +kernel
    · show (0 : Rat) < 10000; decide +kernel
  · intro h
    have h2 := h.2.2.2.1 rfl rfl
    revert h2
    show ¬ ((10000 : Rat) * (1/1000000) ≤ 0 + 1/1000000000)
    decide +kernel
  · decide +kernel
  · decide +kernel
  · decide +kernel

/-- **The gap clause of `Sep` is needed too** (both first-pulse tests): instruction A on `[0,1)`, then B
(one rectangular pulse of length `2^21`) scheduled at `t = 2` because another channel is busy on `[1,2)`.
The gap `1` is below `2^21·10⁻⁶ ≈ 2.1`, no idle point is inserted and B's coefficient is applied from
`t = 1` on: at `t = 3/2` the compiled function is `3/4` while no instruction uses the channel. -/
theorem gap_counterexample :
    let instrs : List (Rat × Wave) := [(0, .scalar 1 (1/2)), (2, .scalar 2097152 (3/4))]
    Chain 0 instrs ∧ ¬ Sep false (1/1000000) true 0 instrs ∧
    (compiledChannel false (1/1000000) .discrete 2097154 1 instrs).toOption
      = some ([0, 1, 2097154], [1/2, 3/4]) ∧
    stepAt [0, 1, 2097154] [1/2, 3/4] (3/2) = 3/4 ∧ specAt instrs (3/2) = 0 := by
  refine ⟨?_, ?_, ?_, ?_, ?_⟩
  · refine ⟨?_, by decide +kernel, ?_, by decide +kernel, trivial⟩
    · show (0 : Rat) < 1; decide +kernel
    · show (0 : Rat) < 2097152; decide +kernel
  · intro h
    have h2 := h.2.2.1
    revert h2
    show ¬ ((2 : Rat) - (0 + 1) = 0 ∨ (2 : Rat) - (0 + 1) > 2097152 * (1/1000000))
    decide +kernel
  · decide +kernel
  · decide +kernel
  · decide +kernel

/-! ### The repaired idle-gap test (fixes/C12-3.patch)

`np.abs(start_time - last_pulse_time) > 1e-12 * (largest start time)` instead of `> step_size * 1e-6`: the hypothesis no
longer involves the length of the following pulse.  `ValidG thr 0 instrs` = `Chain 0 instrs` together with "every idle gap
is `0` or `> thr`", `thr = ρ · maxStart chans` — a bound at the level of the rounding of the scheduled times. -/

/-- **`_concatenate_pulses` with the repaired gap test** (with or without fixes/C12-2.patch): it succeeds and every channel
is the closed form `closedChannel` (first-pulse chunk, tolerance-free lists, padding) with one common final time ≥ every
channel's end and one positive min step.  The scale hypothesis `Sep` is gone. -/
theorem gap_repaired_concatenate (ρ τ : Rat) (hρ : 0 ≤ ρ) (hτ : 0 < τ) (chans : List (List (Rat × Wave)))
    (hne : chans ≠ []) (hch : ∀ ch ∈ chans, ch ≠ [] ∧ ValidG (ρ * maxStart chans) 0 ch) :
    ∃ (pm : Mode) (final ms : Rat), 0 < ms ∧ (∀ ch ∈ chans, endOf 0 ch ≤ final) ∧
      ∀ emptyOk, concatenateG emptyOk ρ τ chans = .ok (chans.map fun ch => some (closedChannel τ pm final ms ch)) :=
  concatenateG_channels ρ τ hρ hτ chans hne hch

/-- **The closed form is the schedule** — from `Chain` alone (no scale hypothesis): grid from 0 strictly increasing, length
fits the kind, step function = scheduled function for discrete channels, every point explained for every channel (mixed
included) and every instruction point present.  (`compiledChannel` equals this closed form under `Sep`,
`concatenateG` under `ValidG`.) -/
theorem closed_channel_is_schedule (τ : Rat) (hτ : 0 < τ) (pm : Mode) (final ms : Rat) (hms : 0 < ms)
    (s : Rat) (w : Wave) (rest : List (Rat × Wave)) (hc : Chain 0 ((s, w) :: rest)) :
    let gc := closedChannel τ pm final ms ((s, w) :: rest)
    gc.1.head? = some 0 ∧ gc.1.Pairwise (· < ·) ∧
    (w.mode = .discrete → gc.2.length + 1 = gc.1.length) ∧ (w.mode = .continuous → gc.2.length = gc.1.length) ∧
    ((∀ sw ∈ (s, w) :: rest, sw.2.mode = .discrete) → ∀ t, stepAt gc.1 gc.2 t = specAt ((s, w) :: rest) t) ∧
    (∀ xv ∈ pairsOf w.mode gc.1 gc.2, PointExplained ((s, w) :: rest) xv) ∧
    (∀ sw ∈ (s, w) :: rest, ∀ yc ∈ sw.2.points, (sw.1 + yc.1, yc.2) ∈ pairsOf w.mode gc.1 gc.2) :=
  closedChannel_is_schedule τ hτ pm final ms hms s w rest hc

-- the witness of `gap_counterexample` under the repaired gap test: the idle point at t = 2 is there
example : (concatenateG false (1/1000000000000) (1/1000000) [[(0, .scalar 1 (1/2)), (2, .scalar 2097152 (3/4))]]).toOption
    = some [some ([0, 1, 2, 2097154], [1/2, 0, 3/4])] := by decide +kernel

/-! ### The code as the working tree has it (`Gen/ConcatSrc.lean`), on every schedule

`Gen.concatSrc` is the description of `_process_gate_pulse`, `_process_idling_tlist`, `_concatenate_pulses` and `compile`
that `py/props/c12.py` reads from the source with `ast` (constants, comparison operators, operands, end points, slices,
reference of `time_tol`); `concatenateS Gen.concatSrc` is the model the driver runs against the code.  `ChainR thr 0 instrs`:
well-formed waves, start times sorted, every start at most `thr` before the end of the previous instruction (`thr = 0`:
non-overlapping; `thr > 0`: the scheduler's rounding), first point of every instruction after that end.  No hypothesis on the
size of the idle gaps and none on the relative magnitudes of the durations. -/

/-- **The source has the shape the theorems are about** (decided on the regenerated description): the two helper functions
as modelled, first pulse by emptiness, `time_tol` relative to the largest start or end time and compared with `>`, empty
channels left empty, final padding `> min_step_size * padTol` with `min_step_size`. -/
theorem source_shape : Gen.concatSrc.Standard := by decide +kernel

/-- **The tolerance constants of the source** are `1e-12` (idle gap, relative to the total time) and `1e-6` (padding). -/
theorem source_constants :
    Gen.concatSrc.cat.gapTol = 1/1000000000000 ∧ Gen.concatSrc.cat.padTol = 1/1000000 ∧ Gen.concatSrc.cat.dropZero = true := by
  decide +kernel

/-- **The model run against the code is the model of the theorems**: `_concatenate_pulses` as read from the source is
`concatenateH` at the threshold `time_tol` of the source. -/
theorem source_is_model (chans : List (List (Rat × Wave))) :
    concatenateS Gen.concatSrc chans =
      concatenateH (Gen.concatSrc.timeTol chans) Gen.concatSrc.cat.padTol chans :=
  concatenateS_std _ source_shape chans

/-- an exactly non-overlapping schedule is in particular a rounded one -/
theorem exact_schedule_is_rounded (thr : Rat) (hthr : 0 ≤ thr) (last : Rat) (instrs : List (Rat × Wave))
    (h : Chain last instrs) : ChainR thr last instrs := Chain.chainR hthr h

/-- **`_concatenate_pulses` (repaired shape, any absolute idle-gap threshold `thr ≥ 0`) on every schedule**: it succeeds and
every channel is the closed form `closedChannelT` (first-pulse chunk, the lists with an idle stretch exactly for the gaps
`> thr`, padding) with one common final time ≥ every channel's end and one positive min step. -/
theorem repaired_all_schedules (thr τ : Rat) (hthr : 0 ≤ thr) (hτ : 0 < τ) (chans : List (List (Rat × Wave)))
    (hne : chans ≠ []) (hch : ∀ ch ∈ chans, ch ≠ [] ∧ ChainR thr 0 ch) :
    ∃ (pm : Mode) (final ms : Rat), 0 < ms ∧ (∀ ch ∈ chans, endOf 0 ch ≤ final) ∧
      concatenateH thr τ chans = .ok (chans.map fun ch => some (closedChannelT thr τ pm final ms ch)) :=
  concatenateH_all thr τ hthr hτ chans hne hch

/-- **The same for the code as read from the source**, `thr = time_tol` of the source. -/
theorem compiled_source_all_schedules (chans : List (List (Rat × Wave))) (hne : chans ≠ [])
    (hch : ∀ ch ∈ chans, ch ≠ [] ∧ ChainR (Gen.concatSrc.timeTol chans) 0 ch) :
    ∃ (pm : Mode) (final ms : Rat), 0 < ms ∧ (∀ ch ∈ chans, endOf 0 ch ≤ final) ∧
      concatenateS Gen.concatSrc chans = .ok (chans.map fun ch =>
        some (closedChannelT (Gen.concatSrc.timeTol chans) Gen.concatSrc.cat.padTol pm final ms ch)) := by
  have hthr : 0 ≤ Gen.concatSrc.timeTol chans := by
    unfold Src.timeTol
    refine Rat.mul_nonneg (by decide +kernel) ?_
    cases h : Gen.concatSrc.cat.gapRef with
    | step => exact Rat.le_refl
    | maxStart => exact maxStart_nonneg chans
    | maxEnd => exact maxEnd_nonneg chans
  rw [source_is_model]
  exact concatenateH_all _ _ hthr (by decide +kernel) chans hne hch

/-- **Every channel, every gap size, rounded start times: structure and points.**  The closed form has a grid that starts
at 0 and increases strictly, a coefficient array that fits the grid for the kind of the channel's first instruction; every
(grid point, coefficient) pair is explained by the schedule (inside a window `(s, s+duration]` it is a point of that
instruction with its coefficient, outside all windows the coefficient is 0) and every point of every instruction is present
with its coefficient.  Any mix of scalar, discrete and continuous instructions. -/
theorem closed_channel_every_schedule (thr τ : Rat) (hthr : 0 ≤ thr) (hτ : 0 < τ) (pm : Mode) (final ms : Rat) (hms : 0 < ms)
    (s : Rat) (w : Wave) (rest : List (Rat × Wave)) (h0 : 0 ≤ s) (hc : ChainR thr 0 ((s, w) :: rest)) :
    let gc := closedChannelT thr τ pm final ms ((s, w) :: rest)
    gc.1.head? = some 0 ∧ gc.1.Pairwise (· < ·) ∧
    (w.mode = .discrete → gc.2.length + 1 = gc.1.length) ∧ (w.mode = .continuous → gc.2.length = gc.1.length) ∧
    (∀ xv ∈ pairsOf w.mode gc.1 gc.2, PointExplained ((s, w) :: rest) xv) ∧
    (∀ sw ∈ (s, w) :: rest, ∀ yc ∈ sw.2.points, (sw.1 + yc.1, yc.2) ∈ pairsOf w.mode gc.1 gc.2) :=
  closedChannelT_is_schedule thr τ hthr hτ pm final ms hms s w rest h0 hc

/-- **Discrete channels, every gap size: the step function is the scheduled function at every time outside the idle gaps of
length `≤ thr`** (`SmallGap`: the gaps below the tolerance, in which the following instruction's first coefficient is
applied — `tolerance_counterexample`).  Exactly non-overlapping schedule. -/
theorem discrete_channel_outside_small_gaps (thr τ : Rat) (hthr : 0 ≤ thr) (hτ : 0 < τ) (pm : Mode) (final ms : Rat)
    (hms : 0 < ms) (s : Rat) (w : Wave) (rest : List (Rat × Wave)) (hc : Chain 0 ((s, w) :: rest))
    (hd : ∀ sw ∈ (s, w) :: rest, sw.2.mode = .discrete) :
    let gc := closedChannelT thr τ pm final ms ((s, w) :: rest)
    ∀ t, ¬ SmallGap thr 0 ((s, w) :: rest) t → stepAt gc.1 gc.2 t = specAt ((s, w) :: rest) t := by
  intro gc t ht
  have hcr := Chain.chainR hthr hc
  obtain ⟨hs1, hs2, hs3, _⟩ := pureLoopT_struct thr hthr _ 0 hcr
  have hgrid : ((0 : Rat) :: ((pureLoopT thr 0 ((s, w) :: rest)).1 ++ padPts τ pm final ms (endOf 0 ((s, w) :: rest)))).Pairwise (· < ·) :=
    pairwise_join hs1 hs3 (padPts_pairwise τ hτ pm final ms _ hms)
  have hm : w.mode = .discrete := hd (s, w) (by simp)
  have hz : headChunk true ((s, w) :: rest) = ([0], []) := by simp [headChunk, zeroChunk, hm]
  simp only [gc, closedChannelT, hz, List.nil_append, List.cons_append]
  rw [stepAt_pad 0 _ _ _ t hs2.symm hgrid]
  exact pureLoopT_discrete thr hthr _ 0 hc hd t ht

/-- **With every gap `0` or `> thr` there is no gap below the tolerance** and the closed form is the tolerance-free one of
`closed_channel_is_schedule`: the statement holds at every time. -/
theorem no_small_gap_when_separated (thr τ : Rat) (hthr : 0 ≤ thr) (pm : Mode) (final ms : Rat)
    (instrs : List (Rat × Wave)) (hv : ValidG thr 0 instrs) :
    closedChannelT thr τ pm final ms instrs = closedChannel τ pm final ms instrs ∧ ∀ t, ¬ SmallGap thr 0 instrs t := by
  refine ⟨?_, no_smallGap_of_validG thr hthr instrs 0 hv⟩
  simp only [closedChannelT, closedChannel, pureLoopT_eq_of_validG thr hthr instrs 0 hv]

/-- **`Instruction.__init__` as read from the source** (decided on the regenerated description): a sampled time sequence is
refused when `abs(tlist[0]) > 1e-8`, and the duration of an accepted one is `tlist[-1]` — also when `tlist[0]` is not 0 (the
time sequence is measured from the start of the instruction; `tlist[-1] - tlist[0]` would place the next instruction before
this one's last grid point). -/
theorem source_instruction_shape :
    Gen.concatSrc.instr.Standard ∧ Gen.concatSrc.instr.t0Tol = 1/100000000 := by decide +kernel

/-- **Durations**: every instruction the gate compilers construct is stored with `duration` = its scalar `tlist`, or the last
entry of its (stored) time sequence. -/
theorem instruction_duration_is_last_time (instrs0 : List Instr) (ids : List (Instr × Rat))
    (h : initAll Gen.concatSrc.instr instrs0 = some ids) : ∀ id ∈ ids, id.2 = id.1.duration :=
  initAll_durations _ source_instruction_shape.1 instrs0 ids h

/-- **With fixes/C12-6.patch (`shift`) the stored time sequence starts at exactly 0**, is as long as and strictly increasing
like the one handed in, and carries the same pulses — the clause "sampled tlist starts at 0" of `WaveOK` holds for every
accepted instruction, whatever `tlist[0]` within the accepted window was. -/
theorem shifted_instruction_starts_at_zero (s : InstrSrc) (hs : s.shift = true) (i i' : Instr) (d : Rat) (tl : List Rat)
    (htl : i.tl = .arr tl) (hne : tl ≠ []) (h : s.init i = some (i', d)) :
    ∃ tl', i'.tl = .arr tl' ∧ tl'.head? = some 0 ∧ tl'.length = tl.length ∧
      (tl.Pairwise (· < ·) → tl'.Pairwise (· < ·)) ∧ i'.pulses = i.pulses :=
  init_shift_head s hs i i' d tl htl hne h

/-- **Without the shift a first entry that is not 0 counts as 0**: `_process_gate_pulse` takes the points `tlist[1:]`, the
coefficients and the kind exactly as for the sequence with its first entry replaced by 0; only `step_size = tlist[1] - tlist[0]`
sees it.  (So `[-1e-9, 0, 1]`, accepted by `Instruction`, is laid out as `[0, 0, 1]`: `first_entry_counterexample`.) -/
theorem first_grid_time_counts_as_zero (a b : Rat) (rest cs : List Rat) (p : Proc)
    (h : procPulse (.arr (0 :: b :: rest) cs) = .ok p) :
    procPulse (.arr (a :: b :: rest) cs) = .ok { p with step := b - a } :=
  procPulse_head_ignored a b rest cs p h

/-- **An accepted, strictly increasing time sequence that the code without the shift cannot lay out**: `tlist = [-10⁻⁹, 0, 1]`
(`|tlist[0]| ≤ 10⁻⁸`) gives the grid `[0, 0, 1]`; with the shift (fixes/C12-6.patch) the stored sequence is `[0, 10⁻⁹, 1 + 10⁻⁹]`
and the grid is strictly increasing. -/
theorem first_entry_counterexample :
    let i : Instr := ⟨.arr [-1/1000000000, 0, 1], [(0, .arr [1, 2])]⟩
    let noShift : Src := { Gen.concatSrc with instr := { Gen.concatSrc.instr with shift := false } }
    let shift : Src := { Gen.concatSrc with instr := { Gen.concatSrc.instr with shift := true } }
    (match compileS noShift [i] none with | some (.ok (some outs)) => outs | _ => []) = [(0, some ([0, 0, 1], [1, 2]))] ∧
    (match compileS shift [i] none with | some (.ok (some outs)) => outs | _ => [])
      = [(0, some ([0, 1/1000000000, 1 + 1/1000000000], [1, 2]))] := by
  decide +kernel

/-- **`compile` as read from the source, end to end**: the instructions are constructed (`Instruction.__init__`: refusal of a
first entry beyond the window, shift if the source has it, duration), zero-duration instructions dropped (if the source says
so), scheduled, grouped by pulse label — channel `l` gets exactly the pulses labelled `l`, in scheduled order, each with its
instruction's start time; labels distinct; channels non-empty — then `_concatenate_pulses` as read from the source. -/
theorem compile_source_channels (instrs0 : List Instr) (sch : Option (List Rat × List Nat)) (ids : List (Instr × Rat))
    (is : List Instr) (starts : List Rat) (groups : List (Nat × List (Rat × Wave)))
    (hinit : initAll Gen.concatSrc.instr instrs0 = some ids)
    (hne : keptInstrs Gen.concatSrc.cat.dropZero (ids.map (·.1)) ≠ [])
    (hs : schedule (keptInstrs Gen.concatSrc.cat.dropZero (ids.map (·.1))) sch = .ok (is, starts))
    (hg : groupPulses (is.zip starts) [] = some groups) :
    (groups.map (·.1)).Nodup ∧ (∀ g ∈ groups, g.2 ≠ [] ∧ g.2 = chanOf g.1 (is.zip starts)) ∧
    compileS Gen.concatSrc instrs0 sch =
      (match concatenateS Gen.concatSrc (groups.map (·.2)) with
       | .error e => some (.error e)
       | .ok outs => some (.ok (some ((groups.map (·.1)).zip outs)))) := by
  have hd := instruction_duration_is_last_time instrs0 ids hinit
  have := compileWith_channels Gen.concatSrc.cat.dropZero (concatenateS Gen.concatSrc) (ids.map (·.1)) sch is starts groups hne hs hg
  refine ⟨this.1, this.2.1, ?_⟩
  simp only [compileS, hinit]
  rw [compileD_eq _ _ ids hd sch]
  exact this.2.2

/-- **`compile` end to end on every schedule**: if the channels that the grouping produces are rounded chains (`ChainR` at the
source's `time_tol`), `compile` returns, label by label, the closed form of that label's channel — to which
`closed_channel_every_schedule` and `discrete_channel_outside_small_gaps` apply. -/
theorem compile_source_end_to_end (instrs0 : List Instr) (sch : Option (List Rat × List Nat)) (ids : List (Instr × Rat))
    (is : List Instr) (starts : List Rat) (groups : List (Nat × List (Rat × Wave)))
    (hinit : initAll Gen.concatSrc.instr instrs0 = some ids)
    (hne : keptInstrs Gen.concatSrc.cat.dropZero (ids.map (·.1)) ≠ [])
    (hs : schedule (keptInstrs Gen.concatSrc.cat.dropZero (ids.map (·.1))) sch = .ok (is, starts))
    (hg : groupPulses (is.zip starts) [] = some groups) (hgn : groups ≠ [])
    (hch : ∀ g ∈ groups, ChainR (Gen.concatSrc.timeTol (groups.map (·.2))) 0 g.2) :
    ∃ (pm : Mode) (final ms : Rat), 0 < ms ∧ (∀ g ∈ groups, endOf 0 g.2 ≤ final) ∧
      compileS Gen.concatSrc instrs0 sch = some (.ok (some ((groups.map (·.1)).zip ((groups.map (·.2)).map fun ch =>
        some (closedChannelT (Gen.concatSrc.timeTol (groups.map (·.2))) Gen.concatSrc.cat.padTol pm final ms ch))))) := by
  obtain ⟨_, hgs, hcomp⟩ := compile_source_channels instrs0 sch ids is starts groups hinit hne hs hg
  obtain ⟨pm, final, ms, hms, hends, hcat⟩ := compiled_source_all_schedules (groups.map (·.2)) (by simpa using hgn)
    (by
      intro ch hc
      obtain ⟨g, hgm, rfl⟩ := List.mem_map.mp hc
      exact ⟨(hgs g hgm).1, hch g hgm⟩)
  refine ⟨pm, final, ms, hms, fun g hgm => hends g.2 (List.mem_map.mpr ⟨g, hgm, rfl⟩), ?_⟩
  rw [hcomp, hcat]

/-- `compile_source_channels` for gate compilers that emit rectangular pulses only (scalar `tlist`): the instructions are
stored as handed in. -/
theorem compile_source_channels_scalar (instrs0 : List Instr) (sch : Option (List Rat × List Nat))
    (is : List Instr) (starts : List Rat) (groups : List (Nat × List (Rat × Wave)))
    (hsc : ∀ i ∈ instrs0, ∃ t, i.tl = .scalar t)
    (hne : keptInstrs Gen.concatSrc.cat.dropZero instrs0 ≠ [])
    (hs : schedule (keptInstrs Gen.concatSrc.cat.dropZero instrs0) sch = .ok (is, starts))
    (hg : groupPulses (is.zip starts) [] = some groups) :
    (groups.map (·.1)).Nodup ∧ (∀ g ∈ groups, g.2 ≠ [] ∧ g.2 = chanOf g.1 (is.zip starts)) ∧
    compileS Gen.concatSrc instrs0 sch =
      (match concatenateS Gen.concatSrc (groups.map (·.2)) with
       | .error e => some (.error e)
       | .ok outs => some (.ok (some ((groups.map (·.1)).zip outs)))) := by
  have hinit := initAll_scalar Gen.concatSrc.instr instrs0 hsc
  have hmap := map_fst_withDuration instrs0
  exact compile_source_channels instrs0 sch _ is starts groups hinit (by rw [hmap]; exact hne) (by rw [hmap]; exact hs) hg

/-- `compile_source_end_to_end` for gate compilers that emit rectangular pulses only. -/
theorem compile_source_end_to_end_scalar (instrs0 : List Instr) (sch : Option (List Rat × List Nat))
    (is : List Instr) (starts : List Rat) (groups : List (Nat × List (Rat × Wave)))
    (hsc : ∀ i ∈ instrs0, ∃ t, i.tl = .scalar t)
    (hne : keptInstrs Gen.concatSrc.cat.dropZero instrs0 ≠ [])
    (hs : schedule (keptInstrs Gen.concatSrc.cat.dropZero instrs0) sch = .ok (is, starts))
    (hg : groupPulses (is.zip starts) [] = some groups) (hgn : groups ≠ [])
    (hch : ∀ g ∈ groups, ChainR (Gen.concatSrc.timeTol (groups.map (·.2))) 0 g.2) :
    ∃ (pm : Mode) (final ms : Rat), 0 < ms ∧ (∀ g ∈ groups, endOf 0 g.2 ≤ final) ∧
      compileS Gen.concatSrc instrs0 sch = some (.ok (some ((groups.map (·.1)).zip ((groups.map (·.2)).map fun ch =>
        some (closedChannelT (Gen.concatSrc.timeTol (groups.map (·.2))) Gen.concatSrc.cat.padTol pm final ms ch))))) := by
  have hinit := initAll_scalar Gen.concatSrc.instr instrs0 hsc
  have hmap := map_fst_withDuration instrs0
  exact compile_source_end_to_end instrs0 sch _ is starts groups hinit (by rw [hmap]; exact hne) (by rw [hmap]; exact hs) hg hgn hch

-- non-vacuity: three rectangular pulses on two labels through the source-driven model; a zero-duration instruction is dropped
example :
    (match compileS Gen.concatSrc
        [⟨.scalar 1, [(0, .scalar (1/2))]⟩, ⟨.scalar 0, [(0, .scalar 1)]⟩, ⟨.scalar 2, [(1, .scalar 1)]⟩,
         ⟨.scalar 1, [(0, .scalar (3/4))]⟩] none with
      | some (.ok (some outs)) => outs
      | _ => []) = [(0, some ([0, 1, 3, 4], [1/2, 0, 3/4])), (1, some ([0, 1, 3, 4], [0, 1, 0]))] := by decide +kernel

-- non-vacuity: a rounded schedule (second start 2^-45 before the first end, third 2^-45 after the second end, tolerance 2^-40):
-- the hypotheses hold and the grid is the concatenation of the instructions' points
example : ChainR (1/1099511627776) 0
      [(0, .scalar 1 (1/2)), (1 - 1/35184372088832, .arr [0, 1, 2] [3/4, -1/4]), (3 + 1/35184372088832, .scalar 1 1)] ∧
    closedChannelT (1/1099511627776) (1/1000000) .discrete 5 1
      [(0, .scalar 1 (1/2)), (1 - 1/35184372088832, .arr [0, 1, 2] [3/4, -1/4]), (3 + 1/35184372088832, .scalar 1 1)]
      = ([0, 1, 2 - 1/35184372088832, 3 - 1/35184372088832, 4 + 1/35184372088832, 5], [1/2, 3/4, -1/4, 1, 0]) := by
  refine ⟨⟨?_, ?_, ?_, ?_, ⟨?_, ?_, ?_, ?_, ⟨?_, ?_, ?_, ?_, trivial⟩⟩⟩, ?_⟩
  · show (0 : Rat) < 1; decide +kernel
  · decide +kernel
  · show (0 : Rat) < 0 + 1; decide +kernel
  · intro sw h; simp at h; rcases h with rfl | rfl <;> decide +kernel
  · exact ⟨by decide +kernel, by decide +kernel, by decide +kernel, Or.inl (by decide +kernel)⟩
  · decide +kernel
  · show (0 : Rat) + 1 < 1 - 1/35184372088832 + (1 - 0); decide +kernel
  · intro sw h; simp at h; subst h; decide +kernel
  · show (0 : Rat) < 1; decide +kernel
  · decide +kernel
  · decide +kernel
  · intro sw h; simp at h
  · decide +kernel

/-- **The tolerance is a resolution limit** (the code as read from the source): a pulse on `[0,1)`, then a pulse scheduled
at `1 + 2⁻⁴⁰` — a genuine idle gap of `2⁻⁴⁰ ≈ 0.9·10⁻¹²`, below `time_tol`.  No idle point is inserted and the second
coefficient is applied from `t = 1` on: at `t = 1 + 2⁻⁴¹` the compiled function is `3/4` while no instruction uses the channel.
Gaps in `(0, time_tol]` are exactly the exception set `SmallGap` of `discrete_channel_outside_small_gaps`. -/
theorem tolerance_counterexample :
    let instrs : List (Rat × Wave) := [(0, .scalar 1 (1/2)), (1 + 1/1099511627776, .scalar 1 (3/4))]
    Chain 0 instrs ∧
    (concatenateS Gen.concatSrc [instrs]).toOption = some [some ([0, 1, 2 + 1/1099511627776], [1/2, 3/4])] ∧
    stepAt [0, 1, 2 + 1/1099511627776] [1/2, 3/4] (1 + 1/2199023255552) = 3/4 ∧
    specAt instrs (1 + 1/2199023255552) = 0 ∧ SmallGap (Gen.concatSrc.timeTol [instrs]) 0 instrs (1 + 1/2199023255552) := by
  refine ⟨?_, ?_, ?_, ?_, ?_⟩
  · refine ⟨?_, by decide +kernel, ?_, by decide +kernel, trivial⟩
    · show (0 : Rat) < 1; decide +kernel
    · show (0 : Rat) < 1; decide +kernel
  · decide +kernel
  · decide +kernel
  · decide +kernel
  · right; left; decide +kernel

/-- **`time_tol` must be relative to the total time, not to the largest start time** (fixes/C12-5.patch).  A pulse on
`[0,1)`, then a pulse of length `10⁴` whose start time the scheduler returned as `1 - 10⁻¹⁰` (its rounding is relative to the
sums it forms, here `≈ 10⁴`).  With `thr = 10⁻¹² · (largest start)` the difference counts as an idle gap and the idle point
`1 - 10⁻¹⁰` is appended after `1`: the grid goes backwards.  With `thr = 10⁻¹² · (largest end)` the schedule is a rounded
chain (`ChainR`) and the grid is `[0, 1, 10001 - 10⁻¹⁰]`. -/
theorem maxstart_rounding_counterexample :
    let instrs : List (Rat × Wave) := [(0, .scalar 1 (1/2)), (1 - 1/10000000000, .scalar 10000 (3/4))]
    (concatenateH (1/1000000000000 * maxStart [instrs]) (1/1000000) [instrs]).toOption
      = some [some ([0, 1, 1 - 1/10000000000, 10001 - 1/10000000000], [1/2, 0, 3/4])] ∧
    ¬ ([0, 1, 1 - 1/10000000000, 10001 - 1/10000000000] : List Rat).Pairwise (· < ·) ∧
    ChainR (1/1000000000000 * maxEnd [instrs]) 0 instrs ∧
    (concatenateH (1/1000000000000 * maxEnd [instrs]) (1/1000000) [instrs]).toOption
      = some [some ([0, 1, 10001 - 1/10000000000], [1/2, 3/4])] := by
  refine ⟨by decide +kernel, by decide +kernel, ⟨?_, ?_, ?_, ?_, ⟨?_, ?_, ?_, ?_, trivial⟩⟩, by decide +kernel⟩
  · show (0 : Rat) < 1; decide +kernel
  · decide +kernel
  · show (0 : Rat) < 0 + 1; decide +kernel
  · intro sw h; simp at h; subst h; decide +kernel
  · show (0 : Rat) < 10000; decide +kernel
  · decide +kernel
  · show (0 : Rat) + 1 < 1 - 1/10000000000 + 10000; decide +kernel
  · intro sw h; simp at h

/-! ### The processor after `ModelProcessor.load_circuit`

`load_circuit` stores the compiled maps with `set_coeffs(coeff_map)` (pulses created in the dict's order, each carrying its
label) and `set_tlist(tlist_map)` (the pulse at position `get_pulse_dict()[label]` gets the grid).  `Store.storePulses` models
the two calls on abstract labels and array numbers. -/

/-- **The processor holds, under every label, the grid and the coefficients compiled for that label** — whatever the labels
are (strings, integers, …), in whatever order the channels were created: with the keys of `coeff_map` distinct (a dict), the
keys of `tlist_map` distinct and among them, `load_circuit` succeeds and the pulse list is `coeff_map`'s items in order, each
with `tlist_map[label]`.  Hence every theorem about the returned maps is a theorem about the processor's pulses. -/
theorem stored_pulses_are_compiled_maps (coeffs tlists : List (Nat × Nat)) (hc : (coeffs.map (·.1)).Nodup)
    (ht : (tlists.map (·.1)).Nodup) (hm : ∀ lt ∈ tlists, lt.1 ∈ coeffs.map (·.1)) :
    Store.storePulses coeffs tlists = some (coeffs.map fun lc => ⟨lc.1, Store.tlOf lc.1 tlists, lc.2⟩) :=
  Store.storePulses_eq coeffs tlists hc ht hm

-- non-vacuity: integer labels 2, 0, 1 created in that order; grid k of the map belongs to its k-th label
example : Store.storePulses [(2, 0), (0, 1), (1, 2)] [(2, 0), (0, 1), (1, 2)] =
    some [⟨2, some 0, 0⟩, ⟨0, some 1, 1⟩, ⟨1, some 2, 2⟩] := by decide

end QipVerif.C12
