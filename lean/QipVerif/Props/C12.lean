import QipVerif.Model.Concat
/-! C12 — property theorems (in progress) -/
namespace QipVerif.C12
end QipVerif.C12
