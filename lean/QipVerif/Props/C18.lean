import QipVerif.Model.Cqed
/-! # C18 (starter) -/
namespace QipVerif.C18
open QipVerif.Gen

theorem tables_tie :
    CQ.gateCompiler.lookup "RX" = some (.rotation "sx" "sx") ∧
    CQ.gateCompiler.lookup "RZ" = some (.rotation "sz" "sz") := by decide

end QipVerif.C18
