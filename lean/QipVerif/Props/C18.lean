import QipVerif.Lemmas.CqedCompile
import QipVerif.Lemmas.ScqCompile
import QipVerif.Lemmas.CqedGates
import QipVerif.Lemmas.CqedHann
/-!
# C18 — the cavity-QED and superconducting-qubit processors realise their native gates: calibration logic

The numerical bound of the property (process fidelity ≥ 0.999, leakage ≤ 0.001 of the multi-level dynamics) is NOT
proved here; it is measured on the real code by the check.  Proved, for ALL angles, qubits, pairs, device sizes and
hardware parameters named in each statement, in the IDEAL EFFECTIVE MODEL — every compiled instruction acts by the
matrix exponential (`DevExp.prop`, Mathlib's `NormedSpace.exp`) of its control Hamiltonian restricted to the qubit
subspace times the pulse area; the cavity-mediated exchange by the second-order dispersive Hamiltonian
`DevExp.dispH` —:

* which hardware parameter of which qubit enters which channel, with which sign, area and duration
  (`cq_rot_calibrated`, `cq_exchange_compiled`, `scq_rot_calibrated`, `scq_rzx_calibrated`, `zx_strength_of_pair`);
* exchange pulse + RZ corrections + reported global phase = ISWAP / SQRTISWAP for every uniform pair at resonance
  and either sign of the effective coupling (`cq_iswap_calibrated`, `cq_sqrtiswap_calibrated`,
  `cq_phase_accumulated`); the shape before fixes/C18-1.patch is refuted (`cq_sqrtiswap_unreversed_wrong`);
* the Hann envelope: normalisation, end points, derivative (`hann_envelope`), area of the scaled and rescaled pulse;
* `cnot_compiler`'s sequence = e^{iπ/4}·CNOT for both orders of control and target (`scq_cnot_calibrated`);
  `RZX(θ)` for every real θ; the unsigned shape before fixes/C18-2.patch is refuted (`scq_rzx_unsigned_wrong`).

The formulas and tables are the REGENERATED ones (`Gen/CqedTables.lean`, `Gen/ScqTables.lean`); the compiler
control flow is `Model/Cqed.lean`, run against the real compilers on every check.
-/
namespace QipVerif.C18
open QipVerif QipVerif.Dev QipVerif.Gen QipVerif.DevModel QipVerif.DevReal QipVerif.DevExp QipVerif.GateKron

/-- decidable facts about the regenerated tables -/
theorem tables_tie :
    CQ.gateCompiler = [("GLOBALPHASE", .phase), ("IDLE", .idle), ("ISWAP", .exchange 0), ("SQRTISWAP", .exchange 1),
      ("RZ", .rotation "sz" "sz"), ("RX", .rotation "sx" "sx")] ∧
    CQ.exchNames = ["ISWAP", "SQRTISWAP"] ∧
    CQ.swapHeld = [("sz", .q1), ("sz", .q2), ("g", .q1), ("g", .q2)] ∧
    CQ.swapCorrections = [("RZ", .q1), ("RZ", .q2)] ∧
    CQ.paramAlias = [("sz", "epsmax"), ("sx", "deltamax")] ∧
    CQ.compileResetsPhase = true ∧ CQ.dropsZeroDuration = true ∧ CQ.handsBackPhase = true ∧
    CQ.swapFlipsNegJ = true ∧ SCQ.rzxSigned = true ∧ SCQ.rotFloor = true ∧
    CQ.nativeGates.all (fun n => (CQ.gateCompiler.lookup n).isSome) = true ∧
    SCQ.nativeGates.all (fun n => (SCQ.gateCompiler.lookup n).isSome) = true ∧
    (CQ.ctlSX_prefix, CQ.ctlSX_op, CQ.ctlSZ_prefix, CQ.ctlSZ_op, CQ.ctlG_prefix) = ("sx", "x", "sz", "z", "g") ∧
    (∀ N n : Int, CQ.ctlSX_factor N n = n + 1 ∧ CQ.ctlSZ_factor N n = n + 1) ∧ CQ.cavityFactor = 0 ∧ CQ.cavityLevel = 0 ∧
    SCQ.gateCompiler = [("GLOBALPHASE", .noop), ("IDLE", .idle), ("RY", .rotation "sy" "omega_single"),
      ("RX", .rotation "sx" "omega_single"), ("CNOT", .cnot), ("RZX", .rzx)] ∧
    (SCQ.defaultShape, SCQ.defaultNumSamples, SCQ.defaultDrag) = ("hann", 101, true) ∧
    CQ.labels 2 = ["sx0", "sx1", "sz0", "sz1", "g0", "g1"] ∧
    SCQ.labels 3 = ["sx0", "sx1", "sx2", "sy0", "sy1", "sy2", "sz0", "sz1", "sz2", "zx01", "zx10", "zx12", "zx21"] := by
  refine ⟨by decide, by decide, by decide, by decide, by decide, by decide, by decide, by decide, by decide, by decide,
    by decide, by decide, by decide, by decide, ?_, by decide, by decide, by decide, by decide, by decide, by decide⟩
  intro N n; exact ⟨rfl, rfl⟩

/-! ## cavity QED: single-qubit rotations -/

/-- **RX(θ) / RZ(θ) on qubit `t` of the cavity processor, every θ, every device.**  One rectangular pulse on the
channel `sx<t>` (`sz<t>`) with the coefficient `sign θ·|deltamax[t]|` (`|epsmax[t]|`) — the strength of THAT qubit —
for the time `|θ|/(4π|Ω|)`; with the control Hamiltonian `2π·σ` of the channel its propagator is exactly the gate. -/
theorem cq_rot_calibrated (P : CQ.HW ℝ) (t : Nat) (θ Ω : ℝ) (hΩ : Ω ≠ 0) :
    (P.deltamax[t]? = some Ω →
      CQ.compileGate Real.pi P ⟨"RX", [t], [], θ⟩ = .ok ([cqRotInstr ⟨"RX", [t], [], θ⟩ "sx" t Ω], none) ∧
      (cqRotInstr ⟨"RX", [t], [], θ⟩ "sx" t Ω).pulses = [⟨"sx" ++ toString t, [|Ω| * Real.sign (θ / (4 * Real.pi))]⟩] ∧
      (cqRotInstr ⟨"RX", [t], [], θ⟩ "sx" t Ω).tlist = [|θ / (4 * Real.pi)| / |Ω|] ∧
      prop (((CQ.ctlSX_coef Real.pi * ((|Ω| * Real.sign (θ / (4 * Real.pi))) * (|θ / (4 * Real.pi)| / |Ω|)) : ℝ) : ℂ) • G.x_gate_)
        = G.rx_ θ) ∧
    (P.epsmax[t]? = some Ω →
      CQ.compileGate Real.pi P ⟨"RZ", [t], [], θ⟩ = .ok ([cqRotInstr ⟨"RZ", [t], [], θ⟩ "sz" t Ω], none) ∧
      (cqRotInstr ⟨"RZ", [t], [], θ⟩ "sz" t Ω).pulses = [⟨"sz" ++ toString t, [|Ω| * Real.sign (θ / (4 * Real.pi))]⟩] ∧
      (cqRotInstr ⟨"RZ", [t], [], θ⟩ "sz" t Ω).tlist = [|θ / (4 * Real.pi)| / |Ω|] ∧
      prop (((CQ.ctlSZ_coef Real.pi * ((|Ω| * Real.sign (θ / (4 * Real.pi))) * (|θ / (4 * Real.pi)| / |Ω|)) : ℝ) : ℂ) • G.z_gate_)
        = G.rz_ θ) := by
  have harea : (|Ω| * Real.sign (θ / (4 * Real.pi))) * (|θ / (4 * Real.pi)| / |Ω|) = θ / (4 * Real.pi) := by
    have := pulse_area 1 1 Ω (θ / (4 * Real.pi)) hΩ
    simpa using this
  have hph : 2 * Real.pi * (θ / (4 * Real.pi)) = θ / 2 := by
    have := Real.pi_ne_zero; field_simp; ring
  constructor
  · intro h
    refine ⟨cq_compile_RX P t θ Ω h, ?_, ?_, ?_⟩
    · simp [cqRotInstr, cq_rect_coeff, cq_rotArea_eq]
    · simp [cqRotInstr, cq_rect_dur, cq_rotArea_eq]
    · rw [harea, cq_ctlSX_coef_eq, hph, prop_x]
  · intro h
    refine ⟨cq_compile_RZ P t θ Ω h, ?_, ?_, ?_⟩
    · simp [cqRotInstr, cq_rect_coeff, cq_rotArea_eq]
    · simp [cqRotInstr, cq_rect_dur, cq_rotArea_eq]
    · rw [harea, cq_ctlSZ_coef_eq, hph, prop_z]

example : ∃ (P : CQ.HW ℝ) (Ω : ℝ), Ω ≠ 0 ∧ P.deltamax[1]? = some Ω ∧ P.epsmax[1]? = some 9 :=
  ⟨⟨[1, 2], [8, 9], [9, 9], [0, 0], [1, 1], 10⟩, 2, by norm_num, rfl, rfl⟩

/-! ## cavity QED: the exchange gates -/

/-- **ISWAP / SQRTISWAP on the ordered pair `(q1, q2)`, every device, every parameter vector.**  Compiled to: the
exchange instruction holding `sz<q1>`, `sz<q2>` at the detunings `√(eps² + delta²) − w0` of q1, q2 and `g<q1>`,
`g<q2>` at the couplings of q1, q2, for the time `area'/|J|` with `J` computed from the SAME detunings and couplings;
then `RZ(κ)` on q1 and on q2 (each with the strength `epsmax` of its qubit); and `κ` added to the global phase. -/
theorem cq_exchange_compiled (P : CQ.HW ℝ) (name : String) (k q1 q2 : Nat) (e1 d1 g1 e2 d2 g2 Ω1 Ω2 : ℝ)
    (hl : CQ.gateCompiler.lookup name = some (.exchange k))
    (h1 : P.eps[q1]? = some e1) (h2 : P.delta[q1]? = some d1) (h3 : P.g[q1]? = some g1)
    (h4 : P.eps[q2]? = some e2) (h5 : P.delta[q2]? = some d2) (h6 : P.g[q2]? = some g2)
    (h7 : P.epsmax[q1]? = some Ω1) (h8 : P.epsmax[q2]? = some Ω2) (θ : ℝ) :
    let D1 := Real.sqrt (e1 * e1 + d1 * d1) - P.w0
    let D2 := Real.sqrt (e2 * e2 + d2 * d2) - P.w0
    let J := g1 * g2 * (1 / D1 + 1 / D2) / 2
    let κ := CQ.exchCorr Real.pi k
    ∃ ex : Instr ℝ,
      CQ.compileGate Real.pi P ⟨name, [q1, q2], [], θ⟩ =
        .ok ([ex, cqRotInstr ⟨"RZ", [q1], [], κ⟩ "sz" q1 Ω1, cqRotInstr ⟨"RZ", [q2], [], κ⟩ "sz" q2 Ω2], some κ) ∧
      ex.pulses = [⟨"sz" ++ toString q1, [D1]⟩, ⟨"sz" ++ toString q2, [D2]⟩, ⟨"g" ++ toString q1, [g1]⟩, ⟨"g" ++ toString q2, [g2]⟩] ∧
      ex.tlist = [CQ.pulseDur (CQ.rectT0 : ℝ) J (CQ.swapArea J (CQ.exchArea k))] ∧
      CQ.swapJ g1 g2 D1 D2 = J := by
  intro D1 D2 J κ
  have hp := cq_pair_eq P q1 q2 e1 d1 g1 e2 d2 g2 h1 h2 h3 h4 h5 h6
  refine ⟨_, cq_compile_exchange P name k q1 q2 _ Ω1 Ω2 hl hp h7 h8 _ rfl rfl, ?_, ?_, ?_⟩
  · rw [cq_exchInstr_eq]
  · rw [cq_exchInstr_eq, cq_swapJ_eq]
  · rw [cq_swapJ_eq]

example : ∃ (P : CQ.HW ℝ), CQ.gateCompiler.lookup "SQRTISWAP" = some (.exchange 1) ∧ P.eps[1]? = some 9 ∧ P.delta[1]? = some 0 ∧
    P.g[1]? = some 1 ∧ P.eps[0]? = some 9 ∧ P.delta[0]? = some 0 ∧ P.g[0]? = some 1 ∧ P.epsmax[1]? = some 8 ∧ P.epsmax[0]? = some 8 :=
  ⟨⟨[1, 1], [8, 8], [9, 9], [0, 0], [1, 1], 10⟩, by decide, rfl, rfl, rfl, rfl, rfl, rfl, rfl, rfl⟩

/-- **ISWAP in the ideal dispersive model**: for every uniform pair (detuning `d ≠ 0`, coupling `g ≠ 0` — any sign of
the effective coupling `J = g²/d`) whose detuning phase over the compiled duration is a whole number of turns,
exchange pulse × RZ(κ)⊗RZ(κ) × e^{iκ} (the reported global phase) is exactly ISWAP. -/
theorem cq_iswap_calibrated (d g : ℝ) (hd : d ≠ 0) (hg : g ≠ 0) (k : ℤ) :
    let J := CQ.swapJ g g d d
    let T := CQ.pulseDur (CQ.rectT0 : ℝ) J (CQ.swapArea J (CQ.exchArea 0))
    let κ := CQ.exchCorr Real.pi 0
    2 * d * T = k →
    (e κ • kron2 (G.rz_ κ) (G.rz_ κ)) * prop (((CQ.ctlSZ_coef Real.pi * T : ℝ) : ℂ) • dispH d d g g) = G.iswap_ ∧
    CQ.ctlSZ_coef Real.pi = CQ.ctlG_coef0 Real.pi ∧ CQ.ctlSZ_coef Real.pi = CQ.ctlG_coef1 Real.pi := by
  intro J T κ hres
  refine ⟨iswap_total d g _ hd hg cq_ctlSZ_coef_eq k hres, ?_, ?_⟩
  · rw [cq_ctlSZ_coef_eq, cq_ctlG_coef_eq.1]
  · rw [cq_ctlSZ_coef_eq, cq_ctlG_coef_eq.2]

/-- non-vacuity: the default parameters (`eps = 9.5`, `delta = 0`, `w0 = 10`, `g = 0.01`: `d = −1/2`, `J = −2·10⁻⁴`)
meet the resonance hypothesis with `−2500` turns -/
example : 2 * (-1 / 2 : ℝ) * CQ.pulseDur (CQ.rectT0 : ℝ) (CQ.swapJ (1 / 100) (1 / 100) (-1 / 2) (-1 / 2))
    (CQ.swapArea (CQ.swapJ (1 / 100) (1 / 100) (-1 / 2) (-1 / 2)) (CQ.exchArea 0)) = ((-2500 : ℤ) : ℝ) := by
  rw [swapJ_uniform _ _ (by norm_num), cq_swapArea_eq, cq_exchArea_eq.1, cq_rect_dur]
  norm_num [abs_of_neg, abs_of_pos]

/-- **SQRTISWAP in the ideal dispersive model**, every uniform pair at resonance, EITHER sign of the effective
coupling (the compiler runs a backward exchange for `1 − area` periods, fixes/C18-1.patch). -/
theorem cq_sqrtiswap_calibrated (d g : ℝ) (hd : d ≠ 0) (hg : g ≠ 0) (k : ℤ) :
    let J := CQ.swapJ g g d d
    let T := CQ.pulseDur (CQ.rectT0 : ℝ) J (CQ.swapArea J (CQ.exchArea 1))
    let κ := CQ.exchCorr Real.pi 1
    2 * d * T = k →
    (e κ • kron2 (G.rz_ κ) (G.rz_ κ)) * prop (((CQ.ctlSZ_coef Real.pi * T : ℝ) : ℂ) • dispH d d g g) = G.sqrtiswap_ := by
  intro J T κ hres
  exact sqrtiswap_total d g _ hd hg cq_ctlSZ_coef_eq k (Or.inl (by decide)) hres

/-- non-vacuity at the default parameters: the reversed exchange lasts 3750 (three quarters of the period 5000) -/
example : 2 * (-1 / 2 : ℝ) * CQ.pulseDur (CQ.rectT0 : ℝ) (CQ.swapJ (1 / 100) (1 / 100) (-1 / 2) (-1 / 2))
    (CQ.swapArea (CQ.swapJ (1 / 100) (1 / 100) (-1 / 2) (-1 / 2)) (CQ.exchArea 1)) = ((-3750 : ℤ) : ℝ) := by
  rw [swapJ_uniform _ _ (by norm_num), cq_swapArea_eq, cq_exchArea_eq.2, cq_rect_dur,
    if_pos ⟨by decide, by norm_num⟩]
  norm_num [abs_of_neg, abs_of_pos]

/-- **the shape before fixes/C18-1.patch is wrong for every negative effective coupling** (the default parameters):
the exchange pulse of area 1/4 followed by the same corrections is not SQRTISWAP, for every uniform pair at
resonance, in the same ideal model (the `|11⟩` entry is −1; the one-excitation block is the inverse root). -/
theorem cq_sqrtiswap_unreversed_wrong (d g : ℝ) (hd : d < 0) (hg : g ≠ 0) (k : ℤ)
    (hres : 2 * d * CQ.pulseDur (CQ.rectT0 : ℝ) (CQ.swapJ g g d d) (1 / 4) = k) :
    (e (CQ.exchCorr Real.pi 1) • kron2 (G.rz_ (CQ.exchCorr Real.pi 1)) (G.rz_ (CQ.exchCorr Real.pi 1))) *
      prop (((CQ.ctlSZ_coef Real.pi * CQ.pulseDur (CQ.rectT0 : ℝ) (CQ.swapJ g g d d) (1 / 4) : ℝ) : ℂ) • dispH d d g g)
      ≠ G.sqrtiswap_ :=
  sqrtiswap_unreversed_wrong d g _ hd hg cq_ctlSZ_coef_eq k hres

/-- the default parameters are an instance (−1250 turns) -/
example : 2 * (-1 / 2 : ℝ) * CQ.pulseDur (CQ.rectT0 : ℝ) (CQ.swapJ (1 / 100) (1 / 100) (-1 / 2) (-1 / 2)) (1 / 4)
    = ((-1250 : ℤ) : ℝ) := by
  rw [swapJ_uniform _ _ (by norm_num), cq_rect_dur]
  norm_num [abs_of_neg, abs_of_pos]

/-- the RZ corrections and the phase commute with the exchange pulse (whatever its angle): the order in which the
scheduler places the three instructions does not matter -/
theorem cq_corrections_commute (κ ψ : ℝ) :
    (e κ • kron2 (G.rz_ κ) (G.rz_ κ)) * exchU ψ = exchU ψ * (e κ • kron2 (G.rz_ κ) (G.rz_ κ)) :=
  corr_exch_commute κ ψ

/-- **the regime tests of `CavityQEDModel._compute_params`**: the "not dispersive" warning is issued iff `g/(w0 − wq) > 1/20`
for some qubit, the rotating-wave warning iff `(w0 − wq)/(w0 + wq) > 1/20`; the compiler and the model compute the same
`wq = √(eps² + delta²)` and `Delta = wq − w0`; at the default parameters (`wq = 9.5`, `w0 = 10`, `g = 0.01`) neither warns. -/
theorem cq_regime_tests (g w0 wq e d : ℝ) :
    (CQ.warn0 g w0 wq = true ↔ 1 / 20 < g / (w0 - wq)) ∧ (CQ.warn1 g w0 wq = true ↔ 1 / 20 < (w0 - wq) / (w0 + wq)) ∧
    CQ.compWq e d = CQ.modelWq e d ∧ CQ.compDelta (CQ.compWq e d) w0 = CQ.modelDelta (CQ.modelWq e d) w0 ∧
    CQ.compWq e d = Real.sqrt (e * e + d * d) ∧ CQ.compDelta wq w0 = wq - w0 ∧
    CQ.warn0 (1 / 100 : ℝ) 10 (19 / 2) = false ∧ CQ.warn1 (1 / 100 : ℝ) 10 (19 / 2) = false := by
  have h0 : ∀ a b c : ℝ, (CQ.warn0 a b c = true ↔ 1 / 20 < a / (b - c)) := by
    intro a b c
    show DArith.lt (DArith.ofFrac 1 20 : ℝ) (DArith.div a (DArith.sub b c)) = true ↔ _
    rw [lt_iff]
    show ((1 : ℤ) : ℝ) / ((20 : ℕ) : ℝ) < a / (b - c) ↔ _
    push_cast; rfl
  have h1 : ∀ a b c : ℝ, (CQ.warn1 a b c = true ↔ 1 / 20 < (b - c) / (b + c)) := by
    intro a b c
    show DArith.lt (DArith.ofFrac 1 20 : ℝ) (DArith.div (DArith.sub b c) (DArith.add b c)) = true ↔ _
    rw [lt_iff]
    show ((1 : ℤ) : ℝ) / ((20 : ℕ) : ℝ) < (b - c) / (b + c) ↔ _
    push_cast; rfl
  refine ⟨h0 _ _ _, h1 _ _ _, rfl, rfl, rfl, rfl, ?_, ?_⟩
  · rw [Bool.eq_false_iff]; intro h; rw [h0] at h; norm_num at h
  · rw [Bool.eq_false_iff]; intro h; rw [h1] at h; norm_num at h

/-- **global-phase bookkeeping**: after `compile`, whatever the compiler carried before, the reported phase is the
sum over the gate list of: the angle of a GLOBALPHASE gate, the correction angle `κ` of an exchange gate, 0 otherwise;
`load_circuit` hands exactly this value to the processor. -/
theorem cq_phase_accumulated (P : CQ.HW ℝ) (ph0 old : ℝ) (gs : List (GateRec ℝ)) (is : List (Instr ℝ)) (ph : ℝ)
    (h : CQ.compile Real.pi P ph0 gs = .ok (is, ph)) :
    ph = (gs.map cqPhaseOf).sum ∧ CQ.reportedPhase old ph = ph ∧
    cqPhaseOf ⟨"GLOBALPHASE", [], [], ph0⟩ = ph0 ∧
    (∀ t c a, cqPhaseOf ⟨"ISWAP", t, c, a⟩ = -(Real.pi / 2) ∧ cqPhaseOf ⟨"SQRTISWAP", t, c, a⟩ = -(Real.pi / 4) ∧
      cqPhaseOf ⟨"RX", t, c, a⟩ = 0 ∧ cqPhaseOf ⟨"RZ", t, c, a⟩ = 0) := by
  refine ⟨cq_compile_phase P ph0 gs is ph h (by decide), ?_, ?_, ?_⟩
  · unfold CQ.reportedPhase; simp [show CQ.handsBackPhase = true by decide]
  · unfold cqPhaseOf; rw [cq_lookup_GLOBALPHASE]
  · intro t c a
    refine ⟨?_, ?_, ?_, ?_⟩
    · unfold cqPhaseOf; simp only [cq_lookup_ISWAP]; exact cq_exchCorr_eq.1
    · unfold cqPhaseOf; simp only [cq_lookup_SQRTISWAP]; exact cq_exchCorr_eq.2
    · unfold cqPhaseOf; simp only [cq_lookup_RX]
    · unfold cqPhaseOf; simp only [cq_lookup_RZ]

example : ∃ (P : CQ.HW ℝ) (is : List (Instr ℝ)) (ph : ℝ),
    CQ.compile Real.pi P 5 [⟨"GLOBALPHASE", [], [], 2⟩, ⟨"GLOBALPHASE", [], [], 3⟩] = .ok (is, ph) :=
  ⟨⟨[1], [1], [1], [0], [1], 10⟩, [], _, by
    simp [CQ.compile, compileLoop, CQ.compileGate, cq_lookup_GLOBALPHASE]; rfl⟩

/-! ## superconducting qubits -/

/-- **the Hann envelope**: it integrates to 1 over `[0, t_max]`, vanishes at both ends, lies in `[0, 1]` with the
value 1 in the middle, its derivative integrates to 0; after the scaling of `generate_pulse_shape` the samples lie on
an envelope whose integral over the pulse is the requested area, and a pulse whose coefficients and times are both
multiplied by `f` has `f²` times the area. -/
theorem hann_envelope :
    (∫ u in (0 : ℝ)..(SCQ.windowTmax : ℝ), SCQ.window Real.pi u = 1) ∧
    (SCQ.window Real.pi 0 = 0 ∧ SCQ.window Real.pi (SCQ.windowTmax : ℝ) = 0) ∧
    (∀ u, 0 ≤ SCQ.window Real.pi u ∧ SCQ.window Real.pi u ≤ 1) ∧ SCQ.window Real.pi 1 = 1 ∧
    (∀ u, HasDerivAt (SCQ.window Real.pi) (Real.pi / 2 * Real.sin (Real.pi * u)) u) ∧
    (∫ u in (0 : ℝ)..(SCQ.windowTmax : ℝ), Real.pi / 2 * Real.sin (Real.pi * u) = 0) ∧
    (∀ Ω a u : ℝ, Ω ≠ 0 → a ≠ 0 →
      SCQ.pulseCoeff (SCQ.window Real.pi u) Ω a = envelope Ω a (SCQ.pulseDur u Ω a)) ∧
    (∀ Ω a : ℝ, Ω ≠ 0 → ∫ t in (0 : ℝ)..(SCQ.pulseDur (SCQ.windowTmax : ℝ) Ω a), envelope Ω a t = a) ∧
    (∀ Ω a f : ℝ, Ω ≠ 0 →
      ∫ t in (0 : ℝ)..(SCQ.pulseDur (SCQ.windowTmax : ℝ) Ω a * f), f * envelope Ω a (t / f) = f * f * a) :=
  ⟨hann_integral, hann_ends, fun u => ⟨hann_nonneg u, hann_le_one u⟩, hann_mid, hann_hasDeriv, hann_deriv_integral,
    sample_on_envelope, envelope_area, envelope_rescaled_area⟩

/-- **RX(θ) / RY(θ) on qubit `t` of the superconducting processor, every θ, every device** (default `args`: Hann
window, DRAG).  The main quadrature is on `sx<t>` (`sy<t>`), sampled from the envelope scaled with the strength
`omega_single[t]` of THAT qubit (lowered for rotations below a quarter turn, fixes/C18-3.patch: the pulse of a non-zero
rotation is never shorter than that of a quarter turn) and the area `θ/(2π)`, corrected by `dragX` with the anharmonicity `alpha[t]`; the
Z quadrature on `sz<t>`; the derivative quadrature on `sy<t>` (for RX) resp. with the opposite sign on `sx<t>` (for
RY).  With the control `π·X` (`π·Y`) on the qubit subspace, the envelope area gives exactly the gate.  (The DRAG
corrections themselves — their effect on leakage and the change of the area by `−c³/(4α²)` — belong to the measured
part.) -/
theorem scq_rot_calibrated (H : SCQ.HW ℝ) (n t : Nat) (θ Ω α w : ℝ) (hn : 2 ≤ n) (hΩ0 : Ω ≠ 0)
    (hΩ : H.raw.omega_single[t]? = some Ω) (hα : H.raw.alpha[t]? = some α) (hw : H.raw.wq[t]? = some w) :
    SCQ.compileGate Real.pi H true n ⟨"RX", [t], [], θ⟩ = .ok ([scqDragInstr ⟨"RX", [t], [], θ⟩ "sx" "sy" false n t Ω α], none) ∧
    SCQ.compileGate Real.pi H true n ⟨"RY", [t], [], θ⟩ = .ok ([scqDragInstr ⟨"RY", [t], [], θ⟩ "sy" "sx" true n t Ω α], none) ∧
    (∫ s in (0 : ℝ)..(SCQ.pulseDur (SCQ.windowTmax : ℝ) (SCQ.rotMax Ω (SCQ.rotArea Real.pi θ)) (SCQ.rotArea Real.pi θ)),
        envelope (SCQ.rotMax Ω (SCQ.rotArea Real.pi θ)) (SCQ.rotArea Real.pi θ) s) = θ / (2 * Real.pi) ∧
    (θ ≠ 0 →
      SCQ.pulseDur (SCQ.windowTmax : ℝ) (SCQ.rotMax Ω (SCQ.rotArea Real.pi θ)) (SCQ.rotArea Real.pi θ)
        = 2 * (max |θ / (2 * Real.pi)| (1 / 4) / |Ω|)) ∧
    prop (((SCQ.ctlSX_coef Real.pi * (θ / (2 * Real.pi)) : ℝ) : ℂ) • G.x_gate_) = G.rx_ θ ∧
    prop (((SCQ.ctlSY_coef Real.pi * (θ / (2 * Real.pi)) : ℝ) : ℂ) • G.y_gate_) = G.ry_ θ := by
  have hph : Real.pi * (θ / (2 * Real.pi)) = θ / 2 := by
    have := Real.pi_ne_zero; field_simp
  refine ⟨?_, ?_, ?_, ?_, ?_, ?_⟩
  · unfold SCQ.compileGate
    simp only [scq_lookup_RX]
    rw [scq_rotation_drag_sx H _ n t [] Ω α w hn rfl hΩ hα hw]
  · unfold SCQ.compileGate
    simp only [scq_lookup_RY]
    rw [scq_rotation_drag_sy H _ n t [] Ω α w hn rfl hΩ hα hw]
  · rw [envelope_area _ _ (scq_rotMax_ne_zero Ω _ hΩ0), scq_rotArea_eq]
  · intro hθ
    have hf : SCQ.rotFloor = true := by decide
    have ha : SCQ.rotArea Real.pi θ ≠ 0 := by
      rw [scq_rotArea_eq]; have := Real.pi_ne_zero; positivity
    rw [scq_floor_duration Ω _ _ hΩ0 hf ha, scq_rotArea_eq, scq_windowTmax_eq]
  · rw [scq_ctlSX_coef_eq, hph, prop_x]
  · rw [scq_ctlSY_coef_eq, hph, prop_y]

example : ∃ (H : SCQ.HW ℝ) (Ω α w : ℝ), Ω ≠ 0 ∧ H.raw.omega_single[1]? = some Ω ∧ H.raw.alpha[1]? = some α ∧ H.raw.wq[1]? = some w :=
  ⟨SCQ.computeParams ⟨[5, 6], [7], [-3, -3], [1, 1], [2, 2], [2, 2]⟩ 2, 2, -3, 6, by norm_num, by simp [SCQ.computeParams],
    by simp [SCQ.computeParams], by simp [SCQ.computeParams]⟩

/-- **the DRAG quadratures** as the compiler computes them from a sample `c` of the envelope, the numerical gradient `g`
of the envelope and the anharmonicity `α ≠ 0` of the addressed qubit: main quadrature `c − c³/(4α²)`, Z quadrature
`−c²/(2α)` (the source's `−c²/α + (√2)²c²/(4α)`), derivative quadrature `−(g/2π)/α`. -/
theorem scq_drag_quadratures (c g α : ℝ) (hα : α ≠ 0) :
    SCQ.dragX c α = c - c * c * c / (4 * (α * α)) ∧ SCQ.dragZ c α = -(c * c) / (2 * α) ∧
    SCQ.dragY (SCQ.dragDt Real.pi g) α = -(g / (2 * Real.pi)) / α :=
  ⟨scq_dragX_eq c α, scq_dragZ_eq c α hα, scq_dragY_eq g α⟩

example : (-3 / 10 : ℝ) ≠ 0 := by norm_num

/-- **which ZX strength belongs to which (control, target)**, every device size `N` and neighbours `i, i+1 < N`:
`rzx_compiler` reads for (control `i`, target `i+1`) the cross-resonance strength with the drive amplitude and the
anharmonicity of qubit `i` and the detuning `ω_i − ω_{i+1}`, and for (control `i+1`, target `i`) the one of qubit
`i+1` with the detuning `ω_{i+1} − ω_i`; both with the exchange coupling `J[i]` of the pair. -/
theorem zx_strength_of_pair (P : SCQ.Raw ℝ) (N i : Nat) (hi : i + 1 < N) :
    SCQ.pyIdx? (SCQ.computeParams P N).zx_coeff (SCQ.rzxIdx (i : Int) ((i + 1 : Nat) : Int))
      = some (crStrength P (SCQ.computeParams P N).J i i (i + 1)) ∧
    SCQ.pyIdx? (SCQ.computeParams P N).zx_coeff (SCQ.rzxIdx ((i + 1 : Nat) : Int) (i : Int))
      = some (crStrength P (SCQ.computeParams P N).J i (i + 1) i) :=
  zx_coeff_of_pair P N i hi

example : (0 : Nat) + 1 < 2 := by decide

/-- **RZX(θ) on the ordered pair `(q1, q2)`, EVERY real θ** (the area carries the sign of the angle,
fixes/C18-2.patch): one pulse on the channel `zx<q1><q2>` sampled from the Hann envelope of strength `zx_coeff[…]`,
coefficients and times multiplied by `f = √(|θ|/(π/2))`; its total area is `θ/π`, and with the control
`2π·(Z/2)⊗(X/2)` (channel `zx<m><m+1>`) resp. `2π·(X/2)⊗(Z/2)` (channel `zx<m+1><m>`) the propagator is exactly
`RZX(θ)` resp. `RZX(θ)` with the two qubits exchanged. -/
theorem scq_rzx_calibrated (H : SCQ.HW ℝ) (n q1 q2 : Nat) (θ mx : ℝ) (hmx : mx ≠ 0)
    (hm : SCQ.pyIdx? H.zx_coeff (SCQ.rzxIdx (q1 : Int) (q2 : Int)) = some mx) :
    SCQ.compileGate Real.pi H true n ⟨"RZX", [q1, q2], [], θ⟩ = .ok ([scqRzxInstr ⟨"RZX", [q1, q2], [], θ⟩ n q1 q2 mx], none) ∧
    (∫ s in (0 : ℝ)..(SCQ.pulseDur (SCQ.windowTmax : ℝ) mx (SCQ.rzxArea Real.pi θ) * SCQ.rzxRescale Real.pi θ),
        SCQ.rzxRescale Real.pi θ * envelope mx (SCQ.rzxArea Real.pi θ) (s / SCQ.rzxRescale Real.pi θ)) = θ / Real.pi ∧
    prop (((SCQ.ctlZXf_coef Real.pi * (1 / 2 * (1 / 2)) * (θ / Real.pi) : ℝ) : ℂ) • ZX) = G.cls_RZX_ θ ∧
    prop (((SCQ.ctlZXb_coef Real.pi * (1 / 2 * (1 / 2)) * (θ / Real.pi) : ℝ) : ℂ) • XZ) = DevExp.flip (G.cls_RZX_ θ) := by
  refine ⟨?_, ?_, prop_zx_area _ θ scq_ctlZX_coef_eq.1, prop_xz_area _ θ scq_ctlZX_coef_eq.2⟩
  · unfold SCQ.compileGate
    simp only [scq_lookup_RZX]
    rw [scq_rzx_eq H _ n q1 q2 mx rfl hm]
  · rw [envelope_rescaled_area mx _ _ hmx, rzx_total_area θ (Or.inl (by decide))]

example : ∃ (H : SCQ.HW ℝ) (mx : ℝ), mx ≠ 0 ∧ SCQ.pyIdx? H.zx_coeff (SCQ.rzxIdx ((1 : Nat) : Int) ((0 : Nat) : Int)) = some mx :=
  ⟨⟨⟨[], [], [], [], [], []⟩, [], [], [], [3, 4]⟩, 4, by norm_num, by simp [SCQ.pyIdx?, SCQ.rzxIdx]⟩

/-- **the shape before fixes/C18-2.patch is wrong for negative angles**: with the unsigned area 1/2 the total area is
`|θ|/π`, i.e. the pulse of `RZX(|θ|)`, and `RZX(|−π/2|) ≠ RZX(−π/2)`. -/
theorem scq_rzx_unsigned_wrong :
    (∀ θ : ℝ, SCQ.rzxRescale Real.pi θ * SCQ.rzxRescale Real.pi θ * (1 / 2) = |θ| / Real.pi) ∧
    prop (((SCQ.ctlZXf_coef Real.pi * (1 / 2 * (1 / 2)) * (|(-(Real.pi / 2))| / Real.pi) : ℝ) : ℂ) • ZX)
      ≠ G.cls_RZX_ (-(Real.pi / 2)) := by
  refine ⟨rzx_total_area_unsigned, ?_⟩
  rw [prop_zx_area _ _ scq_ctlZX_coef_eq.1]
  exact rzx_sign_matters

/-- **CNOT(control `c`, target `t`), every device.**  `cnot_compiler` emits, in this order, `RX(−π/2)` on `t`,
`RZX(π/2)` on `(c, t)`, `RX(−π/2)`, `RY(−π/2)`, `RX(π/2)` on `c`, each compiled exactly as the stand-alone gate
(so `scq_rot_calibrated`, `scq_rzx_calibrated`, `zx_strength_of_pair` apply to them); the product of their ideal
propagators is `e^{iπ/4}·CNOT` — for the control on the first qubit of the pair and, with every factor exchanged, for
the control on the second.  (The compiler reports no global phase for this device: process fidelity does not see it.) -/
theorem scq_cnot_calibrated (H : SCQ.HW ℝ) (drag : Bool) (n c t : Nat) (θ : ℝ) (i1 i2 i3 i4 i5 : Instr ℝ)
    (h1 : SCQ.rotation Real.pi H drag n ⟨"RX", [t], [], -(Real.pi / 2)⟩ "sx" "omega_single" = .ok i1)
    (h2 : SCQ.rzx Real.pi H n ⟨"RZX", [c, t], [], Real.pi / 2⟩ = .ok i2)
    (h3 : SCQ.rotation Real.pi H drag n ⟨"RX", [c], [], -(Real.pi / 2)⟩ "sx" "omega_single" = .ok i3)
    (h4 : SCQ.rotation Real.pi H drag n ⟨"RY", [c], [], -(Real.pi / 2)⟩ "sy" "omega_single" = .ok i4)
    (h5 : SCQ.rotation Real.pi H drag n ⟨"RX", [c], [], Real.pi / 2⟩ "sx" "omega_single" = .ok i5) :
    SCQ.compileGate Real.pi H drag n ⟨"CNOT", [t], [c], θ⟩ = .ok ([i1, i2, i3, i4, i5], none) ∧
    kron2 (G.rx_ (Real.pi / 2)) 1 * kron2 (G.ry_ (-(Real.pi / 2))) 1 * kron2 (G.rx_ (-(Real.pi / 2))) 1
        * G.cls_RZX_ (Real.pi / 2) * kron2 1 (G.rx_ (-(Real.pi / 2))) = e (Real.pi / 4) • G.cnot_ ∧
    kron2 1 (G.rx_ (Real.pi / 2)) * kron2 1 (G.ry_ (-(Real.pi / 2))) * kron2 1 (G.rx_ (-(Real.pi / 2)))
        * DevExp.flip (G.cls_RZX_ (Real.pi / 2)) * kron2 (G.rx_ (-(Real.pi / 2))) 1 = e (Real.pi / 4) • cnotRev ∧
    cnotRev = !![1, 0, 0, 0; 0, 0, 0, 1; 0, 0, 1, 0; 0, 1, 0, 0] :=
  ⟨scq_compile_CNOT H drag n c t θ i1 i2 i3 i4 i5 h1 h2 h3 h4 h5, cnot_sequence, cnot_sequence_rev, cnotRev_eq⟩

/-- the hypotheses of `scq_cnot_calibrated` are met whenever the parameters of the two qubits exist -/
example (H : SCQ.HW ℝ) (c t : Nat) (Ω α w mx : ℝ) (hΩ : H.raw.omega_single[t]? = some Ω) (hα : H.raw.alpha[t]? = some α)
    (hw : H.raw.wq[t]? = some w) (hm : SCQ.pyIdx? H.zx_coeff (SCQ.rzxIdx (c : Int) (t : Int)) = some mx) :
    (∃ i1, SCQ.rotation Real.pi H true 101 ⟨"RX", [t], [], -(Real.pi / 2)⟩ "sx" "omega_single" = .ok i1) ∧
    (∃ i2, SCQ.rzx Real.pi H 101 ⟨"RZX", [c, t], [], Real.pi / 2⟩ = .ok i2) :=
  ⟨⟨_, scq_rotation_drag_sx H _ 101 t [] Ω α w (by norm_num) rfl hΩ hα hw⟩, ⟨_, scq_rzx_eq H _ 101 c t mx rfl hm⟩⟩

end QipVerif.C18
