import QipVerif.Lemmas.GridMerge
import QipVerif.Lemmas.GridOde
import QipVerif.Lemmas.GridCatchUp
import QipVerif.Lemmas.GridKeep
import QipVerif.Gen.FillCubic
/-!
# C14 — pulse evolution is the time-ordered propagator of the stated Hamiltonian

Property theorems only (resampling logic, and — `run_analytically_is_time_ordered` — the analytic fact that the
slice product of `run_analytically` is the solution operator of `dU/dt = −i H(t) U` for the stated Hamiltonian,
with Mathlib's matrix exponential; the numerical solvers / `Qobj.expm` are checked by the correspondence, see
notes/C14.md).  `Grid.fullTlist` models `Processor.get_full_tlist`,
`Grid.fill` the step branch of `pulse._fill_coeff`, `Grid.fullCoeffs` `get_full_coeffs`;
`Grid.stepAt tl cs t` is the specification object: the step function of a channel (value of
the slot of `tl` containing `t`, `0` before the first and from the last grid point on).
All statements are exact (`Rat`) and hold for every tolerance `tol ≥ 0`.
-/
namespace QipVerif.C14
open QipVerif.Grid Matrix

/-- channel grids as the property quantifies them: strictly increasing, starting at 0, at least one slot -/
def GoodGrid (g : List Rat) : Prop := g.Pairwise (· < ·) ∧ g.head? = some 0 ∧ 2 ≤ g.length

/-- **Merged grid, unconditionally**: whatever the channel grids are (unsorted, duplicated, near-duplicates),
the merged grid is strictly increasing, consecutive points differ by more than `tol`, and every point of it
is a point of some channel. -/
theorem merged_strict (tol : Rat) (grids : List (List Rat)) (T : List Rat) (h : fullTlist tol grids = some T) :
    T.Pairwise (· < ·) ∧ GapsGt tol T ∧ ∀ t ∈ T, ∃ g ∈ grids, t ∈ g :=
  ⟨fullTlist_pairwise h, fullTlist_gaps h, fullTlist_subset h⟩

example : fullTlist (1/10) [[0, 1, 2], [0, 3/2, 41/20, 3]] = some [0, 1, 3/2, 2, 3] := by decide +kernel

/-- **Merged grid contains every channel point** when distinct points of the channels are more than `tol`
apart (`SepAll`): it is exactly the sorted duplicate-free union. -/
theorem merged_contains (tol : Rat) (grids : List (List Rat)) (hne : grids ≠ []) (hsep : SepAll tol grids) :
    ∃ T, fullTlist tol grids = some T ∧ T.Pairwise (· < ·) ∧
      (∀ g ∈ grids, ∀ x ∈ g, x ∈ T) ∧ (∀ t ∈ T, ∃ g ∈ grids, t ∈ g) := by
  refine ⟨sortU grids.flatten, fullTlist_eq_sortU hne hsep, sortU_pairwise _, ?_, ?_⟩
  · intro g hg x hx; rw [mem_sortU, List.mem_flatten]; exact ⟨g, hg, hx⟩
  · intro t ht; rw [mem_sortU, List.mem_flatten] at ht; exact ht

example : SepAll (1/10) [[0, 1, 2], [0, 3/2, 3]] := by
  intro g hg x hx g' hg' y hy hxy
  simp only [List.mem_cons, List.not_mem_nil, or_false] at hg hg'
  rcases hg with rfl | rfl <;> rcases hg' with rfl | rfl <;>
    simp only [List.mem_cons, List.not_mem_nil, or_false] at hx hy <;>
    rcases hx with rfl | rfl | rfl <;> rcases hy with rfl | rfl | rfl <;> revert hxy <;> decide +kernel

/-- **What the resampling returns, in general** (no assumption on the last coefficient): at every merged
point the value of the channel's slot containing it — except that at the channel's *final* grid point it
returns the last entry of the padded coefficient array (`codeAt`).  Induction over the merged grid with the
invariant "`old_ind` is the slot containing the current point". -/
theorem fill_eq_code (tol : Rat) (grids : List (List Rat)) (T tl cs : List Rat) (htol : 0 ≤ tol)
    (hgr : ∀ g ∈ grids, GoodGrid g) (hsep : SepAll tol grids) (hmem : tl ∈ grids)
    (hT : fullTlist tol grids = some T)
    (hlen : cs.length + 1 = tl.length ∨ cs.length = tl.length) :
    fill tol tl cs T = .ok (T.map (codeAt tl (padCoeff tl cs))) := by
  have hne : grids ≠ [] := by intro h; simp [h] at hmem
  have hTeq : T = sortU grids.flatten := by
    have := fullTlist_eq_sortU hne hsep; rw [hT] at this; exact Option.some.inj this
  have hTp : T.Pairwise (· < ·) := fullTlist_pairwise hT
  obtain ⟨hp, hh, hl⟩ := hgr tl hmem
  have hmemT : ∀ t ∈ T, ∃ g ∈ grids, t ∈ g := fullTlist_subset hT
  have hnonneg : ∀ t ∈ T, (0 : Rat) ≤ t := by
    intro t ht
    obtain ⟨g, hg, htg⟩ := hmemT t ht
    obtain ⟨hgp, hgh, hgl⟩ := hgr g hg
    match g, hgh with
    | a :: rest, hgh =>
      simp at hgh; subst hgh
      rcases List.mem_cons.mp htg with rfl | h
      · exact Rat.le_refl
      · exact Rat.le_of_lt ((List.pairwise_cons.mp hgp).1 t h)
  apply Grid.fill_eq_code tol tl cs T htol hp hl hlen hTp
  · intro p hpm; rw [hTeq, mem_sortU, List.mem_flatten]; exact ⟨tl, hmem, hpm⟩
  · intro t ht first hf; rw [hh] at hf; cases hf; exact hnonneg t ht
  · intro t ht p hpm
    obtain ⟨g, hg, htg⟩ := hmemT t ht
    have htri : p < t ∨ p = t ∨ t < p := by grind
    rcases htri with h | h | h
    · right; right; exact hsep tl hmem p hpm g hg t htg h
    · left; exact h
    · right; left; exact hsep g hg t htg tl hmem p hpm h

/-- **fill_eq_step.** For channels with strictly increasing grids starting at 0 whose points are more than
`tol` apart, a channel with one coefficient per slot (or a full-length array ending in 0): the coefficient
resampled at every merged point `T_k` is the channel's step function at `T_k` — the value of the slot
containing it, and 0 from the channel's last grid point on. -/
theorem fill_eq_step (tol : Rat) (grids : List (List Rat)) (T tl cs : List Rat) (htol : 0 ≤ tol)
    (hgr : ∀ g ∈ grids, GoodGrid g) (hsep : SepAll tol grids) (hmem : tl ∈ grids)
    (hT : fullTlist tol grids = some T) (hz : LastZero tl cs) :
    fill tol tl cs T = .ok (T.map (stepAt tl cs)) := by
  have hlen : cs.length + 1 = tl.length ∨ cs.length = tl.length := by
    rcases hz with h | ⟨h, _⟩
    · exact Or.inl h
    · exact Or.inr h
  rw [fill_eq_code tol grids T tl cs htol hgr hsep hmem hT hlen]
  congr 1
  apply List.map_congr_left
  intro t _
  exact codeAt_eq_stepAt tl cs (hgr tl hmem).1 hz t

-- non-vacuity: two channels ending at different times, one coefficient per slot
example : (fill (1/10) [0, 1] [2] [0, 1, 3/2, 2]).toOption = some [2, 0, 0, 0] ∧
    (fill (1/10) [0, 3/2, 2] [1/2, 1/4] [0, 1, 3/2, 2]).toOption = some [1/2, 1/2, 1/4, 0] ∧
    [0, 1, 3/2, 2].map (stepAt [0, 3/2, 2] [1/2, 1/4]) = [1/2, 1/2, 1/4, 0] := by decide +kernel

/-- **The full statement is false for full-length coefficients** (`len(coeff) == len(tlist)`) whose last
entry is not 0: channel A `tlist [0,1]`, `coeff [2, 3/4]` next to a channel ending at 2 — the resampled
row holds `3/4` at `t = 1`, i.e. on the merged slot `[1, 3/2)`, although A's grid has ended
(its step function is 0 there).  `run_analytically` uses exactly these rows. -/
theorem leak_counterexample :
    (fullCoeffs (1/10000000000) [.arr [0, 1] [2, 3/4], .arr [0, 3/2, 2] [1/2, 1/4]]).toOption
        = some ([0, 1, 3/2, 2], [[2, 3/4, 0, 0], [1/2, 1/2, 1/4, 0]])
      ∧ stepAt [0, 1] [2, 3/4] 1 = 0
      ∧ ¬ ((fill (1/10000000000) [0, 1] [2, 3/4] [0, 1, 3/2, 2]).toOption
            = some ([0, 1, 3/2, 2].map (stepAt [0, 1] [2, 3/4]))) := by
  decide +kernel

/-- **fill_eq_step for the repaired padding** (fixes/C14-2.patch: the last element of a full-length step coefficient is
replaced by 0): the hypothesis `LastZero` is gone — for *every* coefficient array of length `n-1` or `n` the resampled
coefficient at every merged point is the channel's step function there. -/
theorem fill_eq_step_repaired (tol : Rat) (grids : List (List Rat)) (T tl cs : List Rat) (htol : 0 ≤ tol)
    (hgr : ∀ g ∈ grids, GoodGrid g) (hsep : SepAll tol grids) (hmem : tl ∈ grids)
    (hT : fullTlist tol grids = some T)
    (hlen : cs.length + 1 = tl.length ∨ cs.length = tl.length) :
    fillV true tol tl cs T = .ok (T.map (stepAt tl cs)) := by
  unfold fillV
  rw [fill_eq_step tol grids T tl _ htol hgr hsep hmem hT (lastZero_normCoeff tl cs hlen (hgr tl hmem).2.2)]
  congr 1
  apply List.map_congr_left
  intro t _
  exact stepAt_normCoeff tl cs t hlen

-- the witness of `leak_counterexample` under the repaired padding
example : (fullCoeffsV true (1/10000000000) [.arr [0, 1] [2, 3/4], .arr [0, 3/2, 2] [1/2, 1/4]]).toOption
    = some ([0, 1, 3/2, 2], [[2, 0, 0, 0], [1/2, 1/2, 1/4, 0]]) := by decide +kernel

/-- **piecewise_constant.** Between two consecutive merged points no channel changes its value: for every
`t` in `[T_k, T_{k+1})` the step function of a channel whose grid points all belong to `T` equals its value
at `T_k`.  Hence `H(t) = drift + Σ_m c_m(T_k) H_m` on the whole slot; that the ordered product of the slice
exponentials is the time-ordered exponential is PROVED below (`run_analytically_is_time_ordered`). -/
theorem piecewise_constant (T tl cs : List Rat) (hT : T.Pairwise (· < ·)) (hsub : ∀ p ∈ tl, p ∈ T)
    (k : Nat) (hk : k + 1 < T.length) (t : Rat) (h1 : T[k] ≤ t) (h2 : t < T[k + 1]) :
    stepAt tl cs t = stepAt tl cs T[k] :=
  stepAt_const tl cs T[k] T[k + 1] t (fun p hp => not_between hT k hk p (hsub p hp)) h1 h2

example : stepAt [0, 3/2, 2] [1/2, 1/4] (5/4) = stepAt [0, 3/2, 2] [1/2, 1/4] 1 := by decide +kernel

/-- **get_full_coeffs** for array channels: the merged grid together with, for every channel, its step
function sampled on the merged grid. -/
theorem fullCoeffs_eq (tol : Rat) (chans : List (List Rat × List Rat)) (htol : 0 ≤ tol) (hne : chans ≠ [])
    (hgr : ∀ c ∈ chans, GoodGrid c.1) (hz : ∀ c ∈ chans, LastZero c.1 c.2)
    (hsep : SepAll tol (chans.map (·.1))) :
    fullCoeffs tol (chans.map fun c => Chan.arr c.1 c.2) =
      .ok (sortU (chans.map (·.1)).flatten,
           chans.map fun c => (sortU (chans.map (·.1)).flatten).map (stepAt c.1 c.2)) := by
  have hgrids : ∀ l : List (List Rat × List Rat),
      (l.map fun c => Chan.arr c.1 c.2).filterMap Chan.grid? = l.map (·.1) := by
    intro l; induction l <;> simp_all [Chan.grid?]
  have hne' : chans.map (·.1) ≠ [] := by simpa using hne
  have hT := fullTlist_eq_sortU hne' hsep
  have hvalid : valid (chans.map fun c => Chan.arr c.1 c.2) = true := by
    simp only [valid, List.all_map, List.all_eq_true]
    intro c hc
    rcases hz c hc with h | ⟨h, _⟩
    · simp; left; omega
    · simp [h]
  unfold fullCoeffs
  rw [hvalid]
  simp only [Bool.not_true, Bool.false_eq_true, if_false, procTlist, hgrids chans, hT]
  rw [mapMExcept_ok _
    (fun (ch : Chan) => match ch with
      | .arr tl cs => (sortU (chans.map (·.1)).flatten).map (stepAt tl cs)
      | _ => [])
    (chans.map fun c => Chan.arr c.1 c.2)
    (by
      intro a ha
      obtain ⟨c, hc, rfl⟩ := List.mem_map.mp ha
      simp only
      exact fill_eq_step tol (chans.map (·.1)) _ c.1 c.2 htol
        (fun g hg => by obtain ⟨c', hc', rfl⟩ := List.mem_map.mp hg; exact hgr c' hc')
        hsep (List.mem_map.mpr ⟨c, hc, rfl⟩) hT (hz c hc))]
  simp [List.map_map, Function.comp_def]

/-- **get_full_coeffs for the repaired padding**: no `LastZero` hypothesis. -/
theorem fullCoeffs_eq_repaired (tol : Rat) (chans : List (List Rat × List Rat)) (htol : 0 ≤ tol) (hne : chans ≠ [])
    (hgr : ∀ c ∈ chans, GoodGrid c.1)
    (hlen : ∀ c ∈ chans, c.2.length + 1 = c.1.length ∨ c.2.length = c.1.length)
    (hsep : SepAll tol (chans.map (·.1))) :
    fullCoeffsV true tol (chans.map fun c => Chan.arr c.1 c.2) =
      .ok (sortU (chans.map (·.1)).flatten,
           chans.map fun c => (sortU (chans.map (·.1)).flatten).map (stepAt c.1 c.2)) := by
  unfold fullCoeffsV
  have hmap : (chans.map fun c => Chan.arr c.1 c.2).map (Chan.norm true) =
      (chans.map fun c => (c.1, normCoeff true c.1 c.2)).map fun c => Chan.arr c.1 c.2 := by
    simp [List.map_map, Function.comp_def, Chan.norm]
  rw [hmap]
  have h1 : (chans.map fun c => (c.1, normCoeff true c.1 c.2)).map (·.1) = chans.map (·.1) := by
    simp [List.map_map, Function.comp_def]
  rw [fullCoeffs_eq tol _ htol (by simpa using hne)
    (by intro c hc; obtain ⟨c', hc', rfl⟩ := List.mem_map.mp hc; exact hgr c' hc')
    (by intro c hc; obtain ⟨c', hc', rfl⟩ := List.mem_map.mp hc
        exact lastZero_normCoeff c'.1 c'.2 (hlen c' hc') (hgr c' hc').2.2)
    (by rw [h1]; exact hsep)]
  rw [h1, List.map_map]
  congr 2
  apply List.map_congr_left
  intro c hc
  apply List.map_congr_left
  intro t _
  exact stepAt_normCoeff c.1 c.2 t (hlen c hc)

/-! ## the slice product is the time-ordered exponential -/

/-- **run_analytically_is_time_ordered.**  For every number of channels, all channel grids strictly increasing from 0
whose distinct points are more than `tol` apart, coefficient arrays of length `n-1` or `n`, every matrix size, every
drift and control matrices (Hermitian or not):

let `(T, rows)` be what `get_full_coeffs` returns (repaired padding, as in /repo), `Tend` the last merged point,
`H(t) = drift + Σ_m c_m(t)·H_m` on `[0, Tend)` the STATED Hamiltonian (`Grid.statedHam`: `c_m` is channel `m`'s step function
at the real time `t` — its value holds from one grid point to the next and is 0 once its grid has ended), and
`U_list = [exp(−i·dt_k·(drift + Σ_m rows[m][k]·H_m))]_k` what `run_analytically` computes from `slices T rows`
(`Grid.runAnalytically`, Mathlib's matrix exponential).  Then there is `U : ℝ → Matrix` (the ordered product of the slice
exponentials up to time `t`, `Grid.solOp`) with

1. `U(Tend) = U_list[n-1] ⋯ U_list[1]·U_list[0]`  — the product `run_analytically` returns;
2. `U(0) = 1`, `U` continuous;
3. `dU/dt = −i·H(t)·U(t)`: right derivative at EVERY real `t`, two-sided derivative at every `t` that is not a merged
   grid point (stated entry by entry, so that no matrix norm has to be named);
4. `U` is the ONLY such function: every `V` continuous on `[0, Tend]` with `V(0) = 1` and right derivative
   `−i·H(t)·V(t)` on `[0, Tend)` equals `U` on `[0, Tend]` (Grönwall);
5. and also the only one in the larger class that asks nothing at the grid points but continuity: every `V` continuous
   on `[0, Tend]` with `V(0) = 1` and (two-sided) derivative `−i·H(t)·V(t)` at the times of `(0, Tend)` that are not merged
   grid points equals `U` on `[0, Tend]` (Grönwall between consecutive grid points, continuity across them).

So the product of the slice exponentials is the time-ordered exponential of the stated Hamiltonian: an analytic
fact, formerly trusted. -/
theorem run_analytically_is_time_ordered {ι : Type*} [Fintype ι] [DecidableEq ι]
    (tol : Rat) (chans : List (List Rat × List Rat)) (htol : 0 ≤ tol) (hne : chans ≠ [])
    (hgr : ∀ c ∈ chans, GoodGrid c.1)
    (hlen : ∀ c ∈ chans, c.2.length + 1 = c.1.length ∨ c.2.length = c.1.length)
    (hsep : SepAll tol (chans.map (·.1)))
    (drift : Matrix ι ι ℂ) (ctrls : List (Matrix ι ι ℂ)) :
    ∃ (T : List Rat) (rows : List (List Rat)) (Tend : Rat) (U : ℝ → Matrix ι ι ℂ),
      fullCoeffsV true tol (chans.map fun c => Chan.arr c.1 c.2) = .ok (T, rows) ∧ T.getLast? = some Tend ∧
      U ((Tend : ℚ) : ℝ) = ordProdL (runAnalytically drift ctrls (slices T rows)) ∧
      U 0 = 1 ∧ Continuous U ∧
      (∀ (t : ℝ) (i j : ι), HasDerivWithinAt (fun s => U s i j)
        (((-Complex.I) • (statedHam drift ctrls chans Tend t * U t)) i j) (Set.Ici t) t) ∧
      (∀ t : ℝ, (∀ q ∈ T, ((q : ℚ) : ℝ) ≠ t) → ∀ i j : ι, HasDerivAt (fun s => U s i j)
        (((-Complex.I) • (statedHam drift ctrls chans Tend t * U t)) i j) t) ∧
      (∀ V : ℝ → Matrix ι ι ℂ, ContinuousOn V (Set.Icc 0 ((Tend : ℚ) : ℝ)) → V 0 = 1 →
        (∀ t ∈ Set.Ico (0 : ℝ) ((Tend : ℚ) : ℝ), ∀ i j : ι, HasDerivWithinAt (fun s => V s i j)
          (((-Complex.I) • (statedHam drift ctrls chans Tend t * V t)) i j) (Set.Ici t) t) →
        ∀ t ∈ Set.Icc (0 : ℝ) ((Tend : ℚ) : ℝ), V t = U t) ∧
      (∀ V : ℝ → Matrix ι ι ℂ, ContinuousOn V (Set.Icc 0 ((Tend : ℚ) : ℝ)) → V 0 = 1 →
        (∀ t ∈ Set.Ioo (0 : ℝ) ((Tend : ℚ) : ℝ), (∀ q ∈ T, ((q : ℚ) : ℝ) ≠ t) → ∀ i j : ι,
          HasDerivAt (fun s => V s i j) (((-Complex.I) • (statedHam drift ctrls chans Tend t * V t)) i j) t) →
        ∀ t ∈ Set.Icc (0 : ℝ) ((Tend : ℚ) : ℝ), V t = U t) := by
  let T := sortU (chans.map (·.1)).flatten
  have hT : T.Pairwise (· < ·) := sortU_pairwise _
  have hsub : ∀ c ∈ chans, ∀ p ∈ c.1, p ∈ T := by
    intro c hc p hp
    exact mem_sortU.mpr (List.mem_flatten.mpr ⟨c.1, List.mem_map.mpr ⟨c, hc, rfl⟩, hp⟩)
  obtain ⟨c0, hc0⟩ := List.exists_mem_of_ne_nil chans hne
  have hzero : ∀ c ∈ chans, (0 : Rat) ∈ c.1 := by
    intro c hc
    obtain ⟨_, hh, _⟩ := hgr c hc
    match hcl : c.1, hh with
    | a :: rest, hh => simp at hh; simp [hh]
  have hnn : ∀ x ∈ (chans.map (·.1)).flatten, (0 : Rat) ≤ x := by
    intro x hx
    obtain ⟨g, hg, hxg⟩ := List.mem_flatten.mp hx
    obtain ⟨c, hc, rfl⟩ := List.mem_map.mp hg
    obtain ⟨hp, hh, _⟩ := hgr c hc
    match hcl : c.1, hh, hp, hxg with
    | a :: rest, hh, hp, hxg =>
      simp at hh; subst hh
      rcases List.mem_cons.mp hxg with rfl | h
      · exact Rat.le_refl
      · exact Rat.le_of_lt ((List.pairwise_cons.mp hp).1 x h)
  have h0 : T.head? = some 0 :=
    head_sortU_zero _ (List.mem_flatten.mpr ⟨c0.1, List.mem_map.mpr ⟨c0, hc0, rfl⟩, hzero c0 hc0⟩) hnn
  have hTne : T ≠ [] := by intro h; rw [h] at h0; simp at h0
  obtain ⟨Tend, hlast⟩ : ∃ e, T.getLast? = some e := ⟨T.getLast hTne, List.getLast?_eq_getLast_of_ne_nil hTne⟩
  refine ⟨T, chans.map fun c => T.map (stepAt c.1 c.2), Tend, solOp drift ctrls chans T,
    fullCoeffs_eq_repaired tol chans htol hne hgr hlen hsep, hlast,
    solOp_end drift ctrls chans T hT Tend hlast, solOp_zero drift ctrls chans T hT h0,
    solOp_continuous drift ctrls chans T,
    fun t => (solOp_solves drift ctrls chans T hT h0 Tend hlast hsub t).1,
    fun t => (solOp_solves drift ctrls chans T hT h0 Tend hlast hsub t).2,
    fun V hc hV0 hV => solOp_unique drift ctrls chans T hT h0 Tend hlast hsub V hc hV0 hV,
    fun V hc hV0 hV => solOp_unique_off_grid drift ctrls chans T hT h0 Tend hlast hsub V hc hV0 hV⟩

-- non-vacuity: two channels ending at different times (hypotheses: `GoodGrid` by computation, `SepAll` as in the example
-- after `merged_contains`), drift σz, controls σx and a non-Hermitian matrix; the stated Hamiltonian in the slot [1, 3/2)
example : (∀ c ∈ [([0, 1], [2]), (([0, 3/2, 2] : List Rat), ([1/2, 1/4] : List Rat))], GoodGrid c.1 ∧
      (c.2.length + 1 = c.1.length ∨ c.2.length = c.1.length)) ∧
    statedHam (!![1, 0; 0, -1] : Matrix (Fin 2) (Fin 2) ℂ) [!![0, 1; 1, 0], !![0, 1; 0, 0]]
      [([0, 1], [2]), ([0, 3/2, 2], [1/2, 1/4])] 2 (5 / 4) = !![1, 1/2; 0, -1] := by
  constructor
  · intro c hc
    simp only [List.mem_cons, List.not_mem_nil, or_false] at hc
    rcases hc with rfl | rfl
    · exact ⟨⟨by decide +kernel, rfl, by decide⟩, Or.inl rfl⟩
    · exact ⟨⟨by decide +kernel, rfl, by decide⟩, Or.inl rfl⟩
  · have e : ((5 / 4 : ℝ)) = (((5 / 4 : Rat) : ℚ) : ℝ) := by norm_num
    unfold statedHam
    rw [if_pos ⟨by norm_num, by norm_num⟩, e]
    simp only [List.map_cons, List.map_nil, stepAtR_cast]
    have h1 : stepAt [0, 1] [2] (5 / 4) = 0 := by decide +kernel
    have h2 : stepAt [0, 3 / 2, 2] [1 / 2, 1 / 4] (5 / 4) = 1 / 2 := by decide +kernel
    rw [h1, h2]
    unfold linComb
    ext i j
    fin_cases i <;> fin_cases j <;> simp [List.zipWith]

/-- **Reload is a fixed point**: a channel given on the merged grid with a full-length coefficient array
(what `read_coeff` installs) resamples to itself. -/
theorem reload_fixed_point (tol : Rat) (T cs : List Rat) (htol : 0 ≤ tol) (hT : T.Pairwise (· < ·))
    (hlen : 2 ≤ T.length) (hcs : cs.length = T.length)
    (hgap : ∀ x ∈ T, ∀ y ∈ T, x < y → y - x > tol) (hge : ∀ t ∈ T, ∀ first, T.head? = some first → first ≤ t) :
    fill tol T cs T = .ok cs := by
  rw [Grid.fill_eq_code tol T cs T htol hT hlen (Or.inr hcs) hT (fun p hp => hp) hge
    (fun t ht p hp => by
      have htri : p < t ∨ p = t ∨ t < p := by grind
      rcases htri with h | h | h
      · right; right; exact hgap p hp t ht h
      · left; exact h
      · right; left; exact hgap t ht p hp h)]
  congr 1
  have hpad : padCoeff T cs = cs := by unfold padCoeff; rw [if_neg (by omega)]
  rw [hpad]
  apply List.ext_getElem (by simp [hcs])
  intro k h1 h2
  simp only [List.getElem_map]
  have hk : k < T.length := by simpa using h1
  unfold codeAt
  have hn : T.length - 1 < T.length := by omega
  by_cases hl : T.getLast? = some T[k]
  · rw [if_pos hl]
    rw [List.getLast?_eq_getElem?, List.getElem?_eq_getElem hn] at hl
    have hidx : k = T.length - 1 := by
      rcases Nat.lt_or_ge k (T.length - 1) with h | h
      · exfalso; have := lt_of_pairwise hT hk hn h; have := Option.some.inj hl; grind
      · omega
    rw [List.getLast?_eq_getElem?, List.getElem?_eq_getElem (by omega)]
    simp only [Option.getD_some]; congr 1; omega
  · rw [if_neg hl]
    have hk1 : k + 1 < T.length := by
      rcases Nat.lt_or_ge (k + 1) T.length with h | h
      · exact h
      · exfalso; apply hl
        rw [List.getLast?_eq_getElem?, List.getElem?_eq_getElem hn]; congr 2; omega
    exact stepAt_slot T cs T[k] hT k hk1 (by omega) Rat.le_refl (lt_of_pairwise hT hk hk1 (by omega))

example : (fill (1/10) [0, 1, 3/2, 2] [2, 3/4, 1/2, 0] [0, 1, 3/2, 2]).toOption = some [2, 3/4, 1/2, 0] := by
  decide +kernel

/-- **save/read round trip on labels**: the label list `read_coeff` reconstructs from the header line that
`save_coeff` writes is the list of pulse labels, provided no label contains the separator `;` or a newline
(tokens stand for characters; `#`, space and `;` differ from newline). -/
theorem save_read_labels {α : Type} [DecidableEq α] (hash space nl semi : α) (inctime : Bool)
    (labels : List (List α)) (hne : labels ≠ [])
    (hsemi : ∀ l ∈ labels, semi ∉ l) (hnl : ∀ l ∈ labels, nl ∉ l)
    (h1 : hash ≠ nl) (h2 : space ≠ nl) (h3 : semi ≠ nl) :
    readLabels semi inctime (firstLine nl (headerLine hash space nl semi inctime labels)) = labels := by
  have hjoin : nl ∉ joinSep semi labels := by
    clear hne hsemi
    induction labels with
    | nil => simp [joinSep]
    | cons l ls ih =>
      cases ls with
      | nil => simpa [joinSep] using hnl l (by simp)
      | cons l2 ls =>
        have : joinSep semi (l :: l2 :: ls) = l ++ semi :: joinSep semi (l2 :: ls) := rfl
        rw [this]
        simp only [List.mem_append, List.mem_cons, not_or]
        exact ⟨hnl l (by simp), fun h => h3 h.symm, ih (fun x hx => hnl x (by simp [hx]))⟩
  have htw : ∀ (body : List α), nl ∉ body → firstLine nl ([hash, space] ++ body ++ [nl]) = [hash, space] ++ body ++ [nl] := by
    intro body hb
    unfold firstLine
    have : ([hash, space] ++ body ++ [nl]).takeWhile (· ≠ nl) = [hash, space] ++ body := by
      rw [List.takeWhile_append_of_pos]
      · simp
      · intro x hx
        simp only [List.mem_append, List.mem_cons, List.not_mem_nil, or_false] at hx
        rcases hx with (rfl | rfl) | hx
        · simpa using h1
        · simpa using h2
        · simp; intro h; exact hb (h ▸ hx)
    rw [this]
  have hbody : ∀ body : List α, (([hash, space] ++ body ++ [nl]).drop 2).dropLast = body := by
    intro body; simp
  unfold headerLine readLabels
  cases inctime with
  | true =>
    simp only [if_true]
    rw [htw (semi :: joinSep semi labels) (by simp [hjoin]; exact fun h => h3 h.symm), hbody]
    have : semi :: joinSep semi labels = [] ++ semi :: joinSep semi labels := rfl
    rw [this, splitSep_append semi [] _ (by simp), splitSep_joinSep semi labels hne hsemi]
    rfl
  | false =>
    simp only [Bool.false_eq_true, if_false]
    rw [htw (joinSep semi labels) hjoin, hbody]
    exact splitSep_joinSep semi labels hne hsemi

example : readLabels 59 true (firstLine 10 (headerLine 35 32 10 59 true [[97, 98], [99]])) = [[97, 98], [99]] := by decide

/-- **when `save_coeff` writes a header line at all**: `np.savetxt(header=h)` writes none for the empty string, i.e. (call as
found, `always = false`) exactly when the time column is not included and the joined labels are empty — a single pulse with
the empty label; the repaired call (fixes/C14-5.patch, `always = true`) always writes it. -/
theorem header_written {α : Type} (always : Bool) (hash space nl semi : α) (inctime : Bool) (labels : List (List α)) :
    headerLineV always hash space nl semi inctime labels =
      if always = true ∨ inctime = true ∨ joinSep semi labels ≠ [] then
        some (headerLine hash space nl semi inctime labels) else none := by
  unfold headerLineV
  cases always <;> cases inctime <;> cases joinSep semi labels <;> simp

/-- **save/read round trip on labels, either shape of `save_coeff`**: whenever a header line is written
(`header_written`: always for the repaired call) the labels survive. -/
theorem save_read_labels_partial {α : Type} [DecidableEq α] (always : Bool) (hash space nl semi : α) (inctime : Bool)
    (labels : List (List α)) (hne : labels ≠ [])
    (hsemi : ∀ l ∈ labels, semi ∉ l) (hnl : ∀ l ∈ labels, nl ∉ l)
    (h1 : hash ≠ nl) (h2 : space ≠ nl) (h3 : semi ≠ nl)
    (hw : always = true ∨ inctime = true ∨ joinSep semi labels ≠ []) :
    (headerLineV always hash space nl semi inctime labels).map (fun l => readLabels semi inctime (firstLine nl l)) =
      some labels := by
  rw [header_written, if_pos hw, Option.map_some,
    save_read_labels hash space nl semi inctime labels hne hsemi hnl h1 h2 h3]

/-- **… repaired** (fixes/C14-5.patch): no condition on the header being non-empty. -/
theorem save_read_labels_repaired {α : Type} [DecidableEq α] (hash space nl semi : α) (inctime : Bool)
    (labels : List (List α)) (hne : labels ≠ [])
    (hsemi : ∀ l ∈ labels, semi ∉ l) (hnl : ∀ l ∈ labels, nl ∉ l)
    (h1 : hash ≠ nl) (h2 : space ≠ nl) (h3 : semi ≠ nl) :
    (headerLineV true hash space nl semi inctime labels).map (fun l => readLabels semi inctime (firstLine nl l)) =
      some labels :=
  save_read_labels_partial true hash space nl semi inctime labels hne hsemi hnl h1 h2 h3 (Or.inl rfl)

example : (headerLineV true 35 32 10 59 false [[]]).map (fun l => readLabels 59 false (firstLine 10 l)) = some [[]] := by
  decide

/-- **the full statement is false for the call as found**: a single pulse labelled `""` saved without the time column gets
no header line (the file starts with its first data row, which `read_coeff` then takes for the header: `KeyError`), although
the label contains neither `;` nor a newline. -/
theorem C14_counterexample_empty_header :
    headerLineV false 35 32 10 59 false [[]] = none ∧
    headerLineV true 35 32 10 59 false [[]] = some [35, 32, 10] := by decide

/-- **save/read round trip on shape**: with at least two time points, every pulse gets back an array with
one entry per merged time point — provided the table has more than one column (`inctime` or ≥ 2 pulses). -/
theorem save_read_shape (inctime : Bool) (rows n i : Nat) (hr : 2 ≤ rows) (hi : i < n)
    (hc : inctime = true ∨ 2 ≤ n) : readCoeffLen inctime rows n i = some rows := by
  have hshape : ∀ c, c ≠ 1 → loadShape rows c = [rows, c] := by
    intro c hc
    unfold loadShape
    rw [List.filter_cons_of_pos (by simp; omega), List.filter_cons_of_pos (by simpa using hc)]; rfl
  unfold readCoeffLen
  cases inctime with
  | true =>
    simp only [if_true]
    rw [hshape (n + 1) (by omega)]
    simp [hi]
  | false =>
    have h2 : n ≠ 1 := by
      rcases hc with h | h
      · cases h
      · omega
    simp only [Bool.false_eq_true, if_false]
    rw [hshape n h2]
    simp [hi]

/-- … and it is lost for a single pulse saved without the time column: `np.loadtxt` squeezes the one-column
table and `coeffs[0]` is a scalar. -/
theorem save_read_shape_counterexample (rows : Nat) : readCoeffLen false rows 1 0 = none := by
  unfold readCoeffLen loadShape
  by_cases h : rows = 1 <;> simp [List.filter, h]

/-- **save/read round trip on shape, repaired** (fixes/C14-3.patch, `np.loadtxt(..., ndmin=2)`): every pulse gets back an
array with one entry per merged time point — no condition on the number of pulses, columns or rows. -/
theorem save_read_shape_repaired (inctime : Bool) (rows n i : Nat) (hi : i < n) :
    readCoeffLenV true inctime rows n i = some rows := by
  unfold readCoeffLenV loadShapeV
  cases inctime <;> simp [hi]

/-- **Which interpolant the cubic branch uses, per sample count.**  `Gen.cubicInterp` is regenerated from the source of
`_fill_coeff` on every run (the routine called for a channel with `n` samples).  For every `n` its interpolant has the
degree `splineDegree n` of the not-a-knot spline through `n` samples — the degree QuTiP's order-3 coefficient (the function
the solver integrates) has: a line for 2, the parabola for 3, cubic pieces from 4 samples on; fewer than 2 samples raise.
(A branch such as `if len(old_tlist) < 4: np.interp(...)` regenerates a different `cubicInterp` and this proof breaks.) -/
theorem cubic_interpolant (n : Nat) : (Gen.cubicInterp n).degree n = splineDegree n := by
  simp [Gen.cubicInterp, Interp.degree]

theorem splineDegree_spec (n d : Nat) : splineDegree n = some d ↔ 2 ≤ n ∧ d = min 3 (n - 1) := by
  unfold splineDegree
  by_cases h : n < 2
  · simp [h]
  · simp [h]; omega

example : splineDegree 2 = some 1 ∧ splineDegree 3 = some 2 ∧ splineDegree 4 = some 3 ∧ splineDegree 9 = some 3 ∧
    splineDegree 1 = none ∧ Interp.linear.degree 3 = some 1 := by decide

/-- the unrepaired variants are the original functions -/
theorem variants_false : (∀ tol tl cs T, fillV false tol tl cs T = fill tol tl cs T) ∧
    (∀ it rows n i, readCoeffLenV false it rows n i = readCoeffLen it rows n i) := by
  constructor
  · intro tol tl cs T; simp [fillV, normCoeff]
  · intro it rows n i; rfl

/-! ## the advance step of `_fill_coeff` in both shapes (fixes/C14-7.patch)

`Grid.fillW w` / `Grid.fillVW zl w` / `Grid.fullCoeffsVW zl w`: `w = false` is the loop as found (`if`: the running index
moves at most one slot per merged point), `w = true` the repaired loop (`while`: it catches up over every slot that ends
before `t + tol`).  The check reads `w` from the tree.  Every theorem above holds for both shapes under the same hypotheses:
under `SepAll` the loop moves at most once per merged point, so the two shapes return the same list. -/

/-- the variant `w = false` is the original function, for both paddings -/
theorem variants_w_false :
    (∀ zl tol tl cs T, fillVW zl false tol tl cs T = fillV zl tol tl cs T) ∧
    (∀ zl tol chans, fullCoeffsVW zl false tol chans = fullCoeffsV zl tol chans) :=
  ⟨fun _ _ _ _ _ => fillW_false _ _ _ _, fun _ _ _ => fullCoeffsW_false _ _⟩

/-- **both shapes agree** on every channel of a processor within the hypotheses of the resampling theorems -/
theorem fill_w_eq_fill (w : Bool) (tol : Rat) (grids : List (List Rat)) (T tl cs : List Rat) (htol : 0 ≤ tol)
    (hgr : ∀ g ∈ grids, GoodGrid g) (hsep : SepAll tol grids) (hmem : tl ∈ grids)
    (hT : fullTlist tol grids = some T)
    (hlen : cs.length + 1 = tl.length ∨ cs.length = tl.length) :
    fillW w tol tl cs T = fill tol tl cs T :=
  fillW_eq_fill_grids w tol grids T tl cs htol hgr hsep hmem hT hlen

example : fillW true (1/10) [0, 3/2, 2] [1/2, 1/4] [0, 1, 3/2, 2] = fill (1/10) [0, 3/2, 2] [1/2, 1/4] [0, 1, 3/2, 2] := by
  decide +kernel

/-- `fill_eq_code` for both shapes -/
theorem fill_eq_code_w (w : Bool) (tol : Rat) (grids : List (List Rat)) (T tl cs : List Rat) (htol : 0 ≤ tol)
    (hgr : ∀ g ∈ grids, GoodGrid g) (hsep : SepAll tol grids) (hmem : tl ∈ grids)
    (hT : fullTlist tol grids = some T)
    (hlen : cs.length + 1 = tl.length ∨ cs.length = tl.length) :
    fillW w tol tl cs T = .ok (T.map (codeAt tl (padCoeff tl cs))) := by
  rw [fill_w_eq_fill w tol grids T tl cs htol hgr hsep hmem hT hlen]
  exact fill_eq_code tol grids T tl cs htol hgr hsep hmem hT hlen

/-- `fill_eq_step` for both shapes -/
theorem fill_eq_step_w (w : Bool) (tol : Rat) (grids : List (List Rat)) (T tl cs : List Rat) (htol : 0 ≤ tol)
    (hgr : ∀ g ∈ grids, GoodGrid g) (hsep : SepAll tol grids) (hmem : tl ∈ grids)
    (hT : fullTlist tol grids = some T) (hz : LastZero tl cs) :
    fillW w tol tl cs T = .ok (T.map (stepAt tl cs)) := by
  have hlen : cs.length + 1 = tl.length ∨ cs.length = tl.length := by
    rcases hz with h | ⟨h, _⟩
    · exact Or.inl h
    · exact Or.inr h
  rw [fill_w_eq_fill w tol grids T tl cs htol hgr hsep hmem hT hlen]
  exact fill_eq_step tol grids T tl cs htol hgr hsep hmem hT hz

/-- `fill_eq_step_repaired` for both shapes: the code of /repo with fixes/C14-2 and with or without fixes/C14-7 -/
theorem fill_eq_step_repaired_w (w : Bool) (tol : Rat) (grids : List (List Rat)) (T tl cs : List Rat) (htol : 0 ≤ tol)
    (hgr : ∀ g ∈ grids, GoodGrid g) (hsep : SepAll tol grids) (hmem : tl ∈ grids)
    (hT : fullTlist tol grids = some T)
    (hlen : cs.length + 1 = tl.length ∨ cs.length = tl.length) :
    fillVW true w tol tl cs T = .ok (T.map (stepAt tl cs)) := by
  unfold fillVW
  rw [fill_w_eq_fill w tol grids T tl _ htol hgr hsep hmem hT (normCoeff_len true tl cs hlen (hgr tl hmem).2.2)]
  exact fill_eq_step_repaired tol grids T tl cs htol hgr hsep hmem hT hlen

example : (fillVW true true (1/10) [0, 1] [2, 3/4] [0, 1, 3/2, 2]).toOption = some [2, 0, 0, 0] ∧
    [0, 1, 3/2, 2].map (stepAt [0, 1] [2, 3/4]) = [2, 0, 0, 0] := by decide +kernel

/-- `fullCoeffs_eq` for both shapes -/
theorem fullCoeffs_eq_w (w : Bool) (tol : Rat) (chans : List (List Rat × List Rat)) (htol : 0 ≤ tol) (hne : chans ≠ [])
    (hgr : ∀ c ∈ chans, GoodGrid c.1) (hz : ∀ c ∈ chans, LastZero c.1 c.2)
    (hsep : SepAll tol (chans.map (·.1))) :
    fullCoeffsW w tol (chans.map fun c => Chan.arr c.1 c.2) =
      .ok (sortU (chans.map (·.1)).flatten,
           chans.map fun c => (sortU (chans.map (·.1)).flatten).map (stepAt c.1 c.2)) := by
  rw [fullCoeffsW_eq w tol chans htol hne hgr (fun c hc => by
    rcases hz c hc with h | ⟨h, _⟩
    · exact Or.inl h
    · exact Or.inr h) hsep]
  exact fullCoeffs_eq tol chans htol hne hgr hz hsep

/-- `fullCoeffs_eq_repaired` for both shapes -/
theorem fullCoeffs_eq_repaired_w (w : Bool) (tol : Rat) (chans : List (List Rat × List Rat)) (htol : 0 ≤ tol)
    (hne : chans ≠ []) (hgr : ∀ c ∈ chans, GoodGrid c.1)
    (hlen : ∀ c ∈ chans, c.2.length + 1 = c.1.length ∨ c.2.length = c.1.length)
    (hsep : SepAll tol (chans.map (·.1))) :
    fullCoeffsVW true w tol (chans.map fun c => Chan.arr c.1 c.2) =
      .ok (sortU (chans.map (·.1)).flatten,
           chans.map fun c => (sortU (chans.map (·.1)).flatten).map (stepAt c.1 c.2)) := by
  rw [fullCoeffsVW_eq true w tol chans htol hne hgr hlen hsep]
  exact fullCoeffs_eq_repaired tol chans htol hne hgr hlen hsep

example : (fullCoeffsVW true true (1/10000000000) [.arr [0, 1] [2, 3/4], .arr [0, 3/2, 2] [1/2, 1/4]]).toOption
    = some ([0, 1, 3/2, 2], [[2, 0, 0, 0], [1/2, 1/2, 1/4, 0]]) := by decide +kernel

/-- `run_analytically_is_time_ordered` for both shapes of the advance step: the rows `get_full_coeffs` returns are the
same, hence so are the slices, their product and everything said about it. -/
theorem run_analytically_is_time_ordered_w {ι : Type*} [Fintype ι] [DecidableEq ι] (w : Bool)
    (tol : Rat) (chans : List (List Rat × List Rat)) (htol : 0 ≤ tol) (hne : chans ≠ [])
    (hgr : ∀ c ∈ chans, GoodGrid c.1)
    (hlen : ∀ c ∈ chans, c.2.length + 1 = c.1.length ∨ c.2.length = c.1.length)
    (hsep : SepAll tol (chans.map (·.1)))
    (drift : Matrix ι ι ℂ) (ctrls : List (Matrix ι ι ℂ)) :
    ∃ (T : List Rat) (rows : List (List Rat)) (Tend : Rat) (U : ℝ → Matrix ι ι ℂ),
      fullCoeffsVW true w tol (chans.map fun c => Chan.arr c.1 c.2) = .ok (T, rows) ∧ T.getLast? = some Tend ∧
      U ((Tend : ℚ) : ℝ) = ordProdL (runAnalytically drift ctrls (slices T rows)) ∧
      U 0 = 1 ∧ Continuous U ∧
      (∀ (t : ℝ) (i j : ι), HasDerivWithinAt (fun s => U s i j)
        (((-Complex.I) • (statedHam drift ctrls chans Tend t * U t)) i j) (Set.Ici t) t) ∧
      (∀ t : ℝ, (∀ q ∈ T, ((q : ℚ) : ℝ) ≠ t) → ∀ i j : ι, HasDerivAt (fun s => U s i j)
        (((-Complex.I) • (statedHam drift ctrls chans Tend t * U t)) i j) t) ∧
      (∀ V : ℝ → Matrix ι ι ℂ, ContinuousOn V (Set.Icc 0 ((Tend : ℚ) : ℝ)) → V 0 = 1 →
        (∀ t ∈ Set.Ico (0 : ℝ) ((Tend : ℚ) : ℝ), ∀ i j : ι, HasDerivWithinAt (fun s => V s i j)
          (((-Complex.I) • (statedHam drift ctrls chans Tend t * V t)) i j) (Set.Ici t) t) →
        ∀ t ∈ Set.Icc (0 : ℝ) ((Tend : ℚ) : ℝ), V t = U t) ∧
      (∀ V : ℝ → Matrix ι ι ℂ, ContinuousOn V (Set.Icc 0 ((Tend : ℚ) : ℝ)) → V 0 = 1 →
        (∀ t ∈ Set.Ioo (0 : ℝ) ((Tend : ℚ) : ℝ), (∀ q ∈ T, ((q : ℚ) : ℝ) ≠ t) → ∀ i j : ι,
          HasDerivAt (fun s => V s i j) (((-Complex.I) • (statedHam drift ctrls chans Tend t * V t)) i j) t) →
        ∀ t ∈ Set.Icc (0 : ℝ) ((Tend : ℚ) : ℝ), V t = U t) := by
  obtain ⟨T, rows, Tend, U, h1, rest⟩ :=
    run_analytically_is_time_ordered tol chans htol hne hgr hlen hsep drift ctrls
  exact ⟨T, rows, Tend, U, by rw [fullCoeffsVW_eq true w tol chans htol hne hgr hlen hsep]; exact h1, rest⟩

/-- **What the repair is for.**  Channel a has a slot of `8·10⁻¹¹ < tol = 10⁻¹⁰` (the pulse of a rotation by `10⁻⁹`): the
merged grid has no point for its end.  The loop as found then reads every later coefficient of the channel one slot off
(`7/10` on the merged slot `[1/2, 1)`, where the channel's value is `-2/5`, and `-2/5` at the end point, where it is 0); the repaired loop returns the step function. -/
theorem catchup_counterexample :
    (fullCoeffsVW true false (1/10000000000)
        [.arr [0, 1/2, 1/2 + 8/100000000000, 1] [1, 7/10, -2/5], .arr [0, 1] [3/10]]).toOption
      = some ([0, 1/2, 1], [[1, 7/10, -2/5], [3/10, 3/10, 0]])
    ∧ (fullCoeffsVW true true (1/10000000000)
        [.arr [0, 1/2, 1/2 + 8/100000000000, 1] [1, 7/10, -2/5], .arr [0, 1] [3/10]]).toOption
      = some ([0, 1/2, 1], [[1, -2/5, 0], [3/10, 3/10, 0]])
    ∧ stepAt [0, 1/2, 1/2 + 8/100000000000, 1] [1, 7/10, -2/5] (3/4) = -2/5 := by
  decide +kernel

/-- **The repaired loop without any hypothesis on distances** (no `SepAll`, no lower bound on the slot lengths, no
assumption that the grid `T` contains the channel's points): for a strictly increasing channel grid with at least one slot,
every coefficient array of length `n-1` or `n` (repaired padding) and ANY strictly increasing `T`, the resampling succeeds
and its value at every point `t` of `T` is the channel's step function at SOME time within `tol` of `t` — a slot shorter
than the resolution can only lose its own slice, it can no longer shift the later coefficients. -/
theorem fill_catchup_near (tol : Rat) (T tl cs : List Rat) (htol : 0 ≤ tol)
    (hp : tl.Pairwise (· < ·)) (h2 : 2 ≤ tl.length)
    (hlen : cs.length + 1 = tl.length ∨ cs.length = tl.length) (hT : T.Pairwise (· < ·)) :
    ∃ rs, fillVW true true tol tl cs T = .ok rs ∧ rs.length = T.length ∧
      ∀ k (h1 : k < T.length) (h2 : k < rs.length),
        ∃ s, T[k] - tol ≤ s ∧ s ≤ T[k] + tol ∧ rs[k] = stepAt tl cs s := by
  obtain ⟨rs, hrs, hall⟩ := fillW_true_near tol tl (normCoeff true tl cs) T htol hp h2 (lastZero_normCoeff tl cs hlen h2) hT
  obtain ⟨hl, hk⟩ := All2.get hall
  refine ⟨rs, hrs, hl.symm, fun k h1 h2 => ?_⟩
  obtain ⟨s, a, b, c⟩ := hk k h1 h2
  exact ⟨s, a, b, by rw [c, stepAt_normCoeff tl cs s hlen]⟩

-- non-vacuity: the channel of `catchup_counterexample` on the merged grid [0, 1/2, 1]
example : (fillVW true true (1/10000000000) [0, 1/2, 1/2 + 8/100000000000, 1] [1, 7/10, -2/5] [0, 1/2, 1]).toOption
    = some [1, -2/5, 0] ∧ ([0, 1/2, 1/2 + 8/100000000000, 1] : List Rat).Pairwise (· < ·) := by
  constructor
  · decide +kernel
  · decide +kernel

/-! ## the reference point of the de-duplication in `get_full_tlist` (fixes/C14-8.patch)

`Grid.fullTlistK kk` / `Grid.fullCoeffsVWK zl w kk`: `kk = false` is the code as found (a point is dropped when it is within `tol` of
its PREDECESSOR in the sorted list, kept or not), `kk = true` the repaired loop (within `tol` of the last KEPT point).  The check
reads `kk` from the tree.  The theorems about the merged grid and everything built on it hold for both; only the repaired one
represents every channel point. -/

/-- the variant `kk = false` is the original function -/
theorem variants_k_false :
    (∀ tol grids, fullTlistK false tol grids = fullTlist tol grids) ∧
    (∀ zl w tol chans, fullCoeffsVWK zl w false tol chans = fullCoeffsVW zl w tol chans) :=
  ⟨fullTlistK_false, fullCoeffsVWK_false⟩

/-- `merged_strict` for both reference points -/
theorem merged_strict_k (kk : Bool) (tol : Rat) (grids : List (List Rat)) (T : List Rat) (h : fullTlistK kk tol grids = some T) :
    T.Pairwise (· < ·) ∧ GapsGt tol T ∧ ∀ t ∈ T, ∃ g ∈ grids, t ∈ g :=
  ⟨fullTlistK_pairwise h, fullTlistK_gaps h, fullTlistK_subset h⟩

example : fullTlistK true (1/10) [[0, 1, 2], [0, 3/2, 41/20, 3]] = some [0, 1, 3/2, 2, 3] := by decide +kernel

/-- `merged_contains` for both reference points -/
theorem merged_contains_k (kk : Bool) (tol : Rat) (grids : List (List Rat)) (hne : grids ≠ []) (hsep : SepAll tol grids) :
    ∃ T, fullTlistK kk tol grids = some T ∧ T.Pairwise (· < ·) ∧
      (∀ g ∈ grids, ∀ x ∈ g, x ∈ T) ∧ (∀ t ∈ T, ∃ g ∈ grids, t ∈ g) := by
  refine ⟨sortU grids.flatten, fullTlistK_eq_sortU kk hne hsep, sortU_pairwise _, ?_, ?_⟩
  · intro g hg x hx; rw [mem_sortU, List.mem_flatten]; exact ⟨g, hg, hx⟩
  · intro t ht; rw [mem_sortU, List.mem_flatten] at ht; exact ht

/-- **The repaired merged grid represents every channel point, unconditionally**: whatever the grids are (chains of
near-duplicates included), every point of every channel has a merged point at most `tol` below it. -/
theorem merged_covers (tol : Rat) (grids : List (List Rat)) (T : List Rat) (htol : 0 ≤ tol)
    (h : fullTlistK true tol grids = some T) : ∀ g ∈ grids, ∀ x ∈ g, ∃ t ∈ T, t ≤ x ∧ x - t ≤ tol :=
  fullTlistK_true_covers htol h

/-- **The code as found does not**: three channels with the points `1`, `1 + 0.7·tol`, `1 + 1.4·tol`.  Both later points are
dropped, although the last is more than `tol` from every merged point; the third channel then keeps its old coefficient
`-9/10` over the whole merged slot `[1, 2)`, where its value is `17/10` — with both repairs of `_fill_coeff` in place.  The
repaired de-duplication keeps the point and the rows are the step functions. -/
theorem C14_counterexample_chained :
    fullTlistK false (1/10000000000) [[0, 1, 2], [0, 1 + 7/100000000000, 2], [0, 1 + 14/100000000000, 2]] = some [0, 1, 2]
    ∧ (fullCoeffsVWK true true false (1/10000000000)
        [.arr [0, 1, 2] [1/2, -4/5], .arr [0, 1 + 7/100000000000, 2] [11/10, 3/10],
         .arr [0, 1 + 14/100000000000, 2] [-9/10, 17/10]]).toOption
      = some ([0, 1, 2], [[1/2, -4/5, 0], [11/10, 3/10, 0], [-9/10, -9/10, 0]])
    ∧ stepAt [0, 1 + 14/100000000000, 2] [-9/10, 17/10] (3/2) = 17/10
    ∧ (fullCoeffsVWK true true true (1/10000000000)
        [.arr [0, 1, 2] [1/2, -4/5], .arr [0, 1 + 7/100000000000, 2] [11/10, 3/10],
         .arr [0, 1 + 14/100000000000, 2] [-9/10, 17/10]]).toOption
      = some ([0, 1, 1 + 14/100000000000, 2], [[1/2, -4/5, -4/5, 0], [11/10, 3/10, 3/10, 0], [-9/10, -9/10, 17/10, 0]]) := by
  decide +kernel

/-- `fullCoeffs_eq_repaired` for every variant of the tree (advance step `w`, reference point `kk`) -/
theorem fullCoeffs_eq_repaired_k (w kk : Bool) (tol : Rat) (chans : List (List Rat × List Rat)) (htol : 0 ≤ tol)
    (hne : chans ≠ []) (hgr : ∀ c ∈ chans, GoodGrid c.1)
    (hlen : ∀ c ∈ chans, c.2.length + 1 = c.1.length ∨ c.2.length = c.1.length)
    (hsep : SepAll tol (chans.map (·.1))) :
    fullCoeffsVWK true w kk tol (chans.map fun c => Chan.arr c.1 c.2) =
      .ok (sortU (chans.map (·.1)).flatten,
           chans.map fun c => (sortU (chans.map (·.1)).flatten).map (stepAt c.1 c.2)) := by
  rw [fullCoeffsVWK_eq true w kk tol chans hne hsep]
  exact fullCoeffs_eq_repaired_w w tol chans htol hne hgr hlen hsep

example : (fullCoeffsVWK true true true (1/10000000000) [.arr [0, 1] [2, 3/4], .arr [0, 3/2, 2] [1/2, 1/4]]).toOption
    = some ([0, 1, 3/2, 2], [[2, 0, 0, 0], [1/2, 1/2, 1/4, 0]]) := by decide +kernel

/-- `run_analytically_is_time_ordered` for every variant of the tree -/
theorem run_analytically_is_time_ordered_k {ι : Type*} [Fintype ι] [DecidableEq ι] (w kk : Bool)
    (tol : Rat) (chans : List (List Rat × List Rat)) (htol : 0 ≤ tol) (hne : chans ≠ [])
    (hgr : ∀ c ∈ chans, GoodGrid c.1)
    (hlen : ∀ c ∈ chans, c.2.length + 1 = c.1.length ∨ c.2.length = c.1.length)
    (hsep : SepAll tol (chans.map (·.1)))
    (drift : Matrix ι ι ℂ) (ctrls : List (Matrix ι ι ℂ)) :
    ∃ (T : List Rat) (rows : List (List Rat)) (Tend : Rat) (U : ℝ → Matrix ι ι ℂ),
      fullCoeffsVWK true w kk tol (chans.map fun c => Chan.arr c.1 c.2) = .ok (T, rows) ∧ T.getLast? = some Tend ∧
      U ((Tend : ℚ) : ℝ) = ordProdL (runAnalytically drift ctrls (slices T rows)) ∧
      U 0 = 1 ∧ Continuous U ∧
      (∀ (t : ℝ) (i j : ι), HasDerivWithinAt (fun s => U s i j)
        (((-Complex.I) • (statedHam drift ctrls chans Tend t * U t)) i j) (Set.Ici t) t) ∧
      (∀ t : ℝ, (∀ q ∈ T, ((q : ℚ) : ℝ) ≠ t) → ∀ i j : ι, HasDerivAt (fun s => U s i j)
        (((-Complex.I) • (statedHam drift ctrls chans Tend t * U t)) i j) t) ∧
      (∀ V : ℝ → Matrix ι ι ℂ, ContinuousOn V (Set.Icc 0 ((Tend : ℚ) : ℝ)) → V 0 = 1 →
        (∀ t ∈ Set.Ico (0 : ℝ) ((Tend : ℚ) : ℝ), ∀ i j : ι, HasDerivWithinAt (fun s => V s i j)
          (((-Complex.I) • (statedHam drift ctrls chans Tend t * V t)) i j) (Set.Ici t) t) →
        ∀ t ∈ Set.Icc (0 : ℝ) ((Tend : ℚ) : ℝ), V t = U t) ∧
      (∀ V : ℝ → Matrix ι ι ℂ, ContinuousOn V (Set.Icc 0 ((Tend : ℚ) : ℝ)) → V 0 = 1 →
        (∀ t ∈ Set.Ioo (0 : ℝ) ((Tend : ℚ) : ℝ), (∀ q ∈ T, ((q : ℚ) : ℝ) ≠ t) → ∀ i j : ι,
          HasDerivAt (fun s => V s i j) (((-Complex.I) • (statedHam drift ctrls chans Tend t * V t)) i j) t) →
        ∀ t ∈ Set.Icc (0 : ℝ) ((Tend : ℚ) : ℝ), V t = U t) := by
  obtain ⟨T, rows, Tend, U, h1, rest⟩ :=
    run_analytically_is_time_ordered_w w tol chans htol hne hgr hlen hsep drift ctrls
  exact ⟨T, rows, Tend, U, by rw [fullCoeffsVWK_eq true w kk tol chans hne hsep]; exact h1, rest⟩

end QipVerif.C14
