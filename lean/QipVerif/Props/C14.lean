import QipVerif.Model.Grid
/-! C14 — property theorems (in progress) -/
namespace QipVerif.C14
end QipVerif.C14
