import QipVerif.Lemmas.ZyzExact
import QipVerif.Lemmas.ZyzCphase
import QipVerif.Lemmas.ZyzQftList
import QipVerif.Lemmas.ZyzQftSem
import QipVerif.Lemmas.ZyzQftSmall
import QipVerif.Lemmas.ZyzQftCnot
import QipVerif.Lemmas.ZyzQftEnc
/-!
# C17 — single-qubit decompositions and QFT circuits are exact

Property theorems only.

* `Zyz.gatesOf t U` is the gate list the method with regenerated tuple `t`
  (`Gen.Zyz.zyz / zxz / zyzPauliX`) returns for input `U`, with the angles `_angles_for_ZYZ`
  computes (`Lemmas/ZyzModel.lean`; `np.sqrt` is the principal root `csqrt`).
* `Zyz.circDen` applies a gate list in list order (first gate = right-most matrix factor).
* `Zyz.cphaseToCnot λ` is the list `_cphase_to_cnot` returns (regenerated template + ZYZ_PauliX model).
* `Qft.gateSequence / Qft.qftSteps` are the gate / step lists of `qft_gate_sequence / qft_steps`.

* `QftDen.circDenN N gs` is the operator of a gate list of the model on an `N`-qubit register
  (`St N = Fin N → Fin 2`, qubit 0 = most significant bit): the gate matrices placed with `Tg.embed`
  (C08's specification) and multiplied in circuit order; `QftDen.dftMat N` is
  `F[y,x] = e^{2πi·val y·val x/2^N}/√(2^N)` with `val` = the package's big-endian flat index.
-/
namespace QipVerif.C17
open Matrix Complex
open QipVerif.Zyz QipVerif.Gen.Zyz

/-! ## (1),(2) the three decompositions are exact on all of U(2), global phase included -/

/-- **ZYZ is exact** for every `U ∈ U(2)` (no genericity hypothesis: diagonal, anti-diagonal, scalar
and det = −1 inputs included). -/
theorem zyz_exact (U : M2) (hU : U ∈ Matrix.unitaryGroup (Fin 2) ℂ) : circDen (gatesOf zyz U) = U :=
  zyz_exact_with U hU _ (normConst_sq U)

/-- **ZXZ is exact** for every `U ∈ U(2)`. -/
theorem zxz_exact (U : M2) (hU : U ∈ Matrix.unitaryGroup (Fin 2) ℂ) : circDen (gatesOf zxz U) = U :=
  zxz_exact_with U hU _ (normConst_sq U)

/-- **ZYZ_PauliX is exact** for every `U ∈ U(2)`. -/
theorem zyz_paulix_exact (U : M2) (hU : U ∈ Matrix.unitaryGroup (Fin 2) ℂ) :
    circDen (gatesOf zyzPauliX U) = U :=
  zyzPauliX_exact_with U hU _ (normConst_sq U)

/-- The same with **any** square root of the determinant as `normalization_constant` (numpy's choice on
the branch cut `det = −1` is a rounding matter; either root works). -/
theorem decomp_exact_any_root (U : M2) (hU : U ∈ Matrix.unitaryGroup (Fin 2) ℂ) (n : ℂ) (hn : n * n = U.det) :
    circDen (gatesWith zyz U n) = U ∧ circDen (gatesWith zxz U n) = U ∧ circDen (gatesWith zyzPauliX U n) = U :=
  ⟨zyz_exact_with U hU n hn, zxz_exact_with U hU n hn, zyzPauliX_exact_with U hU n hn⟩

/-- only the promised axes (and Pauli X) occur, in the promised order -/
theorem decomp_axes (U : M2) :
    (gatesOf zyz U).map Prod.fst = [.RZ, .RY, .RZ, .GLOBALPHASE] ∧
    (gatesOf zxz U).map Prod.fst = [.RZ, .RX, .RZ, .GLOBALPHASE] ∧
    (gatesOf zyzPauliX U).map Prod.fst = [.RZ, .RY, .X, .RY, .RZ, .X, .RZ, .GLOBALPHASE] := by
  simp [gatesOf, gatesWith, inst, zyz, zxz, zyzPauliX]

-- non-vacuity: Pauli X (anti-diagonal, det = −1: two degenerate families at once) is in U(2)
example : Xg ∈ Matrix.unitaryGroup (Fin 2) ℂ := by
  rw [Matrix.mem_unitaryGroup_iff]
  ext i j
  fin_cases i <;> fin_cases j <;> simp [Xg, Matrix.mul_apply, Fin.sum_univ_two, Matrix.star_apply]

/-- parametrisation of U(2) used by the proof -/
theorem u2_parametrisation (U : M2) (hU : U ∈ Matrix.unitaryGroup (Fin 2) ℂ) :
    U 1 1 = U.det * (starRingEnd ℂ) (U 0 0) ∧ U 1 0 = -(U.det * (starRingEnd ℂ) (U 0 1)) ∧
    ‖U 0 0‖ ^ 2 + ‖U 0 1‖ ^ 2 = 1 ∧ ‖U.det‖ = 1 :=
  ⟨unitary_u11 hU, unitary_u10 hU, unitary_norm_row hU, unitary_norm_det hU⟩

/-- entries of a Z–Y–Z product with global phase, for all real angles -/
theorem zyz_product_entries (α θ β φ : ℝ) :
    circDen [(.RZ, α), (.RY, θ), (.RZ, β), (.GLOBALPHASE, φ)] =
      cexp (I * φ) • !![cexp (-(I * ((α + β) / 2))) * Complex.cos (θ / 2),
                          -(cexp (I * ((α - β) / 2)) * Complex.sin (θ / 2));
                        cexp (-(I * ((α - β) / 2))) * Complex.sin (θ / 2),
                          cexp (I * ((α + β) / 2)) * Complex.cos (θ / 2)] := by
  rw [← prod_entries]; simp [circDen, gateMat, mul_assoc]

/-! ## (3) controlled phase expanded into CNOTs -/

/-- For `−π < λ ≤ π` (the QFT uses `λ = π/2^k`), the list `_cphase_to_cnot(t, c, λ)` returns —
including its recorded GLOBALPHASE gate — multiplies to `e^{iλ/2}·CPHASE(λ)`: a controlled phase up to
the global phase `λ/2`. -/
theorem cphase_to_cnot_exact (l : ℝ) (h1 : -Real.pi < l) (h2 : l ≤ Real.pi) :
    ∃ gs, cphaseToCnot l = some gs ∧ circDen2 gs = cexp (I * ((l / 2 : ℝ) : ℂ)) • cphaseMat l :=
  ⟨_, cphaseToCnot_eq h1 h2, cnot_expansion_identity l⟩

example : -Real.pi < Real.pi / 2 ∧ Real.pi / 2 ≤ Real.pi := by
  constructor <;> linarith [Real.pi_pos]

/-- the underlying 4×4 identity, for **every** real `λ` -/
theorem cnot_expansion_identity (l : ℝ) :
    circDen2 [.one .RZ (l / 2) .targets, .cnot, .one .RZ (-(l / 2)) .targets, .cnot,
      .one .RZ (l / 2) .controls, .phase (l / 2 + l / 4)] = cexp (I * ((l / 2 : ℝ) : ℂ)) • cphaseMat l :=
  Zyz.cnot_expansion_identity l

/-- the expansion written in `Model/Qft.lean` (what the driver prints) is that list for `λ = π/2^k`,
for every control `c ≠ t` and every `k` -/
theorem qft_cnot_expansion_exact (c t k : Nat) (h : c ≠ t) :
    ∃ l, (Qft.cphaseToCnot c t k).mapM (toP2 c t) = some l ∧
      circDen2 l = cexp (I * ((Real.pi / 2 ^ k / 2 : ℝ) : ℂ)) • cphaseMat (Real.pi / 2 ^ k) :=
  model_expansion_exact c t k h

/-! ## (4) circuit and step list agree, for every N and both flags; structure -/

/-- The gate list of `qft_gate_sequence(N, swapping, to_cnot)` is the concatenation of the gate lists
of the steps of `qft_steps(N, swapping)` (each controlled-phase step expanded into CNOTs when
`to_cnot`), and both raise `ValueError` exactly when `N < 1`. -/
theorem qft_circuit_eq_steps (N : Nat) (sw cn : Bool) :
    Qft.gateSequence N sw cn = (Qft.qftSteps N sw).map (fun ss => ss.flatMap (Qft.Step.gates cn)) :=
  Qft.gateSequence_eq_steps N sw cn

example : Qft.gateSequence 3 true false =
    some [Qft.snot 0, Qft.cphase 1 0 1, Qft.snot 1, Qft.cphase 2 0 2, Qft.cphase 2 1 1, Qft.snot 2,
      Qft.swap 2 0] := by decide

/-- number of gates: `N(N−1)/2` controlled phases (6 gates each when expanded), `N` Hadamards,
`⌊N/2⌋` swaps -/
theorem qft_gate_count (N : Nat) (sw cn : Bool) (gs : List Qft.Gate) (h : Qft.gateSequence N sw cn = some gs) :
    gs.length = Qft.perCphase cn * Qft.tri N + N + (if sw then N / 2 else 0) ∧ 2 * Qft.tri (N - 1 + 1) = (N - 1 + 1) * (N - 1) :=
  ⟨Qft.gateSequence_length N sw cn gs h, Qft.two_tri (N - 1)⟩

/-- every qubit index mentioned by the circuit is `< N` -/
theorem qft_indices_in_range (N : Nat) (sw cn : Bool) (gs : List Qft.Gate)
    (h : Qft.gateSequence N sw cn = some gs) : ∀ g ∈ gs, ∀ q ∈ g.qubits, q < N :=
  Qft.gateSequence_qubits N sw cn gs h

example : ∃ gs, Qft.gateSequence 4 true true = some gs ∧ gs.length = 42 := ⟨_, rfl, by decide⟩

/-! ## (5) QFT = DFT: FINITE INSTANCES ONLY (N ≤ 4) — this is a kernel-evaluated test, not the property -/

/-- For N = 1, 2, 3, 4 the model's circuit (with swaps, native controlled phases) maps every basis vector to
the corresponding column of `√(2^N)·DFT` (each Hadamard taken as `√2·H`), in exact ℤ[e^{2πi/16}] arithmetic
with the state-vector semantics of `Lemmas/ZyzQftSmall.lean`.  The identity for general `N` is NOT proved. -/
theorem qft_eq_dft_le4 :
    QftSmall.qftCheck 1 = true ∧ QftSmall.qftCheck 2 = true ∧ QftSmall.qftCheck 3 = true ∧ QftSmall.qftCheck 4 = true :=
  QftSmall.qft_eq_dft_le4

-- the checker is not vacuous: without the final swaps the column of |01⟩ is not the DFT column
example : (match Qft.gateSequence 2 false false with
    | some gs => QftSmall.run 2 gs (QftSmall.basis 2 1) == some (QftSmall.dftCol 2 1)
    | none => false) = false := by decide +kernel

/-! ## (6) QFT = DFT for EVERY N ≥ 1, at operator level (ℂ-matrices on the N-qubit register) -/

open QipVerif.QftDen in
/-- **QFT = DFT.** For every `N ≥ 1` the gates of `qft_gate_sequence(N, swapping=True, to_cnot=False)`,
placed on `N` qubits and multiplied in circuit order, give exactly the DFT matrix
`F[y,x] = ω^{y·x}/√(2^N)`, `ω = e^{2πi/2^N}` (indices read big-endian). -/
theorem qft_eq_dft (N : ℕ) (hN : 1 ≤ N) :
    (Qft.gateSequence N true false).bind (circDenN N) = some (dftMat N) :=
  qft_native_den N hN

-- non-vacuity: N = 3 meets the hypothesis and the circuit has 7 gates
example : (1 ≤ 3) ∧ (Qft.gateSequence 3 true false).map List.length = some 7 := by decide

open QipVerif.QftDen in
/-- the index of `dftMat` is the package's flat (big-endian) index `stEquiv` of a basis state -/
theorem dft_index_big_endian {k : ℕ} (x : St k) : val x = (stEquiv k x).val := val_eq_stEquiv x

open QipVerif.QftDen in
/-- Without the final swaps the circuit is the DFT with bit-reversed output index. -/
theorem qft_noswap_eq_dft_bitrev (N : ℕ) (hN : 1 ≤ N) :
    (Qft.gateSequence N false false).bind (circDenN N) =
      some (fun y x => dftMat N (y ∘ (Fin.rev : Fin N → Fin N)) x) :=
  qft_native_noswap_den N hN

open QipVerif.QftDen in
/-- **Circuit = steps, operator level**: for every `N` and both values of `swapping` the native circuit
and the product of the operators of `qft_steps` are the same matrix (both undefined exactly for N < 1). -/
theorem qft_circuit_den_eq_steps (N : ℕ) (sw : Bool) :
    (Qft.gateSequence N sw false).bind (circDenN N) = (Qft.qftSteps N sw).bind (stepsDen N) :=
  circuit_den_eq_steps N sw

open QipVerif.QftDen in
/-- With `to_cnot=True` the circuit is the product of the step operators times the recorded global
phase `e^{i·Σ λ/2}` (sum over the controlled-phase steps, `λ = π/2^k`). -/
theorem qft_cnot_den_eq_steps (N : ℕ) (sw : Bool) (ss : List Qft.Step) (M : Matrix (St N) (St N) ℂ)
    (h1 : Qft.qftSteps N sw = some ss) (h2 : stepsDen N ss = some M) :
    (Qft.gateSequence N sw true).bind (circDenN N) = some (cexp (I * (stepsPhase ss : ℂ)) • M) :=
  circuit_cnot_den_eq_steps N sw ss M h1 h2

open QipVerif.QftDen in
/-- the step operators of `qft_steps(N, swapping=True)` multiply to the DFT matrix -/
theorem qft_steps_eq_dft (N : ℕ) (hN : 1 ≤ N) : (Qft.qftSteps N true).bind (stepsDen N) = some (dftMat N) :=
  steps_den_eq_dft N hN

open QipVerif.QftDen in
/-- **QFT with CNOT expansion = DFT up to the recorded global phase**, every `N ≥ 1`:
the circuit of `qft_gate_sequence(N, True, to_cnot=True)` (GLOBALPHASE gates included) is
`e^{iφ}·DFT` with `φ = Σ λ/2` over the controlled-phase steps. -/
theorem qft_eq_dft_cnot (N : ℕ) (hN : 1 ≤ N) :
    ∃ ss, Qft.qftSteps N true = some ss ∧
      (Qft.gateSequence N true true).bind (circDenN N) = some (cexp (I * (stepsPhase ss : ℂ)) • dftMat N) :=
  qft_cnot_den N hN

open QipVerif.QftDen in
/-- the CNOT expansion of one controlled phase, placed on any two distinct qubits of any register -/
theorem cnot_expansion_on_register {N c t : ℕ} (hc : c < N) (ht : t < N) (hne : c ≠ t) (k : ℕ) :
    circDenN N (Qft.cphaseToCnot c t k) =
      some (cexp (I * ((angVal ⟨1, k⟩ / 2 : ℝ) : ℂ)) •
        CPq ⟨c, hc⟩ ⟨t, ht⟩ (fun e => hne (Fin.mk.inj e)) (angVal ⟨1, k⟩)) :=
  cnotExp_den hc ht hne k

open QipVerif.QftDen in
/-- amplitudes after `m ≤ N` stages (the stage lemma behind `qft_eq_dft`) -/
theorem qft_stage_amplitudes (N m : ℕ) (hm : m ≤ N) : circDenN N (Qft.outer false m) = some (W N m) :=
  outer_den m hm

end QipVerif.C17
