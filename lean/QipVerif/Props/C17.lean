import QipVerif.Lemmas.ZyzExact
import QipVerif.Lemmas.ZyzCphase
import QipVerif.Lemmas.ZyzQftList
import QipVerif.Lemmas.ZyzQftSem
import QipVerif.Lemmas.ZyzQftSmall
/-!
# C17 — single-qubit decompositions and QFT circuits are exact

Property theorems only.

* `Zyz.gatesOf t U` is the gate list the method with regenerated tuple `t`
  (`Gen.Zyz.zyz / zxz / zyzPauliX`) returns for input `U`, with the angles `_angles_for_ZYZ`
  computes (`Lemmas/ZyzModel.lean`; `np.sqrt` is the principal root `csqrt`).
* `Zyz.circDen` applies a gate list in list order (first gate = right-most matrix factor).
* `Zyz.cphaseToCnot λ` is the list `_cphase_to_cnot` returns (regenerated template + ZYZ_PauliX model).
* `Qft.gateSequence / Qft.qftSteps` are the gate / step lists of `qft_gate_sequence / qft_steps`.

**Not proved (partial):** that the circuit multiplies to the DFT matrix for general `N`.
-/
namespace QipVerif.C17
open Matrix Complex
open QipVerif.Zyz QipVerif.Gen.Zyz

/-! ## (1),(2) the three decompositions are exact on all of U(2), global phase included -/

/-- **ZYZ is exact** for every `U ∈ U(2)` (no genericity hypothesis: diagonal, anti-diagonal, scalar
and det = −1 inputs included). -/
theorem zyz_exact (U : M2) (hU : U ∈ Matrix.unitaryGroup (Fin 2) ℂ) : circDen (gatesOf zyz U) = U :=
  zyz_exact_with U hU _ (normConst_sq U)

/-- **ZXZ is exact** for every `U ∈ U(2)`. -/
theorem zxz_exact (U : M2) (hU : U ∈ Matrix.unitaryGroup (Fin 2) ℂ) : circDen (gatesOf zxz U) = U :=
  zxz_exact_with U hU _ (normConst_sq U)

/-- **ZYZ_PauliX is exact** for every `U ∈ U(2)`. -/
theorem zyz_paulix_exact (U : M2) (hU : U ∈ Matrix.unitaryGroup (Fin 2) ℂ) :
    circDen (gatesOf zyzPauliX U) = U :=
  zyzPauliX_exact_with U hU _ (normConst_sq U)

/-- The same with **any** square root of the determinant as `normalization_constant` (numpy's choice on
the branch cut `det = −1` is a rounding matter; either root works). -/
theorem decomp_exact_any_root (U : M2) (hU : U ∈ Matrix.unitaryGroup (Fin 2) ℂ) (n : ℂ) (hn : n * n = U.det) :
    circDen (gatesWith zyz U n) = U ∧ circDen (gatesWith zxz U n) = U ∧ circDen (gatesWith zyzPauliX U n) = U :=
  ⟨zyz_exact_with U hU n hn, zxz_exact_with U hU n hn, zyzPauliX_exact_with U hU n hn⟩

/-- only the promised axes (and Pauli X) occur, in the promised order -/
theorem decomp_axes (U : M2) :
    (gatesOf zyz U).map Prod.fst = [.RZ, .RY, .RZ, .GLOBALPHASE] ∧
    (gatesOf zxz U).map Prod.fst = [.RZ, .RX, .RZ, .GLOBALPHASE] ∧
    (gatesOf zyzPauliX U).map Prod.fst = [.RZ, .RY, .X, .RY, .RZ, .X, .RZ, .GLOBALPHASE] := by
  simp [gatesOf, gatesWith, inst, zyz, zxz, zyzPauliX]

-- non-vacuity: Pauli X (anti-diagonal, det = −1: two degenerate families at once) is in U(2)
example : Xg ∈ Matrix.unitaryGroup (Fin 2) ℂ := by
  rw [Matrix.mem_unitaryGroup_iff]
  ext i j
  fin_cases i <;> fin_cases j <;> simp [Xg, Matrix.mul_apply, Fin.sum_univ_two, Matrix.star_apply]

/-- parametrisation of U(2) used by the proof -/
theorem u2_parametrisation (U : M2) (hU : U ∈ Matrix.unitaryGroup (Fin 2) ℂ) :
    U 1 1 = U.det * (starRingEnd ℂ) (U 0 0) ∧ U 1 0 = -(U.det * (starRingEnd ℂ) (U 0 1)) ∧
    ‖U 0 0‖ ^ 2 + ‖U 0 1‖ ^ 2 = 1 ∧ ‖U.det‖ = 1 :=
  ⟨unitary_u11 hU, unitary_u10 hU, unitary_norm_row hU, unitary_norm_det hU⟩

/-- entries of a Z–Y–Z product with global phase, for all real angles -/
theorem zyz_product_entries (α θ β φ : ℝ) :
    circDen [(.RZ, α), (.RY, θ), (.RZ, β), (.GLOBALPHASE, φ)] =
      cexp (I * φ) • !![cexp (-(I * ((α + β) / 2))) * Complex.cos (θ / 2),
                          -(cexp (I * ((α - β) / 2)) * Complex.sin (θ / 2));
                        cexp (-(I * ((α - β) / 2))) * Complex.sin (θ / 2),
                          cexp (I * ((α + β) / 2)) * Complex.cos (θ / 2)] := by
  rw [← prod_entries]; simp [circDen, gateMat, mul_assoc]

/-! ## (3) controlled phase expanded into CNOTs -/

/-- For `−π < λ ≤ π` (the QFT uses `λ = π/2^k`), the list `_cphase_to_cnot(t, c, λ)` returns —
including its recorded GLOBALPHASE gate — multiplies to `e^{iλ/2}·CPHASE(λ)`: a controlled phase up to
the global phase `λ/2`. -/
theorem cphase_to_cnot_exact (l : ℝ) (h1 : -Real.pi < l) (h2 : l ≤ Real.pi) :
    ∃ gs, cphaseToCnot l = some gs ∧ circDen2 gs = cexp (I * ((l / 2 : ℝ) : ℂ)) • cphaseMat l :=
  ⟨_, cphaseToCnot_eq h1 h2, cnot_expansion_identity l⟩

example : -Real.pi < Real.pi / 2 ∧ Real.pi / 2 ≤ Real.pi := by
  constructor <;> linarith [Real.pi_pos]

/-- the underlying 4×4 identity, for **every** real `λ` -/
theorem cnot_expansion_identity (l : ℝ) :
    circDen2 [.one .RZ (l / 2) .targets, .cnot, .one .RZ (-(l / 2)) .targets, .cnot,
      .one .RZ (l / 2) .controls, .phase (l / 2 + l / 4)] = cexp (I * ((l / 2 : ℝ) : ℂ)) • cphaseMat l :=
  Zyz.cnot_expansion_identity l

/-- the expansion written in `Model/Qft.lean` (what the driver prints) is that list for `λ = π/2^k`,
for every control `c ≠ t` and every `k` -/
theorem qft_cnot_expansion_exact (c t k : Nat) (h : c ≠ t) :
    ∃ l, (Qft.cphaseToCnot c t k).mapM (toP2 c t) = some l ∧
      circDen2 l = cexp (I * ((Real.pi / 2 ^ k / 2 : ℝ) : ℂ)) • cphaseMat (Real.pi / 2 ^ k) :=
  model_expansion_exact c t k h

/-! ## (4) circuit and step list agree, for every N and both flags; structure -/

/-- The gate list of `qft_gate_sequence(N, swapping, to_cnot)` is the concatenation of the gate lists
of the steps of `qft_steps(N, swapping)` (each controlled-phase step expanded into CNOTs when
`to_cnot`), and both raise `ValueError` exactly when `N < 1`. -/
theorem qft_circuit_eq_steps (N : Nat) (sw cn : Bool) :
    Qft.gateSequence N sw cn = (Qft.qftSteps N sw).map (fun ss => ss.flatMap (Qft.Step.gates cn)) :=
  Qft.gateSequence_eq_steps N sw cn

example : Qft.gateSequence 3 true false =
    some [Qft.snot 0, Qft.cphase 1 0 1, Qft.snot 1, Qft.cphase 2 0 2, Qft.cphase 2 1 1, Qft.snot 2,
      Qft.swap 2 0] := by decide

/-- number of gates: `N(N−1)/2` controlled phases (6 gates each when expanded), `N` Hadamards,
`⌊N/2⌋` swaps -/
theorem qft_gate_count (N : Nat) (sw cn : Bool) (gs : List Qft.Gate) (h : Qft.gateSequence N sw cn = some gs) :
    gs.length = Qft.perCphase cn * Qft.tri N + N + (if sw then N / 2 else 0) ∧ 2 * Qft.tri (N - 1 + 1) = (N - 1 + 1) * (N - 1) :=
  ⟨Qft.gateSequence_length N sw cn gs h, Qft.two_tri (N - 1)⟩

/-- every qubit index mentioned by the circuit is `< N` -/
theorem qft_indices_in_range (N : Nat) (sw cn : Bool) (gs : List Qft.Gate)
    (h : Qft.gateSequence N sw cn = some gs) : ∀ g ∈ gs, ∀ q ∈ g.qubits, q < N :=
  Qft.gateSequence_qubits N sw cn gs h

example : ∃ gs, Qft.gateSequence 4 true true = some gs ∧ gs.length = 42 := ⟨_, rfl, by decide⟩

/-! ## (5) QFT = DFT: FINITE INSTANCES ONLY (N ≤ 4) — this is a kernel-evaluated test, not the property -/

/-- For N = 1, 2, 3, 4 the model's circuit (with swaps, native controlled phases) maps every basis vector to
the corresponding column of `√(2^N)·DFT` (each Hadamard taken as `√2·H`), in exact ℤ[e^{2πi/16}] arithmetic
with the state-vector semantics of `Lemmas/ZyzQftSmall.lean`.  The identity for general `N` is NOT proved. -/
theorem qft_eq_dft_le4 :
    QftSmall.qftCheck 1 = true ∧ QftSmall.qftCheck 2 = true ∧ QftSmall.qftCheck 3 = true ∧ QftSmall.qftCheck 4 = true :=
  QftSmall.qft_eq_dft_le4

-- the checker is not vacuous: without the final swaps the column of |01⟩ is not the DFT column
example : (match Qft.gateSequence 2 false false with
    | some gs => QftSmall.run 2 gs (QftSmall.basis 2 1) == some (QftSmall.dftCol 2 1)
    | none => false) = false := by decide +kernel

end QipVerif.C17
