import QipVerif.Model.Sched
/-! # C05 — gate scheduling preserves the unitary and qubit exclusivity (property theorems) -/
namespace QipVerif.C05
open QipVerif.Sched

/-- the witness of the known finding: two `QASMU` gates on qubit 0 (different angles) -/
def witness : List Ins := [⟨"QASMU", [0], [], 1⟩, ⟨"QASMU", [0], [], 1⟩]

/-- ALAP swaps the two gates of the witness. -/
theorem C05_counterexample_order : gateCycles ⟨true, true, []⟩ witness = [[1], [0]] := by decide +kernel

end QipVerif.C05
