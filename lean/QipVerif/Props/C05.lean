import QipVerif.Lemmas.SchedGate
import QipVerif.Lemmas.SchedC
import QipVerif.Lemmas.SchedSafe
import QipVerif.Lemmas.SchedFixed
import QipVerif.Lemmas.SchedOracle
import QipVerif.Lemmas.SchedTree
import QipVerif.Lemmas.SchedCons
import Mathlib.Algebra.Group.Opposite
import Mathlib.Algebra.BigOperators.Group.List.Lemmas
import Mathlib.Algebra.FreeMonoid.Basic
/-!
# C05 — gate scheduling preserves the circuit's unitary and qubit exclusivity

Property theorems only.  The model is `QipVerif.Sched` (`Model/Sched.lean`), tied to
`qutip_qip.compiler.scheduler` by the correspondence harness `py/props/c05.py`.

Every theorem is for **all** instruction lists `ns`, both methods (`alap`), both permutation
settings (`allowPerm`) and an **arbitrary** ordering oracle `O2` of the scheduling pass whose only
constraint is that it returns a permutation of the available list (`hO`).  The code's
`random.shuffle`, its stable priority sort, and the unspecified iteration order of the successor
`set` are all instances; `real_oracle_perm` / `gateCycles_eq` say that the executable model which
is compared with the code is such an instance.

`cyclesGen alap allowPerm ns O2` is the list returned by `schedule(..., return_cycles_list=True)`,
`cycleIndices` the list returned by `schedule(..., gates_schedule=True)`.
-/
namespace QipVerif.C05
open QipVerif.Sched

variable (alap allowPerm : Bool) (ns : List Ins)
variable (O2 : Nat → List Nat → List Nat)

/-- the executable model is an instance of the oracle-parametrised one … -/
theorem gateCycles_eq (cfg : Cfg) : gateCycles cfg ns = cyclesGen cfg.alap cfg.allowPerm ns (O2of cfg ns) := rfl

/-- … and its oracle (recorded shuffle, then the stable priority sort) returns permutations. -/
theorem real_oracle_perm (cfg : Cfg) : ∀ r l, (O2of cfg ns r l).Perm l := O2of_perm cfg ns

/-! ## (a) every gate is placed in exactly one cycle -/

/-- **cycles_partition.**  The cycles, concatenated, are a permutation of `0 … n-1`: every gate index
occurs in exactly one cycle, exactly once.  (Termination of the scheduling loop within its fuel is
part of the statement: dependency edges go from smaller to larger index, `dep_edges_forward`.) -/
theorem cycles_partition (hO : ∀ r l, (O2 r l).Perm l) :
    (cyclesGen alap allowPerm ns O2).flatten.Perm (List.range ns.length) :=
  cyclesGen_perm alap allowPerm ns O2 hO

example : (gateCycles ⟨true, true, [[1, 0]], false⟩
    [⟨"X", [0], [], 1, true⟩, ⟨"CNOT", [1], [0], 1, true⟩, ⟨"X", [1], [], 1, true⟩, ⟨"SNOT", [0], [], 1, true⟩]) = [[0], [1], [3, 2]] := by
  decide +kernel

/-- the dependency graph is a DAG on `0 … n-1`: every edge goes from a smaller to a larger index -/
theorem dep_edges_forward {a b : Nat} (h : (a, b) ∈ depEdges allowPerm ns) : a < b ∧ b < ns.length :=
  depEdges_forward allowPerm ns h

example : depEdges true [⟨"X", [0], [], 1, true⟩, ⟨"CNOT", [1], [0], 1, true⟩, ⟨"X", [1], [], 1, true⟩, ⟨"SNOT", [0], [], 1, true⟩]
    = [(0, 1), (1, 3)] := by decide +kernel

/-! ## (b) no two gates in one cycle share a qubit -/

/-- **cycle_disjoint.** -/
theorem cycle_disjoint (c : List Nat) (hc : c ∈ cyclesGen alap allowPerm ns O2) (i j : Nat) (hi : i ∈ c) (hj : j ∈ c)
    (hij : i ≠ j) (q : Nat) (hq : q ∈ (getIns ns i).used) : q ∉ (getIns ns j).used := by
  intro hq'
  have h := cyclesGen_disjoint alap allowPerm ns O2 c hc i hi j hj hij
  have : shareIdx ns i j = true := share_iff.mpr ⟨q, hq, hq'⟩
  rw [h] at this
  exact absurd this (by simp)

example : [3, 2] ∈ gateCycles ⟨true, true, [], false⟩
    [⟨"X", [0], [], 1, true⟩, ⟨"CNOT", [1], [0], 1, true⟩, ⟨"X", [1], [], 1, true⟩, ⟨"SNOT", [0], [], 1, true⟩] := by decide +kernel

/-! ## (c) the order of non-commuting qubit-sharing gates is respected -/

/-- `gate_cycles_indices[i]` is the index of the cycle that contains `i` -/
theorem cycleIndices_getD (i : Nat) (hi : i < ns.length) (cs : List (List Nat)) :
    (cycleIndices ns.length cs).getD i 0 = posOf cs i := by
  simp [cycleIndices_eq, List.getD_eq_getElem?_getD, hi]

/-- **order_respected.**  If `i < j` share a qubit and the commutation rule (the call
`commuting(j, i)` the code makes) does not declare them commuting, then `i` is scheduled in a strictly
earlier cycle than `j` — for ASAP and ALAP, every oracle. -/
theorem order_respected (hO : ∀ r l, (O2 r l).Perm l) (i j : Nat) (hij : i < j) (hj : j < ns.length)
    (hs : shareIdx ns i j = true) (hc : commIdx allowPerm ns j i = false) :
    (cycleIndices ns.length (cyclesGen alap allowPerm ns O2)).getD i 0 <
      (cycleIndices ns.length (cyclesGen alap allowPerm ns O2)).getD j 0 := by
  rw [cycleIndices_getD ns i (by omega), cycleIndices_getD ns j hj]
  exact cyclesGen_order alap allowPerm ns O2 hO hij hj hs hc

example : shareIdx [⟨"X", [0], [], 1, true⟩, ⟨"CNOT", [1], [0], 1, true⟩] 0 1 = true ∧
    commIdx true [⟨"X", [0], [], 1, true⟩, ⟨"CNOT", [1], [0], 1, true⟩] 1 0 = false := by decide +kernel

/-- **order kept without permutation.**  With `allow_permutation=False` every two gates that share a
qubit keep their original relative order. -/
theorem order_kept_without_permutation (hO : ∀ r l, (O2 r l).Perm l) (i j : Nat) (hij : i < j)
    (hj : j < ns.length) (hs : shareIdx ns i j = true) :
    (cycleIndices ns.length (cyclesGen alap false ns O2)).getD i 0 <
      (cycleIndices ns.length (cyclesGen alap false ns O2)).getD j 0 :=
  order_respected alap false ns O2 hO i j hij hj hs (by simp [commIdx])

/-- the commutation rule is symmetric, so the direction of the call does not matter -/
theorem comm_rules_symm (a b : Ins) : commRules a b = commRules b a := commRules_symm a b

/-! ## (d) trace-monoid lemma -/

/-- **trace_lemma** (generic monoid): a permutation of a word that exchanges only commuting letters
has the same product. -/
theorem trace_lemma {ι M : Type*} [Monoid M] (g : ι → M) (l l' : List ι) (hp : l.Perm l')
    (hc : ∀ i j, Before l i j → Before l' j i → Commute (g i) (g j)) :
    (l.map g).prod = (l'.map g).prod :=
  QipVerif.trace_lemma g l l' hp hc

example : ([0, 1, 2].map (fun i : ℕ => i + 2)).prod = ([1, 0, 2].map (fun i : ℕ => i + 2)).prod := by decide

/-! ## (e) the scheduled order has the same product as the original order -/

section den
variable {M : Type*} [Monoid M]

/-- **schedule_den_partial.**  Over an arbitrary monoid `M` and an arbitrary interpretation `g` of the
gates (by position, so that parameters not visible to the scheduler may differ), under

* `H1`: gates on disjoint qubit sets commute,
* `H2`: two qubit-sharing gates which `commutation_rules` declares commuting do commute,

executing the gates cycle by cycle (any order inside a cycle, as returned) gives the same product as
executing them in the original order.  `H1` is a fact about embedded operators (discharged for ℂ-matrices in
`schedule_den_C`).  **`H2` is false for the rule before the repair**, where every name counts as self-commuting
(`sc = true`, e.g. on two `QASMU` gates on one qubit): see `C05_counterexample_den`; hence `_partial`.  For the
repaired rule `H2` is a theorem and no hypothesis of this kind is left: `schedule_den_C_full` (section e⁗). -/
theorem schedule_den_partial (hO : ∀ r l, (O2 r l).Perm l) (g : Nat → M)
    (H1 : ∀ i j, i < ns.length → j < ns.length → shareIdx ns i j = false → Commute (g i) (g j))
    (H2 : ∀ i j, i < ns.length → j < ns.length → shareIdx ns i j = true →
      commRules (getIns ns i) (getIns ns j) = true → Commute (g i) (g j)) :
    ((cyclesGen alap allowPerm ns O2).flatten.map g).prod = ((List.range ns.length).map g).prod := by
  apply cyclesGen_prod alap allowPerm ns g O2 hO H1
  intro i j hij hj hs hc
  have hc' : commRules (getIns ns j) (getIns ns i) = true := by
    simp only [commIdx, Bool.and_eq_true] at hc; exact hc.2
  have hs' : shareIdx ns j i = true := by rw [shareIdx, share_symm]; exact hs
  exact (H2 j i hj (by omega) hs' hc').symm

/-- the same for the matrix convention "first gate = rightmost factor" -/
theorem schedule_den_partial_rev (hO : ∀ r l, (O2 r l).Perm l) (g : Nat → M)
    (H1 : ∀ i j, i < ns.length → j < ns.length → shareIdx ns i j = false → Commute (g i) (g j))
    (H2 : ∀ i j, i < ns.length → j < ns.length → shareIdx ns i j = true →
      commRules (getIns ns i) (getIns ns j) = true → Commute (g i) (g j)) :
    (((cyclesGen alap allowPerm ns O2).flatten.map g).reverse).prod = (((List.range ns.length).map g).reverse).prod := by
  have h := schedule_den_partial alap allowPerm ns O2 hO (fun i => MulOpposite.op (g i))
    (fun i j hi hj hs => (H1 i j hi hj hs).op) (fun i j hi hj hs hc => (H2 i j hi hj hs hc).op)
  have key : ∀ l : List Nat, (l.map (fun i => MulOpposite.op (g i))).prod = MulOpposite.op ((l.map g).reverse.prod) := by
    intro l
    rw [MulOpposite.op_list_prod, List.map_reverse, List.reverse_reverse, List.map_map]
    rfl
  rw [key, key] at h
  exact MulOpposite.op_injective h

/-- the same with one interpretation `G` of instructions (gates without hidden parameters) -/
theorem schedule_den_partial_ins (hO : ∀ r l, (O2 r l).Perm l) (G : Ins → M)
    (H1 : ∀ a b : Ins, share a b = false → Commute (G a) (G b))
    (H2 : ∀ a b : Ins, share a b = true → commRules a b = true → Commute (G a) (G b)) :
    ((cyclesGen alap allowPerm ns O2).flatten.map (fun i => G (getIns ns i))).prod = (ns.map G).prod := by
  have h := schedule_den_partial alap allowPerm ns O2 hO (fun i => G (getIns ns i))
    (fun i j _ _ hs => H1 _ _ hs) (fun i j _ _ hs hc => H2 _ _ hs hc)
  have hfun : (fun i => G (getIns ns i)) = G ∘ getIns ns := rfl
  rw [h, hfun, ← List.map_map, map_getIns_range]

end den

example : shareIdx [⟨"Z", [0], [], 1, true⟩, ⟨"CNOT", [1], [0], 1, true⟩] 0 1 = true ∧
    commRules ⟨"Z", [0], [], 1, true⟩ ⟨"CNOT", [1], [0], 1, true⟩ = true := by decide +kernel

/-! ### the full statement (without `H2`) is false -/

/-- the witness of the finding (repaired in /repo by `_SELF_COMMUTING_GATES`; replayed on the code on every check):
two `QASMU` gates on qubit 0 (their angles, invisible to the scheduler, differ: `QASMU(1,0,0)` and `QASMU(0,0,1)`),
flagged self-commuting (`sc = true`) as every instruction was under the old rule -/
def witness : List Ins := [⟨"QASMU", [0], [], 1, true⟩, ⟨"QASMU", [0], [], 1, true⟩]

/-- ALAP swaps the two gates of the witness. -/
theorem C05_counterexample_order : gateCycles ⟨true, true, [], false⟩ witness = [[1], [0]] := by decide +kernel

/-- **Refutation of `schedule_den` without `H2`.**  There is a monoid and an interpretation of the two
gates of the witness satisfying `H1` for which the scheduled product differs from the original one
(any two non-commuting elements; here the generators of the free monoid). -/
theorem C05_counterexample_den :
    ∃ g : Nat → FreeMonoid Nat,
      (∀ i j, i < witness.length → j < witness.length → shareIdx witness i j = false → Commute (g i) (g j)) ∧
      ((gateCycles ⟨true, true, [], false⟩ witness).flatten.map g).prod ≠ ((List.range witness.length).map g).prod := by
  refine ⟨FreeMonoid.of, ?_, ?_⟩
  · intro i j hi hj hs
    have : ∀ i ∈ List.range 2, ∀ j ∈ List.range 2, shareIdx witness i j = true := by decide +kernel
    rw [this i (List.mem_range.mpr hi) j (List.mem_range.mpr hj)] at hs
    exact absurd hs (by simp)
  · rw [C05_counterexample_order]
    intro h
    have h' := congrArg FreeMonoid.toList h
    simp [witness, List.range_succ] at h'

/-! ## (f) what `commutation_rules` answers `true` for -/

/-- **comm_rule_table.**  The rule declares exactly five families of pairs commuting: same name (listed
as self-commuting by the module, `sc`, if it has such a list) with equal non-empty controls, or with equal targets; `CNOT` with `X`/`RX` on its target; `CNOT` with
`Z`/`RZ` on its control (either order).  `H2` has to be discharged for these families (done in `Lemmas/SchedFam.lean`, `Lemmas/SchedFull.lean`); it fails for
same-name pairs of families that do not commute with themselves, which is why the repaired rule restricts the same-name
case to `_SELF_COMMUTING_GATES` (`sc`). -/
theorem comm_rule_table (a b : Ins) : commRules a b = true ↔
    (a.name = b.name ∧ a.sc = true ∧ b.sc = true ∧
      ((a.controls ≠ [] ∧ a.controls = b.controls) ∨ a.targets = b.targets)) ∨
    (a.name = "CNOT" ∧ (b.name = "X" ∨ b.name = "RX") ∧ a.targets = b.targets) ∨
    (a.name = "CNOT" ∧ (b.name = "Z" ∨ b.name = "RZ") ∧ a.controls = b.targets) ∨
    (b.name = "CNOT" ∧ (a.name = "X" ∨ a.name = "RX") ∧ b.targets = a.targets) ∨
    (b.name = "CNOT" ∧ (a.name = "Z" ∨ a.name = "RZ") ∧ b.controls = a.targets) :=
  commRules_true_iff a b

/-- the rule factors through a finite abstraction (name class × name class × six Boolean relations) … -/
theorem comm_rule_abstraction (a b : Ins) : commRules a b =
    commAbs (nameCls a.name) (nameCls b.name) (a.name == b.name) (a.sc && b.sc) (!a.controls.isEmpty)
      (a.controls == b.controls) (a.targets == b.targets) (a.controls == b.targets) (b.controls == a.targets) :=
  commRules_abs a b

/-- … on which it is this decidable table. -/
theorem comm_rule_abs_table : ∀ (ca cb : NameCls) (same sc cne ceq teq act bct : Bool),
    commAbs ca cb same sc cne ceq teq act bct = true ↔
      (same = true ∧ sc = true ∧ ((cne = true ∧ ceq = true) ∨ teq = true)) ∨
      (same = false ∧ (
        ((ca = .cnot ∧ (cb = .x ∨ cb = .rx)) ∧ teq = true) ∨ ((cb = .cnot ∧ (ca = .x ∨ ca = .rx)) ∧ teq = true) ∨
        ((ca = .cnot ∧ (cb = .z ∨ cb = .rz)) ∧ act = true) ∨ ((cb = .cnot ∧ (ca = .z ∨ ca = .rz)) ∧ bct = true))) :=
  commAbs_true_iff

example : commRules ⟨"QASMU", [0], [], 1, true⟩ ⟨"QASMU", [0], [], 1, true⟩ = true ∧
    commRules ⟨"FREDKIN", [1, 2], [0], 1, true⟩ ⟨"FREDKIN", [2, 3], [0], 1, true⟩ = true := by decide +kernel

/-! ## (e′) the same over ℂ: `H1` discharged

`M = Matrix (St N) (St N) ℂ` (operators on the `N`-qubit register, `Lemmas/EmbedAlg.lean`).  The gates
are interpreted by position; the only requirement is that the operator of gate `i` acts on the used
qubits of instruction `i` only (`SupportedOn`: it is `Tg.embed` of some compact matrix along some
placement into `used_qubits` — any qubit order, any parameters).  Then `H1` holds
(`Tg.embed_comm_of_disjoint`, `Lemmas/EmbedPerm.lean`, `Lemmas/SchedC.lean`), and only `H2` is left —
false for the rule before the repair (`C05_counterexample_den`), hence a hypothesis here; discharged for the
repaired rule in `schedule_den_C_full`. -/
section denC
open Matrix

/-- **schedule_den_C** (circuit order: first gate = leftmost factor). -/
theorem schedule_den_C (N : ℕ) (hO : ∀ r l, (O2 r l).Perm l) (g : Nat → Matrix (St N) (St N) ℂ)
    (hsupp : ∀ i, i < ns.length → SupportedOn (g i) (usedSet N (getIns ns i)))
    (H2 : ∀ i j, i < ns.length → j < ns.length → shareIdx ns i j = true →
      commRules (getIns ns i) (getIns ns j) = true → Commute (g i) (g j)) :
    ((cyclesGen alap allowPerm ns O2).flatten.map g).prod = ((List.range ns.length).map g).prod :=
  schedule_den_partial alap allowPerm ns O2 hO g
    (fun i j hi hj hs => commute_of_share_false (hsupp i hi) (hsupp j hj) hs) H2

/-- **schedule_den_C_rev** (matrix order: first gate = rightmost factor, `U = U_n ⋯ U_1`): the
scheduled circuit is the same operator as the original circuit. -/
theorem schedule_den_C_rev (N : ℕ) (hO : ∀ r l, (O2 r l).Perm l) (g : Nat → Matrix (St N) (St N) ℂ)
    (hsupp : ∀ i, i < ns.length → SupportedOn (g i) (usedSet N (getIns ns i)))
    (H2 : ∀ i j, i < ns.length → j < ns.length → shareIdx ns i j = true →
      commRules (getIns ns i) (getIns ns j) = true → Commute (g i) (g j)) :
    (((cyclesGen alap allowPerm ns O2).flatten.map g).reverse).prod =
      (((List.range ns.length).map g).reverse).prod :=
  schedule_den_partial_rev alap allowPerm ns O2 hO g
    (fun i j hi hj hs => commute_of_share_false (hsupp i hi) (hsupp j hj) hs) H2

end denC

-- the support hypothesis for a CNOT(control 1, target 0) and an X on qubit 2 of a 3-qubit register,
-- whatever the two compact matrices are; the two instructions share no qubit
example (U : Matrix (St 2) (St 2) ℂ) (V : Matrix (St 1) (St 1) ℂ) :
    SupportedOn ((Tg.pair (1 : Fin 3) 0 (by decide)).embed U) (usedSet 3 ⟨"CNOT", [0], [1], 1, true⟩) ∧
    SupportedOn ((⟨![2], fun a b _ => Subsingleton.elim a b⟩ : Tg 1 3).embed V) (usedSet 3 ⟨"X", [2], [], 1, true⟩) ∧
    share ⟨"CNOT", [0], [1], 1, true⟩ ⟨"X", [2], [], 1, true⟩ = false := by
  refine ⟨SupportedOn.embed _ _ ?_, SupportedOn.embed _ _ ?_, by decide⟩
  · rintro _ ⟨p, rfl⟩
    fin_cases p <;> (show _ ∈ Ins.used _; decide)
  · rintro _ ⟨p, rfl⟩
    fin_cases p; (show _ ∈ Ins.used _; decide)

/-! ## (e″) over ℂ with no matrix hypothesis: `safeComm`

Circuits are lists of IR gates (`QipVerif.Gate`: name, ordered targets, ordered controls, exact or
symbolic angle); `insOf g` is what the scheduler sees of `g` (name, sorted targets, sorted controls);
`denG N ρ gs` is the operator of the circuit on the `N`-qubit register for the valuation `ρ` of the
symbolic angles (`Lemmas/Sem.lean`: generated rotation matrices at real angles, exact ℤ[ζ₁₆] matrices of
the fixed gates mapped to ℂ).

`safeComm w N gs` (`w`: the names the module lists as self-commuting; `fun _ => true` for a module
without such a list) is **decidable**: every gate has complex semantics and is well-formed on the register
(`wfG`), and every pair `i < j` sharing a qubit which `commutation_rules` declares commuting belongs to
a family for which commutation is **proved** (`safePair`, `Lemmas/SchedFam.lean`):
same one-qubit name among `X Y Z S T SNOT SQRTNOT IDLE RX RY RZ PHASEGATE` on the same target (all angles);
same controlled name among `CNOT CSIGN CZ CY CS CT CRX CRY CRZ CPHASE` with the same control or the same
target (all angles); `CNOT` with `X`/`RX(θ)` on its target; `CNOT` with `Z`/`RZ(θ)` on its control;
same name among `SWAP ISWAP SQRTSWAP SQRTISWAP BERKELEY` on the same two targets (either order);
two `TOFFOLI` gates with the same target or the same two controls (either order).
It is `false` whenever a declared-commuting pair is a `FREDKIN` pair or has a non-canonical shape, and whenever the circuit contains a name without complex semantics
(`SWAPalpha R QASMU MS RZX`, user gates) — this includes every family on which the rule is unsound. -/

/-- **schedule_den_C_safe.**  For every circuit with `safeComm w N gs = true`, both methods, both
permutation settings, every oracle and every valuation of the angles: the scheduled circuit (gates
listed cycle by cycle) denotes the same operator as the original circuit.  No hypothesis on matrices. -/
theorem schedule_den_C_safe (w : String → Bool) (N : ℕ) (ρ : ℕ → ℝ) (gs : List Gate) (hO : ∀ r l, (O2 r l).Perm l)
    (hs : safeComm w N gs = true) :
    denG N ρ (((cyclesGen alap allowPerm (gs.map (insOf w)) O2).flatten).map (fun i => gs.getD i dfltGate)) =
      denG N ρ gs :=
  schedule_den_safe ρ w alap allowPerm gs O2 hO hs

/-- `H2` for one pair of a proved family, on every register (the content of `safeComm`) -/
theorem safe_pair_commute (N : ℕ) (ρ : ℕ → ℝ) (a b : Gate) (A B : Matrix (St N) (St N) ℂ)
    (ha : semD N ρ a = some A) (hb : semD N ρ b = some B) (h : safePair a b = true) : Commute A B :=
  safePair_commute ρ a b A B ha hb h

-- non-vacuity: a circuit with four different declared-commuting pairs (CNOT/RX on the target, two CNOTs
-- with one control, CNOT/RZ on the control, two RZ on one qubit), symbolic angles, and a SWAP
example : safeComm (fun _ => true) 3 [⟨.X, [0], [], {}⟩, ⟨.CNOT, [1], [0], {}⟩, ⟨.RX, [1], [], Ang.symb 0⟩, ⟨.CNOT, [2], [0], {}⟩,
    ⟨.RZ, [0], [], Ang.symb 1⟩, ⟨.RZ, [0], [], Ang.symb 2⟩, ⟨.SWAP, [1, 2], [], {}⟩] = true := by decide +kernel

example : commRules (insOf (fun _ => true) ⟨.CNOT, [1], [0], {}⟩) (insOf (fun _ => true) ⟨.RX, [1], [], Ang.symb 0⟩) = true ∧
    safePair ⟨.CNOT, [1], [0], {}⟩ ⟨.RX, [1], [], Ang.symb 0⟩ = true := by decide +kernel

-- the predicate refuses the unsound families: two FREDKIN gates sharing the control with overlapping targets
-- (declared commuting, not a proved family), and any circuit containing a QASMU gate
example : safeComm (fun _ => true) 4 [⟨.FREDKIN, [1, 2], [0], {}⟩, ⟨.FREDKIN, [2, 3], [0], {}⟩] = false ∧
    safeComm (fun _ => true) 1 [⟨.QASMU, [0], [], {}⟩, ⟨.QASMU, [0], [], {}⟩] = false := by decide +kernel

/-! ## (e‴) the repaired rule (`fixes/C05-1.patch`): no side condition

With the patch the same-name rule applies only to the names of `_SELF_COMMUTING_GATES` (`patchNames`,
compared with the set of the tree by the harness).  Then **every** pair the rule can declare commuting
among well-formed, canonically shaped library gates is a proved family (`safePair_of_declared`), so
`safeComm` holds automatically. -/

/-- **schedule_den_C_fixed.**  For any set `w` of self-commuting names without `FREDKIN`, every circuit of
well-formed (`wfG`), canonically shaped (`shapeOK`) gates with complex semantics, both methods, both
permutation settings, every oracle, every valuation: the scheduled circuit denotes the same operator.
No matrix hypothesis and no `safeComm` hypothesis. -/
theorem schedule_den_C_fixed (w : String → Bool) (hF : w "FREDKIN" = false) (N : ℕ) (ρ : ℕ → ℝ) (gs : List Gate)
    (hO : ∀ r l, (O2 r l).Perm l) (h : ∀ g ∈ gs, wfG N g = true ∧ shapeOK g = true) :
    denG N ρ (((cyclesGen alap allowPerm (gs.map (insOf w)) O2).flatten).map (fun i => gs.getD i dfltGate)) =
      denG N ρ gs :=
  schedule_den_fixed ρ w hF alap allowPerm gs O2 hO h

/-- the instance for the literal set of `fixes/C05-1.patch` -/
theorem schedule_den_C_patch (N : ℕ) (ρ : ℕ → ℝ) (gs : List Gate)
    (hO : ∀ r l, (O2 r l).Perm l) (h : ∀ g ∈ gs, wfG N g = true ∧ shapeOK g = true) :
    denG N ρ (((cyclesGen alap allowPerm (gs.map (insOf wPatch)) O2).flatten).map (fun i => gs.getD i dfltGate)) =
      denG N ρ gs :=
  schedule_den_C_fixed alap allowPerm O2 wPatch wPatch_fredkin N ρ gs hO h

/-- every pair the rule declares commuting is a proved family (the reason `safeComm` is automatic) -/
theorem declared_pairs_are_safe (w : String → Bool) (hF : w "FREDKIN" = false) (N : ℕ) (gs : List Gate)
    (h : ∀ g ∈ gs, wfG N g = true ∧ shapeOK g = true) : safeComm w N gs = true :=
  safeComm_of_shape w hF N gs h

-- non-vacuity: TOFFOLI pairs (same controls in the opposite order; same target), a SWAP listed both ways,
-- two FREDKIN gates sharing the control (no longer declared commuting), rotations with symbolic angles
example : ∀ g ∈ ([⟨.TOFFOLI, [2], [0, 1], {}⟩, ⟨.TOFFOLI, [3], [1, 0], {}⟩, ⟨.TOFFOLI, [3], [0, 2], {}⟩,
    ⟨.SWAP, [0, 1], [], {}⟩, ⟨.SWAP, [1, 0], [], {}⟩, ⟨.FREDKIN, [1, 2], [0], {}⟩, ⟨.FREDKIN, [2, 3], [0], {}⟩,
    ⟨.CRX, [1], [0], Ang.symb 0⟩, ⟨.CRX, [2], [0], Ang.symb 1⟩] : List Gate), wfG 4 g = true ∧ shapeOK g = true := by
  decide +kernel

example : commRules (insOf wPatch ⟨.FREDKIN, [1, 2], [0], {}⟩) (insOf wPatch ⟨.FREDKIN, [2, 3], [0], {}⟩) = false ∧
    commRules (insOf (fun _ => true) ⟨.FREDKIN, [1, 2], [0], {}⟩) (insOf (fun _ => true) ⟨.FREDKIN, [2, 3], [0], {}⟩) = true := by
  decide +kernel

/-! ## (g) the rule and the set of the tree under test, regenerated

`Gen/SchedRule.lean` is rewritten from `scheduler.py` on every check (`py/translate/sched.py`, `ast`):
`Gen.SchedRule.commutationRules` is the body of `Scheduler.commutation_rules`, `Gen.SchedRule.selfCommuting` the
literal `_SELF_COMMUTING_GATES`.  `TreeIns a`: the flag `a.sc` is "`a.name` is in that set" — the driver computes the
flag this way for every instruction it is given. -/

/-- **comm_rules_regenerated.**  On such instructions the rule the model runs *is* the regenerated function: an
edit of `commutation_rules` changes the right-hand side and this theorem no longer builds. -/
theorem comm_rules_regenerated (a b : Ins) (ha : TreeIns a) (hb : TreeIns b) :
    commRules a b = Gen.SchedRule.commutationRules a b :=
  commRules_eq_gen a b ha hb

example : TreeIns (treeIns "QASMU" [0] [] 1) ∧ (treeIns "QASMU" [0] [] 1).sc = false ∧
    (treeIns "SWAP" [0, 1] [] 1).sc = true ∧
    Gen.SchedRule.commutationRules (treeIns "QASMU" [0] [] 1) (treeIns "QASMU" [0] [] 1) = false ∧
    Gen.SchedRule.commutationRules (treeIns "CNOT" [1] [0] 1) (treeIns "CNOT" [2] [0] 1) = true := by decide +kernel

/-- the tree carries the repair: the module has a set `_SELF_COMMUTING_GATES` … -/
theorem tree_set_present : Gen.SchedRule.selfCommuting.isSome = true := by decide

/-- … that does not list `FREDKIN` (two `FREDKIN` gates sharing the control do not commute) … -/
theorem tree_set_without_fredkin : Gen.SchedRule.inSet "FREDKIN" = false := by decide

/-- … **and every name it lists is a self-commuting family with a meaning in `schedule_den_C_full`**
(`interpretedNames`, each realised: `self_commuting_names_realised`).  Adding a name such as `QASMU`, `R`, `MS`,
`RZX`, `FREDKIN` or a user-defined name to the set breaks this theorem at build time. -/
theorem tree_set_interpreted : ∀ s, Gen.SchedRule.inSet s = true → s ∈ interpretedNames := by
  have h : ((Gen.SchedRule.selfCommuting.getD []).all fun s => interpretedNames.contains s) = true := by decide
  intro s hs
  have hp : Gen.SchedRule.selfCommuting = some (Gen.SchedRule.selfCommuting.getD []) := by
    cases hsc : Gen.SchedRule.selfCommuting with
    | none => have := tree_set_present; rw [hsc] at this; cases this
    | some l => rfl
  unfold Gen.SchedRule.inSet at hs
  rw [hp] at hs
  have := List.all_eq_true.mp h s (by simpa using hs)
  simpa using this

/-- every interpreted name is realised: an instruction of that name, flagged self-commuting, with an operator
satisfying `GateOK` exists (three qubits, every valuation of the angles) -/
theorem self_commuting_names_realised (ρ : ℕ → ℝ) : ∀ s ∈ interpretedNames,
    ∃ (a : Ins) (A : Matrix (St 3) (St 3) ℂ), a.name = s ∧ a.sc = true ∧ GateOK 3 ρ a A :=
  interpreted_realised ρ

/-- **gates given by several targets.**  The library's classes build `TOFFOLI([c1, c2, t])`, `TOFFOLI(controls=[c1],
targets=[c2, t])`, `FREDKIN([c, t1, t2])` with the roles of the qubits encoded in the ORDER of the target list;
`Instruction` sorts the list, so the rule sees equal target lists (or equal controls) for gates that do not commute.  The
guards of the same-name part of the tree's rule are regenerated into `Gen.SchedRule.flagged` (`fixes/C05-2.patch`: more
than two targets; `fixes/C05-4.patch`: more than one target unless the gate's targets are interchangeable).  An
instruction the tree does not flag is never declared commuting with anything; it then falls under the opaque clause of
`GateOK`, so `schedule_den_C_tree` covers circuits containing it. -/
theorem tree_unflagged_never_declared (a b : Ins) (ha : TreeIns a) (hf : Gen.SchedRule.flagged a = false)
    (hn : a.name ∉ crossNames) : a.sc = false ∧ commRules a b = false ∧ commRules b a = false :=
  have hs : a.sc = false := by rw [show a.sc = Gen.SchedRule.flagged a from ha, hf]
  ⟨hs, commRules_opaque hs hn b⟩

/-- the rule WITHOUT that guard (every name of the set flagged, whatever the number of targets) lets ALAP exchange two
targets-only TOFFOLI gates on the same three qubits: the witness of the finding repaired by `fixes/C05-2.patch` -/
theorem C05_counterexample_targets_only :
    gateCycles ⟨true, true, [], false⟩ [⟨"TOFFOLI", [0, 1, 2], [], 1, true⟩, ⟨"TOFFOLI", [0, 1, 2], [], 1, true⟩] = [[1], [0]] ∧
    -- `TOFFOLI(controls=[0], targets=[1, 2])` and `TOFFOLI(controls=[0], targets=[2, 1])` (finding repaired by fixes/C05-4.patch)
    gateCycles ⟨true, true, [], false⟩ [⟨"TOFFOLI", [1, 2], [0], 1, true⟩, ⟨"TOFFOLI", [1, 2], [0], 1, true⟩] = [[1], [0]] := by
  decide +kernel

/-- an instruction not flagged self-commuting whose name is none of `CNOT X RX Z RZ` is never declared commuting -/
theorem declared_never_opaque (a b : Ins) (hs : a.sc = false) (hn : a.name ∉ crossNames) :
    commRules a b = false ∧ commRules b a = false :=
  commRules_opaque hs hn b

/-! ## (e⁗) the repaired rule, every gate: `schedule_den_C_full`

The circuit is a list of scheduler instructions with one operator per position; every position is (`GateOK`,
`Lemmas/SchedFull.lean`) a **library gate** in canonical shape (an IR gate with `semD = some (g i)`, under its own
name or its other spelling `H` / `CX` / `iSWAP`), a **SWAPALPHA** gate (`Gen.G.swapalpha_ α` on its two targets, any
`α`), or — for an instruction that is not flagged self-commuting and is not named `CNOT X RX Z RZ` — **any operator
supported on the used qubits** (`QASMU`, `R`, `MS`, `RZX`, `FREDKIN` on a repaired tree, user-defined gates). -/

/-- **schedule_den_C_full** (matrix order `U = U_n ⋯ U_1`).  If no `FREDKIN` instruction is flagged self-commuting,
the scheduled circuit is the same operator as the original one: both methods, both permutation settings, every
oracle, every valuation, every register size.  No commutation hypothesis, no decidable side condition. -/
theorem schedule_den_C_full (N : ℕ) (ρ : ℕ → ℝ) (g : Nat → Matrix (St N) (St N) ℂ) (hO : ∀ r l, (O2 r l).Perm l)
    (hF : ∀ a ∈ ns, a.name = "FREDKIN" → a.sc = false)
    (hok : ∀ i, i < ns.length → GateOK N ρ (getIns ns i) (g i)) :
    ((cyclesGen alap allowPerm ns O2).flatten.map g).reverse.prod = ((List.range ns.length).map g).reverse.prod :=
  schedule_den_full ρ alap allowPerm ns g O2 hO hF hok

/-- the same in circuit order (first gate = leftmost factor) -/
theorem schedule_den_C_full_fwd (N : ℕ) (ρ : ℕ → ℝ) (g : Nat → Matrix (St N) (St N) ℂ) (hO : ∀ r l, (O2 r l).Perm l)
    (hF : ∀ a ∈ ns, a.name = "FREDKIN" → a.sc = false)
    (hok : ∀ i, i < ns.length → GateOK N ρ (getIns ns i) (g i)) :
    ((cyclesGen alap allowPerm ns O2).flatten.map g).prod = ((List.range ns.length).map g).prod :=
  schedule_den_full_fwd ρ alap allowPerm ns g O2 hO hF hok

/-- **schedule_den_C_tree.**  The instance for the tree under test: every flag is membership in the regenerated
`_SELF_COMMUTING_GATES` (so the model runs the regenerated rule, `comm_rules_regenerated`); the only hypothesis left is
what each position is (`GateOK`). -/
theorem schedule_den_C_tree (N : ℕ) (ρ : ℕ → ℝ) (g : Nat → Matrix (St N) (St N) ℂ) (hO : ∀ r l, (O2 r l).Perm l)
    (htree : ∀ a ∈ ns, TreeIns a) (hok : ∀ i, i < ns.length → GateOK N ρ (getIns ns i) (g i)) :
    ((cyclesGen alap allowPerm ns O2).flatten.map g).reverse.prod = ((List.range ns.length).map g).reverse.prod :=
  schedule_den_C_full alap allowPerm ns O2 N ρ g hO (tree_no_fredkin tree_set_without_fredkin htree) hok

/-- the circuit-level form for IR gates (`denG`), with the tree's set -/
theorem schedule_den_C_tree_circuit (N : ℕ) (ρ : ℕ → ℝ) (gs : List Gate)
    (hO : ∀ r l, (O2 r l).Perm l) (h : ∀ g ∈ gs, wfG N g = true ∧ shapeOK g = true) :
    denG N ρ (((cyclesGen alap allowPerm (gs.map (insOf Gen.SchedRule.inSet)) O2).flatten).map (fun i => gs.getD i dfltGate)) =
      denG N ρ gs :=
  schedule_den_C_fixed alap allowPerm O2 Gen.SchedRule.inSet tree_set_without_fredkin N ρ gs hO h

/-- the circuit used for non-vacuity: `H` on qubit 0, a one-qubit gate `QASMU` on qubit 0, `SWAPALPHA` on 0, 1,
`CX` with control 0 and target 1, another `QASMU` on qubit 0 -/
def fullWitness : List Ins :=
  [treeIns "H" [0] [] 1, treeIns "QASMU" [0] [] 1, treeIns "SWAPALPHA" [0, 1] [] 1, treeIns "CX" [1] [0] 1,
   treeIns "QASMU" [0] [] 1]

-- non-vacuity of `GateOK` / `TreeIns`: the five positions are an alias of a library gate, an arbitrary one-qubit
-- operator, a SWAPALPHA gate, another alias, another arbitrary operator
example (ρ : ℕ → ℝ) (U V : Matrix (St 1) (St 1) ℂ) : (∀ a ∈ fullWitness, TreeIns a) ∧
    ∃ g : ℕ → Matrix (St 2) (St 2) ℂ, ∀ i, i < fullWitness.length → GateOK 2 ρ (getIns fullWitness i) (g i) := by
  refine ⟨by decide, ?_⟩
  obtain ⟨A, hA, _⟩ := wfG_sem (N := 2) ρ (fun _ => true) ⟨.SNOT, [0], [], {}⟩ (by decide)
  obtain ⟨B, hB, _⟩ := wfG_sem (N := 2) ρ (fun _ => true) ⟨.CNOT, [1], [0], {}⟩ (by decide)
  have hop : ∀ W : Matrix (St 1) (St 1) ℂ, OpaqueOK 2 (treeIns "QASMU" [0] [] 1) ((Tg.single (0 : Fin 2)).embed W) := by
    intro W
    refine ⟨by decide, by decide, SupportedOn.embed _ _ ?_⟩
    rintro _ ⟨p, rfl⟩
    show (0 : ℕ) ∈ Ins.used _
    decide
  refine ⟨fun i => match i with
    | 0 => A
    | 1 => (Tg.single (0 : Fin 2)).embed U
    | 2 => (Tg.pair (0 : Fin 2) 1 (by decide)).embed (mat2 (Gen.G.swapalpha_ (1 / 3)))
    | 3 => B
    | _ => (Tg.single (0 : Fin 2)).embed V, ?_⟩
  intro i hi
  have hi' : i < 5 := hi
  interval_cases i
  · exact Or.inl ⟨⟨.SNOT, [0], [], {}⟩, by decide, by decide, hA, rfl, rfl, Or.inr (by decide)⟩
  · exact Or.inr (Or.inr (hop U))
  · exact Or.inr (Or.inl ⟨0, 1, by decide, 1 / 3, by decide, rfl, rfl, rfl⟩)
  · exact Or.inl ⟨⟨.CNOT, [1], [0], {}⟩, by decide, by decide, hB, rfl, rfl, Or.inr (by decide)⟩
  · exact Or.inr (Or.inr (hop V))

/-! ## (h) the constructor arguments of `Scheduler`

**`method`.**  `Scheduler.schedule` looks at `self.method` at three places (reversal of the dependency graph, reversal of
the returned cycles list, reversal of the graph before the start times are read); the three string literals are
regenerated from the source (`Gen.SchedRule.methodTests`, the translator refuses any other use of `self.method`).
The model has one flag (`Cfg.alap`, computed by the driver as `alapOf m`). -/

/-- the three tests are the same test -/
theorem method_tests_uniform : Gen.SchedRule.methodTests = ["ALAP", "ALAP", "ALAP"] := by decide

/-- **method_contract.**  At each of the three places the ALAP branch is taken iff the constructor argument is the string
`"ALAP"`; every other argument (`"alap"`, `"Alap"`, `""`, any other string, `None` or a non-string: `none`) takes the
ASAP branch **at all three places** — in particular never at some places only. -/
theorem method_contract (m : Option String) (k : Nat) (hk : k < 3) :
    Gen.SchedRule.alapAt k m = true ↔ m = some "ALAP" := by
  unfold Gen.SchedRule.alapAt
  rw [method_tests_uniform]
  have : (["ALAP", "ALAP", "ALAP"] : List String).getD k "" = "ALAP" := by
    interval_cases k <;> rfl
  rw [this]
  simp

theorem method_not_alap_is_asap (m : Option String) (h : m ≠ some "ALAP") :
    alapOf m = false ∧ ∀ k, k < 3 → Gen.SchedRule.alapAt k m = false := by
  have key : ∀ k, k < 3 → Gen.SchedRule.alapAt k m = false := by
    intro k hk
    cases hb : Gen.SchedRule.alapAt k m with
    | false => rfl
    | true => exact absurd ((method_contract m k hk).mp hb) h
  exact ⟨key 0 (by omega), key⟩

example : alapOf (some "alap") = false ∧ alapOf (some "Alap") = false ∧ alapOf none = false ∧ alapOf (some "") = false ∧
    alapOf (some "ALAP") = true := by decide

/-! **`constraint_functions`.**  `shOf fs ns i2 i1` is `not apply_constraint(i2, i1, nodes)` for the list `fs` of
constraint functions (`CFun`: the library's `qubit_constraint`, allow everything, forbid one ordered pair of indices,
forbid equal names), with `apply_constraint` regenerated from the source. -/

/-- **apply_constraint_is_conjunction.**  The regenerated `apply_constraint` answers `True` iff every constraint function
does (for the empty list: always). -/
theorem apply_constraint_is_conjunction (fs : List CFun) (i j : Nat) :
    shOf fs ns i j = false ↔ ∀ f ∈ fs, f.eval ns i j = true :=
  shOf_false_iff fs ns i j

/-- the default list `[qubit_constraint]` is the relation all theorems above are about -/
theorem default_constraints : shOf [.qubit] ns = shareIdx ns ∧
    cyclesGenW (shOf [.qubit] ns) alap allowPerm ns O2 = cyclesGen alap allowPerm ns O2 :=
  ⟨shOf_default ns, cyclesGenW_default alap allowPerm ns O2⟩

/-- **cycles_partition_cons** — for every constraint list. -/
theorem cycles_partition_cons (fs : List CFun) (hO : ∀ r l, (O2 r l).Perm l) :
    (cyclesGenW (shOf fs ns) alap allowPerm ns O2).flatten.Perm (List.range ns.length) :=
  cyclesGenW_perm (shOf fs ns) alap allowPerm ns O2 hO

/-- **cycle_respects_constraints** — for every constraint list: inside a returned cycle (listed in the order in which
its members were approved) every later member `b` was approved against every earlier member `a` by **every**
constraint function, asked as the code asks (`f(b, a, nodes)`). -/
theorem cycle_respects_constraints (fs : List CFun) (c : List Nat)
    (hc : c ∈ cyclesGenW (shOf fs ns) alap allowPerm ns O2) :
    c.Pairwise (fun a b => ∀ f ∈ fs, f.eval ns b a = true) :=
  (cyclesGenW_respects (shOf fs ns) alap allowPerm ns O2 c hc).imp
    (fun {a b} h => (shOf_false_iff fs ns b a).mp h)

/-- **cycle_disjoint_cons** — whenever `qubit_constraint` is among the constraint functions (first, last, anywhere),
two distinct gates of one cycle share no qubit. -/
theorem cycle_disjoint_cons (fs : List CFun) (hq : CFun.qubit ∈ fs) (c : List Nat)
    (hc : c ∈ cyclesGenW (shOf fs ns) alap allowPerm ns O2) (i j : Nat) (hi : i ∈ c) (hj : j ∈ c) (hij : i ≠ j) :
    shareIdx ns i j = false :=
  cyclesGenW_disjoint (shOf fs ns) alap allowPerm ns O2 (fun a b h => shOf_of_qubit hq ns a b h) c hc i hi j hj hij

/-- **order_respected_cons** — for every constraint list. -/
theorem order_respected_cons (fs : List CFun) (hO : ∀ r l, (O2 r l).Perm l) (i j : Nat) (hij : i < j) (hj : j < ns.length)
    (hs : shareIdx ns i j = true) (hc : commIdx allowPerm ns j i = false) :
    posOf (cyclesGenW (shOf fs ns) alap allowPerm ns O2) i < posOf (cyclesGenW (shOf fs ns) alap allowPerm ns O2) j :=
  cyclesGenW_order (shOf fs ns) alap allowPerm ns O2 hO hij hj hs hc

/-- **schedule_den_C_full_cons** — the same-unitary clause for every constraint list (hypotheses as in
`schedule_den_C_full`). -/
theorem schedule_den_C_full_cons (fs : List CFun) (N : ℕ) (ρ : ℕ → ℝ) (g : Nat → Matrix (St N) (St N) ℂ)
    (hO : ∀ r l, (O2 r l).Perm l) (hF : ∀ a ∈ ns, a.name = "FREDKIN" → a.sc = false)
    (hok : ∀ i, i < ns.length → GateOK N ρ (getIns ns i) (g i)) :
    ((cyclesGenW (shOf fs ns) alap allowPerm ns O2).flatten.map g).reverse.prod =
      ((List.range ns.length).map g).reverse.prod :=
  schedule_den_full_W ρ (shOf fs ns) alap allowPerm ns g O2 hO hF hok

/-- two CNOT gates with one control -/
def consWitness : List Ins := [treeIns "CNOT" [1] [0] 1, treeIns "CNOT" [2] [0] 1]

/-- **without `qubit_constraint` exclusivity is not provided**: with the empty list (or any list of functions that allow
the pair) the two commuting gates sharing qubit 0 are put into one cycle; with `qubit_constraint` first, last or alone
they are not; `forbid 1 0` (candidate 1 against member 0, the order of the call) separates them, `forbid 0 1` does not. -/
theorem C05_constraints_absent :
    gateCyclesW (shOf [] consWitness) ⟨false, true, [], false⟩ consWitness = [[0, 1]] ∧
    gateCyclesW (shOf [.allowAll, .forbid 0 1] consWitness) ⟨false, true, [], false⟩ consWitness = [[0, 1]] ∧
    gateCyclesW (shOf [.allowAll, .forbid 1 0] consWitness) ⟨false, true, [], false⟩ consWitness = [[0], [1]] ∧
    gateCyclesW (shOf [.sameName] consWitness) ⟨false, true, [], false⟩ consWitness = [[0], [1]] ∧
    gateCyclesW (shOf [.qubit, .allowAll] consWitness) ⟨false, true, [], false⟩ consWitness = [[0], [1]] ∧
    gateCyclesW (shOf [.allowAll, .qubit] consWitness) ⟨false, true, [], false⟩ consWitness = [[0], [1]] := by
  decide +kernel

end QipVerif.C05
