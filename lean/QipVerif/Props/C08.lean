import QipVerif.Lemmas.EmbedList
import QipVerif.Lemmas.EmbedCount
import QipVerif.Lemmas.EmbedAlg
import QipVerif.Lemmas.EmbedFlatTop
import QipVerif.Lemmas.EmbedArgs
import QipVerif.Lemmas.EmbedObj
import QipVerif.Lemmas.EmbedNum
/-!
# C08 — operator embedding places an operator on exactly the requested subsystems

Property theorems only.  `Embed.expandEntry` is the model of what the code computes
(`new_order` loops + meaning of `tensor(..).permute(new_order)`); `Embed.specEntry` is the
statement of the property (operator entry on the target digits in the listed order,
Kronecker delta elsewhere).  Both are ring- and operator-independent: they say *which*
entry of the small operator a matrix element equals, so the theorems hold for every
operator, every dimension vector and every register size.
-/
namespace QipVerif.C08
open QipVerif.Embed

/-- **Main theorem.** For every register size `N`, every injective in-range target list and
every pair of basis states, the code's matrix element is the specified one. -/
theorem expand_eq_spec (N : Nat) (targets : List Nat) (x y : List Nat)
    (hn : targets.Nodup) (hr : ∀ t ∈ targets, t < N) :
    expandEntry N targets x y = specEntry N targets x y := by
  unfold expandEntry specEntry
  simp only [unpermute_eq N targets hn hr, invOrder, List.map_append]
  have hk : ∀ z : List Nat, (targets.map (fun p => z.getD p 0)).length = targets.length := by simp
  rw [List.drop_left' (hk x), List.drop_left' (hk y), List.take_left' (hk x), List.take_left' (hk y)]
  have key : ((restPos N targets).map (fun p => x.getD p 0) = (restPos N targets).map (fun p => y.getD p 0))
      ↔ ((List.range N).all (fun i => targets.contains i || x.getD i 0 == y.getD i 0) = true) := by
    rw [List.map_inj_left, List.all_eq_true]
    constructor
    · intro h i hi
      by_cases hit : i ∈ targets
      · simp [hit]
      · have := h i (mem_restPos.mpr ⟨List.mem_range.mp hi, hit⟩)
        simp only [List.getD_eq_getElem?_getD] at this; simp [this]
    · intro h p hp
      have hp' := mem_restPos.mp hp
      have := h p (List.mem_range.mpr hp'.1)
      simpa [hp'.2] using this
  by_cases hc : (restPos N targets).map (fun p => x.getD p 0) = (restPos N targets).map (fun p => y.getD p 0)
  · rw [if_pos hc, if_pos (key.mp hc)]
  · rw [if_neg hc, if_neg (fun h => hc (key.mpr h))]

-- non-vacuity: a concrete non-trivial instance meets the hypotheses and both sides are `some`
example : [3, 0].Nodup ∧ (∀ t ∈ [3, 0], t < 5) ∧
    expandEntry 5 [3, 0] [1, 0, 1, 0, 1] [0, 0, 1, 1, 1] = some ([0, 1], [1, 0]) := by decide

/-- `new_order` is a permutation of `0..N-1`. -/
theorem newOrder_perm (N : Nat) (targets : List Nat) (hn : targets.Nodup) (hr : ∀ t ∈ targets, t < N) :
    (newOrder N targets).Perm (List.range N) := EmbedFlat.newOrder_perm N targets hn hr

example : newOrder 5 [3, 0] = [1, 2, 3, 0, 4] := by decide

/-- `new_order[targets[i]] = i`: the i-th listed target becomes subsystem `i` of the operator. -/
theorem newOrder_targets (N : Nat) (targets : List Nat) (hn : targets.Nodup) (hr : ∀ t ∈ targets, t < N)
    (i : Nat) (hi : i < targets.length) : (newOrder N targets)[targets[i]]? = some i := by
  rw [newOrder_get N targets hn _ (hr _ (List.getElem_mem hi))]
  simp [hn.idxOf_getElem i hi]


/-! ### The flat-index model: what QuTiP computes on the stored matrices

`EmbedFlat.flatEntry dims targets X Y` is the stored entry at flat row `X`, flat column `Y` of
`tensor([oper] + id_list).permute(new_order)` as computed by `qutip.core.tensor.tensor` (iterated `kron`,
`kron(A,B)[i,j] = A[i / n, j / n] * B[i % n, j % n]`) and `qutip/core/data/permute.pyx` (`_Indexer`: the
`cumprod` loop, `single`, `all`, placement by `argsort` / scatter).  No meaning of "subsystem" is assumed:
the theorems below derive it. -/

open QipVerif.EmbedFlat in
/-- **Meaning of `Qobj.permute`, proved from QuTiP's index arithmetic**: for every tensor structure with
positive dimensions and every `order` that is a permutation of the positions, the flat index `idx` of the
argument is sent to the flat index (radix `[structure[o] for o in order]`) whose digit `p` is digit
`order[p]` of `idx`. -/
theorem permute_digits (dimsA order : List Nat) (hperm : order.Perm (List.range dimsA.length))
    (hpos : ∀ d ∈ dimsA, 0 < d) (idx : Nat) :
    single dimsA (cumprod order (ndOf dimsA order)) idx < prodL (ndOf dimsA order) ∧
    digits (ndOf dimsA order) (single dimsA (cumprod order (ndOf dimsA order)) idx)
      = order.map (fun o => (digits dimsA idx).getD o 0) :=
  EmbedFlat.permute_digits hperm hpos idx

example : [2, 0, 1].Perm (List.range [2, 3, 4].length) ∧ (∀ d ∈ [2, 3, 4], 0 < d) ∧
    EmbedFlat.ndOf [2, 3, 4] [2, 0, 1] = [4, 2, 3] ∧
    -- idx = 17 = (1,1,1) in radix (2,3,4) goes to (1,1,1) in radix (4,2,3) = 10
    EmbedFlat.single [2, 3, 4] (EmbedFlat.cumprod [2, 0, 1] [4, 2, 3]) 17 = 10 := by decide

open QipVerif.EmbedFlat in
/-- the placement read forwards, as `_indices_csr_full` writes it: the entry at `(n, m)` of the argument
is the entry at `(index.all()[n], index.all()[m])` of the result -/
theorem permute_scatter (dimsA order : List Nat) (hperm : order.Perm (List.range dimsA.length))
    (hpos : ∀ d ∈ dimsA, 0 < d) (inp : Nat → Nat → Entry) (n m : Nat)
    (hn : n < prodL dimsA) (hm : m < prodL dimsA) :
    permuteEntries (indexAll dimsA order (ndOf dimsA order)) inp
      (single dimsA (cumprod order (ndOf dimsA order)) n)
      (single dimsA (cumprod order (ndOf dimsA order)) m) = inp n m :=
  EmbedFlat.permuteEntries_scatter hperm hpos inp n m hn hm

open QipVerif.EmbedFlat in
/-- **Meaning of `tensor([oper] + identities)`, proved from the `kron` index formula**: the entry at the
flat indices with digit lists `a ++ r`, `b ++ s` is the operator's entry at `(a, b)` if `r = s`, else 0. -/
theorem tensor_digits (od a b : List Nat) (hla : a.length = od.length) (hlb : b.length = od.length)
    (rest r s : List Nat) (hr : ValidDigits rest r) (hs : ValidDigits rest s) :
    tensorIds operEntry rest (undigits (od ++ rest) (a ++ r)) (undigits (od ++ rest) (b ++ s)) =
      if r = s then some (undigits od a, undigits od b) else none :=
  EmbedFlat.tensorIds_undigits operEntry od a b hla hlb rest r s hr hs

example : EmbedFlat.ValidDigits [3, 2] [2, 1] ∧
    EmbedFlat.tensorIds EmbedFlat.operEntry [3, 2] (undigits [2, 3, 2] [1, 2, 1]) (undigits [2, 3, 2] [0, 2, 1])
      = some (1, 0) := by
  refine ⟨⟨rfl, ?_⟩, by decide⟩
  intro i h1 h2
  match i, h1, h2 with
  | 0, _, _ => simp
  | 1, _, _ => simp
  | i + 2, h1, _ => simp at h1

/-- QuTiP accepts `new_order` (no "invalid order" error) and the result carries the register's `dims`. -/
theorem flat_dims (dims targets : List Nat) (hpos : ∀ d ∈ dims, 0 < d) (hn : targets.Nodup)
    (hr : ∀ t ∈ targets, t < dims.length) : EmbedFlat.flatDims dims targets = .ok dims :=
  EmbedFlat.flatDims_ok dims targets hpos hn hr

example : EmbedFlat.flatDims [2, 3, 4] [2, 0] = .ok [2, 3, 4] := by decide

/-- **Flat-index model = digit-tuple model** under the mixed-radix bijection (`undigits_digits`,
`digits_undigits`): for every dimension vector with positive entries, every injective in-range target
list and all flat indices below the total dimension. -/
theorem flat_eq_digits (dims targets : List Nat) (hpos : ∀ d ∈ dims, 0 < d) (hn : targets.Nodup)
    (hr : ∀ t ∈ targets, t < dims.length) (X Y : Nat) (hX : X < prodL dims) (hY : Y < prodL dims) :
    EmbedFlat.flatEntry dims targets X Y =
      (expandEntry dims.length targets (digits dims X) (digits dims Y)).map
        (fun p => (undigits (targets.map (fun t => dims.getD t 0)) p.1,
                   undigits (targets.map (fun t => dims.getD t 0)) p.2)) :=
  EmbedFlat.flatEntry_eq_digits dims targets hpos hn hr X Y hX hY

/-- **Main theorem on the stored matrices.** The entry at flat row `X`, flat column `Y` of what
`expand_operator` returns is the operator's entry at the flat indices formed by the target digits of `X`
and `Y` (in the listed order) if all other digits agree, and 0 otherwise — for every dimension vector,
every injective in-range target list, every operator (the entry is symbolic) and every coefficient ring. -/
theorem flat_eq_spec (dims targets : List Nat) (hpos : ∀ d ∈ dims, 0 < d) (hn : targets.Nodup)
    (hr : ∀ t ∈ targets, t < dims.length) (X Y : Nat) (hX : X < prodL dims) (hY : Y < prodL dims) :
    EmbedFlat.flatEntry dims targets X Y = EmbedFlat.specFlat dims targets X Y := by
  rw [flat_eq_digits dims targets hpos hn hr X Y hX hY, expand_eq_spec dims.length targets _ _ hn hr,
    EmbedFlat.specEntry_digits dims targets hr X Y]

-- non-vacuity: register (2,3,2), a two-subsystem operator on targets [2,0]; row 7 = (1,0,1)
example : (∀ d ∈ [2, 3, 2], 0 < d) ∧ [2, 0].Nodup ∧ (∀ t ∈ [2, 0], t < [2, 3, 2].length) ∧
    7 < prodL [2, 3, 2] ∧ EmbedFlat.flatEntry [2, 3, 2] [2, 0] 7 6 = some (3, 1)
    ∧ EmbedFlat.flatEntry [2, 3, 2] [2, 0] 7 2 = none := by decide

/-- the stored matrix over any coefficient type: `evalEntry U e` reads the operator's matrix `U` -/
def evalEntry {R : Type} [Zero R] (U : Nat → Nat → R) : EmbedFlat.Entry → R
  | none => 0
  | some (a, b) => U a b

/-- The same as a `Fin (∏ dims)`-indexed matrix over an arbitrary coefficient type: element `(X, Y)` is
`U[a, b]` with `a`, `b` below the operator's dimension `∏ targets' dims`, or `0`. -/
theorem flat_matrix_eq_spec {R : Type} [Zero R] (U : Nat → Nat → R) (dims targets : List Nat)
    (hpos : ∀ d ∈ dims, 0 < d) (hn : targets.Nodup) (hr : ∀ t ∈ targets, t < dims.length)
    (X Y : Fin (prodL dims)) :
    evalEntry U (EmbedFlat.flatEntry dims targets X Y) =
      if ∀ i, i < dims.length → i ∉ targets → EmbedFlat.digitAt dims X i = EmbedFlat.digitAt dims Y i
      then U (undigits (targets.map (fun t => dims.getD t 0)) (targets.map (EmbedFlat.digitAt dims X)))
             (undigits (targets.map (fun t => dims.getD t 0)) (targets.map (EmbedFlat.digitAt dims Y)))
      else 0 := by
  rw [flat_eq_spec dims targets hpos hn hr X Y X.2 Y.2]
  unfold EmbedFlat.specFlat
  have hiff := EmbedFlat.specFlat_cond_iff dims targets X Y
  by_cases hc : ∀ i, i < dims.length → i ∉ targets → EmbedFlat.digitAt dims X i = EmbedFlat.digitAt dims Y i
  · simp only [if_pos hc, if_pos (hiff.mpr hc)]; rfl
  · simp only [if_neg hc, if_neg (fun h => hc (hiff.mp h))]; rfl

/-- the operator's indices that occur are below the operator's dimension -/
theorem flat_entry_in_range (dims targets : List Nat) (hpos : ∀ d ∈ dims, 0 < d) (hn : targets.Nodup)
    (hr : ∀ t ∈ targets, t < dims.length) (X Y : Nat) (hX : X < prodL dims) (hY : Y < prodL dims)
    (a b : Nat) (h : EmbedFlat.flatEntry dims targets X Y = some (a, b)) :
    a < prodL (targets.map (fun t => dims.getD t 0)) ∧ b < prodL (targets.map (fun t => dims.getD t 0)) := by
  rw [flat_eq_spec dims targets hpos hn hr X Y hX hY] at h
  unfold EmbedFlat.specFlat at h
  have hv := EmbedFlat.undigits_targets_lt dims targets hpos hr
  split at h
  · simp only [Option.some.injEq, Prod.mk.injEq] at h
    rw [← h.1, ← h.2]; exact ⟨hv X, hv Y⟩
  · exact absurd h (by simp)

example : EmbedFlat.flatEntry [2, 3, 2] [2, 0] 7 6 = some (3, 1) ∧ 3 < prodL ([2, 0].map (fun t => [2, 3, 2].getD t 0)) := by
  decide

/-! ### Rejections -/

theorem validate_rejects_count (dims : List Nat) (targets : List Int) (opdims : List Nat)
    (h : targets.length ≠ opdims.length) : validate dims targets opdims = .error .count := by
  simp [validate, h]

theorem validate_rejects_range (dims : List Nat) (targets : List Int) (opdims : List Nat)
    (hc : targets.length = opdims.length) (h : ∃ t ∈ targets, (dims.length : Int) ≤ t) :
    validate dims targets opdims = .error .range := by
  obtain ⟨t, ht, hge⟩ := h
  have : (targets.all fun t => decide (t < (dims.length : Int))) = false := by
    rw [List.all_eq_false]
    exact ⟨t, ht, by simp; omega⟩
  simp [validate, hc, this]

/-- in-range, non-negative targets whose dimensions differ from the operator's are rejected -/
theorem validate_rejects_dims (dims : List Nat) (targets : List Nat) (opdims : List Nat)
    (hc : targets.length = opdims.length) (hr : ∀ t ∈ targets, t < dims.length)
    (hd : targets.map (fun t => dims.getD t 0) ≠ opdims) :
    validate dims (targets.map Int.ofNat) opdims = .error .dims := by
  have hall : ((targets.map Int.ofNat).all fun t => decide (t < (dims.length : Int))) = true := by
    rw [List.all_eq_true]; intro t ht
    obtain ⟨n, hn, rfl⟩ := List.mem_map.mp ht
    simpa using hr n hn
  simp only [validate, List.length_map, hc, ne_eq, not_true_eq_false, ↓reduceIte, hall,
    Bool.not_true, Bool.false_eq_true, pyGetAll_ofNat dims targets hr]
  rw [if_pos hd]

/-- The validation accepts exactly the well-formed requests: non-negative, in-range,
pairwise distinct targets whose dimensions are the operator's.  In particular duplicate or
negative targets never produce a value. -/
theorem validate_ok_iff (dims : List Nat) (targets : List Int) (opdims : List Nat) (nn : List Nat) :
    validate dims targets opdims = .ok nn ↔
      (targets = nn.map Int.ofNat ∧ nn.Nodup ∧ (∀ t ∈ nn, t < dims.length) ∧
        nn.map (fun t => dims.getD t 0) = opdims) := by
  constructor
  · intro h
    by_cases hlen : targets.length ≠ opdims.length
    · simp [validate, hlen] at h
    by_cases hall : ¬ (targets.all fun t => decide (t < (dims.length : Int))) = true
    · simp [validate, hlen, hall] at h
    have hall := Decidable.not_not.mp hall
    cases htd : pyGetAll dims targets with
    | none => simp [validate, hlen, hall, htd] at h
    | some td =>
    by_cases hdims : td ≠ opdims
    · simp [validate, hlen, hall, htd, hdims] at h
    by_cases hrest : (restPos dims.length (nonneg targets)).length > dims.length - targets.length
    · simp [validate, hlen, hall, htd, hdims, hrest] at h
    by_cases hrest2 : (restPos dims.length (nonneg targets)).length + targets.length ≠ dims.length
    · simp [validate, hlen, hall, htd, hdims, hrest, hrest2] at h
    simp only [validate, hlen, hall, htd, hdims, hrest, hrest2, ↓reduceIte, Bool.not_true, Bool.false_eq_true,
      Except.ok.injEq] at h
    subst h
    have hall' : ∀ t ∈ targets, t < (dims.length : Int) := by
      simpa [List.all_eq_true] using hall
    have hlt := nonneg_lt targets dims.length hall'
    have hle := nonneg_length_le targets
    have hnd : (nonneg targets).Nodup := nodup_of_restPos_le dims.length _ hlt (by omega)
    have hfull := restPos_length_of_nodup dims.length _ hnd hlt
    have heq : targets = (nonneg targets).map Int.ofNat := nonneg_full targets (by omega)
    refine ⟨heq, hnd, hlt, ?_⟩
    have := pyGetAll_ofNat dims (nonneg targets) hlt
    rw [← heq, htd] at this
    simp only [ne_eq, Decidable.not_not] at hdims
    rw [← hdims]; exact (Option.some.inj this).symm
  · rintro ⟨rfl, hnd, hlt, hd⟩
    have hall : ((nn.map Int.ofNat).all fun t => decide (t < (dims.length : Int))) = true := by
      rw [List.all_eq_true]; intro t ht
      obtain ⟨n, hn, rfl⟩ := List.mem_map.mp ht
      simpa using hlt n hn
    have hfull := restPos_length_of_nodup dims.length _ hnd hlt
    have hc : nn.length = opdims.length := by rw [← hd]; simp
    simp only [validate, List.length_map, hc, ne_eq, not_true_eq_false, ↓reduceIte, hall,
      Bool.not_true, Bool.false_eq_true, pyGetAll_ofNat dims nn hlt, hd, nonneg_ofNat]
    rw [if_neg (by omega), if_neg (by omega)]
-- non-vacuity: a well-formed request is accepted, a duplicate and a negative target are not
example : validate [2, 3, 2] [2, 0] [2, 2] = .ok [2, 0] ∧ validate [2, 3, 2] [0, 0] [2, 2] = .error .index
    ∧ validate [2, 3, 2] [-1] [2] = .error .index ∧ validate [2] [0, 0] [2, 2] = .error .permute := by decide


/-! ### The other argument forms of `expand_operator` (`Model/EmbedArgs.lean`)

`N=` / `dims=None`, `targets` as `None` / integer / list, non-square operators, `cyclic_permutation`. -/

open QipVerif.EmbedArgs in
/-- The standard call `expand_operator(oper, dims=dims, targets=[…])` with a square operator is exactly
`validate`: same verdicts, and on acceptance one operator on the register `dims`. -/
theorem args_plain (dims : List Nat) (ts : List Int) (od : List Nat) :
    expandArgs ⟨none, some dims, .list ts, od, od, false⟩ =
      match validate dims ts od with
      | .ok nn => .ok [(dims, nn)]
      | .error e => .error (.val e) := by
  simp only [expandArgs, resolveSize, resolveTargets, expandOne, checkArgs, buildChecks, validate,
    restPos_any_false, List.take_length, Bool.false_eq_true, ↓reduceIte, ne_eq, not_true_eq_false]
  by_cases h1 : ts.length = od.length
  · by_cases h2 : (ts.all fun t => decide (t < (dims.length : Int))) = true
    · cases h4 : pyGetAll dims ts with
      | none => simp [h1, h2]
      | some td =>
        have h9 := pyGetAll_ge dims ts td h4
        by_cases h5 : td = od
        · by_cases h6 : (restPos dims.length (nonneg ts)).length > dims.length - od.length
          · simp [h1, h2, h5, h6, h9]
          · by_cases h8 : (restPos dims.length (nonneg ts)).length + od.length = dims.length
            · simp [h1, h2, h5, h6, h8, h9]
            · simp [h1, h2, h5, h6, h8, h9]
        · simp [h1, h2, h5]
    · simp [h1, h2]
  · simp [h1]

open QipVerif.EmbedArgs in
example : expandArgs ⟨none, some [2, 3, 2], .list [2, 0], [2, 2], [2, 2], false⟩ = .ok [([2, 3, 2], [2, 0])]
    ∧ expandArgs ⟨none, some [2, 3, 2], .list [1], [2], [2], false⟩ = .error (.val .dims)
    ∧ expandArgs ⟨none, some [2, 3, 2], .list [1], [3], [2], false⟩ = .error .square
    ∧ expandArgs ⟨none, none, .list [1], [3], [3], false⟩ = .error .nosize := by decide

open QipVerif.EmbedArgs in
/-- `targets=t` (an integer) is `targets=[t]`; `targets=None` is `range(len(oper.dims[0]))`;
`N=n` without `dims` is `dims=[2]*n`. -/
theorem args_forms (N : Option Nat) (dims : Option (List Nat)) (t : Int) (n : Nat) (ta : TArg)
    (opL opR : List Nat) (c : Bool) :
    expandArgs ⟨N, dims, .int t, opL, opR, c⟩ = expandArgs ⟨N, dims, .list [t], opL, opR, c⟩ ∧
    expandArgs ⟨N, dims, .none, opL, opR, c⟩
      = expandArgs ⟨N, dims, .list ((List.range opL.length).map Int.ofNat), opL, opR, c⟩ ∧
    expandArgs ⟨some n, none, ta, opL, opR, c⟩ = expandArgs ⟨none, some (List.replicate n 2), ta, opL, opR, c⟩ := by
  refine ⟨rfl, rfl, ?_⟩
  simp [expandArgs, resolveSize, resolveTargets]

open QipVerif.EmbedArgs in
example : expandArgs ⟨some 3, none, .int 1, [2], [2], false⟩ = .ok [([2, 2, 2], [1])]
    ∧ expandArgs ⟨some 3, none, .none, [2, 2], [2, 2], false⟩ = .ok [([2, 2, 2], [0, 1])] := by decide

open QipVerif.EmbedArgs in
/-- **Every accepted single call is a well-formed placement**: whatever combination of `N`, `dims`,
`targets` was passed, if a value is returned then the operator is square, `N ≤ len(dims)`, and the request
is one that `validate` accepts on the register `dims[:N]` (hence, by `validate_ok_iff`, non-negative,
in-range, pairwise distinct targets with matching dimensions) — the case to which `flat_eq_spec` applies.
With `N < len(dims)` the code silently ignores the subsystems from `N` on. -/
theorem args_one_sound (N : Nat) (dims : List Nat) (ts : List Int) (opL opR reg nn : List Nat)
    (h : expandOne N dims ts opL opR = .ok (reg, nn)) :
    reg = dims.take N ∧ N ≤ dims.length ∧ opL = opR ∧ validate reg ts opL = .ok nn := by
  obtain ⟨h1, h2, h3, h4, h5, h6, h7⟩ := expandOne_ok N dims ts opL opR reg nn h
  refine ⟨h1, h2, h3, (validate_ok_iff reg ts opL nn).mpr ⟨h4, h5, ?_, h7⟩⟩
  have : reg.length = N := by rw [h1, List.length_take]; omega
  rw [this]; exact h6

open QipVerif.EmbedArgs in
example : expandOne 2 [2, 3, 2] [1] [3] [3] = .ok ([2, 3], [1])
    ∧ expandOne 4 [2, 3, 2] [1] [3] [3] = .error (.val .index)
    ∧ expandOne 0 [2] [-1] [2] [2] = .error (.val .index) := by decide

open QipVerif.EmbedArgs in
/-- the non-cyclic call returns one operator, and it is a well-formed placement -/
theorem args_sound (a : Args) (rs : List (List Nat × List Nat)) (hc : a.cyclic = false)
    (h : expandArgs a = .ok rs) :
    ∃ N dims reg nn, resolveSize a = .ok (N, dims) ∧ rs = [(reg, nn)] ∧ reg = dims.take N ∧
      N ≤ dims.length ∧ a.opL = a.opR ∧ validate reg (resolveTargets a) a.opL = .ok nn := by
  unfold expandArgs at h
  cases hs : resolveSize a with
  | error e => simp [hs] at h
  | ok p =>
    obtain ⟨N, dims⟩ := p
    simp only [hs, hc, Bool.false_eq_true, ↓reduceIte] at h
    cases h1 : expandOne N dims (resolveTargets a) a.opL a.opR with
    | error e => simp [h1] at h
    | ok r =>
      obtain ⟨reg, nn⟩ := r
      simp only [h1, Except.ok.injEq] at h
      obtain ⟨e1, e2, e3, e4⟩ := args_one_sound N dims _ _ _ reg nn h1
      exact ⟨N, dims, reg, nn, rfl, h.symm, e1, e2, e3, e4⟩

open QipVerif.EmbedArgs in
/-- `cyclic_permutation=True`: `N` operators, the `j`-th is the single call on the targets shifted by `j`
modulo `N` (so negative targets are accepted in this mode, as `np.mod` makes them non-negative). -/
theorem args_cyclic (a : Args) (rs : List (List Nat × List Nat)) (hc : a.cyclic = true)
    (h : expandArgs a = .ok rs) :
    ∃ N dims, resolveSize a = .ok (N, dims) ∧ rs.length = N ∧ N ≤ dims.length ∧ a.opL = a.opR ∧
      ∀ j (hj : j < rs.length), rs[j].1 = dims.take N ∧
        validate (dims.take N) ((resolveTargets a).map (fun t => (t + (j : Int)) % (N : Int))) a.opL = .ok rs[j].2 := by
  unfold expandArgs at h
  cases hs : resolveSize a with
  | error e => simp [hs] at h
  | ok p =>
    obtain ⟨N, dims⟩ := p
    simp only [hs, hc, ↓reduceIte] at h
    cases h0 : checkArgs N dims (resolveTargets a) a.opL a.opR with
    | error e => simp [h0] at h
    | ok u =>
      simp only [h0] at h
      obtain ⟨hl, hj⟩ := cyclicLoop_ok N dims _ _ _ _ rs h
      have hsq : a.opL = a.opR := by
        unfold checkArgs at h0
        by_cases h3 : a.opL = a.opR
        · exact h3
        · exfalso
          by_cases h1 : (resolveTargets a).length ≠ a.opL.length
          · simp [h1] at h0
          by_cases h2 : ¬ ((resolveTargets a).all fun t => decide (t < (N : Int))) = true
          · simp [h1, h2] at h0
          simp only [h1, h3, ne_eq, not_false_eq_true, ↓reduceIte] at h0
          split at h0 <;> simp at h0
      have hlen : rs.length = N := by rw [hl, List.length_range]
      have hN : N ≤ dims.length := by
        by_cases hz : N = 0
        · omega
        · have h0' : 0 < rs.length := by omega
          have := hj 0 (by rw [List.length_range]; omega) h0'
          cases hr : rs[0] with
          | mk reg nn =>
            rw [hr] at this
            exact (args_one_sound N dims _ _ _ reg nn this).2.1
      refine ⟨N, dims, rfl, hlen, hN, hsq, ?_⟩
      intro j hj'
      have := hj j (by rw [List.length_range]; omega) hj'
      rw [List.getElem_range] at this
      cases hr : rs[j] with
      | mk reg nn =>
        rw [hr] at this
        obtain ⟨e1, _, _, e4⟩ := args_one_sound N dims _ _ _ reg nn this
        exact ⟨e1, e1 ▸ e4⟩

open QipVerif.EmbedArgs in
example : expandArgs ⟨none, some [2, 2, 2], .list [-1], [2], [2], true⟩
      = .ok [([2, 2, 2], [2]), ([2, 2, 2], [0]), ([2, 2, 2], [1])]
    ∧ expandArgs ⟨none, some [2, 3, 2], .list [0], [2], [2], true⟩ = .error (.val .dims)
    ∧ expandArgs ⟨none, some [2, 2, 2], .list [-1], [2], [2], false⟩ = .error (.val .index) := by decide



/-! ### Numeric types of the integer-valued arguments (`Model/EmbedNum.lean`)

`N` / `num_qubits`, entries of `targets` and `dims`, integer `dims` of a pulse — as Python `int`, `bool`, numpy
integer, numpy 0-d array, float with integral value. -/

open QipVerif.EmbedArgs QipVerif.EmbedNum in
/-- **No type changes a value**: at every argument position a number is used with its own integral value or
the call raises (nothing is truncated, ignored or replaced by a default). -/
theorem num_coerce_value (p : Pos) (x : Num) (v : Int) (h : coerce p x = some v) : v = x.v :=
  coerce_eq p x v h

open QipVerif.EmbedArgs QipVerif.EmbedNum in
/-- a call with typed numbers that returns a value is the call on the integers themselves, so every `args_*`
theorem (hence `flat_eq_spec`) applies to it: the operator is embedded on the REQUESTED register. -/
theorem args_typed_sound (a : ArgsT) (rs : List (List Nat × List Nat)) (h : expandArgsT a = .ok rs) :
    ∃ a', lower a = some a' ∧ expandArgs a' = .ok rs := by
  unfold expandArgsT at h
  cases hl : lower a with
  | none => simp [hl] at h
  | some a' =>
    cases he : expandArgs a' with
    | error e => simp [hl, he] at h
    | ok rs' =>
      simp only [hl, he, Except.ok.injEq] at h
      exact ⟨a', rfl, by rw [← h]; exact he⟩

open QipVerif.EmbedArgs QipVerif.EmbedNum in
/-- with Python ints everywhere the typed call is the plain call -/
theorem args_typed_int (a : Args) :
    expandArgsT (ofArgs a) = match expandArgs a with | .ok rs => .ok rs | .error e => .error (.args e) := by
  unfold expandArgsT; rw [lower_ofArgs]; rfl

open QipVerif.EmbedArgs QipVerif.EmbedNum in
-- `Gate.get_qobj(num_qubits=np.int64(4))` of a one-qubit gate on qubit 0; a float size; a bool entry of targets
example : expandArgsT ⟨none, .qubits ⟨.npint, 4⟩, .list [⟨.int, 0⟩], [2], [2], false⟩ = .ok [([2, 2, 2, 2], [0])]
    ∧ expandArgsT ⟨none, .qubits ⟨.float, 4⟩, .list [⟨.int, 0⟩], [2], [2], false⟩ = .error .numtype
    ∧ expandArgsT ⟨none, .list [⟨.int, 2⟩, ⟨.float, 3⟩, ⟨.arr0, 2⟩], .list [⟨.bool, 1⟩], [3], [3], false⟩
        = .error .numtype
    ∧ expandArgsT ⟨none, .list [⟨.int, 2⟩, ⟨.float, 3⟩, ⟨.npint, 2⟩], .list [⟨.bool, 1⟩], [3], [3], false⟩
        = .ok [([2, 3, 2], [1])] := by decide

/-! ### Objects that embed on demand (`Model/EmbedObj.lean`): `_EvoElement` behind `Pulse` / `Drift`

The observation points `Pulse.get_ideal_qobj(dims)`, `get_ideal_qobjevo`, `get_noisy_qobjevo`,
`Drift.get_ideal_qobjevo` reach `expand_operator` through mutable objects. -/

open QipVerif.EmbedArgs QipVerif.EmbedObj in
/-- **The answer depends on the current fields only**: after any history of re-assignments of targets and
operators and of earlier requests (with any `dims`), the operators returned for `dims` are those of
freshly built elements carrying the current fields. -/
theorem history_get_current (es : List Elem) (ops : List Op) (d : DArg) :
    run es (ops ++ [.get d]) = run es ops ++ [(ops.foldl applyOp es).map (answer d)] := by
  rw [run_append]; rfl

open QipVerif.EmbedArgs QipVerif.EmbedObj in
-- a pulse evaluated, re-targeted (order of two targets exchanged), evaluated again with the same dims
example : run [⟨some [2, 2], .list [0, 1], 7⟩]
      [.get (.list [2, 2, 3]), .setTargets 0 (.list [1, 0]), .get (.list [2, 2, 3]), .setOper 0 none 8, .get (.int 2)]
    = [[(.ok ([2, 2, 3], [0, 1]), 7)], [(.ok ([2, 2, 3], [1, 0]), 7)], [(.ok ([2, 2], [0]), 8)]] := by decide

open QipVerif.EmbedArgs QipVerif.EmbedObj in
/-- every operator such an element returns is a well-formed placement of its current operator at its
current targets on the register `dims` (`[2]*dims` for an integer) — the case of `flat_eq_spec`. -/
theorem elem_get_sound (od : List Nat) (t : TArg) (d : DArg) (reg nn : List Nat)
    (oid : Nat) (h : elemGet ⟨some od, t, oid⟩ d = .ok (reg, nn)) :
    reg = d.dims ∧ validate d.dims (resolveTargets ⟨none, some d.dims, t, od, od, false⟩) od = .ok nn := by
  unfold elemGet at h
  simp only at h
  cases he : expandArgs ⟨none, some d.dims, t, od, od, false⟩ with
  | error e => simp [he] at h
  | ok rs =>
    obtain ⟨N, dims, reg', nn', hs, hrs, hreg, hN, _, hv⟩ := args_sound _ rs rfl he
    simp only [resolveSize, Except.ok.injEq, Prod.mk.injEq] at hs
    obtain ⟨hN', hd'⟩ := hs
    subst hrs
    simp only [he, Except.ok.injEq, Prod.mk.injEq] at h
    obtain ⟨h1, h2⟩ := h
    subst h1 h2 hd' hN'
    have : reg' = d.dims := by rw [hreg, List.take_length]
    subst this
    exact ⟨rfl, hv⟩

open QipVerif.EmbedArgs QipVerif.EmbedObj in
example : elemGet ⟨some [3], .int 2, 0⟩ (.list [2, 2, 3]) = .ok ([2, 2, 3], [2])
    ∧ elemGet ⟨some [3], .int 1, 0⟩ (.list [2, 2, 3]) = .error (.val .dims)
    ∧ elemGet ⟨none, .none, 0⟩ (.list [3, 2]) = .ok ([3, 2], [0]) := by decide

/-! ### The same placement as an operator on `(ℂ²)^{⊗N}` (used by C01, C03, C05, C07) -/

theorem embed_apply {k N : ℕ} (t : Tg k N) (U : Matrix (St k) (St k) ℂ) (x y : St N) :
    t.embed U x y = U (x ∘ t.f) (y ∘ t.f) * (if ∀ i, i ∉ Set.range t.f → x i = y i then 1 else 0) :=
  Tg.embed_apply t U x y

theorem embed_mul {k N : ℕ} (t : Tg k N) (U V : Matrix (St k) (St k) ℂ) :
    t.embed (U * V) = t.embed U * t.embed V := Tg.embed_mul t U V

theorem embed_one {k N : ℕ} (t : Tg k N) : t.embed (1 : Matrix (St k) (St k) ℂ) = 1 := Tg.embed_one t

theorem embed_comp {k N m : ℕ} (q : Tg k N) (s : Tg m k) (U : Matrix (St m) (St m) ℂ) :
    q.embed (s.embed U) = (q.comp s).embed U := Tg.embed_comp q s U

end QipVerif.C08
