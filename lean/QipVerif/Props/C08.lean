import QipVerif.Lemmas.EmbedList
import QipVerif.Lemmas.EmbedCount
import QipVerif.Lemmas.EmbedAlg
/-!
# C08 — operator embedding places an operator on exactly the requested subsystems

Property theorems only.  `Embed.expandEntry` is the model of what the code computes
(`new_order` loops + meaning of `tensor(..).permute(new_order)`); `Embed.specEntry` is the
statement of the property (operator entry on the target digits in the listed order,
Kronecker delta elsewhere).  Both are ring- and operator-independent: they say *which*
entry of the small operator a matrix element equals, so the theorems hold for every
operator, every dimension vector and every register size.
-/
namespace QipVerif.C08
open QipVerif.Embed

/-- **Main theorem.** For every register size `N`, every injective in-range target list and
every pair of basis states, the code's matrix element is the specified one. -/
theorem expand_eq_spec (N : Nat) (targets : List Nat) (x y : List Nat)
    (hn : targets.Nodup) (hr : ∀ t ∈ targets, t < N) :
    expandEntry N targets x y = specEntry N targets x y := by
  unfold expandEntry specEntry
  simp only [unpermute_eq N targets hn hr, invOrder, List.map_append]
  have hk : ∀ z : List Nat, (targets.map (fun p => z.getD p 0)).length = targets.length := by simp
  rw [List.drop_left' (hk x), List.drop_left' (hk y), List.take_left' (hk x), List.take_left' (hk y)]
  have key : ((restPos N targets).map (fun p => x.getD p 0) = (restPos N targets).map (fun p => y.getD p 0))
      ↔ ((List.range N).all (fun i => targets.contains i || x.getD i 0 == y.getD i 0) = true) := by
    rw [List.map_inj_left, List.all_eq_true]
    constructor
    · intro h i hi
      by_cases hit : i ∈ targets
      · simp [hit]
      · have := h i (mem_restPos.mpr ⟨List.mem_range.mp hi, hit⟩)
        simp only [List.getD_eq_getElem?_getD] at this; simp [this]
    · intro h p hp
      have hp' := mem_restPos.mp hp
      have := h p (List.mem_range.mpr hp'.1)
      simpa [hp'.2] using this
  by_cases hc : (restPos N targets).map (fun p => x.getD p 0) = (restPos N targets).map (fun p => y.getD p 0)
  · rw [if_pos hc, if_pos (key.mp hc)]
  · rw [if_neg hc, if_neg (fun h => hc (key.mpr h))]

-- non-vacuity: a concrete non-trivial instance meets the hypotheses and both sides are `some`
example : [3, 0].Nodup ∧ (∀ t ∈ [3, 0], t < 5) ∧
    expandEntry 5 [3, 0] [1, 0, 1, 0, 1] [0, 0, 1, 1, 1] = some ([0, 1], [1, 0]) := by decide

/-- `new_order` is a permutation of `0..N-1`. -/
theorem newOrder_perm (N : Nat) (targets : List Nat) (hn : targets.Nodup) (hr : ∀ t ∈ targets, t < N) :
    (newOrder N targets).Perm (List.range N) := by
  have hlen := newOrder_length N targets
  have hil := invOrder_length N targets hn hr
  have : newOrder N targets = (List.range N).map (fun p => (invOrder N targets).idxOf p) := by
    apply List.ext_getElem?
    intro p
    by_cases hp : p < N
    · rw [newOrder_get' N targets hn p hp]; simp [hp]
    · rw [List.getElem?_eq_none (by omega), List.getElem?_eq_none (by simp; omega)]
  rw [this]
  have hnd : ((List.range N).map (fun p => (invOrder N targets).idxOf p)).Nodup := by
    rw [List.nodup_map_iff_inj_on List.nodup_range]
    intro a ha b hb hab
    have ha' := (mem_invOrder hr).mpr (List.mem_range.mp ha)
    have hb' := (mem_invOrder hr).mpr (List.mem_range.mp hb)
    have e1 : (invOrder N targets)[(invOrder N targets).idxOf a]'(List.idxOf_lt_length_of_mem ha') = a :=
      List.getElem_idxOf _
    have e2 : (invOrder N targets)[(invOrder N targets).idxOf b]'(List.idxOf_lt_length_of_mem hb') = b :=
      List.getElem_idxOf _
    simp only [hab] at e1
    exact e1.symm.trans e2
  refine (List.perm_ext_iff_of_nodup hnd List.nodup_range).mpr (fun v => ?_)
  rw [List.mem_map, List.mem_range]
  constructor
  · rintro ⟨p, hp, rfl⟩
    have := List.idxOf_lt_length_of_mem ((mem_invOrder hr).mpr (List.mem_range.mp hp))
    omega
  · intro hv
    have hvl : v < (invOrder N targets).length := by omega
    refine ⟨(invOrder N targets)[v], ?_, (invOrder_nodup N targets hn).idxOf_getElem v hvl⟩
    exact List.mem_range.mpr ((mem_invOrder hr).mp (List.getElem_mem hvl))

/-- `new_order[targets[i]] = i`: the i-th listed target becomes subsystem `i` of the operator. -/
theorem newOrder_targets (N : Nat) (targets : List Nat) (hn : targets.Nodup) (hr : ∀ t ∈ targets, t < N)
    (i : Nat) (hi : i < targets.length) : (newOrder N targets)[targets[i]]? = some i := by
  rw [newOrder_get N targets hn _ (hr _ (List.getElem_mem hi))]
  simp [hn.idxOf_getElem i hi]

/-! ### Rejections -/

theorem validate_rejects_count (dims : List Nat) (targets : List Int) (opdims : List Nat)
    (h : targets.length ≠ opdims.length) : validate dims targets opdims = .error .count := by
  simp [validate, h]

theorem validate_rejects_range (dims : List Nat) (targets : List Int) (opdims : List Nat)
    (hc : targets.length = opdims.length) (h : ∃ t ∈ targets, (dims.length : Int) ≤ t) :
    validate dims targets opdims = .error .range := by
  obtain ⟨t, ht, hge⟩ := h
  have : (targets.all fun t => decide (t < (dims.length : Int))) = false := by
    rw [List.all_eq_false]
    exact ⟨t, ht, by simp; omega⟩
  simp [validate, hc, this]

/-- in-range, non-negative targets whose dimensions differ from the operator's are rejected -/
theorem validate_rejects_dims (dims : List Nat) (targets : List Nat) (opdims : List Nat)
    (hc : targets.length = opdims.length) (hr : ∀ t ∈ targets, t < dims.length)
    (hd : targets.map (fun t => dims.getD t 0) ≠ opdims) :
    validate dims (targets.map Int.ofNat) opdims = .error .dims := by
  have hall : ((targets.map Int.ofNat).all fun t => decide (t < (dims.length : Int))) = true := by
    rw [List.all_eq_true]; intro t ht
    obtain ⟨n, hn, rfl⟩ := List.mem_map.mp ht
    simpa using hr n hn
  simp only [validate, List.length_map, hc, ne_eq, not_true_eq_false, ↓reduceIte, hall,
    Bool.not_true, Bool.false_eq_true, pyGetAll_ofNat dims targets hr]
  rw [if_pos hd]

/-- The validation accepts exactly the well-formed requests: non-negative, in-range,
pairwise distinct targets whose dimensions are the operator's.  In particular duplicate or
negative targets never produce a value. -/
theorem validate_ok_iff (dims : List Nat) (targets : List Int) (opdims : List Nat) (nn : List Nat) :
    validate dims targets opdims = .ok nn ↔
      (targets = nn.map Int.ofNat ∧ nn.Nodup ∧ (∀ t ∈ nn, t < dims.length) ∧
        nn.map (fun t => dims.getD t 0) = opdims) := by
  constructor
  · intro h
    by_cases hlen : targets.length ≠ opdims.length
    · simp [validate, hlen] at h
    by_cases hall : ¬ (targets.all fun t => decide (t < (dims.length : Int))) = true
    · simp [validate, hlen, hall] at h
    have hall := Decidable.not_not.mp hall
    cases htd : pyGetAll dims targets with
    | none => simp [validate, hlen, hall, htd] at h
    | some td =>
    by_cases hdims : td ≠ opdims
    · simp [validate, hlen, hall, htd, hdims] at h
    by_cases hrest : (restPos dims.length (nonneg targets)).length > dims.length - targets.length
    · simp [validate, hlen, hall, htd, hdims, hrest] at h
    by_cases hrest2 : (restPos dims.length (nonneg targets)).length + targets.length ≠ dims.length
    · simp [validate, hlen, hall, htd, hdims, hrest, hrest2] at h
    simp only [validate, hlen, hall, htd, hdims, hrest, hrest2, ↓reduceIte, Bool.not_true, Bool.false_eq_true,
      Except.ok.injEq] at h
    subst h
    have hall' : ∀ t ∈ targets, t < (dims.length : Int) := by
      simpa [List.all_eq_true] using hall
    have hlt := nonneg_lt targets dims.length hall'
    have hle := nonneg_length_le targets
    have hnd : (nonneg targets).Nodup := nodup_of_restPos_le dims.length _ hlt (by omega)
    have hfull := restPos_length_of_nodup dims.length _ hnd hlt
    have heq : targets = (nonneg targets).map Int.ofNat := nonneg_full targets (by omega)
    refine ⟨heq, hnd, hlt, ?_⟩
    have := pyGetAll_ofNat dims (nonneg targets) hlt
    rw [← heq, htd] at this
    simp only [ne_eq, Decidable.not_not] at hdims
    rw [← hdims]; exact (Option.some.inj this).symm
  · rintro ⟨rfl, hnd, hlt, hd⟩
    have hall : ((nn.map Int.ofNat).all fun t => decide (t < (dims.length : Int))) = true := by
      rw [List.all_eq_true]; intro t ht
      obtain ⟨n, hn, rfl⟩ := List.mem_map.mp ht
      simpa using hlt n hn
    have hfull := restPos_length_of_nodup dims.length _ hnd hlt
    have hc : nn.length = opdims.length := by rw [← hd]; simp
    simp only [validate, List.length_map, hc, ne_eq, not_true_eq_false, ↓reduceIte, hall,
      Bool.not_true, Bool.false_eq_true, pyGetAll_ofNat dims nn hlt, hd, nonneg_ofNat]
    rw [if_neg (by omega), if_neg (by omega)]
-- non-vacuity: a well-formed request is accepted, a duplicate and a negative target are not
example : validate [2, 3, 2] [2, 0] [2, 2] = .ok [2, 0] ∧ validate [2, 3, 2] [0, 0] [2, 2] = .error .index
    ∧ validate [2, 3, 2] [-1] [2] = .error .index ∧ validate [2] [0, 0] [2, 2] = .error .permute := by decide

/-! ### The same placement as an operator on `(ℂ²)^{⊗N}` (used by C01, C03, C05, C07) -/

theorem embed_apply {k N : ℕ} (t : Tg k N) (U : Matrix (St k) (St k) ℂ) (x y : St N) :
    t.embed U x y = U (x ∘ t.f) (y ∘ t.f) * (if ∀ i, i ∉ Set.range t.f → x i = y i then 1 else 0) :=
  Tg.embed_apply t U x y

theorem embed_mul {k N : ℕ} (t : Tg k N) (U V : Matrix (St k) (St k) ℂ) :
    t.embed (U * V) = t.embed U * t.embed V := Tg.embed_mul t U V

theorem embed_one {k N : ℕ} (t : Tg k N) : t.embed (1 : Matrix (St k) (St k) ℂ) = 1 := Tg.embed_one t

theorem embed_comp {k N m : ℕ} (q : Tg k N) (s : Tg m k) (U : Matrix (St m) (St m) ℂ) :
    q.embed (s.embed U) = (q.comp s).embed U := Tg.embed_comp q s U

end QipVerif.C08
