import QipVerif.Lemmas.SimPure
import QipVerif.Lemmas.SimShare
import QipVerif.Lemmas.SimPulse
import QipVerif.Lemmas.SimEdit
import QipVerif.Model.SimLoad
import QipVerif.Lemmas.GridStep
/-!
# C16 — queries, transformations and simulations are pure and repeatable

Property theorems only (proofs call `Lemmas/SimPure.lean`).  `World` holds exactly the mutable attributes of the
modelled objects — a heap of Python lists of ints (so that `self.cbits = cbits` is an alias), the simulator's
`cbits/_state/_probability/_op_index/_measure_results/_measure_ind`, a user-held compiler's `args/global_phase`,
a processor's `pulses/global_phase` — and every public operation is `exec : World → Call → World × Ret`.
The theorems quantify over ALL histories and all inputs (exceptions included); the repaired behaviours they need are
named hypotheses (`cfg.copyCbits`: fix C02-1, `cfg.resetPhase`: fix C16-1) and refuted for the unrepaired code by
the counter-examples at the end.
-/
namespace QipVerif.C16
open QipVerif.Sim QipVerif.Heap

variable {Q P : Type}

def world0 (lists : List (List Int)) : World Exact.QS Exact.Prob :=
  { heap := ⟨lists⟩, sim := none, rng := [], log := [], comp := defaultCompiler,
    proc := { pulses := none, phase := 0 } }

def cfgCurrent : Cfg :=
  { copyCbits := false, checkCcv := false, resetPhase := false, pureGetter := false, dmRefuse := false,
    copyRev := false, copyChain := false, noiseLocal := false }
def cfgFixed : Cfg :=
  { copyCbits := true, checkCcv := true, resetPhase := true, pureGetter := true, dmRefuse := true,
    copyRev := true, copyChain := true, noiseLocal := true }


/-- **args_unchanged.** After any history of public calls (simulator runs with any arguments, manual stepping,
state reads, circuit queries, compiler and processor calls), every list that existed before the history — the
caller-owned cells `cells0` — holds its initial value.  (Circuits, gates and states are not cells of the model at
all: no operation of the model writes them; the correspondence checks that with deep snapshots.) -/
theorem args_unchanged [One P] [Mul P] (B : Backend Q P) (cfg : Cfg) (hcopy : cfg.copyCbits = true) (mode : Mode)
    (c : Circuit) (phases : List Int) (w0 : World Q P) (hsim : SimOwn w0.heap.size w0) (calls : List (Call Q))
    (hok : HistOk B cfg mode c phases w0 calls) (r : Nat) (hr : r < w0.heap.size) :
    (execAll B cfg mode c phases w0 calls).heap.get r = w0.heap.get r := by
  have hinv0 : Inv w0.heap.cells w0 := ⟨⟨[], by simp⟩, hsim⟩
  have hinv := execAll_inv B cfg hcopy mode c phases w0.heap.cells calls w0 hinv0 hok
  rw [inv_get hinv r hr]
  simp [Heap.get]

-- non-vacuity: a fresh simulator (`sim = none`) satisfies `SimOwn`
example (w0 : World Q P) (h : w0.sim = none) : SimOwn w0.heap.size w0 := by
  intro s r hs; rw [h] at hs; cases hs

/-- **fresh_equivalent (simulator), any call, given the generator's state.** For every history `h` and every `run`/`run_statistics` call on a caller-owned
list (or none): the value returned after `h` equals the value returned by a freshly constructed simulator
(`sim = none`) given the same lists and the same state of the random generator.  `initialize` overwrites every
per-run attribute (`initRun_fresh`), so nothing of `h` is read. -/
theorem fresh_equivalent_rng [One P] [Mul P] (B : Backend Q P) (cfg : Cfg) (hcopy : cfg.copyCbits = true) (mode : Mode)
    (c : Circuit) (phases : List Int) (w0 : World Q P) (hsim : SimOwn w0.heap.size w0) (h : List (Call Q))
    (hok : HistOk B cfg mode c phases w0 h) (call : Call Q)
    (hcall : (∃ st cb mr, call = .run st cb mr) ∨ (∃ st cb, call = .stat st cb))
    (hcb : ∀ r : Nat, call.cb = some r → r < w0.heap.size) :
    let wh := execAll B cfg mode c phases w0 h
    let wf : World Q P := { w0 with sim := none, rng := wh.rng }
    (exec B cfg mode c phases wh call).2.val (exec B cfg mode c phases wh call).1.heap =
      (exec B cfg mode c phases wf call).2.val (exec B cfg mode c phases wf call).1.heap := by
  intro wh wf
  have hinv0 : Inv w0.heap.cells w0 := ⟨⟨[], by simp⟩, hsim⟩
  have hinv := execAll_inv B cfg hcopy mode c phases w0.heap.cells h w0 hinv0 hok
  have hsame : ∀ cb : Option Ref, (∀ r : Nat, cb = some r → r < w0.heap.size) →
      cb.map wh.heap.get = cb.map wf.heap.get := by
    intro cb hc
    cases cb with
    | none => rfl
    | some r =>
      simp only [Option.map_some, Option.some.injEq]
      rw [inv_get hinv r (hc r rfl)]
      simp [Heap.get, wf]
  have hsz : w0.heap.size ≤ wh.heap.size := hinv.size_ge
  rcases hcall with ⟨st, cb, mr, rfl⟩ | ⟨st, cb, rfl⟩
  · rw [run_value B cfg mode c phases wh st cb mr (Or.inl hcopy),
      run_value B cfg mode c phases wf st cb mr (Or.inl hcopy), hsame cb hcb]
  · have hcb1 : CbOk wh cb := fun r hr => Nat.lt_of_lt_of_le (hcb r hr) hsz
    have hcb2 : CbOk wf cb := fun r hr => hcb r hr
    rw [stat_value B cfg mode c phases wh st cb (Or.inl hcopy) hcb1,
      stat_value B cfg mode c phases wf st cb (Or.inl hcopy) hcb2, hsame cb hcb]

/-- **repeat_equal, any call, given the generator's state.** The value a `run`/`run_statistics` call returns is a function of the VALUES of its arguments
and of the random generator's state: calling it again on the same objects (in the world left by the first call,
with the generator put back) returns an equal value. -/
theorem repeat_equal_rng [One P] [Mul P] (B : Backend Q P) (cfg : Cfg) (hcopy : cfg.copyCbits = true) (mode : Mode)
    (c : Circuit) (phases : List Int) (w : World Q P) (hsim : SimOwn w.heap.size w) (call : Call Q)
    (hcall : (∃ st cb mr, call = .run st cb mr) ∨ (∃ st cb, call = .stat st cb))
    (hcb : ∀ r : Nat, call.cb = some r → r < w.heap.size) :
    let w1 := (exec B cfg mode c phases w call).1
    let w1' : World Q P := { w1 with rng := w.rng }
    (exec B cfg mode c phases w1' call).2.val (exec B cfg mode c phases w1' call).1.heap =
      (exec B cfg mode c phases w call).2.val (exec B cfg mode c phases w call).1.heap := by
  intro w1 w1'
  have hinv0 : Inv w.heap.cells w := ⟨⟨[], by simp⟩, hsim⟩
  have hinv : Inv w.heap.cells w1 := exec_inv B cfg hcopy mode c phases w.heap.cells w call hinv0 hcb
  have hsz : w.heap.size ≤ w1.heap.size := hinv.size_ge
  have hsame : ∀ cb : Option Ref, (∀ r : Nat, cb = some r → r < w.heap.size) →
      cb.map w1'.heap.get = cb.map w.heap.get := by
    intro cb hc
    cases cb with
    | none => rfl
    | some r =>
      simp only [Option.map_some, Option.some.injEq]
      show w1.heap.get r = _
      rw [inv_get hinv r (hc r rfl)]
      simp [Heap.get]
  rcases hcall with ⟨st, cb, mr, rfl⟩ | ⟨st, cb, rfl⟩
  · rw [run_value B cfg mode c phases w1' st cb mr (Or.inl hcopy),
      run_value B cfg mode c phases w st cb mr (Or.inl hcopy), hsame cb hcb]
  · have hcb1 : CbOk w1' cb := fun r hr => Nat.lt_of_lt_of_le (hcb r hr) hsz
    have hcb2 : CbOk w cb := fun r hr => hcb r hr
    rw [stat_value B cfg mode c phases w1' st cb (Or.inl hcopy) hcb1,
      stat_value B cfg mode c phases w st cb (Or.inl hcopy) hcb2, hsame cb hcb]

/-- **fresh_equivalent.** For every history `h` and every deterministic call (`run_statistics`; `run` with
prescribed outcomes, in density-matrix mode, or on a circuit without measurement) on a caller-owned list or none:
the value returned after `h` equals the value returned by a freshly constructed simulator given the same lists —
whatever the state of the random generator, which such calls never read. -/
theorem fresh_equivalent [One P] [Mul P] (B : Backend Q P) (cfg : Cfg) (hcopy : cfg.copyCbits = true) (mode : Mode)
    (c : Circuit) (phases : List Int) (w0 : World Q P) (hsim : SimOwn w0.heap.size w0) (h : List (Call Q))
    (hok : HistOk B cfg mode c phases w0 h) (call : Call Q) (hdet : CallDet mode c call)
    (hcb : ∀ r : Nat, call.cb = some r → r < w0.heap.size) :
    let wh := execAll B cfg mode c phases w0 h
    let wf : World Q P := { w0 with sim := none }
    (exec B cfg mode c phases wh call).2.val (exec B cfg mode c phases wh call).1.heap =
      (exec B cfg mode c phases wf call).2.val (exec B cfg mode c phases wf call).1.heap := by
  intro wh wf
  have hinv0 : Inv w0.heap.cells w0 := ⟨⟨[], by simp⟩, hsim⟩
  have hinv := execAll_inv B cfg hcopy mode c phases w0.heap.cells h w0 hinv0 hok
  have hsame : ∀ cb : Option Ref, (∀ r : Nat, cb = some r → r < w0.heap.size) →
      cb.map wh.heap.get = cb.map wf.heap.get := by
    intro cb hc
    cases cb with
    | none => rfl
    | some r =>
      simp only [Option.map_some, Option.some.injEq]
      rw [inv_get hinv r (hc r rfl)]
      simp [Heap.get, wf]
  have hsz : w0.heap.size ≤ wh.heap.size := hinv.size_ge
  cases call with
  | run st cb mr =>
    rw [run_value B cfg mode c phases wh st cb mr (Or.inl hcopy),
      run_value B cfg mode c phases wf st cb mr (Or.inl hcopy), hsame cb hcb]
    exact runV_det B cfg mode c _ st mr _ _ hdet
  | stat st cb =>
    have hcb1 : CbOk wh cb := fun r hr => Nat.lt_of_lt_of_le (hcb r hr) hsz
    have hcb2 : CbOk wf cb := fun r hr => hcb r hr
    rw [stat_value B cfg mode c phases wh st cb (Or.inl hcopy) hcb1,
      stat_value B cfg mode c phases wf st cb (Or.inl hcopy) hcb2, hsame cb hcb]
    exact statV_det B cfg mode c _ st _ _
  | init _ _ _ => cases hdet
  | step => cases hdet
  | getState => cases hdet
  | query => cases hdet
  | compile _ _ => cases hdet
  | load _ _ => cases hdet

/-- **repeat_equal.** Repeating a deterministic call on the same objects — in the world the first call left
behind — returns an equal value. -/
theorem repeat_equal [One P] [Mul P] (B : Backend Q P) (cfg : Cfg) (hcopy : cfg.copyCbits = true) (mode : Mode)
    (c : Circuit) (phases : List Int) (w : World Q P) (hsim : SimOwn w.heap.size w) (call : Call Q)
    (hdet : CallDet mode c call) (hcb : ∀ r : Nat, call.cb = some r → r < w.heap.size) :
    let w1 := (exec B cfg mode c phases w call).1
    (exec B cfg mode c phases w1 call).2.val (exec B cfg mode c phases w1 call).1.heap =
      (exec B cfg mode c phases w call).2.val (exec B cfg mode c phases w call).1.heap := by
  intro w1
  have hinv0 : Inv w.heap.cells w := ⟨⟨[], by simp⟩, hsim⟩
  have hinv : Inv w.heap.cells w1 := exec_inv B cfg hcopy mode c phases w.heap.cells w call hinv0 hcb
  have hsz : w.heap.size ≤ w1.heap.size := hinv.size_ge
  have hsame : ∀ cb : Option Ref, (∀ r : Nat, cb = some r → r < w.heap.size) →
      cb.map w1.heap.get = cb.map w.heap.get := by
    intro cb hc
    cases cb with
    | none => rfl
    | some r =>
      simp only [Option.map_some, Option.some.injEq]
      rw [inv_get hinv r (hc r rfl)]
      simp [Heap.get]
  cases call with
  | run st cb mr =>
    rw [run_value B cfg mode c phases w1 st cb mr (Or.inl hcopy),
      run_value B cfg mode c phases w st cb mr (Or.inl hcopy), hsame cb hcb]
    exact runV_det B cfg mode c _ st mr _ _ hdet
  | stat st cb =>
    have hcb1 : CbOk w1 cb := fun r hr => Nat.lt_of_lt_of_le (hcb r hr) hsz
    have hcb2 : CbOk w cb := fun r hr => hcb r hr
    rw [stat_value B cfg mode c phases w1 st cb (Or.inl hcopy) hcb1,
      stat_value B cfg mode c phases w st cb (Or.inl hcopy) hcb2, hsame cb hcb]
    exact statV_det B cfg mode c _ st _ _
  | init _ _ _ => cases hdet
  | step => cases hdet
  | getState => cases hdet
  | query => cases hdet
  | compile _ _ => cases hdet
  | load _ _ => cases hdet

-- non-vacuity: a `run_statistics` call and a `run` with prescribed outcomes are deterministic calls
example (c : Circuit) (st : Q) : CallDet (Q := Q) .sv c (.stat st none) ∧ CallDet (Q := Q) .sv c (.run st none (some [1])) :=
  ⟨trivial, Or.inr (Or.inl rfl)⟩

/-- **fresh_equivalent_edited.** The simulator reads its circuit object at every `initialize` and `step` and keeps
nothing derived from the gates (contract of `Model/SimEdit.lean`).  Hence for every history of public calls
INTERLEAVED WITH IN-PLACE EDITS of the circuit (gate `i` replaced, targets / controls / argument re-assigned — the
number of operations changed or not), and every deterministic call afterwards: the value returned by the used
simulator equals the value returned by a freshly constructed simulator of the circuit as it is now (`ch`), given the
same lists. -/
theorem fresh_equivalent_edited [One P] [Mul P] (B : Backend Q P) (cfg : Cfg) (hcopy : cfg.copyCbits = true) (mode : Mode)
    (c0 : Circuit) (phases : List Int) (w0 : World Q P) (hsim : SimOwn w0.heap.size w0) (evs : List (HEv Q))
    (hok : HEvsOk B cfg mode phases (w0, c0) evs) (call : Call Q)
    (hdet : CallDet mode (execHEvs B cfg mode phases (w0, c0) evs).2 call)
    (hcb : ∀ r : Nat, call.cb = some r → r < w0.heap.size) :
    let wh := (execHEvs B cfg mode phases (w0, c0) evs).1
    let ch := (execHEvs B cfg mode phases (w0, c0) evs).2
    let wf : World Q P := { w0 with sim := none }
    (exec B cfg mode ch phases wh call).2.val (exec B cfg mode ch phases wh call).1.heap =
      (exec B cfg mode ch phases wf call).2.val (exec B cfg mode ch phases wf call).1.heap := by
  intro wh ch wf
  have hinv0 : Inv w0.heap.cells w0 := ⟨⟨[], by simp⟩, hsim⟩
  have hinv := execHEvs_inv B cfg hcopy mode phases w0.heap.cells evs (w0, c0) hinv0 hok
  have hsame : ∀ cb : Option Ref, (∀ r : Nat, cb = some r → r < w0.heap.size) →
      cb.map wh.heap.get = cb.map wf.heap.get := by
    intro cb hc
    cases cb with
    | none => rfl
    | some r =>
      simp only [Option.map_some, Option.some.injEq]
      rw [inv_get hinv r (hc r rfl)]
      simp [Heap.get, wf]
  have hsz : w0.heap.size ≤ wh.heap.size := hinv.size_ge
  cases call with
  | run st cb mr =>
    rw [run_value B cfg mode ch phases wh st cb mr (Or.inl hcopy),
      run_value B cfg mode ch phases wf st cb mr (Or.inl hcopy), hsame cb hcb]
    exact runV_det B cfg mode ch _ st mr _ _ hdet
  | stat st cb =>
    have hcb1 : CbOk wh cb := fun r hr => Nat.lt_of_lt_of_le (hcb r hr) hsz
    have hcb2 : CbOk wf cb := fun r hr => hcb r hr
    rw [stat_value B cfg mode ch phases wh st cb (Or.inl hcopy) hcb1,
      stat_value B cfg mode ch phases wf st cb (Or.inl hcopy) hcb2, hsame cb hcb]
    exact statV_det B cfg mode ch _ st _ _
  | init _ _ _ => cases hdet
  | step => cases hdet
  | getState => cases hdet
  | query => cases hdet
  | compile _ _ => cases hdet
  | load _ _ => cases hdet


/-- **no_alias.** In any history, the list objects that the returned results refer to (one per `run`, one per
surviving record of `run_statistics`) are pairwise different — within one result and across results of different
calls — and none of them existed before the history: no result aliases another result's or the caller's list. -/
theorem no_alias [One P] [Mul P] (B : Backend Q P) (cfg : Cfg) (hcopy : cfg.copyCbits = true) (mode : Mode)
    (c : Circuit) (phases : List Int) (w0 : World Q P) (calls : List (Call Q))
    (hok : HistOk B cfg mode c phases w0 calls) :
    (traceRefs B cfg mode c phases w0 calls).Nodup ∧
    ∀ r ∈ traceRefs B cfg mode c phases w0 calls, w0.heap.size ≤ r :=
  traceRefs_fresh B cfg hcopy mode c phases calls w0 hok

/-- **fresh_equivalent (processor).** Whatever the processor and a user-held compiler did before, `load_circuit`
leaves the processor holding exactly the program of this circuit under the compiler's configuration and this
circuit's global phase — what a freshly constructed processor holds — and returns that program; the compiler's
configuration, the heap and the simulator are untouched. -/
theorem fresh_equivalent_load (cfg : Cfg) (hreset : cfg.resetPhase = true) (phases : List Int) (w : World Q P)
    (circ : Nat) (user : Bool) :
    (loadCircuit cfg phases w circ user).1.proc =
      { pulses := some (circ, if user then w.comp.args else []), phase := phases.getD circ 0 } ∧
    (loadCircuit cfg phases w circ user).2 = (circ, if user then w.comp.args else []) ∧
    (loadCircuit cfg phases w circ user).1.comp.args = w.comp.args ∧
    (loadCircuit cfg phases w circ user).1.heap = w.heap ∧ (loadCircuit cfg phases w circ user).1.sim = w.sim :=
  load_fresh cfg hreset phases w circ user

/-- **fresh_equivalent_load_pulsefree.** `load_circuit` with its early return (circuits that need no control pulse:
empty, GLOBALPHASE-only, rotations by 0).  If `global_phase` is overwritten on that path too — or the circuit does not
take it — then after ANY history of loads (circuits with and without pulses, in any order, default or user compiler)
a further `load_circuit` leaves the processor holding exactly what a fresh processor holds: the program of this
circuit (no pulse for a pulse-free one) and THIS circuit's global phase. -/
theorem fresh_equivalent_load_pulsefree (cfg : Cfg) (hreset : cfg.resetPhase = true) (poe : Bool) (phases : List Int)
    (pulseFree : List Bool) (w0 : World Q P) (hist : List (Nat × Bool)) (circ : Nat) (user : Bool)
    (h : poe = true ∨ pulseFree.getD circ false = false) :
    let wh := loadAllE cfg poe phases pulseFree w0 hist
    (loadCircuitE cfg poe phases pulseFree wh circ user).1.proc =
      { pulses := some (circ, if user then wh.comp.args else []), phase := phases.getD circ 0 } ∧
    (loadCircuitE cfg poe phases pulseFree wh circ user).2 = (circ, if user then wh.comp.args else []) := by
  intro wh
  have hl := load_fresh cfg hreset phases wh circ user
  have he : loadCircuitE cfg poe phases pulseFree wh circ user = loadCircuit cfg phases wh circ user := by
    unfold loadCircuitE
    have hc : (pulseFree.getD circ false && !poe) = false := by
      rcases h with h | h
      · rw [h]; simp
      · rw [h]; rfl
    simp only [hc, Bool.false_eq_true, ↓reduceIte]
  rw [he]
  exact ⟨hl.1, hl.2.1⟩

/-- **Counter-example (global phase not stored on the early-return path).** Circuit 0 collects the phase 1 (e.g.
SNOT), circuit 1 needs no pulse and has phase 0 (e.g. the empty circuit): after `load 0; load 1` the processor holds no
pulse of circuit 0 any more but still ITS phase 1; a fresh processor that loads circuit 1 has phase 0.  With the phase
stored on both paths: 0. -/
theorem C16_counterexample_stale_phase_pulsefree :
    (loadAllE cfgFixed false [1, 0] [false, true] (world0 []) [(0, false), (1, false)]).proc =
      { pulses := some (1, []), phase := 1 } ∧
    (loadAllE cfgFixed false [1, 0] [false, true] (world0 []) [(1, false)]).proc = { pulses := some (1, []), phase := 0 } ∧
    (loadAllE cfgFixed true [1, 0] [false, true] (world0 []) [(0, false), (1, false)]).proc =
      { pulses := some (1, []), phase := 0 } := by
  decide

/-- queries and transformations write nothing -/
theorem query_pure [One P] [Mul P] (B : Backend Q P) (cfg : Cfg) (mode : Mode) (c : Circuit) (phases : List Int)
    (w : World Q P) : (exec B cfg mode c phases w .query).1 = w := rfl

/-! ## Results of transformations: what is shared with the argument (gate objects and their lists as cells) -/

/-- **transform_result_independent.** A transformation that ends with the deep copy of its result's gates
(`resolve_gates`, `adjacent_gates`; `reverse_circuit` with fix C16-3; `to_chain_structure` with fix C16-4 — whatever
it emits: the argument's gate objects themselves, new gates built from the argument's targets/controls lists, or new
gates) leaves every existing circuit's value unchanged, returns only gate objects and lists created by the call, and
no in-place change made through the result — of a list or of a gate object — changes any circuit that existed
before.  So the aliasing clause holds for these results too. -/
theorem transform_result_independent (w : OWorld) (arg : Circ) (plan : List Item) (old : Circ) (hwf : WFCirc w old) :
    circVal (transform true w arg plan).1 old = circVal w old ∧
    (∀ r ∈ (transform true w arg plan).2, NewGate w (transform true w arg plan).1 r) ∧
    (∀ m : Mut, m.touches (transform true w arg plan).1 (transform true w arg plan).2 = true →
      circVal (mutate (transform true w arg plan).1 m) old = circVal w old) :=
  transform_copy_independent w arg plan old hwf

/-- one `CNOT`-like gate object with targets `[2]` and controls `[0]` -/
def oworld1 : OWorld := { lists := ⟨[[2], [0]]⟩, gates := [⟨1, 0, some 1⟩] }

/-- **Counter-example (unrepaired `reverse_circuit` shares its gates).** The reversed circuit of `[g]` is `[g]` —
the same object: changing the targets list through the result changes the caller's circuit; with fix C16-3 the
result is a new object with new lists and the caller's circuit keeps its value. -/
theorem C16_counterexample_reverse_shares :
    (reverseCircuit cfgCurrent oworld1 [0]).2 = [0] ∧
    circVal (mutate (reverseCircuit cfgCurrent oworld1 [0]).1 (.setList 0 [7])) [0] ≠ circVal oworld1 [0] ∧
    (reverseCircuit cfgFixed oworld1 [0]).2 = [1] ∧
    circVal (mutate (reverseCircuit cfgFixed oworld1 [0]).1 (.setList 2 [7])) [0] = circVal oworld1 [0] := by
  refine ⟨by decide, by decide, by decide, by decide⟩

/-- **Counter-example (unrepaired `to_chain_structure` shares lists).** A gate re-emitted as
`add_gate(name, gate.targets, gate.controls)` is a new object holding the SAME lists. -/
theorem C16_counterexample_chain_shares_lists :
    (toChain cfgCurrent oworld1 [0] [.relist 0 1]).2 = [1] ∧
    circVal (mutate (toChain cfgCurrent oworld1 [0] [.relist 0 1]).1 (.setList 0 [7])) [0] ≠ circVal oworld1 [0] ∧
    (Mut.setList 0 [7]).touches (toChain cfgCurrent oworld1 [0] [.relist 0 1]).1
      (toChain cfgCurrent oworld1 [0] [.relist 0 1]).2 = true := by
  decide

/-! ## Noise objects -/

/-- **noise_unchanged / noise_fresh_equivalent.** With fix C16-5 producing the noisy dynamics never changes the noise
object, so after any number of uses (on systems of any sizes) it answers exactly like the object as constructed. -/
theorem noise_fresh_equivalent (cfg : Cfg) (h : cfg.noiseLocal = true) (o : RelaxObj) (uses : List Nat) (N : Nat) :
    relaxUses cfg o uses = o ∧ (relaxUse cfg (relaxUses cfg o uses) N).2 = (relaxUse cfg o N).2 ∧
    ∀ d : DecoObj, (decoUse cfg d).1 = d := by
  refine ⟨relaxUses_local cfg h uses o, by rw [relaxUses_local cfg h uses o], fun d => decoUse_local cfg h d⟩

/-- **Counter-example (unrepaired noise object).** `RelaxationNoise(t1=1, t2=1)` used for 2 qubits has
`t1 = [1, 1]`, and is then refused (`ValueError`) for 3 qubits, which the object as constructed accepts. -/
theorem C16_counterexample_noise_rewrites :
    (relaxUse cfgCurrent ⟨.scalar 1, .scalar 1⟩ 2).1 = ⟨.list [some 1, some 1], .list [some 1, some 1]⟩ ∧
    (relaxUse cfgCurrent (relaxUse cfgCurrent ⟨.scalar 1, .scalar 1⟩ 2).1 3).2 = .error .value ∧
    (relaxUse cfgCurrent ⟨.scalar 1, .scalar 1⟩ 3).2 = .ok ([some 1, some 1, some 1], [some 1, some 1, some 1]) ∧
    (relaxUse cfgFixed (relaxUse cfgFixed ⟨.scalar 1, .scalar 1⟩ 2).1 3).2 =
      .ok ([some 1, some 1, some 1], [some 1, some 1, some 1]) := by
  decide

/-! ## The pulses a processor holds under noisy evaluation (pulse objects with their noise-element LISTS as cells) -/

/-- the code as it is: `Processor.get_noisy_pulses` passes `deepcopy(self.pulses)`, `process_noise` deep-copies again -/
def pcfgCurrent : PCfg := { procCopy := true, noiseCopy := .deep }
/-- both copies replaced ("the other site copies anyway"): `self.pulses` itself, per-pulse `copy.copy` -/
def pcfgShared : PCfg := { procCopy := false, noiseCopy := .shallow }

/-- **noisy_pulses_unchanged.** If a deep copy is made somewhere between `Processor.pulses` and the noise objects
(in `get_noisy_pulses` or in `process_noise`), then after ANY history of noisy evaluations (`get_noisy_pulses`,
`get_qobjevo(noisy=True)`, `run_state`, with or without device noise) on one processor carrying ANY noise objects
(`ControlAmpNoise`, `RandomNoise`, `RelaxationNoise`, `DecoherenceNoise`, `ZZCrossTalk`, user subclasses appending to
any pulse or to `systematic_noise`; exceptions included): the processor holds the same pulse objects, and every pulse
object that existed — ideal element and the CONTENTS of its `coherent_noise` / `lindblad_noise` lists — has the value
it had. -/
theorem noisy_pulses_unchanged (cfg : PCfg) (hg : cfg.procCopy = true ∨ cfg.noiseCopy = .deep) (st : PState)
    (hwf : ∀ r ∈ st.held, WFP st.w r) (dns : List Bool) :
    (getNoisyAll cfg st dns).held = st.held ∧ (getNoisyAll cfg st dns).noise = st.noise ∧
    pulsesVal (getNoisyAll cfg st dns).w st.held = pulsesVal st.w st.held ∧
    ∀ r, WFP st.w r → pulseVal (getNoisyAll cfg st dns).w r = pulseVal st.w r := by
  obtain ⟨h1, h2, h3⟩ := getNoisyAll_frame cfg hg dns st hwf
  exact ⟨h2, h3, h1.pulsesVal st.held hwf, fun r hr => h1.pulseVal hr⟩

/-- a processor holding one pulse (ideal element 3, no noise element yet) with a 2× amplitude noise -/
def pstate1 : PState :=
  { w := { lists := ⟨[[], []]⟩, pulses := [⟨3, 0, 1⟩] }, held := [0], noise := [.amp none 2], rng := [] }

-- non-vacuity: the code as it is satisfies the hypothesis, `pstate1` is well formed
example : (pcfgCurrent.procCopy = true ∨ pcfgCurrent.noiseCopy = .deep) ∧ ∀ r ∈ pstate1.held, WFP pstate1.w r :=
  ⟨Or.inl rfl, fun r hr => by
    simp only [pstate1, List.mem_singleton] at hr; subst hr
    exact ⟨⟨3, 0, 1⟩, rfl, by decide, by decide⟩⟩

/-- **noisy_fresh_equivalent.** Under the same hypothesis, for every history `dns` on a processor and every further
noisy evaluation: the VALUE returned (every returned pulse with the contents of its noise lists, or the exception)
equals the value returned by ANY other processor `fr` — e.g. a freshly constructed one — whose pulses have the same
values and which carries the same noise objects, provided the noise objects are deterministic (no `RandomNoise`), or
else the random generator is in the same state.  The value is `noisyVal`: a function of the held pulses' values, the
noise objects, `device_noise` and the generator's state only. -/
theorem noisy_fresh_equivalent (cfg : PCfg) (hg : cfg.procCopy = true ∨ cfg.noiseCopy = .deep) (st fr : PState)
    (hwf : ∀ r ∈ st.held, WFP st.w r) (hwf' : ∀ r ∈ fr.held, WFP fr.w r)
    (hv : valsOf fr.w fr.held = valsOf st.w st.held) (hn : fr.noise = st.noise) (dns : List Bool) (dn : Bool)
    (hr : st.noise.all Noise.det = true ∨ fr.rng = (getNoisyAll cfg st dns).rng) :
    retVal (getNoisy cfg (getNoisyAll cfg st dns) dn).1.w (getNoisy cfg (getNoisyAll cfg st dns) dn).2 =
      retVal (getNoisy cfg fr dn).1.w (getNoisy cfg fr dn).2 ∧
    retVal (getNoisy cfg fr dn).1.w (getNoisy cfg fr dn).2 = (noisyVal (valsOf st.w st.held) st.noise dn fr.rng).1 := by
  obtain ⟨h1, h2, h3⟩ := getNoisyAll_frame cfg hg dns st hwf
  have hwfh : ∀ r ∈ (getNoisyAll cfg st dns).held, WFP (getNoisyAll cfg st dns).w r := by
    rw [h2]; exact fun r hr => h1.wfp (hwf r hr)
  have e1 := (getNoisy_spec cfg hg (getNoisyAll cfg st dns) hwfh dn).1.val
  have e2 := (getNoisy_spec cfg hg fr hwf' dn).1.val
  simp only at e1 e2
  rw [h2, h3, h1.valsOf st.held hwf] at e1
  rw [hv, hn] at e2
  refine ⟨?_, e2⟩
  rw [e1, e2]
  rcases hr with hr | hr
  · exact noisyVal_det _ _ _ hr _ _
  · rw [hr]

/-- **noisy_repeat_equal.** The second evaluation — on the processor as the first one left it — returns the same
value as the first (deterministic noise objects; with `RandomNoise`: given the same draws). -/
theorem noisy_repeat_equal (cfg : PCfg) (hg : cfg.procCopy = true ∨ cfg.noiseCopy = .deep) (st : PState)
    (hwf : ∀ r ∈ st.held, WFP st.w r) (hdet : st.noise.all Noise.det = true) (dn : Bool) :
    retVal (getNoisy cfg (getNoisy cfg st dn).1 dn).1.w (getNoisy cfg (getNoisy cfg st dn).1 dn).2 =
      retVal (getNoisy cfg st dn).1.w (getNoisy cfg st dn).2 :=
  (noisy_fresh_equivalent cfg hg st st hwf hwf rfl rfl [dn] dn (Or.inl hdet)).1

/-- **noisy_result_new.** Every pulse object a noisy evaluation returns was created by the call, and so were its
`coherent_noise` / `lindblad_noise` lists: the result shares no mutable object with the processor (nor with results of
earlier calls). -/
theorem noisy_result_new (cfg : PCfg) (hg : cfg.procCopy = true ∨ cfg.noiseCopy = .deep) (st : PState)
    (hwf : ∀ r ∈ st.held, WFP st.w r) (dn : Bool) (rs : List Ref) (hrs : (getNoisy cfg st dn).2 = .ok rs) :
    ∀ x ∈ rs, st.w.pulses.length ≤ x ∧
      ∃ p, (getNoisy cfg st dn).1.w.pulse? x = some p ∧ st.w.lists.size ≤ p.coh ∧ st.w.lists.size ≤ p.lind :=
  (getNoisy_spec cfg hg st hwf dn).1.fresh rs hrs

/-- **Counter-example (both copies dropped: the shallow copies share the noise lists).** With `self.pulses` handed
to `process_noise` and `process_noise` copying each `Pulse` shallowly, `ControlAmpNoise` appends onto the lists the
processor's pulse holds: the held pulse has 0, then 1, then 2 coherent-noise elements, and the second evaluation
returns another value than the first.  With either copy alone (as the theorem says) nothing accumulates. -/
theorem C16_counterexample_noisy_pulses_accumulate :
    pulsesVal pstate1.w [0] = [some ⟨3, [], []⟩] ∧
    pulsesVal (getNoisyAll pcfgShared pstate1 [false]).w [0] = [some ⟨3, [6], []⟩] ∧
    pulsesVal (getNoisyAll pcfgShared pstate1 [false, false]).w [0] = [some ⟨3, [6, 6], []⟩] ∧
    retVal (getNoisy pcfgShared pstate1 false).1.w (getNoisy pcfgShared pstate1 false).2 = .ok [some ⟨3, [6], []⟩] ∧
    retVal (getNoisy pcfgShared (getNoisy pcfgShared pstate1 false).1 false).1.w
      (getNoisy pcfgShared (getNoisy pcfgShared pstate1 false).1 false).2 = .ok [some ⟨3, [6, 6], []⟩] ∧
    pulsesVal (getNoisyAll ⟨true, .shallow⟩ pstate1 [false, true]).w [0] = [some ⟨3, [], []⟩] ∧
    pulsesVal (getNoisyAll ⟨false, .deep⟩ pstate1 [false, true]).w [0] = [some ⟨3, [], []⟩] ∧
    retVal (getNoisy pcfgCurrent (getNoisy pcfgCurrent pstate1 false).1 false).1.w
      (getNoisy pcfgCurrent (getNoisy pcfgCurrent pstate1 false).1 false).2 = .ok [some ⟨3, [6], []⟩] := by
  decide

/-- **noise_list_unchanged.** `process_noise` appends `RelaxationNoise(t1, t2)` to the list of noise objects it works
on.  If a copy of that LIST is made between its owner (the caller of the public `process_noise`, or a hardware model —
also a user-defined one — whose `get_noise` hands out its own list) and the `append`, then after ANY history of noisy
evaluations the owner's list is the list it was, the held pulses keep their values, and every evaluation returns
`noisyVal` of (held values, the owner's noise objects followed by the relaxation object, `device_noise`, generator
state): the same as on a freshly built processor / a fresh call, whatever happened before. -/
theorem noise_list_unchanged (cfg : PCfg) (hg : cfg.procCopy = true ∨ cfg.noiseCopy = .deep) (relax : Option (List Int))
    (st : PState) (hwf : ∀ r ∈ st.held, WFP st.w r) (dns : List Bool) (dn : Bool) :
    (getNoisyTAll cfg true relax st dns).noise = st.noise ∧
    pulsesVal (getNoisyTAll cfg true relax st dns).w st.held = pulsesVal st.w st.held ∧
    retVal (getNoisyT cfg true relax (getNoisyTAll cfg true relax st dns) dn).1.w
        (getNoisyT cfg true relax (getNoisyTAll cfg true relax st dns) dn).2 =
      (noisyVal (valsOf st.w st.held) (usedNoise st.noise relax) dn (getNoisyTAll cfg true relax st dns).rng).1 := by
  obtain ⟨h1, h2, h3⟩ := getNoisyTAll_frame cfg hg relax dns st hwf
  have hwfh : ∀ r ∈ (getNoisyTAll cfg true relax st dns).held, WFP (getNoisyTAll cfg true relax st dns).w r := by
    rw [h2]; exact fun r hr => h1.wfp (hwf r hr)
  have e := (getNoisyT_spec cfg hg true relax (getNoisyTAll cfg true relax st dns) hwfh dn).1.val
  simp only at e
  rw [h2, h3, h1.valsOf st.held hwf] at e
  exact ⟨h3, h1.pulsesVal st.held hwf, e⟩

/-- **Counter-example (no copy of the noise list anywhere).** A processor with relaxation (one collapse operator,
token 9): the owner's list has 1, then 2, then 3 noise objects, and the second evaluation returns a `systematic_noise`
with the collapse operator twice. -/
theorem C16_counterexample_noise_list_grows :
    (getNoisyTAll pcfgCurrent false (some [9]) pstate1 [true]).noise.length = 2 ∧
    (getNoisyTAll pcfgCurrent false (some [9]) pstate1 [true, true]).noise.length = 3 ∧
    retVal (getNoisyT pcfgCurrent false (some [9]) pstate1 true).1.w (getNoisyT pcfgCurrent false (some [9]) pstate1 true).2 =
      .ok [some ⟨3, [6], []⟩, some ⟨0, [], [9]⟩] ∧
    retVal (getNoisyT pcfgCurrent false (some [9]) (getNoisyT pcfgCurrent false (some [9]) pstate1 true).1 true).1.w
      (getNoisyT pcfgCurrent false (some [9]) (getNoisyT pcfgCurrent false (some [9]) pstate1 true).1 true).2 =
      .ok [some ⟨3, [6], []⟩, some ⟨0, [], [9, 9]⟩] ∧
    (getNoisyTAll pcfgCurrent true (some [9]) pstate1 [true, true]).noise.length = 1 := by
  decide

/-! ## Pulses as functions of time -/

/-- **pulse_padding_same_function.** `get_qobjevo` / `_fill_coeff` replace a step-function coefficient array of
length `len(tlist) - 1` by `coeff ++ [0]` (`Grid.padCoeff`, the model of C14) — in the stored pulse, too.  The padded
pulse is the same function of time: for EVERY time `t` the step function (`Grid.stepAt`: value of the slot containing
`t`, `0` outside) is unchanged; and padding again changes nothing. -/
theorem pulse_padding_same_function (tl cs : List Rat) (t : Rat) :
    QipVerif.Grid.stepAt tl (QipVerif.Grid.padCoeff tl cs) t = QipVerif.Grid.stepAt tl cs t ∧
    QipVerif.Grid.padCoeff tl (QipVerif.Grid.padCoeff tl cs) = QipVerif.Grid.padCoeff tl cs := by
  constructor
  · unfold QipVerif.Grid.padCoeff
    by_cases h : (cs.length : Int) = (tl.length : Int) - 1
    · rw [if_pos h]; exact QipVerif.Grid.stepAt_append tl cs [0] t (by omega)
    · rw [if_neg h]
  · by_cases h : (cs.length : Int) = (tl.length : Int) - 1
    · have h1 : QipVerif.Grid.padCoeff tl cs = cs ++ [0] := by unfold QipVerif.Grid.padCoeff; rw [if_pos h]
      rw [h1]
      unfold QipVerif.Grid.padCoeff
      have h2 : ¬ (((cs ++ [0]).length : Nat) : Int) = (tl.length : Int) - 1 := by
        rw [List.length_append]; simp only [List.length_cons, List.length_nil]; omega
      rw [if_neg h2]
    · have h1 : QipVerif.Grid.padCoeff tl cs = cs := by unfold QipVerif.Grid.padCoeff; rw [if_neg h]
      rw [h1, h1]

-- non-vacuity: a two-slot pulse; the padded array has one more entry and the same values at sample times
example : QipVerif.Grid.padCoeff [0, 1, 2] [3, 5] = [3, 5, 0] ∧
    QipVerif.Grid.stepAt [0, 1, 2] [3, 5, 0] (3/2) = 5 ∧ QipVerif.Grid.stepAt [0, 1, 2] [3, 5] (3/2) = 5 := by
  decide +kernel

/-! ## Counter-examples on the unrepaired code -/

/-- `SNOT 0; measure 0 → c0` -/
def circHM : Circuit := { nq := 1, ncb := 1, ops := [.gate ⟨4, [0], none, 0⟩, .meas 0 (some 0)] }
def ket0 : Exact.QS := { n := 1, k := 0, vecs := [[1, 0]] }

/-- **Counter-example (the caller's list is changed and shared by all records; unrepaired `initialize`).** -/
theorem C16_counterexample_cbits_alias :
    (execAll Exact.backend cfgCurrent .sv circHM [] (world0 [[0]]) [.stat ket0 (some 0)]).heap.get 0 = [1] ∧
    traceRefs Exact.backend cfgCurrent .sv circHM [] (world0 [[0]]) [.stat ket0 (some 0)] = [0, 0] ∧
    (execAll Exact.backend cfgFixed .sv circHM [] (world0 [[0]]) [.stat ket0 (some 0)]).heap.get 0 = [0] ∧
    traceRefs Exact.backend cfgFixed .sv circHM [] (world0 [[0]]) [.stat ket0 (some 0)] = [1, 2] := by
  decide +kernel

/-- **Counter-example (global phase accumulates; unrepaired `compile`).** Loading the same circuit (phase
contribution 1 unit) twice with one user-held compiler leaves the processor with phase 1, then 2. -/
theorem C16_counterexample_phase_accumulates :
    ((loadCircuit cfgCurrent [1] (world0 []) 0 true).1.proc.phase = 1) ∧
    ((loadCircuit cfgCurrent [1] (loadCircuit cfgCurrent [1] (world0 []) 0 true).1 0 true).1.proc.phase = 2) ∧
    ((loadCircuit cfgFixed [1] (loadCircuit cfgFixed [1] (world0 []) 0 true).1 0 true).1.proc.phase = 1) := by
  decide

/-- `X 0; X 1` on two qubits -/
def circXX : Circuit := { nq := 2, ncb := 0, ops := [.gate ⟨0, [0], none, 0⟩, .gate ⟨0, [1], none, 0⟩] }
def ket00 : Exact.QS := { n := 2, k := 0, vecs := [[1, 0, 0, 0]] }

/-- **Counter-example (reading `sim.state` is not pure; unrepaired property).** `initialize; step; step` ends in
`|11⟩` held as a tensor-shaped array; with a read of `.state` after the first step the stored array becomes
matrix-shaped and the second step leaves an array of a wrong shape (the next read raises `ValueError`).  With fix
C16-2 the read changes nothing. -/
theorem C16_counterexample_state_getter :
    ((execAll Exact.backend cfgCurrent .sv circXX [] (world0 []) [.init ket00 none none, .step, .step]).sim.map
        (·.f.form)) = some .tensor ∧
    ((execAll Exact.backend cfgCurrent .sv circXX [] (world0 []) [.init ket00 none none, .step, .getState, .step]).sim.map
        (·.f.form)) = some .garbage ∧
    ((execAll Exact.backend cfgFixed .sv circXX [] (world0 []) [.init ket00 none none, .step, .getState, .step]).sim.map
        (·.f.form)) = some .tensor := by
  decide +kernel

/-- `Z 0; X 1`: `circXX` with gate 0 replaced, same number of operations -/
def circZX : Circuit := { nq := 2, ncb := 0, ops := [.gate ⟨5, [0], none, 0⟩, .gate ⟨0, [1], none, 0⟩] }

-- non-vacuity of `fresh_equivalent_edited`: run `[X 0; X 1]`, replace gate 0 by `Z 0`, then `run_statistics`
example :
    HEvsOk Exact.backend cfgFixed .sv [] (world0 [], circXX) [.call (.run ket00 none none), .edit circZX] ∧
    (execHEvs Exact.backend cfgFixed .sv [] (world0 [], circXX) [.call (.run ket00 none none), .edit circZX]).2 = circZX ∧
    CallDet (Q := Exact.QS) .sv circZX (.stat ket00 none) :=
  ⟨⟨fun r hr => (by cases hr), trivial⟩, rfl, trivial⟩

end QipVerif.C16
