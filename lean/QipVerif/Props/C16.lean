import QipVerif.Model.Sim
/-!
# C16 — queries, transformations and simulations are pure and repeatable

(first version: the concrete counter-examples of the unrepaired code; the general theorems follow)
-/
namespace QipVerif.C16
open QipVerif.Sim QipVerif.Heap

def world0 (lists : List (List Int)) : World Exact.QS Exact.Prob :=
  { heap := ⟨lists⟩, sim := none, rng := [], log := [], comp := defaultCompiler,
    proc := { pulses := none, phase := 0 } }

def cfgCurrent : Cfg := { copyCbits := false, checkCcv := false, resetPhase := false, pureGetter := false }

/-- **Counter-example (global phase accumulates).** Loading the same circuit (phase contribution 1 unit) twice
with one user-held compiler leaves the processor with phase 1, then 2. -/
theorem C16_counterexample_phase_accumulates :
    ((loadCircuit cfgCurrent [1] (world0 []) 0 true).1.proc.phase = 1) ∧
    ((loadCircuit cfgCurrent [1] (loadCircuit cfgCurrent [1] (world0 []) 0 true).1 0 true).1.proc.phase = 2) := by
  decide

end QipVerif.C16
