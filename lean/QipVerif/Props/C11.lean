import QipVerif.Lemmas.SchedPulse
import QipVerif.Lemmas.SchedOracle
import QipVerif.Lemmas.SchedRuleGen
import QipVerif.Lemmas.SchedCons
/-!
# C11 — pulse schedules are physically valid timetables

Property theorems only.  Model: `QipVerif.Sched` (`Model/Sched.lean`, shared with C05), tied to
`qutip_qip.compiler.scheduler` by `py/props/c11.py` (start times compared exactly).

`startsGen alap allowPerm fx ns O2` is the list `Scheduler(method, allow_permutation).schedule(ns)`
returns for a list of timed instructions; durations are integers over a common denominator.
All theorems hold for **every** instruction list with non-negative (in particular positive)
durations, both methods, both permutation settings and **every** permutation-valued ordering oracle
`O2` of the scheduling pass (covers `random_shuffle`, the priority sort and the iteration order of
the successor sets); `pulseStarts_eq` / `real_oracle_perm`: the executable model compared with the
code is such an instance.

Clauses: `start_nonneg`, `min_start_zero`, `dep_respected`, `makespan_le_sum` are theorems for both variants of the
conflict-edge recording (`fx`).  `no_overlap` is a theorem for the repaired recording (`no_overlap_fixed`, `fx = true`;
the tree under test has it: `tree_conflict_fix`, regenerated from the source), so all five clauses hold together
(`timetable_valid_fixed`, `timetable_valid_tree`).  For the code before the repair (`fx = false`) the clause is
**false** (`C11_counterexample_no_overlap`, kept as a regression witness) and `no_overlap_partial` proves it under an
explicit hypothesis.
-/
namespace QipVerif.C11
open QipVerif.Sched Relation

variable (alap allowPerm fx : Bool) (ns : List Ins)
variable (O2 : Nat → List Nat → List Nat)

theorem pulseStarts_eq (cfg : Cfg) : pulseStarts cfg ns = startsGen cfg.alap cfg.allowPerm cfg.fx ns (O2of cfg ns) := rfl

theorem real_oracle_perm (cfg : Cfg) : ∀ r l, (O2of cfg ns r l).Perm l := O2of_perm cfg ns

theorem starts_length : (startsGen alap allowPerm fx ns O2).length = ns.length := startsGen_length alap allowPerm fx ns O2

/-- **start_nonneg.** -/
theorem start_nonneg (hO : ∀ r l, (O2 r l).Perm l) (hdur : ∀ a ∈ ns, 0 ≤ a.dur) (i : Nat) (hi : i < ns.length) :
    0 ≤ (startsGen alap allowPerm fx ns O2).getD i 0 := by
  rw [startsGen_getD alap allowPerm fx ns O2 hi]
  exact startOf_nonneg alap allowPerm fx ns O2 hO (durIdx_nonneg ns hdur) hi

/-- **min_start_zero.**  The earliest start is exactly `0`: some instruction starts at `0` and none earlier. -/
theorem min_start_zero (hO : ∀ r l, (O2 r l).Perm l) (hdur : ∀ a ∈ ns, 0 ≤ a.dur) (hne : ns ≠ []) :
    (∃ i, i < ns.length ∧ (startsGen alap allowPerm fx ns O2).getD i 0 = 0) ∧
    ∀ i, i < ns.length → 0 ≤ (startsGen alap allowPerm fx ns O2).getD i 0 := by
  refine ⟨?_, start_nonneg alap allowPerm fx ns O2 hO hdur⟩
  obtain ⟨i, hi, h0⟩ := exists_start_zero alap allowPerm fx ns O2 hO hne
  exact ⟨i, hi, by rw [startsGen_getD alap allowPerm fx ns O2 hi]; exact h0⟩

/-- **dep_respected.**  If `i < j` share a qubit and the commutation rule does not declare them
commuting, `j` does not start before `i` has finished (longest-path inequality along the dependency chain). -/
theorem dep_respected (hO : ∀ r l, (O2 r l).Perm l) (hdur : ∀ a ∈ ns, 0 ≤ a.dur) (i j : Nat) (hij : i < j)
    (hj : j < ns.length) (hs : shareIdx ns i j = true) (hc : commIdx allowPerm ns j i = false) :
    (startsGen alap allowPerm fx ns O2).getD i 0 + durIdx ns i ≤ (startsGen alap allowPerm fx ns O2).getD j 0 := by
  rw [startsGen_getD alap allowPerm fx ns O2 (by omega : i < ns.length), startsGen_getD alap allowPerm fx ns O2 hj]
  exact dep_ineq alap allowPerm fx ns O2 hO (durIdx_nonneg ns hdur) hij hj hs hc

/-- **makespan_le_sum.**  Every instruction finishes no later than the sequential execution would. -/
theorem makespan_le_sum (hO : ∀ r l, (O2 r l).Perm l) (hdur : ∀ a ∈ ns, 0 ≤ a.dur) (i : Nat) (hi : i < ns.length) :
    (startsGen alap allowPerm fx ns O2).getD i 0 + durIdx ns i ≤ (ns.map Ins.dur).sum := by
  rw [startsGen_getD alap allowPerm fx ns O2 hi]
  exact finish_le_sum alap allowPerm fx ns O2 hO (durIdx_nonneg ns hdur) i

-- non-vacuity of the hypotheses and of the clauses on a schedule with unequal durations and a shuffle
example : pulseStarts ⟨true, true, [[1, 0]], false⟩
    [⟨"X", [0], [], 1, true⟩, ⟨"Z", [1], [], 2, true⟩, ⟨"CNOT", [2], [1], 3, true⟩, ⟨"X", [2], [], 4, true⟩, ⟨"CNOT", [1], [0], 5, true⟩]
    = [0, 0, 2, 0, 5] := by decide +kernel

/-! ## no overlap -/

/-- The clause in full is `noOverlap ns starts = true`: no two distinct instructions that share a qubit
have intersecting execution intervals.  It does **not** hold in general (`C11_counterexample_no_overlap`).

**no_overlap_pair_partial.**  A qubit-sharing pair `i < j` that the rule does not declare commuting
never overlaps. -/
theorem no_overlap_pair_partial (hO : ∀ r l, (O2 r l).Perm l) (hdur : ∀ a ∈ ns, 0 ≤ a.dur) (i j : Nat) (hij : i < j)
    (hj : j < ns.length) (hs : shareIdx ns i j = true) (hc : commIdx allowPerm ns j i = false) :
    overlaps ns (startsGen alap allowPerm fx ns O2) i j = false ∧ overlaps ns (startsGen alap allowPerm fx ns O2) j i = false := by
  have hd := durIdx_nonneg ns hdur
  have hi : i < ns.length := by omega
  have := dep_ineq alap allowPerm fx ns O2 hO hd hij hj hs hc
  unfold overlaps
  rw [startsGen_getD alap allowPerm fx ns O2 hi, startsGen_getD alap allowPerm fx ns O2 hj]
  have h3 : decide (startOf alap allowPerm fx ns O2 j < startOf alap allowPerm fx ns O2 i + durIdx ns i) = false := by
    simp only [decide_eq_false_iff_not]; omega
  simp [h3]

/-- **no_overlap_same_cycle.**  Two distinct instructions placed in the same cycle share no qubit, hence
never "overlap on a shared qubit", whatever their durations. -/
theorem no_overlap_same_cycle (c : List Nat) (hc : c ∈ cyclesGen alap allowPerm ns O2) (i j : Nat) (hi : i ∈ c)
    (hj : j ∈ c) (hij : i ≠ j) (st : List Int) : overlaps ns st i j = false := by
  unfold overlaps
  rw [cyclesGen_disjoint alap allowPerm ns O2 c hc i hi j hj hij]
  simp

/-- **no_overlap_partial.**  The whole clause holds when no qubit-sharing pair is declared commuting … -/
theorem no_overlap_partial (hO : ∀ r l, (O2 r l).Perm l) (hdur : ∀ a ∈ ns, 0 ≤ a.dur)
    (H : ∀ i j, i < j → j < ns.length → shareIdx ns i j = true → commIdx allowPerm ns j i = false) :
    noOverlap ns (startsGen alap allowPerm fx ns O2) = true := by
  rw [noOverlap_iff]
  intro i hi j hj hij
  by_cases hs : shareIdx ns i j = true
  · rcases Nat.lt_or_gt_of_ne hij with h | h
    · exact (no_overlap_pair_partial alap allowPerm fx ns O2 hO hdur i j h hj hs (H i j h hj hs)).1
    · have hs' : shareIdx ns j i = true := by rw [shareIdx, share_symm]; exact hs
      exact (no_overlap_pair_partial alap allowPerm fx ns O2 hO hdur j i h hi hs' (H j i h hi hs')).2
  · unfold overlaps; simp [hs]

/-- **no_overlap_fixed.**  With the repaired recording of conflict edges (`fx = true`: an approved candidate
also waits for every instruction of the previous cycles it shares a qubit with — `fixes/C11-1.patch`) the
clause holds for **every** instruction list, both methods, both permutation settings, every oracle. -/
theorem no_overlap_fixed (hO : ∀ r l, (O2 r l).Perm l) (hdur : ∀ a ∈ ns, 0 ≤ a.dur) :
    noOverlap ns (startsGen alap allowPerm true ns O2) = true := by
  rw [noOverlap_iff]
  intro i hi j hj hij
  have hd := durIdx_nonneg ns hdur
  by_cases hs : shareIdx ns i j = true
  · have hs' : shareIdx ns j i = true := by rw [shareIdx, share_symm]; exact hs
    unfold overlaps
    rw [startsGen_getD alap allowPerm true ns O2 hi, startsGen_getD alap allowPerm true ns O2 hj]
    rcases Nat.lt_trichotomy (posOf (cyclesGen alap allowPerm ns O2) i) (posOf (cyclesGen alap allowPerm ns O2) j)
      with hp | hp | hp
    · have := edge_ineq alap allowPerm true ns O2 hO (final_edge_of_share alap allowPerm ns O2 hO hi hj hs hp)
      have h3 : decide (startOf alap allowPerm true ns O2 j < startOf alap allowPerm true ns O2 i + durIdx ns i) = false := by
        simp only [decide_eq_false_iff_not]; omega
      simp [h3]
    · obtain ⟨c, hc, hic, hjc⟩ := same_cycle_of_pos alap allowPerm ns O2 hO hi hj hp
      rw [cyclesGen_disjoint alap allowPerm ns O2 c hc i hic j hjc hij] at hs
      exact absurd hs (by simp)
    · have := edge_ineq alap allowPerm true ns O2 hO (final_edge_of_share alap allowPerm ns O2 hO hj hi hs' hp)
      have h3 : decide (startOf alap allowPerm true ns O2 i < startOf alap allowPerm true ns O2 j + durIdx ns j) = false := by
        simp only [decide_eq_false_iff_not]; omega
      simp [h3]
  · unfold overlaps; simp [hs]

/-- **timetable_valid_fixed.**  All five clauses together for the repaired code: every instruction list with
non-negative durations, ASAP and ALAP, permutation allowed or not, every permutation-valued oracle. -/
theorem timetable_valid_fixed (hO : ∀ r l, (O2 r l).Perm l) (hdur : ∀ a ∈ ns, 0 ≤ a.dur) :
    (∀ i, i < ns.length → 0 ≤ (startsGen alap allowPerm true ns O2).getD i 0) ∧
    (ns ≠ [] → ∃ i, i < ns.length ∧ (startsGen alap allowPerm true ns O2).getD i 0 = 0) ∧
    (∀ i j, i < j → j < ns.length → shareIdx ns i j = true → commIdx allowPerm ns j i = false →
      (startsGen alap allowPerm true ns O2).getD i 0 + durIdx ns i ≤ (startsGen alap allowPerm true ns O2).getD j 0) ∧
    (∀ i, i < ns.length → (startsGen alap allowPerm true ns O2).getD i 0 + durIdx ns i ≤ (ns.map Ins.dur).sum) ∧
    noOverlap ns (startsGen alap allowPerm true ns O2) = true :=
  ⟨start_nonneg alap allowPerm true ns O2 hO hdur,
   fun hne => (min_start_zero alap allowPerm true ns O2 hO hdur hne).1,
   fun i j hij hj hs hc => dep_respected alap allowPerm true ns O2 hO hdur i j hij hj hs hc,
   makespan_le_sum alap allowPerm true ns O2 hO hdur,
   no_overlap_fixed alap allowPerm ns O2 hO hdur⟩

/-- the tree under test records the conflict edges from all executed instructions (`Gen/SchedRule.lean`, regenerated
from `_add_dependency_among_commuting_gates` / `find_topological_order` of the source with `ast`) -/
theorem tree_conflict_fix : Gen.SchedRule.conflictFix = true := by decide

/-- **timetable_valid_tree.**  The executable model with the variant of the tree under test (the configuration the
driver runs and the correspondence compares with the code): a valid timetable for every instruction list with
non-negative durations, every method / permutation setting / recorded shuffles. -/
theorem timetable_valid_tree (cfg : Cfg) (hfx : cfg.fx = Gen.SchedRule.conflictFix) (hdur : ∀ a ∈ ns, 0 ≤ a.dur) :
    (∀ i, i < ns.length → 0 ≤ (pulseStarts cfg ns).getD i 0) ∧
    (ns ≠ [] → ∃ i, i < ns.length ∧ (pulseStarts cfg ns).getD i 0 = 0) ∧
    (∀ i j, i < j → j < ns.length → shareIdx ns i j = true → commIdx cfg.allowPerm ns j i = false →
      (pulseStarts cfg ns).getD i 0 + durIdx ns i ≤ (pulseStarts cfg ns).getD j 0) ∧
    (∀ i, i < ns.length → (pulseStarts cfg ns).getD i 0 + durIdx ns i ≤ (ns.map Ins.dur).sum) ∧
    noOverlap ns (pulseStarts cfg ns) = true := by
  rw [pulseStarts_eq, hfx, tree_conflict_fix]
  exact timetable_valid_fixed cfg.alap cfg.allowPerm ns (O2of cfg ns) (real_oracle_perm ns cfg) hdur

-- the repaired code schedules the witness of the finding without overlap
example : pulseStarts ⟨false, true, [], true⟩
    [⟨"CNOT", [1], [0], 10, true⟩, ⟨"SNOT", [2], [], 1, true⟩, ⟨"CNOT", [2], [0], 1, true⟩] = [0, 0, 10] := by
  decide +kernel

/-- … in particular always when permutation of commuting gates is disabled. -/
theorem no_overlap_without_permutation (hO : ∀ r l, (O2 r l).Perm l) (hdur : ∀ a ∈ ns, 0 ≤ a.dur) :
    noOverlap ns (startsGen alap false fx ns O2) = true :=
  no_overlap_partial alap false fx ns O2 hO hdur (fun _ _ _ _ _ => by simp [commIdx])

example : (∀ i j, i < j → j < 3 → shareIdx [⟨"CNOT", [1], [0], 10, true⟩, ⟨"SNOT", [2], [], 1, true⟩, ⟨"CNOT", [2], [1], 1, true⟩] i j = true →
    commIdx true [⟨"CNOT", [1], [0], 10, true⟩, ⟨"SNOT", [2], [], 1, true⟩, ⟨"CNOT", [2], [1], 1, true⟩] j i = false) := by
  intro i j hij hj
  have : ∀ j ∈ List.range 3, ∀ i ∈ List.range j,
      shareIdx [⟨"CNOT", [1], [0], 10, true⟩, ⟨"SNOT", [2], [], 1, true⟩, ⟨"CNOT", [2], [1], 1, true⟩] i j = true →
      commIdx true [⟨"CNOT", [1], [0], 10, true⟩, ⟨"SNOT", [2], [], 1, true⟩, ⟨"CNOT", [2], [1], 1, true⟩] j i = false := by
    decide +kernel
  exact this j (List.mem_range.mpr hj) i (List.mem_range.mpr hij)

/-- `[CNOT(0→1) d=10, SNOT(2) d=1, CNOT(0→2) d=1]` -/
def witness : List Ins := [⟨"CNOT", [1], [0], 10, true⟩, ⟨"SNOT", [2], [], 1, true⟩, ⟨"CNOT", [2], [0], 1, true⟩]

/-- ASAP schedules the witness at `[0, 0, 1]` … -/
theorem C11_counterexample_starts : pulseStarts ⟨false, true, [], false⟩ witness = [0, 0, 1] := by decide +kernel

/-- … so instructions 0 (`[0,10)`) and 2 (`[1,2)`) share qubit 0 and overlap. -/
theorem C11_counterexample_overlap : overlaps witness (pulseStarts ⟨false, true, [], false⟩ witness) 0 2 = true := by
  decide +kernel

/-- **Refutation of `no_overlap`** for the code without the repair (`fx = false`): the clause fails for a
list with positive durations. -/
theorem C11_counterexample_no_overlap :
    ¬ (∀ (cfg : Cfg) (ns : List Ins), cfg.fx = false → (∀ a ∈ ns, 0 < a.dur) →
        noOverlap ns (pulseStarts cfg ns) = true) := by
  intro h
  have h1 := h ⟨false, true, [], false⟩ witness rfl (by decide)
  have h2 : noOverlap witness (pulseStarts ⟨false, true, [], false⟩ witness) = false := by decide +kernel
  rw [h1] at h2
  exact absurd h2 (by simp)

/-! ## user constraint functions (`Scheduler(constraint_functions=…)`)

`startsGenW (shOf fs ns) …` is the pulse schedule for the list `fs` of constraint functions (`Model/SchedCons.lean`;
`apply_constraint` regenerated from the source as the conjunction, `C05.apply_constraint_is_conjunction`); the default
list gives the schedule of the theorems above (`constraints_default`). -/

theorem constraints_default : startsGenW (shOf [.qubit] ns) alap allowPerm fx ns O2 = startsGen alap allowPerm fx ns O2 :=
  startsGenW_default alap allowPerm fx ns O2

/-- **timetable_cons_any** — for EVERY constraint list (also without `qubit_constraint`, also the empty list), both
variants of the recording: non-negative starts, earliest start 0, the dependency inequality, the makespan bound. -/
theorem timetable_cons_any (fs : List CFun) (hO : ∀ r l, (O2 r l).Perm l) (hdur : ∀ a ∈ ns, 0 ≤ a.dur) :
    (∀ i, i < ns.length → 0 ≤ (startsGenW (shOf fs ns) alap allowPerm fx ns O2).getD i 0) ∧
    (ns ≠ [] → ∃ i, i < ns.length ∧ (startsGenW (shOf fs ns) alap allowPerm fx ns O2).getD i 0 = 0) ∧
    (∀ i j, i < j → j < ns.length → shareIdx ns i j = true → commIdx allowPerm ns j i = false →
      (startsGenW (shOf fs ns) alap allowPerm fx ns O2).getD i 0 + durIdx ns i ≤
        (startsGenW (shOf fs ns) alap allowPerm fx ns O2).getD j 0) ∧
    (∀ i, i < ns.length → (startsGenW (shOf fs ns) alap allowPerm fx ns O2).getD i 0 + durIdx ns i ≤ (ns.map Ins.dur).sum) := by
  have hd := durIdx_nonneg ns hdur
  refine ⟨?_, ?_, ?_, ?_⟩
  · intro i hi
    rw [startsGenW_getD (shOf fs ns) alap allowPerm fx ns O2 hi]
    exact startOfW_nonneg (shOf fs ns) alap allowPerm fx ns O2 hO hd hi
  · intro hne
    obtain ⟨i, hi, h0⟩ := exists_start_zeroW (shOf fs ns) alap allowPerm fx ns O2 hO hne
    exact ⟨i, hi, by rw [startsGenW_getD (shOf fs ns) alap allowPerm fx ns O2 hi]; exact h0⟩
  · intro i j hij hj hs hc
    rw [startsGenW_getD (shOf fs ns) alap allowPerm fx ns O2 (by omega : i < ns.length),
      startsGenW_getD (shOf fs ns) alap allowPerm fx ns O2 hj]
    exact dep_ineqW (shOf fs ns) alap allowPerm fx ns O2 hO hd hij hj hs hc
  · intro i hi
    rw [startsGenW_getD (shOf fs ns) alap allowPerm fx ns O2 hi]
    exact finish_le_sumW (shOf fs ns) alap allowPerm fx ns O2 hO hd i

/-- **no_overlap_cons** — repaired recording, `qubit_constraint` among the constraint functions (first, last, anywhere):
no two distinct instructions sharing a qubit have intersecting execution intervals. -/
theorem no_overlap_cons (fs : List CFun) (hq : CFun.qubit ∈ fs) (hO : ∀ r l, (O2 r l).Perm l) (hdur : ∀ a ∈ ns, 0 ≤ a.dur) :
    noOverlap ns (startsGenW (shOf fs ns) alap allowPerm true ns O2) = true := by
  rw [noOverlap_iff]
  intro i hi j hj hij
  have hd := durIdx_nonneg ns hdur
  have hsub : ∀ a b, shareIdx ns a b = true → shOf fs ns a b = true := fun a b h => shOf_of_qubit hq ns a b h
  by_cases hs : shareIdx ns i j = true
  · have hs' : shareIdx ns j i = true := by rw [shareIdx, share_symm]; exact hs
    unfold overlaps
    rw [startsGenW_getD (shOf fs ns) alap allowPerm true ns O2 hi, startsGenW_getD (shOf fs ns) alap allowPerm true ns O2 hj]
    rcases Nat.lt_trichotomy (posOf (cyclesGenW (shOf fs ns) alap allowPerm ns O2) i)
      (posOf (cyclesGenW (shOf fs ns) alap allowPerm ns O2) j) with hp | hp | hp
    · have := edge_ineqW (shOf fs ns) alap allowPerm true ns O2 hO
        (final_edge_of_shareW (shOf fs ns) alap allowPerm ns O2 hO hi hj (fun _ => hsub j i hs') (fun _ => hsub i j hs) hp)
      have h3 : decide (startOfW (shOf fs ns) alap allowPerm true ns O2 j <
          startOfW (shOf fs ns) alap allowPerm true ns O2 i + durIdx ns i) = false := by
        simp only [decide_eq_false_iff_not]; omega
      simp [h3]
    · obtain ⟨c, hc, hic, hjc⟩ := same_cycle_of_posW (shOf fs ns) alap allowPerm ns O2 hO hi hj hp
      rw [cyclesGenW_disjoint (shOf fs ns) alap allowPerm ns O2 hsub c hc i hic j hjc hij] at hs
      exact absurd hs (by simp)
    · have := edge_ineqW (shOf fs ns) alap allowPerm true ns O2 hO
        (final_edge_of_shareW (shOf fs ns) alap allowPerm ns O2 hO hj hi (fun _ => hsub i j hs) (fun _ => hsub j i hs') hp)
      have h3 : decide (startOfW (shOf fs ns) alap allowPerm true ns O2 i <
          startOfW (shOf fs ns) alap allowPerm true ns O2 j + durIdx ns j) = false := by
        simp only [decide_eq_false_iff_not]; omega
      simp [h3]
  · unfold overlaps; simp [hs]

/-- two CNOT gates with one control, durations 2 and 3 -/
def consWitness : List Ins := [treeIns "CNOT" [1] [0] 2, treeIns "CNOT" [2] [0] 3]

/-- **without `qubit_constraint` no-overlap is not provided**: with the empty list the two instructions on qubit 0 both
start at 0; with `qubit_constraint` first or last in the list they do not overlap. -/
theorem C11_constraints_absent :
    pulseStartsW (shOf [] consWitness) ⟨false, true, [], true⟩ consWitness = [0, 0] ∧
    pulseStartsW (shOf [.qubit, .allowAll] consWitness) ⟨false, true, [], true⟩ consWitness = [3, 0] ∧
    pulseStartsW (shOf [.allowAll, .qubit] consWitness) ⟨false, true, [], true⟩ consWitness = [3, 0] := by
  decide +kernel

end QipVerif.C11
