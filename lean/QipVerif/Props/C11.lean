import QipVerif.Model.Sched
/-! # C11 — pulse schedules are valid timetables (property theorems) -/
namespace QipVerif.C11
open QipVerif.Sched

/-- `[CNOT(0→1) d=10, SNOT(2) d=1, CNOT(0→2) d=1]` -/
def witness : List Ins := [⟨"CNOT", [1], [0], 10⟩, ⟨"SNOT", [2], [], 1⟩, ⟨"CNOT", [2], [0], 1⟩]

theorem C11_counterexample_starts : pulseStarts ⟨false, true, []⟩ witness = [0, 0, 1] := by decide +kernel

/-- `no_overlap` is false: instructions 0 and 2 share qubit 0 and overlap in time. -/
theorem C11_counterexample_no_overlap : noOverlap witness (pulseStarts ⟨false, true, []⟩ witness) = false := by
  decide +kernel

end QipVerif.C11
