import QipVerif.Gen.DecompRulesAll
import QipVerif.Lemmas.DecompResolve
import QipVerif.Lemmas.GateC
import QipVerif.Lemmas.DecompDenWitness
/-!
# C03 — basis decomposition preserves the unitary exactly and stays in the basis

Property theorems.  The rule tables `Gen.gateRule`/`Gen.basisRule` are REGENERATED from
/repo on every run; `Gen.sound_*` (one module per rule, imported through
`Gen.DecompRulesAll`) are the kernel-checked exact unitary identities of every fixed-angle
rule, global phase included.  Here: the parametric rules for all angles, the theorem that the
model of `resolve_gates` preserves the complex unitary of every circuit (`resolve_den_partial`,
all register sizes, basis specifications, placements and valuations of symbolic angles), the output
alphabet and refusal theorems for all circuits and all basis specifications, and the
Pauli-marker defect of the original code (repaired by a `fix:` commit; the model's
`keepMarkers` flag selects the old behaviour for the counter-example).
-/
namespace QipVerif.C03
open QipVerif QipVerif.Decomp QipVerif.Gen QipVerif.GateC Matrix

/-! ## Parametric rules, for every angle θ ∈ ℝ (matrices generated from gates.py) -/

/-- `_gate_PHASEGATE`: [GLOBALPHASE(θ/2), RZ(θ)] has the unitary of PHASEGATE(θ). -/
theorem rule_PHASEGATE_sound (θ : ℝ) : phase (θ / 2) • G.rz_ θ = G.phasegate_ θ := rule_PHASEGATE θ
/-- elimination of RX in a basis without it: [RY(−π/2), RZ(θ), RY(π/2)] = RX(θ) -/
theorem elim_RX_sound (θ : ℝ) : G.ry_ (Real.pi / 2) * G.rz_ θ * G.ry_ (-(Real.pi / 2)) = G.rx_ θ := elim_RX θ
/-- [RZ(−π/2), RX(θ), RZ(π/2)] = RY(θ) -/
theorem elim_RY_sound (θ : ℝ) : G.rz_ (Real.pi / 2) * G.rx_ θ * G.rz_ (-(Real.pi / 2)) = G.ry_ θ := elim_RY θ
/-- [RX(−π/2), RY(θ), RX(π/2)] = RZ(θ) -/
theorem elim_RZ_sound (θ : ℝ) : G.rx_ (Real.pi / 2) * G.ry_ θ * G.rx_ (-(Real.pi / 2)) = G.rz_ θ := elim_RZ θ
/-- Pauli substitution: X = e^{iπ/2}·RX(π), Y = e^{iπ/2}·RY(π), Z = e^{iπ/2}·RZ(π) -/
theorem pauli_X_sound : phase (Real.pi / 2) • G.rx_ Real.pi = G.x_gate_ := pauli_X
theorem pauli_Y_sound : phase (Real.pi / 2) • G.ry_ Real.pi = G.y_gate_ := pauli_Y
theorem pauli_Z_sound : phase (Real.pi / 2) • G.rz_ Real.pi = G.z_gate_ := pauli_Z

/-! ## Output alphabet -/

/-- a basis specification of the property's class: at least one supported two-qubit gate (and
not CSIGN together with ISWAP), rotations: none given, or two or three distinct ones -/
def validBasis (b : BasisSpec) : Bool :=
  match splitBasis b with
  | .ok (b1, b2, _) =>
    !b2.isEmpty && b2.all basis2qValid.contains && !(b2.contains .ISWAP && b2.contains .CSIGN) && rotBasis b1
  | .error _ => false

/-- the gate names a result may contain -/
def allowed (b : BasisSpec) : List GName :=
  match splitBasis b with
  | .ok (b1, b2, _) => b2 ++ b1 ++ [.GLOBALPHASE, .IDLE]
  | .error _ => []

/-- **For every valid basis specification and every circuit over the resolvable gates** (any
length, any placement, any angles), whatever the model of `resolve_gates` returns contains only
gates of the requested basis plus GLOBALPHASE / IDLE markers. -/
theorem resolve_names (keep : Bool) (b : BasisSpec) (gs out : List Gate)
    (hb : validBasis b = true) (hres : gs.all (fun g => resolvable.contains g.name) = true)
    (h : resolve tables keep b gs = .ok out) :
    out.all (fun g => (allowed b).contains g.name) = true := by
  unfold validBasis at hb
  unfold allowed
  cases hs : splitBasis b with
  | error e => simp [hs] at hb
  | ok r =>
    obtain ⟨b1, b2, inB⟩ := r
    simp only [hs, Bool.and_eq_true, Bool.not_eq_true', List.isEmpty_eq_false_iff, Bool.and_eq_false_imp] at hb
    obtain ⟨⟨⟨hne, hv⟩, hic⟩, hb1⟩ := hb
    have hisw : GName.ISWAP ∈ b2 → GName.CSIGN ∉ b2 := by
      intro hi hc
      have := hic (by simpa using hi)
      simp [hc] at this
    have := resolve_names_core keep b gs out b1 b2 inB hs hne hv hisw hb1 hres h
    rw [List.all_eq_true] at this ⊢
    intro x hx
    have hx' := this x hx
    simp only [allowedOk, Bool.or_eq_true, List.contains_iff_mem, beq_iff_eq] at hx'
    simp only [List.contains_iff_mem, List.mem_append, List.mem_cons, List.not_mem_nil, or_false]
    rcases hx' with ((h1 | h1) | h1) | h1
    · exact Or.inl (Or.inl h1)
    · exact Or.inl (Or.inr h1)
    · exact Or.inr (Or.inl h1)
    · exact Or.inr (Or.inr h1)

/-- the 28 basis specifications the property names (string form, list form with 0/2/3 rotations,
the processors' native sets) are all valid — the theorem above is not vacuous -/
example : ([BasisSpec.str .CNOT, .str .CSIGN, .str .ISWAP, .str .SQRTSWAP, .str .SQRTISWAP,
    .list [.CNOT], .list [.CSIGN, .RX, .RY], .list [.ISWAP, .RX, .RZ], .list [.SQRTSWAP, .RY, .RZ],
    .list [.SQRTISWAP, .RX, .RY, .RZ], .list [.SQRTISWAP, .ISWAP, .RX, .RZ], .list [.RX, .RY, .CNOT],
    .list [.RX, .RY, .RZX, .CNOT]].all validBasis) = true := by decide
example : ((resolve tables true (.list [.CSIGN, .RY, .RZ])
    [⟨.SNOT, [1], [], {}⟩, ⟨.CNOT, [0], [1], {}⟩, ⟨.X, [0], [], {}⟩]).toOption.map (·.length)).isSome = true := by
  decide

/-! ## Refusal -/

theorem dispatch_refuses (b2 : List GName) (inB : GName → Bool) (g : Gate)
    (h1 : b2.contains g.name = false) (h2 : ¬ (g.name = .SWAP ∧ b2.contains .ISWAP = true))
    (h3 : tables.gateRule g.name = .notImplemented ∨ (tables.gateRule g.name = .missing ∧ inB g.name = false)) :
    dispatch tables b2 inB g = .error .cannotResolve := by
  unfold dispatch
  rw [if_neg (by rw [h1]; simp), if_neg h2]
  rcases h3 with h | ⟨h, hi⟩
  · rw [h]
  · rw [h]; simp [hi]

theorem resolveAll_refuses (b2 : List GName) (inB : GName → Bool) (gs : List Gate) (g : Gate) (hg : g ∈ gs)
    (hd : ∃ e, dispatch tables b2 inB (pauliSub g).2 = .error e) :
    ∃ e, resolveAll tables b2 inB gs = .error e := by
  induction gs with
  | nil => cases hg
  | cons a as ih =>
    unfold resolveAll
    rcases List.mem_cons.mp hg with rfl | hmem
    · obtain ⟨e, he⟩ := hd
      simp only [resolveOne, he]
      exact ⟨e, rfl⟩
    · obtain ⟨e, he⟩ := ih hmem
      cases h1 : resolveOne tables b2 inB a with
      | error e1 => exact ⟨e1, rfl⟩
      | ok pr => obtain ⟨p, r⟩ := pr; simp only [he]; exact ⟨e, rfl⟩

/-- **Refusal.**  If the circuit contains a gate that is not in the two-qubit basis and whose
rule raises (`SQRTSWAP`, `SQRTISWAP`, `BERKELEY`, `SWAPalpha`) or does not exist and the gate is
not named in the basis, `resolve_gates` returns an error — it never passes the gate through. -/
theorem resolve_refuses (keep : Bool) (b : BasisSpec) (gs : List Gate) (g : Gate) (hg : g ∈ gs)
    (b1 b2 : List GName) (inB : GName → Bool) (hs : splitBasis b = .ok (b1, b2, inB))
    (hxyz : g.name ≠ .X ∧ g.name ≠ .Y ∧ g.name ≠ .Z)
    (h1 : b2.contains g.name = false) (h2 : ¬ (g.name = .SWAP ∧ b2.contains .ISWAP = true))
    (h3 : tables.gateRule g.name = .notImplemented ∨ (tables.gateRule g.name = .missing ∧ inB g.name = false)) :
    ∃ e, resolve tables keep b gs = .error e := by
  have hp : (pauliSub g).2 = g := by
    unfold pauliSub; simp [hxyz.1, hxyz.2.1, hxyz.2.2]
  obtain ⟨e, he⟩ := resolveAll_refuses b2 inB gs g hg ⟨_, by rw [hp]; exact dispatch_refuses b2 inB g h1 h2 h3⟩
  exact ⟨e, by unfold resolve; rw [hs]; simp only [he]⟩

example : ∃ e, resolve tables true (.str .CNOT) [⟨.RX, [0], [], {}⟩, ⟨.SQRTISWAP, [0, 1], [], {}⟩] = .error e :=
  ⟨.cannotResolve, by decide⟩

/-! ## The Pauli-marker defect of the original code -/

/-- With the original assignment (`keepMarkers = false`) `[X 0]` resolved in basis "CNOT" is
`[RX(π)]`, whose unitary is −iX ≠ X: the property is violated by the unrepaired code. -/
theorem pauli_markers_lost_counterexample :
    resolve tables false (.str .CNOT) [⟨.X, [0], [], {}⟩] = .ok [⟨.RX, [0], [], .pi8 8⟩] ∧
    sameDenE 1 [⟨.X, [0], [], {}⟩] [⟨.RX, [0], [], .pi8 8⟩] = false := by
  constructor <;> decide +kernel

/-- With the repair the markers are kept and the unitary is exactly X (instance; the general
statement is `resolve_den_partial` below). -/
theorem pauli_markers_kept :
    resolve tables true (.str .CNOT) [⟨.X, [0], [], {}⟩]
      = .ok [⟨.GLOBALPHASE, [], [], .pi8 4⟩, ⟨.RX, [0], [], .pi8 8⟩] ∧
    sameDenE 1 [⟨.X, [0], [], {}⟩] [⟨.GLOBALPHASE, [], [], .pi8 4⟩, ⟨.RX, [0], [], .pi8 8⟩] = true := by
  constructor <;> decide +kernel

/-! ## The unitary is preserved: every register, basis specification, circuit and valuation

`denG N ρ gs = some U` says that every gate of `gs` is a well placed library gate on `N` qubits and
that the circuit denotes `U` under the valuation `ρ` of its symbolic angles (`Lemmas/Sem.lean`).
`inputOK g` = `wf1 g && phOK g`:
* `wf1`: a gate named RX RY RZ X Y Z has no `controls` (the constructor of `SingleQubitGate` raises
  otherwise; `resolve_gates` rebuilds these gates from `gate.targets` alone);
* `phOK`: a PHASEGATE with a FIXED angle has an even `p8` (a multiple of π/4): the model's template
  instantiation halves the fixed part by integer division.  Symbolic PHASEGATE angles (`p8 = 0`,
  any coefficient, any valuation) are covered.
Both exclusions are shown necessary for the model below. -/

/-- the statement without side condition -/
def ResolveDenUnrestricted : Prop :=
  ∀ (N : ℕ) (ρ : ℕ → ℝ) (b : BasisSpec) (gs out : List Gate), resolve tables true b gs = .ok out →
    ∀ U : Matrix (St N) (St N) ℂ, denG N ρ gs = some U → denG N ρ out = some U

/-- **C03, unitary part.**  For every register size, every basis specification, every circuit of
well placed library gates satisfying `inputOK` and every valuation of the symbolic angles:
whatever the model of the repaired `resolve_gates` returns denotes exactly the same unitary,
global phase included. -/
theorem resolve_den_partial (N : ℕ) (ρ : ℕ → ℝ) (b : BasisSpec) (gs out : List Gate)
    (hok : ∀ g ∈ gs, inputOK g = true)
    (h : resolve tables true b gs = .ok out)
    (U : Matrix (St N) (St N) ℂ) (hU : denG N ρ gs = some U) : denG N ρ out = some U :=
  resolve_den_core N ρ b gs out hok h U hU

/-- non-vacuity: a 3-qubit circuit with a rewritten 1-, 2- and 3-qubit gate, a Pauli, a PHASEGATE and
a rotation to eliminate meets every hypothesis, in a basis where all stages run -/
example (ρ : ℕ → ℝ) :
    let gs : List Gate := [⟨.SNOT, [1], [], {}⟩, ⟨.CNOT, [0], [1], {}⟩, ⟨.X, [0], [], {}⟩,
      ⟨.PHASEGATE, [2], [], .pi8 2⟩, ⟨.TOFFOLI, [1], [2, 0], {}⟩, ⟨.RX, [2], [], .pi8 6⟩]
    (∀ g ∈ gs, inputOK g = true) ∧
    (resolve tables true (.list [.CSIGN, .RY, .RZ]) gs).toOption.isSome = true ∧
    ∃ U, denG 3 ρ gs = some U := by
  refine ⟨by decide, by decide, denG_isSome_of_denE 3 ρ _ (by decide) (by decide +kernel)⟩

/-- **Why `wf1` is needed.**  A Pauli gate whose qubit is listed under `controls` (the constructor
of `SingleQubitGate` raises for it) is a well placed gate for `semG`, but `resolve_gates` rebuilds
the rotation from `gate.targets`, which is empty. -/
theorem resolve_den_unrestricted_counterexample : ¬ ResolveDenUnrestricted := by
  intro H
  have hres : resolve tables true (.str .CNOT) [⟨.X, [], [0], {}⟩]
      = .ok [⟨.GLOBALPHASE, [], [], ⟨none, 0, 1, 4⟩⟩, ⟨.RX, [], [], ⟨none, 0, 1, 8⟩⟩] := by decide
  have hx : ∃ U, denG 1 (fun _ => 0) [⟨.X, [], [0], {}⟩] = some U :=
    denG_isSome_of_denE 1 _ _ (by decide) (by decide +kernel)
  obtain ⟨U, hU⟩ := hx
  have := H 1 (fun _ => 0) _ _ _ hres U hU
  obtain ⟨_, R, _, hR, _⟩ := denG_cons_inv _ _ _ _ _ this
  obtain ⟨A, _, hA, _, _⟩ := denG_cons_inv _ _ _ _ _ hR
  obtain ⟨m, U', hm, _, _, hc, _⟩ := semD_inv _ _ _ _ hA
  have hc' : compactC GName.RX (Ang.eval (fun _ => 0) ⟨none, 0, 1, 8⟩)
      = some ⟨1, mat1 (G.rx_ (Ang.eval (fun _ => 0) ⟨none, 0, 1, 8⟩))⟩ := rfl
  rw [hc'] at hc
  cases hc
  simp [Gate.qubits] at hm

/-- **Why even `p8` is needed for a fixed-angle PHASEGATE.**  The model's template instantiation
halves the fixed part of the angle by integer division (`TAng.inst`), so PHASEGATE(π/8) is rewritten
to GLOBALPHASE(0)·RZ(π/8) — a limitation of the model's angle representation (multiples of π/8), not
of the implementation, which halves a float.  The correspondence harness draws even `p8` only. -/
theorem phasegate_odd_counterexample (ρ : ℕ → ℝ) :
    resolve tables true (.str .CNOT) [⟨.PHASEGATE, [0], [], .pi8 1⟩]
      = .ok [⟨.GLOBALPHASE, [], [], ⟨none, 0, 2, 0⟩⟩, ⟨.RZ, [0], [], ⟨none, 0, 1, 1⟩⟩] ∧
    ∃ U, denG 1 ρ [⟨.PHASEGATE, [0], [], .pi8 1⟩] = some U ∧
      denG 1 ρ [⟨.GLOBALPHASE, [], [], ⟨none, 0, 2, 0⟩⟩, ⟨.RZ, [0], [], ⟨none, 0, 1, 1⟩⟩] ≠ some U := by
  refine ⟨by decide, ?_⟩
  have hc : compactC GName.PHASEGATE ((Ang.pi8 1).eval ρ) = some ⟨1, mat1 (G.phasegate_ ((Ang.pi8 1).eval ρ))⟩ := rfl
  have hsem : ∃ U, semD 1 ρ ⟨.PHASEGATE, [0], [], .pi8 1⟩ = some U :=
    ⟨_, semD_of 1 ρ ⟨.PHASEGATE, [0], [], .pi8 1⟩ 1 _ hc rfl (by simp [Gate.qubits]) (by simp [Gate.qubits])⟩
  obtain ⟨U, hU⟩ := hsem
  refine ⟨U, by rw [denG_single]; exact hU, ?_⟩
  obtain ⟨t, hUt, hall⟩ := semD_same_place 1 ρ _ U hU 1 _ hc
  have h2 := hall ⟨.RZ, [0], [], ⟨none, 0, 1, 1⟩⟩ (mat1 (G.rz_ (Ang.eval ρ ⟨none, 0, 1, 1⟩))) rfl rfl
  rw [denG_cons_some 1 ρ _ _ _ _ (semD_gphase 1 ρ _ rfl rfl) (by rw [denG_single]; exact h2)]
  intro heq
  have heq' := Option.some.inj heq
  rw [hUt] at heq'
  have e := congrFun (congrFun heq' (fun _ => 0)) (fun _ => 0)
  have e0 : Ang.eval ρ ⟨none, 0, 2, 0⟩ = 0 := by simp [Ang.eval]
  have e1 : Ang.eval ρ ⟨none, 0, 1, 1⟩ = Real.pi / 8 := by simp [Ang.eval]
  simp only [Matrix.mul_smul, Matrix.mul_one, Matrix.smul_apply, Tg.embed_apply, mat1, e0, e1,
    G.rz_, G.phasegate_] at e
  simp [phase] at e
  exact exp_sixteenth_ne_one (by simpa using e)

end QipVerif.C03
