import QipVerif.Gen.DecompRulesAll
import QipVerif.Lemmas.DecompResolve
import QipVerif.Lemmas.GateC
import QipVerif.Lemmas.DecompDenWitness
import QipVerif.Lemmas.DecompCond
import QipVerif.Lemmas.DecompTotal
import QipVerif.Gen.DecompLabels
import QipVerif.Gen.DecompAlias
import QipVerif.Gen.GateCtor
import QipVerif.Lemmas.DecompReal
import QipVerif.Lemmas.DecompLabelsTrue
import QipVerif.Lemmas.DecompBasisPerm
/-!
# C03 — basis decomposition preserves the unitary exactly and stays in the basis

Property theorems.  The rule tables `Gen.gateRule`/`Gen.basisRule` are REGENERATED from
/repo on every run; `Gen.sound_*` (one module per rule, imported through
`Gen.DecompRulesAll`) are the kernel-checked exact unitary identities of every fixed-angle
rule, global phase included.  Here: the parametric rules for all angles, the theorem that the
model of `resolve_gates` preserves the complex unitary of every circuit (`resolve_den_partial`,
all register sizes, basis specifications, placements and valuations of symbolic angles), the output
alphabet and refusal theorems for all circuits and all basis specifications, and the
Pauli-marker defect of the original code (repaired by a `fix:` commit; the model's
`keepMarkers` flag selects the old behaviour for the counter-example).
-/
namespace QipVerif.C03
open QipVerif QipVerif.Decomp QipVerif.Gen QipVerif.GateC Matrix

/-! ## Parametric rules, for every angle θ ∈ ℝ (matrices generated from gates.py) -/

/-- `_gate_PHASEGATE`: [GLOBALPHASE(θ/2), RZ(θ)] has the unitary of PHASEGATE(θ). -/
theorem rule_PHASEGATE_sound (θ : ℝ) : phase (θ / 2) • G.rz_ θ = G.phasegate_ θ := rule_PHASEGATE θ
/-- elimination of RX in a basis without it: [RY(−π/2), RZ(θ), RY(π/2)] = RX(θ) -/
theorem elim_RX_sound (θ : ℝ) : G.ry_ (Real.pi / 2) * G.rz_ θ * G.ry_ (-(Real.pi / 2)) = G.rx_ θ := elim_RX θ
/-- [RZ(−π/2), RX(θ), RZ(π/2)] = RY(θ) -/
theorem elim_RY_sound (θ : ℝ) : G.rz_ (Real.pi / 2) * G.rx_ θ * G.rz_ (-(Real.pi / 2)) = G.ry_ θ := elim_RY θ
/-- [RX(−π/2), RY(θ), RX(π/2)] = RZ(θ) -/
theorem elim_RZ_sound (θ : ℝ) : G.rx_ (Real.pi / 2) * G.ry_ θ * G.rx_ (-(Real.pi / 2)) = G.rz_ θ := elim_RZ θ
/-- Pauli substitution: X = e^{iπ/2}·RX(π), Y = e^{iπ/2}·RY(π), Z = e^{iπ/2}·RZ(π) -/
theorem pauli_X_sound : phase (Real.pi / 2) • G.rx_ Real.pi = G.x_gate_ := pauli_X
theorem pauli_Y_sound : phase (Real.pi / 2) • G.ry_ Real.pi = G.y_gate_ := pauli_Y
theorem pauli_Z_sound : phase (Real.pi / 2) • G.rz_ Real.pi = G.z_gate_ := pauli_Z

/-! ## Output alphabet -/

/-- a basis specification of the property's class: at least one supported two-qubit gate (and
not CSIGN together with ISWAP), rotations: none given, or two or three distinct ones -/
def validBasis (b : BasisSpec) : Bool :=
  match splitBasis b with
  | .ok (b1, b2, _) =>
    !b2.isEmpty && b2.all basis2qValid.contains && !(b2.contains .ISWAP && b2.contains .CSIGN) && rotBasis b1
  | .error _ => false

/-- the gate names a result may contain -/
def allowed (b : BasisSpec) : List GName :=
  match splitBasis b with
  | .ok (b1, b2, _) => b2 ++ b1 ++ [.GLOBALPHASE, .IDLE]
  | .error _ => []

/-- **For every valid basis specification and every circuit over the resolvable gates** (any
length, any placement, any angles), whatever the model of `resolve_gates` returns contains only
gates of the requested basis plus GLOBALPHASE / IDLE markers. -/
theorem resolve_names (keep : Bool) (b : BasisSpec) (gs out : List Gate)
    (hb : validBasis b = true) (hres : gs.all (fun g => resolvable.contains g.name) = true)
    (h : resolve tables keep b gs = .ok out) :
    out.all (fun g => (allowed b).contains g.name) = true := by
  unfold validBasis at hb
  unfold allowed
  cases hs : splitBasis b with
  | error e => simp [hs] at hb
  | ok r =>
    obtain ⟨b1, b2, inB⟩ := r
    simp only [hs, Bool.and_eq_true, Bool.not_eq_true', List.isEmpty_eq_false_iff, Bool.and_eq_false_imp] at hb
    obtain ⟨⟨⟨hne, hv⟩, hic⟩, hb1⟩ := hb
    have hisw : GName.ISWAP ∈ b2 → GName.CSIGN ∉ b2 := by
      intro hi hc
      have := hic (by simpa using hi)
      simp [hc] at this
    have := resolve_names_core keep b gs out b1 b2 inB hs hne hv hisw hb1 hres h
    rw [List.all_eq_true] at this ⊢
    intro x hx
    have hx' := this x hx
    simp only [allowedOk, Bool.or_eq_true, List.contains_iff_mem, beq_iff_eq] at hx'
    simp only [List.contains_iff_mem, List.mem_append, List.mem_cons, List.not_mem_nil, or_false]
    rcases hx' with ((h1 | h1) | h1) | h1
    · exact Or.inl (Or.inl h1)
    · exact Or.inl (Or.inr h1)
    · exact Or.inr (Or.inl h1)
    · exact Or.inr (Or.inr h1)

/-- the 28 basis specifications the property names (string form, list form with 0/2/3 rotations,
the processors' native sets) are all valid — the theorem above is not vacuous -/
example : ([BasisSpec.str .CNOT, .str .CSIGN, .str .ISWAP, .str .SQRTSWAP, .str .SQRTISWAP,
    .list [.CNOT], .list [.CSIGN, .RX, .RY], .list [.ISWAP, .RX, .RZ], .list [.SQRTSWAP, .RY, .RZ],
    .list [.SQRTISWAP, .RX, .RY, .RZ], .list [.SQRTISWAP, .ISWAP, .RX, .RZ], .list [.RX, .RY, .CNOT],
    .list [.RX, .RY, .RZX, .CNOT]].all validBasis) = true := by decide
example : ((resolve tables true (.list [.CSIGN, .RY, .RZ])
    [⟨.SNOT, [1], [], {}⟩, ⟨.CNOT, [0], [1], {}⟩, ⟨.X, [0], [], {}⟩]).toOption.map (·.length)).isSome = true := by
  decide

/-! ## Refusal -/

theorem dispatch_refuses (b2 : List GName) (inB : GName → Bool) (g : Gate)
    (h1 : b2.contains g.name = false) (h2 : ¬ (g.name = .SWAP ∧ b2.contains .ISWAP = true))
    (h3 : tables.gateRule g.name = .notImplemented ∨ (tables.gateRule g.name = .missing ∧ inB g.name = false)) :
    dispatch tables b2 inB g = .error .cannotResolve := by
  unfold dispatch
  rw [if_neg (by rw [h1]; simp), if_neg h2]
  rcases h3 with h | ⟨h, hi⟩
  · rw [h]
  · rw [h]; simp [hi]

theorem resolveAll_refuses (b2 : List GName) (inB : GName → Bool) (gs : List Gate) (g : Gate) (hg : g ∈ gs)
    (hd : ∃ e, dispatch tables b2 inB (pauliSub g).2 = .error e) :
    ∃ e, resolveAll tables b2 inB gs = .error e := by
  induction gs with
  | nil => cases hg
  | cons a as ih =>
    unfold resolveAll
    rcases List.mem_cons.mp hg with rfl | hmem
    · obtain ⟨e, he⟩ := hd
      simp only [resolveOne, he]
      exact ⟨e, rfl⟩
    · obtain ⟨e, he⟩ := ih hmem
      cases h1 : resolveOne tables b2 inB a with
      | error e1 => exact ⟨e1, rfl⟩
      | ok pr => obtain ⟨p, r⟩ := pr; simp only [he]; exact ⟨e, rfl⟩

/-- **Refusal.**  If the circuit contains a gate that is not in the two-qubit basis and whose
rule raises (`SQRTSWAP`, `SQRTISWAP`, `BERKELEY`, `SWAPalpha`) or does not exist and the gate is
not named in the basis, `resolve_gates` returns an error — it never passes the gate through. -/
theorem resolve_refuses (keep : Bool) (b : BasisSpec) (gs : List Gate) (g : Gate) (hg : g ∈ gs)
    (b1 b2 : List GName) (inB : GName → Bool) (hs : splitBasis b = .ok (b1, b2, inB))
    (hxyz : g.name ≠ .X ∧ g.name ≠ .Y ∧ g.name ≠ .Z)
    (h1 : b2.contains g.name = false) (h2 : ¬ (g.name = .SWAP ∧ b2.contains .ISWAP = true))
    (h3 : tables.gateRule g.name = .notImplemented ∨ (tables.gateRule g.name = .missing ∧ inB g.name = false)) :
    ∃ e, resolve tables keep b gs = .error e := by
  have hp : (pauliSub g).2 = g := by
    unfold pauliSub; simp [hxyz.1, hxyz.2.1, hxyz.2.2]
  obtain ⟨e, he⟩ := resolveAll_refuses b2 inB gs g hg ⟨_, by rw [hp]; exact dispatch_refuses b2 inB g h1 h2 h3⟩
  exact ⟨e, by unfold resolve; rw [hs]; simp only [he]⟩

example : ∃ e, resolve tables true (.str .CNOT) [⟨.RX, [0], [], {}⟩, ⟨.SQRTISWAP, [0, 1], [], {}⟩] = .error e :=
  ⟨.cannotResolve, by decide⟩

/-! ## Refusal, as an equivalence

`lenOK g`: the gate has the number of controls and targets of its name (what the gate classes build; a
user's gate has any shape).  `expressible b2 inB n`: after the Pauli substitution the dispatch has a way
to handle the name `n` — it is in the two-qubit basis, or it is SWAP with ISWAP in the basis, or it has a
rule that does not raise, or it has no rule and is named in the basis (`Lemmas/DecompTotal.lean`). -/

/-- **Refusal, both directions.**  After a successful basis validation, for every circuit of gates of
the right shape: `resolve_gates` raises iff some gate is not expressible — and then what it raises is
`cannotResolve` (NotImplementedError), never an index error. -/
theorem resolve_refuses_iff (keep : Bool) (b : BasisSpec) (gs : List Gate) (b1 b2 : List GName)
    (inB : GName → Bool) (hs : splitBasis b = .ok (b1, b2, inB)) (hg : ∀ g ∈ gs, lenOK g = true) :
    ((∃ e, resolve tables keep b gs = .error e) ↔ ∃ g ∈ gs, expressible b2 inB g.name = false) ∧
    (∀ e, resolve tables keep b gs = .error e → e = .cannotResolve) := by
  rcases resolve_cases keep b gs b1 b2 inB hs hg with ⟨hall, out, ho⟩ | ⟨hex, he⟩
  · refine ⟨⟨?_, ?_⟩, ?_⟩
    · rintro ⟨e, h⟩; rw [ho] at h; cases h
    · rintro ⟨g, hg', hf⟩; rw [hall g hg'] at hf; cases hf
    · intro e h; rw [ho] at h; cases h
  · refine ⟨⟨fun _ => hex, fun _ => ⟨_, he⟩⟩, ?_⟩
    intro e h; rw [he] at h; cases h; rfl

example : (∀ g ∈ [(⟨.RX, [0], [], {}⟩ : Gate), ⟨.SQRTISWAP, [0, 1], [], {}⟩], lenOK g = true) ∧
    expressible [.CNOT] (fun _ => false) .SQRTISWAP = false ∧ expressible [.CNOT] (fun _ => false) .RX = true := by
  decide

/-- every gate the library declares resolvable, except the two square-root swaps, is expressible in
every basis -/
theorem expressible_library (b2 : List GName) (inB : GName → Bool) (n : GName)
    (hn : resolvable.contains n = true) (h1 : n ≠ .SQRTSWAP) (h2 : n ≠ .SQRTISWAP) :
    expressible b2 inB n = true := by
  simp only [resolvable, List.contains_iff_mem, List.mem_cons, List.not_mem_nil, or_false] at hn
  rcases hn with h | h | h | h | h | h | h | h | h | h | h | h | h | h | h | h | h | h | h <;>
    first
      | exact absurd h h1
      | exact absurd h h2
      | (subst h; simp [expressible, handles, afterPauli, gateRule])

/-- SQRTSWAP / SQRTISWAP are expressible exactly in a basis that contains them -/
theorem expressible_sqrt (b2 : List GName) (inB : GName → Bool) (n : GName) (h : n = .SQRTSWAP ∨ n = .SQRTISWAP) :
    expressible b2 inB n = b2.contains n := by
  rcases h with rfl | rfl <;> simp [expressible, handles, afterPauli, gateRule]

/-- a gate without a rule (S, T, CZ, CRX, …, a user's gate) is expressible exactly if it is named in the basis -/
theorem expressible_norule (b2 : List GName) (inB : GName → Bool) (n : GName)
    (hp : afterPauli n = n) (hs : n ≠ .SWAP) (h : gateRule n = .missing) :
    expressible b2 inB n = (b2.contains n || inB n) := by
  have hs' : (n == GName.SWAP) = false := by simpa using hs
  simp only [expressible, handles, hp, h, hs', Bool.false_and, Bool.or_false]

/-- **The substring test of the unrepaired code** (`fixes/C03-3`): with the basis given as the string
`"CSIGN"` the gate S is passed through, although S is not in the basis. -/
theorem substring_passthrough_counterexample :
    resolve tables true (.str .CSIGN) [⟨.S, [0], [], {}⟩] = .ok [⟨.S, [0], [], {}⟩] ∧
    (allowed (.str .CSIGN)).contains .S = false ∧ validBasis (.str .CSIGN) = true := by
  decide

/-- With `fixes/C03-3` (a string basis is one name: `normBasis true`) a gate without a rule is refused in
every string basis. -/
theorem string_basis_refuses_norule (keep : Bool) (y n : GName) (hy : basis2qValid.contains y = true)
    (hp : afterPauli n = n) (hs : n ≠ .SWAP) (hr : gateRule n = .missing) (hny : n ≠ y)
    (gs : List Gate) (hg : ∀ g ∈ gs, lenOK g = true) (g : Gate) (hmem : g ∈ gs) (hn : g.name = n) :
    resolve tables keep (normBasis true (.str y)) gs = .error .cannotResolve := by
  rw [normBasis_valid y hy]
  have hsplit : ∃ b1, splitBasis (.list [y]) = .ok (b1, [y], fun m => [y].contains m) := by
    simp only [basis2qValid, List.contains_iff_mem, List.mem_cons, List.not_mem_nil, or_false] at hy
    rcases hy with rfl | rfl | rfl | rfl | rfl <;> exact ⟨_, rfl⟩
  obtain ⟨b1, hsp⟩ := hsplit
  have hne : expressible [y] (fun m => [y].contains m) g.name = false := by
    rw [hn, expressible_norule _ _ n hp hs hr]
    simp [hny]
  rcases resolve_cases keep (.list [y]) gs b1 [y] _ hsp hg with ⟨hall, _⟩ | ⟨_, he⟩
  · rw [hall g hmem] at hne; cases hne
  · exact he

example : resolve tables true (normBasis true (.str .CSIGN)) [⟨.S, [0], [], {}⟩] = .error .cannotResolve := by decide

/-! ## Every field of the emitted gate objects (`Model/DecomposeF.lean`)

`resolveF tables labels v b fs` describes the gate OBJECTS `resolve_gates` returns: name, qubits, angle,
`arg_label`, classical condition, and whether the object is an input gate passed through or a new `Gate`.
`v` is the variant of the source: `keepCond` = `fixes/C03-2`, `exactStr` = `fixes/C03-3`. -/

/-- **The field model refines the model**: forgetting the extra fields of what `resolveF` returns gives
what `resolve` returns (for the basis spelled as the variant reads it), errors included.  Every theorem
about `resolve` therefore speaks about the emitted gate objects. -/
theorem resolveF_refines (v : FVariant) (b : BasisSpec) (fs : List FGate) :
    eraseE (resolveF tables labels v b fs) = resolve tables v.keepMarkers (normBasis v.exactStr b) (erase fs) :=
  resolveF_erase tables labels v b fs

/-- a user's gate (no rule) is handed through as the same object when it is named in the list form of the basis, and
refused otherwise — with `fixes/C03-3` also when its name is a substring of the basis string -/
example :
    resolveF tables labels {} (.list [.CNOT, .RX, .RY, .other "MYG"]) [⟨⟨.other "MYG", [0], [], {}⟩, .user 1, none, some 0⟩]
      = .ok [⟨⟨.other "MYG", [0], [], {}⟩, .user 1, none, some 0⟩] ∧
    resolveF tables labels {} (.str .CNOT) [⟨⟨.other "NOT", [0], [], {}⟩, .none, none, some 0⟩] = .error .cannotResolve ∧
    resolveF tables labels ⟨true, true, false⟩ (.str .CNOT) [⟨⟨.other "NOT", [0], [], {}⟩, .none, none, some 0⟩]
      = .ok [⟨⟨.other "NOT", [0], [], {}⟩, .none, none, some 0⟩] := by
  decide

/-- **The classical condition is kept** (`fixes/C03-2`): for every assignment `σ` of the classical bits, the
gates of the resolved circuit that are executed are exactly the resolution of the gates of the input that
are executed. -/
theorem resolve_keeps_condition (v : FVariant) (hk : v.keepCond = true) (b : BasisSpec) (σ : Nat → Bool)
    (fs out : List FGate) (h : resolveF tables labels v b fs = .ok out) :
    resolveF tables labels v b (executed σ fs) = .ok (executed σ out) :=
  resolveF_executed tables labels v hk b σ fs out h

/-- **C03 for circuits with classically controlled gates.**  For every register, basis specification,
valuation of the symbolic angles and every assignment of the classical bits: the operator the resolved
circuit applies is the operator the original applies, global phase included. -/
theorem resolve_den_cond (N : ℕ) (ρ : ℕ → ℝ) (v : FVariant) (hm : v.keepMarkers = true) (hk : v.keepCond = true)
    (b : BasisSpec) (fs out : List FGate) (hok : ∀ f ∈ fs, inputOK f.g = true)
    (h : resolveF tables labels v b fs = .ok out) (σ : Nat → Bool)
    (U : Matrix (St N) (St N) ℂ) (hU : denG N ρ (erase (executed σ fs)) = some U) :
    denG N ρ (erase (executed σ out)) = some U := by
  have h1 := resolveF_executed tables labels v hk b σ fs out h
  have h2 := resolveF_erase tables labels v b (executed σ fs)
  rw [h1, hm] at h2
  simp only [eraseE] at h2
  refine resolve_den_core N ρ _ _ _ ?_ h2.symm U hU
  intro g hg
  simp only [erase, List.mem_map] at hg
  obtain ⟨f, hf, rfl⟩ := hg
  exact hok f (List.mem_of_mem_filter hf)

/-- non-vacuity: a classically controlled Pauli, SWAP and rotation, in a basis where all stages run; under the
bits `c0 = 1, c1 = 0` the X and the RX are executed, the SWAP is not -/
example :
    let fs : List FGate := [⟨⟨.X, [0], [], {}⟩, .none, some ⟨[0], 1⟩, some 0⟩,
      ⟨⟨.SWAP, [0, 1], [], {}⟩, .user 1, some ⟨[1, 0], 2⟩, some 1⟩, ⟨⟨.RX, [1], [], .pi8 2⟩, .frac 1 4, some ⟨[1], 0⟩, some 2⟩]
    let σ : Nat → Bool := fun j => j == 0
    (∀ f ∈ fs, inputOK f.g = true) ∧
    (resolveF tables labels {} (.list [.CSIGN, .RY, .RZ]) fs).toOption.isSome = true ∧
    (executed σ fs).length = 2 := by
  decide

/-- **The unrepaired code drops the condition** (`keepCond = false`): `[X 0 if c0]` resolved in basis "CNOT"
is the unconditional `[GLOBALPHASE(π/2), RX(π)]`; with `c0 = 0` the original executes nothing, the resolved
circuit executes both gates, and their operator is not the identity. -/
theorem condition_dropped_counterexample :
    let fs : List FGate := [⟨⟨.X, [0], [], {}⟩, .none, some ⟨[0], 1⟩, some 0⟩]
    let out : List FGate := [⟨⟨.GLOBALPHASE, [], [], .pi8 4⟩, .none, none, none⟩, ⟨⟨.RX, [0], [], .pi8 8⟩, .none, none, none⟩]
    let σ : Nat → Bool := fun _ => false
    resolveF tables labels ⟨true, false, true⟩ (.str .CNOT) fs = .ok out ∧
    executed σ fs = [] ∧ executed σ out = out ∧ sameDenE 1 (erase out) [] = false := by
  refine ⟨by decide, by decide, by decide, by decide +kernel⟩

/-- **Measurements.**  `resolve_gates` refuses a circuit iff… it contains a measurement: this check comes before
the basis validation, and nothing else makes it raise this error.  (So no segment-wise statement is needed:
a circuit with a measurement is never resolved.) -/
theorem resolve_refuses_measurement (v : FVariant) (b : BasisSpec) (items : List CircItem) :
    resolveC tables labels v b items = .error .measurement ↔ items.any CircItem.isMeas = true := by
  unfold resolveC
  constructor
  · intro h
    by_cases hm : items.any CircItem.isMeas = true
    · exact hm
    · rw [if_neg hm] at h
      split at h <;> cases h
  · intro hm
    rw [if_pos hm]

example : resolveC tables labels {} (.str .CNOT) [.gate ⟨.X, [0], [], {}⟩ .none none, .meas] = .error .measurement := by
  decide

/-- **Spelling of the basis.**  With `fixes/C03-3` a valid two-qubit gate given as a string is the
one-element list; any other string is refused (`invalid2q`), whatever the circuit. -/
theorem basis_string_is_list (v : FVariant) (hx : v.exactStr = true) (y : GName) (fs : List FGate) :
    (basis2qValid.contains y = true →
      resolveF tables labels v (.str y) fs = resolveF tables labels v (.list [y]) fs) ∧
    (basis2qValid.contains y = false → resolveF tables labels v (.str y) fs = .error .invalid2q) := by
  constructor
  · intro hy
    unfold resolveF
    rw [hx, normBasis_valid y hy, normBasis_list]
  · intro hy
    unfold resolveF
    rw [normBasis_invalid _ y hy, splitBasis_invalid y hy]

example : validBasis (.str .SQRTISWAP) = true ∧ basis2qValid.contains .TOFFOLI = false := by decide

/-- **The list form of the basis is a set**: reordering the list does not change the result (so
`["RX", "RY", "CNOT"]`, the native set of the superconducting processor, is `["CNOT", "RX", "RY"]`). -/
theorem resolve_basis_perm (keep : Bool) (bs bs' : List GName) (h : bs.Perm bs') (gs : List Gate) :
    resolve tables keep (.list bs) gs = resolve tables keep (.list bs') gs :=
  resolve_perm tables keep bs bs' h gs

example : [GName.RX, .RY, .CNOT].Perm [.CNOT, .RX, .RY] := by decide

/-- **Labels.**  If every label of the form `kπ/m` in the input circuit says what the angle is, and no PHASEGATE
of the input is labelled that way (the phase marker `_gate_PHASEGATE` emits carries the label of the gate at
half its angle), then every label `kπ/m` of the resolved circuit says what the angle is — in particular every
label the rules write (`\pi/2`, `-3\pi/4`, …) is the angle of its gate.  `labGood f = labTrue f ∧ (PHASEGATE → no
kπ/m label)`. -/
theorem resolve_labels_true (v : FVariant) (b : BasisSpec) (fs out : List FGate)
    (hg : ∀ f ∈ fs, labGood f = true) (h : resolveF tables labels v b fs = .ok out) :
    ∀ o ∈ out, labTrue o = true := by
  intro o ho
  have := resolveF_labels_true v b fs out hg h o ho
  simp only [labGood, Bool.and_eq_true] at this
  exact this.1

example : (∀ f ∈ ([⟨⟨.RX, [0], [], .pi8 2⟩, .frac 1 4, none, some 0⟩, ⟨⟨.PHASEGATE, [1], [], .pi8 4⟩, .user 3, none, some 1⟩,
    ⟨⟨.TOFFOLI, [2], [0, 1], {}⟩, .none, none, some 2⟩] : List FGate), labGood f = true) ∧
    labGood ⟨⟨.RX, [0], [], .pi8 2⟩, .frac 1 2, none, some 0⟩ = false := by decide

/-- **Every rule labels the angles it writes** (regenerated tables): in every `_gate_*` / `_basis_*` rule a gate
with an angle carries a label — the text `kπ/m` of exactly its fixed angle, or the label of the rewritten gate. -/
theorem rules_label_their_angles :
    (∀ (n : GName) (body : List TGate), gateRule n = .templ body → ∀ (t : TGate) (i : Nat), (t, i) ∈ body.zipIdx →
      angled.contains t.name = true → (gateLab n).getD i .none ≠ .none) ∧
    (∀ (y n : GName) (body : List TGate), basisRule y n = some body → ∀ (t : TGate) (i : Nat), (t, i) ∈ body.zipIdx →
      angled.contains t.name = true → (basisLab y n).getD i .none ≠ .none) :=
  ⟨fun n body h t i hm ha => rule_labels_complete n body _ (gateLab_ok n body h) t i hm ha,
   fun y n body h t i hm ha => rule_labels_complete n body _ (basisLab_ok y n body h).1 t i hm ha⟩

example : gateRule .TOFFOLI = .templ gate_TOFFOLI ∧ (gate_TOFFOLI.zipIdx.filter fun p => angled.contains p.1.name).length = 15 := by
  decide

/-! ## Alias names (`_gate_H = _gate_SNOT`)

The model alphabet has no `H`; the regenerated table `ruleAlias` (extracted: the rule of the alias, probed with gates
carrying the alias name, IS the rule of the canonical name, labels included; GATE_CLASS_MAP gives both names one class)
says which other names have a rule, and `resolveCA` reads them as their canonical name.  `CX`, `iSWAP`, `SWAPALPHA` have
no rule: they are names without a rule like any other (`expressible_norule`: passed through iff named in the basis). -/

/-- **An alias resolves exactly like its canonical name**, wherever it stands in the circuit and whatever its label
and classical condition. -/
theorem alias_resolves_like_canonical (v : FVariant) (b : BasisSpec) (pre post : List CircItem) (s : String) (n : GName)
    (hl : ruleAlias.lookup s = some n) (ts cs : List Nat) (a : Ang) (l : Lab) (c : Option Cond) :
    resolveCA tables labels ruleAlias v b (pre ++ .gate ⟨.other s, ts, cs, a⟩ l c :: post) =
    resolveCA tables labels ruleAlias v b (pre ++ .gate ⟨n, ts, cs, a⟩ l c :: post) := by
  have hall : ruleAlias.all (fun p => !isOther p.2) = true := by decide
  rw [← resolveCA_canon tables labels ruleAlias hall v b (pre ++ .gate ⟨.other s, ts, cs, a⟩ l c :: post),
    ← resolveCA_canon tables labels ruleAlias hall v b (pre ++ .gate ⟨n, ts, cs, a⟩ l c :: post)]
  congr 1
  simp only [List.map_append, List.map_cons]
  congr 2
  have h1 : canonName ruleAlias (.other s) = n := by simp only [canonName, hl]
  have h2 := canonName_idem ruleAlias hall (.other s)
  rw [h1] at h2
  simp only [CircItem.canon, h1, h2]

/-- non-vacuity, and the alias in a circuit: `[H 1 if c0, CNOT]` resolves like `[SNOT 1 if c0, CNOT]` -/
example : ruleAlias.lookup "H" = some .SNOT ∧
    resolveCA tables labels ruleAlias {} (.list [.CSIGN, .RY, .RZ])
      [.gate ⟨.other "H", [1], [], {}⟩ .none (some ⟨[0], 1⟩), .gate ⟨.CNOT, [0], [1], {}⟩ .none none] =
    resolveC tables labels {} (.list [.CSIGN, .RY, .RZ])
      [.gate ⟨.SNOT, [1], [], {}⟩ .none (some ⟨[0], 1⟩), .gate ⟨.CNOT, [0], [1], {}⟩ .none none] := by
  decide

/-- **… and is the same gate**: in the regenerated constructor table of the gate classes (C09) an alias and its
canonical name have the same entry (arity, guards, matrix expression) up to the key. -/
theorem alias_same_class :
    ruleAlias.all (fun p =>
      match Gen.G.ctorTable.find? (fun e => e.key == p.1), Gen.G.ctorTable.find? (fun e => e.key == p.2.toString) with
      | some e1, some e2 => decide ({ e1 with key := "" } = { e2 with key := "" })
      | _, _ => false) = true := by
  decide

/-! ## Histories on one live circuit object -/

/-- **`resolve_reads_current_fields`.**  `targets`, `controls`, `arg_value` and the classical condition of a gate object
are plain public attributes, and gates can be appended to / removed from the circuit.  For every circuit of gate objects
and every history of such edits and of earlier `resolve_gates` calls (in any bases): the answer of a call is the answer
for freshly built objects carrying the **current** fields — the model has no memo on gate objects, no state in the
circuit, and a call leaves the circuit alone.  (The contract the live-object histories check on the code; C01 states it
as `run_reads_current_fields`, C08 as `history_get_current`.) -/
theorem resolve_reads_current_fields (v : FVariant) (items : List CircItem) (ops : List HOp) (b : BasisSpec) :
    runHistory tables labels ruleAlias v items (ops ++ [.resolve b]) =
      runHistory tables labels ruleAlias v items ops ++
        [resolveCA tables labels ruleAlias v b (ops.foldl applyHOp items)] :=
  runHistory_append_resolve tables labels ruleAlias v ops items b

/-- non-vacuity: `[CNOT 0→1, RX(π/4) 1]` resolved in "CNOT"; then the CNOT re-targeted to 2→0, the rotation given the
angle π/2 and moved to qubit 2, a SNOT appended; resolved again in a CSIGN basis: the second answer is that of the
edited circuit built afresh -/
example :
    let items : List CircItem := [.gate ⟨.CNOT, [1], [0], {}⟩ .none none, .gate ⟨.RX, [1], [], .pi8 2⟩ .none none]
    let ops : List HOp := [.resolve (.str .CNOT), .setControls 0 [2], .setTargets 0 [0], .setArg 1 (.pi8 4),
      .setTargets 1 [2], .append (.gate ⟨.SNOT, [1], [], {}⟩ .none none), .resolve (.list [.CSIGN, .RX, .RY])]
    runHistory tables labels ruleAlias {} items ops =
      [resolveCA tables labels ruleAlias {} (.str .CNOT) items,
       resolveCA tables labels ruleAlias {} (.list [.CSIGN, .RX, .RY])
         [.gate ⟨.CNOT, [0], [2], {}⟩ .none none, .gate ⟨.RX, [2], [], .pi8 4⟩ .none none,
          .gate ⟨.SNOT, [1], [], {}⟩ .none none]] := by
  decide

/-! ## The Pauli-marker defect of the original code -/

/-- With the original assignment (`keepMarkers = false`) `[X 0]` resolved in basis "CNOT" is
`[RX(π)]`, whose unitary is −iX ≠ X: the property is violated by the unrepaired code. -/
theorem pauli_markers_lost_counterexample :
    resolve tables false (.str .CNOT) [⟨.X, [0], [], {}⟩] = .ok [⟨.RX, [0], [], .pi8 8⟩] ∧
    sameDenE 1 [⟨.X, [0], [], {}⟩] [⟨.RX, [0], [], .pi8 8⟩] = false := by
  constructor <;> decide +kernel

/-- With the repair the markers are kept and the unitary is exactly X (instance; the general
statement is `resolve_den_partial` below). -/
theorem pauli_markers_kept :
    resolve tables true (.str .CNOT) [⟨.X, [0], [], {}⟩]
      = .ok [⟨.GLOBALPHASE, [], [], .pi8 4⟩, ⟨.RX, [0], [], .pi8 8⟩] ∧
    sameDenE 1 [⟨.X, [0], [], {}⟩] [⟨.GLOBALPHASE, [], [], .pi8 4⟩, ⟨.RX, [0], [], .pi8 8⟩] = true := by
  constructor <;> decide +kernel

/-! ## The unitary is preserved: every register, basis specification, circuit and valuation

`denG N ρ gs = some U` says that every gate of `gs` is a well placed library gate on `N` qubits and
that the circuit denotes `U` under the valuation `ρ` of its symbolic angles (`Lemmas/Sem.lean`).
`inputOK g` = `wf1 g && phOK g`:
* `wf1`: a gate named RX RY RZ X Y Z has no `controls` (the constructor of `SingleQubitGate` raises
  otherwise; `resolve_gates` rebuilds these gates from `gate.targets` alone);
* `phOK`: a PHASEGATE with a FIXED angle has an even `p8` (a multiple of π/4): the model's template
  instantiation halves the fixed part by integer division.  Symbolic PHASEGATE angles (`p8 = 0`,
  any coefficient, any valuation) are covered.
Both exclusions are shown necessary for the model below. -/

/-- the statement without side condition -/
def ResolveDenUnrestricted : Prop :=
  ∀ (N : ℕ) (ρ : ℕ → ℝ) (b : BasisSpec) (gs out : List Gate), resolve tables true b gs = .ok out →
    ∀ U : Matrix (St N) (St N) ℂ, denG N ρ gs = some U → denG N ρ out = some U

/-- **C03, unitary part.**  For every register size, every basis specification, every circuit of
well placed library gates satisfying `inputOK` and every valuation of the symbolic angles:
whatever the model of the repaired `resolve_gates` returns denotes exactly the same unitary,
global phase included. -/
theorem resolve_den_partial (N : ℕ) (ρ : ℕ → ℝ) (b : BasisSpec) (gs out : List Gate)
    (hok : ∀ g ∈ gs, inputOK g = true)
    (h : resolve tables true b gs = .ok out)
    (U : Matrix (St N) (St N) ℂ) (hU : denG N ρ gs = some U) : denG N ρ out = some U :=
  resolve_den_core N ρ b gs out hok h U hU

/-- non-vacuity: a 3-qubit circuit with a rewritten 1-, 2- and 3-qubit gate, a Pauli, a PHASEGATE and
a rotation to eliminate meets every hypothesis, in a basis where all stages run -/
example (ρ : ℕ → ℝ) :
    let gs : List Gate := [⟨.SNOT, [1], [], {}⟩, ⟨.CNOT, [0], [1], {}⟩, ⟨.X, [0], [], {}⟩,
      ⟨.PHASEGATE, [2], [], .pi8 2⟩, ⟨.TOFFOLI, [1], [2, 0], {}⟩, ⟨.RX, [2], [], .pi8 6⟩]
    (∀ g ∈ gs, inputOK g = true) ∧
    (resolve tables true (.list [.CSIGN, .RY, .RZ]) gs).toOption.isSome = true ∧
    ∃ U, denG 3 ρ gs = some U := by
  refine ⟨by decide, by decide, denG_isSome_of_denE 3 ρ _ (by decide) (by decide +kernel)⟩

/-- **Why `wf1` is needed.**  A Pauli gate whose qubit is listed under `controls` (the constructor
of `SingleQubitGate` raises for it) is a well placed gate for `semG`, but `resolve_gates` rebuilds
the rotation from `gate.targets`, which is empty. -/
theorem resolve_den_unrestricted_counterexample : ¬ ResolveDenUnrestricted := by
  intro H
  have hres : resolve tables true (.str .CNOT) [⟨.X, [], [0], {}⟩]
      = .ok [⟨.GLOBALPHASE, [], [], ⟨none, 0, 1, 4⟩⟩, ⟨.RX, [], [], ⟨none, 0, 1, 8⟩⟩] := by decide
  have hx : ∃ U, denG 1 (fun _ => 0) [⟨.X, [], [0], {}⟩] = some U :=
    denG_isSome_of_denE 1 _ _ (by decide) (by decide +kernel)
  obtain ⟨U, hU⟩ := hx
  have := H 1 (fun _ => 0) _ _ _ hres U hU
  obtain ⟨_, R, _, hR, _⟩ := denG_cons_inv _ _ _ _ _ this
  obtain ⟨A, _, hA, _, _⟩ := denG_cons_inv _ _ _ _ _ hR
  obtain ⟨m, U', hm, _, _, hc, _⟩ := semD_inv _ _ _ _ hA
  have hc' : compactC GName.RX (Ang.eval (fun _ => 0) ⟨none, 0, 1, 8⟩)
      = some ⟨1, mat1 (G.rx_ (Ang.eval (fun _ => 0) ⟨none, 0, 1, 8⟩))⟩ := rfl
  rw [hc'] at hc
  cases hc
  simp [Gate.qubits] at hm

/-- **Why even `p8` is needed for a fixed-angle PHASEGATE.**  The model's template instantiation
halves the fixed part of the angle by integer division (`TAng.inst`), so PHASEGATE(π/8) is rewritten
to GLOBALPHASE(0)·RZ(π/8) — a limitation of the model's angle representation (multiples of π/8), not
of the implementation, which halves a float.  The correspondence harness draws even `p8` only. -/
theorem phasegate_odd_counterexample (ρ : ℕ → ℝ) :
    resolve tables true (.str .CNOT) [⟨.PHASEGATE, [0], [], .pi8 1⟩]
      = .ok [⟨.GLOBALPHASE, [], [], ⟨none, 0, 2, 0⟩⟩, ⟨.RZ, [0], [], ⟨none, 0, 1, 1⟩⟩] ∧
    ∃ U, denG 1 ρ [⟨.PHASEGATE, [0], [], .pi8 1⟩] = some U ∧
      denG 1 ρ [⟨.GLOBALPHASE, [], [], ⟨none, 0, 2, 0⟩⟩, ⟨.RZ, [0], [], ⟨none, 0, 1, 1⟩⟩] ≠ some U := by
  refine ⟨by decide, ?_⟩
  have hc : compactC GName.PHASEGATE ((Ang.pi8 1).eval ρ) = some ⟨1, mat1 (G.phasegate_ ((Ang.pi8 1).eval ρ))⟩ := rfl
  have hsem : ∃ U, semD 1 ρ ⟨.PHASEGATE, [0], [], .pi8 1⟩ = some U :=
    ⟨_, semD_of 1 ρ ⟨.PHASEGATE, [0], [], .pi8 1⟩ 1 _ hc rfl (by simp [Gate.qubits]) (by simp [Gate.qubits])⟩
  obtain ⟨U, hU⟩ := hsem
  refine ⟨U, by rw [denG_single]; exact hU, ?_⟩
  obtain ⟨t, hUt, hall⟩ := semD_same_place 1 ρ _ U hU 1 _ hc
  have h2 := hall ⟨.RZ, [0], [], ⟨none, 0, 1, 1⟩⟩ (mat1 (G.rz_ (Ang.eval ρ ⟨none, 0, 1, 1⟩))) rfl rfl
  rw [denG_cons_some 1 ρ _ _ _ _ (semD_gphase 1 ρ _ rfl rfl) (by rw [denG_single]; exact h2)]
  intro heq
  have heq' := Option.some.inj heq
  rw [hUt] at heq'
  have e := congrFun (congrFun heq' (fun _ => 0)) (fun _ => 0)
  have e0 : Ang.eval ρ ⟨none, 0, 2, 0⟩ = 0 := by simp [Ang.eval]
  have e1 : Ang.eval ρ ⟨none, 0, 1, 1⟩ = Real.pi / 8 := by simp [Ang.eval]
  simp only [Matrix.mul_smul, Matrix.mul_one, Matrix.smul_apply, Tg.embed_apply, mat1, e0, e1,
    G.rz_, G.phasegate_] at e
  simp [phase] at e
  exact exp_sixteenth_ne_one (by simpa using e)

/-! ## Arbitrary real angles

`phOK` is a limit of how the model writes FIXED angles (multiples of π/8, halved by integer division), not of the
circuits: a circuit whose i-th gate has the real angle θᵢ is encoded with the symbolic angle `symb i` and the
valuation `i ↦ θᵢ` (`encR`, `valR`: `encR_get`, `encR_angle` say that this IS the circuit), and the parametric
PHASEGATE rule is proved for every θ.  What remains is `RGate.buildable`: RX RY RZ X Y Z have no `controls` — the
constructor of these gate classes refuses anything else (compared with the code on every run). -/

/-- **C03, unitary part, at full strength**: for every register size, every basis specification and every
circuit of well placed library gates with ARBITRARY REAL angles that the gate classes can build, whatever the
model of the repaired `resolve_gates` returns denotes exactly the same unitary, global phase included. -/
theorem resolve_den (N : ℕ) (b : BasisSpec) (rs : List RGate) (out : List Gate)
    (hw : ∀ r ∈ rs, r.buildable = true)
    (h : resolve tables true b (encR 0 rs) = .ok out)
    (U : Matrix (St N) (St N) ℂ) (hU : denG N (valR rs) (encR 0 rs) = some U) : denG N (valR rs) out = some U :=
  resolve_den_core N (valR rs) b (encR 0 rs) out (encR_inputOK 0 rs hw) h U hU

/-- non-vacuity: PHASEGATE(1/3) and RX(√2) — angles no fixed multiple of π/8 writes — in a basis where every stage
runs; and the encoded circuit has these angles -/
example :
    let rs : List RGate := [⟨.PHASEGATE, [0], [], 1 / 3⟩, ⟨.CNOT, [1], [0], 0⟩, ⟨.RX, [1], [], Real.sqrt 2⟩]
    (∀ r ∈ rs, r.buildable = true) ∧
    (resolve tables true (.list [.SQRTISWAP, .RY, .RZ]) (encR 0 rs)).toOption.isSome = true ∧
    (Ang.symb (0 + 2)).eval (valR rs) = Real.sqrt 2 := by
  refine ⟨by decide, by decide, ?_⟩
  exact encR_angle _ 2 (by decide)

end QipVerif.C03
