import QipVerif.Gen.DecompRulesAll
import QipVerif.Lemmas.DecompResolve
import QipVerif.Lemmas.GateC
/-!
# C03 — basis decomposition preserves the unitary exactly and stays in the basis

Property theorems.  The rule tables `Gen.gateRule`/`Gen.basisRule` are REGENERATED from
/repo on every run; `Gen.sound_*` (one module per rule, imported through
`Gen.DecompRulesAll`) are the kernel-checked exact unitary identities of every fixed-angle
rule, global phase included.  Here: the parametric rules for all angles, the output
alphabet and refusal theorems for all circuits and all basis specifications, and the
Pauli-marker defect of the original code (repaired by a `fix:` commit; the model's
`keepMarkers` flag selects the old behaviour for the counter-example).
-/
namespace QipVerif.C03
open QipVerif QipVerif.Decomp QipVerif.Gen QipVerif.GateC

/-! ## Parametric rules, for every angle θ ∈ ℝ (matrices generated from gates.py) -/

/-- `_gate_PHASEGATE`: [GLOBALPHASE(θ/2), RZ(θ)] has the unitary of PHASEGATE(θ). -/
theorem rule_PHASEGATE_sound (θ : ℝ) : phase (θ / 2) • G.rz_ θ = G.phasegate_ θ := rule_PHASEGATE θ
/-- elimination of RX in a basis without it: [RY(−π/2), RZ(θ), RY(π/2)] = RX(θ) -/
theorem elim_RX_sound (θ : ℝ) : G.ry_ (Real.pi / 2) * G.rz_ θ * G.ry_ (-(Real.pi / 2)) = G.rx_ θ := elim_RX θ
/-- [RZ(−π/2), RX(θ), RZ(π/2)] = RY(θ) -/
theorem elim_RY_sound (θ : ℝ) : G.rz_ (Real.pi / 2) * G.rx_ θ * G.rz_ (-(Real.pi / 2)) = G.ry_ θ := elim_RY θ
/-- [RX(−π/2), RY(θ), RX(π/2)] = RZ(θ) -/
theorem elim_RZ_sound (θ : ℝ) : G.rx_ (Real.pi / 2) * G.ry_ θ * G.rx_ (-(Real.pi / 2)) = G.rz_ θ := elim_RZ θ
/-- Pauli substitution: X = e^{iπ/2}·RX(π), Y = e^{iπ/2}·RY(π), Z = e^{iπ/2}·RZ(π) -/
theorem pauli_X_sound : phase (Real.pi / 2) • G.rx_ Real.pi = G.x_gate_ := pauli_X
theorem pauli_Y_sound : phase (Real.pi / 2) • G.ry_ Real.pi = G.y_gate_ := pauli_Y
theorem pauli_Z_sound : phase (Real.pi / 2) • G.rz_ Real.pi = G.z_gate_ := pauli_Z

/-! ## Output alphabet -/

/-- a basis specification of the property's class: at least one supported two-qubit gate (and
not CSIGN together with ISWAP), rotations: none given, or two or three distinct ones -/
def validBasis (b : BasisSpec) : Bool :=
  match splitBasis b with
  | .ok (b1, b2, _) =>
    !b2.isEmpty && b2.all basis2qValid.contains && !(b2.contains .ISWAP && b2.contains .CSIGN) && rotBasis b1
  | .error _ => false

/-- the gate names a result may contain -/
def allowed (b : BasisSpec) : List GName :=
  match splitBasis b with
  | .ok (b1, b2, _) => b2 ++ b1 ++ [.GLOBALPHASE, .IDLE]
  | .error _ => []

/-- **For every valid basis specification and every circuit over the resolvable gates** (any
length, any placement, any angles), whatever the model of `resolve_gates` returns contains only
gates of the requested basis plus GLOBALPHASE / IDLE markers. -/
theorem resolve_names (keep : Bool) (b : BasisSpec) (gs out : List Gate)
    (hb : validBasis b = true) (hres : gs.all (fun g => resolvable.contains g.name) = true)
    (h : resolve tables keep b gs = .ok out) :
    out.all (fun g => (allowed b).contains g.name) = true := by
  unfold validBasis at hb
  unfold allowed
  cases hs : splitBasis b with
  | error e => simp [hs] at hb
  | ok r =>
    obtain ⟨b1, b2, inB⟩ := r
    simp only [hs, Bool.and_eq_true, Bool.not_eq_true', List.isEmpty_eq_false_iff, Bool.and_eq_false_imp] at hb
    obtain ⟨⟨⟨hne, hv⟩, hic⟩, hb1⟩ := hb
    have hisw : GName.ISWAP ∈ b2 → GName.CSIGN ∉ b2 := by
      intro hi hc
      have := hic (by simpa using hi)
      simp [hc] at this
    have := resolve_names_core keep b gs out b1 b2 inB hs hne hv hisw hb1 hres h
    rw [List.all_eq_true] at this ⊢
    intro x hx
    have hx' := this x hx
    simp only [allowedOk, Bool.or_eq_true, List.contains_iff_mem, beq_iff_eq] at hx'
    simp only [List.contains_iff_mem, List.mem_append, List.mem_cons, List.not_mem_nil, or_false]
    rcases hx' with ((h1 | h1) | h1) | h1
    · exact Or.inl (Or.inl h1)
    · exact Or.inl (Or.inr h1)
    · exact Or.inr (Or.inl h1)
    · exact Or.inr (Or.inr h1)

/-- the 28 basis specifications the property names (string form, list form with 0/2/3 rotations,
the processors' native sets) are all valid — the theorem above is not vacuous -/
example : ([BasisSpec.str .CNOT, .str .CSIGN, .str .ISWAP, .str .SQRTSWAP, .str .SQRTISWAP,
    .list [.CNOT], .list [.CSIGN, .RX, .RY], .list [.ISWAP, .RX, .RZ], .list [.SQRTSWAP, .RY, .RZ],
    .list [.SQRTISWAP, .RX, .RY, .RZ], .list [.SQRTISWAP, .ISWAP, .RX, .RZ], .list [.RX, .RY, .CNOT],
    .list [.RX, .RY, .RZX, .CNOT]].all validBasis) = true := by decide
example : ((resolve tables true (.list [.CSIGN, .RY, .RZ])
    [⟨.SNOT, [1], [], {}⟩, ⟨.CNOT, [0], [1], {}⟩, ⟨.X, [0], [], {}⟩]).toOption.map (·.length)).isSome = true := by
  decide

/-! ## Refusal -/

theorem dispatch_refuses (b2 : List GName) (inB : GName → Bool) (g : Gate)
    (h1 : b2.contains g.name = false) (h2 : ¬ (g.name = .SWAP ∧ b2.contains .ISWAP = true))
    (h3 : tables.gateRule g.name = .notImplemented ∨ (tables.gateRule g.name = .missing ∧ inB g.name = false)) :
    dispatch tables b2 inB g = .error .cannotResolve := by
  unfold dispatch
  rw [if_neg (by rw [h1]; simp), if_neg h2]
  rcases h3 with h | ⟨h, hi⟩
  · rw [h]
  · rw [h]; simp [hi]

theorem resolveAll_refuses (b2 : List GName) (inB : GName → Bool) (gs : List Gate) (g : Gate) (hg : g ∈ gs)
    (hd : ∃ e, dispatch tables b2 inB (pauliSub g).2 = .error e) :
    ∃ e, resolveAll tables b2 inB gs = .error e := by
  induction gs with
  | nil => cases hg
  | cons a as ih =>
    unfold resolveAll
    rcases List.mem_cons.mp hg with rfl | hmem
    · obtain ⟨e, he⟩ := hd
      simp only [resolveOne, he]
      exact ⟨e, rfl⟩
    · obtain ⟨e, he⟩ := ih hmem
      cases h1 : resolveOne tables b2 inB a with
      | error e1 => exact ⟨e1, rfl⟩
      | ok pr => obtain ⟨p, r⟩ := pr; simp only [he]; exact ⟨e, rfl⟩

/-- **Refusal.**  If the circuit contains a gate that is not in the two-qubit basis and whose
rule raises (`SQRTSWAP`, `SQRTISWAP`, `BERKELEY`, `SWAPalpha`) or does not exist and the gate is
not named in the basis, `resolve_gates` returns an error — it never passes the gate through. -/
theorem resolve_refuses (keep : Bool) (b : BasisSpec) (gs : List Gate) (g : Gate) (hg : g ∈ gs)
    (b1 b2 : List GName) (inB : GName → Bool) (hs : splitBasis b = .ok (b1, b2, inB))
    (hxyz : g.name ≠ .X ∧ g.name ≠ .Y ∧ g.name ≠ .Z)
    (h1 : b2.contains g.name = false) (h2 : ¬ (g.name = .SWAP ∧ b2.contains .ISWAP = true))
    (h3 : tables.gateRule g.name = .notImplemented ∨ (tables.gateRule g.name = .missing ∧ inB g.name = false)) :
    ∃ e, resolve tables keep b gs = .error e := by
  have hp : (pauliSub g).2 = g := by
    unfold pauliSub; simp [hxyz.1, hxyz.2.1, hxyz.2.2]
  obtain ⟨e, he⟩ := resolveAll_refuses b2 inB gs g hg ⟨_, by rw [hp]; exact dispatch_refuses b2 inB g h1 h2 h3⟩
  exact ⟨e, by unfold resolve; rw [hs]; simp only [he]⟩

example : ∃ e, resolve tables true (.str .CNOT) [⟨.RX, [0], [], {}⟩, ⟨.SQRTISWAP, [0, 1], [], {}⟩] = .error e :=
  ⟨.cannotResolve, by decide⟩

/-! ## The Pauli-marker defect of the original code -/

/-- With the original assignment (`keepMarkers = false`) `[X 0]` resolved in basis "CNOT" is
`[RX(π)]`, whose unitary is −iX ≠ X: the property is violated by the unrepaired code. -/
theorem pauli_markers_lost_counterexample :
    resolve tables false (.str .CNOT) [⟨.X, [0], [], {}⟩] = .ok [⟨.RX, [0], [], .pi8 8⟩] ∧
    sameDenE 1 [⟨.X, [0], [], {}⟩] [⟨.RX, [0], [], .pi8 8⟩] = false := by
  constructor <;> decide +kernel

/-- With the repair the markers are kept and the unitary is exactly X (instance; the general
statement is `resolve_names` + the rule theorems). -/
theorem pauli_markers_kept :
    resolve tables true (.str .CNOT) [⟨.X, [0], [], {}⟩]
      = .ok [⟨.GLOBALPHASE, [], [], .pi8 4⟩, ⟨.RX, [0], [], .pi8 8⟩] ∧
    sameDenE 1 [⟨.X, [0], [], {}⟩] [⟨.GLOBALPHASE, [], [], .pi8 4⟩, ⟨.RX, [0], [], .pi8 8⟩] = true := by
  constructor <;> decide +kernel

end QipVerif.C03
