import QipVerif.Lemmas.QasmExportSem
import QipVerif.Lemmas.QasmMat
import QipVerif.Lemmas.QasmExportTop
import QipVerif.Lemmas.QasmRoundtrip
import QipVerif.Lemmas.QasmRoundtripDefs
import QipVerif.Lemmas.QasmExportPad
import QipVerif.Lemmas.QasmExportCv
/-!
# C10 — exported OpenQASM is valid OpenQASM 2.0 and denotes the same circuit

Property theorems only.  `Export.exportCircuit` is the model of the exporter
(`QasmOutput._qasm_output` … `_qasm_str`, tables regenerated from the source);
`parseLines` / `acceptProgram` / `flatten` are the strict recogniser and the static semantics
of OpenQASM 2.0 written from the language paper (`Model/QasmSpec.lean`).

The exporter prints each parameter with `_qasm_real` where the source has it (flag
`Gen.exportPadsExponent`, regenerated): `exportCircuit c = exportCore c.out`, `c.out` being the
circuit with every number replaced by the text that is printed (`c.out = c` on a tree without
`_qasm_real`, `Circuit.out_eq_self`).  The theorems are stated for both variants: the class is a
condition on the *printed* circuit (`GoodCircuit c.out`: every printed number is one numeric token
of the standard), the unitary is that of the *original* values (`denX … c.ops`; printing keeps
the value of every number, `litVal_padExp`).

The full statement of the property ("every circuit is refused or exported as valid text with
the same meaning") does not hold for the code: a measurement is exported without its `;`
(`export_measure_counterexample`, recorded finding), and — on a tree without `_qasm_real` — a
parameter that Python prints without a decimal point (`1e-20`) is not a `real` of the standard
(`export_exponent_counterexample`).  With `_qasm_real` the second restriction is gone:
`export_valid_pynum_partial` covers every finite `int` / `float` Python can print
(`export_exponent_repaired` is the former witness).  `export_valid_partial` states the property on
the class of circuits whose printed numbers are tokens, for both variants.
-/
namespace QipVerif.C10
open QipVerif.Qasm QipVerif.Qasm.Export Matrix

/-- **Validity and meaning of the exported text (partial: class `GoodCircuit`).**
For every circuit — any number of qubits, any length — whose operations are exportable gates
(table `exportShape`) with the right numbers of controls / targets / parameters on distinct
qubits of the register, every parameter printed as one numeric token of the standard and
passing the exporter's presence test (scalars, lists, tuples, arrays), the exporter returns
lines such that

* every line is a statement of the strict recogniser and the whole text is the program `P`;
* the header is present and the standard's static semantics accepts `P`
  (registers declared, indices in range, qubits distinct, every gate declared — by
  `qelib1.inc` or by an emitted definition — with the right arity);
* under that semantics `P` is exactly the sequence of calls
  `qasmName(params) controls++targets` of the circuit, on a register of `c.N` qubits. -/
theorem export_valid_partial (c : Circuit) (hc : GoodCircuit c.out) :
    ∃ lines P, exportCircuit c = .ok lines ∧ parseLines lines = some P ∧ headerOk P = true ∧
      flatten P = .ok (finalEnv c.out, c.out.ops.filterMap flatOfOp) ∧ (finalEnv c.out).qregs.total = c.N ∧
      acceptProgram lines = true := by
  obtain ⟨lines, h1, h2⟩ := export_parse c.out hc
  have h3 := flatten_programOf c.out hc
  have h4 := headerOk_programOf c.out
  refine ⟨lines, programOf c.out, h1, h2, h4, h3, rfl, ?_⟩
  simp [acceptProgram, h2, h4, h3]

/-- the class is not empty and contains the formerly defective inputs: `RX(0)`, a tuple-valued
`QASMU`, `SQRTNOT`, controlled rotations, negative and large parameters (texts that are printed
as they are, with or without `_qasm_real`) -/
example : GoodCircuit (Circuit.out ⟨3, 0, [
    .gate ⟨cs!"RX", some [0], none, .num ⟨false, cs!"0"⟩, none, none⟩,
    .gate ⟨cs!"QASMU", some [2], none, .seq cs!"tuple" cs!"(0.1, 0.2, 0.3)"
      [⟨false, cs!"0.1"⟩, ⟨true, cs!"0.0"⟩, ⟨false, cs!"1.5e+20"⟩], none, none⟩,
    .gate ⟨cs!"SQRTNOT", some [1], none, .none, some [], none⟩,
    .gate ⟨cs!"CRX", some [1], some [2], .num ⟨true, cs!"3.141592653589793"⟩, none, none⟩,
    .gate ⟨cs!"TOFFOLI", some [0], some [2, 1], .none, none, none⟩]⟩) := by
  rw [show Circuit.out _ = (⟨3, 0, [
    .gate ⟨cs!"RX", some [0], none, .num ⟨false, cs!"0"⟩, none, none⟩,
    .gate ⟨cs!"QASMU", some [2], none, .seq cs!"tuple" cs!"(0.1, 0.2, 0.3)"
      [⟨false, cs!"0.1"⟩, ⟨true, cs!"0.0"⟩, ⟨false, cs!"1.5e+20"⟩], none, none⟩,
    .gate ⟨cs!"SQRTNOT", some [1], none, .none, some [], none⟩,
    .gate ⟨cs!"CRX", some [1], some [2], .num ⟨true, cs!"3.141592653589793"⟩, none, none⟩,
    .gate ⟨cs!"TOFFOLI", some [0], some [2, 1], .none, none, none⟩]⟩ : Circuit) from by decide]
  intro op hop
  simp only [List.mem_cons, List.not_mem_nil, or_false] at hop
  rcases hop with rfl | rfl | rfl | rfl | rfl <;>
    exact ⟨_, rfl, ⟨by decide, by decide, by decide, by decide, by decide, by decide, by decide, by decide⟩⟩

/-- **Validity of the exported text for every number Python prints (source with `_qasm_real`;
partial: gates only).**  If `_qasm_str` prints its parameters with `_qasm_real`
(`Gen.exportPadsExponent`, read from the source), the hypothesis "every printed parameter is a
numeric token" of `export_valid_partial` is not needed: for every circuit of exportable gates with
well-formed controls / targets / parameters whose parameters are finite `int`s or `float`s —
`isPyOut` on the text Python gives, **before** `_qasm_real` pads it: `3`, `0.25`, `1.5e-07`, but also
`1e-20`, `5e-324`, `1e+20` — the exporter returns a text that the strict recogniser accepts line
by line, whose static semantics is the circuit's sequence of calls on a `c.N`-qubit register.
What keeps the suffix `_partial`: measurements stay outside the class
(`export_measure_counterexample`). -/
theorem export_valid_pynum_partial (hfix : Gen.exportPadsExponent = true) (c : Circuit) (hc : PyCircuit c) :
    ∃ lines P, exportCircuit c = .ok lines ∧ parseLines lines = some P ∧ headerOk P = true ∧
      flatten P = .ok (finalEnv c.out, c.out.ops.filterMap flatOfOp) ∧ (finalEnv c.out).qregs.total = c.N ∧
      acceptProgram lines = true :=
  export_valid_partial c (goodCircuit_out_of_py hfix hc)

/-- the class of `export_valid_pynum_partial` contains the parameters the old exporter printed as
invalid text: `1e-20`, `-5e-324`, `1e+20` inside a tuple -/
example : PyCircuit ⟨3, 0, [
    .gate ⟨cs!"RX", some [0], none, .num ⟨false, cs!"1e-20"⟩, none, none⟩,
    .gate ⟨cs!"QASMU", some [2], none, .seq cs!"tuple" cs!"(1e+20, -0.0, 1.5e-07)"
      [⟨false, cs!"1e+20"⟩, ⟨true, cs!"0.0"⟩, ⟨false, cs!"1.5e-07"⟩], none, none⟩,
    .gate ⟨cs!"CRY", some [1], some [2], .num ⟨true, cs!"5e-324"⟩, none, none⟩,
    .gate ⟨cs!"RZ", some [1], none, .num ⟨false, cs!"3"⟩, none, none⟩]⟩ := by
  intro op hop
  simp only [List.mem_cons, List.not_mem_nil, or_false] at hop
  rcases hop with rfl | rfl | rfl | rfl <;>
    exact ⟨_, rfl, ⟨by decide, by decide, by decide, by decide, by decide, by decide, by decide, by decide⟩⟩

/-- … and the unitary of that text is the circuit's (`export_den` under the same hypotheses) -/
theorem export_den_pynum_partial (hfix : Gen.exportPadsExponent = true) (c : Circuit) (hc : PyCircuit c) :
    ∃ lines P ops A B, exportCircuit c = .ok lines ∧ parseLines lines = some P ∧
      denote P = .ok (c.N, (cregsOf c.numCbits).total, ops) ∧
      denOps c.N ops = some A ∧ denX c.N (c.ops.filterMap xOfOp) = some B ∧ PhaseEqN A B := by
  obtain ⟨lines, P, ops, A, B, h1, h2, h3, h4, h5, h6⟩ := export_den_ops c.out (goodCircuit_out_of_py hfix hc)
  exact ⟨lines, P, ops, A, B, h1, h2, h3, h4, by rw [← filterMap_xOfOp_out]; exact h5, h6⟩

/-- **Refusal.** A circuit containing a gate that has neither a QASM name nor an emitted
definition is not exported: the exporter raises. -/
theorem export_refuses (c : Circuit) (g : Export.Gate) (hg : Op.gate g ∈ c.ops)
    (hb : lookup Gen.gateNameToQasm g.name = none) (hd : lookup Gen.qasmDefns g.name = none) :
    ∃ e, exportCircuit c = .error e := by
  obtain ⟨e, he⟩ := defsLoop_refuses c.out.ops Gen.gateNameToQasm (fun k hk => Or.inl hk) g.out
    (List.mem_map.mpr ⟨_, hg, rfl⟩) hb hd
  exact ⟨e, by simp [exportCircuit, exportCore, he]⟩

example : ∃ e, exportCircuit ⟨2, 0, [.gate ⟨cs!"X", some [0], none, .none, none, none⟩,
    .gate ⟨cs!"ISWAP", some [0, 1], none, .none, none, none⟩]⟩ = .error e :=
  export_refuses _ ⟨cs!"ISWAP", some [0, 1], none, .none, none, none⟩ (by simp) (by decide) (by decide)

/-- A classically controlled gate is refused as well. -/
theorem export_refuses_classical :
    exportCircuit ⟨1, 1, [.gate ⟨cs!"X", some [0], none, .none, some [0], none⟩]⟩ = .error .notImpl := by decide

/-! ### The auxiliary gate definitions the exporter emits -/

/-- **Definitions are sound.** The exporter emits a definition for exactly six library gates
(`_qasm_defns`, table regenerated from the source).  Each definition line is parsed by the strict
recogniser, expanded by the standard down to `U`/`CX` over `qelib1.inc`, and the resulting
matrix equals the documented matrix of the library gate up to ONE global phase — for every
value of the parameter (2×2 / 4×4 identities over ℂ; control = first qubit). -/
theorem definitions_sound :
    Gen.qasmDefns.map (·.1) = [cs!"CRY", cs!"CRX", cs!"SQRTNOT", cs!"CS", cs!"CT", cs!"SWAP"] ∧
    (∀ θ : ℝ, ∃ d ps, exportDef cs!"CRY" = some d ∧ expandDef (d :: qelib1.reverse) d.name = .ok ps ∧
      PhaseEq (den2 (envOf [(cs!"theta", θ)]) ps) (ctrl (RYm θ))) ∧
    (∀ θ : ℝ, ∃ d ps, exportDef cs!"CRX" = some d ∧ expandDef (d :: qelib1.reverse) d.name = .ok ps ∧
      PhaseEq (den2 (envOf [(cs!"theta", θ)]) ps) (ctrl (RXm θ))) ∧
    (∃ d ps, exportDef cs!"SQRTNOT" = some d ∧ expandDef (d :: qelib1.reverse) d.name = .ok ps ∧
      PhaseEq (den1 (envOf []) ps) SQRTNOTm) ∧
    (∃ d ps, exportDef cs!"CS" = some d ∧ expandDef (d :: qelib1.reverse) d.name = .ok ps ∧
      PhaseEq (den2 (envOf []) ps) (ctrl Sm)) ∧
    (∃ d ps, exportDef cs!"CT" = some d ∧ expandDef (d :: qelib1.reverse) d.name = .ok ps ∧
      PhaseEq (den2 (envOf []) ps) (ctrl Tm)) ∧
    (∃ d ps, exportDef cs!"SWAP" = some d ∧ expandDef (d :: qelib1.reverse) d.name = .ok ps ∧
      PhaseEq (den2 (envOf []) ps) SWAPm) :=
  ⟨by decide, defn_sound_CRY, defn_sound_CRX, defn_sound_SQRTNOT, defn_sound_CS, defn_sound_CT, defn_sound_SWAP⟩

/-- the definition used by `definitions_sound` is the one the static semantics puts into the
environment in `export_valid_partial` -/
theorem exportDef_eq_defOf : exportDef = defOf := rfl

/-- The gates without a definition are exported under their `qelib1.inc` names
(`_GATE_NAME_TO_QASM_NAME`); their meaning under the standard is C04's `shortcut_sound`. -/
theorem base_names_are_qelib1 :
    ∀ e ∈ Gen.gateNameToQasm, e.2 = cs!"U" ∨ (qelib1.find? (fun d => d.name == e.2)).isSome = true := by
  decide

/-! ### The exported program has the circuit's unitary -/

/-- **Unitary of the exported program (class `GoodCircuit`, every register size, every length).**
The text the exporter emits is parsed by the strict recogniser to a program `P`; the standard's
denotation `denote P` — static semantics, then expansion of every call down to the built-ins
`U(θ,φ,λ) = Rz(φ)Ry(θ)Rz(λ)` and `CX` over `qelib1.inc` and the emitted definitions — is a list of
unconditioned built-ins on a `c.N`-qubit register whose product `A` (central embedding algebra,
`Tg.embed`) equals the circuit's unitary `B = denX c.N (gates of c)` up to ONE global phase
(the product of the phases of the individual gates).  `denX` is the complex denotation of the
circuit IR (`denG`, Lemmas/Sem.lean) extended by `QASMU` (generated matrix `Gen.G.qasmu_gate_`);
see `export_den_G` for circuits without `QASMU`.  Proof: naturality of the standard's expansion
in qubits and parameters + localisation (`denP_relabel`) + the per-definition identities
(`definitions_sound`, C04 `shortcut_sound`) transported to the embedding algebra. -/
theorem export_den (c : Circuit) (hc : GoodCircuit c.out) :
    ∃ lines P ops A B, exportCircuit c = .ok lines ∧ parseLines lines = some P ∧
      denote P = .ok (c.N, (cregsOf c.numCbits).total, ops) ∧
      denOps c.N ops = some A ∧ denX c.N (c.ops.filterMap xOfOp) = some B ∧ PhaseEqN A B := by
  obtain ⟨lines, P, ops, A, B, h1, h2, h3, h4, h5, h6⟩ := export_den_ops c.out hc
  exact ⟨lines, P, ops, A, B, h1, h2, h3, h4, by rw [← filterMap_xOfOp_out]; exact h5, h6⟩

/-- **… in terms of the circuit IR.**  For a circuit of the class without `QASMU`, let `irList c.ops 0`
be its gates in the circuit IR (`QipVerif.Gate`: same names, controls, targets; the parameter of the
gate at position `i` is the symbol `i`) and `ρ` any valuation giving each symbol the value of that
parameter.  Then the unitary of the exported program equals `denG c.N ρ (irList c.ops 0)` — the
specification object of C01/C03/C07/C13 — up to one global phase. -/
theorem export_den_G (c : Circuit) (hc : GoodCircuit c.out)
    (hq : ∀ g, Op.gate g ∈ c.ops → g.name ≠ cs!"QASMU")
    (ρ : ℕ → ℝ) (hρ : ∀ i, i < c.ops.length → ρ i = paramAt c.ops i) :
    ∃ lines P ops A B, exportCircuit c = .ok lines ∧ parseLines lines = some P ∧
      denote P = .ok (c.N, (cregsOf c.numCbits).total, ops) ∧
      denOps c.N ops = some A ∧ denG c.N ρ (irList c.ops 0) = some B ∧ PhaseEqN A B := by
  obtain ⟨lines, P, ops, A, B, h1, h2, h3, h4, h5, h6⟩ := export_den_ops c.out hc
  have key : denX c.N (c.out.ops.filterMap xOfOp) = denG c.N ρ (irList c.out.ops 0) :=
    denX_irList c.N ρ c.out.ops 0 (fun op hop => by
      obtain ⟨g, rfl, hg⟩ := hc op hop
      obtain ⟨g', hg', rfl⟩ := mem_out hop
      exact ⟨g'.out, rfl, hg, hq g' hg'⟩) (fun i hi => by
      have hi' : i < c.ops.length := by simpa [Circuit.out] using hi
      have := hρ i hi'
      rw [← paramAt_out] at this
      rw [Nat.zero_add]
      exact this)
  have e : irList c.out.ops 0 = irList c.ops 0 := irList_out c.ops 0
  refine ⟨lines, P, ops, A, B, h1, h2, h3, h4, ?_, h6⟩
  rw [← e, ← key]
  exact h5

/-- **Export, then import: the same unitary (partial: circuits without emitted definitions).**
For every circuit of the exportable class on at least one qubit whose gate names all belong to the
exporter's base table (`QASMU RX RY RZ SNOT X Y Z S T CRZ CNOT TOFFOLI` — the exporter then emits no
`gate` definition, `addedNames … = []`): the exported text parses to a program `P`, the importer
model of C04 (`Import.importProgram`, tied to `read_qasm` by C04's correspondence) accepts `P`
with the same register sizes, and the gate list it returns has — under `denX`, which is `denG` on IR
gates — the unitary of the original circuit up to ONE global phase, on every register size.
Circuits that need an emitted definition (`SWAP SQRTNOT CS CT CRX CRY`) are re-imported as user gates:
see `roundtrip_den`. -/
theorem roundtrip_den_partial (c : Circuit) (hc : GoodCircuit c.out) (hN : 0 < c.N)
    (hb : addedNames c.ops Gen.gateNameToQasm = []) :
    ∃ lines P iops A B, exportCircuit c = .ok lines ∧ parseLines lines = some P ∧
      Import.importProgram P = .ok (c.N, (cregsOf c.numCbits).total, iops) ∧
      denX c.N (c.ops.filterMap xOfOp) = some A ∧ denX c.N (iops.filterMap Import.xOfIOp) = some B ∧
      PhaseEqN B A := by
  obtain ⟨lines, P, iops, A, B, h1, h2, h3, h4, h5, h6⟩ :=
    roundtrip_den_base c.out hc hN (by simpa [Circuit.out, addedNames_out] using hb)
  exact ⟨lines, P, iops, A, B, h1, h2, h3, by rw [← filterMap_xOfOp_out]; exact h4, h5, h6⟩

/-- the hypotheses of `roundtrip_den_partial` are satisfiable -/
example : ∃ c : Circuit, GoodCircuit c.out ∧ 0 < c.N ∧ addedNames c.ops Gen.gateNameToQasm = [] :=
  ⟨⟨3, 0, [
    .gate ⟨cs!"RX", some [0], none, .num ⟨false, cs!"0.25"⟩, none, none⟩,
    .gate ⟨cs!"QASMU", some [2], none, .seq cs!"tuple" cs!"(0.1, 0.2, 0.3)"
      [⟨false, cs!"0.1"⟩, ⟨true, cs!"0.0"⟩, ⟨false, cs!"1.5e+20"⟩], none, none⟩,
    .gate ⟨cs!"CRZ", some [1], some [2], .num ⟨true, cs!"3.141592653589793"⟩, none, none⟩,
    .gate ⟨cs!"TOFFOLI", some [0], some [2, 1], .none, none, none⟩]⟩, by
    rw [show Circuit.out _ = (⟨3, 0, [
      .gate ⟨cs!"RX", some [0], none, .num ⟨false, cs!"0.25"⟩, none, none⟩,
      .gate ⟨cs!"QASMU", some [2], none, .seq cs!"tuple" cs!"(0.1, 0.2, 0.3)"
        [⟨false, cs!"0.1"⟩, ⟨true, cs!"0.0"⟩, ⟨false, cs!"1.5e+20"⟩], none, none⟩,
      .gate ⟨cs!"CRZ", some [1], some [2], .num ⟨true, cs!"3.141592653589793"⟩, none, none⟩,
      .gate ⟨cs!"TOFFOLI", some [0], some [2, 1], .none, none, none⟩]⟩ : Circuit) from by decide]
    intro op hop
    simp only [List.mem_cons, List.not_mem_nil, or_false] at hop
    rcases hop with rfl | rfl | rfl | rfl <;>
      exact ⟨_, rfl, ⟨by decide, by decide, by decide, by decide, by decide, by decide, by decide, by decide⟩⟩,
    by decide, by decide⟩

/-- **Export, then import: the same unitary — every circuit of the class, emitted definitions included.**
For every circuit of the exportable class (any register size, any length; `SWAP`, `SQRTNOT`, `CS`, `CT`, `CRX`,
`CRY` included — for them the exporter emits `gate` definitions and the importer builds user gates `swap`,
`crx(θ)`, … from these definitions): the exported text parses to a program `P` of C04's class W₁; the
importer model accepts `P` with the same register sizes; and the operation list it returns — library gates
and user gates — has, under `Import.denIOps` (`denX` for library gates; for a user gate the `denX` of the
temporary circuit `_custom_gate` builds, placed on the gate's targets), the unitary of the original circuit up
to ONE global phase.  Proof: `export_den` ∘ C04 `import_den_w1_partial` (`programOf_W1`: the exported program
is in W₁ — the emitted definitions are accepted by the standard, and the importer's cache keys `crx(<text>)`
determine the parameter because rendering numeric tokens is injective).  `hN`: at least one qubit (or a tree
that accepts empty registers). -/
theorem roundtrip_den (c : Circuit) (hc : GoodCircuit c.out) (hN : Gen.emptyRegOk = true ∨ 0 < c.N) :
    ∃ lines P iops A B, exportCircuit c = .ok lines ∧ parseLines lines = some P ∧
      Import.importProgram P = .ok (c.N, (cregsOf c.numCbits).total, iops) ∧
      denX c.N (c.ops.filterMap xOfOp) = some A ∧ Import.denIOps c.N iops = some B ∧ PhaseEqN B A := by
  obtain ⟨lines, P, iops, A, B, h1, h2, h3, h4, h5, h6⟩ := roundtrip_den_defs c.out hc hN
  exact ⟨lines, P, iops, A, B, h1, h2, h3, by rw [← filterMap_xOfOp_out]; exact h4, h5, h6⟩

/-- the hypotheses of `roundtrip_den` are satisfiable: every gate with an emitted definition, a negative and an
exponent-form parameter, a gate used twice -/
example : ∃ c : Circuit, GoodCircuit c ∧ 0 < c.N ∧
    addedNames c.ops Gen.gateNameToQasm = [cs!"SWAP", cs!"CRX", cs!"SQRTNOT", cs!"CS", cs!"CT", cs!"CRY"] :=
  ⟨⟨3, 0, [
    .gate ⟨cs!"SWAP", some [0, 2], none, .none, none, none⟩,
    .gate ⟨cs!"CRX", some [1], some [2], .num ⟨true, cs!"0.25"⟩, none, none⟩,
    .gate ⟨cs!"SQRTNOT", some [1], none, .none, none, none⟩,
    .gate ⟨cs!"CS", some [0], some [1], .none, none, none⟩,
    .gate ⟨cs!"CT", some [2], some [0], .none, none, none⟩,
    .gate ⟨cs!"CRY", some [0], some [1], .num ⟨false, cs!"1.5e+20"⟩, none, none⟩,
    .gate ⟨cs!"CRX", some [1], some [2], .num ⟨true, cs!"0.25"⟩, none, none⟩,
    .gate ⟨cs!"CNOT", some [0], some [2], .none, none, none⟩]⟩, by
    intro op hop
    simp only [List.mem_cons, List.not_mem_nil, or_false] at hop
    rcases hop with rfl | rfl | rfl | rfl | rfl | rfl | rfl | rfl <;>
      exact ⟨_, rfl, ⟨by decide, by decide, by decide, by decide, by decide, by decide, by decide, by decide⟩⟩,
    by decide, by decide⟩

/-! ### Counter-examples to the unrestricted statement (recorded findings) -/

/-- `CSIGN` on a tree whose `_GATE_NAME_TO_QASM_NAME` has no entry for it: the definition resolver calls
`QubitCircuit._gate_CSIGN`, which does not exist — the export CRASHES (AttributeError); it neither exports the gate
nor refuses it.  (On a tree with fix C10-4 the hypothesis is false; see `export_csign_repaired`.) -/
theorem export_csign_counterexample : lookup Gen.gateNameToQasm cs!"CSIGN" = none →
    exportCircuit ⟨2, 0, [.gate ⟨cs!"CSIGN", some [0], some [1], .none, none, none⟩]⟩ = .error .attr := by
  first
    | exact fun h => absurd h (by decide)
    | exact fun _ => rfl

/-- `CSIGN` and `CZ` on a tree with fix C10-4 (`"CSIGN": "cz"`, `"CZ": "cz"`): both are written as the `qelib1.inc`
gate `cz control,target`, and the text is accepted by the strict recogniser. -/
theorem export_csign_repaired : lookup Gen.gateNameToQasm cs!"CSIGN" = some cs!"cz" →
    lookup Gen.gateNameToQasm cs!"CZ" = some cs!"cz" →
    ∃ lines, exportCircuit ⟨2, 0, [.gate ⟨cs!"CSIGN", some [0], some [1], .none, none, none⟩,
        .gate ⟨cs!"CZ", some [1], some [0], .none, none, none⟩]⟩ = .ok lines ∧
      cs!"cz q[1],q[0];" ∈ lines ∧ cs!"cz q[0],q[1];" ∈ lines ∧ acceptProgram lines = true := by
  first
    | exact fun h => absurd h (by decide)
    | exact fun _ _ => ⟨_, rfl, by decide, by decide, by decide⟩

/-- on such a tree `CSIGN` and `CZ` belong to the class of `export_valid_partial`, `export_den`, `roundtrip_den`
(`exportShape` = the base rows + the rows the regenerated name table writes as `cz`): the exported `cz` call has the
circuit's unitary, and the importer reads it back as the library gate `CZ` -/
example : lookup Gen.gateNameToQasm cs!"CSIGN" = some cs!"cz" → lookup Gen.gateNameToQasm cs!"CZ" = some cs!"cz" →
    GoodCircuit ⟨2, 0, [.gate ⟨cs!"CSIGN", some [0], some [1], .none, none, none⟩,
      .gate ⟨cs!"CZ", some [1], some [0], .none, none, none⟩]⟩ := by
  first
    | exact fun h => absurd h (by decide)
    | (intro _ _ op hop
       simp only [List.mem_cons, List.not_mem_nil, or_false] at hop
       rcases hop with rfl | rfl <;>
         exact ⟨_, rfl, ⟨by decide, by decide, by decide, by decide, by decide, by decide, by decide, by decide⟩⟩)

/-! ### What the exporter reads of a gate object: not its `control_value` (finding C10-7)

The model's `Export.Gate` has the six fields `Gate._to_qasm` / `_qasm_str` read: `name`, `targets`, `controls`,
`arg_value`, `classical_controls` and `control_value`.  The class of the object and its `target_gate` are never read:
the QASM gate is chosen by the name alone. -/

/-- **`control_value` is read only to refuse.**  If every gate has no `control_value` or "all control qubits 1" — or on
a tree whose `Gate._to_qasm` has no such test at all — the export is the export of the circuit with every
`control_value` removed. -/
theorem export_ignores_control_value (c : Circuit)
    (h : (∀ g, Op.gate g ∈ c.ops → cvOk g = true) ∨ Gen.exportChecksCv = false) :
    exportCircuit c.dropCv = exportCircuit c := by
  have h' : (∀ g, Op.gate g ∈ c.out.ops → cvOk g = true) ∨ Gen.exportChecksCv = false := by
    rcases h with h | h
    · refine Or.inl fun g hg => ?_
      obtain ⟨op, hop, he⟩ := List.mem_map.mp hg
      cases op with
      | meas ts st => cases he
      | gate g0 =>
        simp only [Op.out, Op.gate.injEq] at he
        subst he
        exact h g0 hop
    · exact Or.inr h
  unfold exportCircuit
  rw [dropCv_out_circuit, exportCore_dropCv _ h']

example : exportCircuit (Circuit.dropCv ⟨2, 0, [.gate ⟨cs!"CRZ", some [1], some [0], .num ⟨false, cs!"0.7"⟩, none, some 1⟩]⟩) =
    exportCircuit ⟨2, 0, [.gate ⟨cs!"CRZ", some [1], some [0], .num ⟨false, cs!"0.7"⟩, none, some 1⟩]⟩ :=
  export_ignores_control_value _ (Or.inl (by
    intro g hg
    simp only [List.mem_cons, Op.gate.injEq, List.not_mem_nil, or_false] at hg
    subst hg
    decide))

/-- **Refusal of another control value** (tree with fix C10-7): a circuit containing a gate whose `control_value` is
not "all control qubits 1" is not exported. -/
theorem export_refuses_control_value (hfix : Gen.exportChecksCv = true) (c : Circuit) (g : Export.Gate)
    (hg : Op.gate g ∈ c.ops) (hcv : cvOk g = false) : ∃ e, exportCircuit c = .error e := by
  have hg' : Op.gate g.out ∈ c.out.ops := List.mem_map.mpr ⟨_, hg, rfl⟩
  simp only [exportCircuit, exportCore]
  cases defsLoop c.out.ops Gen.gateNameToQasm with
  | error e => exact ⟨e, rfl⟩
  | ok r =>
    obtain ⟨m, defs⟩ := r
    obtain ⟨e, he⟩ := opsLoop_refuses_cv hfix c.out.ops m g.out hg' (by rw [cvOk_out]; exact hcv)
    exact ⟨e, by simp [he]⟩

/-- On a tree without that test, a gate NAMED `CRZ` that acts when its control qubit is 0 (an object the library gives
the matrix |0><0| ⊗ RZ + |1><1| ⊗ 1: `ControlledGate(controls=[0], targets=[1], control_value=0, target_gate=RZ,
arg_value=0.7, name="CRZ")`) is exported as `crz(0.7) q[0],q[1];` — the text of the gate controlled on 1. -/
theorem export_control_value_counterexample : Gen.exportChecksCv = false →
    ∃ lines, exportCircuit ⟨2, 0, [.gate ⟨cs!"CRZ", some [1], some [0], .num ⟨false, cs!"0.7"⟩, none, some 0⟩]⟩ = .ok lines ∧
      exportCircuit ⟨2, 0, [.gate ⟨cs!"CRZ", some [1], some [0], .num ⟨false, cs!"0.7"⟩, none, some 1⟩]⟩ = .ok lines ∧
      cs!"crz(0.7) q[0],q[1];" ∈ lines := by
  first
    | exact fun h => absurd h (by decide)
    | exact fun _ => ⟨_, rfl, by decide, by decide⟩

/-- On a tree with the test the same object is refused (also `TOFFOLI` with `control_value=1` on two controls and a
gate without controls that carries a `control_value`); `control_value=1` on one control is exported as before. -/
theorem export_control_value_repaired : Gen.exportChecksCv = true →
    exportCircuit ⟨2, 0, [.gate ⟨cs!"CRZ", some [1], some [0], .num ⟨false, cs!"0.7"⟩, none, some 0⟩]⟩ = .error .notImpl ∧
    exportCircuit ⟨3, 0, [.gate ⟨cs!"TOFFOLI", some [2], some [0, 1], .none, none, some 1⟩]⟩ = .error .notImpl ∧
    exportCircuit ⟨1, 0, [.gate ⟨cs!"X", some [0], none, .none, none, some 0⟩]⟩ = .error .notImpl ∧
    (∃ lines, exportCircuit ⟨2, 0, [.gate ⟨cs!"CRZ", some [1], some [0], .num ⟨false, cs!"0.7"⟩, none, some 1⟩]⟩ = .ok lines ∧
      cs!"crz(0.7) q[0],q[1];" ∈ lines) ∧
    (∃ lines, exportCircuit ⟨3, 0, [.gate ⟨cs!"TOFFOLI", some [2], some [0, 1], .none, none, some 3⟩]⟩ = .ok lines ∧
      cs!"ccx q[0],q[1],q[2];" ∈ lines) := by
  first
    | exact fun h => absurd h (by decide)
    | exact fun _ => ⟨by decide, by decide, by decide, ⟨_, rfl, by decide⟩, ⟨_, rfl, by decide⟩⟩

/-- what `cz` means: the standard's expansion of `qelib1.inc`'s `cz` is the controlled-Z matrix up to one phase
(control = first qubit) — the documented matrix of the library gates `CZ` / `CSIGN` (`compactC .CZ`) -/
theorem export_cz_meaning :
    (∃ ps, expandDef qelib1.reverse cs!"cz" = .ok ps ∧ PhaseEq (den2 (envOf []) ps) (ctrl Zm)) ∧
    ∀ θ : ℝ, compactC .CZ θ = some ⟨2, m2 (ctrl Zm)⟩ :=
  ⟨shortcut_cz, compactC_CZ⟩

/-- exactly one of the two CSIGN statements has a true hypothesis on a recognised tree -/
example : lookup Gen.gateNameToQasm cs!"CSIGN" = none ∨ lookup Gen.gateNameToQasm cs!"CSIGN" = some cs!"cz" := by
  decide

/-- A measurement is exported as `measure q[0] -> c[0]` — without the terminating `;`:
the text is emitted (no refusal) and is not valid OpenQASM 2.0. -/
theorem export_measure_counterexample :
    ∃ lines, exportCircuit ⟨1, 1, [.meas [0] (some 0)]⟩ = .ok lines ∧
      cs!"measure q[0] -> c[0]" ∈ lines ∧ parseLine cs!"measure q[0] -> c[0]" = none ∧
      acceptProgram lines = false := by
  refine ⟨_, rfl, by decide, by decide, by decide⟩

/-- `RX(1e-20)` on a tree **without** `_qasm_real`: Python prints the parameter as `1e-20`, which
is not a `real` of the standard's grammar (a decimal point is mandatory); the text is emitted and
rejected.  (On a tree with `_qasm_real` the hypothesis is false and the statement is empty; see
`export_exponent_repaired`.) -/
theorem export_exponent_counterexample : Gen.exportPadsExponent = false →
    ∃ lines, exportCircuit ⟨1, 0, [.gate ⟨cs!"RX", some [0], none, .num ⟨false, cs!"1e-20"⟩, none, none⟩]⟩ = .ok lines ∧
      cs!"rx(1e-20) q[0];" ∈ lines ∧ isNumToken cs!"1e-20" = false ∧ acceptProgram lines = false := by
  intro h
  rw [exportCircuit, Circuit.out_eq_self h]
  exact ⟨_, rfl, by decide, by decide, by decide⟩

/-- `RX(1e-20)` on a tree **with** `_qasm_real`: the parameter is written `1.0e-20`, a `real` of the
standard, and the whole text is accepted.  (On a tree without `_qasm_real` the hypothesis is false;
see `export_exponent_counterexample`.) -/
theorem export_exponent_repaired : Gen.exportPadsExponent = true →
    ∃ lines, exportCircuit ⟨1, 0, [.gate ⟨cs!"RX", some [0], none, .num ⟨false, cs!"1e-20"⟩, none, none⟩]⟩ = .ok lines ∧
      cs!"rx(1.0e-20) q[0];" ∈ lines ∧ isNumToken cs!"1.0e-20" = true ∧ acceptProgram lines = true := by
  intro h
  have e : Circuit.out ⟨1, 0, [.gate ⟨cs!"RX", some [0], none, .num ⟨false, cs!"1e-20"⟩, none, none⟩]⟩ =
      ⟨1, 0, [.gate ⟨cs!"RX", some [0], none, .num ⟨false, padExp cs!"1e-20"⟩, none, none⟩]⟩ := by
    simp [Circuit.out, Op.out, Gate.out, ArgVal.out, Num.out, h]
  rw [exportCircuit, e]
  exact ⟨_, rfl, by decide, by decide, by decide⟩

/-- exactly one of the two statements above has a true hypothesis -/
example : Gen.exportPadsExponent = false ∨ Gen.exportPadsExponent = true := by decide

/-- `_qasm_real` on texts: what is padded and what is not (independent of the tree) -/
example : padExp cs!"1e-20" = cs!"1.0e-20" ∧ padExp cs!"5e-324" = cs!"5.0e-324" ∧
    padExp cs!"1e+20" = cs!"1.0e+20" ∧ padExp cs!"1.5e-07" = cs!"1.5e-07" ∧ padExp cs!"0.25" = cs!"0.25" ∧
    padExp cs!"3" = cs!"3" ∧ padExp cs!"inf" = cs!"inf" ∧ padExp cs!"(1e-20, 2)" = cs!"(1e-20, 2)" := by
  decide

end QipVerif.C10
