import QipVerif.Lemmas.QasmExportSem
import QipVerif.Lemmas.QasmMat
import QipVerif.Lemmas.QasmExportTop
import QipVerif.Lemmas.QasmRoundtrip
/-!
# C10 — exported OpenQASM is valid OpenQASM 2.0 and denotes the same circuit

Property theorems only.  `Export.exportCircuit` is the model of the exporter
(`QasmOutput._qasm_output` … `_qasm_str`, tables regenerated from the source);
`parseLines` / `acceptProgram` / `flatten` are the strict recogniser and the static semantics
of OpenQASM 2.0 written from the language paper (`Model/QasmSpec.lean`).

The full statement of the property ("every circuit is refused or exported as valid text with
the same meaning") does not hold for the code: a measurement is exported without its `;`
(`export_measure_counterexample`) and a parameter that Python prints without a decimal point
(`1e-20`) is not a `real` of the standard (`export_exponent_counterexample`).  Both are
recorded findings; `export_valid_partial` states the property on the remaining class.
-/
namespace QipVerif.C10
open QipVerif.Qasm QipVerif.Qasm.Export Matrix

/-- **Validity and meaning of the exported text (partial: class `GoodCircuit`).**
For every circuit — any number of qubits, any length — whose operations are exportable gates
(table `exportShape`) with the right numbers of controls / targets / parameters on distinct
qubits of the register, every parameter printed as one numeric token of the standard and
passing the exporter's presence test (scalars, lists, tuples, arrays), the exporter returns
lines such that

* every line is a statement of the strict recogniser and the whole text is the program `P`;
* the header is present and the standard's static semantics accepts `P`
  (registers declared, indices in range, qubits distinct, every gate declared — by
  `qelib1.inc` or by an emitted definition — with the right arity);
* under that semantics `P` is exactly the sequence of calls
  `qasmName(params) controls++targets` of the circuit, on a register of `c.N` qubits. -/
theorem export_valid_partial (c : Circuit) (hc : GoodCircuit c) :
    ∃ lines P, exportCircuit c = .ok lines ∧ parseLines lines = some P ∧ headerOk P = true ∧
      flatten P = .ok (finalEnv c, c.ops.filterMap flatOfOp) ∧ (finalEnv c).qregs.total = c.N ∧
      acceptProgram lines = true := by
  obtain ⟨lines, h1, h2⟩ := export_parse c hc
  have h3 := flatten_programOf c hc
  have h4 := headerOk_programOf c
  refine ⟨lines, programOf c, h1, h2, h4, h3, rfl, ?_⟩
  simp [acceptProgram, h2, h4, h3]

/-- the class is not empty and contains the formerly defective inputs: `RX(0)`, a tuple-valued
`QASMU`, `SQRTNOT`, controlled rotations, negative and large parameters -/
example : GoodCircuit ⟨3, 0, [
    .gate ⟨cs!"RX", some [0], none, .num ⟨false, cs!"0"⟩, none⟩,
    .gate ⟨cs!"QASMU", some [2], none, .seq cs!"tuple" cs!"(0.1, 0.2, 0.3)"
      [⟨false, cs!"0.1"⟩, ⟨true, cs!"0.0"⟩, ⟨false, cs!"1.5e+20"⟩], none⟩,
    .gate ⟨cs!"SQRTNOT", some [1], none, .none, some []⟩,
    .gate ⟨cs!"CRX", some [1], some [2], .num ⟨true, cs!"3.141592653589793"⟩, none⟩,
    .gate ⟨cs!"TOFFOLI", some [0], some [2, 1], .none, none⟩]⟩ := by
  intro op hop
  simp only [List.mem_cons, List.not_mem_nil, or_false] at hop
  rcases hop with rfl | rfl | rfl | rfl | rfl <;>
    exact ⟨_, rfl, ⟨by decide, by decide, by decide, by decide, by decide, by decide, by decide⟩⟩

/-- **Refusal.** A circuit containing a gate that has neither a QASM name nor an emitted
definition is not exported: the exporter raises. -/
theorem export_refuses (c : Circuit) (g : Export.Gate) (hg : Op.gate g ∈ c.ops)
    (hb : lookup Gen.gateNameToQasm g.name = none) (hd : lookup Gen.qasmDefns g.name = none) :
    ∃ e, exportCircuit c = .error e := by
  obtain ⟨e, he⟩ := defsLoop_refuses c.ops Gen.gateNameToQasm (fun k hk => Or.inl hk) g hg hb hd
  exact ⟨e, by simp [exportCircuit, he]⟩

example : ∃ e, exportCircuit ⟨2, 0, [.gate ⟨cs!"X", some [0], none, .none, none⟩,
    .gate ⟨cs!"ISWAP", some [0, 1], none, .none, none⟩]⟩ = .error e :=
  export_refuses _ ⟨cs!"ISWAP", some [0, 1], none, .none, none⟩ (by simp) (by decide) (by decide)

/-- A classically controlled gate is refused as well. -/
theorem export_refuses_classical :
    exportCircuit ⟨1, 1, [.gate ⟨cs!"X", some [0], none, .none, some [0]⟩]⟩ = .error .notImpl := rfl

/-! ### The auxiliary gate definitions the exporter emits -/

/-- **Definitions are sound.** The exporter emits a definition for exactly six library gates
(`_qasm_defns`, table regenerated from the source).  Each definition line is parsed by the strict
recogniser, expanded by the standard down to `U`/`CX` over `qelib1.inc`, and the resulting
matrix equals the documented matrix of the library gate up to ONE global phase — for every
value of the parameter (2×2 / 4×4 identities over ℂ; control = first qubit). -/
theorem definitions_sound :
    Gen.qasmDefns.map (·.1) = [cs!"CRY", cs!"CRX", cs!"SQRTNOT", cs!"CS", cs!"CT", cs!"SWAP"] ∧
    (∀ θ : ℝ, ∃ d ps, exportDef cs!"CRY" = some d ∧ expandDef (d :: qelib1.reverse) d.name = .ok ps ∧
      PhaseEq (den2 (envOf [(cs!"theta", θ)]) ps) (ctrl (RYm θ))) ∧
    (∀ θ : ℝ, ∃ d ps, exportDef cs!"CRX" = some d ∧ expandDef (d :: qelib1.reverse) d.name = .ok ps ∧
      PhaseEq (den2 (envOf [(cs!"theta", θ)]) ps) (ctrl (RXm θ))) ∧
    (∃ d ps, exportDef cs!"SQRTNOT" = some d ∧ expandDef (d :: qelib1.reverse) d.name = .ok ps ∧
      PhaseEq (den1 (envOf []) ps) SQRTNOTm) ∧
    (∃ d ps, exportDef cs!"CS" = some d ∧ expandDef (d :: qelib1.reverse) d.name = .ok ps ∧
      PhaseEq (den2 (envOf []) ps) (ctrl Sm)) ∧
    (∃ d ps, exportDef cs!"CT" = some d ∧ expandDef (d :: qelib1.reverse) d.name = .ok ps ∧
      PhaseEq (den2 (envOf []) ps) (ctrl Tm)) ∧
    (∃ d ps, exportDef cs!"SWAP" = some d ∧ expandDef (d :: qelib1.reverse) d.name = .ok ps ∧
      PhaseEq (den2 (envOf []) ps) SWAPm) :=
  ⟨by decide, defn_sound_CRY, defn_sound_CRX, defn_sound_SQRTNOT, defn_sound_CS, defn_sound_CT, defn_sound_SWAP⟩

/-- the definition used by `definitions_sound` is the one the static semantics puts into the
environment in `export_valid_partial` -/
theorem exportDef_eq_defOf : exportDef = defOf := rfl

/-- The gates without a definition are exported under their `qelib1.inc` names
(`_GATE_NAME_TO_QASM_NAME`); their meaning under the standard is C04's `shortcut_sound`. -/
theorem base_names_are_qelib1 :
    ∀ e ∈ Gen.gateNameToQasm, e.2 = cs!"U" ∨ (qelib1.find? (fun d => d.name == e.2)).isSome = true := by
  decide

/-! ### The exported program has the circuit's unitary -/

/-- **Unitary of the exported program (class `GoodCircuit`, every register size, every length).**
The text the exporter emits is parsed by the strict recogniser to a program `P`; the standard's
denotation `denote P` — static semantics, then expansion of every call down to the built-ins
`U(θ,φ,λ) = Rz(φ)Ry(θ)Rz(λ)` and `CX` over `qelib1.inc` and the emitted definitions — is a list of
unconditioned built-ins on a `c.N`-qubit register whose product `A` (central embedding algebra,
`Tg.embed`) equals the circuit's unitary `B = denX c.N (gates of c)` up to ONE global phase
(the product of the phases of the individual gates).  `denX` is the complex denotation of the
circuit IR (`denG`, Lemmas/Sem.lean) extended by `QASMU` (generated matrix `Gen.G.qasmu_gate_`);
see `export_den_G` for circuits without `QASMU`.  Proof: naturality of the standard's expansion
in qubits and parameters + localisation (`denP_relabel`) + the per-definition identities
(`definitions_sound`, C04 `shortcut_sound`) transported to the embedding algebra. -/
theorem export_den (c : Circuit) (hc : GoodCircuit c) :
    ∃ lines P ops A B, exportCircuit c = .ok lines ∧ parseLines lines = some P ∧
      denote P = .ok (c.N, (cregsOf c.numCbits).total, ops) ∧
      denOps c.N ops = some A ∧ denX c.N (c.ops.filterMap xOfOp) = some B ∧ PhaseEqN A B :=
  export_den_ops c hc

/-- **… in terms of the circuit IR.**  For a circuit of the class without `QASMU`, let `irList c.ops 0`
be its gates in the circuit IR (`QipVerif.Gate`: same names, controls, targets; the parameter of the
gate at position `i` is the symbol `i`) and `ρ` any valuation giving each symbol the value of that
parameter.  Then the unitary of the exported program equals `denG c.N ρ (irList c.ops 0)` — the
specification object of C01/C03/C07/C13 — up to one global phase. -/
theorem export_den_G (c : Circuit) (hc : GoodCircuit c)
    (hq : ∀ g, Op.gate g ∈ c.ops → g.name ≠ cs!"QASMU")
    (ρ : ℕ → ℝ) (hρ : ∀ i, i < c.ops.length → ρ i = paramAt c.ops i) :
    ∃ lines P ops A B, exportCircuit c = .ok lines ∧ parseLines lines = some P ∧
      denote P = .ok (c.N, (cregsOf c.numCbits).total, ops) ∧
      denOps c.N ops = some A ∧ denG c.N ρ (irList c.ops 0) = some B ∧ PhaseEqN A B := by
  obtain ⟨lines, P, ops, A, B, h1, h2, h3, h4, h5, h6⟩ := export_den_ops c hc
  refine ⟨lines, P, ops, A, B, h1, h2, h3, h4, ?_, h6⟩
  rw [← denX_irList c.N ρ c.ops 0 (fun op hop => by
    obtain ⟨g, rfl, hg⟩ := hc op hop
    exact ⟨g, rfl, hg, hq g hop⟩) (fun i hi => by simpa using hρ i hi)]
  exact h5

/-- **Export, then import: the same unitary (partial: circuits without emitted definitions).**
For every circuit of the exportable class on at least one qubit whose gate names all belong to the
exporter's base table (`QASMU RX RY RZ SNOT X Y Z S T CRZ CNOT TOFFOLI` — the exporter then emits no
`gate` definition, `addedNames … = []`): the exported text parses to a program `P`, the importer
model of C04 (`Import.importProgram`, tied to `read_qasm` by C04's correspondence) accepts `P`
with the same register sizes, and the gate list it returns has — under `denX`, which is `denG` on IR
gates — the unitary of the original circuit up to ONE global phase, on every register size.
Circuits that need an emitted definition (`SWAP SQRTNOT CS CT CRX CRY`) are re-imported as user gates;
their round trip is covered by the per-definition theorems `definitions_sound` / `export_den` and by
C04's user-gate correspondence, not by this theorem. -/
theorem roundtrip_den_partial (c : Circuit) (hc : GoodCircuit c) (hN : 0 < c.N)
    (hb : addedNames c.ops Gen.gateNameToQasm = []) :
    ∃ lines P iops A B, exportCircuit c = .ok lines ∧ parseLines lines = some P ∧
      Import.importProgram P = .ok (c.N, (cregsOf c.numCbits).total, iops) ∧
      denX c.N (c.ops.filterMap xOfOp) = some A ∧ denX c.N (iops.filterMap Import.xOfIOp) = some B ∧
      PhaseEqN B A :=
  roundtrip_den_base c hc hN hb

/-- the hypotheses of `roundtrip_den_partial` are satisfiable -/
example : ∃ c : Circuit, GoodCircuit c ∧ 0 < c.N ∧ addedNames c.ops Gen.gateNameToQasm = [] :=
  ⟨⟨3, 0, [
    .gate ⟨cs!"RX", some [0], none, .num ⟨false, cs!"0.25"⟩, none⟩,
    .gate ⟨cs!"QASMU", some [2], none, .seq cs!"tuple" cs!"(0.1, 0.2, 0.3)"
      [⟨false, cs!"0.1"⟩, ⟨true, cs!"0.0"⟩, ⟨false, cs!"1.5e+20"⟩], none⟩,
    .gate ⟨cs!"CRZ", some [1], some [2], .num ⟨true, cs!"3.141592653589793"⟩, none⟩,
    .gate ⟨cs!"TOFFOLI", some [0], some [2, 1], .none, none⟩]⟩, by
    intro op hop
    simp only [List.mem_cons, List.not_mem_nil, or_false] at hop
    rcases hop with rfl | rfl | rfl | rfl <;>
      exact ⟨_, rfl, ⟨by decide, by decide, by decide, by decide, by decide, by decide, by decide⟩⟩,
    by decide, by decide⟩

/-! ### Counter-examples to the unrestricted statement (recorded findings) -/

/-- A measurement is exported as `measure q[0] -> c[0]` — without the terminating `;`:
the text is emitted (no refusal) and is not valid OpenQASM 2.0. -/
theorem export_measure_counterexample :
    ∃ lines, exportCircuit ⟨1, 1, [.meas [0] (some 0)]⟩ = .ok lines ∧
      cs!"measure q[0] -> c[0]" ∈ lines ∧ parseLine cs!"measure q[0] -> c[0]" = none ∧
      acceptProgram lines = false := by
  refine ⟨_, rfl, by decide, by decide, by decide⟩

/-- `RX(1e-20)`: Python prints the parameter as `1e-20`, which is not a `real` of the
standard's grammar (a decimal point is mandatory); the text is emitted and rejected. -/
theorem export_exponent_counterexample :
    ∃ lines, exportCircuit ⟨1, 0, [.gate ⟨cs!"RX", some [0], none, .num ⟨false, cs!"1e-20"⟩, none⟩]⟩ = .ok lines ∧
      cs!"rx(1e-20) q[0];" ∈ lines ∧ isNumToken cs!"1e-20" = false ∧ acceptProgram lines = false := by
  refine ⟨_, rfl, by decide, by decide, by decide⟩

end QipVerif.C10
