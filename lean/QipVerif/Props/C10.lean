import QipVerif.Model.QasmExport
/-! C10 — property theorems (under construction) -/
namespace QipVerif.C10
end QipVerif.C10
